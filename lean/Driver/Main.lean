import Std.Data.HashSet
import Driver.Proto
import Driver.OpsH
import Driver.NttH
import Driver.SalsaH
import Driver.RandBytesH
import Driver.SettersH
import Driver.SerialH
import Driver.CowH
import Driver.ExprH
import Driver.SimdH
import Driver.CrtH
import Driver.ConcH
import Driver.GaussH
import Driver.SamplersH
namespace Driver

def allHandlers : List (String × Handler) := opsHandlers ++ nttHandlers ++ nttHandlers2 ++ tabHandlers ++ permHandlers ++ salsaHandlers ++ rbHandlers ++ settersHandlers ++ serialHandlers ++ cowHandlers ++ exprHandlers ++ simdHandlers ++ crtHandlers ++ crtHandlers2 ++ concHandlers ++ gaussHandlers ++ samplersHandlers

-- op names must be unique across the handler families (a duplicate would silently shadow a family)
#guard (allHandlers.map (·.1)).eraseDups.length == allHandlers.length

def findHandler (op : String) : Option Handler := (allHandlers.find? (·.1 == op)).map (·.2)

structure Stats where
  lines : Nat := 0
  ok : Nat := 0
  modelDiff : Nat := 0
  specFail : Nat := 0
  bad : Nat := 0
  classes : List (String × Nat) := []

def bump (cs : List (String × Nat)) (k : String) : List (String × Nat) :=
  match cs with
  | [] => [(k, 1)]
  | (k', n) :: t => if k' == k then (k', n + 1) :: t else (k', n) :: bump t k

def processLine (st : Stats) (lineNo : Nat) (line : String) : IO (Stats × Option String) := do
  let line := line.trimAscii.toString
  if line.isEmpty || line.startsWith "#" then return (st, none)
  let st := { st with lines := st.lines + 1 }
  match line.splitOn " =>" with
  | [lhs, rhs] =>
    let ltoks := (lhs.splitOn " ").filter (· ≠ "")
    let rtoks := (rhs.splitOn " ").filter (· ≠ "")
    match ltoks with
    | op :: argToks =>
      match findHandler op, argToks.mapM parseInt?, rtoks.mapM parseInt? with
      | some h, some args, some impl =>
        let rv ← h.run args
        let sv ← h.spec args impl
        let lhsShort := if lhs.length > 300 then (lhs.take 300).toString ++ " …" else lhs
        match rv, sv with
        | some v, some sok =>
          let st := { st with classes := bump st.classes (op ++ ":" ++ v.cls) }
          if !sok then
            let y ← h.why args impl
            let y := if y.isEmpty then "" else "[" ++ y ++ "] "
            return ({ st with specFail := st.specFail + 1 },
             some s!"SPECFAIL {lineNo} {y}{lhsShort} => impl {showInts (impl.take 64)} model {showInts (v.model.take 64)}")
          else if !v.relational && v.model != impl then
            return ({ st with modelDiff := st.modelDiff + 1 },
             some s!"MODELDIFF {lineNo} {lhsShort} => impl {showInts (impl.take 64)} model {showInts (v.model.take 64)}")
          else return ({ st with ok := st.ok + 1 }, none)
        | _, _ => return ({ st with bad := st.bad + 1 }, some s!"BAD {lineNo} handler-rejected {lhsShort}")
      | _, _, _ => return ({ st with bad := st.bad + 1 }, some s!"BAD {lineNo} unparsable {(lhs.take 200).toString}")
    | [] => return ({ st with bad := st.bad + 1 }, some s!"BAD {lineNo} empty")
  | _ => return ({ st with bad := st.bad + 1 }, some s!"BAD {lineNo} no-arrow")

/-- at most this many non-OK lines are reported in full (the rest are only counted) -/
def reportCap : Nat := 200

partial def loop (h : IO.FS.Stream) (out : IO.FS.Stream) (st : Stats) (n : Nat)
    (seen : Std.HashSet UInt64) (reported : Nat) : IO (Stats × Nat) := do
  let line ← h.getLine
  if line.isEmpty then return (st, seen.size)
  let (st', msg) ← processLine st n line
  let lhs := (line.splitOn " =>").headD ""
  let seen := if st'.lines > st.lines then seen.insert (hash lhs) else seen
  match msg with
  | some m =>
    if reported < reportCap then
      out.putStrLn m
      -- the full original line, for replay (the message above may be truncated)
      out.putStrLn s!"FULL {n} {line.trimAscii.toString}"
    loop h out st' (n + 1) seen (reported + 1)
  | none => loop h out st' (n + 1) seen reported

def main : IO UInt32 := do
  let stdin ← IO.getStdin
  let stdout ← IO.getStdout
  let (st, distinct) ← loop stdin stdout {} 1 {} 0
  for (k, n) in st.classes do
    stdout.putStrLn s!"CLASS {k} {n}"
  stdout.putStrLn s!"SUMMARY lines={st.lines} ok={st.ok} modeldiff={st.modelDiff} specfail={st.specFail} bad={st.bad} distinct={distinct}"
  return (if st.modelDiff + st.specFail + st.bad = 0 then 0 else 1)

end Driver

def main : IO UInt32 := Driver.main
