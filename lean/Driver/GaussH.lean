/- Handlers for C10/C11: Gaussian sampler tables, single decodes, whole `getNoise` calls. -/
import Driver.OpsH
import NflVerif.Model.Gauss
import NflVerif.Spec.GaussSpec
import NflVerif.Model.GaussParams
import NflVerif.Model.GaussLife
import NflVerif.Model.Samplers
namespace Driver
open Nfl.Gauss

structure GCfg where
  W : Nat
  depth : Nat
  wp : Nat
  nb : Nat
  rc : Int
  ob : Nat            -- width of `out_class` in bits
  osg : Bool          -- `out_class` is a signed type
  bs : List Str
  T : Tables          -- the REAL tables, as dumped by the harness
  v0 : Int

initialize gaussCache : IO.Ref (List (Nat × GCfg)) ← IO.mkRef []

def gaussCfg (id : Nat) : IO (Option GCfg) := do
  let c ← gaussCache.get
  pure ((c.find? (·.1 == id)).map (·.2))

/-- chop `n` chunks_GaussH of `k` from a list -/
def chunks_GaussH (k : Nat) : Nat → List Nat → List (List Nat)
  | 0, _ => []
  | n + 1, xs => xs.take k :: chunks_GaussH k n (xs.drop k)

/-- `nitems` run-length items (see harness/gauss.cpp) → cells -/
def parseItems (ba : Array Str) : Nat → List Int → Array Cell → Option (Array Cell × List Int)
  | 0, xs, acc => some (acc, xs)
  | n + 1, xs, acc =>
    match xs with
    | 0 :: cnt :: v :: rest => parseItems ba n rest (acc ++ Array.replicate cnt.toNat { val := v })
    | tag :: v :: k :: rest =>
      if tag == 1 || tag == 2 then
        let idx := rest.take k.toNat
        if idx.length != k.toNat then none else
        let bl := idx.map fun i => if i < 0 then [] else ba.getD i.toNat []
        parseItems ba n (rest.drop k.toNat) (acc.push { val := v, flag := tag == 1, bl := bl })
      else none
    | _ => none

def parseTable (ba : Array Str) (xs : List Int) : Option (Array Cell × List Int) :=
  match xs with
  | n :: rest => parseItems ba n.toNat rest #[]
  | _ => none

def parseRows (ba : Array Str) (W : Nat) : Nat → List Int → Array (Option (Array Cell)) → Option (Array (Option (Array Cell)) × List Int)
  | 0, xs, acc => some (acc, xs)
  | n + 1, xs, acc =>
    match xs with
    | i :: rest =>
      match parseTable ba rest with
      | some (row, rest') => if i.toNat < W then parseRows ba W n rest' (acc.set! i.toNat (some row)) else none
      | none => none
    | _ => none

def parseGtab (args : List Int) : Option (Nat × GCfg) :=
  match args with
  | id :: W :: depth :: wp :: nb :: rc :: ob :: osg :: rest =>
    let (W, depth, wp, nb) := (W.toNat, depth.toNat, wp.toNat, nb.toNat)
    if !([8, 16, 32, 64].contains ob.toNat) || (osg != 0 && osg != 1) then none else
    let words := (rest.take (nb * wp)).map Int.toNat
    if words.length != nb * wp then none else
    let bs := chunks_GaussH wp nb words
    let ba := bs.toArray
    match parseTable ba (rest.drop (nb * wp)) with
    | some (t1, rest1) =>
      match rest1 with
      | nrows :: rest2 =>
        match parseRows ba W nrows.toNat rest2 (Array.replicate (if depth == 2 then W else 0) none) with
        | some (t2, []) => some (id.toNat, { W, depth, wp, nb, rc, ob := ob.toNat, osg := osg == 1, bs, T := ⟨t1, t2⟩, v0 := v0Of nb rc })
        | _ => none
      | _ => none
    | none => none
  | _ => none

def nbBucket (nb : Nat) : String :=
  if nb ≤ 16 then "nb≤16" else if nb ≤ 128 then "nb≤128" else if nb ≤ 1024 then "nb≤1024" else "nb>1024"

def pathName (wp used : Nat) : String :=
  if used == 1 then "1-word" else if used == 2 && wp != 2 then "2-word" else "full-compare"

def probeKind (k : Int) : String :=
  match k with
  | 0 => "bisect" | 1 => "cell1-edge" | 2 => "cell2-edge" | 3 => "barrier±1" | 5 => "flagged-negative-cell" | _ => "random/const"

def streamKind (k : Int) : String :=
  match k with
  | 0 => "random" | 1 => "all-zero" | 2 => "all-ones" | 3 => "barrier,last±1" | 4 => "barrier-copies" | 5 => "flagged-words" | 7 => "negative-barriers,last±1" | _ => "barrier-prefix"

/-- `i32`, `u64`, … -/
def outName (c : GCfg) : String := (if c.osg then "i" else "u") ++ toString c.ob

/-- class of one decode: which path, and whether a walk over a flagged cell's barrier list produced a negative sample -/
def decClass (c : GCfg) (d : Dec) : String :=
  pathName c.wp d.used ++ (if d.used == c.wp then (if d.out < 0 then ":negative" else ":non-negative") else "")

/-- every implementation output is a value of `out_class`, and read as the signed type of that width it is the integer `want` -/
def outsAre (c : GCfg) (impl want : List Int) : Bool :=
  impl.all (inOutRange c.ob c.osg) && impl.map (readOut c.ob) == want

def lenBucket (n : Nat) : String :=
  if n == 0 then "rlen=0" else if n ≤ 2 then "rlen≤2" else if n ≤ 16 then "rlen≤16" else if n ≤ 64 then "rlen≤64" else if n ≤ 1024 then "rlen≤1024" else "rlen>1024"

/-- checks on the model's trace (these are theorems of C11; re-evaluated here on the very run that matched the implementation) -/
def traceOK (wp bufLen : Nat) : Nat → Nat → List Ev → Bool
  | _, _, [] => true
  | req, pos, e :: t =>
    e.req == req && e.pos == pos && e.seen ≤ e.used && e.pos + e.seen ≤ bufLen && e.pos + e.used ≤ bufLen &&
    (if e.pos + e.used + wp ≥ bufLen then traceOK wp bufLen (req + 1) 0 t else traceOK wp bufLen req (e.pos + e.used) t)

/-! ### coverage classes of the constructor's parameter space -/
def isPow2 (m : Nat) : Bool := m != 0 && (m &&& (m - 1)) == 0

def mClass (m : Nat) : String :=
  if isPow2 m then "2^j" else if isPow2 (m + 1) || isPow2 (m - 1) then "2^j±1"
  else if [10, 100, 1000, 10000, 100000, 1000000, 10000000].contains m then "10^j"
  else if m % 2 == 0 then "other-even" else "other-odd"

def lamClass (l : Nat) : String := if l % 16 == 0 then "16|λ" else if l % 8 == 0 then "8|λ" else "8∤λ"

def sigmaClass (sn sd : Nat) : String :=
  (if sn < sd then "<1" else if sn < 10 * sd then "<10" else if sn < 100 * sd then "<100" else "≥100") ++
    (if sd == 1 then "" else if sn * 100 % sd == 0 then "(1/100)" else "(fine)")

def centreClass (cn : Int) (cd : Nat) (ctor : Int) : String :=
  (if cn % (cd : Int) == 0 then "int" else if cn * 2 % (cd : Int) == 0 then "half" else if isPow2 cd then "dyadic" else "non-dyadic") ++
    (if ctor == 2 then "/mpfr256" else if ctor == 1 then "/mpfr" else "")

def wordBitsOf (W : Nat) : Nat := if W == 256 then 8 else if W == 65536 then 16 else 0

/-! ### lifecycles (`glc`) -/
open Nfl.Gauss.Life in
def parseEvts : Nat → List Int → Option (List (Evt × Nat))
  | 0, [] => some []
  | 0, _ => none
  | n + 1, op :: obj :: thr :: arg :: rest =>
    (parseEvts n rest).map fun l => ({ op := op.toNat, obj := obj.toNat, thr := thr.toNat }, arg.toNat) :: l
  | _, _ => none

open Nfl.Gauss.Life in
/-- how construction and destruction threads relate, over all samplers of the lifecycle -/
def lifeRelation (evs : List Evt) : String :=
  let rec go (l : List Evt) (ctorThr : List (Nat × Nat)) (ended : List Nat) (acc : Nat) : Nat :=
    match l with
    | [] => acc
    | e :: t =>
      if e.op == 0 then go t ((e.obj, e.thr) :: ctorThr.filter (·.1 != e.obj)) (ended.filter (· != e.thr)) acc
      else if e.op == 3 then go t ctorThr (e.thr :: ended) acc
      else if e.op == 2 then
        match ctorThr.find? (·.1 == e.obj) with
        | some (_, tc) =>
          let k := if tc == 9 || ended.contains tc then 2 else if tc != e.thr then 1 else 0
          go t ctorThr ended (max acc k)
        | none => go t ctorThr ended acc
      else go t ctorThr (ended.filter (· != e.thr)) acc
  match go evs [] [] 0 with
  | 0 => "ctor-thread=dtor-thread" | 1 => "dtor-on-other-thread" | _ => "ctor-thread-ended-before-dtor"

open Nfl.Gauss.Life in
def lifeOrder (evs : List Evt) : String :=
  let cs := (evs.filter (·.op == 0)).map (·.obj)
  let ds := (evs.filter (·.op == 2)).map (·.obj)
  if cs.length ≤ 1 then "single" else if cs == ds then "fifo" else if cs == ds.reverse then "lifo" else "mixed"

def gaussHandlers : List (String × Handler) := [
  ("gtab", {
    run := fun a => do
      match parseGtab a with
      | none => pure none
      | some (id, c) =>
        gaussCache.modify fun l => (id, c) :: l.filter (·.1 != id)
        let m := match buildLUT c.depth c.W c.bs c.rc with
          | some T => if T == c.T then 1 else 0
          | none => 2
        pure (some { model := [m], specOk := true, cls := s!"W={c.W}:depth={c.depth}:out={outName c}:{nbBucket c.nb}" }),
    spec := fun a _ => do
      match a with
      | id :: _ =>
        match ← gaussCfg id.toNat with
        | none => pure none
        | some c =>
          pure (some (barriersWF c.W c.wp c.bs && sortedB c.bs && c.nb % 2 == 1 && c.bs.length == c.nb && c.depth ≤ c.wp &&
            lastOnes c.W c.depth c.bs && tableOK c.depth c.W c.bs c.v0 c.T && shapeOK c.depth c.W c.wp c.T &&
            -- every sample v0 … v0+nb is representable in the signed type of out_class's width (else the cast loses it)
            fitsOut c.ob c.v0 (c.v0 + c.nb)))
      | _ => pure none }),
  ("gdec", {
    run := fun a => do
      match a with
      | id :: kind :: u =>
        match ← gaussCfg id.toNat with
        | none => pure none
        | some c =>
          let u := u.map Int.toNat
          match decode c.depth c.wp c.T u with
          | some d => pure (some { model := [outStore c.ob c.osg d.out], specOk := true,
                                   cls := s!"W={c.W}:depth={c.depth}:out={outName c}:{probeKind kind}:{decClass c d}" })
          | none => pure (some { model := [], specOk := true, cls := "model-rejects" })
      | _ => pure none,
    spec := fun a impl => do
      match a with
      | id :: _ :: u =>
        match ← gaussCfg id.toNat with
        | none => pure none
        | some c => pure (some (u.length == c.wp && outsAre c impl [invCDF c.bs c.v0 (u.map Int.toNat)]))
      | _ => pure none }),
  ("gstep", {
    run := fun a => do
      match a with
      | [id, j] =>
        match ← gaussCfg id.toNat with
        | none => pure none
        | some c => pure (some { model := (c.bs.getD j.toNat []).map Int.ofNat, specOk := true, cls := s!"W={c.W}:depth={c.depth}" })
      | _ => pure none,
    spec := fun a impl => do
      match a with
      | [id, j] =>
        match ← gaussCfg id.toNat with
        | none => pure none
        | some c => pure (some (j.toNat < c.nb && impl == (c.bs.getD j.toNat []).map Int.ofNat))
      | _ => pure none }),
  ("gn", {
    run := fun a => do
      match a with
      | id :: rlen :: bufLen :: kind :: tape =>
        match ← gaussCfg id.toNat with
        | none => pure none
        | some c =>
          let (rlen, bufLen) := (rlen.toNat, bufLen.toNat)
          let arr := (tape.map Int.toNat).toArray
          let fills := fun r => (arr.extract (r * bufLen) ((r + 1) * bufLen)).toList
          let cls := s!"W={c.W}:depth={c.depth}:out={outName c}:{streamKind kind}:{lenBucket rlen}"
          match getNoise c.depth c.wp c.T bufLen fills rlen with
          | some evs =>
            let paths := (if evs.any (·.used == c.wp) then "+full" else "") ++ (if evs.any (fun e => e.used == c.wp && e.out < 0) then "+full:negative" else "") ++
              (if evs.any (fun e => e.pos == 0 && e.req > 0) then "+refill" else "")
            pure (some { model := [Int.ofNat (requests c.wp bufLen evs), 1, 1] ++ evs.map (fun e => outStore c.ob c.osg e.out), specOk := true, cls := cls ++ paths })
          | none => pure (some { model := [-1], specOk := true, cls := cls ++ ":model-over-read" })
      | _ => pure none,
    spec := fun a impl => do
      match a with
      | id :: rlen :: bufLen :: _ :: tape =>
        match ← gaussCfg id.toNat with
        | none => pure none
        | some c =>
          let (rlen, bufLen) := (rlen.toNat, bufLen.toNat)
          let arr := (tape.map Int.toNat).toArray
          let fills := fun r => (arr.extract (r * bufLen) ((r + 1) * bufLen)).toList
          -- (1) the theorems' conclusions re-evaluated on the model trace of this very run
          let tr := match getNoise c.depth c.wp c.T bufLen fills rlen with
            | some evs => traceOK c.wp bufLen 0 0 evs && evs.length == rlen
            | none => false
          -- (2) the implementation's outputs and request count against the table-free reference decoder
          let ref := match Spec.refRun c.depth c.wp c.bs c.v0 bufLen fills rlen 0 0 ((fills 0).take bufLen) with
            | some (outs, nreq) => outsAre c (impl.drop 3) outs && impl.headD 0 == Int.ofNat nreq
            | none => false
          pure (some (c.wp ≤ bufLen && impl.length == rlen + 3 && (impl.drop 1).take 2 == [1, 1] && tr && ref))
      | _ => pure none }),
  ("gpoly", {
    -- `poly<T,n,nm>::set(gaussian<in_class,T,depth>(sampler, amp))`, T = the sampler's out_class (unsigned, `w` bits):
    -- model = getNoise loop model → `(T) output` → read back as `signed_value_type` → `Samplers.setGaussian` (amplifier, `p + v` for v < 0);
    -- spec = every coefficient is the residue mod p of amp × (inverse CDF of the table-free reference run)
    run := fun a => do
      match a with
      | id :: w :: n :: nm :: amp :: rest =>
        match ← gaussCfg id.toNat with
        | none => pure none
        | some c =>
          let (w, n, nm, amp) := (w.toNat, n.toNat, nm.toNat, amp.toNat)
          let ps := (rest.take nm).map Int.toNat
          match rest.drop nm with
          | bufLen :: kind :: tape =>
            let bufLen := bufLen.toNat
            let arr := (tape.map Int.toNat).toArray
            let fills := fun r => (arr.extract (r * bufLen) ((r + 1) * bufLen)).toList
            let cls := s!"W={c.W}:depth={c.depth}:poly<u{w}>:{streamKind kind}:amp={amp}"
            if w != c.ob || c.osg || ps.length != nm then pure (some { model := [], specOk := true, cls := "model-rejects:type" }) else
            match getNoise c.depth c.wp c.T bufLen fills n with
            | some evs =>
              let rnd := evs.map fun e => readOut w (outStore c.ob c.osg e.out)
              let neg := if evs.any (fun e => e.used == c.wp && e.out < 0) then "+full:negative" else if evs.any (·.out < 0) then "+negative" else ""
              let data := (Nfl.Samplers.setGaussian w n ps amp rnd).flatten
              pure (some { model := Int.ofNat (requests c.wp bufLen evs) :: data.map Int.ofNat, specOk := true, cls := cls ++ neg })
            | none => pure (some { model := [-1], specOk := true, cls := cls ++ ":model-over-read" })
          | _ => pure none
      | _ => pure none,
    spec := fun a impl => do
      match a with
      | id :: w :: n :: nm :: amp :: rest =>
        match ← gaussCfg id.toNat with
        | none => pure none
        | some c =>
          let (w, n, nm) := (w.toNat, n.toNat, nm.toNat)
          let ps := (rest.take nm).map Int.toNat
          match rest.drop nm with
          | bufLen :: _ :: tape =>
            let bufLen := bufLen.toNat
            let arr := (tape.map Int.toNat).toArray
            let fills := fun r => (arr.extract (r * bufLen) ((r + 1) * bufLen)).toList
            match Spec.refRun c.depth c.wp c.bs c.v0 bufLen fills n 0 0 ((fills 0).take bufLen) with
            | some (outs, nreq) =>
              -- the statement is about amplified samples below every modulus and inside the signed limb
              let small := outs.all fun v => ps.all fun p => decide ((v * amp).natAbs < p) && decide ((v * amp).natAbs < 2 ^ (w - 1))
              let want : List Int := ps.flatMap fun (p : Nat) => outs.map fun v => (v * amp) % (p : Int)
              pure (some (c.wp ≤ bufLen && w == c.ob && !c.osg && ps.length == nm && ps.all (· > 0) && small &&
                impl.headD 0 == Int.ofNat nreq && impl.drop 1 == want))
            | none => pure (some false)
          | _ => pure none
      | _ => pure none }),
  ("gtv", {
    run := fun a => pure (match a with
      | [W, _, m, _, _, cn, cd, ctor] =>
        some { model := [], specOk := true, relational := true,
               cls := s!"W={W}:m={mClass m.toNat}:c={centreClass cn cd.toNat ctor}" }
      | _ => none),
    spec := fun a impl => pure (match a, impl with
      | [W, _, m, _, sd, _, cd, _], [ratio, wp, _, hyp, bits] =>
        some (1 ≤ m && 1 ≤ sd && 1 ≤ cd && 0 ≤ ratio && ratio ≤ 1000000 && hyp == 1 && bits == wp * wordBitsOf W.toNat)
      | _, _ => none) }),
  ("gpar", {
    -- the derived parameters of a live object against the exact-integer model of `init()` (Model/GaussParams.lean)
    run := fun a => pure (match a with
      | [W, lam, m, sn, sd, wp, nb, bits] =>
        some { model := [if paramsOK (wordBitsOf W.toNat) lam.toNat m.toNat sn.toNat sd.toNat wp.toNat nb.toNat bits.toNat then 1 else 0],
               specOk := true, cls := s!"W={W}:{lamClass lam.toNat}:σ={sigmaClass sn.toNat sd.toNat}" }
      | _ => none),
    spec := fun a _ => pure (match a with
      | [W, lam, m, sn, sd, wp, nb, bits] =>
        some (wordBitsOf W.toNat != 0 && 32 ≤ lam && 1 ≤ m && 0 < sn && 0 < sd && nb % 2 == 1 && 0 < wp && bits == wp * wordBitsOf W.toNat)
      | _ => none) }),
  -- the mpfr_t centre handed to the constructor is the caller's object: unchanged (value, precision, limb storage) after
  -- construction and after destruction of the sampler ("construction … and destruction access only their own buffers")
  ("gctorarg", {
    run := fun a => pure (match a with
      | [W, d, ctor, whn] => some { model := [0, 0, 0], specOk := true,
                                    cls := s!"W={W}:depth={d}:ctor={ctor}:{if whn == 0 then "after-construction" else "after-destruction"}" }
      | _ => none),
    spec := fun _ impl => pure (some (impl == [0, 0, 0])) }),
  ("glife", {
    run := fun a => pure (match a with
      | [W, d, _, m, _, _, _, _, ctor] => some { model := [], specOk := true, relational := true, cls := s!"W={W}:depth={d}:m={mClass m.toNat}:ctor={ctor}" }
      | _ => none),
    spec := fun a impl => pure (match a, impl with
      | [W, d, _, _, _, _, _, _, _], [nb, wp, hyp, bits] => some (nb % 2 == 1 && d ≤ wp && hyp == 1 && bits == wp * wordBitsOf W.toNat)
      | _, _ => none) }),
  ("glc", {
    -- a lifecycle over threads: the allocation model's residue (0 by `C11.lifecycle_releases_all`) against the allocator's
    run := fun a => pure (match a with
      | nobj :: nev :: rest =>
        let nobj := nobj.toNat
        match parseEvts nev.toNat (rest.drop (9 * nobj)) with
        | some evs =>
          let es := evs.map (·.1)
          let cls := s!"samplers={nobj}:{lifeRelation es}:{lifeOrder es}"
          match Nfl.Gauss.Life.run .inCtor 1 1 .init es with
          | some s =>
            if Nfl.Gauss.Life.allDead nobj s && es.all (fun e => e.obj < nobj || e.op == 3) then
              some { model := [Int.ofNat (Nfl.Gauss.Life.residual 10 nobj s), 0, 1], specOk := true, cls := cls }
            else some { model := [], specOk := true, cls := "model-rejects:sampler-left-alive" }
          | none => some { model := [], specOk := true, cls := "model-rejects:ill-formed" }
        | none => none
      | _ => none),
    spec := fun a impl => pure (match a, impl with
      | nobj :: nev :: rest, [blocks, bytes, hyp] =>
        some (rest.length == 9 * nobj.toNat + 4 * nev.toNat && blocks == 0 && bytes == 0 && hyp == 1)
      | _, _ => none) })
]

end Driver
