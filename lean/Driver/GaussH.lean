/- Handlers for C10/C11: Gaussian sampler tables, single decodes, whole `getNoise` calls. -/
import Driver.OpsH
import NflVerif.Model.Gauss
import NflVerif.Spec.GaussSpec
namespace Driver
open Nfl.Gauss

structure GCfg where
  W : Nat
  depth : Nat
  wp : Nat
  nb : Nat
  rc : Int
  bs : List Str
  T : Tables          -- the REAL tables, as dumped by the harness
  v0 : Int

initialize gaussCache : IO.Ref (List (Nat × GCfg)) ← IO.mkRef []

def gaussCfg (id : Nat) : IO (Option GCfg) := do
  let c ← gaussCache.get
  pure ((c.find? (·.1 == id)).map (·.2))

/-- chop `n` chunks_GaussH of `k` from a list -/
def chunks_GaussH (k : Nat) : Nat → List Nat → List (List Nat)
  | 0, _ => []
  | n + 1, xs => xs.take k :: chunks_GaussH k n (xs.drop k)

/-- `nitems` run-length items (see harness/gauss.cpp) → cells -/
def parseItems (ba : Array Str) : Nat → List Int → Array Cell → Option (Array Cell × List Int)
  | 0, xs, acc => some (acc, xs)
  | n + 1, xs, acc =>
    match xs with
    | 0 :: cnt :: v :: rest => parseItems ba n rest (acc ++ Array.replicate cnt.toNat { val := v })
    | tag :: v :: k :: rest =>
      if tag == 1 || tag == 2 then
        let idx := rest.take k.toNat
        if idx.length != k.toNat then none else
        let bl := idx.map fun i => if i < 0 then [] else ba.getD i.toNat []
        parseItems ba n (rest.drop k.toNat) (acc.push { val := v, flag := tag == 1, bl := bl })
      else none
    | _ => none

def parseTable (ba : Array Str) (xs : List Int) : Option (Array Cell × List Int) :=
  match xs with
  | n :: rest => parseItems ba n.toNat rest #[]
  | _ => none

def parseRows (ba : Array Str) (W : Nat) : Nat → List Int → Array (Option (Array Cell)) → Option (Array (Option (Array Cell)) × List Int)
  | 0, xs, acc => some (acc, xs)
  | n + 1, xs, acc =>
    match xs with
    | i :: rest =>
      match parseTable ba rest with
      | some (row, rest') => if i.toNat < W then parseRows ba W n rest' (acc.set! i.toNat (some row)) else none
      | none => none
    | _ => none

def parseGtab (args : List Int) : Option (Nat × GCfg) :=
  match args with
  | id :: W :: depth :: wp :: nb :: rc :: rest =>
    let (W, depth, wp, nb) := (W.toNat, depth.toNat, wp.toNat, nb.toNat)
    let words := (rest.take (nb * wp)).map Int.toNat
    if words.length != nb * wp then none else
    let bs := chunks_GaussH wp nb words
    let ba := bs.toArray
    match parseTable ba (rest.drop (nb * wp)) with
    | some (t1, rest1) =>
      match rest1 with
      | nrows :: rest2 =>
        match parseRows ba W nrows.toNat rest2 (Array.replicate (if depth == 2 then W else 0) none) with
        | some (t2, []) => some (id.toNat, { W, depth, wp, nb, rc, bs, T := ⟨t1, t2⟩, v0 := v0Of nb rc })
        | _ => none
      | _ => none
    | none => none
  | _ => none

def nbBucket (nb : Nat) : String :=
  if nb ≤ 16 then "nb≤16" else if nb ≤ 128 then "nb≤128" else if nb ≤ 1024 then "nb≤1024" else "nb>1024"

def pathName (wp used : Nat) : String :=
  if used == 1 then "1-word" else if used == 2 && wp != 2 then "2-word" else "full-compare"

def probeKind (k : Int) : String :=
  match k with
  | 0 => "bisect" | 1 => "cell1-edge" | 2 => "cell2-edge" | 3 => "barrier±1" | _ => "random/const"

def streamKind (k : Int) : String :=
  match k with
  | 0 => "random" | 1 => "all-zero" | 2 => "all-ones" | 3 => "barrier,last±1" | 4 => "barrier-copies" | 5 => "flagged-words" | _ => "barrier-prefix"

def lenBucket (n : Nat) : String :=
  if n == 0 then "rlen=0" else if n ≤ 2 then "rlen≤2" else if n ≤ 16 then "rlen≤16" else if n ≤ 64 then "rlen≤64" else if n ≤ 1024 then "rlen≤1024" else "rlen>1024"

/-- checks on the model's trace (these are theorems of C11; re-evaluated here on the very run that matched the implementation) -/
def traceOK (wp bufLen : Nat) : Nat → Nat → List Ev → Bool
  | _, _, [] => true
  | req, pos, e :: t =>
    e.req == req && e.pos == pos && e.seen ≤ e.used && e.pos + e.seen ≤ bufLen && e.pos + e.used ≤ bufLen &&
    (if e.pos + e.used + wp ≥ bufLen then traceOK wp bufLen (req + 1) 0 t else traceOK wp bufLen req (e.pos + e.used) t)

def gaussHandlers : List (String × Handler) := [
  ("gtab", {
    run := fun a => do
      match parseGtab a with
      | none => pure none
      | some (id, c) =>
        gaussCache.modify fun l => (id, c) :: l.filter (·.1 != id)
        let m := match buildLUT c.depth c.W c.bs c.rc with
          | some T => if T == c.T then 1 else 0
          | none => 2
        pure (some { model := [m], specOk := true, cls := s!"W={c.W}:depth={c.depth}:{nbBucket c.nb}" }),
    spec := fun a _ => do
      match a with
      | id :: _ =>
        match ← gaussCfg id.toNat with
        | none => pure none
        | some c =>
          pure (some (barriersWF c.W c.wp c.bs && sortedB c.bs && c.nb % 2 == 1 && c.bs.length == c.nb && c.depth ≤ c.wp &&
            lastOnes c.W c.depth c.bs && tableOK c.depth c.W c.bs c.v0 c.T && shapeOK c.depth c.W c.wp c.T))
      | _ => pure none }),
  ("gdec", {
    run := fun a => do
      match a with
      | id :: kind :: u =>
        match ← gaussCfg id.toNat with
        | none => pure none
        | some c =>
          let u := u.map Int.toNat
          match decode c.depth c.wp c.T u with
          | some d => pure (some { model := [d.out], specOk := true, cls := s!"W={c.W}:depth={c.depth}:{probeKind kind}:{pathName c.wp d.used}" })
          | none => pure (some { model := [], specOk := true, cls := "model-rejects" })
      | _ => pure none,
    spec := fun a impl => do
      match a with
      | id :: _ :: u =>
        match ← gaussCfg id.toNat with
        | none => pure none
        | some c => pure (some (u.length == c.wp && impl == [invCDF c.bs c.v0 (u.map Int.toNat)]))
      | _ => pure none }),
  ("gstep", {
    run := fun a => do
      match a with
      | [id, j] =>
        match ← gaussCfg id.toNat with
        | none => pure none
        | some c => pure (some { model := (c.bs.getD j.toNat []).map Int.ofNat, specOk := true, cls := s!"W={c.W}:depth={c.depth}" })
      | _ => pure none,
    spec := fun a impl => do
      match a with
      | [id, j] =>
        match ← gaussCfg id.toNat with
        | none => pure none
        | some c => pure (some (j.toNat < c.nb && impl == (c.bs.getD j.toNat []).map Int.ofNat))
      | _ => pure none }),
  ("gn", {
    run := fun a => do
      match a with
      | id :: rlen :: bufLen :: kind :: tape =>
        match ← gaussCfg id.toNat with
        | none => pure none
        | some c =>
          let (rlen, bufLen) := (rlen.toNat, bufLen.toNat)
          let arr := (tape.map Int.toNat).toArray
          let fills := fun r => (arr.extract (r * bufLen) ((r + 1) * bufLen)).toList
          let cls := s!"W={c.W}:depth={c.depth}:{streamKind kind}:{lenBucket rlen}"
          match getNoise c.depth c.wp c.T bufLen fills rlen with
          | some evs =>
            let paths := (if evs.any (·.used == c.wp) then "+full" else "") ++ (if evs.any (fun e => e.pos == 0 && e.req > 0) then "+refill" else "")
            pure (some { model := [Int.ofNat (requests c.wp bufLen evs), 1, 1] ++ evs.map (·.out), specOk := true, cls := cls ++ paths })
          | none => pure (some { model := [-1], specOk := true, cls := cls ++ ":model-over-read" })
      | _ => pure none,
    spec := fun a impl => do
      match a with
      | id :: rlen :: bufLen :: _ :: tape =>
        match ← gaussCfg id.toNat with
        | none => pure none
        | some c =>
          let (rlen, bufLen) := (rlen.toNat, bufLen.toNat)
          let arr := (tape.map Int.toNat).toArray
          let fills := fun r => (arr.extract (r * bufLen) ((r + 1) * bufLen)).toList
          -- (1) the theorems' conclusions re-evaluated on the model trace of this very run
          let tr := match getNoise c.depth c.wp c.T bufLen fills rlen with
            | some evs => traceOK c.wp bufLen 0 0 evs && evs.length == rlen
            | none => false
          -- (2) the implementation's outputs and request count against the table-free reference decoder
          let ref := match Spec.refRun c.depth c.wp c.bs c.v0 bufLen fills rlen 0 0 ((fills 0).take bufLen) with
            | some (outs, nreq) => impl.drop 3 == outs && impl.headD 0 == Int.ofNat nreq
            | none => false
          pure (some (c.wp ≤ bufLen && impl.length == rlen + 3 && (impl.drop 1).take 2 == [1, 1] && tr && ref))
      | _ => pure none }),
  ("gtv", {
    run := fun a => pure (match a with
      | [W, lam, _, s, _, _] =>
        some { model := [], specOk := true, relational := true,
               cls := s!"W={W}:λ={if lam < 64 then "<64" else if lam < 128 then "<128" else if lam < 256 then "<256" else "256"}:σ={if s < 1000 then "<1" else if s < 10000 then "<10" else if s < 100000 then "<100" else "≥100"}" }
      | _ => none),
    spec := fun _ impl => pure (match impl with
      | [ratio, _, _, hyp] => some (0 ≤ ratio && ratio ≤ 1000000 && hyp == 1)
      | _ => none) }),
  ("glife", {
    run := fun a => pure (match a with
      | [W, d, lam, _, _, _, ctor] => some { model := [], specOk := true, relational := true, cls := s!"W={W}:depth={d}:λ={lam}:ctor={ctor}" }
      | _ => none),
    spec := fun a impl => pure (match a, impl with
      | [_, d, _, _, _, _, _], [nb, wp, hyp] => some (nb % 2 == 1 && d ≤ wp && hyp == 1)
      | _, _ => none) })
]

end Driver
