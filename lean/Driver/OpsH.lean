/- Handlers for C03: scalar functors. -/
import Driver.Proto
import Driver.Tables
import NflVerif.Model.Ops
import NflVerif.Spec.Arith
namespace Driver
open Nfl

/-- boundary class of an operand pair w.r.t. the modulus (coverage histogram) -/
def clsSum (p x y : Nat) : String :=
  if x + y + 1 = p then "sum=p-1" else if x + y = p then "sum=p" else if x + y = p + 1 then "sum=p+1"
  else if x = 0 || y = 0 then "zero" else if x + 1 = p || y + 1 = p then "p-1" else "generic"

def clsProd (p x y : Nat) : String :=
  let r := x * y % p
  if x = 0 || y = 0 then "zero" else if r = 0 then "prod≡0" else if r = 1 then "prod≡1" else if r + 1 = p then "prod≡p-1"
  else if x + 1 = p || y + 1 = p then "p-1" else if x = 1 || y = 1 then "one"
  -- worst case of a high-word quotient estimate: both operands in the top eighth, remainder within 64 of 0 or of p
  else if 8 * x ≥ 7 * p && 8 * y ≥ 7 * p && (r < 64 || r + 64 ≥ p) then (if r < 64 then "top-operands:rem<64" else "top-operands:rem>p-64")
  else "generic"

def hAddmod : List Int → Option Verdict
  | [w, cm, x, y] => do
    let (w, cm, x, y) := (w.toNat, cm.toNat, x.toNat, y.toNat)
    let r ← rowOf w cm
    pure { model := [addmod w r.p x y], specOk := true, cls := clsSum r.p x y }
  | _ => none

/-- spec verdicts are evaluated against the implementation's result `impl` -/
def specScalar (f : Nat) (impl : List Int) : Bool := impl == [(f : Int)]

structure PHandler where
  run : List Int → Option Verdict              -- args ↦ model result (+class)
  spec : List Int → List Int → Option Bool     -- args, impl result ↦ spec verdict
  /-- optional: when `spec` says `false`, WHICH statement of the property fails on this input (printed in the SPECFAIL line) -/
  why : List Int → List Int → String := fun _ _ => ""

/-- handlers may keep caches (transform tables), hence `IO` -/
structure Handler where
  run : List Int → IO (Option Verdict)
  spec : List Int → List Int → IO (Option Bool)
  /-- optional explanation of a `false` spec verdict (only evaluated on failing lines) -/
  why : List Int → List Int → IO String := fun _ _ => pure ""

def PHandler.lift (h : PHandler) : Handler :=
  { run := fun a => pure (h.run a), spec := fun a i => pure (h.spec a i), why := fun a i => pure (h.why a i) }

def withRow (args : List Int) (k : Nat → Row → List Nat → Option α) : Option α :=
  match args with
  | w :: cm :: rest => do
    let r ← rowOf w.toNat cm.toNat
    k w.toNat r (rest.map Int.toNat)
  | _ => none

def opsHandlersP : List (String × PHandler) := [
  ("addmod", {
    run := fun a => withRow a fun w r xs => match xs with
      | [x, y] => some { model := [addmod w r.p x y], specOk := true, cls := clsSum r.p x y } | _ => none,
    spec := fun a impl => withRow a fun _ r xs => match xs with
      | [x, y] => some (specScalar (Spec.addSpec r.p x y) impl) | _ => none }),
  ("submod", {
    run := fun a => withRow a fun w r xs => match xs with
      | [x, y] => some { model := [submod w r.p x y], specOk := true,
                         cls := if x = y then "x=y" else if x < y then "x<y" else "x>y" } | _ => none,
    spec := fun a impl => withRow a fun _ r xs => match xs with
      | [x, y] => some (specScalar (Spec.subSpec r.p x y) impl) | _ => none }),
  ("mulmod", {
    run := fun a => withRow a fun w r xs => match xs with
      | [x, y] => some { model := [mulmod w r.p r.pn x y], specOk := true, cls := clsProd r.p x y } | _ => none,
    spec := fun a impl => withRow a fun _ r xs => match xs with
      | [x, y] => some (specScalar (Spec.mulSpec r.p x y) impl) | _ => none }),
  ("cshoup", {
    run := fun a => withRow a fun w r xs => match xs with
      | [y] => some { model := [computeShoup w r.p y], specOk := true,
                      cls := if y < r.p then "y<p" else if y < 2 * r.p then "p≤y<2p" else "y≥2p" } | _ => none,
    spec := fun a impl => withRow a fun w r xs => match xs with
      | [y] => some (specScalar (Spec.shoupSpec w r.p y) impl) | _ => none }),
  ("mulshoup", {
    run := fun a => withRow a fun w r xs => match xs with
      | [x, y] => some { model := [mulmodShoup w r.p x y (computeShoup w r.p y)], specOk := true,
                         cls := (if x < r.p then "" else "lazy-x:") ++ clsProd r.p x y } | _ => none,
    spec := fun a impl => withRow a fun _ r xs => match xs with
      | [x, y] => some (specScalar (Spec.mulSpec r.p x y) impl) | _ => none }),
  ("mulshoup4", {
    run := fun a => withRow a fun w r xs => match xs with
      | [x, y, yp] => some { model := [mulmodShoup w r.p x y yp], specOk := true,
                             cls := (if x < r.p then "" else "lazy-x:") ++ clsProd r.p x y } | _ => none,
    spec := fun a impl => withRow a fun w r xs => match xs with
      | [x, y, yp] => some (decide (yp = Spec.shoupSpec w r.p y) && specScalar (Spec.mulSpec r.p x y) impl) | _ => none }),
  ("muladdshoup5", {
    run := fun a => withRow a fun w r xs => match xs with
      | [z, x, y, yp] => some { model := [muladdShoup w r.p z x y yp], specOk := true,
                                cls := (if x < r.p then "" else "lazy-x:") ++ clsProd r.p x y } | _ => none,
    spec := fun a impl => withRow a fun w r xs => match xs, impl with
      | [z, x, y, yp], [res] => some (decide (yp = Spec.shoupSpec w r.p y) && Spec.muladdLazyOk r.p z x y res.toNat && decide (0 ≤ res)) | _, _ => none }),
  ("muladd", {
    run := fun a => withRow a fun w r xs => match xs with
      | [z, x, y] => some { model := [muladd w r.p r.pn z x y], specOk := true, cls := clsProd r.p x y } | _ => none,
    spec := fun a impl => withRow a fun _ r xs => match xs with
      | [z, x, y] => some (specScalar (Spec.muladdSpec r.p z x y) impl) | _ => none }),
  ("muladdshoup", {
    run := fun a => withRow a fun w r xs => match xs with
      | [z, x, y] => some { model := [muladdShoup w r.p z x y (computeShoup w r.p y)], specOk := true,
                            cls := clsProd r.p x y, relational := true } | _ => none,
    spec := fun a impl => withRow a fun _ r xs => match xs, impl with
      | [z, x, y], [res] => some (Spec.muladdLazyOk r.p z x y res.toNat && decide (0 ≤ res)) | _, _ => none })
]

def opsHandlers : List (String × Handler) := opsHandlersP.map (fun (n, h) => (n, h.lift))

end Driver
