/- Handlers for C16: raw serialiser, text form, cereal round trips (harness/serial.cpp). -/
import Driver.SettersH
import NflVerif.Model.Serial
namespace Driver
open Nfl Nfl.Serial

def intsN (l : List Nat) : List Int := l.map Int.ofNat

def allByte (l : List Int) : Bool := l.all (fun v => 0 ≤ v && v < 256)

/-! specification side: written with shifts and masks, independently of `encodeLE`/`decodeLE` -/

/-- byte `b` of word `x` -/
def byteOf (x b : Nat) : Nat := (x >>> (8 * b)) &&& 255

/-- the documented layout: `nm` limbs in storage order, each little-endian -/
def layoutOk (B : Nat) (words : List Nat) (bytes : List Int) : Bool :=
  bytes.length == words.length * B &&
  (List.range bytes.length).all fun j =>
    bytes[j]? == (words[j / B]?).map (fun x => (byteOf x (j % B) : Int))

/-- value of `B` bytes starting at offset `off` of a byte array (little-endian) -/
def wordAt (B : Nat) (mem : Array Nat) (off : Nat) : Nat :=
  (List.range B).foldl (fun acc b => acc ||| (mem.getD (off + b) 0 <<< (8 * b))) 0

def memOf (B : Nat) (words : List Nat) : Array Nat :=
  (words.flatMap fun x => (List.range B).map (byteOf x)).toArray

structure SerArgs where
  w : Nat
  n : Nat
  m : Nat
  B : Nat
  nm : Nat
  rest : List Int

def serHead (a : List Int) : Option SerArgs :=
  match a with
  | w :: n :: m :: _cls :: rest =>
    let w := w.toNat
    if (w == 16 || w == 32 || w == 64) && n > 0 && m > 0 then
      some { w := w, n := n.toNat, m := m.toNat, B := w / 8, nm := n.toNat * m.toNat, rest := rest }
    else none
  | _ => none

/-- `<old…nm> <slen> <stream…slen>` -/
def deserArgs (h : SerArgs) (cnt : Nat) (rest : List Int) : Option (List Nat × List Nat) := do
  let (old, r) ← splitAtExact (cnt * h.nm) rest
  match r with
  | slen :: st =>
    if slen < 0 || st.length != slen.toNat || !allByte st || !allWord h.w old then none
    some (natsOf old, natsOf st)
  | _ => none

/-- what a (possibly short) read must leave behind, stated on bytes: the first `got` bytes of the object are
the transmitted ones, every later byte of the object is the old one -/
def readSpec (h : SerArgs) (old stream : List Nat) (fail gcount : Int) (words rest : List Int) : Bool :=
  let req := h.nm * h.B
  let got := min req stream.length
  let oldMem := memOf h.B old
  let st := stream.toArray
  let newMem : Array Nat := (Array.range req).map fun j => if j < got then st.getD j 0 else oldMem.getD j 0
  fail == (if stream.length < req then 1 else 0) &&
  gcount == (got : Int) &&
  words == (List.range h.nm).map (fun j => (wordAt h.B newMem (j * h.B) : Int)) &&
  rest == intsN (stream.drop got)

def chunks (k : Nat) : Nat → List α → List (List α)
  | 0, _ => []
  | c + 1, l => l.take k :: chunks k c (l.drop k)

def cutClass (h : SerArgs) (slen : Nat) : String :=
  let req := h.nm * h.B
  if slen = 0 then "empty" else if slen < req then (if slen % h.B = 0 then "cut@word" else "cut@byte")
  else if slen = req then "exact" else "longer"

/-! ### `hist`: statement histories over several variables and one stream (the receiving object has a past)

`hist <mode> <w> <n> <m> <cls> <K> <imode> <src…K> <init…K·nm> <ns> (<code> <a> <b> <x>)×ns
   => (<r1> <r2> <contents of all K variables…K·nm>)×ns  [mode 0: <total> <bytes…total>]`
mode 0 raw reader/writer on one `std::stringstream`, 1/2/3 cereal binary / portable binary / JSON (one output archive,
then one input archive); `src` = -1 independently constructed, `j` = copy of variable `j` (poly_p: shares its storage);
steps 0 write a, 1 read a, 2 copy a ← b, 3 element store a[b] = x. -/

structure HistArgs where
  mode : Nat
  h : SerArgs
  isP : Bool
  K : Nat
  srcs : List Int
  init : List (List Nat)
  prog : List HStep

def decodeStep (h : SerArgs) (K : Nat) (l : List Int) : Option HStep :=
  match l with
  | [c, a, b, x] =>
    if a < 0 || a.toNat ≥ K || b < 0 || x < 0 then none
    else if c == 0 then some (.write a.toNat)
    else if c == 1 then some (.read a.toNat)
    else if c == 2 then (if b.toNat < K then some (.copy a.toNat b.toNat) else none)
    else if c == 3 then (if b.toNat < h.nm && x < (2 : Int) ^ h.w then some (.poke a.toNat b.toNat x.toNat) else none)
    else none
  | _ => none

def histArgs (a : List Int) : Option HistArgs :=
  match a with
  | mode :: a' => do
    let h ← serHead a'
    let cls ← a'[3]?
    match h.rest with
    | k :: _imode :: r =>
      if k ≤ 0 || mode < 0 || mode > 3 then none
      let K := k.toNat
      let (srcs, r) ← splitAtExact K r
      let (init, r) ← splitAtExact (K * h.nm) r
      if !allWord h.w init then none
      if !((List.range K).all fun i => match srcs[i]? with | some s => s == -1 || (0 ≤ s && s.toNat < i) | none => false) then none
      match r with
      | ns :: st =>
        if ns < 0 || st.length != 4 * ns.toNat then none
        let prog ← (chunks 4 ns.toNat st).mapM (decodeStep h K)
        some { mode := mode.toNat, h := h, isP := cls == 1, K := K, srcs := srcs,
               init := chunks h.nm K (natsOf init), prog := prog }
      | _ => none
    | _ => none
  | _ => none

/-- a cereal archive reports neither a byte count nor `gcount()` -/
def histObs (mode : Nat) (st : HStep) (o : Nat × Nat) : List Int :=
  if mode == 0 then [(o.1 : Int), (o.2 : Int)] else
  match st with
  | .read _ => [(o.1 : Int), 0]
  | _ => [0, 0]

def histOut (mode : Nat) (prog : List HStep) (tr : List ((Nat × Nat) × List (List Nat))) : List Int :=
  (prog.zip tr).flatMap fun (st, o, hs) => histObs mode st o ++ intsN hs.flatten

/-- bytes appended to the stream, byte-level model -/
def writtenH (w len : Nat) : List HStep → HState → List Nat
  | [], _ => []
  | st :: r, s =>
    (match st with
     | .write i => if s.failed then [] else serialize w (getH s.hs i)
     | _ => []) ++ writtenH w len r (stepH w len s st)

/-- words handed to the writer, value level -/
def writtenV : List HStep → VHState → List Nat
  | [], _ => []
  | st :: r, s =>
    (match st with
     | .write i => if s.failed then [] else getH s.hs i
     | _ => []) ++ writtenV r (stepHV s st)

/-- coverage class: with how many other handles does the variable share its storage when it is read into / written
(alias classes as the library forms them: a copy shares, every non-const access un-shares) -/
def histClass (a : HistArgs) : String :=
  let ids0 : List Nat := (List.range a.K).foldl (fun ids i =>
    match a.srcs[i]? with
    | some s => if s < 0 then ids ++ [i] else ids ++ [ids.getD s.toNat i]
    | none => ids ++ [i]) []
  let shared (ids : List Nat) (i : Nat) : Nat := (ids.filter (· == ids.getD i 0)).length - 1
  let fresh (ids : List Nat) (i nxt : Nat) : List Nat := if shared ids i > 0 then ids.set i nxt else ids
  -- (ids, next id, max sharing at a read, reads into shared storage, max sharing at a write, reads, writes)
  let r := a.prog.foldl (fun (acc : List Nat × Nat × Nat × Nat × Nat × Nat × Nat) st =>
    let (ids, nxt, mr, nr, mw, rd, wr) := acc
    match st with
    | .write i => (fresh ids i nxt, nxt + 1, mr, nr, max mw (shared ids i), rd, wr + 1)
    | .read j => (fresh ids j nxt, nxt + 1, max mr (shared ids j), nr + (if shared ids j > 0 then 1 else 0), mw, rd + 1, wr)
    | .copy d s => (ids.set d (ids.getD s 0), nxt, mr, nr, mw, rd, wr)
    | .poke d _ _ => (fresh ids d nxt, nxt + 1, mr, nr, mw, rd, wr))
    (ids0, a.K, 0, 0, 0, 0, 0)
  let (_, _, mr, nr, mw, rd, wr) := r
  let v0 : VHState := ⟨a.init, [], false⟩
  let pastEnd := (traceHV 1 a.prog v0).zip a.prog |>.any fun (o, st) =>
    match st with | .read _ => o.1.1 == 1 | _ => false
  let modeS := ["raw", "cereal-binary", "cereal-portable", "cereal-JSON"].getD a.mode "?"
  let tag :=
    if !a.isP then (if rd > 0 then "read-into-used-object" else "write-only")
    else if rd > 0 then
      (if mr == 0 then "read-into-unshared" else s!"read-into-shared-with-{min mr 4}" ++ (if nr ≥ 2 then ":back-to-back" else ""))
    else if wr > 0 then (if mw == 0 then "write-unshared" else s!"write-shared-with-{min mw 4}")
    else "no-io"
  s!"{modeS}:" ++ (if a.isP then "poly_p:" else "poly:") ++ tag ++ (if pastEnd then ":past-end" else "")

def histExpected (a : HistArgs) : List Int :=
  let v0 : VHState := ⟨a.init, [], false⟩
  histOut a.mode a.prog (traceHV (a.h.nm * a.h.B) a.prog v0)

/-- first statement after which some variable does not hold what the value reading of the history says -/
def histWhy (a : HistArgs) (impl : List Int) : String :=
  let v0 : VHState := ⟨a.init, [], false⟩
  let tr := traceHV (a.h.nm * a.h.B) a.prog v0
  let rec go (k : Nat) (prog : List HStep) (tr : List ((Nat × Nat) × List (List Nat))) (impl : List Int) : String :=
    match prog, tr with
    | st :: ps, (o, hs) :: ts =>
      let obs := impl.take 2
      let got := chunks a.h.nm a.K ((impl.drop 2).take (a.K * a.h.nm))
      let stS := match st with
        | .write i => s!"write of variable {i}"
        | .read j => s!"read into variable {j}"
        | .copy d s => s!"copy {d} <- {s}"
        | .poke d i _ => s!"element store {d}[{i}]"
      let bad := (List.range a.K).filter fun i => got[i]? != (hs[i]?).map intsN
      if !bad.isEmpty then
        let recv := match st with | .read j => some j | .copy d _ => some d | .poke d _ _ => some d | _ => none
        let others := bad.filter fun i => some i != recv
        s!"statement {k} ({stS}): " ++
          (if !others.isEmpty then s!"variable(s) {others} changed although the statement does not assign them (value semantics)"
           else s!"variable {bad} does not hold the expected polynomial")
      else if obs != histObs a.mode st o then s!"statement {k} ({stS}): reported {obs}, expected {histObs a.mode st o}"
      else go (k + 1) ps ts (impl.drop (2 + a.K * a.h.nm))
    | _, _ => "bytes written differ from the documented layout of the polynomials handed to the writer"
  go 0 a.prog tr impl

def serialHandlersP : List (String × PHandler) := [
  ("hist", {
    run := fun args => do
      let a ← histArgs args
      let s0 : HState := ⟨a.init, [], false⟩
      let model :=
        if a.mode == 0 then
          let bytes := writtenH a.h.w a.h.nm a.prog s0
          histOut 0 a.prog (traceH a.h.w a.h.nm a.prog s0) ++ [(bytes.length : Int)] ++ intsN bytes
        else histExpected a   -- cereal is a contract: only the value-level reading is available
      some { model := model, specOk := true, cls := histClass a },
    spec := fun args impl => do
      let a ← histArgs args
      let exp := histExpected a
      if a.mode == 0 then
        let (body, tl) ← splitAtExact exp.length impl
        match tl with
        | total :: bytes =>
          some (body == exp && total == (bytes.length : Int) && allByte bytes &&
                layoutOk a.h.B (writtenV a.prog ⟨a.init, [], false⟩) bytes)
        | [] => some false
      else some (impl == exp),
    why := fun args impl => match histArgs args with
      | some a => histWhy a impl
      | none => "" }),
  ("ser", {
    run := fun a => do
      let h ← serHead a
      if h.rest.length != h.nm || !allWord h.w h.rest then none
      let ws := natsOf h.rest
      some { model := intsN (serialize h.w ws), specOk := true,
             cls := s!"w{h.w}:" ++ (if ws.all (· == 0) then "zero" else
               match rowOf h.w 0 with
               | some r => if ws.any (· ≥ r.p) then "non-canonical" else "canonical"
               | none => "?") },
    spec := fun a impl => do
      let h ← serHead a
      some (layoutOk h.B (natsOf h.rest) impl && allByte impl && impl.length == h.n * h.m * (h.w / 8)) }),
  ("serseq", {
    run := fun a => do
      let h ← serHead a
      match h.rest with
      | cnt :: ws =>
        if ws.length != cnt.toNat * h.nm || !allWord h.w ws then none
        some { model := intsN ((chunks h.nm cnt.toNat (natsOf ws)).flatMap (serialize h.w)), specOk := true,
               cls := s!"w{h.w}:cnt={cnt}" }
      | _ => none,
    spec := fun a impl => do
      let h ← serHead a
      match h.rest with
      | _ :: ws => some (layoutOk h.B (natsOf ws) impl)   -- back to back = the layout of the concatenated word array
      | _ => none }),
  ("deser", {
    run := fun a => do
      let h ← serHead a
      let (old, st) ← deserArgs h 1 h.rest
      let (r, rest, fail) := deserialize h.w h.nm old st
      some { model := [if fail then 1 else 0, (gcount h.w h.nm st : Int), 1] ++ intsN r ++ intsN rest, specOk := true,
             cls := s!"w{h.w}:" ++ cutClass h st.length },
    spec := fun a impl => do
      let h ← serHead a
      let (old, st) ← deserArgs h 1 h.rest
      match impl with
      | fail :: gc :: canary :: tl =>
        let (ws, rest) ← splitAtExact h.nm tl
        some (canary == 1 && readSpec h old st fail gc ws rest)
      | _ => none }),
  ("rt", {
    run := fun a => do
      let h ← serHead a
      let (ws, old) ← splitAtExact h.nm h.rest
      if old.length != h.nm || !allWord h.w ws || !allWord h.w old then none
      let (r, _, fail) := deserialize h.w h.nm (natsOf old) (serialize h.w (natsOf ws))
      some { model := (if fail then (1 : Int) else 0) :: intsN r, specOk := true, cls := s!"w{h.w}:roundtrip" },
    spec := fun a impl => do
      let h ← serHead a
      let (ws, _) ← splitAtExact h.nm h.rest
      some (impl == (0 : Int) :: ws) }),
  ("deserseq", {
    run := fun a => do
      let h ← serHead a
      match h.rest with
      | cnt :: rest =>
        let cnt := cnt.toNat
        let (olds, st) ← deserArgs h cnt rest
        let (rs, left) := deserializeSeq h.w h.nm (chunks h.nm cnt olds) st false
        some { model := rs.flatMap (fun r => [if r.2.2 then (1 : Int) else 0, (r.2.1 : Int)]) ++
                        rs.flatMap (fun r => intsN r.1) ++ intsN left,
               specOk := true,
               cls := s!"w{h.w}:seq:" ++ (if st.length ≥ cnt * h.nm * h.B then "complete" else
                        s!"ends-in-object-{st.length / (h.nm * h.B)}") }
      | _ => none,
    spec := fun a impl => do
      let h ← serHead a
      match h.rest with
      | cnt :: rest =>
        let cnt := cnt.toNat
        let (olds, st) ← deserArgs h cnt rest
        let (flags, tl) ← splitAtExact (2 * cnt) impl
        let (ws, left) ← splitAtExact (cnt * h.nm) tl
        let req := h.nm * h.B
        -- object i reads bytes [i*req, (i+1)*req) of the stream; after the first short read nothing more is read
        let oks := (List.range cnt).all fun i =>
          let avail := st.drop (i * req)
          let failedBefore := st.length < i * req
          let wi := (ws.drop (i * h.nm)).take h.nm
          let oi := (olds.drop (i * h.nm)).take h.nm
          match flags[2 * i]?, flags[2 * i + 1]? with
          | some f, some gcnt =>
            if failedBefore then f == 1 && gcnt == 0 && wi == intsN oi
            else readSpec h oi avail f gcnt wi (intsN (avail.drop (min req avail.length)))
          | _, _ => false
        some (oks && left == intsN (st.drop (min st.length (cnt * req))))
      | _ => none }),
  ("text", {
    run := fun a => do
      let h ← serHead a
      if h.rest.length != h.nm || !allWord h.w h.rest then none
      let ws := natsOf h.rest
      some { model := (printChars h.w ws).map (fun c => (c.toNat : Int)), specOk := true,
             cls := s!"w{h.w}:text" },
    spec := fun a impl => do
      let h ← serHead a
      -- the text parses back to the same polynomial, and the suffix is the one of the limb width
      let cs := impl.map (fun c => Char.ofNat c.toNat)
      let sfx := if h.w == 64 then "ULL }" else if h.w == 32 then "UL }" else "U }"
      some (parseChars h.w cs == some (natsOf h.rest) && (String.ofList cs).endsWith sfx) }),
  ("cereal", {
    run := fun a => match a with
      | arch :: a' => do
        let h ← serHead a'
        let (ws, old) ← splitAtExact h.nm h.rest
        if old.length != h.nm || !allWord h.w ws then none
        some { model := (1 : Int) :: ws, specOk := true, cls := s!"cereal:arch{arch}:w{h.w}" }
      | _ => none,
    spec := fun a impl => match a with
      | _ :: a' => do
        let h ← serHead a'
        let (ws, _) ← splitAtExact h.nm h.rest
        some (impl == (1 : Int) :: ws)
      | _ => none }),
  ("cereal2", {
    run := fun a => match a with
      | arch :: a' => do
        let h ← serHead a'
        if h.rest.length != 2 * h.nm || !allWord h.w h.rest then none
        some { model := (1 : Int) :: h.rest, specOk := true, cls := s!"cereal2:arch{arch}:w{h.w}" }
      | _ => none,
    spec := fun a impl => match a with
      | _ :: a' => do
        let h ← serHead a'
        some (impl == (1 : Int) :: h.rest)
      | _ => none }),
  ("cerealtrunc", {
    run := fun a => match a with
      | arch :: a' => do
        let h ← serHead a'
        match h.rest with
        | [cut, total] =>
          some { model := [if cut < total then 1 else 0, 1], specOk := true,
                 cls := s!"cerealtrunc:arch{arch}:" ++ (if cut < total then "short" else "complete") }
        | _ => none
      | _ => none,
    spec := fun a impl => match a with
      | _ :: a' => do
        let h ← serHead a'
        match h.rest with
        | [cut, total] => some (impl == [if cut < total then 1 else 0, 1])
        | _ => none
      | _ => none })
]

def serialHandlers : List (String × Handler) := serialHandlersP.map (fun (n, h) => (n, h.lift))

end Driver
