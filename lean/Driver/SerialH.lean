/- Handlers for C16: raw serialiser, text form, cereal round trips (harness/serial.cpp). -/
import Driver.SettersH
import NflVerif.Model.Serial
namespace Driver
open Nfl Nfl.Serial

def intsN (l : List Nat) : List Int := l.map Int.ofNat

def allByte (l : List Int) : Bool := l.all (fun v => 0 ≤ v && v < 256)

/-! specification side: written with shifts and masks, independently of `encodeLE`/`decodeLE` -/

/-- byte `b` of word `x` -/
def byteOf (x b : Nat) : Nat := (x >>> (8 * b)) &&& 255

/-- the documented layout: `nm` limbs in storage order, each little-endian -/
def layoutOk (B : Nat) (words : List Nat) (bytes : List Int) : Bool :=
  bytes.length == words.length * B &&
  (List.range bytes.length).all fun j =>
    bytes[j]? == (words[j / B]?).map (fun x => (byteOf x (j % B) : Int))

/-- value of `B` bytes starting at offset `off` of a byte array (little-endian) -/
def wordAt (B : Nat) (mem : Array Nat) (off : Nat) : Nat :=
  (List.range B).foldl (fun acc b => acc ||| (mem.getD (off + b) 0 <<< (8 * b))) 0

def memOf (B : Nat) (words : List Nat) : Array Nat :=
  (words.flatMap fun x => (List.range B).map (byteOf x)).toArray

structure SerArgs where
  w : Nat
  n : Nat
  m : Nat
  B : Nat
  nm : Nat
  rest : List Int

def serHead (a : List Int) : Option SerArgs :=
  match a with
  | w :: n :: m :: _cls :: rest =>
    let w := w.toNat
    if (w == 16 || w == 32 || w == 64) && n > 0 && m > 0 then
      some { w := w, n := n.toNat, m := m.toNat, B := w / 8, nm := n.toNat * m.toNat, rest := rest }
    else none
  | _ => none

/-- `<old…nm> <slen> <stream…slen>` -/
def deserArgs (h : SerArgs) (cnt : Nat) (rest : List Int) : Option (List Nat × List Nat) := do
  let (old, r) ← splitAtExact (cnt * h.nm) rest
  match r with
  | slen :: st =>
    if slen < 0 || st.length != slen.toNat || !allByte st || !allWord h.w old then none
    some (natsOf old, natsOf st)
  | _ => none

/-- what a (possibly short) read must leave behind, stated on bytes: the first `got` bytes of the object are
the transmitted ones, every later byte of the object is the old one -/
def readSpec (h : SerArgs) (old stream : List Nat) (fail gcount : Int) (words rest : List Int) : Bool :=
  let req := h.nm * h.B
  let got := min req stream.length
  let oldMem := memOf h.B old
  let st := stream.toArray
  let newMem : Array Nat := (Array.range req).map fun j => if j < got then st.getD j 0 else oldMem.getD j 0
  fail == (if stream.length < req then 1 else 0) &&
  gcount == (got : Int) &&
  words == (List.range h.nm).map (fun j => (wordAt h.B newMem (j * h.B) : Int)) &&
  rest == intsN (stream.drop got)

def chunks (k : Nat) : Nat → List α → List (List α)
  | 0, _ => []
  | c + 1, l => l.take k :: chunks k c (l.drop k)

def cutClass (h : SerArgs) (slen : Nat) : String :=
  let req := h.nm * h.B
  if slen = 0 then "empty" else if slen < req then (if slen % h.B = 0 then "cut@word" else "cut@byte")
  else if slen = req then "exact" else "longer"

def serialHandlersP : List (String × PHandler) := [
  ("ser", {
    run := fun a => do
      let h ← serHead a
      if h.rest.length != h.nm || !allWord h.w h.rest then none
      let ws := natsOf h.rest
      some { model := intsN (serialize h.w ws), specOk := true,
             cls := s!"w{h.w}:" ++ (if ws.all (· == 0) then "zero" else
               match rowOf h.w 0 with
               | some r => if ws.any (· ≥ r.p) then "non-canonical" else "canonical"
               | none => "?") },
    spec := fun a impl => do
      let h ← serHead a
      some (layoutOk h.B (natsOf h.rest) impl && allByte impl && impl.length == h.n * h.m * (h.w / 8)) }),
  ("serseq", {
    run := fun a => do
      let h ← serHead a
      match h.rest with
      | cnt :: ws =>
        if ws.length != cnt.toNat * h.nm || !allWord h.w ws then none
        some { model := intsN ((chunks h.nm cnt.toNat (natsOf ws)).flatMap (serialize h.w)), specOk := true,
               cls := s!"w{h.w}:cnt={cnt}" }
      | _ => none,
    spec := fun a impl => do
      let h ← serHead a
      match h.rest with
      | _ :: ws => some (layoutOk h.B (natsOf ws) impl)   -- back to back = the layout of the concatenated word array
      | _ => none }),
  ("deser", {
    run := fun a => do
      let h ← serHead a
      let (old, st) ← deserArgs h 1 h.rest
      let (r, rest, fail) := deserialize h.w h.nm old st
      some { model := [if fail then 1 else 0, (gcount h.w h.nm st : Int), 1] ++ intsN r ++ intsN rest, specOk := true,
             cls := s!"w{h.w}:" ++ cutClass h st.length },
    spec := fun a impl => do
      let h ← serHead a
      let (old, st) ← deserArgs h 1 h.rest
      match impl with
      | fail :: gc :: canary :: tl =>
        let (ws, rest) ← splitAtExact h.nm tl
        some (canary == 1 && readSpec h old st fail gc ws rest)
      | _ => none }),
  ("rt", {
    run := fun a => do
      let h ← serHead a
      let (ws, old) ← splitAtExact h.nm h.rest
      if old.length != h.nm || !allWord h.w ws || !allWord h.w old then none
      let (r, _, fail) := deserialize h.w h.nm (natsOf old) (serialize h.w (natsOf ws))
      some { model := (if fail then (1 : Int) else 0) :: intsN r, specOk := true, cls := s!"w{h.w}:roundtrip" },
    spec := fun a impl => do
      let h ← serHead a
      let (ws, _) ← splitAtExact h.nm h.rest
      some (impl == (0 : Int) :: ws) }),
  ("deserseq", {
    run := fun a => do
      let h ← serHead a
      match h.rest with
      | cnt :: rest =>
        let cnt := cnt.toNat
        let (olds, st) ← deserArgs h cnt rest
        let (rs, left) := deserializeSeq h.w h.nm (chunks h.nm cnt olds) st false
        some { model := rs.flatMap (fun r => [if r.2.2 then (1 : Int) else 0, (r.2.1 : Int)]) ++
                        rs.flatMap (fun r => intsN r.1) ++ intsN left,
               specOk := true,
               cls := s!"w{h.w}:seq:" ++ (if st.length ≥ cnt * h.nm * h.B then "complete" else
                        s!"ends-in-object-{st.length / (h.nm * h.B)}") }
      | _ => none,
    spec := fun a impl => do
      let h ← serHead a
      match h.rest with
      | cnt :: rest =>
        let cnt := cnt.toNat
        let (olds, st) ← deserArgs h cnt rest
        let (flags, tl) ← splitAtExact (2 * cnt) impl
        let (ws, left) ← splitAtExact (cnt * h.nm) tl
        let req := h.nm * h.B
        -- object i reads bytes [i*req, (i+1)*req) of the stream; after the first short read nothing more is read
        let oks := (List.range cnt).all fun i =>
          let avail := st.drop (i * req)
          let failedBefore := st.length < i * req
          let wi := (ws.drop (i * h.nm)).take h.nm
          let oi := (olds.drop (i * h.nm)).take h.nm
          match flags[2 * i]?, flags[2 * i + 1]? with
          | some f, some gcnt =>
            if failedBefore then f == 1 && gcnt == 0 && wi == intsN oi
            else readSpec h oi avail f gcnt wi (intsN (avail.drop (min req avail.length)))
          | _, _ => false
        some (oks && left == intsN (st.drop (min st.length (cnt * req))))
      | _ => none }),
  ("text", {
    run := fun a => do
      let h ← serHead a
      if h.rest.length != h.nm || !allWord h.w h.rest then none
      let ws := natsOf h.rest
      some { model := (printChars h.w ws).map (fun c => (c.toNat : Int)), specOk := true,
             cls := s!"w{h.w}:text" },
    spec := fun a impl => do
      let h ← serHead a
      -- the text parses back to the same polynomial, and the suffix is the one of the limb width
      let cs := impl.map (fun c => Char.ofNat c.toNat)
      let sfx := if h.w == 64 then "ULL }" else if h.w == 32 then "UL }" else "U }"
      some (parseChars h.w cs == some (natsOf h.rest) && (String.ofList cs).endsWith sfx) }),
  ("cereal", {
    run := fun a => match a with
      | arch :: a' => do
        let h ← serHead a'
        let (ws, old) ← splitAtExact h.nm h.rest
        if old.length != h.nm || !allWord h.w ws then none
        some { model := (1 : Int) :: ws, specOk := true, cls := s!"cereal:arch{arch}:w{h.w}" }
      | _ => none,
    spec := fun a impl => match a with
      | _ :: a' => do
        let h ← serHead a'
        let (ws, _) ← splitAtExact h.nm h.rest
        some (impl == (1 : Int) :: ws)
      | _ => none }),
  ("cereal2", {
    run := fun a => match a with
      | arch :: a' => do
        let h ← serHead a'
        if h.rest.length != 2 * h.nm || !allWord h.w h.rest then none
        some { model := (1 : Int) :: h.rest, specOk := true, cls := s!"cereal2:arch{arch}:w{h.w}" }
      | _ => none,
    spec := fun a impl => match a with
      | _ :: a' => do
        let h ← serHead a'
        some (impl == (1 : Int) :: h.rest)
      | _ => none }),
  ("cerealtrunc", {
    run := fun a => match a with
      | arch :: a' => do
        let h ← serHead a'
        match h.rest with
        | [cut, total] =>
          some { model := [if cut < total then 1 else 0, 1], specOk := true,
                 cls := s!"cerealtrunc:arch{arch}:" ++ (if cut < total then "short" else "complete") }
        | _ => none
      | _ => none,
    spec := fun a impl => match a with
      | _ :: a' => do
        let h ← serHead a'
        match h.rest with
        | [cut, total] => some (impl == [if cut < total then 1 else 0, 1])
        | _ => none
      | _ => none })
]

def serialHandlers : List (String × Handler) := serialHandlersP.map (fun (n, h) => (n, h.lift))

end Driver
