/- Handlers for C17 / C18: summary lines of the ThreadSanitizer harnesses (harness/conc17.cpp, harness/conc18.cpp).
   The schedules are chosen by the machine, so the model result is not compared (`relational`); the executable
   specification is evaluated on what the implementation did. -/
import Driver.Proto
import Driver.OpsH
import NflVerif.Spec.Prng18Spec
import NflVerif.Spec.Salsa20
namespace Driver
open Nfl

def triples : List Int → Option (List (Nat × Nat × Bool))
  | [] => some []
  | t :: n :: u :: r => do
    let rest ← triples r
    if t < 0 || n < 0 then none else pure ((t.toNat, n.toNat, u != 0) :: rest)
  | _ => none

def startMode (m : Int) : String :=
  if m == 0 then "barrier" else if m == 1 then "linear-stagger" else if m == 2 then "leader+rest" else if m == 3 then "random-delays"
  else "no-barrier"

/-- class of the first-request configuration: how the threads start × how the 32 key bytes arrive -/
def firstClass (mode stagger pre chunk gap : Int) : String :=
  let slow := if pre == 0 && (gap == 0 || chunk == 0 || chunk ≥ 32) then "immediate"
    else if chunk == 0 || chunk ≥ 32 then "late, in one piece" else if pre == 0 then s!"in pieces of {chunk}" else s!"late, in pieces of {chunk}"
  s!"first-request start={startMode mode}{if mode == 0 || mode == 4 then "" else if stagger < 100 then " <100us" else if stagger < 1000 then " <1ms" else " >=1ms"} key-delivery={slow}"

def lenClass18 (n : Int) : String :=
  if n < 8 then "1..7" else if n < 64 then "8..63" else if n == 64 then "64" else if n ≤ 256 then "65..256" else ">256"

/-- the key array when only its first `p` bytes have been written (static storage: the rest is zero) -/
def partialKey (key : List Nat) (p : Nat) : List Nat := key.take p ++ List.replicate (32 - p) 0

structure K18 where
  nonce : Int
  kclass : Int
  len : Nat
  key : List Nat

def parseK18 : List Int → Option (K18 × String)
  | _ :: mode :: stagger :: pre :: chunk :: gap :: _ :: _ :: nonce :: kclass :: len :: key =>
    if key.length == 32 && key.all (fun v => 0 ≤ v && v < 256) && 0 ≤ len && len ≤ 4096 then
      some ({ nonce := nonce, kclass := kclass, len := len.toNat, key := key.map Int.toNat },
            firstClass mode stagger pre chunk gap ++ " len=" ++ lenClass18 len)
    else none
  | _ => none

def concHandlersP : List (String × PHandler) := [
  -- conc18k <T> <mode> <stagger> <pre> <chunk> <gap> <thread> <request> <nonce|-1> <keyclass> <len> <key[32]> => <bytes>
  -- one request of a first-request run: the returned buffer must be the Salsa20/20 keystream (executable
  -- specification Spec/Salsa20.lean) of the nonce the harness identified, under the key that randombytes delivered
  ("conc18k", {
    run := fun a => (parseK18 a).map fun (k, cls) =>
      { model := if k.nonce < 0 then [] else (Salsa20.stream k.key (Salsa20.encodeLE 8 k.nonce.toNat) k.len).map Int.ofNat,
        specOk := true, cls := cls, relational := true },
    spec := fun a impl => (parseK18 a).map fun (k, _) =>
      k.kclass == 0 && 0 ≤ k.nonce && impl == (Salsa20.stream k.key (Salsa20.encodeLE 8 k.nonce.toNat) k.len).map Int.ofNat,
    why := fun a impl => match parseK18 a with
      | some (k, _) =>
        let who := s!"thread {a.getD 6 0} request {a.getD 7 0} ({k.len} bytes)"
        if k.kclass == 0 then s!"{who}: the buffer is not the keystream of nonce {k.nonce} under the process key"
        else if 1 ≤ k.kclass && k.kclass ≤ 32 && 0 ≤ k.nonce then
          let p := (k.kclass - 1).toNat
          let confirmed := impl == (Salsa20.stream (partialKey k.key p) (Salsa20.encodeLE 8 k.nonce.toNat) k.len).map Int.ofNat
          let which := if p == 0 then "the ALL-ZERO key (the static key array before the seeding call has written it)"
            else s!"a PARTIALLY WRITTEN key (first {p} bytes of the process key, the other {32 - p} still zero)"
          s!"{who}: keystream of nonce {k.nonce} under {which}{if confirmed then ", confirmed by the executable Salsa20 specification" else " according to the harness (NOT confirmed by the specification)"}; every request must return keystream of the process key"
        else s!"{who}: the buffer is the keystream of no nonce of this run under the process key, the all-zero key or a prefix of the process key"
      | none => "" }),
  -- conc18f <T> <mode> <stagger> <pre> <chunk> <gap> <N> => … (as conc18): history of a first-request run (fresh process)
  ("conc18f", {
    run := fun a => match a with
      | [t, mode, stagger, pre, chunk, gap, _] =>
        some { model := [1, 0], specOk := true, cls := s!"{firstClass mode stagger pre chunk gap} threads={t}", relational := true }
      | _ => none,
    spec := fun a impl => match a, impl with
      | [_, _, _, _, _, _, n], seeds :: reports :: rest =>
        match triples rest with
        | some h => some (seeds == 1 && reports == 0 && h.length == n.toNat && Prng18.histOk 0 h)
        | none => none
      | _, _ => none }),
  -- conc17 <threads> <round-seed> <opcount> => <digests-equal> <tsan-reports>
  ("conc17", {
    run := fun a => match a with
      | [t, _, _] => some { model := [1, 0], specOk := true, cls := s!"threads={t}", relational := true }
      | _ => none,
    spec := fun _ impl => some (impl == [1, 0]) }),
  -- conc17f <class> <max-degree> <threads> <round-seed> <opcount> => <digests-equal> <tsan-reports | 1000+signal>
  -- (first-use round: a fresh process whose worker threads perform the first execution of every operation)
  ("conc17f", {
    run := fun a => match a with
      | [c, _, t, _, _] =>
        let name := if c == 0 then "unrolled(<=1024)" else if c == 1 then "static-table(1025..32768)" else "over-32768"
        some { model := [1, 0], specOk := true, cls := s!"first-use {name} threads={t}", relational := true }
      | _ => none,
    spec := fun _ impl => some (impl == [1, 0]) }),
  -- conc18 <threads> <n0> <N> => <randombytes-calls> <tsan-reports> (<thread> <nonce> <unique>)*N
  ("conc18", {
    run := fun a => match a with
      | [t, _, _] => some { model := [1, 0], specOk := true, cls := s!"threads={t}", relational := true }
      | _ => none,
    spec := fun a impl => match a, impl with
      | [_, n0, n], seeds :: reports :: rest =>
        match triples rest with
        | some h => some (seeds == 1 && reports == 0 && h.length == n.toNat && Prng18.histOk n0.toNat h)
        | none => none
      | _, _ => none }),
  -- conc18b <threads> <n0> <N> <bit> <whitebox> => … (as conc18): the burst straddles a multiple of 2^bit of the request counter
  ("conc18b", {
    run := fun a => match a with
      | [t, _, _, b, w] =>
        some { model := [1, 0], specOk := true, cls := s!"boundary 2^{b} {if w == 0 then "blackbox" else "whitebox"} threads={t}", relational := true }
      | _ => none,
    spec := fun a impl => match a, impl with
      | [_, n0, n, _, _], seeds :: reports :: rest =>
        match triples rest with
        | some h => some (seeds == 1 && reports == 0 && h.length == n.toNat && Prng18.histOk n0.toNat h)
        | none => none
      | _, _ => none }),
  -- conc18s <threads> <iterations> => <range-ok> <tsan-reports>
  ("conc18s", {
    run := fun a => match a with
      | [t, _] => some { model := [1, 0], specOk := true, cls := s!"threads={t}", relational := true }
      | _ => none,
    spec := fun _ impl => some (impl == [1, 0]) })
]

def concHandlers : List (String × Handler) := concHandlersP.map (fun (n, h) => (n, h.lift))

end Driver
