/- Handlers for C17 / C18: summary lines of the ThreadSanitizer harnesses (harness/conc17.cpp, harness/conc18.cpp).
   The schedules are chosen by the machine, so the model result is not compared (`relational`); the executable
   specification is evaluated on what the implementation did. -/
import Driver.Proto
import Driver.OpsH
import NflVerif.Spec.Prng18Spec
namespace Driver
open Nfl

def triples : List Int → Option (List (Nat × Nat × Bool))
  | [] => some []
  | t :: n :: u :: r => do
    let rest ← triples r
    if t < 0 || n < 0 then none else pure ((t.toNat, n.toNat, u != 0) :: rest)
  | _ => none

def concHandlersP : List (String × PHandler) := [
  -- conc17 <threads> <round-seed> <opcount> => <digests-equal> <tsan-reports>
  ("conc17", {
    run := fun a => match a with
      | [t, _, _] => some { model := [1, 0], specOk := true, cls := s!"threads={t}", relational := true }
      | _ => none,
    spec := fun _ impl => some (impl == [1, 0]) }),
  -- conc17f <class> <max-degree> <threads> <round-seed> <opcount> => <digests-equal> <tsan-reports | 1000+signal>
  -- (first-use round: a fresh process whose worker threads perform the first execution of every operation)
  ("conc17f", {
    run := fun a => match a with
      | [c, _, t, _, _] =>
        let name := if c == 0 then "unrolled(<=1024)" else if c == 1 then "static-table(1025..32768)" else "over-32768"
        some { model := [1, 0], specOk := true, cls := s!"first-use {name} threads={t}", relational := true }
      | _ => none,
    spec := fun _ impl => some (impl == [1, 0]) }),
  -- conc18 <threads> <n0> <N> => <randombytes-calls> <tsan-reports> (<thread> <nonce> <unique>)*N
  ("conc18", {
    run := fun a => match a with
      | [t, _, _] => some { model := [1, 0], specOk := true, cls := s!"threads={t}", relational := true }
      | _ => none,
    spec := fun a impl => match a, impl with
      | [_, n0, n], seeds :: reports :: rest =>
        match triples rest with
        | some h => some (seeds == 1 && reports == 0 && h.length == n.toNat && Prng18.histOk n0.toNat h)
        | none => none
      | _, _ => none }),
  -- conc18b <threads> <n0> <N> <bit> <whitebox> => … (as conc18): the burst straddles a multiple of 2^bit of the request counter
  ("conc18b", {
    run := fun a => match a with
      | [t, _, _, b, w] =>
        some { model := [1, 0], specOk := true, cls := s!"boundary 2^{b} {if w == 0 then "blackbox" else "whitebox"} threads={t}", relational := true }
      | _ => none,
    spec := fun a impl => match a, impl with
      | [_, n0, n, _, _], seeds :: reports :: rest =>
        match triples rest with
        | some h => some (seeds == 1 && reports == 0 && h.length == n.toNat && Prng18.histOk n0.toNat h)
        | none => none
      | _, _ => none }),
  -- conc18s <threads> <iterations> => <range-ok> <tsan-reports>
  ("conc18s", {
    run := fun a => match a with
      | [t, _] => some { model := [1, 0], specOk := true, cls := s!"threads={t}", relational := true }
      | _ => none,
    spec := fun _ impl => some (impl == [1, 0]) })
]

def concHandlers : List (String × Handler) := concHandlersP.map (fun (n, h) => (n, h.lift))

end Driver
