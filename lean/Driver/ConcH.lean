/- Handlers for C17 / C18: summary lines of the ThreadSanitizer harnesses (harness/conc17.cpp, harness/conc18.cpp).
   The schedules are chosen by the machine, so the model result is not compared (`relational`); the executable
   specification is evaluated on what the implementation did. -/
import Driver.Proto
import Driver.OpsH
import NflVerif.Spec.Prng18Spec
namespace Driver
open Nfl

def triples : List Int → Option (List (Nat × Nat × Bool))
  | [] => some []
  | t :: n :: u :: r => do
    let rest ← triples r
    if t < 0 || n < 0 then none else pure ((t.toNat, n.toNat, u != 0) :: rest)
  | _ => none

def concHandlersP : List (String × PHandler) := [
  -- conc17 <threads> <round-seed> <opcount> => <digests-equal> <tsan-reports>
  ("conc17", {
    run := fun a => match a with
      | [t, _, _] => some { model := [1, 0], specOk := true, cls := s!"threads={t}", relational := true }
      | _ => none,
    spec := fun _ impl => some (impl == [1, 0]) }),
  -- conc18 <threads> <n0> <N> => <randombytes-calls> <tsan-reports> (<thread> <nonce> <unique>)*N
  ("conc18", {
    run := fun a => match a with
      | [t, _, _] => some { model := [1, 0], specOk := true, cls := s!"threads={t}", relational := true }
      | _ => none,
    spec := fun a impl => match a, impl with
      | [_, n0, n], seeds :: reports :: rest =>
        match triples rest with
        | some h => some (seeds == 1 && reports == 0 && h.length == n.toNat && Prng18.histOk n0.toNat h)
        | none => none
      | _, _ => none }),
  -- conc18s <threads> <iterations> => <range-ok> <tsan-reports>
  ("conc18s", {
    run := fun a => match a with
      | [t, _] => some { model := [1, 0], specOk := true, cls := s!"threads={t}", relational := true }
      | _ => none,
    spec := fun _ impl => some (impl == [1, 0]) })
]

def concHandlers : List (String × Handler) := concHandlersP.map (fun (n, h) => (n, h.lift))

end Driver
