/- Handlers for C01/C02: transforms, tables, products. -/
import Driver.OpsH
import NflVerif.Model.Ntt
import NflVerif.Spec.NttSpec
namespace Driver
open Nfl

def lkOf (w : Nat) : Nat := match tabOf w with | some t => t.lk | none => 0

initialize tabCache : IO.Ref (List ((Nat × Nat × Nat) × NttTables)) ← IO.mkRef []

/-- tables of `core::initialize` for (limb, row, degree), memoised (last 3 configurations) -/
def tablesFor (w cm k : Nat) : IO (Option (Row × NttTables)) := do
  match rowOf w cm with
  | none => pure none
  | some r =>
    let c ← tabCache.get
    match c.find? (·.1 == (w, cm, k)) with
    | some (_, t) => pure (some (r, t))
    | none =>
      let t := initTables w (lkOf w) r k
      tabCache.set (((w, cm, k), t) :: c.take 2)
      pure (some (r, t))

def liftOpt {α} (o : Option α) : OptionT IO α := OptionT.mk (pure o)

def ints (l : List Nat) : List Int := l.map Int.ofNat

def allLt (p : Nat) (l : List Int) : Bool := l.all (fun v => 0 ≤ v && v < p)

/-- `φ = root^(2^(lk-k)) mod p` computed independently of the model (plain modular exponentiation) -/
def phiOracle (w : Nat) (r : Row) (k : Nat) : Nat := Spec.powModN r.root (2 ^ (lkOf w - k)) r.p

/-- args: w cm k x_0 … x_{n-1} -/
def splitPoly (args : List Int) : Option (Nat × Nat × Nat × List Nat) :=
  match args with
  | w :: cm :: k :: rest =>
    let xs := rest.map Int.toNat
    if xs.length = 2 ^ k.toNat then some (w.toNat, cm.toNat, k.toNat, xs) else none
  | _ => none

def clsPoly (p : Nat) (xs : List Nat) : String :=
  let nz := xs.filter (· ≠ 0)
  let kind := if nz.isEmpty then "zero" else if nz.length = 1 then "unit" else if xs.all (· + 1 = p) then "all-(p-1)"
    else if nz.length * 4 ≤ xs.length then "sparse" else "dense"
  s!"n={xs.length}:{kind}"

def nttHandlers : List (String × Handler) := [
  -- forward transform: model equality; spec = canonical range and (n ≤ 256) the value of the polynomial
  -- at φ^(2·bitrev(r)+1), evaluated directly
  ("nttfwd", {
    run := fun a => OptionT.run do
      let (w, cm, k, xs) ← liftOpt (splitPoly a)
      let (r, t) ← OptionT.mk (tablesFor w cm k)
      pure { model := ints (nttPowPhi w r.p k t xs), specOk := true, cls := clsPoly r.p xs },
    spec := fun a impl => OptionT.run do
      let (w, cm, k, xs) ← liftOpt (splitPoly a)
      let r ← liftOpt (rowOf w cm)
      let canon := allLt r.p impl && impl.length == xs.length
      if k ≤ 8 then
        let phi := phiOracle w r k
        let want := (List.range (2 ^ k)).map fun i => Spec.evalNat r.p xs (Spec.powModN phi (2 * bitrevCode k i + 1) r.p)
        pure (canon && impl == ints want)
      else pure canon }),
  ("nttinv", {
    run := fun a => OptionT.run do
      let (w, cm, k, xs) ← liftOpt (splitPoly a)
      let (r, t) ← OptionT.mk (tablesFor w cm k)
      pure { model := ints (invnttPowInvphi w r.p k t xs), specOk := true, cls := clsPoly r.p xs },
    spec := fun a impl => OptionT.run do
      let (w, cm, _, xs) ← liftOpt (splitPoly a)
      let r ← liftOpt (rowOf w cm)
      pure (allLt r.p impl && impl.length == xs.length) }),
  -- inv(fwd(a)) : spec = identity
  ("roundtrip", {
    run := fun a => OptionT.run do
      let (w, cm, k, xs) ← liftOpt (splitPoly a)
      let (r, t) ← OptionT.mk (tablesFor w cm k)
      pure { model := ints (invnttPowInvphi w r.p k t (nttPowPhi w r.p k t xs)), specOk := true, cls := clsPoly r.p xs },
    spec := fun a impl => OptionT.run do
      let (_, _, _, xs) ← liftOpt (splitPoly a)
      pure (impl == ints xs) }),
  -- fwd(inv(y)) : spec = identity
  ("roundtrip2", {
    run := fun a => OptionT.run do
      let (w, cm, k, xs) ← liftOpt (splitPoly a)
      let (r, t) ← OptionT.mk (tablesFor w cm k)
      pure { model := ints (nttPowPhi w r.p k t (invnttPowInvphi w r.p k t xs)), specOk := true, cls := clsPoly r.p xs },
    spec := fun a impl => OptionT.run do
      let (_, _, _, xs) ← liftOpt (splitPoly a)
      pure (impl == ints xs) })
]

/-- args: w cm k a_0..a_{n-1} b_0..b_{n-1} -/
def splitPoly2 (args : List Int) : Option (Nat × Nat × Nat × List Nat × List Nat) :=
  match args with
  | w :: cm :: k :: rest =>
    let xs := rest.map Int.toNat
    let n := 2 ^ k.toNat
    if xs.length = 2 * n then some (w.toNat, cm.toNat, k.toNat, xs.take n, xs.drop n) else none
  | _ => none

def mulOracleLimit : Nat := 10   -- schoolbook oracle for n ≤ 1024

/-- above the schoolbook limit: the exact coefficient formula on a sample of positions (first, last, around n/2 and
a few spread ones) -/
def sampledProductOk (p k : Nat) (xs ys : List Nat) (impl : List Int) : Bool :=
  let n := 2 ^ k
  let A := xs.toArray
  let B := ys.toArray
  let I := impl.toArray
  let pos := [0, 1, n / 2 - 1, n / 2, n - 2, n - 1, n / 3, (2 * n) / 3, n / 5, (7 * n) / 9]
  pos.all fun c => I.getD c (-1) == (Spec.negacyclicCoeffNat p A B n c : Int)

def nttHandlers2 : List (String × Handler) := [
  -- inv( fwd(a) ⊙ fwd(b) ), ⊙ = mulmod : spec = schoolbook negacyclic product
  ("mulntt", {
    run := fun a => OptionT.run do
      let (w, cm, k, xs, ys) ← liftOpt (splitPoly2 a)
      let (r, t) ← OptionT.mk (tablesFor w cm k)
      let fa := nttPowPhi w r.p k t xs
      let fb := nttPowPhi w r.p k t ys
      let prod := Spec.pointwise (mulmod w r.p r.pn) fa fb
      pure { model := ints (invnttPowInvphi w r.p k t prod), specOk := true, cls := clsPoly r.p xs ++ "*" ++ clsPoly r.p ys },
    spec := fun a impl => OptionT.run do
      let (w, cm, k, xs, ys) ← liftOpt (splitPoly2 a)
      let r ← liftOpt (rowOf w cm)
      if k ≤ mulOracleLimit then pure (impl == ints (Spec.negacyclicNat r.p xs ys))
      else pure (allLt r.p impl && sampledProductOk r.p k xs ys impl) }),
  -- same with the Shoup product: fwd(a) ⊙ fwd(b) via compute_shoup(fwd(b))
  ("mulnttshoup", {
    run := fun a => OptionT.run do
      let (w, cm, k, xs, ys) ← liftOpt (splitPoly2 a)
      let (r, t) ← OptionT.mk (tablesFor w cm k)
      let fa := nttPowPhi w r.p k t xs
      let fb := nttPowPhi w r.p k t ys
      let fb' := fb.map (computeShoup w r.p)
      let prod := mulShoupList w r.p fa fb fb'
      pure { model := ints (invnttPowInvphi w r.p k t prod), specOk := true, cls := clsPoly r.p xs ++ "*" ++ clsPoly r.p ys },
    spec := fun a impl => OptionT.run do
      let (w, cm, k, xs, ys) ← liftOpt (splitPoly2 a)
      let r ← liftOpt (rowOf w cm)
      if k ≤ mulOracleLimit then pure (impl == ints (Spec.negacyclicNat r.p xs ys))
      else pure (allLt r.p impl && sampledProductOk r.p k xs ys impl) }),
  -- fwd(a+b) = fwd(a)+fwd(b): line carries a, b, result fwd(a+b); spec compares with model fwd(a) ⊕ fwd(b)
  ("nttlin", {
    run := fun a => OptionT.run do
      let (w, cm, k, xs, ys) ← liftOpt (splitPoly2 a)
      let (r, t) ← OptionT.mk (tablesFor w cm k)
      let s := Spec.pointwise (addmod w r.p) xs ys
      pure { model := ints (nttPowPhi w r.p k t s), specOk := true, cls := clsPoly r.p xs ++ "+" ++ clsPoly r.p ys },
    spec := fun a impl => OptionT.run do
      let (w, cm, k, xs, ys) ← liftOpt (splitPoly2 a)
      let (r, t) ← OptionT.mk (tablesFor w cm k)
      let fa := nttPowPhi w r.p k t xs
      let fb := nttPowPhi w r.p k t ys
      pure (impl == ints (Spec.pointwise (fun x y => (x + y) % r.p) fa fb)) })
]

/-- `permtab k => P(0) … P(2^k-1)`: the permutation applied by `permut<2^k>::compute` -/
def permHandlers : List (String × Handler) := [
  ("permtab", {
    run := fun a => match a with
      | [k] => pure (some { model := ints ((List.range (2 ^ k.toNat)).map (bitrevCode k.toNat)), specOk := true, cls := s!"k={k}" })
      | _ => pure none,
    -- spec: an involutive permutation that reverses the k-bit index: P(P(i)) = i and P(2^j) = 2^(k-1-j)
    spec := fun a impl => match a with
      | [k] =>
        let k := k.toNat
        let arr := impl.toArray
        let n := 2 ^ k
        pure (some (arr.size == n &&
          (List.range k).all (fun j => arr.getD (2 ^ j) (-1) == ((2 ^ (k - 1 - j) : Nat) : Int)) &&
          (List.range n).all (fun i => let pi := arr.getD i (-1); 0 ≤ pi && pi < n && arr.getD pi.toNat (-1) == (i : Int))))
      | _ => pure none })
]

/-- table dumps: `tab <which> w cm k => entries` ; which: 0 phis 1 shoupphis 2 invphis 3 shoupinvphis
4 omegas 5 shoupomegas 6 invomegas 7 shoupinvomegas (first n-1 entries of the Harvey layout) -/
def tabHandlers : List (String × Handler) := [
  ("tab", {
    run := fun a => match a with
      | [which, w, cm, k] => OptionT.run do
        let (r, t) ← OptionT.mk (tablesFor w.toNat cm.toNat k.toNat)
        let l := match which.toNat with
          | 0 => t.phis | 1 => t.shoupphis | 2 => t.invphis | 3 => t.shoupinvphis
          | 4 => t.omegas | 5 => t.shoupomegas | 6 => t.invomegas | _ => t.shoupinvomegas
        pure { model := ints l, specOk := true, cls := s!"which={which}:k={k}" }
      | _ => pure none,
    spec := fun a impl => match a with
      | [which, w, cm, k] => OptionT.run do
        let r ← liftOpt (rowOf w.toNat cm.toNat)
        -- spec for phis: φ^i with φ^(2^k) ≡ -1 ; others: range only
        if which.toNat = 0 then
          let phi := phiOracle w.toNat r k.toNat
          let okRoot := Spec.powModN phi (2 ^ k.toNat) r.p == (r.p - 1) % r.p
          pure (okRoot && impl == ints ((List.range (2 ^ k.toNat)).map (fun i => Spec.powModN phi i r.p)))
        else pure (impl.all (fun v => 0 ≤ v && v < 2 ^ w.toNat))
      | _ => pure none })
]

end Driver
