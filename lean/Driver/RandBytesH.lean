/- Handler for C19: `nfl::randombytes` against scripted operating-system answers.

  rb <mode> <ncalls> <xlen_1..xlen_n> <outcome tokens…> => { <returned> <nlog> <log entries…> <buffer> }* <consumed>

  (token / entry / buffer encodings: see harness/randbytes.cpp; every outcome may carry `8 e` = errno left by the answer and
  `9 r` = result of the following `sleep` - the model `runCallsA` and the specification forget both).  `run` replays the script with the Lean model
  `Nfl.RB.runCalls` from descriptor state -1 and encodes its result the same way; `spec` evaluates the executable
  specification `Nfl.RB.checkCalls` on the *implementation's* call log and compares the implementation's buffer
  with the concatenation of the delivered chunks recomputed from the script.
-/
import Driver.OpsH
import NflVerif.Model.RandomBytes
import NflVerif.Spec.RandomBytesSpec
namespace Driver
open Nfl.RB

/-- the byte the harness delivers as the `g`-th byte of a call sequence -/
def rbByteAt (g : Nat) : Nat := (g * 167 + (g / 256) * 13 + (g / 65536) * 7 + 1) % 256

/-- outcome tokens, each optionally preceded by `8 e` (errno stored with the answer) and/or `9 r` (value returned by the first
    `sleep` after it); `e`, `r` = prefixes seen for the outcome being parsed.  A dangling or repeated prefix is rejected. -/
partial def rbParseAnswers (e r : Nat) : List Int → Option (List Answer)
  | [] => if e = 0 && r = 0 then some [] else none
  | 8 :: v :: t => if v ≤ 0 || e ≠ 0 then none else rbParseAnswers v.toNat r t
  | 9 :: v :: t => if v ≤ 0 || r ≠ 0 then none else rbParseAnswers e v.toNat t
  | 0 :: t => ({ out := .openFail, errno := e, sleepRet := r } :: ·) <$> rbParseAnswers 0 0 t
  | 1 :: fd :: t =>
    if fd < 0 then none else ({ out := .openOk fd.toNat, errno := e, sleepRet := r } :: ·) <$> rbParseAnswers 0 0 t
  | 2 :: t => ({ out := .readErr, errno := e, sleepRet := r } :: ·) <$> rbParseAnswers 0 0 t
  | 3 :: t => ({ out := .readZero, errno := e, sleepRet := r } :: ·) <$> rbParseAnswers 0 0 t
  | 4 :: n :: g0 :: t =>
    if n < 0 || g0 < 0 then none
    else ({ out := .readBytes ((List.range' g0.toNat n.toNat).map rbByteAt), errno := e, sleepRet := r } :: ·) <$>
      rbParseAnswers 0 0 t
  | 5 :: n :: t =>
    if n < 0 || t.length < n.toNat then none
    else
      let bs := t.take n.toNat
      if bs.all (fun b => 0 ≤ b && b < 256) then
        ({ out := .readBytes (bs.map Int.toNat), errno := e, sleepRet := r } :: ·) <$> rbParseAnswers 0 0 (t.drop n.toNat)
      else none
  | _ => none

structure RbInput where
  mode : Nat
  xlens : List Nat
  answers : List Answer          -- the environment as played: value, errno, sleep result
  script : List Outcome          -- `forget answers`: what the specification (and the code) looks at

def rbParseArgs (args : List Int) : Option RbInput :=
  match args with
  | mode :: ncalls :: rest =>
    if mode < 0 || mode > 1 || ncalls < 0 || rest.length < ncalls.toNat then none
    else
      let xs := rest.take ncalls.toNat
      if xs.any (· < 0) then none
      else do
        let an ← rbParseAnswers 0 0 (rest.drop ncalls.toNat)
        pure { mode := mode.toNat, xlens := xs.map Int.toNat, answers := an, script := forget an }
  | _ => none

initialize rbCache : IO.Ref (Option (List Int × RbInput)) ← IO.mkRef none

/-- `run` and `spec` are called on the same line one after the other: parse once -/
def rbInput (args : List Int) : IO (Option RbInput) := do
  match ← rbCache.get with
  | some (a, inp) => if a == args then return some inp
  | none => pure ()
  match rbParseArgs args with
  | some inp => rbCache.set (some (args, inp)); return some inp
  | none => return none

def rbEncCall : Call → List Int
  | .open none => [1, -1]
  | .open (some f) => [1, f]
  | .read f o r ret => [2, f, o, r, ret]
  | .sleep s => [3, s]
  | .openNoAns => [4]
  | .readNoAns f o r => [5, f, o, r]

def rbMemVals (m : Mem) : List Int := m.map (fun | some b => (b : Int) | none => -1)

/-- buffer encoding; `flag` (compact form only): the buffer equals the delivered chunks followed by unwritten bytes -/
def rbEncBuf (mode : Nat) (m : Mem) (flag : Unit → Bool) : List Int :=
  if mode = 0 then
    let v := rbMemVals m
    (v.length : Int) :: v
  else
    let (n, unw, h) := m.foldl (fun (acc : Nat × Nat × Nat) (x : Option Nat) =>
      match x with
      | some b => (acc.1 + 1, acc.2.1, (acc.2.2 * 31 + (b + 2)) % 1000000007)
      | none => (acc.1 + 1, acc.2.1 + 1, (acc.2.2 * 31 + 1) % 1000000007)) (0, 0, 0)
    let nf := min n 8
    [(n : Int), unw, h, nf] ++ rbMemVals (m.take nf) ++ [(nf : Int)] ++ rbMemVals (m.drop (n - nf)) ++
      [if flag () then 1 else 0]

/-- expected buffer from the outcomes consumed during one call -/
def rbExpected (xlen : Nat) (used : List Outcome) : Mem :=
  let d := delivered used
  (d.map some ++ List.replicate (xlen - d.length) none)

/-- encode the model's results; returns (encoding, outcomes consumed or -1) -/
def rbEncResults (mode : Nat) : List Result → List Nat → List Outcome → List Int → List Int
  | [], _, _, acc => acc
  | r :: rs, x :: xs, s, acc =>
    match r with
    | .done buf log rest _ =>
      let used := s.take (s.length - rest.length)
      let e := [(1 : Int), log.length] ++ log.flatMap rbEncCall ++ rbEncBuf mode buf (fun _ => buf == rbExpected x used)
      if rs.isEmpty then acc ++ e else rbEncResults mode rs xs rest (acc ++ e)
    | .stopped _ buf log _ =>
      acc ++ [(0 : Int), log.length] ++ log.flatMap rbEncCall ++ rbEncBuf mode buf (fun _ => buf == rbExpected x s)
  | _, [], _, acc => acc

def rbConsumed (script : List Outcome) (rs : List Result) : Int :=
  match rs.getLast? with
  | some (.done _ _ rest _) => (script.length - rest.length : Nat)
  | some (.stopped .outOfScript _ _ _) => script.length
  | _ => -1

def rbSizeCls (x : Nat) : String :=
  if x = 0 then "0" else if x = 1 then "1" else if x ≤ chunk then "small" else ">1MiB"

def rbCls (inp : RbInput) (rs : List Result) : String :=
  let s := inp.script
  let has (p : Outcome → Bool) (t : String) : String := if s.any p then t else ""
  let fin := match rs.getLast? with
    | some (.done ..) => "returned"
    | some (.stopped .outOfScript _ _ none) => "spins-in-open"
    | some (.stopped .outOfScript ..) => "spins-in-read"
    | some (.stopped .mismatch ..) => "MISMATCH"
    | some (.stopped .overlong ..) => "OVERLONG"
    | none => "nocall"
  let nshort := (s.filter (fun | .readBytes _ => true | _ => false)).length
  -- value returned by the successful open (first one of the script)
  let fdc := match s.findSome? (fun | .openOk f => some f | _ => none) with
    | none => "none"
    | some f => if f ≤ 2 then s!"{f}" else if f < 1024 then "small" else if f < 2147483647 then "large" else "INT_MAX"
  -- a short read ended exactly at / next to a multiple of the chunk (requests above 1 MiB only)
  let edge := if inp.xlens.foldl max 0 ≤ chunk then "" else
    let ends := (s.foldl (fun (acc : Nat × List Nat) o =>
      match o with | .readBytes bs => (acc.1 + bs.length, (acc.1 + bs.length) :: acc.2) | _ => acc) (0, [])).2
    (if ends.any (fun e => e % chunk = chunk - 1) then "-" else "") ++ (if ends.any (fun e => e % chunk = 0 && e > 0) then "=" else "") ++
      (if ends.any (fun e => e % chunk = 1 && e > 1) then "+" else "")
  if inp.xlens.length ≥ 2 then
    s!"calls={min inp.xlens.length 3},max={rbSizeCls (inp.xlens.foldl max 0)},fd={fdc}," ++
      has (· == .openFail) "F" ++ has (fun o => o == .readErr || o == .readZero) "R" ++ (if edge = "" then "" else s!"chunk{edge}") ++ "," ++ fin
  else
  s!"calls={inp.xlens.length},max={rbSizeCls (inp.xlens.foldl max 0)}," ++
    has (· == .openFail) "F" ++ has (· == .readErr) "E" ++ has (· == .readZero) "Z" ++
    (if nshort ≥ 2 then "S" else "") ++ (if edge = "" then "" else s!"chunk{edge}") ++ "," ++ fin

/-! ### decoding the implementation's answer -/

def rbDecEntries : Nat → List Int → List Call → Bool → Option (List Call × List Int × Bool)
  | 0, t, acc, ok => some (acc.reverse, t, ok)
  | n + 1, 1 :: ret :: t, acc, ok =>
    rbDecEntries n t ((if ret < 0 then Call.open none else Call.open (some ret.toNat)) :: acc) (ok && ret ≥ -1)
  | n + 1, 9 :: ret :: t, acc, _ =>      -- open with unexpected arguments
    rbDecEntries n t ((if ret < 0 then Call.open none else Call.open (some ret.toNat)) :: acc) false
  | n + 1, 2 :: f :: o :: r :: ret :: t, acc, ok =>
    rbDecEntries n t (Call.read f.toNat o.toNat r.toNat ret :: acc) (ok && f ≥ 0 && o ≥ 0 && r ≥ 0)
  | n + 1, 3 :: s :: t, acc, ok => rbDecEntries n t (Call.sleep s.toNat :: acc) ok
  | n + 1, 4 :: t, acc, ok => rbDecEntries n t (Call.openNoAns :: acc) ok
  | n + 1, 5 :: f :: o :: r :: t, acc, ok =>
    rbDecEntries n t (Call.readNoAns f.toNat o.toNat r.toNat :: acc) (ok && f ≥ 0 && o ≥ 0 && r ≥ 0)
  | _, _, _, _ => none

/-- split off one buffer encoding -/
def rbDecBuf (mode : Nat) : List Int → Option (List Int × List Int)
  | len :: t =>
    if len < 0 then none
    else if mode = 0 then
      if t.length < len.toNat then none else some (len :: t.take len.toNat, t.drop len.toNat)
    else
      match t with
      | unw :: h :: nf :: t2 =>
        if nf < 0 || t2.length < nf.toNat + 1 then none
        else
          let first := t2.take nf.toNat
          match t2.drop nf.toNat with
          | nl :: t3 =>
            if nl < 0 || t3.length < nl.toNat + 1 then none
            else
              let last := t3.take nl.toNat
              match t3.drop nl.toNat with
              | flag :: t4 => some ([len, unw, h, nf] ++ first ++ [nl] ++ last ++ [flag], t4)
              | [] => none
          | [] => none
      | _ => none
  | [] => none

structure RbImpl where
  calls : List ImplCall
  bufs : List (List Int)
  consumed : Int
  wellFormed : Bool       -- every logged value in range and every `open` had the expected arguments

partial def rbDecImpl (mode : Nat) (impl : List Int) (calls : List ImplCall) (bufs : List (List Int)) (ok : Bool) :
    Option RbImpl :=
  match impl with
  | [c] => some { calls := calls.reverse, bufs := bufs.reverse, consumed := c, wellFormed := ok }
  | ret :: nlog :: t =>
    if nlog < 0 || (ret ≠ 0 && ret ≠ 1) then none
    else do
      let (log, t, ok) ← rbDecEntries nlog.toNat t [] ok
      let (b, t) ← rbDecBuf mode t
      rbDecImpl mode t ({ returned := ret == 1, log := log } :: calls) (b :: bufs) ok
  | _ => none

def rbHandlers : List (String × Handler) := [
  ("rb", {
    run := fun a => do
      match ← rbInput a with
      | none => pure none
      | some inp =>
        let rs := runCallsA none inp.answers inp.xlens
        let enc := rbEncResults inp.mode rs inp.xlens inp.script []
        pure (some { model := enc ++ [rbConsumed inp.script rs], specOk := true, cls := rbCls inp rs }),
    spec := fun a impl => do
      match ← rbInput a with
      | none => pure none
      | some inp =>
        match rbDecImpl inp.mode impl [] [] true with
        | none => pure none
        | some im =>
          if !im.wellFormed then pure (some false)
          else
            match checkCalls inp.xlens im.calls { script := inp.script } with
            | none => pure (some false)
            | some (mems, st) =>
              let bufsOk := mems.length == im.bufs.length &&
                (mems.zip im.bufs).all (fun (m, b) => rbEncBuf inp.mode m (fun _ => true) == b)
              pure (some (bufsOk && im.consumed == ((inp.script.length - st.script.length : Nat) : Int))) })
]

end Driver
