/- Handlers for C15: coefficient-list setters (harness/setters.cpp). -/
import Driver.OpsH
import NflVerif.Model.Setters
namespace Driver
open Nfl Nfl.Setters

/-- `params<T>::P` as the compiler sees it (regenerated table) -/
def moduliOf (w : Nat) : Option (List Nat) := (tabOf w).map (fun t => t.rows.toList.map (·.p))

def splitAtExact (k : Nat) (l : List α) : Option (List α × List α) :=
  if k ≤ l.length then some (l.take k, l.drop k) else none

def allWord (w : Nat) (l : List Int) : Bool := l.all (fun v => 0 ≤ v && v < (2 : Int) ^ w)

/-- The property's rules written directly (no loop, no iterator): what must the object hold afterwards?
`red p v` is the value rule for one element. -/
def specSet (n m : Nat) (P : List Nat) (red : Nat → Int → Option Int) (vals : List Int) (old : List Int) :
    Option (List Int) :=
  let k := vals.length
  if k > n && k != n * m then some ((1 : Int) :: old)       -- throws, object unchanged
  else do
    let ws ← (List.range (n * m)).mapM fun j => do
      let cm := j / n
      let i := j % n
      let p ← P[cm]?
      if k == n * m then red p (← vals[j]?)                 -- slice per modulus
      else if i < k then red p (← vals[i]?)                  -- value i in every modulus
      else some 0                                            -- zero fill
    some ((0 : Int) :: ws)

def redWord (w : Nat) (reduce : Bool) (p : Nat) (v : Int) : Option Int :=
  if v < 0 then none
  else if reduce then (if p = 0 then none else some (v.toNat % p : Nat))   -- any unsigned source value
  else if v < (2 : Int) ^ w then some v else none                           -- verbatim: a native word

/-- non-negative residue, computed with floor-mod (independently of the model's `Int.emod`) -/
def redMpz (p : Nat) (z : Int) : Option Int :=
  if p = 0 then none else
    let r := Int.fmod z p
    if 0 ≤ r && r < p && (z - r) % (p : Int) == 0 then some r else none

def lenClass (n m k : Nat) : String :=
  let base := if k = 0 then "k=0" else if k < n then "0<k<n" else if k = n then (if m = 1 then "k=n=nm" else "k=n")
    else if k = n * m then "k=nm" else if k < n * m then "n<k<nm:throw" else "k>nm:throw"
  (if m = 1 then "m=1:" else "") ++ base

def flagsWord (w : Nat) (P : List Nat) (m : Nat) (vals : List Int) : String :=
  let ps := P.take m
  let has (f : Int → Bool) := vals.any f
  (if has (· == 0) then "0" else "") ++
  (if has (fun v => ps.any (fun p => v + 1 == p)) then "m" else "") ++     -- p-1
  (if has (fun v => ps.any (fun p => v == p)) then "p" else "") ++
  (if has (fun v => v + 1 == (2 : Int) ^ w) then "W" else "") ++           -- 2^w-1
  (if has (fun v => ps.all (fun p => v > p)) then "g" else "")             -- above every modulus

def flagsMpz (P : List Nat) (m : Nat) (vals : List Int) : String :=
  let ps := P.take m
  let has (f : Int → Bool) := vals.any f
  (if has (· == 0) then "0" else "") ++
  (if has (· < 0) then "-" else "") ++
  (if has (fun v => v.natAbs ≥ 2 ^ 64) then "B" else "") ++               -- beyond unsigned long
  (if has (fun v => v.natAbs ≥ 2 ^ 128) then "H" else "") ++              -- multi-hundred-bit
  (if has (fun v => v ≠ 0 && ps.any (fun p => v % (p : Int) == 0)) then "p" else "")  -- non-zero multiple of a modulus

def outcome (old : List Nat) (r : Except Err (List Nat)) : List Int :=
  (if threw r then (1 : Int) else 0) :: ints (objAfter old r)
 where ints (l : List Nat) : List Int := l.map Int.ofNat

structure SetArgs where
  w : Nat
  n : Nat
  m : Nat
  P : List Nat
  vals : List Int
  old : List Int

/-- `<w> <n> <m> [reduce] <src> <cls> <k> <vals…k> <old…n*m>` after the leading fields have been taken off -/
def parseTail (w n m : Nat) (rest : List Int) : Option SetArgs :=
  match rest with
  | k :: rest' => do
    if k < 0 then none
    let (vals, old) ← splitAtExact k.toNat rest'
    if old.length != n * m || n == 0 || m == 0 || !allWord w old then none
    let P ← moduliOf w
    if P.length < m then none
    some { w := w, n := n, m := m, P := P, vals := vals, old := old }
  | _ => none

def settersHandlersP : List (String × PHandler) := [
  ("setlist", {
    run := fun a => match a with
      | w :: n :: m :: reduce :: _src :: _cls :: rest => do
        let s ← parseTail w.toNat n.toNat m.toNat rest
        if s.vals.any (· < 0) then none
        let r := setList s.w s.n s.m s.P (natsOf s.vals) (reduce != 0) (natsOf s.old)
        some { model := outcome (natsOf s.old) r, specOk := true,
               cls := lenClass s.n s.m s.vals.length ++ ":r" ++ toString reduce ++ ":" ++ flagsWord s.w s.P s.m s.vals }
      | _ => none,
    spec := fun a impl => match a with
      | w :: n :: m :: reduce :: _src :: _cls :: rest => do
        let s ← parseTail w.toNat n.toNat m.toNat rest
        let want ← specSet s.n s.m s.P (redWord s.w (reduce != 0)) s.vals s.old
        some (impl == want)
      | _ => none }),
  ("setscalar", {
    run := fun a => match a with
      | w :: n :: m :: reduce :: _src :: _cls :: v :: old => do
        let s ← parseTail w.toNat n.toNat m.toNat ((0 : Int) :: old)
        if v < 0 then none
        let r := setScalar s.w s.n s.m s.P v.toNat (reduce != 0) (natsOf s.old)
        some { model := outcome (natsOf s.old) r, specOk := true,
               cls := "scalar:r" ++ toString reduce ++ ":" ++ (if v == 0 then "zero" else flagsWord s.w s.P s.m [v]) }
      | _ => none,
    spec := fun a impl => match a with
      | w :: n :: m :: reduce :: _src :: _cls :: v :: old => do
        let s ← parseTail w.toNat n.toNat m.toNat ((0 : Int) :: old)
        -- a scalar is the constant polynomial: coefficient 0 = v (mod p_cm), the rest 0; 0 gives the zero polynomial
        let ws ← (List.range (s.n * s.m)).mapM fun j => do
          let p ← s.P[j / s.n]?
          if j % s.n == 0 then redWord s.w (reduce != 0) p v else some 0
        some (impl == (0 : Int) :: ws && (v != 0 || ws.all (· == 0)))
      | _ => none }),
  ("setmpz", {
    run := fun a => match a with
      | w :: n :: m :: _src :: _cls :: rest => do
        let s ← parseTail w.toNat n.toNat m.toNat rest
        let r := setMpz s.w s.n s.m s.P s.vals (natsOf s.old)
        some { model := outcome (natsOf s.old) r, specOk := true,
               cls := "mpz:" ++ lenClass s.n s.m s.vals.length ++ ":" ++ flagsMpz s.P s.m s.vals }
      | _ => none,
    spec := fun a impl => match a with
      | w :: n :: m :: _src :: _cls :: rest => do
        let s ← parseTail w.toNat n.toNat m.toNat rest
        let want ← specSet s.n s.m s.P redMpz s.vals s.old
        -- canonical range of everything a big-integer setter stores
        let canon := impl.head? == some 1 || (impl.drop 1).zipIdx.all fun (x, j) =>
          match s.P[j / s.n]? with | some p => 0 ≤ x && x < p | none => false
        some (impl == want && canon)
      | _ => none })
]

def settersHandlers : List (String × Handler) := settersHandlersP.map (fun (n, h) => (n, h.lift))

end Driver
