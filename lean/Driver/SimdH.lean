/- Handlers for C05: intrinsic-level SIMD model vs the CPU (`i_*`), SSE/AVX2 kernels vs their models and
vs the scalar functor models lane by lane (`k_*`), transforms of the vector builds (`nttfwd_sse`, …). -/
import Driver.NttH
import NflVerif.Model.Simd
namespace Driver
open Nfl Nfl.Simd

def nats (l : List Int) : List Nat := l.map Int.toNat

/-- split `rest` into `k` vectors of `L` lanes; rejects a wrong length -/
def splitVecs (k L : Nat) (rest : List Nat) : Option (List (List Nat)) :=
  if rest.length = k * L then some ((List.range k).map fun i => (rest.drop (i * L)).take L) else none

def okLanes (w : Nat) (l : List Nat) : Bool := l.all (· < 2 ^ w)

/-- an intrinsic with `k` input vectors of `win`-bit lanes; lane count must be one of `Ls` -/
def iHandler (k win : Nat) (Ls : List Nat) (f : Nat → List (List Nat) → List Nat)
    (cls : List (List Nat) → List Nat → String := fun _ _ => "") : PHandler :=
  { run := fun a => match a with
      | L :: rest => do
        let L := L.toNat
        if !Ls.contains L then none
        let vs ← splitVecs k L (nats rest)
        if !(vs.all (okLanes win)) then none
        let r := f L vs
        let c := cls vs r
        pure { model := ints r, specOk := true, cls := s!"L={L}" ++ (if c.isEmpty then "" else ":" ++ c) }
      | _ => none,
    spec := fun _ _ => some true }

def bin (f : Reg → Reg → Reg) : Nat → List (List Nat) → List Nat := fun _ vs =>
  match vs with | [a, b] => f a b | _ => []
def un (f : Reg → Reg) : Nat → List (List Nat) → List Nat := fun _ vs =>
  match vs with | [a] => f a | _ => []

def clsCmp (w : Nat) : List (List Nat) → List Nat → String := fun vs r =>
  let eqs := match vs with | [a, b] => (List.zipWith (fun x y => x == y) a b).any id | _ => false
  let adj := match vs with | [a, b] => (List.zipWith (fun x y => x + 1 == y || y + 1 == x) a b).any id | _ => false
  let mixed := match vs with
    | [a, b] => (List.zipWith (fun x y => decide (x < 2 ^ (w - 1)) != decide (y < 2 ^ (w - 1))) a b).any id | _ => false
  (if r.all (· == 0) then "none" else if r.all (· != 0) then "all" else "some") ++
    (if eqs then "+eq" else "") ++ (if adj then "+adjacent" else "") ++ (if mixed then "+mixed-sign" else "")

def clsPack : List (List Nat) → List Nat → String := fun vs _ =>
  let l := vs.flatten
  (if l.any (fun v => v ≥ 2 ^ 31) then "neg→0 " else "") ++ (if l.any (fun v => 65535 < v && v < 2 ^ 31) then "sat→ffff " else "") ++
  (if l.any (· == 65535) then "=ffff " else "") ++ (if l.any (· == 65536) then "=10000" else "")

def simdIntrinsics : List (String × PHandler) := [
  ("i_add16", iHandler 2 16 [8, 16] (bin (add 16))), ("i_add32", iHandler 2 32 [4, 8] (bin (add 32))),
  ("i_add64", iHandler 2 64 [2, 4] (bin (add 64))),
  ("i_sub16", iHandler 2 16 [8, 16] (bin (sub 16))), ("i_sub32", iHandler 2 32 [4, 8] (bin (sub 32))),
  ("i_sub64", iHandler 2 64 [2, 4] (bin (sub 64))),
  ("i_mullo16", iHandler 2 16 [8, 16] (bin (mullo 16))), ("i_mullo32", iHandler 2 32 [4, 8] (bin (mullo 32))),
  ("i_mulhi_epu16", iHandler 2 16 [8, 16] (bin mulhiEpu16)),
  ("i_cmpgt16", iHandler 2 16 [8, 16] (bin (cmpgt 16)) (clsCmp 16)),
  ("i_cmpgt32", iHandler 2 32 [4, 8] (bin (cmpgt 32)) (clsCmp 32)),
  ("i_cmpgt64", iHandler 2 64 [2, 4] (bin (cmpgt 64)) (clsCmp 64)),
  ("i_and16", iHandler 2 16 [8, 16] (bin Simd.and)), ("i_and32", iHandler 2 32 [4, 8] (bin Simd.and)),
  ("i_and64", iHandler 2 64 [2, 4] (bin Simd.and)),
  ("i_mul_epu32", iHandler 2 32 [4, 8] (bin mulEpu32)),
  ("i_srli64_32", iHandler 1 64 [2, 4] (un (srli64 32))), ("i_slli64_32", iHandler 1 64 [2, 4] (un (slli64 32))),
  ("i_shuf_b1", iHandler 1 32 [4, 8] (un (shuffleEpi32 immB1))),
  ("i_blend", iHandler 2 32 [4, 8] (fun L vs => bin (blendPs (if L = 4 then 0b1010 else 0b10101010)) L vs)),
  ("i_cvtepu16_128", iHandler 1 16 [8] (un cvtepu16_128)), ("i_cvtepu16_256", iHandler 1 16 [8] (un cvtepu16_256)),
  ("i_packus32", iHandler 2 32 [4] (bin packus32) clsPack),
  ("i_srli_si128_8", iHandler 1 16 [8] (un (srliSi128_8 16))),
  ("i_perm2x128_1", iHandler 1 32 [8] (un (fun t => permute2x128 t t 1))),
  ("i_cast256_128", iHandler 1 32 [8] (un cast256to128)),
  ("i_view64of32", iHandler 1 32 [4, 8] (un view64of32)), ("i_view32of64", iHandler 1 64 [2, 4] (un view32of64)),
  ("i_to64_16", iHandler 1 16 [8, 16] (fun L vs => un (to64 16 (L / 4)) L vs)),
  ("i_from64_16", iHandler 1 64 [2, 4] (un (from64 16))),
  ("i_veq64", iHandler 2 64 [2, 4] (bin vecEq64) (clsCmp 64)), ("i_vneq64", iHandler 2 64 [2, 4] (bin vecNeq64) (clsCmp 64)),
  -- set1: the scalar argument is lane 0 of the input vector
  ("i_set1_16", iHandler 1 16 [8, 16] (fun L vs => set1 16 L ((vs.headD []).headD 0))),
  ("i_set1_32", iHandler 1 32 [4, 8] (fun L vs => set1 32 L ((vs.headD []).headD 0))),
  ("i_set1_64", iHandler 1 64 [2, 4] (fun L vs => set1 64 L ((vs.headD []).headD 0)))
]

/-! ### kernels -/

inductive Bk | sse | avx2 deriving BEq
def Bk.lanes : Bk → Nat → Nat | .sse, w => sseLanes w | .avx2, w => avx2Lanes w

/-- `w cm L v_1 … v_k` with `L` the lane count the kernel is declared with -/
def withKernel (a : List Int) (k : Nat) (wantL : Nat → Nat)
    (f : Nat → Row → Nat → List (List Nat) → Option α) : Option α :=
  match a with
  | w :: cm :: L :: rest => do
    let (w, L) := (w.toNat, L.toNat)
    if !(w == 16 || w == 32) then none
    if L != wantL w then none
    let r ← rowOf w cm.toNat
    let vs ← splitVecs k L (nats rest)
    if !(vs.all (okLanes w)) then none
    f w r L vs
  | _ => none

def zip3 (f : Nat → Nat → Nat → Nat) : List Nat → List Nat → List Nat → List Nat
  | x :: xs, y :: ys, z :: zs => f x y z :: zip3 f xs ys zs
  | _, _, _ => []
def zip4 (f : Nat → Nat → Nat → Nat → Nat) : List Nat → List Nat → List Nat → List Nat → List Nat
  | x :: xs, y :: ys, z :: zs, t :: ts => f x y z t :: zip4 f xs ys zs ts
  | _, _, _, _ => []
def all3 (f : Nat → Nat → Nat → Bool) : List Nat → List Nat → List Nat → Bool
  | x :: xs, y :: ys, z :: zs => f x y z && all3 f xs ys zs
  | _, _, _ => true
def all4 (f : Nat → Nat → Nat → Nat → Bool) : List Nat → List Nat → List Nat → List Nat → Bool
  | x :: xs, y :: ys, z :: zs, t :: ts => f x y z t && all4 f xs ys zs ts
  | _, _, _, _ => true

def clsSums (p : Nat) (x y : List Nat) : String :=
  let s := List.zipWith (· + ·) x y
  let canon := x.all (· < p) && y.all (· < p)
  (if canon then "canon" else "words") ++ (if s.any (· == p) then "+sum=p" else "") ++
    (if s.any (· + 1 == p) then "+sum=p-1" else "") ++ (if s.any (· == p + 1) then "+sum=p+1" else "")

/-- lane hypothesis of the Shoup-product lane theorems (`Proofs/SimdLanes.lean`) -/
def mulShoupHyp (w p x y yp : Nat) : Bool :=
  if w = 32 then subWrap (2 ^ 64) (x * y) (shoupQ 32 x yp * p) < 2 ^ 32
  else shoupDiff 16 p x y (shoupQ 16 x yp) < p + 2 ^ 16

def muladdShoupHyp (p z x y yp : Nat) : Bool := z + shoupDiff 16 p x y (shoupQ 16 x yp) < 2 ^ 16

def kMulShoupModel (b : Bk) (w p : Nat) (x y yp : List Nat) : List Nat :=
  if w = 32 then sseMulmodShoup32 p x y yp
  else match b with | .sse => sseMulmodShoup16 p x y yp | .avx2 => avx2MulmodShoup16 p x y yp

def kAddmod (b : Bk) (subm : Bool) : PHandler :=
  { run := fun a => withKernel a 2 b.lanes fun w r L vs => match vs with
      | [x, y] => some { model := ints ((if subm then vecSubmod else vecAddmod) w L r.p x y), specOk := true,
                         cls := s!"w={w}:" ++ clsSums r.p x y }
      | _ => none,
    spec := fun a impl => withKernel a 2 b.lanes fun w r _ vs => match vs with
      | [x, y] =>
        let lane := impl == ints (List.zipWith ((if subm then submod else addmod) w r.p) x y)
        let canon := x.all (· < r.p) && y.all (· < r.p)
        let exact := impl == ints (List.zipWith (fun x y => if subm then Spec.subSpec r.p x y else Spec.addSpec r.p x y) x y)
        some (lane && (!canon || exact))
      | _ => none }

def kMulShoup (b : Bk) : PHandler :=
  { run := fun a => withKernel a 3 (fun w => if w = 16 then 8 else 4) fun w r _ vs => match vs with
      | [x, y, yp] =>
        let hyp := all3 (mulShoupHyp w r.p) x y yp
        let reg := all3 (fun _ y yp => y < r.p && yp == Spec.shoupSpec w r.p y) x y yp
        some { model := ints (kMulShoupModel b w r.p x y yp), specOk := true,
               cls := s!"w={w}:" ++ (if reg then "regime" else if hyp then "hyp-only" else "outside-hyp") ++
                      (if x.any (· ≥ r.p) then "+lazy-x" else "") }
      | _ => none,
    spec := fun a impl => withKernel a 3 (fun w => if w = 16 then 8 else 4) fun w r _ vs => match vs with
      | [x, y, yp] =>
        let hyp := all3 (mulShoupHyp w r.p) x y yp
        let reg := all3 (fun _ y yp => y < r.p && yp == Spec.shoupSpec w r.p y) x y yp
        let lane := impl == ints (zip3 (mulmodShoup w r.p) x y yp)
        let exact := impl == ints (List.zipWith (Spec.mulSpec r.p) x y)
        some ((!hyp || lane) && (!reg || (hyp && exact)))
      | _ => none }

def kMuladdShoup (b : Bk) : PHandler :=
  { run := fun a => withKernel a 4 (fun _ => 8) fun w r _ vs => match vs with
      | [z, x, y, yp] =>
        if w != 16 then none else
        let hyp := all4 (muladdShoupHyp r.p) z x y yp
        let reg := all4 (fun z _ y yp => z < r.p && y < r.p && yp == Spec.shoupSpec w r.p y) z x y yp
        let m := match b with | .sse => sseMuladdShoup16 r.p z x y yp | .avx2 => avx2MuladdShoup16 r.p z x y yp
        some { model := ints m, specOk := true,
               cls := (if reg then "regime" else if hyp then "hyp-only" else "outside-hyp") ++ (if x.any (· ≥ r.p) then "+lazy-x" else "") }
      | _ => none,
    spec := fun a impl => withKernel a 4 (fun _ => 8) fun w r _ vs => match vs with
      | [z, x, y, yp] =>
        let hyp := all4 (muladdShoupHyp r.p) z x y yp
        let reg := all4 (fun z _ y yp => z < r.p && y < r.p && yp == Spec.shoupSpec w r.p y) z x y yp
        let lane := impl == ints (zip4 (muladdShoup w r.p) z x y yp)
        let rel := impl.length == x.length &&
          (List.range x.length).all fun i =>
            Spec.muladdLazyOk r.p (z.getD i 0) (x.getD i 0) (y.getD i 0) (impl.getD i 0).toNat
        some ((!hyp || lane) && (!reg || (hyp && rel)))
      | _ => none }

def kMulhi32 (b : Bk) : PHandler :=
  { run := fun a => match a with
      | L :: rest => do
        let L := L.toNat
        if L != b.lanes 32 then none
        let vs ← splitVecs 2 L (nats rest)
        if !(vs.all (okLanes 32)) then none
        match vs with
        | [x, y] => pure { model := ints ((match b with | .sse => sseMulhiEpu32 | .avx2 => avx2MulhiEpu32) x y),
                           specOk := true, cls := s!"L={L}" }
        | _ => none
      | _ => none,
    spec := fun a impl => match a with
      | L :: rest => do
        let vs ← splitVecs 2 L.toNat (nats rest)
        match vs with
        | [x, y] => pure (impl == ints (List.zipWith (fun a b => a * b / 2 ^ 32) x y))
        | _ => none
      | _ => none }

def kBfly (b : Bk) : PHandler :=
  { run := fun a => withKernel a 4 b.lanes fun w r L vs => match vs with
      | [u0, u1, wi, wt] =>
        let body : Body := match b with | .sse => sseBody w r.p | .avx2 => avx2Body w r.p
        let (t0, t2) := body u0 u1 wi wt
        let s := List.zipWith (fun a b => (a + b) % 2 ^ w) u0 u1
        some { model := ints (t0 ++ t2), specOk := true,
               cls := s!"w={w}:L={L}" ++ (if s.any (· == 2 * r.p) then "+sum=2p" else "") ++ (if s.any (· + 1 == 2 * r.p) then "+sum=2p-1" else "") ++
                      (if u0.any (· ≥ 4 * r.p) || u1.any (· ≥ 4 * r.p) then "+words" else "+lazy") }
      | _ => none,
    spec := fun a impl => withKernel a 4 b.lanes fun w r _ vs => match vs with
      | [u0, u1, wi, wt] =>
        some (impl == ints (List.zipWith (bflyLo w r.p) u0 u1 ++ hiList w r.p u0 u1 wt wi))
      | _ => none }

/-- `w cm k x[n] wtab[n] winvtab[n]` -/
def splitLoop (a : List Int) : Option (Nat × Row × Nat × List Nat × List Nat × List Nat) :=
  match a with
  | w :: cm :: k :: rest => do
    let (w, k) := (w.toNat, k.toNat)
    if !(w == 16 || w == 32) || k < 3 then none
    let r ← rowOf w cm.toNat
    let n := 2 ^ k
    let xs := nats rest
    if xs.length != 3 * n || !(okLanes w xs) then none
    pure (w, r, k, xs.take n, (xs.drop n).take n, xs.drop (2 * n))
  | _ => none

def kNttLoop (b : Bk) : PHandler :=
  { run := fun a => do
      let (w, r, k, x, wt, wi) ← splitLoop a
      let res := match b with
        | .sse => nttLoopSse w r.p (k - 2) (2 ^ k) 1 wt wi x
        | .avx2 => nttLoopAvx2 w r.p (k - 2) (2 ^ k) 1 wt wi x
      pure { model := ints res.1, specOk := true,
             cls := s!"w={w}:n={2 ^ k}" ++ (if x.all (· < 4 * r.p) then ":lazy" else ":words") },
    spec := fun a impl => do
      let (w, r, k, x, wt, wi) ← splitLoop a
      pure (impl == ints (nttLoop w r.p (k - 2) (2 ^ k) 1 wt wi x).1) }

/-- `w L total X[total] Y[total]` -/
def kPolyCmp (b : Bk) (isEq : Bool) : PHandler :=
  { run := fun a => match a with
      | w :: L :: total :: rest => do
        let (w, L, total) := (w.toNat, L.toNat, total.toNat)
        if !(w == 16 || w == 32 || w == 64) || L != b.lanes w || total % L != 0 then none
        let vs ← splitVecs 2 total (nats rest)
        if !(vs.all (okLanes w)) then none
        match vs with
        | [x, y] =>
          let nd := (List.zipWith (fun a b => if a == b then 0 else 1) x y).sum
          pure { model := [if exprBoolVec isEq w L (total / L) x y then 1 else 0], specOk := true,
                 cls := s!"w={w}:L={L}:" ++ (if nd = 0 then "equal" else if nd = 1 then "one-diff" else if nd = total then "all-diff" else "few-diff") }
        | _ => none
      | _ => none,
    spec := fun a impl => match a with
      | _ :: _ :: total :: rest => do
        let vs ← splitVecs 2 total.toNat (nats rest)
        match vs with
        | [x, y] => pure (impl == [if (x == y) == isEq then 1 else 0] &&
                          impl == [if exprBoolScalar isEq x y then 1 else 0])
        | _ => none
      | _ => none }

def simdKernels : List (String × PHandler) := [
  ("k_addmod_sse", kAddmod .sse false), ("k_addmod_avx2", kAddmod .avx2 false),
  ("k_submod_sse", kAddmod .sse true), ("k_submod_avx2", kAddmod .avx2 true),
  ("k_mulshoup_sse", kMulShoup .sse), ("k_mulshoup_avx2", kMulShoup .avx2),
  ("k_muladdshoup_sse", kMuladdShoup .sse), ("k_muladdshoup_avx2", kMuladdShoup .avx2),
  ("k_mulhi32_sse", kMulhi32 .sse), ("k_mulhi32_avx2", kMulhi32 .avx2),
  ("k_bfly_sse", kBfly .sse), ("k_bfly_avx2", kBfly .avx2),
  ("k_nttloop_sse", kNttLoop .sse), ("k_nttloop_avx2", kNttLoop .avx2),
  ("k_polyeq_sse", kPolyCmp .sse true), ("k_polyeq_avx2", kPolyCmp .avx2 true),
  ("k_polyneq_sse", kPolyCmp .sse false), ("k_polyneq_avx2", kPolyCmp .avx2 false)
]

/-! ### whole transforms of the vector builds: model variant = `nttWordSse` / `nttWordAvx2`,
spec = the serial model's words (the C05 statement) -/

def nttPowPhiVec (b : Bk) (w p k : Nat) (t : NttTables) (a : List Nat) : Option (List Nat) :=
  let y := mulShoupList w p a t.phis t.shoupphis
  match b with
  | .sse => nttWordSse w p k t.omegas t.shoupomegas y
  | .avx2 => nttWordAvx2 w p k t.omegas t.shoupomegas y

def nttFwdVec (b : Bk) : Handler :=
  { run := fun a => OptionT.run do
      let (w, cm, k, xs) ← liftOpt (splitPoly a)
      let (r, t) ← OptionT.mk (tablesFor w cm k)
      if w == 64 then
        pure { model := ints (nttPowPhi w r.p k t xs), specOk := true, cls := "w=64(serial code):" ++ clsPoly r.p xs }
      else
        let m ← liftOpt (nttPowPhiVec b w r.p k t xs)
        pure { model := ints m, specOk := true, cls := s!"w={w}:" ++ clsPoly r.p xs },
    spec := fun a impl => OptionT.run do
      let (w, cm, k, xs) ← liftOpt (splitPoly a)
      let (r, t) ← OptionT.mk (tablesFor w cm k)
      pure (impl == ints (nttPowPhi w r.p k t xs)) }

def simdHandlers : List (String × Handler) :=
  (simdIntrinsics ++ simdKernels).map (fun (n, h) => (n, h.lift)) ++
  [("nttfwd_sse", nttFwdVec .sse), ("nttfwd_avx2", nttFwdVec .avx2)]

end Driver
