/-
Line protocol of the correspondence check.

  harness line :  <op> <int>* => <int>*
  driver answer:  one line per non-OK input line, then a summary.

Every handler returns the model's result for the arguments and the verdict of the executable
specification on the *implementation's* result.
-/
namespace Driver

structure Verdict where
  model : List Int          -- what the Lean model computes
  specOk : Bool             -- does the implementation's answer satisfy the property's spec?
  cls : String              -- boundary class of this case (coverage histogram)
  relational : Bool := false -- if true the model result is not compared (property is relational)
  note : String := ""

/-- decimal digits `a[lo..hi)` → Nat by balanced splitting (sub-quadratic with GMP-backed `Nat`; the library's
`String.toNat?` is a left fold `n*10+d`, quadratic in the number of digits — minutes on lines that carry a thousand
integers of twenty thousand digits each). Works on the UTF-8 bytes, no per-character allocation. -/
partial def digitsToNat (a : ByteArray) (lo hi : Nat) : Nat :=
  if hi - lo ≤ 18 then
    Nat.fold (hi - lo) (fun k _ n => n * 10 + ((a.get! (lo + k)).toNat - 48)) 0
  else
    let mid := (lo + hi) / 2
    digitsToNat a lo mid * 10 ^ (hi - mid) + digitsToNat a mid hi

def parseInt? (s : String) : Option Int :=
  if s.utf8ByteSize ≤ 40 then s.toInt? else
  let a := s.toUTF8
  let neg := a.get! 0 == 45
  let lo := if neg then 1 else 0
  if lo ≥ a.size then none
  else if Nat.all (a.size - lo) (fun k _ => let c := a.get! (lo + k); 48 ≤ c && c ≤ 57) then
    let n : Int := (digitsToNat a lo a.size : Nat)
    some (if neg then -n else n)
  else none

#guard parseInt? "-123456789012345678901234567890123456789012345678901234567890" == some (-123456789012345678901234567890123456789012345678901234567890)
#guard parseInt? "100000000000000000000000000000000000000000000000000000000000000000000000007" == some (10^74 + 7)
#guard parseInt? "1000000000000000000000000000000000000000000000000x0" == none
#guard parseInt? "-" == none

def natsOf (l : List Int) : List Nat := l.map Int.toNat

def showInts (l : List Int) : String := " ".intercalate (l.map toString)

end Driver
