/-
Line protocol of the correspondence check.

  harness line :  <op> <int>* => <int>*
  driver answer:  one line per non-OK input line, then a summary.

Every handler returns the model's result for the arguments and the verdict of the executable
specification on the *implementation's* result.
-/
namespace Driver

structure Verdict where
  model : List Int          -- what the Lean model computes
  specOk : Bool             -- does the implementation's answer satisfy the property's spec?
  cls : String              -- boundary class of this case (coverage histogram)
  relational : Bool := false -- if true the model result is not compared (property is relational)
  note : String := ""

def parseInt? (s : String) : Option Int := s.toInt?

def natsOf (l : List Int) : List Nat := l.map Int.toNat

def showInts (l : List Int) : String := " ".intercalate (l.map toString)

end Driver
