/- Handlers for C04: CRT lift (`gmp.hpp`). Integers of any size travel as decimal `Int`s. -/
import Driver.OpsH
import NflVerif.Model.Crt
import NflVerif.Spec.NttSpec
namespace Driver
open Nfl Nfl.Crt

/-- the first `m` moduli of the generated table of limb width `w` (what `get_modulus(0..m-1)` returns) -/
def prefixOf (w m : Nat) : Option (List Nat) := do
  let t ← tabOf w
  if m = 0 || m > t.rows.size then none else some ((t.rows.toList.take m).map (·.p))

initialize crtCache : IO.Ref (List ((Nat × Nat) × (List Nat × GmpConsts))) ← IO.mkRef []

/-- `GMP::GMP()` for (limb, #moduli), memoised (last 4 configurations) -/
def crtCtx (w m : Nat) : IO (Option (List Nat × GmpConsts)) := do
  let c ← crtCache.get
  match c.find? (·.1 == (w, m)) with
  | some (_, v) => pure (some v)
  | none =>
    match prefixOf w m with
    | none => pure none
    | some ps =>
      let g := gmpInit w ps
      crtCache.set (((w, m), (ps, g)) :: c.take 3)
      pure (some (ps, g))

def nats_CrtH (l : List Nat) : List Int := l.map Int.ofNat

/-- product computed independently of the model's left fold -/
def prodSpec (ps : List Nat) : Nat := ps.foldr (· * ·) 1

/-- the property, evaluated on an answer: `0 ≤ x < Q ∧ ∀ i, x mod p_i = r_i` -/
def specLift (ps : List Nat) (rs : List Int) (x : Int) : Bool :=
  decide (0 ≤ x) && decide (x < (prodSpec ps : Int)) && rs.length == ps.length &&
  (ps.zip rs).all fun (p, r) => x % (p : Int) == r

/-- residues of `z`: in `[0,p_i)` and `p_i ∣ z − r_i` (checked by division, not by `%` of `z`) -/
def specResidues (ps : List Nat) (z : Int) (rs : List Int) : Bool :=
  rs.length == ps.length &&
  (ps.zip rs).all fun (p, r) => decide (0 ≤ r) && decide (r < (p : Int)) && ((z - r) / (p : Int)) * (p : Int) == z - r

def allCanon (ps : List Nat) (rs : List Int) : Bool :=
  rs.length == ps.length && (ps.zip rs).all fun (p, r) => decide (0 ≤ r) && decide (r < (p : Int))

def mBucket (m : Nat) : String :=
  if m = 1 then "m=1" else if m ≤ 4 then "m=2..4" else if m ≤ 64 then "m=5..64" else "m>64"

def clsResidues (ps rs : List Nat) : String :=
  let nz := rs.filter (· ≠ 0)
  let allMax := (ps.zip rs).all fun (p, r) => r + 1 == p
  if nz.isEmpty then "zero" else if allMax then "all-(p-1)"
  else if nz.length = 1 then (if (ps.zip rs).any (fun (p, r) => r ≠ 0 && r + 1 == p) then "one-hot-(p-1)" else "one-hot")
  else if rs.all (· ≤ 1) then "0/1" else "generic"

/-- did the reduction need its conditional subtraction? (coverage only) -/
def clsSub (g : GmpConsts) (rs : List Nat) : String :=
  let x := rawSum g.L rs
  let q := (x * g.mu) >>> g.s
  if x - q * g.Q ≥ g.Q then "condsub" else "nosub"

def clsInt (Q : Nat) (z : Int) : String :=
  if z = 0 then "0" else if z = (Q : Int) then "Q" else if z = (Q : Int) - 1 then "Q-1" else if z = -1 then "-1"
  else if z = -(Q : Int) then "-Q"
  else if z < 0 then (if z < -(2 : Int) ^ 256 then "neg-huge" else if z < -(Q : Int) then "neg<-Q" else "neg")
  else if z > (2 : Int) ^ 256 && z > (Q : Int) then "pos-huge" else if z > (Q : Int) then "pos>Q" else "0<z<Q"

/-- args `w m rest…` -/
def withCrt (args : List Int) (k : Nat → Nat → List Nat → GmpConsts → List Int → IO (Option α)) : IO (Option α) :=
  match args with
  | w :: m :: rest => do
    match ← crtCtx w.toNat m.toNat with
    | some (ps, g) => k w.toNat m.toNat ps g rest
    | none => pure none
  | _ => pure none

def nonneg (l : List Int) : Bool := l.all (0 ≤ ·)

def crtHandlers : List (String × Handler) := [
  -- crtinit w m => Q bitsQ s mu bitsMu L_0 … L_{m-1}
  ("crtinit", {
    run := fun a => withCrt a fun w m _ g rest =>
      if !rest.isEmpty then pure none else
      pure (some { model := nats_CrtH ([g.Q, g.bitsQ, g.s, g.mu, g.bitsMu] ++ g.L), specOk := true,
                   cls := s!"w={w}:{mBucket m}" }),
    spec := fun a impl => withCrt a fun _ _ ps _ _ =>
      match impl with
      | q :: _ :: s :: mu :: _ :: ls =>
        let Q := prodSpec ps
        let okQ := q == (Q : Int)
        let okMu := decide (0 ≤ s) && mu == ((2 ^ s.toNat / Q : Nat) : Int)
        -- L_i = δ_ij (mod p_j): all pairs up to 64 moduli; above, the equivalent "L_i = 1 (mod p_i) and Π_{j≠i} p_j divides L_i"
        -- (Q / p_i is that product; one big division per i instead of m small ones on an m-limb integer: the all-pairs form
        -- costs m³ limb operations, an hour over the sweep of every table size up to 1000)
        let okL := ls.length == ps.length && ls.all (fun l => decide (0 ≤ l) && decide (l < (Q : Int))) &&
          (if ps.length ≤ 64 then
            (List.range ps.length).all fun i => (List.range ps.length).all fun j =>
              (ls.getD i 0) % ((ps.getD j 0 : Nat) : Int) == (if i = j then 1 else 0) % ((ps.getD j 0 : Nat) : Int)
           else
            (ps.zip ls).all fun (p, l) => l % ((p : Nat) : Int) == 1 % ((p : Nat) : Int) && l % (((Q / p : Nat)) : Int) == 0)
        pure (some (okQ && okMu && okL))
      | _ => pure (some false) }),
  -- lift w m r_0 … r_{m-1} => x        (one coefficient of poly2mpz)
  ("lift", {
    run := fun a => withCrt a fun _ m ps g rest =>
      if rest.length != ps.length || !nonneg rest then pure none else
      let rs := rest.map Int.toNat
      pure (some { model := [poly2mpzCoeff g rs], specOk := true,
                   cls := s!"{mBucket m}:{clsResidues ps rs}:{clsSub g rs}" }),
    spec := fun a impl => withCrt a fun _ _ ps _ rest =>
      match impl with
      | [x] => pure (some (allCanon ps rest && specLift ps rest x))
      | _ => pure (some false) }),
  -- poly2mpz w m n via data(n·m) => x_0 … x_{n-1}
  ("poly2mpz", {
    run := fun a => withCrt a fun _ m ps g rest =>
      match rest with
      | n :: via :: data =>
        if data.length != n.toNat * ps.length || !nonneg data then pure none else
        pure (some { model := poly2mpz g n.toNat (data.map Int.toNat), specOk := true, cls := s!"{mBucket m}:via={via}" })
      | _ => pure none,
    spec := fun a impl => withCrt a fun _ _ ps _ rest =>
      match rest with
      | n :: _ :: data =>
        let n := n.toNat
        let d := data.toArray
        pure (some (impl.length == n && (List.range n).all fun i =>
          specLift ps ((List.range ps.length).map fun cm => d.getD (cm * n + i) 0) (impl.getD i (-1))))
      | _ => pure none }),
  -- mpz2polyc w m z => r_0 … r_{m-1}    (one coefficient of mpz2poly / set_mpz)
  ("mpz2polyc", {
    run := fun a => withCrt a fun _ m ps g rest =>
      match rest with
      | [z] => pure (some { model := nats_CrtH (mpz2polyCoeff ps z), specOk := true, cls := s!"{mBucket m}:{clsInt g.Q z}" })
      | _ => pure none,
    spec := fun a impl => withCrt a fun _ _ ps _ rest =>
      match rest with
      | [z] => pure (some (specResidues ps z impl))
      | _ => pure none }),
  -- mpz2poly w m n via z_0 … z_{n-1} => data(n·m)
  ("mpz2poly", {
    run := fun a => withCrt a fun _ m ps _ rest =>
      match rest with
      | n :: via :: zs =>
        if zs.length != n.toNat then pure none else
        pure (some { model := nats_CrtH (mpz2poly ps zs), specOk := true, cls := s!"{mBucket m}:via={via}" })
      | _ => pure none,
    spec := fun a impl => withCrt a fun _ _ ps _ rest =>
      match rest with
      | n :: _ :: zs =>
        let n := n.toNat
        let d := impl.toArray
        pure (some (impl.length == n * ps.length && (List.range n).all fun i =>
          specResidues ps (zs.getD i 0) ((List.range ps.length).map fun cm => d.getD (cm * n + i) (-1))))
      | _ => pure none }),
  -- setmpz w m n via k z_0 … z_{k-1} => data(n·m)   |  => -1 when the call throws
  ("crt_setmpz", {
    run := fun a => withCrt a fun _ m ps _ rest =>
      match rest with
      | n :: via :: k :: zs =>
        if zs.length != k.toNat then pure none else
        let n := n.toNat
        let kcls := if zs.length = 1 then "k=1" else if zs.length < n then "k<n" else if zs.length = n then "k=n"
          else if zs.length = n * ps.length then "k=n·m" else "k-invalid"
        pure (some { model := match setMpz ps n zs with | some d => nats_CrtH d | none => [-1],
                     specOk := true, cls := s!"{mBucket m}:via={via}:{kcls}" })
      | _ => pure none,
    spec := fun a impl => withCrt a fun _ _ ps _ rest =>
      match rest with
      | n :: _ :: _ :: zs =>
        let n := n.toNat
        let k := zs.length
        let m := ps.length
        if k > n && k != n * m then pure (some (impl == [-1])) else
        let d := impl.toArray
        let z := zs.toArray
        -- value feeding word (cm, i): replicated/padded, or block `cm` when exactly n·m values are given
        let src := fun (cm i : Nat) => if k != n * m then (if i < k then z.getD i 0 else 0) else z.getD (cm * n + i) 0
        pure (some (impl.length == n * m && (List.range m).all fun cm => (List.range n).all fun i =>
          let p : Int := ((ps.getD cm 1 : Nat) : Int)
          let r := d.getD (cm * n + i) (-1)
          decide (0 ≤ r) && decide (r < p) && (src cm i - r) % p == 0))
      | _ => pure none }),
  -- rt w m z => x      x = poly2mpz(mpz2poly(z)) : spec x = z mod Q (floor)
  ("crt_rt", {
    run := fun a => withCrt a fun _ m _ g rest =>
      match rest with
      | [z] => pure (some { model := [liftOfMpz g z], specOk := true, cls := s!"{mBucket m}:{clsInt g.Q z}" })
      | _ => pure none,
    spec := fun a impl => withCrt a fun _ _ ps _ rest =>
      match rest, impl with
      | [z], [x] => pure (some (x == z % (prodSpec ps : Int)))
      | _, _ => pure (some false) }),
  -- rt2 w m r… => r'…   mpz2poly(poly2mpz(r)) : spec identity
  ("crt_rt2", {
    run := fun a => withCrt a fun _ m ps g rest =>
      if rest.length != ps.length || !nonneg rest then pure none else
      let rs := rest.map Int.toNat
      pure (some { model := nats_CrtH (residuesOfLift g rs), specOk := true, cls := s!"{mBucket m}:{clsResidues ps rs}" }),
    spec := fun a impl => withCrt a fun _ _ ps _ rest => pure (some (allCanon ps rest && impl == rest)) })
]

/-- ring laws: `op w m a_0…a_{m-1} b_0…b_{m-1} => X A B` with `X = lift(a ∘ b)` (residue-wise, by the library),
`A = lift a`, `B = lift b`: spec `A`, `B` are the unique lifts and `X = (A ∘ B) mod Q` in big-integer arithmetic -/
def ringHandler (name : String) (resOp : List Nat → List Nat → List Nat → List Nat) (intOp : Int → Int → Int) : String × Handler :=
  (name, {
    run := fun a => withCrt a fun _ m ps g rest =>
      if rest.length != 2 * ps.length || !nonneg rest then pure none else
      let xs := (rest.take ps.length).map Int.toNat
      let ys := (rest.drop ps.length).map Int.toNat
      pure (some { model := [poly2mpzCoeff g (resOp ps xs ys), poly2mpzCoeff g xs, poly2mpzCoeff g ys], specOk := true,
                   cls := s!"{mBucket m}:{clsResidues ps xs}∘{clsResidues ps ys}" }),
    spec := fun a impl => withCrt a fun _ _ ps _ rest =>
      match impl with
      | [x, la, lb] =>
        let xs := rest.take ps.length
        let ys := rest.drop ps.length
        pure (some (allCanon ps xs && allCanon ps ys && specLift ps xs la && specLift ps ys lb &&
          x == intOp la lb % (prodSpec ps : Int)))
      | _ => pure (some false) })

/-- `liftpmul w m n a(n·m) b(n·m) => C(n) A(n) B(n)`: `C = poly2mpz(invntt(ntt a ⊙ ntt b))`, `A`, `B` the lifted
operands: spec `A`, `B` valid lifts and `C` = schoolbook negacyclic product of `A`, `B` over `Z_Q` -/
def pmulHandler : String × Handler :=
  ("liftpmul", {
    run := fun a => withCrt a fun _ m ps g rest =>
      match rest with
      | n :: data =>
        let n := n.toNat
        if data.length != 2 * n * ps.length || !nonneg data then pure none else
        let xs := (data.take (n * ps.length)).map Int.toNat
        let ys := (data.drop (n * ps.length)).map Int.toNat
        pure (some { model := poly2mpz g n (mulPoly ps n xs ys) ++ poly2mpz g n xs ++ poly2mpz g n ys, specOk := true,
                     cls := s!"{mBucket m}:n={n}" })
      | _ => pure none,
    spec := fun a impl => withCrt a fun _ _ ps _ rest =>
      match rest with
      | n :: data =>
        let n := n.toNat
        let m := ps.length
        if impl.length != 3 * n || !nonneg impl then pure (some false) else
        let xs := (data.take (n * m)).toArray
        let ys := (data.drop (n * m)).toArray
        let C := impl.take n
        let A := (impl.drop n).take n
        let B := impl.drop (2 * n)
        let okA := (List.range n).all fun i => specLift ps ((List.range m).map fun cm => xs.getD (cm * n + i) 0) (A.getD i (-1))
        let okB := (List.range n).all fun i => specLift ps ((List.range m).map fun cm => ys.getD (cm * n + i) 0) (B.getD i (-1))
        let want := Spec.negacyclicNat (prodSpec ps) (A.map Int.toNat) (B.map Int.toNat)
        pure (some (okA && okB && C == nats_CrtH want))
      | _ => pure none })

def crtHandlers2 : List (String × Handler) := [
  ringHandler "liftadd" addRes (· + ·),
  ringHandler "liftsub" subRes (· - ·),
  ringHandler "liftmul" mulRes (· * ·),
  pmulHandler ]

end Driver
