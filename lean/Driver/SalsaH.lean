/- Handlers for C13: Salsa20/20 specification, the fastrandombytes state machine, fault reports (harness/salsa.cpp). -/
import Driver.OpsH
import NflVerif.Spec.Salsa20
import NflVerif.Model.FastRandom
namespace Driver.Salsa
open Nfl

def intsN (l : List Nat) : List Int := l.map Int.ofNat

/-! output encoding shared with harness/salsa.cpp: mode 0 = all bytes; mode 1 (len > 1024) = polynomial digest
(two polynomial hashes mod 2^31-1 and 2^31-19; every single-byte difference changes both) of each 256-byte chunk, then the first and the last 64 bytes -/
def digest (bs : List Nat) : Nat :=
  let (h1, h2) := bs.foldl (fun (h : Nat × Nat) b =>
    ((h.1 * 1234567891 + b + 1) % 2147483647, (h.2 * 987654323 + b + 1) % 2147483629)) (0, 0)
  h1 * 2147483648 + h2

def chunksAux : Nat → Nat → List Nat → List (List Nat)
  | 0, _, _ => []
  | fuel + 1, n, l => if l.isEmpty then [] else l.take n :: chunksAux fuel n (l.drop n)

def encodeData (bs : List Nat) : List Int :=
  let len := bs.length
  if len ≤ 1024 then 0 :: intsN bs
  else 1 :: intsN ((chunksAux (len / 256 + 1) 256 bs).map digest ++ bs.take 64 ++ bs.drop (len - 64))

def allBytes (l : List Int) : Bool := l.all fun v => 0 ≤ v && v < 256
def allNonneg (l : List Int) : Bool := l.all fun v => 0 ≤ v

structure Frb where
  wb : Nat
  start : Nat
  idx : Nat
  len : Nat
  align : Nat
  side : Nat
  key : List Nat
  prev : List (Nat × Nat)     -- run-length encoded lengths of the earlier requests of this history

def pairsOf : List Nat → Option (List (Nat × Nat))
  | [] => some []
  | c :: l :: rest => (pairsOf rest).map ((c, l) :: ·)
  | _ => none

/-- args: wb start idx len align side key[32] npairs (count len)* ; rejected unless well-formed, Σ count = idx and `len ≤ cap` -/
def parseFrbCap (cap : Nat) (a : List Int) : Option Frb :=
  if !allNonneg a then none else
  match a.map Int.toNat with
  | wb :: start :: idx :: len :: align :: side :: rest =>
    let key := rest.take 32
    match rest.drop 32 with
    | np :: ps =>
      match pairsOf ps with
      | some prev =>
        if key.length = 32 && key.all (· < 256) && prev.length = np && (prev.map (·.1)).sum = idx
            && wb ≤ 1 && side ≤ 2 && align < 64 && (wb = 1 || start = 0) && start < 2 ^ 64 && len ≤ cap
        then some { wb, start, idx, len, align, side, key, prev } else none
      | none => none
    | [] => none
  | _ => none

/-- requests whose whole output is re-generated in Lean: at most 2^26 bytes -/
def parseFrb (a : List Int) : Option Frb := parseFrbCap (2 ^ 26) a

/-- big requests (`frbbig` / `frbwin`): only sampled windows are re-generated in Lean.  Cap 2^38 bytes = 2^32 blocks:
the block counter never reaches 2^32 (such a request would need a 256 GiB buffer; out of reach of this check) -/
def bigCap : Nat := 2 ^ 38

/-- the environment of the harness: the k-th call of `randombytes` delivers `(key[i] + k) mod 256` -/
def osOf (key : List Nat) : Nat → List Nat := fun k => key.map fun b => (b + k) % 256

def lenClass (len : Nat) : String :=
  if len = 0 then "len=0" else
  let r := len % 64
  let rc := if r = 0 then "r0" else if r = 1 then "r1" else if r = 63 then "r63" else "r*"
  (if len ≥ 2 ^ 20 then "≥1MiB" else if len < 64 then "<64" else if len < 256 then "<256" else if len ≤ 1024 then "≤1024" else ">1024")
    ++ "/" ++ rc

def sideClass (side : Nat) : String :=
  if side = 0 then "end-guard" else if side = 1 then "start-guard" else "redzone"

def nonceClass (n : Nat) : String :=
  if n = 0 then "first" else if n % 2 ^ 64 = 2 ^ 64 - 1 then "wrap64" else if (n + 1) % 2 ^ 32 = 0 then "carry32"
  else if (n + 1) % 65536 = 0 then "carry16" else if (n + 1) % 256 = 0 then "carry8" else "n*"

/-- route through the assembly: `q` = iterations of the 4-blocks-at-a-time loop, `b` = iterations of the one-block loop,
`t` = partial last block (copied through the stack); 2 stands for "two or more" -/
def pathClass (len : Nat) : String :=
  if len = 0 then "none" else
  s!"q{min (len / 256) 2}b{min (len % 256 / 64) 2}t{if len % 64 = 0 then 0 else 1}"

/-- which bytes of the 64-bit request number are significant -/
def magClass (n : Nat) : String :=
  if n = 0 then "n=0" else
  let k := Nat.log2 n / 8
  if n + 2 ≥ 2 ^ 64 then "n≥2^64-2"
  else if (List.range 8).all (fun i => n / 2 ^ (8 * i) % 256 != 0) then "allbytes≠0"
  else s!"2^{8 * k}≤n<2^{8 * (k + 1)}"

/-- shape of an 8-byte nonce / 32-byte key handed to the assembly directly -/
def bytesClass (what : String) (unit : Nat) (bs : List Nat) : String :=
  let nzs := (List.range bs.length).filter fun i => bs.getD i 0 != 0
  match nzs with
  | [] => s!"{what}=0"
  | [i] => s!"{what}-onehot{i / unit}"
  | _ =>
    if nzs.length = bs.length then
      match (List.range bs.length).filter (fun i => bs.getD i 0 != bs.getD (if i = 0 then 1 else 0) 0) with
      | [] => s!"{what}-allequal"
      | [i] => s!"{what}-onecold{i / unit}"
      | _ => s!"{what}-allnz"
    else s!"{what}*"

def asmNonceClass (nonce : List Nat) : String :=
  let c := bytesClass "nonce" 1 nonce
  if c = "nonce*" then (if (nonce.drop 4).all (· = 0) then "nonce-hi32=0" else if (nonce.take 4).all (· = 0) then "nonce-lo32=0" else c) else c

/-- class of the low `k` bits of a length: the small classes around the 64-byte block and the 256-byte fast path -/
def lowClass (v : Nat) : String :=
  if v = 0 then "0" else if v = 1 then "1" else if v < 64 then "<64" else if v = 64 then "64"
  else if v < 256 then "<256" else if v = 256 then "256" else ">256"

def scaleClass (len : Nat) : String :=
  if len ≥ 2 ^ 33 then "≥2^33" else if len ≥ 2 ^ 32 then "≥2^32" else if len ≥ 2 ^ 31 then "≥2^31"
  else if len ≥ 2 ^ 24 then "≥2^24" else "<2^24"

/-- big request: magnitude of the length x class of its low 32 / low 16 bits x route through the assembly -/
def bigClass (len : Nat) : String :=
  s!"{scaleClass len}:lo32={lowClass (len % 2 ^ 32)}:lo16={lowClass (len % 2 ^ 16)}:{pathClass len}"

/-- why the harness sampled this window (harness/salsa.cpp `windows_of`) -/
def kindName (k : Nat) : String :=
  match k with
  | 0 => "head" | 1 => "tail" | 2 => "around-k·2^32" | 3 => "around-k·2^31" | 4 => "around-k·2^24" | 5 => "around-k·2^16"
  | 6 => "last-256-boundary" | 7 => "last-64-boundary" | 8 => "at-len-mod-2^k" | 9 => "every-64MiB" | _ => "random"

structure Win where
  off : Nat
  wlen : Nat
  kind : Nat

/-- `off wlen kind` in front of the request: a window of at most 256 bytes inside the request -/
def parseWin (len : Nat) (off wlen kind : Int) : Option Win :=
  if 0 ≤ off && 0 < wlen && wlen ≤ 256 && 0 ≤ kind && kind ≤ 10 && off.toNat + wlen.toNat ≤ len
  then some { off := off.toNat, wlen := wlen.toNat, kind := kind.toNat } else none

/-- state-machine part of a request's answer: seed calls so far and (white box) the statics after the request -/
def frbStateModel (f : Frb) : FastRandom.State × FastRandom.State :=
  let os := osOf f.key
  let s0 := if f.wb = 1 then FastRandom.startAt f.start else FastRandom.start
  let prevLens := f.prev.flatMap fun (c, l) => List.replicate c l
  let s := FastRandom.runState os s0 prevLens
  (s, FastRandom.next os s)

/-- `frbbig`: model = state machine; red zone intact; portable C found 0 mismatching bytes (first mismatch = -1) -/
def frbBigModel (f : Frb) : List Int :=
  let (_, s') := frbStateModel f
  intsN [s'.seeds, 1, 0] ++ [-1]
    ++ (if f.wb = 1 then intsN (s'.nonce ++ [if s'.init then 1 else 0] ++ s'.key) else [])

def frbBigSpec (f : Frb) : List Int :=
  intsN [1, 1, 0] ++ [-1]
    ++ (if f.wb = 1 then intsN (Salsa20.encodeLE 8 ((f.start + f.idx + 1) % 2 ^ 64) ++ [1] ++ f.key) else [])

/-- `frbwin`: model = the state machine's key and nonce for this request, bytes by random access to the blocks -/
def frbWinModel (f : Frb) (w : Win) : List Int :=
  let (s, _) := frbStateModel f
  intsN (FastRandom.output (fun k n _ => Salsa20.window k n w.off w.wlen) (osOf f.key) s f.len)

/-- specification (closed form): bytes [off, off+wlen) of `stream key (LE64 (start+idx)) len` (`Nfl.C13.stream_window`) -/
def frbWinSpec (f : Frb) (w : Win) : List Int :=
  intsN (Salsa20.window f.key (Salsa20.encodeLE 8 ((f.start + f.idx) % 2 ^ 64)) w.off w.wlen)

/-- model: run the state machine of Model/FastRandom over the recorded history, then serve this request -/
def frbModel (f : Frb) : List Int :=
  let os := osOf f.key
  let s0 := if f.wb = 1 then FastRandom.startAt f.start else FastRandom.start
  let prevLens := f.prev.flatMap fun (c, l) => List.replicate c l
  let s := FastRandom.runState os s0 prevLens
  let out := FastRandom.output Salsa20.stream os s f.len
  let s' := FastRandom.next os s
  intsN [s'.seeds, 1, 1]
    ++ (if f.wb = 1 then intsN (s'.nonce ++ [if s'.init then 1 else 0] ++ s'.key) else [])
    ++ encodeData out

/-- specification (closed form = the statements of Properties/C13): one seeding so far, red zone intact, portable C
agrees, nonce after = LE64(start+idx+1), key = first delivery, bytes = stream key (LE64 (start+idx)) len -/
def frbSpec (f : Frb) : List Int :=
  intsN [1, 1, 1]
    ++ (if f.wb = 1 then intsN (Salsa20.encodeLE 8 ((f.start + f.idx + 1) % 2 ^ 64) ++ [1] ++ f.key) else [])
    ++ encodeData (Salsa20.stream f.key (Salsa20.encodeLE 8 ((f.start + f.idx) % 2 ^ 64)) f.len)

def bytes? (l : List Int) (n : Nat) : Option (List Nat) :=
  if l.length = n && allBytes l then some (l.map Int.toNat) else none

def handlersP : List (String × PHandler) := [
  ("frb", {
    run := fun a => (parseFrb a).map fun f =>
      { model := frbModel f, specOk := true,
        cls := (if f.wb = 1 then s!"wb:{pathClass f.len}:{magClass ((f.start + f.idx) % 2 ^ 64)}"
                else s!"bb:{lenClass f.len}:{sideClass f.side}") ++
          (if nonceClass (f.start + f.idx) = "n*" then "" else ":" ++ nonceClass (f.start + f.idx)) },
    spec := fun a impl => (parseFrb a).map fun f => impl == frbSpec f }),
  -- direct call of the assembly: len align side key[32] nonce[8] => redzone c_agrees data
  ("salsa20asm", {
    run := fun a => match a with
      | len :: _ :: side :: rest => do
        let kn ← bytes? rest 40
        if len < 0 || len > 2 ^ 26 then none
        pure { model := [1, 1] ++ encodeData (Salsa20.stream (kn.take 32) (kn.drop 32) len.toNat), specOk := true,
               cls :=
                 let kc := bytesClass "key" 4 (kn.take 32)
                 let nc := asmNonceClass (kn.drop 32)
                 if kc.startsWith "key-onehot" then s!"{pathClass len.toNat}:{kc}"
                 else if nc = "nonce-allnz" || nc = "nonce*" then s!"{lenClass len.toNat}:{sideClass side.toNat}:{pathClass len.toNat}"
                 else s!"{pathClass len.toNat}:{nc}" }
      | _ => none,
    spec := fun a impl => match a with
      | len :: _ :: _ :: rest => do
        let kn ← bytes? rest 40
        pure (impl == [1, 1] ++ encodeData (Salsa20.stream (kn.take 32) (kn.drop 32) len.toNat))
      | _ => none }),
  -- a request too long to be re-generated in Lean: the portable C verdict on the WHOLE buffer (mismatching bytes, first
  -- mismatching offset) must be (0, -1); sampled windows follow as `frbwin` lines
  ("frbbig", {
    run := fun a => (parseFrbCap bigCap a).map fun f =>
      { model := frbBigModel f, specOk := true,
        cls := s!"big:{if f.wb = 1 then "wb" else "bb"}:{bigClass f.len}" ++
          (if f.wb = 1 then ":" ++ magClass ((f.start + f.idx) % 2 ^ 64) else "") },
    spec := fun a impl => (parseFrbCap bigCap a).map fun f => impl == frbBigSpec f,
    why := fun a impl => match parseFrbCap bigCap a with
      | some f =>
        if (impl.drop 2).take 2 != [0, -1] then
          s!"portable C Salsa20/20: {impl.getD 2 0} of the {f.len} bytes differ from stream(key, LE64 {(f.start + f.idx) % 2 ^ 64}, {f.len}), first at offset {impl.getD 3 0}"
        else if impl.getD 1 0 != 1 then "bytes outside the caller's buffer were modified"
        else "seeding count / statics after the request"
      | none => "" }),
  -- off wlen kind <frb lhs> => bytes [off, off+wlen) of the buffer
  ("frbwin", {
    run := fun a => match a with
      | off :: wlen :: kind :: rest => do
        let f ← parseFrbCap bigCap rest
        let w ← parseWin f.len off wlen kind
        pure { model := frbWinModel f w, specOk := true, cls := s!"win:{scaleClass f.len}:{kindName w.kind}" }
      | _ => none,
    spec := fun a impl => match a with
      | off :: wlen :: kind :: rest => do
        let f ← parseFrbCap bigCap rest
        let w ← parseWin f.len off wlen kind
        pure (impl == frbWinSpec f w)
      | _ => none,
    why := fun a _ => match a with
      | off :: wlen :: _ :: rest => match parseFrbCap bigCap rest with
        | some f => s!"bytes [{off}, {off + wlen}) of request {(f.start + f.idx) % 2 ^ 64} (len {f.len}) are not those of blocks {off.toNat / 64}… of the Salsa20/20 stream"
        | none => ""
      | _ => "" }),
  -- the same two ops for direct calls of the assembly: len align side key[32] nonce[8]
  ("salsa20asmbig", {
    run := fun a => match a with
      | len :: _ :: side :: rest => do
        let kn ← bytes? rest 40
        if len < 0 || len > bigCap || side < 0 || side > 2 then none
        pure { model := [1, 0, -1], specOk := true, cls := s!"big:asm:{bigClass len.toNat}:{asmNonceClass (kn.drop 32)}" }
      | _ => none,
    spec := fun a impl => match a with
      | _ :: _ :: _ :: rest => do
        let _ ← bytes? rest 40
        pure (impl == [1, 0, -1])
      | _ => none }),
  ("salsa20asmwin", {
    run := fun a => match a with
      | off :: wlen :: kind :: len :: _ :: _ :: rest => do
        let kn ← bytes? rest 40
        if len < 0 || len > bigCap then none
        let w ← parseWin len.toNat off wlen kind
        pure { model := intsN (Salsa20.window (kn.take 32) (kn.drop 32) w.off w.wlen), specOk := true,
               cls := s!"win:asm:{scaleClass len.toNat}:{kindName w.kind}" }
      | _ => none,
    spec := fun a impl => match a with
      | off :: wlen :: kind :: len :: _ :: _ :: rest => do
        let kn ← bytes? rest 40
        let w ← parseWin len.toNat off wlen kind
        pure (impl == intsN (Salsa20.window (kn.take 32) (kn.drop 32) w.off w.wlen))
      | _ => none }),
  ("salsa20block", {
    run := fun a => (bytes? a 64).map fun x => { model := intsN (Salsa20.hash x), specOk := true, cls := "core" },
    spec := fun a impl => (bytes? a 64).map fun x => impl == intsN (Salsa20.hash x) }),
  ("salsa20iter", {
    run := fun a => match a with
      | c :: rest => (bytes? rest 64).bind fun x => if c < 0 then none else
          some { model := intsN (Salsa20.iter Salsa20.hash c.toNat x), specOk := true, cls := s!"count={c}" }
      | _ => none,
    spec := fun a impl => match a with
      | c :: rest => (bytes? rest 64).map fun x => impl == intsN (Salsa20.iter Salsa20.hash c.toNat x)
      | _ => none }),
  ("salsa20qr", {
    run := fun a => match a with
      | [y0, y1, y2, y3] =>
        if allNonneg a && a.all (· < 2 ^ 32) then
          let (z0, z1, z2, z3) := Salsa20.quarterround y0.toNat y1.toNat y2.toNat y3.toNat
          some { model := intsN [z0, z1, z2, z3], specOk := true, cls := "qr" }
        else none
      | _ => none,
    spec := fun a impl => match a with
      | [y0, y1, y2, y3] =>
        let (z0, z1, z2, z3) := Salsa20.quarterround y0.toNat y1.toNat y2.toNat y3.toNat
        some (impl == intsN [z0, z1, z2, z3])
      | _ => none }),
  -- portable C against the examples printed in the Salsa20 specification (the same examples are `example`s in Spec/Salsa20.lean)
  ("vector", {
    run := fun a => match a with | [_] => some { model := [1], specOk := true, cls := "spec-example" } | _ => none,
    spec := fun _ impl => some (impl == [1]) }),
  -- the quick tier's 2^32-byte requests were skipped for lack of memory (recorded in the class histogram)
  ("hugeskip", {
    run := fun a => match a with | [_] => some { model := [1], specOk := true, cls := "huge-part-skipped:not-enough-memory" } | _ => none,
    spec := fun _ impl => some (impl == [1]) }),
  ("jobend", {
    run := fun a => match a with | [_] => some { model := [0], specOk := true, cls := "history-completed" } | _ => none,
    spec := fun _ impl => some (impl == [0]) }),
  -- a child died (guard page hit, sanitizer, abort) while serving this request: never satisfies the property
  ("frbfault", {
    run := fun a => (parseFrb a).map fun _ => { model := [0], specOk := true, cls := "fault" },
    spec := fun _ impl => some (impl == [0]) }),
  ("frbbigfault", {
    run := fun a => (parseFrbCap bigCap a).map fun _ => { model := [0], specOk := true, cls := "fault" },
    spec := fun _ impl => some (impl == [0]) }),
  ("salsa20asmbigfault", {
    run := fun _ => some { model := [0], specOk := true, cls := "fault" },
    spec := fun _ impl => some (impl == [0]) }),
  ("salsa20asmfault", {
    run := fun _ => some { model := [0], specOk := true, cls := "fault" },
    spec := fun _ impl => some (impl == [0]) })
]

end Driver.Salsa

namespace Driver
def salsaHandlers : List (String × Handler) := Salsa.handlersP.map fun (n, h) => (n, h.lift)
end Driver
