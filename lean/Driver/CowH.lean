/- Handler for C14: replay of a statement history of `poly_p` handles in the model of Model/Cow.lean.

   cow <w> <n> <m> <nh> <nops> <op>* => <res> <handle>*nh <pair>*      (see harness/cow.cpp)

   `run`  : the shared-handle model (`Nfl.Cow.run`) — statuses, alias classes, use counts, values, result of
            the last statement, pairwise `==`/`!=` through the pointer short-cut.
   `spec` : the value semantics (`Nfl.Cow.runValues`, history must be well-formed `wfB`) evaluated against the
            implementation's line: statuses, values, result and comparisons (aliasing / use counts are not
            part of the value semantics and are only compared with the model). -/
import Driver.OpsH
import NflVerif.Model.Cow
namespace Driver
open Nfl.Cow

def takeN (k : Nat) (l : List Int) : Option (List Int × List Int) :=
  if l.length < k then none else some (l.take k, l.drop k)

def natList (l : List Int) : Option (List Nat) := l.mapM fun v => if v < 0 then none else some v.toNat

/-- one encoded statement: the `Op`, a class label, the rest of the tokens -/
def parseOp (L : Nat) : List Int → Option (Op × String × List Int)
  | code :: d :: rest =>
    if d < 0 || code < 0 then none else
    let d := d.toNat
    match code.toNat, rest with
    | 0, k :: rest => do          -- mk
      let (srcs, rest) ← takeN k.toNat rest
      let srcs ← natList srcs
      match rest with
      | sub :: rest =>
        let (v, rest) ← takeN L rest
        let v ← natList v
        some (.mk d srcs (fun _ => v), if srcs.isEmpty then s!"mk.{sub}" else s!"mk.expr{sub}", rest)
      | _ => none
    | 1, s :: sub :: rest => if s < 0 then none else some (.copyCtor d s.toNat, s!"cctor.{sub}", rest)
    | 2, s :: rest => if s < 0 then none else some (.moveCtor d s.toNat, "mctor", rest)
    | 3, s :: rest => if s < 0 then none else
        some (.copyAssign d s.toNat, if d = s.toNat then "cassign.self" else "cassign", rest)
    | 4, s :: rest => if s < 0 then none else
        some (.moveAssign d s.toNat, if d = s.toNat then "massign.self" else "massign", rest)
    | 5, k :: rest => do          -- assign
      let (srcs, rest) ← takeN k.toNat rest
      let srcs ← natList srcs
      match rest with
      | sub :: rest =>
        let (v, rest) ← takeN L rest
        let v ← natList v
        some (.assign d srcs (fun _ => v),
              if srcs.isEmpty then s!"assign.{sub}" else if srcs.contains d then s!"assign.expr{sub}.selfoperand" else s!"assign.expr{sub}", rest)
      | _ => none
    | 6, i :: x :: rest => if i < 0 || x < 0 then none else some (.writeElem d i.toNat x.toNat, "write", rest)
    | 7, sub :: rest => some (.touch d, s!"touch.{sub}", rest)
    | 8, sub :: rest => do
      let (v, rest) ← takeN L rest
      let v ← natList v
      some (.xform d (fun _ => v), s!"xform.{sub}", rest)
    | 9, i :: rest => if i < 0 then none else some (.readElem d i.toNat, "read", rest)
    | 10, b :: neg :: rest => if b < 0 then none else some (.compare d b.toNat (neg != 0), if neg != 0 then "cmp.ne" else "cmp.eq", rest)
    | 11, neg :: rest => do
      let (v, rest) ← takeN L rest
      let v ← natList v
      some (.compareVal d v (neg != 0), if neg != 0 then "cmpval.ne" else "cmpval.eq", rest)
    | 12, rest => some (.destroy d, "destroy", rest)
    | _, _ => none
  | _ => none

def parseOps (L : Nat) : Nat → List Int → Option (List (Op × String))
  | 0, [] => some []
  | 0, _ => none
  | k + 1, toks => do
    let (op, name, rest) ← parseOp L toks
    let tl ← parseOps L k rest
    some ((op, name) :: tl)

structure CowLine where
  nh : Nat
  len : Nat
  ops : List (Op × String)

def parseCow : List Int → Option CowLine
  | w :: n :: m :: nh :: nops :: rest =>
    if w < 0 || n < 0 || m < 0 || nh < 0 || nops < 0 then none else do
    let L := n.toNat * m.toNat
    let ops ← parseOps L nops.toNat rest
    some { nh := nh.toNat, len := L, ops := ops }
  | _ => none

/-- run a history, remembering the state before the last statement -/
def runLast : List Op → State → Option (State × State × Option Op)
  | [], s => some (s, s, none)
  | [op], s => (step s op).map fun s' => (s, s', some op)
  | op :: ops, s => (step s op).bind (runLast ops)

def runLastV : List Op → VState → VState × VState × Option Op
  | [], vs => (vs, vs, none)
  | [op], vs => (vs, stepV vs op, some op)
  | op :: ops, vs => runLastV ops (stepV vs op)

def aliasOf (hs : List Handle) (h : Nat) : Int :=
  match hs[h]? with
  | some (.at p) =>
    match (List.range h).find? (fun j => hs[j]? == some (.at p)) with
    | some j => j
    | none => h
  | _ => -1

def obsHandle (s : State) (h : Nat) : List Int :=
  match s.hs[h]? with
  | some (.at p) =>
    match s.heap p with
    | some c => [2, aliasOf s.hs h, (c.rc : Int)] ++ c.val.map Int.ofNat
    | none => [3, -1, 0]      -- dangling (never printed by a correct model)
  | some .null => [1, -1, 0]
  | _ => [0, -1, 0]

def pairs (nh : Nat) : List (Nat × Nat) :=
  (List.range nh).flatMap fun a => ((List.range nh).filter (a < ·)).map fun b => (a, b)

def isLive (s : State) (h : Nat) : Bool := match s.hs[h]? with | some (.at _) => true | _ => false

def pairCode (s : State) (a b : Nat) : Int :=
  if isLive s a && isLive s b then
    match observe s (.compare a b false), observe s (.compare a b true) with
    | some e, some n => (e : Int) + 2 * n
    | _, _ => -2
  else -1

def pairCodeV (vs : VState) (a b : Nat) : Int :=
  match observeV vs (.compare a b false), observeV vs (.compare a b true) with
  | some e, some n => (e : Int) + 2 * n
  | _, _ => -1

def effect (s0 s1 : State) : String :=
  let a := s1.allocLog.length - s0.allocLog.length
  let f := s1.freeLog.length - s0.freeLog.length
  (if a > 0 then "+alloc" else "") ++ (if f > 0 then "+free" else "") ++ (if a = 0 && f = 0 then "+inplace" else "")

def cowRun (args : List Int) : Option Verdict := do
  let ln ← parseCow args
  let ops := ln.ops.map (·.1)
  let (s0, s1, last) ← runLast ops (init ln.nh)
  let res : Int ← match last with
    | some op => (observe s0 op).map Int.ofNat
    | none => some 0
  let name := match ln.ops.getLast? with | some (_, n) => n | none => "empty"
  let hobs := (List.range ln.nh).flatMap (obsHandle s1)
  let pobs := (pairs ln.nh).map fun (a, b) => pairCode s1 a b
  let depth := if ops.length ≤ 8 then s!"len{ops.length}" else "long"
  pure { model := res :: (hobs ++ pobs), specOk := true, cls := s!"{depth}:{name}{effect s0 s1}" }

/-- the value-semantic expectation, in the shape of the line but without alias / use count -/
def specLine (nh : Nat) (vs0 vs1 : VState) (last : Option Op) : Option (Int × List (Int × List Int) × List Int) := do
  let res : Int ← match last with
    | some op => (observeV vs0 op).map Int.ofNat
    | none => some 0
  let hs := (List.range nh).map fun h =>
    match vs1[h]? with
    | some (.val v) => ((2 : Int), v.map Int.ofNat)
    | some .moved => (1, [])
    | _ => (0, [])
  pure (res, hs, (pairs nh).map fun (a, b) => pairCodeV vs1 a b)

/-- split the implementation's answer: result, per handle (status, values), pair codes -/
def splitImpl (L : Nat) : Nat → List Int → Option (List (Int × List Int) × List Int)
  | 0, rest => some ([], rest)
  | k + 1, st :: _alias :: _uc :: rest =>
    if st == 2 then do
      let (v, rest) ← takeN L rest
      let (tl, r) ← splitImpl L k rest
      some ((st, v) :: tl, r)
    else do
      let (tl, r) ← splitImpl L k rest
      some ((st, []) :: tl, r)
  | _, _ => none

/-- value-semantic agreement of one handle: a moved-from variable has no observable value (whether the
    implementation left its `_p` empty is handle mechanics, compared with the model, not with the spec) -/
def handleAgrees : (Int × List Int) → (Int × List Int) → Bool
  | (2, v), (2, iv) => v == iv
  | (1, _), (ist, _) => ist == 1 || ist == 2
  | (0, _), (0, _) => true
  | _, _ => false

def allAgree : List (Int × List Int) → List (Int × List Int) → Bool
  | [], [] => true
  | a :: as, b :: bs => handleAgrees a b && allAgree as bs
  | _, _ => false

/-- pair codes are compared where the value semantics defines them (both variables hold values) -/
def pairsAgree : List Int → List Int → Bool
  | [], [] => true
  | a :: as, b :: bs => (a == -1 || a == b) && pairsAgree as bs
  | _, _ => false

def cowSpec (args impl : List Int) : Option Bool := do
  let ln ← parseCow args
  let ops := ln.ops.map (·.1)
  if !wfB ops (initV ln.nh) then none      -- the harness must only produce well-formed histories
  else
    let (vs0, vs1, last) := runLastV ops (initV ln.nh)
    let (res, hs, ps) ← specLine ln.nh vs0 vs1 last
    match impl with
    | ires :: rest =>
      match splitImpl ln.len ln.nh rest with
      | some (ihs, ips) => some (ires == res && allAgree hs ihs && pairsAgree ps ips)
      | none => some false
    | [] => some false

def cowHandlers : List (String × Handler) := [
  ("cow", ({ run := cowRun, spec := cowSpec } : PHandler).lift)
]

end Driver
