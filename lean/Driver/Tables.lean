import NflVerif.Generated.Params16
import NflVerif.Generated.Params32
import NflVerif.Generated.Params64
import NflVerif.Model.Pratt
namespace Driver
open Nfl

/-- the generated table for limb width `w` (as arrays for O(1) row access in the driver) -/
structure TabA where
  w : Nat
  lk : Nat
  rows : Array Row
deriving Inhabited

def mkTabA (t : Table) : TabA := { w := t.w, lk := t.lk, rows := t.rows.toArray }

initialize tab16 : TabA ← pure (mkTabA Gen.table16)
initialize tab32 : TabA ← pure (mkTabA Gen.table32)
initialize tab64 : TabA ← pure (mkTabA Gen.table64)

def tabOf (w : Nat) : Option TabA :=
  if w = 16 then some tab16 else if w = 32 then some tab32 else if w = 64 then some tab64 else none

def rowOf (w cm : Nat) : Option Row := do
  let t ← tabOf w
  t.rows[cm]?

end Driver
