/- Handlers for C07/C08: expression templates (generated harnesses, harness/expr_rt.hpp protocol). -/
import Driver.OpsH
import NflVerif.Model.Expr
import NflVerif.Spec.ExprSpec
namespace Driver
open Nfl Nfl.Ex

/-- prefix code → tree: 0 h leaf | 1 add | 2 sub | 3 mul | 4 shoup3 | 5 compute_shoup | 6 eq | 7 neq | 8 shoup(x,q) call
(the call goes through `mkShoup`, the model of the `_make_op` pattern match; an unmatched call is rejected). -/
def parseTree : Nat → List Nat → Option (Expr × List Nat)
  | 0, _ => none
  | fuel + 1, toks =>
    match toks with
    | 0 :: h :: rest => some (.leaf h, rest)
    | 5 :: rest => do
      let (a, r) ← parseTree fuel rest
      pure (.computeShoup a, r)
    | 4 :: rest => do
      let (a, r) ← parseTree fuel rest
      let (b, r) ← parseTree fuel r
      let (q, r) ← parseTree fuel r
      pure (.shoup3 a b q, r)
    | k :: rest => do
      let (a, r) ← parseTree fuel rest
      let (b, r) ← parseTree fuel r
      match k with
      | 1 => pure (.add a b, r)
      | 2 => pure (.sub a b, r)
      | 3 => pure (.mul a b, r)
      | 6 => pure (.eq a b, r)
      | 7 => pure (.neq a b, r)
      | 8 => do let e ← mkShoup a b; pure (e, r)
      | _ => none
    | [] => none

def exprChunks (n : Nat) : Nat → List Nat → List (List Nat)
  | 0, _ => []
  | k + 1, l => l.take n :: exprChunks n k (l.drop n)

def Expr.depth : Expr → Nat
  | .leaf _ => 0
  | .add a b | .sub a b | .mul a b | .eq a b | .neq a b => 1 + max (Expr.depth a) (Expr.depth b)
  | .shoup3 a b q => 1 + max (Expr.depth a) (max (Expr.depth b) (Expr.depth q))
  | .computeShoup a => 1 + Expr.depth a

def Expr.leafList : Expr → List Nat
  | .leaf h => [h]
  | .add a b | .sub a b | .mul a b | .eq a b | .neq a b => Expr.leafList a ++ Expr.leafList b
  | .shoup3 a b q => Expr.leafList a ++ Expr.leafList b ++ Expr.leafList q
  | .computeShoup a => Expr.leafList a

structure ExprCase where
  c : Ctx
  be : Mode
  e : Expr
  st : Store

/-- common prefix `<w> <be> <nmod> <deg>`; then a caller-specific part; then `<L> <tree> <nh> <words>` -/
def ctxOf (w be nmod deg : Nat) : Option (Ctx × Mode) := do
  let l ← Limb.ofW w
  let t ← tabOf w
  let m ← Mode.ofCode be
  if nmod > t.rows.size then none else
  pure ({ l := l, deg := deg, rows := (t.rows.toList.take nmod) }, m)

def treeAndStore (c : Ctx) (rest : List Nat) : Option (Expr × Store) := do
  match rest with
  | len :: r =>
    let (e, leftover) ← parseTree (len + 1) (r.take len)
    if !leftover.isEmpty then none else
    match r.drop len with
    | nh :: words =>
      if words.length != nh * c.n then none else
      pure (e, exprChunks c.n nh words)
    | [] => none
  | [] => none

def flat (st : Store) : List Int := (st.flatMap id).map Int.ofNat

/-- the three kinds of statement: returns (model store, spec store) builders -/
def asgModel (c : Ctx) (be : Mode) (form d : Nat) (e : Expr) (st : Store) : Option Store :=
  let zeros := List.replicate c.n 0
  match form with
  | 0 | 1 => some (assign c be d e st)
  | 2 | 3 => some (construct c be zeros e st)
  | 4 =>
    -- `poly_p::operator=` detaches first: the destination becomes a fresh copy (handle nh), the old storage stays
    -- with the other owner; rows are reported per variable: destination variable first, the other owner last
    let nh := st.length
    let st' := st ++ [st.getD d []]
    let r := assign c be nh e st'
    some (((List.range nh).map fun h => if h = d then r.getD nh [] else r.getD h []) ++ [r.getD d []])
  | _ => none

/-- the same three kinds of statement with the assignment loop at width 1 (`assignW c 1`): by `C07.mode_irrelevant`
every width that divides the degree gives the same store, so this is the model's answer whatever mode the compiler
resolved – used for shapes outside the acceptance rules the mode table (`mode`, `compiles`) was measured on (`asgx`). -/
def asgModelW (c : Ctx) (form d : Nat) (e : Expr) (st : Store) : Option Store :=
  let zeros := List.replicate c.n 0
  match form with
  | 0 | 1 => some (assignW c 1 d e st)
  | 2 | 3 => some (assignW c 1 st.length e (st ++ [zeros]))
  | 4 =>
    let nh := st.length
    let st' := st ++ [st.getD d []]
    let r := assignW c 1 nh e st'
    some (((List.range nh).map fun h => if h = d then r.getD nh [] else r.getD h []) ++ [r.getD d []])
  | _ => none

def asgSpec (c : Ctx) (form d : Nat) (e : Expr) (st : Store) : Option Store :=
  let v := pointwise c st e
  match form with
  | 0 | 1 => some (st.set d v)
  | 2 | 3 => some (st ++ [v])
  | 4 => some (st.set d v ++ [st.getD d []])
  | _ => none

def diffClass (c : Ctx) (st : Store) (a b : Expr) : String :=
  let nd := ((List.range c.nmod).flatMap fun cm => (List.range c.deg).map fun i =>
    if evalExact c st a cm i = evalExact c st b cm i then 0 else 1).foldl (· + ·) 0
  if nd = 0 then "equal" else if nd = 1 then "differ-in-1" else if nd + 1 = c.n then "equal-in-1"
  else if nd = c.n then "all-differ" else "some-differ"

/-- coarse degree class for the evidence histogram -/
def degClass (deg : Nat) : String :=
  let pow2 := deg != 0 && (List.range 21).any fun k => 2 ^ k == deg
  if deg ≤ 3 then s!"deg{deg}" else if pow2 then "deg-pow2"
  else if deg < 64 then "deg-npow2-lt64" else if deg < 128 then "deg-npow2-64..128" else "deg-npow2-gt128"

/-- hypotheses and expected answer of one `bool(e)` (the statement of `C08.eq_iff` / `neq_iff` / `bool_iff_nonzero`):
`none` if the hypotheses of the theorem do not hold of the line (generator obligation). -/
def ebWantX (c : Ctx) (st : Store) (e : Expr) (accepted : Bool) : Option Bool :=
  let idx := (List.range c.nmod).flatMap fun cm => (List.range c.deg).map fun i => (cm, i)
  let (ok, want) := match e with
    | .eq x y => (admB c st x && admB c st y, idx.all fun (cm, i) => evalExact c st x cm i == evalExact c st y cm i)
    | .neq x y => (admB c st x && admB c st y, idx.any fun (cm, i) => evalExact c st x cm i != evalExact c st y cm i)
    | e => (admB c st e, idx.any fun (cm, i) => evalExact c st e cm i != 0)
  if !(ok && storeWfB c st && accepted) then none else some want

def ebWant (c : Ctx) (m : Mode) (st : Store) (e : Expr) : Option Bool :=
  ebWantX c st e (compiles m c.l c.deg e)

/-! ### `bsweep`: a batch of boolean conversions on stores that differ in one row (harness/expr_rt.hpp `sweep`).
Nothing new is modelled: evaluation `k` is the `ebool` / `ppeq` / `ppne` / `pbool` line on `sweepStore … k`. -/

structure SweepCase where
  c : Ctx
  m : Mode
  fam : Nat
  pat : Nat
  t : Nat
  e : Expr
  st : Store
  alt : List Nat
  pos : List Nat

/-- the store of evaluation `k`: pattern 0 = the printed row of handle `t` with element `k` taken from `alt`;
pattern 1 = `alt` with element `k` taken from the printed row -/
def sweepStore (s : SweepCase) (k : Nat) : Store :=
  let a := s.st.getD s.t []
  if s.pat = 0 then s.st.set s.t (a.set k (s.alt.getD k 0)) else s.st.set s.t (s.alt.set k (a.getD k 0))

def parseSweep (a : List Nat) : Option SweepCase :=
  match a with
  | w :: be :: nmod :: deg :: fam :: pat :: t :: len :: r => do
    let (c, m) ← ctxOf w be nmod deg
    let (e, leftover) ← parseTree (len + 1) (r.take len)
    if !leftover.isEmpty then none else
    match r.drop len with
    | nh :: ws =>
      let n := c.n
      if ws.length < nh * n + n + 1 then none else
      let st := exprChunks n nh (ws.take (nh * n))
      let rest := ws.drop (nh * n)
      match rest.drop n with
      | np :: pos =>
        if pos.length != np || t ≥ nh || pat > 1 || pos.any (· ≥ n) then none else
        pure { c := c, m := m, fam := fam, pat := pat, t := t, e := e, st := st, alt := rest.take n, pos := pos }
      | [] => none
    | [] => none
  | _ => none

/-- the model's answer for one evaluation of the family (`ebool`, `ppeq`/`ppne`, `pbool`) -/
def sweepModel (s : SweepCase) (st : Store) : Option Bool :=
  match s.fam, s.e with
  | 0, e => exprToBool s.c s.m st e
  | 1, .eq (.leaf ha) (.leaf hb) => polyPEq s.c s.m st ha hb
  | 1, .neq (.leaf ha) (.leaf hb) => polyPNeq s.c s.m st ha hb
  | 2, .leaf h => some (polyToBool st h)
  | _, _ => none

/-- the specification's answer for one evaluation (same statements as the single-evaluation handlers) -/
def sweepWant (s : SweepCase) (st : Store) : Option Bool :=
  match s.fam, s.e with
  | 0, e => ebWant s.c s.m st e
  | 1, .eq (.leaf ha) (.leaf hb) => if storeWfB s.c st then some (st.getD ha [] == st.getD hb []) else none
  | 1, .neq (.leaf ha) (.leaf hb) => if storeWfB s.c st then some (st.getD ha [] != st.getD hb []) else none
  | 2, .leaf h => if storeWfB s.c st then some ((List.range s.c.n).any fun k => rd st h k != 0) else none
  | _, _ => none

def sweepRoot (s : SweepCase) : String :=
  match s.fam, s.e with
  | 0, .eq _ _ => "eq" | 0, .neq _ _ => "neq" | 0, _ => "bool"
  | 1, .eq _ _ => "ppeq" | 1, _ => "ppne" | _, _ => "pbool"

def b2i (b : Bool) : Int := if b then 1 else 0

def exprHandlersP : List (String × PHandler) := [
  ("bsweep", {
    run := fun a => do
      let s ← parseSweep (natsOf a)
      let bits ← s.pos.mapM fun k => sweepModel s (sweepStore s k)
      let md : Nat := if s.fam = 0 then (mode s.m s.c.l s.e).code else 0
      pure { model := (md : Int) :: bits.map b2i, specOk := true,
             cls := s!"{sweepRoot s}:" ++ (if s.pat = 0 then "differ-in-1" else "equal-in-1") ++
                    s!":n{s.c.deg}x{s.c.nmod}:" ++ (if s.pos.length = s.c.n then "every-position" else "boundary-positions") },
    spec := fun a impl => do
      let s ← parseSweep (natsOf a)
      let want ← s.pos.mapM fun k => sweepWant s (sweepStore s k)
      pure (impl.drop 1 == want.map b2i) }),
  ("asg", {
    run := fun a => match natsOf a with
      | w :: be :: nmod :: deg :: form :: d :: rest => do
        let (c, m) ← ctxOf w be nmod deg
        let (e, st) ← treeAndStore c rest
        if !e.arith then none else
        let r ← asgModel c m form d e st
        let aliased := (Expr.leafList e).contains d
        pure { model := ((mode m c.l e).code : Int) :: flat r, specOk := true,
               cls := s!"form{form}:be{be}:mode{(mode m c.l e).code}:depth{Expr.depth e}:" ++
                      (if aliased then "aliased" else "distinct") ++ ":" ++ degClass deg }
      | _ => none,
    spec := fun a impl => match natsOf a with
      | w :: be :: nmod :: deg :: form :: d :: rest => do
        let (c, m) ← ctxOf w be nmod deg
        let (e, st) ← treeAndStore c rest
        -- hypotheses of the theorem (generator obligations): reject the line if they do not hold
        if !(storeWfB c st && admB c st e && compiles m c.l c.deg e) then none else
        let s ← asgSpec c form d e st
        pure (impl == ((mode m c.l e).code : Int) :: flat s)
      | _ => none }),
  -- a statement whose shape the acceptance rules of tools/gen_expr.py reject but the compiler accepted (a library change
  -- made it compile): inside the claim of C07 ("any arithmetic expression the library accepts at compile time").  The
  -- hypotheses are those of `C07.assign_correct` minus the predicted compile condition (acceptance is OBSERVED here: the
  -- statement was compiled and run; <mode> is the mode the compiler resolved, every supported degree is a multiple of
  -- its width or the statement would not have compiled); the expected store is the exact coefficient-wise meaning.
  ("asgx", {
    run := fun a => match natsOf a with
      | w :: be :: nmod :: deg :: form :: d :: md :: rest => do
        let (c, _) ← ctxOf w be nmod deg
        let (e, st) ← treeAndStore c rest
        if !e.arith then none else
        let r ← asgModelW c form d e st
        let aliased := (Expr.leafList e).contains d
        pure { model := flat r, specOk := true,
               cls := s!"new-shape:form{form}:be{be}:mode{md}:depth{Expr.depth e}:" ++
                      (if aliased then "aliased" else "distinct") ++ ":" ++ degClass deg }
      | _ => none,
    spec := fun a impl => match natsOf a with
      | w :: be :: nmod :: deg :: form :: d :: md :: rest => do
        let (c, _) ← ctxOf w be nmod deg
        let (e, st) ← treeAndStore c rest
        let m ← Mode.ofCode md
        if !(storeWfB c st && admB c st e && e.arith && deg % eltCount c.l m == 0) then none else
        let s ← asgSpec c form d e st
        pure (impl == flat s)
      | _ => none,
    why := fun _ _ => "a shape outside the generator's acceptance rules that the compiler accepts: the stored words are not " ++
                      "the exact coefficient-wise meaning of the expression as written" }),
  ("ebool", {
    run := fun a => match natsOf a with
      | w :: be :: nmod :: deg :: kind :: rest => do
        let (c, m) ← ctxOf w be nmod deg
        let (e, st) ← treeAndStore c rest
        let r ← exprToBool c m st e
        let cl := match e with
          | .eq x y => "eq:" ++ diffClass c st x y
          | .neq x y => "neq:" ++ diffClass c st x y
          | e => "bool:" ++ diffClass c st e (.sub (.leaf 0) (.leaf 0))
        pure { model := [((mode m c.l e).code : Int), if r then 1 else 0], specOk := true,
               cls := s!"be{be}:mode{(mode m c.l e).code}:k{kind}:" ++ cl ++ ":" ++ degClass deg }
      | _ => none,
    spec := fun a impl => match natsOf a with
      | w :: be :: nmod :: deg :: _kind :: rest => do
        let (c, m) ← ctxOf w be nmod deg
        let (e, st) ← treeAndStore c rest
        let want ← ebWant c m st e
        match impl with
        | [_, r] => pure (r == (if want then 1 else 0))
        | _ => pure false
      | _ => none }),
  -- a boolean conversion whose shape the acceptance rules of tools/gen_expr.py reject but the compiler accepted (see `asgx`):
  -- the hypotheses of `C08.eq_iff` / `neq_iff` / `bool_iff_nonzero` with the compile condition OBSERVED (the mode the compiler
  -- resolved is an argument); model = `expr::operator bool` evaluated in that mode
  ("eboolx", {
    run := fun a => match natsOf a with
      | w :: be :: nmod :: deg :: kind :: md :: rest => do
        let (c, _) ← ctxOf w be nmod deg
        let (e, st) ← treeAndStore c rest
        let m ← Mode.ofCode md
        let r ← exprToBoolM c m st e
        let cl := match e with
          | .eq x y => "eq:" ++ diffClass c st x y
          | .neq x y => "neq:" ++ diffClass c st x y
          | e => "bool:" ++ diffClass c st e (.sub (.leaf 0) (.leaf 0))
        pure { model := [if r then 1 else 0], specOk := true,
               cls := s!"new-shape:be{be}:mode{md}:k{kind}:" ++ cl ++ ":" ++ degClass deg }
      | _ => none,
    spec := fun a impl => match natsOf a with
      | w :: be :: nmod :: deg :: _kind :: md :: rest => do
        let (c, _) ← ctxOf w be nmod deg
        let (e, st) ← treeAndStore c rest
        let m ← Mode.ofCode md
        let want ← ebWantX c st e (deg % eltCount c.l m == 0)
        pure (impl == [if want then 1 else 0])
      | _ => none,
    why := fun _ _ => "a comparison shape outside the generator's acceptance rules that the compiler accepts: the answer is not " ++
                      "the whole-polynomial comparison of the two sides as written" }),
  ("pbool", {
    run := fun a => match natsOf a with
      | w :: be :: nmod :: deg :: h :: nh :: words => do
        let (c, _) ← ctxOf w be nmod deg
        if words.length != nh * c.n then none else
        let st := exprChunks c.n nh words
        let nz := ((st.getD h []).filter (· != 0)).length
        pure { model := [if polyToBool st h then 1 else 0], specOk := true,
               cls := if nz = 0 then "zero" else if nz = 1 then "one-hot" else "generic" }
      | _ => none,
    spec := fun a impl => match natsOf a with
      | w :: be :: nmod :: deg :: h :: nh :: words => do
        let (c, _) ← ctxOf w be nmod deg
        if words.length != nh * c.n then none else
        let st := exprChunks c.n nh words
        pure (impl == [if (List.range c.n).any (fun k => rd st h k != 0) then 1 else 0])
      | _ => none }),
  ("ppeq", {
    run := fun a => match natsOf a with
      | w :: be :: nmod :: deg :: ha :: hb :: nh :: words => do
        let (c, m) ← ctxOf w be nmod deg
        if words.length != nh * c.n then none else
        let st := exprChunks c.n nh words
        let r ← polyPEq c m st ha hb
        pure { model := [if r then 1 else 0], specOk := true,
               cls := s!"be{be}:" ++ (if ha = hb then "same-storage" else diffClass c st (.leaf ha) (.leaf hb)) }
      | _ => none,
    spec := fun a impl => match natsOf a with
      | w :: be :: nmod :: deg :: ha :: hb :: nh :: words => do
        let (c, _) ← ctxOf w be nmod deg
        if words.length != nh * c.n then none else
        let st := exprChunks c.n nh words
        pure (impl == [if st.getD ha [] == st.getD hb [] then 1 else 0])
      | _ => none }),
  ("ppne", {
    run := fun a => match natsOf a with
      | w :: be :: nmod :: deg :: ha :: hb :: nh :: words => do
        let (c, m) ← ctxOf w be nmod deg
        if words.length != nh * c.n then none else
        let st := exprChunks c.n nh words
        let r ← polyPNeq c m st ha hb
        pure { model := [if r then 1 else 0], specOk := true,
               cls := s!"be{be}:" ++ (if ha = hb then "same-storage" else diffClass c st (.leaf ha) (.leaf hb)) }
      | _ => none,
    spec := fun a impl => match natsOf a with
      | w :: be :: nmod :: deg :: ha :: hb :: nh :: words => do
        let (c, _) ← ctxOf w be nmod deg
        if words.length != nh * c.n then none else
        let st := exprChunks c.n nh words
        pure (impl == [if st.getD ha [] == st.getD hb [] then 0 else 1])
      | _ => none })
]

def exprHandlers : List (String × Handler) := exprHandlersP.map (fun (n, h) => (n, h.lift))

end Driver
