/- Handlers for C09 / C12: every creator of a polynomial, scripted tape. -/
import Driver.OpsH
import NflVerif.Model.Samplers
import NflVerif.Spec.SamplersSpec
namespace Driver
open Nfl Nfl.Samplers Nfl.Spec.Samplers

/-- the first `nm` moduli of the table of width `w` -/
def moduliOf_SamplersH (w nm : Nat) : Option (List Nat) := do
  let t ← tabOf w
  if nm ≤ t.rows.size then some ((t.rows.toList.take nm).map (·.p)) else none

def takeReq : Nat → List Int → Option (List Nat × List Int)
  | 0, rest => some ([], rest)
  | k + 1, b :: rest => do
    if b < 0 ∨ b > 255 then none
    let (bs, r) ← takeReq k rest
    some (b.toNat :: bs, r)
  | _ + 1, [] => none

/-- `<#req> (<len> <bytes…>)…` → the tape; nothing may be left over -/
def parseTape : Nat → List Int → Option Tape
  | 0, [] => some []
  | 0, _ :: _ => none
  | k + 1, len :: rest => do
    let (bs, r) ← takeReq len.toNat rest
    let t ← parseTape k r
    some (bs :: t)
  | _ + 1, [] => none

def tapeOf : List Int → Option Tape
  | nreq :: rest => parseTape nreq.toNat rest
  | [] => none

def flat_SamplersH (o : Poly) : List Int := (o.flatMap id).map Int.ofNat
def flatO : Option Poly → List Int
  | some o => flat_SamplersH o
  | none => [-1]

def implNat (impl : List Int) : Option (List Nat) := if impl.all (0 ≤ ·) then some (impl.map Int.toNat) else none

structure Hd where
  w : Nat
  n : Nat
  nm : Nat
  via : Nat
  ps : List Nat
  rest : List Int

def hd (args : List Int) : Option Hd :=
  match args with
  | w :: n :: nm :: via :: rest => do
    let ps ← moduliOf_SamplersH w.toNat nm.toNat
    if w.toNat % 8 ≠ 0 then none
    some { w := w.toNat, n := n.toNat, nm := nm.toNat, via := via.toNat, ps := ps, rest := rest }
  | _ => none

def clsHd (h : Hd) : String := s!"w{h.w}:n{h.n}x{h.nm}:via{h.via}"

/-- what happened at an excluded (inadmissible) parameter point, read off the model's output (which is
compared with the implementation's) -/
def clsExcluded (h : Hd) (why : String) (o : List Int) : String :=
  match implNat o with
  | some out => s!"w{h.w}:EXCLUDED({why}):" ++ (if canonical h.n h.ps out then "canonical" else "NONCANONICAL")
  | none => s!"w{h.w}:EXCLUDED({why}):throws"

def bndAdmissible (ps : List Nat) (B A : Nat) : Bool := decide (1 ≤ B) && decide (1 ≤ A) && ps.all fun p => decide (B < p) && decide (A * (B - 1) < p)

def absMax (l : List Int) : Nat := l.foldl (fun m v => max m v.natAbs) 0

def samplersHandlersP : List (String × PHandler) := [
  ("umask", {
    run := fun a => withRow a fun w r _ => some { model := [uniMask w r.p], specOk := true, cls := s!"w{w}" },
    spec := fun a impl => withRow a fun _ r _ => some (impl == [((2 ^ bitLenSpec r.p - 1 : Nat) : Int)]) }),
  ("uni", {
    run := fun a => do
      let h ← hd a
      let tape ← tapeOf h.rest
      if tape.map List.length ≠ uniformRequests h.w h.n h.nm then none
      some { model := flat_SamplersH (setUniform h.w h.n h.ps tape), specOk := true, cls := clsHd h },
    spec := fun a impl => do
      let h ← hd a
      let out ← implNat impl
      some (canonical h.n h.ps out) }),
  ("bnd", {
    run := fun a => do
      let h ← hd a
      match h.rest with
      | B :: A :: t =>
        let (B, A) := (B.toNat, A.toNat)
        let tape ← tapeOf t
        let m := setBounded h.w h.n h.ps B A tape
        if tape.map List.length ≠ (if m.isSome then boundedRequests h.w h.n else []) then none
        let adm := bndAdmissible h.ps B A
        some { model := flatO m, specOk := true,
               cls := if m.isNone then s!"w{h.w}:throws(B>=p)"
                      else if adm then clsHd h ++ (if A = 1 then ":A=1" else ":A>1") ++ (if B ≥ 2 ^ 48 then ":B>=2^48" else "")
                      else clsExcluded h (if B = 0 then "B=0" else if A = 0 then "A=0" else "A*(B-1)>=p") (flatO m) }
      | _ => none,
    spec := fun a impl => do
      let h ← hd a
      match h.rest with
      | B :: A :: _ =>
        let (B, A) := (B.toNat, A.toNat)
        if impl == [-1] then some (h.ps.any fun p => decide (B ≥ p))
        else
          let out ← implNat impl
          if h.ps.any fun p => decide (B ≥ p) then some false   -- the code must throw
          else if bndAdmissible h.ps B A then
            some (canonical h.n h.ps out &&
                  crtConsistent h.n h.ps out (A * (B - 1)) (fun v => decide (v % (A : Int) = 0)))
          else some true
      | _ => none }),
  ("gau", {
    run := fun a => do
      let h ← hd a
      match h.rest with
      | amp :: noise =>
        if noise.length ≠ h.n then none
        let m := flat_SamplersH (setGaussian h.w h.n h.ps amp.toNat noise)
        let adm := h.ps.all fun p => decide (absMax noise * amp.toNat < p)
        some { model := m, specOk := true,
               cls := if adm then clsHd h ++ (if amp = 1 then ":amp=1" else ":amp>1") else clsExcluded h "|v|*amp>=p" m }
      | _ => none,
    spec := fun a impl => do
      let h ← hd a
      let out ← implNat impl
      match h.rest with
      | amp :: noise =>
        if h.ps.all fun p => decide (absMax noise * amp.toNat < p) then
          some (canonical h.n h.ps out && encodes h.n h.ps out (fun i => noise.getD i 0 * amp))
        else some true
      | _ => none }),
  ("zo", {
    run := fun a => do
      let h ← hd a
      match h.rest with
      | rho :: t =>
        let tape ← tapeOf t
        if tape.map List.length ≠ zoRequests h.n then none
        some { model := flat_SamplersH (setZO h.w h.n h.ps rho.toNat tape), specOk := true, cls := s!"w{h.w}:n{h.n}x{h.nm}" }
      | _ => none,
    spec := fun a impl => do
      let h ← hd a
      let out ← implNat impl
      match h.rest with
      | rho :: t =>
        let tape ← tapeOf t
        let req := tape.headD []
        some (canonical h.n h.ps out && encodes h.n h.ps out (fun i => zoSpec rho.toNat (req.getD i 0)))
      | _ => none }),
  ("hwt", {
    run := fun a => do
      let h ← hd a
      match h.rest with
      | hw :: t =>
        let tape ← tapeOf t
        -- every request is `h` words of 8 bytes; nothing but the sign request follows the positions phase
        if tape.any (fun r => r.length ≠ hw.toNat * 8) then none
        match hwtPositions hw.toNat h.n tape with
        | some (_, rest) =>
          if rest.length ≠ 1 then none
          some { model := flatO (setHwt h.w h.n h.ps hw.toNat tape), specOk := true,
                 cls := s!"w{h.w}:n{h.n}:h{hw}" ++ (if tape.length > (h.n - hw.toNat + hw.toNat - 1) / hw.toNat + 1 then ":extra-request" else "") }
        | none => none
      | _ => none,
    spec := fun a impl => do
      let h ← hd a
      let out ← implNat impl
      match h.rest with
      | hw :: _ =>
        let s0 := support h.n out 0
        some (canonical h.n h.ps out && crtConsistent h.n h.ps out 1 (fun _ => true) && decide (s0.length = hw.toNat) &&
              (List.range h.nm).all fun cm => support h.n out cm == s0)
      | _ => none }),
  ("cval", {
    run := fun a => do
      let h ← hd a
      match h.rest with
      | [v, red] => some { model := flatO (setScalar h.n h.ps v.toNat (red != 0)), specOk := true,
                           cls := s!"w{h.w}:" ++ (if red != 0 then "reduce" else "noreduce") }
      | _ => none,
    spec := fun a impl => do
      let h ← hd a
      let out ← implNat impl
      match h.rest with
      | [v, red] =>
        if red != 0 then
          some (canonical h.n h.ps out &&
            (List.range h.nm).all fun cm => (List.range h.n).all fun i =>
              getW out h.n cm i == (if i = 0 then v.toNat % h.ps.getD cm 1 else 0))
        else some true
      | _ => none }),
  ("clist", {
    run := fun a => do
      let h ← hd a
      match h.rest with
      | red :: sz :: vals =>
        if vals.length ≠ sz.toNat then none
        let m := setValues h.n h.ps (vals.map Int.toNat) (red != 0)
        some { model := flatO m, specOk := true,
               cls := s!"w{h.w}:" ++ (if m.isNone then "throws" else if red != 0 then (if sz.toNat ≤ h.n then "reduce:short" else "reduce:full") else "noreduce") }
      | _ => none,
    spec := fun a impl => do
      let h ← hd a
      match h.rest with
      | red :: sz :: vals =>
        let sz := sz.toNat
        if impl == [-1] then some (decide (sz > h.n ∧ sz ≠ h.n * h.nm))
        else
          let out ← implNat impl
          if sz > h.n ∧ sz ≠ h.n * h.nm then some false
          else if red != 0 then
            some (canonical h.n h.ps out &&
              (decide (sz = h.n * h.nm) ||
                (List.range h.nm).all fun cm => (List.range h.n).all fun i =>
                  getW out h.n cm i == (if i < sz then (vals.getD i 0).toNat % h.ps.getD cm 1 else 0)))
          else some true
      | _ => none }),
  ("cmpz", {
    run := fun a => do
      let h ← hd a
      match h.rest with
      | sz :: vals =>
        if vals.length ≠ sz.toNat then none
        let m := setMpz h.n h.ps vals
        some { model := flatO m, specOk := true,
               cls := s!"w{h.w}:" ++ (if m.isNone then "throws" else if sz.toNat ≤ h.n then "short" else "full") }
      | _ => none,
    spec := fun a impl => do
      let h ← hd a
      match h.rest with
      | sz :: vals =>
        let sz := sz.toNat
        if impl == [-1] then some (decide (sz > h.n ∧ sz ≠ h.n * h.nm))
        else
          let out ← implNat impl
          if sz > h.n ∧ sz ≠ h.n * h.nm then some false
          else some (canonical h.n h.ps out &&
              (decide (sz = h.n * h.nm) ||
                (List.range h.nm).all fun cm => (List.range h.n).all fun i =>
                  (getW out h.n cm i : Int) == (if i < sz then (vals.getD i 0) % (h.ps.getD cm 1 : Int) else 0)))
      | _ => none })
]

def samplersHandlers : List (String × Handler) := samplersHandlersP.map (fun (n, h) => (n, h.lift))

end Driver
