/- Handlers for C09 / C12: every creator of a polynomial, scripted tape. -/
import Driver.OpsH
import NflVerif.Model.Samplers
import NflVerif.Model.SamplersFast
import NflVerif.Spec.SamplersSpec
namespace Driver
open Nfl Nfl.Samplers Nfl.Spec.Samplers

/-- the first `nm` moduli of the table of width `w` -/
def moduliOf_SamplersH (w nm : Nat) : Option (List Nat) := do
  let t ← tabOf w
  if nm ≤ t.rows.size then some ((t.rows.toList.take nm).map (·.p)) else none

/-- `<#req> (<len> <units…>)…` starting at `a[pos]`; a unit is a byte (`unitBytes = 1`) or a little-endian word of
`unitBytes` bytes (expanded to its bytes: the model's tape is a byte tape); nothing may be left over.  Loops over
an array: requests of 10^6 bytes and tapes of 10^5 requests are parsed without recursion. -/
def parseTapeA (a : Array Int) (pos unitBytes : Nat) : Option Tape := do
  if pos ≥ a.size then none
  let nreq := (a.getD pos 0).toNat
  if nreq > a.size then none
  let mut p := pos + 1
  let mut reqs : Array (List Nat) := Array.mkEmpty nreq
  for _ in [0:nreq] do
    if p ≥ a.size then none
    let len := (a.getD p 0).toNat
    if p + 1 + len > a.size then none
    let mut bs : Array Nat := Array.mkEmpty (len * unitBytes)
    for j in [0:len] do
      let v := a.getD (p + 1 + j) 0
      if v < 0 ∨ v ≥ (256 : Int) ^ unitBytes then none
      let mut x := v.toNat
      for _ in [0:unitBytes] do
        bs := bs.push (x % 256)
        x := x / 256
    reqs := reqs.push bs.toList
    p := p + 1 + len
  if p ≠ a.size then none
  some reqs.toList

def tapeOf (l : List Int) : Option Tape := parseTapeA l.toArray 0 1

def flat_SamplersH (o : Poly) : List Int := (o.flatMap id).map Int.ofNat
def flatO : Option Poly → List Int
  | some o => flat_SamplersH o
  | none => [-1]

def implNat (impl : List Int) : Option (List Nat) := if impl.all (0 ≤ ·) then some (impl.map Int.toNat) else none

structure Hd where
  w : Nat
  n : Nat
  nm : Nat
  via : Nat
  ps : List Nat
  rest : List Int

def hd (args : List Int) : Option Hd :=
  match args with
  | w :: n :: nm :: via :: rest => do
    let ps ← moduliOf_SamplersH w.toNat nm.toNat
    if w.toNat % 8 ≠ 0 then none
    some { w := w.toNat, n := n.toNat, nm := nm.toNat, via := via.toNat, ps := ps, rest := rest }
  | _ => none

def clsHd (h : Hd) : String := s!"w{h.w}:n{h.n}x{h.nm}:via{h.via}"

/-- what happened at an excluded (inadmissible) parameter point, read off the model's output (which is
compared with the implementation's) -/
def clsExcluded (h : Hd) (why : String) (o : List Int) : String :=
  match implNat o with
  | some out => s!"w{h.w}:EXCLUDED({why}):" ++ (if canonicalA h.n h.ps out.toArray then "canonical" else "NONCANONICAL")
  | none => s!"w{h.w}:EXCLUDED({why}):throws"

def bndAdmissible (ps : List Nat) (B A : Nat) : Bool := decide (1 ≤ B) && decide (1 ≤ A) && ps.all fun p => decide (B < p) && decide (A * (B - 1) < p)

def absMax (l : List Int) : Nat := l.foldl (fun m v => max m v.natAbs) 0

/-! ### fixed weight: run / spec / explanation -/

structure HwtArgs where
  hd : Hd
  hw : Nat
  tape : Tape

def hwtArgs (unitBytes : Nat) (a : List Int) : Option HwtArgs := do
  let h ← hd a
  match h.rest with
  | hw :: t =>
    let tape ← parseTapeA t.toArray 0 unitBytes
    some { hd := h, hw := hw.toNat, tape := tape }
  | _ => none

/-- the 64-bit words of the position phase, in order: every request but the last (the sign request) -/
def hwtWords (x : HwtArgs) : List Nat :=
  (x.tape.dropLast.map fun r => words64A (r.length / 8) r.toArray).flatten

def showWord (x : Nat) : String :=
  if x + 2 ^ 20 ≥ 2 ^ 64 ∧ x < 2 ^ 64 then s!"2^64-{2 ^ 64 - x}" else toString x

/-- coverage class of a fixed-weight line, from the exact-rejection run of its words: how many words fall in a
rejection zone, whether one does at a step `k ≥ 2^16`, and whether one is rejected although it lies more than 2^16
below the top of the range (`far`: the incomplete block of that step is longer than 2^16 words) -/
def hwtCls (x : HwtArgs) : String := Id.run do
  let mut k := x.hw
  let mut rej := 0
  let mut late := false
  let mut far := false
  let mut lastAcc := false
  for w in hwtWords x do
    if k ≥ x.hd.n then break
    if specAccept k w then
      if w + 1 == rejThreshold k then lastAcc := true
      k := k + 1
    else
      rej := rej + 1
      if k ≥ 2 ^ 16 then late := true
      if w + 2 ^ 16 < 2 ^ 64 then far := true
  let b := if rej = 0 then "rej0" else if rej < 10 then "rej<10" else if rej < 100 then "rej<100" else "rej>=100"
  return s!":{b}" ++ (if lastAcc then ":M-1" else "") ++ (if late then ":rej@k>=2^16" else "") ++ (if far then ":rej-far-from-top" else "")

def hwtRun (unitBytes : Nat) (a : List Int) : Option Verdict := do
  let x ← hwtArgs unitBytes a
  let h := x.hd
  -- every request must be `h` words of 8 bytes (the code reads `h` `size_t` words from the buffer after each request)
  if x.tape.any (fun r => r.length ≠ x.hw * 8) then
    some { model := [-2], specOk := true, cls := s!"w{h.w}:n{h.n}:h{x.hw}:REQUEST-SIZE(a request is not 8h bytes)" }
  else
  let cls := s!"w{h.w}:n{h.n}:h{x.hw}" ++ (if h.n > 64 then hwtCls x else "")
  match hwtPositionsFast x.hw h.n x.tape with
  | some (_, rest) =>
    -- nothing but the sign request follows the positions phase
    if rest.length ≠ 1 then
      some { model := [-2], specOk := true, cls := cls ++ ":TAPE-MISMATCH(requests after the sign request / none)" }
    else
      some { model := flatO (setHwtFast h.w h.n h.ps x.hw x.tape), specOk := true,
             cls := cls ++ (if x.tape.length > (h.n - x.hw + x.hw - 1) / x.hw + 1 then ":extra-request" else "") }
  | none => some { model := [-2], specOk := true, cls := cls ++ ":TAPE-MISMATCH(the model needs more words than were requested)" }

def sortNat (l : List Nat) : List Nat := l.mergeSort fun a b => decide (a ≤ b)

def hwtBase (x : HwtArgs) (oa : Array Nat) : Bool :=
  let h := x.hd
  let s0 := supportA h.n oa 0
  canonicalA h.n h.ps oa && crtConsistentA h.n h.ps oa 1 (fun _ => true) && decide (s0.length = x.hw) &&
    (List.range h.nm).all fun cm => supportA h.n oa cm == s0

/-- words are fetched `h` at a time and only when one is needed: the number of position-phase requests that were
served must be the number the exact-rejection run needs for the words it consumes (more: acceptable words were
skipped; fewer is already a position failure) -/
def hwtRequestsOk (x : HwtArgs) : Bool :=
  let r := specRun x.hw x.hd.n (hwtWords x) 0 x.hw (Array.range x.hw) []
  x.hw > 0 && (r.2.2 + x.hw - 1) / x.hw + 1 == x.tape.length

def hwtSpecBase (unitBytes : Nat) (a : List Int) (impl : List Int) : Option Bool := do
  let x ← hwtArgs unitBytes a
  let out ← implNat impl
  some (hwtBase x out.toArray)

def hwtSpecV (unitBytes : Nat) (a : List Int) (impl : List Int) : Option Bool := do
  let x ← hwtArgs unitBytes a
  let out ← implNat impl
  let oa := out.toArray
  -- weight exactly h, ±1, same positions for every modulus, AND the positions are those of the reservoir run with
  -- exact rejection over the words that were served (uniform index at every step, see `specRun`)
  some (hwtBase x oa && x.tape.all (fun r => r.length == x.hw * 8) &&
        specPositions x.hw x.hd.n (hwtWords x) == some (supportA x.hd.n oa 0) && hwtRequestsOk x)

/-- number of elements that are in exactly one of two ascending lists -/
def symDiff : List Nat → List Nat → Nat → Nat → Nat
  | [], l, acc, _ => acc + l.length
  | l, [], acc, _ => acc + l.length
  | a :: l, b :: m, acc, fuel + 1 =>
    if a = b then symDiff l m acc fuel
    else if a < b then symDiff l (b :: m) (acc + 1) fuel
    else symDiff (a :: l) m (acc + 1) fuel
  | _, _, acc, 0 => acc

structure Cand where
  t : Nat
  k : Nat
  x : Nat
  rejected : Bool      -- decision of the exact rule on this word (the explanation inverts it)
deriving Inhabited

/-- the words whose decision could plausibly be inverted, met by the run that already inverts `flips`: every
rejected word, and every accepted word of the LAST complete block (`x ≥ M_k - (k+1)`), after word index `after` -/
def hwtCands (h n : Nat) (ws : List Nat) (flips : List Nat) (after : Option Nat) : Array Cand := Id.run do
  let mut k := h
  let mut t := 0
  let mut fl := flips
  let mut cs : Array Cand := #[]
  for x in ws do
    if k ≥ n then break
    let flip := fl.head? == some t
    if flip then fl := fl.tail
    let acc := specAccept k x
    let later := match after with | some a => t > a | none => true
    if later && !flip then
      if !acc then cs := cs.push { t := t, k := k, x := x, rejected := true }
      else if x + (k + 1) ≥ rejThreshold k then cs := cs.push { t := t, k := k, x := x, rejected := false }
    if acc != flip then k := k + 1
    t := t + 1
  return cs

def describeCand (c : Cand) : String :=
  if c.rejected then
    s!"word {showWord c.x} >= M_k={showWord (rejThreshold c.k)} ACCEPTED at step k={c.k} (position-phase word #{c.t}): index not uniform on [0,k] ({2 ^ 64 - rejThreshold c.k} words of the incomplete top block [M_k,2^64) must be rejected, else indices 0..{2 ^ 64 - 1 - rejThreshold c.k} get an extra pre-image)"
  else
    s!"word {showWord c.x} < M_k={showWord (rejThreshold c.k)} REJECTED at step k={c.k} (position-phase word #{c.t}): index {c.x % (c.k + 1)} of [0,k] loses a pre-image"

/-- the explanation's run (`specRun` with inverted decisions `flips`) that also remembers, for every position `v ≥ h`
it stored and later overwrote, the step at which it overwrote it (`ov[v]`, 0 = still there / never stored); also the
step reached and the number of words consumed -/
def diagRun (h n : Nat) (ws : List Nat) (flips : List Nat) : Array Nat × Array Nat × Nat × Nat := Id.run do
  let mut k := h
  let mut t := 0
  let mut fl := flips
  let mut hit := Array.range h
  let mut ov := Array.replicate (n + 1) 0
  for x in ws do
    if k ≥ n then break
    let flip := fl.head? == some t
    if flip then fl := fl.tail
    if specAccept k x != flip then
      let pos := x % (k + 1)
      if pos < h then
        let old := hit.getD pos 0
        if old ≥ h then ov := ov.setIfInBounds old k
        hit := hit.setIfInBounds pos k
      k := k + 1
    t := t + 1
  return (hit, ov, k, t)

/-- the earliest step by which the explanation `O` (ascending; `ov` as in `diagRun`) is known to deviate from the
implementation's positions `S` (ascending): a position `v ≥ h` is stored at step `v` only, so if the implementation has
`v` and the explanation never stored it, they part at or before step `v`; if the explanation stored and later
overwrote it, at or before that overwrite.  Positions the implementation LOST say nothing about when. -/
def firstMissing (h : Nat) (ov : Array Nat) : (O S : List Nat) → Nat → Option Nat → Option Nat
  | _, [], _, acc => acc
  | [], b :: m, fuel + 1, acc => firstMissing h ov [] m fuel (if b ≥ h then some (min (acc.getD (2 ^ 64)) (if ov.getD b 0 ≠ 0 then ov.getD b 0 else b)) else acc)
  | a :: l, b :: m, fuel + 1, acc =>
    if a = b then firstMissing h ov l m fuel acc
    else if a < b then firstMissing h ov l (b :: m) fuel acc
    else firstMissing h ov (a :: l) m fuel (if b ≥ h then some (min (acc.getD (2 ^ 64)) (if ov.getD b 0 ≠ 0 then ov.getD b 0 else b)) else acc)
  | _, _, 0, acc => acc

/-- score of an explanation: (step up to which the positions are explained, remaining disagreement).  The
disagreement counts the positions in exactly one of the two sets AND the difference between the number of requests
that were served and the number the explanation's run needs (words are fetched `h` at a time, when needed). -/
def hwtScore (h n nreq : Nat) (r : Array Nat × Array Nat × Nat × Nat) (S : List Nat) (fuel : Nat) : Nat × Nat :=
  let O := sortNat r.1.toList
  let need := (r.2.2.2 + h - 1) / h + 1
  let dreq := (if need ≥ nreq then need - nreq else nreq - need) + (if r.2.2.1 < n then 1 else 0)
  if O == S && dreq == 0 then (n + 1, 0)
  else match firstMissing h r.2.1 O S fuel none with
    | none => (n, symDiff O S 0 fuel + dreq)
    | some v => (v, symDiff O S 0 fuel + dreq)

/-- `b` explains strictly more than `a`: up to a later step (when no step is known, `= n`: less disagreement) -/
def scoreLt (n : Nat) (a b : Nat × Nat) : Bool := a.1 < b.1 || (a.1 == n && b.1 == n && a.2 > b.2)

/-- explanation of a failing fixed-weight line: greedy search, in tape order, for the inverted accept/reject
decisions that turn the exact-rejection run into the implementation's positions.  Each round takes the single
inversion after which the positions are explained up to the LATEST step (ties: least remaining disagreement). -/
def hwtWhy (unitBytes : Nat) (a : List Int) (impl : List Int) : String :=
  match hwtArgs unitBytes a, implNat impl with
  | some x, some out => Id.run do
    let oa := out.toArray
    let h := x.hw
    let n := x.hd.n
    if !hwtBase x oa then
      return s!"not exactly h={h} coefficients ±1 at one position set for every modulus (weight seen: {(supportA n oa 0).length})"
    match (x.tape.zipIdx.find? fun r => r.1.length != h * 8) with
    | some (r, i) =>
      return s!"request #{i} (of {x.tape.length}) asks for {r.length} bytes, but h={h} size_t words = {h * 8} bytes are read from the buffer after each request: the words beyond byte {r.length} are not fresh (they still hold words consumed earlier), so a random word influences more than one decision (positions and signs are not independent)"
    | none => pure ()
    let S := supportA n oa 0
    let ws := hwtWords x
    let run := fun (fl : List Nat) => specRun h n ws 0 h (Array.range h) fl
    let reqNote := if specPositions h n ws == some S && !hwtRequestsOk x then
      s!"{x.tape.length - 1} position-phase request(s) of {h} words were served, the exact-rejection run needs {((run []).2.2 + h - 1) / h} for the {(run []).2.2} words it consumes: the implementation skipped words that must be accepted (or fetched words it did not need); " else ""
    let score := fun (fl : List Nat) => hwtScore h n x.tape.length (diagRun h n ws fl) S (2 * h + 2)
    let r0 := run []
    let short := if r0.2.1 < n then s!" [the requested words end at step {r0.2.1} < n of the exact run: fewer words were consumed]" else ""
    let mut flips : List Nat := []
    let mut found : Array Cand := #[]
    let mut sc := score []
    let sc0 := sc
    let mut ties0 := 0
    for round in [0:6] do
      if sc.1 > n then break
      -- a deviation happened at or before step `sc.1`; many candidates (random tapes): the 48 latest of them
      let cs := (hwtCands h n ws flips none).filter fun c => c.k ≤ sc.1 + 1
      let cs := if cs.size ≤ 400 then cs else cs.extract (cs.size - 24) cs.size
      let mut best : Option (Cand × (Nat × Nat)) := none
      let mut ties := 0
      for c in cs do
        let s' := score (sortNat (flips ++ [c.t]))
        if scoreLt n sc s' then
          match best with
          | some (_, sb) =>
            if scoreLt n sb s' then
              best := some (c, s')
              ties := 1
            else if sb == s' then ties := ties + 1
          | none =>
            best := some (c, s')
            ties := 1
      match best with
      | none => break
      | some (c, s') =>
        if round = 0 then ties0 := ties
        if ties > 1 then break      -- not identifiable: do not name a word
        flips := sortNat (flips ++ [c.t])
        found := found.push c
        sc := s'
    if found.isEmpty then
      let O := sortNat r0.1.toList
      let fd := (O.zip S).find? fun p => p.1 != p.2
      let amb := if ties0 > 1 then s!"{ties0} different single inverted accept/reject decisions would explain equally much (weight h={h} keeps too few positions to pin the word)"
                 else "no single inverted accept/reject decision explains more of it"
      return s!"{reqNote}positions vs the reservoir run with exact rejection: |symmetric difference|+|request difference|={sc0.2}; first difference: exact run {fd.map (·.1)}, implementation {fd.map (·.2)}; {amb}{short}"
    else
      let how := if sc.1 > n then s!"{found.size} inverted decision(s) explain the implementation's positions EXACTLY"
                 else s!"first {found.size} inverted decision(s) found: positions explained up to step {sc.1} (before: {sc0.1}), further deviations remain"
      return s!"{reqNote}inferred from the positions and the requests served: {describeCand found[0]!}; {how}" ++
        (if found.size > 1 then "; next: " ++ ", ".intercalate ((found.toList.drop 1).take 3 |>.map fun c => s!"{showWord c.x} {if c.rejected then "accepted" else "rejected"} at k={c.k}") else "") ++ short
  | _, _ => ""

def samplersHandlersP : List (String × PHandler) := [
  ("umask", {
    run := fun a => withRow a fun w r _ => some { model := [uniMask w r.p], specOk := true, cls := s!"w{w}" },
    spec := fun a impl => withRow a fun _ r _ => some (impl == [((2 ^ bitLenSpec r.p - 1 : Nat) : Int)]) }),
  ("uni", {
    run := fun a => do
      let h ← hd a
      let tape ← tapeOf h.rest
      if tape.map List.length ≠ uniformRequests h.w h.n h.nm then none
      some { model := flat_SamplersH (setUniformFast h.w h.n h.ps tape), specOk := true, cls := clsHd h },
    spec := fun a impl => do
      let h ← hd a
      let out ← implNat impl
      some (canonicalA h.n h.ps out.toArray) }),
  ("bnd", {
    run := fun a => do
      let h ← hd a
      match h.rest with
      | B :: A :: t =>
        let (B, A) := (B.toNat, A.toNat)
        let tape ← tapeOf t
        let m := setBoundedFast h.w h.n h.ps B A tape
        if tape.map List.length ≠ (if m.isSome then boundedRequests h.w h.n else []) then none
        let adm := bndAdmissible h.ps B A
        some { model := flatO m, specOk := true,
               cls := if m.isNone then s!"w{h.w}:throws(B>=p)"
                      else if adm then clsHd h ++ (if A = 1 then ":A=1" else ":A>1") ++ (if B ≥ 2 ^ 48 then ":B>=2^48" else "")
                      else clsExcluded h (if B = 0 then "B=0" else if A = 0 then "A=0" else "A*(B-1)>=p") (flatO m) }
      | _ => none,
    spec := fun a impl => do
      let h ← hd a
      match h.rest with
      | B :: A :: _ =>
        let (B, A) := (B.toNat, A.toNat)
        if impl == [-1] then some (h.ps.any fun p => decide (B ≥ p))
        else
          let out ← implNat impl
          if h.ps.any fun p => decide (B ≥ p) then some false   -- the code must throw
          else if bndAdmissible h.ps B A then
            let oa := out.toArray
            some (canonicalA h.n h.ps oa &&
                  crtConsistentA h.n h.ps oa (A * (B - 1)) (fun v => decide (v % (A : Int) = 0)))
          else some true
      | _ => none }),
  ("gau", {
    run := fun a => do
      let h ← hd a
      match h.rest with
      | amp :: noise =>
        if noise.length ≠ h.n then none
        let m := flat_SamplersH (setGaussian h.w h.n h.ps amp.toNat noise)
        let adm := h.ps.all fun p => decide (absMax noise * amp.toNat < p)
        some { model := m, specOk := true,
               cls := if adm then clsHd h ++ (if amp = 1 then ":amp=1" else ":amp>1") else clsExcluded h "|v|*amp>=p" m }
      | _ => none,
    spec := fun a impl => do
      let h ← hd a
      let out ← implNat impl
      match h.rest with
      | amp :: noise =>
        if h.ps.all fun p => decide (absMax noise * amp.toNat < p) then
          let oa := out.toArray
          let na := noise.toArray
          some (canonicalA h.n h.ps oa && encodesA h.n h.ps oa (fun i => na.getD i 0 * amp))
        else some true
      | _ => none }),
  ("zo", {
    run := fun a => do
      let h ← hd a
      match h.rest with
      | rho :: t =>
        let tape ← tapeOf t
        if tape.map List.length ≠ zoRequests h.n then none
        some { model := flat_SamplersH (setZOFast h.w h.n h.ps rho.toNat tape), specOk := true, cls := s!"w{h.w}:n{h.n}x{h.nm}" }
      | _ => none,
    spec := fun a impl => do
      let h ← hd a
      let out ← implNat impl
      match h.rest with
      | rho :: t =>
        let tape ← tapeOf t
        let req := (tape.headD []).toArray
        let oa := out.toArray
        some (canonicalA h.n h.ps oa && encodesA h.n h.ps oa (fun i => zoSpec rho.toNat (req.getD i 0)))
      | _ => none }),
  ("hwt", { run := fun a => hwtRun 1 a, spec := fun a impl => hwtSpecV 1 a impl, why := fun a impl => hwtWhy 1 a impl }),
  -- the same lines as C09 judges them (canonical, ±1 consistently for every modulus, weight h): WHICH positions is C12's statement
  ("hwt9", { run := fun a => hwtRun 1 a, spec := fun a impl => hwtSpecBase 1 a impl, why := fun a impl => hwtWhy 1 a impl }),
  ("hwtw9", { run := fun a => hwtRun 8 a, spec := fun a impl => hwtSpecBase 8 a impl, why := fun a impl => hwtWhy 8 a impl }),
  -- same creator, the tape printed as 64-bit words (large degrees: 8x fewer tokens)
  ("hwtw", { run := fun a => hwtRun 8 a, spec := fun a impl => hwtSpecV 8 a impl, why := fun a impl => hwtWhy 8 a impl }),
  ("cval", {
    run := fun a => do
      let h ← hd a
      match h.rest with
      | [v, red] => some { model := flatO (setScalar h.n h.ps v.toNat (red != 0)), specOk := true,
                           cls := s!"w{h.w}:" ++ (if red != 0 then "reduce" else "noreduce") }
      | _ => none,
    spec := fun a impl => do
      let h ← hd a
      let out ← implNat impl
      match h.rest with
      | [v, red] =>
        if red != 0 then
          some (canonical h.n h.ps out &&
            (List.range h.nm).all fun cm => (List.range h.n).all fun i =>
              getW out h.n cm i == (if i = 0 then v.toNat % h.ps.getD cm 1 else 0))
        else some true
      | _ => none }),
  ("clist", {
    run := fun a => do
      let h ← hd a
      match h.rest with
      | red :: sz :: vals =>
        if vals.length ≠ sz.toNat then none
        let m := setValues h.n h.ps (vals.map Int.toNat) (red != 0)
        some { model := flatO m, specOk := true,
               cls := s!"w{h.w}:" ++ (if m.isNone then "throws" else if red != 0 then (if sz.toNat ≤ h.n then "reduce:short" else "reduce:full") else "noreduce") }
      | _ => none,
    spec := fun a impl => do
      let h ← hd a
      match h.rest with
      | red :: sz :: vals =>
        let sz := sz.toNat
        if impl == [-1] then some (decide (sz > h.n ∧ sz ≠ h.n * h.nm))
        else
          let out ← implNat impl
          if sz > h.n ∧ sz ≠ h.n * h.nm then some false
          else if red != 0 then
            some (canonical h.n h.ps out &&
              (decide (sz = h.n * h.nm) ||
                (List.range h.nm).all fun cm => (List.range h.n).all fun i =>
                  getW out h.n cm i == (if i < sz then (vals.getD i 0).toNat % h.ps.getD cm 1 else 0)))
          else some true
      | _ => none }),
  ("cmpz", {
    run := fun a => do
      let h ← hd a
      match h.rest with
      | sz :: vals =>
        if vals.length ≠ sz.toNat then none
        let m := setMpz h.n h.ps vals
        some { model := flatO m, specOk := true,
               cls := s!"w{h.w}:" ++ (if m.isNone then "throws" else if sz.toNat ≤ h.n then "short" else "full") }
      | _ => none,
    spec := fun a impl => do
      let h ← hd a
      match h.rest with
      | sz :: vals =>
        let sz := sz.toNat
        if impl == [-1] then some (decide (sz > h.n ∧ sz ≠ h.n * h.nm))
        else
          let out ← implNat impl
          if sz > h.n ∧ sz ≠ h.n * h.nm then some false
          else some (canonical h.n h.ps out &&
              (decide (sz = h.n * h.nm) ||
                (List.range h.nm).all fun cm => (List.range h.n).all fun i =>
                  (getW out h.n cm i : Int) == (if i < sz then (vals.getD i 0) % (h.ps.getD cm 1 : Int) else 0)))
      | _ => none })
]

def samplersHandlers : List (String × Handler) := samplersHandlersP.map (fun (n, h) => (n, h.lift))

end Driver
