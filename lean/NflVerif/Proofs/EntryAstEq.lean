/-
Equality of the GENERATED public transform entry points (`Generated/EntryAst.lean`, tools/gen_entry_ast.py: core::ntt_pow_phi,
core::invntt_pow_invphi) with the hand model's per-modulus `nttPowPhi` / `invnttPowInvphi` (`Model/Ntt.lean`), from the already proved
pieces: `ExprAst.assign_shoup_serial_uW_eq` (the twist statement), `C02LoopAst.ntt_eq` / `inv_ntt_eq` (the transforms).
-/
import NflVerif.Generated.EntryAst
import NflVerif.Properties.C02LoopAst
import NflVerif.Properties.C07Ast
import NflVerif.Proofs.ComposeAux

namespace Nfl.EntryAstEq
open Nfl Nfl.Gen Nfl.CSemEntry Nfl.Crt Nfl.Compose

/-! ### the loop over the moduli: `callSlice` at `cm * n` for `cm < M` acts slice by slice -/

theorem slices_loop (n M : Nat) (F : Nat → List Nat → List Nat) (op : List Nat) (hlen : op.length = M * n)
    (hF : ∀ cm, cm < M → (F cm (slice n op cm)).length = n) :
    (List.range M).foldl (fun op cm => callSlice op (cm * n) n (F cm)) op =
      (List.range M).flatMap (fun cm => F cm (slice n op cm)) := by
  have key : ∀ j, j ≤ M → (List.range j).foldl (fun op cm => callSlice op (cm * n) n (F cm)) op =
      (List.range j).flatMap (fun cm => F cm (slice n op cm)) ++ op.drop (j * n) := by
    intro j
    induction j with
    | zero => intro _; simp
    | succ j ih =>
      intro hj
      have hR : ((List.range j).flatMap (fun cm => F cm (slice n op cm))).length = j * n := by
        rw [length_flatMap_chunks _ n _ (fun x hx => hF x (by have := List.mem_range.1 hx; omega))]; simp
      rw [List.range_succ, List.foldl_append, ih (by omega)]
      simp only [List.foldl_cons, List.foldl_nil, List.flatMap_append, List.flatMap_cons, List.flatMap_nil, List.append_nil]
      unfold callSlice
      rw [List.take_left' hR, List.drop_left' hR]
      have e1 : List.drop (j * n + n) ((List.range j).flatMap (fun cm => F cm (slice n op cm)) ++ List.drop (j * n) op) =
          List.drop ((j + 1) * n) op := by
        rw [← List.drop_drop, List.drop_left' hR, List.drop_drop, Nat.succ_mul]
      rw [e1]
      rfl
  have := key M (Nat.le_refl M)
  rw [this, List.drop_of_length_le (by omega), List.append_nil]

theorem slice_def (n : Nat) (a : List Nat) (cm : Nat) : slice n a cm = (a.drop (cm * n)).take n := rfl

theorem slice_words {w n : Nat} {a : List Nat} (h : ∀ v ∈ a, v < 2 ^ w) (cm : Nat) : ∀ v ∈ slice n a cm, v < 2 ^ w :=
  fun v hv => h v (List.mem_of_mem_drop (List.mem_of_mem_take hv))

/-- the offset of `&op(cm, 0)` computed by the generated `poly_at` -/
theorem poly_at_off (n M : Nat) (P Pn : Nat → Nat) (hsz : M * n < 2 ^ 64) (cm : Nat) (hcm : cm < M) :
    (ExprAst.poly_at n M P Pn 0 cm (CSem.castSU 64 0)).2 = cm * n := by
  have h1 : cm * n ≤ M * n := Nat.mul_le_mul_right n (Nat.le_of_lt hcm)
  show CSem.addU 64 (CSem.mulU 64 cm n) (CSem.castSU 64 0) = cm * n
  rw [NttLoopAstEq.c0, NttLoopAstEq.mulU64 (by omega), NttLoopAstEq.addU64 (by omega)]; rfl

/-- the loop over the moduli of either entry point: slice by slice -/
theorem moduli_loop (n M : Nat) (P Pn : Nat → Nat) (hsz : M * n < 2 ^ 64) (hn : 0 < n) (F : Nat → List Nat → List Nat) (op : List Nat)
    (hlen : op.length = M * n) (hF : ∀ cm, cm < M → (F cm (slice n op cm)).length = n) :
    CSemExpr.forSt (fun cm => CSem.ltU cm M) (fun cm => CSem.addU 64 cm 1)
      (fun op cm => callSlice op (ExprAst.poly_at n M P Pn 0 cm (CSem.castSU 64 0)).2 n (F cm)) (2 ^ 64) 0 op =
      (List.range M).flatMap (fun cm => F cm (slice n op cm)) := by
  have hM : M < 2 ^ 64 := Nat.lt_of_le_of_lt (Nat.le_mul_of_pos_right M hn) hsz
  rw [ExprAst.forSt_range1 M hM, ← slices_loop n M F op hlen hF]
  apply NttLoopAstEq.foldl_range_congr
  intro t ht st
  rw [poly_at_off n M P Pn hsz t ht]

/-! ### the twist statement -/

open Nfl.Ex in
theorem twist_assign (c : Ctx) (a F G : List Nat) (ha : a.length = c.n) :
    obj (Ex.assign c .serial 0 (.shoup3 (.leaf 0) (.leaf 1) (.leaf 2)) [a, F, G]) 0 =
      (List.range (c.nmod * c.deg)).map
        (fun t => mulmodShoup c.w (c.p (t / c.deg)) (a.getD t 0) (F.getD t 0) (G.getD t 0)) := by
  have hmode : ∀ l, mode .serial l (.shoup3 (.leaf 0) (.leaf 1) (.leaf 2)) = .serial := by intro l; cases l <;> rfl
  unfold Ex.assign
  rw [hmode, show eltCount c.l .serial = 1 from rfl,
    assignW_eq (by simp) (by simpa using ha) (Nat.one_dvd _) (by decide)]
  show (List.range c.n).map _ = _
  unfold Ctx.n
  apply List.map_congr_left
  intro t _
  show mulmodShoup c.w (c.p (t / c.deg)) (rd [a, F, G] 0 (t / c.deg * c.deg + t % c.deg))
    (rd [a, F, G] 1 (t / c.deg * c.deg + t % c.deg)) (rd [a, F, G] 2 (t / c.deg * c.deg + t % c.deg)) = _
  rw [Nat.div_add_mod']
  rfl

theorem slice_map_range (n M : Nat) (f : Nat → Nat) (cm : Nat) (hcm : cm < M) :
    slice n ((List.range (M * n)).map f) cm = (List.range n).map (fun i => f (cm * n + i)) := by
  have hl : ((List.range (M * n)).map f).length = n * M := by simp [Nat.mul_comm]
  apply List.ext_getElem
  · rw [slice_length n M _ hl cm hcm]; simp
  · intro i h1 h2
    have hi : i < n := by simpa using h2
    have e := slice_getD n ((List.range (M * n)).map f) cm i hi
    have hlt : cm * n + i < M * n := ExprAst.idx_lt hcm hi
    rw [List.getD_eq_getElem _ _ h1] at e
    rw [e]
    simp [List.getD_eq_getElem?_getD, hlt]

theorem flat2d_getD (n M : Nat) (row : Nat → List Nat) (hrow : ∀ cm, cm < M → (row cm).length = n) (cm i : Nat) (hcm : cm < M)
    (hi : i < n) : (flat2d M row).getD (cm * n + i) 0 = (row cm).getD i 0 := by
  rw [← slice_getD n (flat2d M row) cm i hi]
  unfold flat2d
  rw [slice_flatMap n M row hrow cm hcm]

/-- slice `cm` of the twisted polynomial is the hand model's `mulShoupList` of slice `cm` with row `cm` of the two tables -/
theorem twist_slice (w n M : Nat) (p : Nat → Nat) (a : List Nat) (Fr Gr : Nat → List Nat) (ha : a.length = M * n) (hn : 0 < n)
    (hF : ∀ cm, cm < M → (Fr cm).length = n) (hG : ∀ cm, cm < M → (Gr cm).length = n) (cm : Nat) (hcm : cm < M) :
    slice n ((List.range (M * n)).map
      (fun t => mulmodShoup w (p (t / n)) (a.getD t 0) ((flat2d M Fr).getD t 0) ((flat2d M Gr).getD t 0))) cm =
      mulShoupList w (p cm) (slice n a cm) (Fr cm) (Gr cm) := by
  have hs : (slice n a cm).length = n := slice_length n M a (by rw [ha, Nat.mul_comm]) cm hcm
  rw [slice_map_range n M _ cm hcm, Compose2.mulShoupList_eq_map_range w (p cm) _ _ _ (by rw [hs, hF cm hcm]) (by rw [hs, hG cm hcm]), hs]
  apply List.map_congr_left
  intro i hi
  have hi : i < n := List.mem_range.1 hi
  rw [flat2d_getD n M Fr hF cm i hcm hi, flat2d_getD n M Gr hG cm i hcm hi, slice_getD n a cm i hi]
  have : (cm * n + i) / n = cm := by rw [Nat.add_comm, Nat.add_mul_div_right _ _ hn, Nat.div_eq_of_lt hi, Nat.zero_add]
  rw [this]

/-- the twisted polynomial, flat -/
def twisted (w n M : Nat) (p : Nat → Nat) (a : List Nat) (Fr Gr : Nat → List Nat) : List Nat :=
  (List.range (M * n)).map (fun t => mulmodShoup w (p (t / n)) (a.getD t 0) ((flat2d M Fr).getD t 0) ((flat2d M Gr).getD t 0))

theorem twisted_length (w n M : Nat) (p : Nat → Nat) (a : List Nat) (Fr Gr : Nat → List Nat) :
    (twisted w n M p a Fr Gr).length = M * n := by simp [twisted]

theorem twisted_words (w n M : Nat) (p : Nat → Nat) (a : List Nat) (Fr Gr : Nat → List Nat) : ∀ v ∈ twisted w n M p a Fr Gr, v < 2 ^ w := by
  intro v hv
  obtain ⟨t, _, rfl⟩ := List.mem_map.1 hv
  exact ExprAst.mulmodShoup_lt _ _ _ _ _

theorem callSlice_id (a : List Nat) (o n : Nat) : callSlice a o n (fun x => x) = a := by
  unfold callSlice
  rw [← List.drop_drop, List.append_assoc, List.take_append_drop, List.take_append_drop]

/-- a flat polynomial is the concatenation of its slices -/
theorem flatMap_slices (n M : Nat) (L : List Nat) (hlen : L.length = M * n) : (List.range M).flatMap (slice n L) = L := by
  have h := slices_loop n M (fun _ x => x) L hlen (fun cm hcm => slice_length n M L (by rw [hlen, Nat.mul_comm]) cm hcm)
  have hid : ∀ (l : List Nat) (s : List Nat), l.foldl (fun op cm => callSlice op (cm * n) n (fun x => x)) s = s := by
    intro l
    induction l with
    | nil => intro s; rfl
    | cons x l ih => intro s; rw [List.foldl_cons, callSlice_id, ih]
  rw [hid] at h
  exact h.symm

/-! ### the tables as the entry points see them -/

/-- the tables of one modulus as the transforms receive them: the whole rows `omegas[cm]` / `invomegas[cm]` (2·degree cells) and, for the
Shoup companions, the same rows from the stored offset on -/
def tabs (g : InitRow) : NttTables :=
  { phis := g.phis, shoupphis := g.shoupphis, invphis := g.invpoly_times_invphis, shoupinvphis := g.shoupinvpoly_times_invphis,
    omegas := g.omegas, shoupomegas := suffix g.omegas g.shoupomegas,
    invomegas := g.invomegas, shoupinvomegas := suffix g.invomegas g.shoupinvomegas }

/-- what the entry points need of the tables of one modulus: the declared extents (poly.hpp), the Shoup pointers at offset `degree`
(set by core::initialize), every cell a value of `T` -/
structure TabOK (w n : Nat) (g : InitRow) : Prop where
  wf : g.wf n
  so : g.shoupomegas = n
  sio : g.shoupinvomegas = n
  w1 : ∀ v ∈ g.phis, v < 2 ^ w
  w2 : ∀ v ∈ g.shoupphis, v < 2 ^ w
  w3 : ∀ v ∈ g.invpoly_times_invphis, v < 2 ^ w
  w4 : ∀ v ∈ g.shoupinvpoly_times_invphis, v < 2 ^ w
  w5 : ∀ v ∈ g.omegas, v < 2 ^ w
  w6 : ∀ v ∈ g.invomegas, v < 2 ^ w

/-- the hand model of `ntt_pow_phi` on a whole `poly<T, 2^k, M>` (flat, modulus-major): `nttPowPhi` (Model/Ntt.lean) slice by slice -/
def fwdAll (w k : Nat) (p : Nat → Nat) (M : Nat) (T : Nat → InitRow) (a : List Nat) : List Nat :=
  (List.range M).flatMap fun cm => nttPowPhi w (p cm) k (tabs (T cm)) (slice (2 ^ k) a cm)

/-- the hand model of `invntt_pow_invphi` on a whole `poly<T, 2^k, M>`: `invnttPowInvphi` slice by slice -/
def invAll (w k : Nat) (p : Nat → Nat) (M : Nat) (T : Nat → InitRow) (a : List Nat) : List Nat :=
  (List.range M).flatMap fun cm => invnttPowInvphi w (p cm) k (tabs (T cm)) (slice (2 ^ k) a cm)

theorem flat2d_words {w M : Nat} {row : Nat → List Nat} (h : ∀ cm, cm < M → ∀ v ∈ row cm, v < 2 ^ w) : ∀ v ∈ flat2d M row, v < 2 ^ w := by
  intro v hv
  obtain ⟨cm, hcm, hv⟩ := List.mem_flatMap.1 hv
  exact h cm (List.mem_range.1 hcm) v hv

open Nfl.Ex Nfl.ExprAst in
theorem heap_inRange {w : Nat} {a F G : List Nat} (ha : ∀ v ∈ a, v < 2 ^ w) (hF : ∀ v ∈ F, v < 2 ^ w) (hG : ∀ v ∈ G, v < 2 ^ w) :
    InRange w [a, F, G] := by
  intro r hr
  simp only [List.mem_cons, List.not_mem_nil, or_false] at hr
  rcases hr with rfl | rfl | rfl <;> assumption

theorem invNttWord_length (w p k : Nat) (t t' x : List Nat) (hx : x.length = 2 ^ k) : (invNttWord w p k t t' x).length = 2 ^ k := by
  unfold invNttWord
  split
  · exact hx
  · exact permutW_length _ _

section core
open Nfl.Ex Nfl.ExprAst Nfl.C02LoopAst
variable (l : C03.Limb) (c : Ctx) (hw : c.w = l.w) (k : Nat) (hdeg : c.deg = 2 ^ k) (S : Sizes c)
  (h2p : ∀ cm, cm < c.nmod → 2 * c.p cm < 2 ^ l.w) (T : Nat → InitRow) (hT : ∀ cm, cm < c.nmod → TabOK l.w (2 ^ k) (T cm))
  (asg : CSemExpr.Mem → CSemExpr.Mem)
  (hasg : ∀ m, InRange c.w m → asg m = Ex.assign c .serial 0 (.shoup3 (.leaf 0) (.leaf 1) (.leaf 2)) m)
include hw hdeg S h2p hT hasg

theorem fwd_core (hk : k ≤ 32) (a : List Nat) (ha : a.length = c.nmod * 2 ^ k) (haw : ∀ v ∈ a, v < 2 ^ l.w) :
    CSemExpr.forSt (fun cm => CSem.ltU cm c.nmod) (fun cm => CSem.addU 64 cm 1)
      (fun op cm => callSlice op (ExprAst.poly_at (2 ^ k) c.nmod c.p (pnOf c) 0 cm (CSem.castSU 64 0)).2 (2 ^ k) (fun x =>
        genNtt l (2 ^ k) (c.p cm) x 0 (T cm).omegas 0 (suffix (T cm).omegas (T cm).shoupomegas) 0)) (2 ^ 64) 0
      (obj (asg [a, flat2d c.nmod (fun cm => (T cm).phis), flat2d c.nmod (fun cm => (T cm).shoupphis)]) 0) =
      fwdAll l.w k c.p c.nmod T a := by
  have hn : 0 < 2 ^ k := Nat.two_pow_pos k
  have hsz : c.nmod * 2 ^ k < 2 ^ 64 := by rw [← hdeg]; exact S.n
  have hm := heap_inRange (w := c.w) (by rw [hw]; exact haw) (flat2d_words (fun cm hcm => by rw [hw]; exact (hT cm hcm).w1))
    (flat2d_words (fun cm hcm => by rw [hw]; exact (hT cm hcm).w2))
  have htw0 : obj (asg [a, flat2d c.nmod (fun cm => (T cm).phis), flat2d c.nmod (fun cm => (T cm).shoupphis)]) 0 =
      twisted l.w (2 ^ k) c.nmod c.p a (fun cm => (T cm).phis) (fun cm => (T cm).shoupphis) := by
    rw [hasg _ hm, twist_assign c a _ _ (by rw [Ctx.n, hdeg, ha]), hdeg, hw]; rfl
  revert htw0
  show _ = twisted l.w (2 ^ k) c.nmod c.p a (fun cm => (T cm).phis) (fun cm => (T cm).shoupphis) → _
  intro htw
  rw [htw]
  have key : ∀ cm, cm < c.nmod →
      genNtt l (2 ^ k) (c.p cm) (slice (2 ^ k) (twisted l.w (2 ^ k) c.nmod c.p a (fun cm => (T cm).phis) (fun cm => (T cm).shoupphis)) cm) 0
        (T cm).omegas 0 (suffix (T cm).omegas (T cm).shoupomegas) 0 =
      nttPowPhi l.w (c.p cm) k (tabs (T cm)) (slice (2 ^ k) a cm) ∧
      (nttPowPhi l.w (c.p cm) k (tabs (T cm)) (slice (2 ^ k) a cm)).length = 2 ^ k := by
    intro cm hcm
    have ok := hT cm hcm
    obtain ⟨l1, l2, l3, l4, l5, l6⟩ := ok.wf
    have hp : c.p cm < 2 ^ l.w := by rw [← hw]; exact S.p cm
    have hsl := slice_length (2 ^ k) c.nmod _ (by rw [twisted_length l.w (2 ^ k) c.nmod c.p a (fun cm => (T cm).phis) (fun cm => (T cm).shoupphis), Nat.mul_comm]) cm hcm
    have hsuf : (suffix (T cm).omegas (T cm).shoupomegas).length = 2 ^ k := by unfold suffix; rw [List.length_drop, l5, ok.so]; omega
    have hwd := slice_words (n := 2 ^ k) (twisted_words l.w (2 ^ k) c.nmod c.p a (fun cm => (T cm).phis) (fun cm => (T cm).shoupphis)) cm
    have e := ntt_eq l hk hp (fun _ => h2p cm hcm) _ (T cm).omegas (suffix (T cm).omegas (T cm).shoupomegas) hsl
      hwd ok.w5 (fun v hv => ok.w5 v (List.mem_of_mem_drop hv)) (by rw [l5]; omega) (by rw [hsuf]; omega)
    have hl2 := (NttLoopAstEq.nttG_eq (wtab := (T cm).omegas) (winvtab := suffix (T cm).omegas (T cm).shoupomegas) (bodyOK l hp (fun _ => h2p cm hcm)) (deg2OK l hp (fun _ => h2p cm hcm)) (last2OK l hp (fun _ => h2p cm hcm))
      (finOK l hp) (NttLoopAstEq.Wd_of_forall ok.w5) (NttLoopAstEq.Wd_of_forall (fun v hv => ok.w5 v (List.mem_of_mem_drop hv))) hk (t := []) hsl
      (by rw [List.append_nil]; exact NttLoopAstEq.Wd_of_forall hwd) (by rw [l5]; omega) (by rw [hsuf]; omega)).2
    have hts : slice (2 ^ k) (twisted l.w (2 ^ k) c.nmod c.p a (fun cm => (T cm).phis) (fun cm => (T cm).shoupphis)) cm =
        mulShoupList l.w (c.p cm) (slice (2 ^ k) a cm) (T cm).phis (T cm).shoupphis :=
      twist_slice l.w (2 ^ k) c.nmod c.p a _ _ ha hn (fun cm hcm => (hT cm hcm).wf.1) (fun cm hcm => (hT cm hcm).wf.2.1) cm hcm
    rw [hts] at hl2
    rw [e, hts]
    exact ⟨rfl, hl2⟩
  rw [moduli_loop (2 ^ k) c.nmod c.p (pnOf c) hsz hn _ _ (twisted_length _ _ _ _ _ _ _) (fun cm hcm => by rw [(key cm hcm).1]; exact (key cm hcm).2)]
  exact flatMap_range_congr _ _ _ (fun cm hcm => (key cm hcm).1)

theorem inv_core (hk : k ≤ 15) (yinit : Nat → List Nat) (hy : ∀ cm, cm < c.nmod → 2 ^ k ≤ (yinit cm).length ∧ ∀ v ∈ yinit cm, v < 2 ^ l.w)
    (a : List Nat) (ha : a.length = c.nmod * 2 ^ k) (haw : ∀ v ∈ a, v < 2 ^ l.w)
    (hmid : ∀ cm, cm < c.nmod → ∀ v ∈ invNttWord l.w (c.p cm) k (T cm).invomegas (suffix (T cm).invomegas (T cm).shoupinvomegas)
      (slice (2 ^ k) a cm), v < 2 ^ l.w) :
    obj (asg [CSemExpr.forSt (fun cm => CSem.ltU cm c.nmod) (fun cm => CSem.addU 64 cm 1)
      (fun op cm => callSlice op (ExprAst.poly_at (2 ^ k) c.nmod c.p (pnOf c) 0 cm (CSem.castSU 64 0)).2 (2 ^ k) (fun x =>
        genInvNtt l (2 ^ k) (T cm).invpolyDegree (c.p cm) (yinit cm) x 0 (T cm).invomegas 0
          (suffix (T cm).invomegas (T cm).shoupinvomegas) 0)) (2 ^ 64) 0 a,
      flat2d c.nmod (fun cm => (T cm).invpoly_times_invphis), flat2d c.nmod (fun cm => (T cm).shoupinvpoly_times_invphis)]) 0 =
      invAll l.w k c.p c.nmod T a := by
  have hn : 0 < 2 ^ k := Nat.two_pow_pos k
  have hsz : c.nmod * 2 ^ k < 2 ^ 64 := by rw [← hdeg]; exact S.n
  have hsl : ∀ cm, cm < c.nmod → (slice (2 ^ k) a cm).length = 2 ^ k :=
    fun cm hcm => slice_length (2 ^ k) c.nmod a (by rw [ha, Nat.mul_comm]) cm hcm
  have key : ∀ cm, cm < c.nmod →
      genInvNtt l (2 ^ k) (T cm).invpolyDegree (c.p cm) (yinit cm) (slice (2 ^ k) a cm) 0 (T cm).invomegas 0
          (suffix (T cm).invomegas (T cm).shoupinvomegas) 0 =
        invNttWord l.w (c.p cm) k (T cm).invomegas (suffix (T cm).invomegas (T cm).shoupinvomegas) (slice (2 ^ k) a cm) := by
    intro cm hcm
    have ok := hT cm hcm
    obtain ⟨l1, l2, l3, l4, l5, l6⟩ := ok.wf
    have hp : c.p cm < 2 ^ l.w := by rw [← hw]; exact S.p cm
    have hsuf : (suffix (T cm).invomegas (T cm).shoupinvomegas).length = 2 ^ k := by
      unfold suffix; rw [List.length_drop, l6, ok.sio]; omega
    exact inv_ntt_eq l hk hp (fun _ => h2p cm hcm) _ _ (yinit cm) (T cm).invomegas (suffix (T cm).invomegas (T cm).shoupinvomegas)
      (hsl cm hcm) (slice_words haw cm) (hy cm hcm).1 (hy cm hcm).2 ok.w6 (fun v hv => ok.w6 v (List.mem_of_mem_drop hv))
      (by rw [l6]; omega) (by rw [hsuf]; omega)
  have hlenI : ∀ cm, cm < c.nmod →
      (invNttWord l.w (c.p cm) k (T cm).invomegas (suffix (T cm).invomegas (T cm).shoupinvomegas) (slice (2 ^ k) a cm)).length = 2 ^ k :=
    fun cm hcm => invNttWord_length _ _ _ _ _ _ (hsl cm hcm)
  rw [moduli_loop (2 ^ k) c.nmod c.p (pnOf c) hsz hn _ a ha (fun cm hcm => by rw [key cm hcm]; exact hlenI cm hcm),
    flatMap_range_congr _ _ _ key]
  have hbl : ((List.range c.nmod).flatMap (fun cm => invNttWord l.w (c.p cm) k (T cm).invomegas
      (suffix (T cm).invomegas (T cm).shoupinvomegas) (slice (2 ^ k) a cm))).length = c.nmod * 2 ^ k := by
    rw [length_flatMap_chunks _ (2 ^ k) _ (fun x hx => hlenI x (List.mem_range.1 hx))]; simp
  have hbw : ∀ v ∈ (List.range c.nmod).flatMap (fun cm => invNttWord l.w (c.p cm) k (T cm).invomegas
      (suffix (T cm).invomegas (T cm).shoupinvomegas) (slice (2 ^ k) a cm)), v < 2 ^ l.w := by
    intro v hv
    obtain ⟨cm, hcm, hv⟩ := List.mem_flatMap.1 hv
    exact hmid cm (List.mem_range.1 hcm) v hv
  have hm := heap_inRange (w := c.w) (by rw [hw]; exact hbw) (flat2d_words (fun cm hcm => by rw [hw]; exact (hT cm hcm).w3))
    (flat2d_words (fun cm hcm => by rw [hw]; exact (hT cm hcm).w4))
  rw [hasg _ hm, twist_assign c _ _ _ (by rw [Ctx.n, hdeg, hbl]), hdeg, hw]
  have hfl := flatMap_slices (2 ^ k) c.nmod (twisted l.w (2 ^ k) c.nmod c.p ((List.range c.nmod).flatMap (fun cm => invNttWord l.w (c.p cm) k
    (T cm).invomegas (suffix (T cm).invomegas (T cm).shoupinvomegas) (slice (2 ^ k) a cm))) (fun cm => (T cm).invpoly_times_invphis)
    (fun cm => (T cm).shoupinvpoly_times_invphis)) (twisted_length _ _ _ _ _ _ _)
  unfold twisted at hfl
  rw [← hfl]
  unfold invAll
  apply flatMap_range_congr
  intro cm hcm
  rw [twist_slice l.w (2 ^ k) c.nmod c.p _ _ _ hbl hn (fun cm hcm => (hT cm hcm).wf.2.2.1) (fun cm hcm => (hT cm hcm).wf.2.2.2.1) cm hcm,
    slice_flatMap (2 ^ k) c.nmod _ hlenI cm hcm]
  rfl

end core

/-! ### the four generated functions -/

section inst
open Nfl.Ex Nfl.ExprAst Nfl.C02LoopAst
variable (c : Ctx) (k : Nat) (T : Nat → InitRow)

theorem ntt_pow_phi_u32_eq (hl : c.l = .w32) (hk : k ≤ 32) (hdeg : c.deg = 2 ^ k) (S : Sizes c)
    (h2p : ∀ cm, cm < c.nmod → 2 * c.p cm < 2 ^ 32) (hT : ∀ cm, cm < c.nmod → TabOK 32 (2 ^ k) (T cm))
    (a : List Nat) (ha : a.length = c.nmod * 2 ^ k) (haw : ∀ v ∈ a, v < 2 ^ 32) :
    ntt_pow_phi_u32 (2 ^ k) c.nmod c.p (pnOf c) T a = fwdAll 32 k c.p c.nmod T a :=
  fwd_core .w32 c (w_of_32 hl) k hdeg S h2p T hT (fun m => Gen.ExprAst.assign_shoup_serial_u32 (2 ^ k) c.nmod c.p (pnOf c) m 0 0 1 2)
    (fun m hm => by rw [← hdeg]; exact assign_shoup_serial_u32_eq c hl S m hm 0 0 1 2) hk a ha haw

theorem ntt_pow_phi_u64_eq (hl : c.l = .w64) (hk : k ≤ 32) (hdeg : c.deg = 2 ^ k) (S : Sizes c)
    (h2p : ∀ cm, cm < c.nmod → 2 * c.p cm < 2 ^ 64) (hT : ∀ cm, cm < c.nmod → TabOK 64 (2 ^ k) (T cm))
    (a : List Nat) (ha : a.length = c.nmod * 2 ^ k) (haw : ∀ v ∈ a, v < 2 ^ 64) :
    ntt_pow_phi_u64 (2 ^ k) c.nmod c.p (pnOf c) T a = fwdAll 64 k c.p c.nmod T a :=
  fwd_core .w64 c (w_of_64 hl) k hdeg S h2p T hT (fun m => Gen.ExprAst.assign_shoup_serial_u64 (2 ^ k) c.nmod c.p (pnOf c) m 0 0 1 2)
    (fun m hm => by rw [← hdeg]; exact assign_shoup_serial_u64_eq c hl S m hm 0 0 1 2) hk a ha haw

theorem invntt_pow_invphi_u32_eq (hl : c.l = .w32) (hk : k ≤ 15) (hdeg : c.deg = 2 ^ k) (S : Sizes c)
    (h2p : ∀ cm, cm < c.nmod → 2 * c.p cm < 2 ^ 32) (hT : ∀ cm, cm < c.nmod → TabOK 32 (2 ^ k) (T cm))
    (yinit : Nat → List Nat) (hy : ∀ cm, cm < c.nmod → 2 ^ k ≤ (yinit cm).length ∧ ∀ v ∈ yinit cm, v < 2 ^ 32)
    (a : List Nat) (ha : a.length = c.nmod * 2 ^ k) (haw : ∀ v ∈ a, v < 2 ^ 32)
    (hmid : ∀ cm, cm < c.nmod → ∀ v ∈ invNttWord 32 (c.p cm) k (T cm).invomegas (suffix (T cm).invomegas (T cm).shoupinvomegas)
      (slice (2 ^ k) a cm), v < 2 ^ 32) :
    invntt_pow_invphi_u32 (2 ^ k) c.nmod c.p (pnOf c) T yinit a = invAll 32 k c.p c.nmod T a :=
  inv_core .w32 c (w_of_32 hl) k hdeg S h2p T hT (fun m => Gen.ExprAst.assign_shoup_serial_u32 (2 ^ k) c.nmod c.p (pnOf c) m 0 0 1 2)
    (fun m hm => by rw [← hdeg]; exact assign_shoup_serial_u32_eq c hl S m hm 0 0 1 2) hk yinit hy a ha haw hmid

theorem invntt_pow_invphi_u64_eq (hl : c.l = .w64) (hk : k ≤ 15) (hdeg : c.deg = 2 ^ k) (S : Sizes c)
    (h2p : ∀ cm, cm < c.nmod → 2 * c.p cm < 2 ^ 64) (hT : ∀ cm, cm < c.nmod → TabOK 64 (2 ^ k) (T cm))
    (yinit : Nat → List Nat) (hy : ∀ cm, cm < c.nmod → 2 ^ k ≤ (yinit cm).length ∧ ∀ v ∈ yinit cm, v < 2 ^ 64)
    (a : List Nat) (ha : a.length = c.nmod * 2 ^ k) (haw : ∀ v ∈ a, v < 2 ^ 64)
    (hmid : ∀ cm, cm < c.nmod → ∀ v ∈ invNttWord 64 (c.p cm) k (T cm).invomegas (suffix (T cm).invomegas (T cm).shoupinvomegas)
      (slice (2 ^ k) a cm), v < 2 ^ 64) :
    invntt_pow_invphi_u64 (2 ^ k) c.nmod c.p (pnOf c) T yinit a = invAll 64 k c.p c.nmod T a :=
  inv_core .w64 c (w_of_64 hl) k hdeg S h2p T hT (fun m => Gen.ExprAst.assign_shoup_serial_u64 (2 ^ k) c.nmod c.p (pnOf c) m 0 0 1 2)
    (fun m hm => by rw [← hdeg]; exact assign_shoup_serial_u64_eq c hl S m hm 0 0 1 2) hk yinit hy a ha haw hmid

end inst

end Nfl.EntryAstEq
