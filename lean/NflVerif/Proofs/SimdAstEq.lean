/-
Equality of the vector kernels translated from the C++ text (`Generated/SimdAst.lean`, written by
`tools/gen_simd_ast.py` from clang's AST of sse.hpp / avx2.hpp on every run) with the hand-written kernel
models of `Model/Simd.lean`.

The generated definitions apply the SAME intrinsic models as the hand models, in the order of the source; they
differ from the hand models in
  * the scalar arguments of `set1` (translated node by node from the C++ integer expressions — `p - 0x80000000 - 1`,
    `(2*p) - 0x8000 - 1` in `int`, `(uint64_t)(p)-0x8000000000000000ULL-1`, `p << 1`, … — where the hand model writes
    `cmpConst w p`, `2 * p`, `2 ^ (w-1)`): section *constants*, congruences modulo the lane width;
  * the explicit `SimdView.relane 64 32` where the hand model writes `view32of64` (`SimdView.relane_64_32`);
  * the hand models `vecAddmod`, `vecSubmod`, `vecBfly`, `mulhiEpu32`, `finish16` being ONE function with the lane
    width / lane count / blend mask / widening intrinsic as parameters: the equalities below are the instances.
No hypothesis on the register contents or lengths is needed for any of them: both sides are the same composition
of list functions.  `p < 2^w` (the C type of `p`) is not needed either: the constants are congruent modulo the lane
width for every natural number `p`.
-/
import NflVerif.Generated.SimdAst
import NflVerif.Model.Simd

namespace Nfl.SimdAstEq
open Nfl Nfl.Simd Nfl.SimdView Nfl.GenSimd

/-! ## constants -/

theorem set1_congr {w n a b : Nat} (h : a % 2 ^ w = b % 2 ^ w) : set1 w n a = set1 w n b := by
  simp [set1, h]

theorem castSS_32_16 (a : Nat) : castSS 32 16 a = a % 2 ^ 16 := by simp [castSS]
theorem castSU32_one : CSem.castSU 32 1 = 1 := by decide
theorem castSU32_two : CSem.castSU 32 2 = 2 := by decide
theorem castSU64_one : CSem.castSU 64 1 = 1 := by decide

/-! ### 16-bit lanes (`_mm_set1_epi16`: the argument is an `int` expression converted to `short`) -/

theorem c16_p (n p : Nat) : set1 16 n (castUSk 16 p) = set1 16 n p := by
  apply set1_congr; simp [castUSk]

theorem c16_80 (n : Nat) : set1 16 n (castSS 32 16 32768) = set1 16 n (2 ^ (16 - 1)) := by
  apply set1_congr; decide

theorem c16_pc (n p : Nat) :
    set1 16 n (castSS 32 16 (CSem.subS32 (CSem.subS32 (CSem.castUS 16 p) 32768) 1)) = set1 16 n (cmpConst 16 p) := by
  apply set1_congr
  simp only [castSS_32_16, CSem.subS32, CSem.castUS, cmpConst, subWrap]
  omega

theorem c16_2p_mul (n p : Nat) : set1 16 n (castSS 32 16 (CSem.mulS32 2 (CSem.castUS 16 p))) = set1 16 n (2 * p) := by
  apply set1_congr
  simp only [castSS_32_16, CSem.mulS32, CSem.castUS]
  omega

theorem c16_2p_shl (n p : Nat) : set1 16 n (castSS 32 16 (shlS32 (CSem.castUS 16 p) 1)) = set1 16 n (2 * p) := by
  apply set1_congr
  simp only [castSS_32_16, shlS32, CSem.castUS]
  omega

theorem c16_2pc (n p : Nat) :
    set1 16 n (castSS 32 16 (CSem.subS32 (CSem.subS32 (CSem.mulS32 2 (CSem.castUS 16 p)) 32768) 1))
      = set1 16 n (cmpConst 16 (2 * p)) := by
  apply set1_congr
  simp only [castSS_32_16, CSem.subS32, CSem.mulS32, CSem.castUS, cmpConst, subWrap]
  omega

/-! ### 32-bit lanes (`_mm_set1_epi32`: an `unsigned` expression converted to `int`) -/

/-- `set1` truncates to the lane: the final conversion `unsigned → int` of the argument is invisible -/
theorem c32_p (k n v : Nat) : set1 32 n (CSem.castUS k v) = set1 32 n v := by
  apply set1_congr; simp [CSem.castUS]

/-- the hand models write the sign bit `2 ^ (32 - 1)` / `2 ^ 31`, the source `0x80000000` -/
theorem c32_80 : (2 : Nat) ^ (32 - 1) = 2147483648 := by decide
theorem c32_80' : (2 : Nat) ^ 31 = 2147483648 := by decide

theorem c32_pc (n p : Nat) :
    set1 32 n (CSem.subU 32 (CSem.subU 32 p 2147483648) (CSem.castSU 32 1)) = set1 32 n (cmpConst 32 p) := by
  apply set1_congr
  rw [castSU32_one]
  simp only [CSem.subU, cmpConst, subWrap]
  omega

/-- the 16-bit kernels compute in 32-bit lanes with `(uint32_t)(p)`: `p` is a `uint16_t` here -/
theorem c32_pc16 (n p : Nat) :
    set1 32 n (CSem.subU 32 (CSem.subU 32 (CSem.castU 32 p) 2147483648) (CSem.castSU 32 1))
      = set1 32 n (cmpConst 32 p) := by
  apply set1_congr
  rw [castSU32_one]
  simp only [CSem.castU, CSem.subU, cmpConst, subWrap]
  omega

theorem c32_2p (n p : Nat) : set1 32 n (CSem.shlU 32 p 1) = set1 32 n (2 * p) := by
  apply set1_congr
  simp only [CSem.shlU]
  omega

theorem c32_2pc (n p : Nat) :
    set1 32 n (CSem.subU 32 (CSem.subU 32 (CSem.mulU 32 (CSem.castSU 32 2) p) 2147483648) (CSem.castSU 32 1))
      = set1 32 n (cmpConst 32 (2 * p)) := by
  apply set1_congr
  rw [castSU32_one, castSU32_two]
  simp only [CSem.subU, CSem.mulU, cmpConst, subWrap]
  omega

/-! ### 64-bit lanes (`_mm_set1_epi64x`: a `uint64_t` expression converted to `long long`) -/

theorem c64_p (n v : Nat) : set1 64 n (castUSk 64 v) = set1 64 n v := by
  apply set1_congr; simp [castUSk]

theorem c64_80 : (2 : Nat) ^ 63 = 9223372036854775808 := by decide

theorem c64_pc (n p : Nat) :
    set1 64 n (CSem.subU 64 (CSem.subU 64 (CSem.castU 64 p) 9223372036854775808) (CSem.castSU 64 1))
      = set1 64 n (cmpConst 64 p) := by
  apply set1_congr
  rw [castSU64_one]
  simp only [CSem.castU, CSem.subU, cmpConst, subWrap]
  omega

/-! ## (ii) the high-product helpers -/

theorem sse_mulhi_epu32_eq (a b : Reg) : sse_mulhi_epu32 a b = sseMulhiEpu32 a b := by
  simp only [sse_mulhi_epu32, sseMulhiEpu32, mulhiEpu32, immB1, relane_64_32]

theorem avx2_mulhi_epu32_eq (a b : Reg) : avx2_mulhi_epu32 a b = avx2MulhiEpu32 a b := by
  simp only [avx2_mulhi_epu32, avx2MulhiEpu32, mulhiEpu32, immB1, relane_64_32]

theorem sse_mulhi_epu16_eq (a b : Reg) : sse_mulhi_epu16 a b = mulhiEpu16 a b := rfl

/-! ## (i) `addmod`, `submod` -/

theorem sse_addmod_u32_eq (p : Nat) (x y : Reg) : sse_addmod_u32 p x y = sseAddmod32 p x y := by
  simp only [sse_addmod_u32, sseAddmod32, vecAddmod, c32_p, c32_pc, c32_80]

theorem avx2_addmod_u32_eq (p : Nat) (x y : Reg) : avx2_addmod_u32 p x y = avx2Addmod32 p x y := by
  simp only [avx2_addmod_u32, avx2Addmod32, vecAddmod, c32_p, c32_pc, c32_80]

theorem sse_addmod_u16_eq (p : Nat) (x y : Reg) : sse_addmod_u16 p x y = sseAddmod16 p x y := by
  simp only [sse_addmod_u16, sseAddmod16, vecAddmod, c16_p, c16_pc, c16_80]

theorem avx2_addmod_u16_eq (p : Nat) (x y : Reg) : avx2_addmod_u16 p x y = avx2Addmod16 p x y := by
  simp only [avx2_addmod_u16, avx2Addmod16, vecAddmod, c16_p, c16_pc, c16_80]

theorem sse_submod_u32_eq (p : Nat) (x y : Reg) : sse_submod_u32 p x y = sseSubmod32 p x y := by
  simp only [sse_submod_u32, sseSubmod32, vecSubmod, sse_addmod_u32_eq, sseAddmod32, c32_p]

theorem avx2_submod_u32_eq (p : Nat) (x y : Reg) : avx2_submod_u32 p x y = avx2Submod32 p x y := by
  simp only [avx2_submod_u32, avx2Submod32, vecSubmod, avx2_addmod_u32_eq, avx2Addmod32, c32_p]

theorem sse_submod_u16_eq (p : Nat) (x y : Reg) : sse_submod_u16 p x y = sseSubmod16 p x y := by
  simp only [sse_submod_u16, sseSubmod16, vecSubmod, sse_addmod_u16_eq, sseAddmod16, c16_p]

theorem avx2_submod_u16_eq (p : Nat) (x y : Reg) : avx2_submod_u16 p x y = avx2Submod16 p x y := by
  simp only [avx2_submod_u16, avx2Submod16, vecSubmod, avx2_addmod_u16_eq, avx2Addmod16, c16_p]

/-! ## (iii) `mulmod_shoup` -/

theorem sse_mulmod_shoup_u32_finish_eq (x y q vp32 vp64 vpc64 v80 : Reg) :
    sse_mulmod_shoup_u32_finish x y q vp32 vp64 vpc64 v80 = finish32 x y q vp32 vp64 vpc64 v80 := rfl

theorem sse_mulmod_shoup_u32_shuffle_lh_eq (v : Reg) : sse_mulmod_shoup_u32_shuffle_lh v = shuffleLh v := rfl

theorem sse_mulmod_shoup_u32_eq (p : Nat) (x y y' : Reg) : sse_mulmod_shoup_u32 p x y y' = sseMulmodShoup32 p x y y' := by
  simp only [sse_mulmod_shoup_u32, sseMulmodShoup32, sse_mulmod_shoup_u32_finish_eq, sse_mulmod_shoup_u32_shuffle_lh_eq,
    sse_mulhi_epu32_eq, relane_64_32, c32_p, c64_p, c64_pc, c64_80]

/-- `mulmod_shoup<uint32_t, avx2>` IS `mulmod_shoup<uint32_t, sse>` (inheritance, read from the AST) -/
theorem avx2_mulmod_shoup_u32_eq (p : Nat) (x y y' : Reg) : avx2_mulmod_shoup_u32 p x y y' = sseMulmodShoup32 p x y y' :=
  sse_mulmod_shoup_u32_eq p x y y'

theorem sse_mulmod_shoup_u16_finish_eq (x y q vp32 vpc32 v80 : Reg) :
    sse_mulmod_shoup_u16_finish x y q vp32 vpc32 v80 = finish16 cvtepu16_128 x y q vp32 vpc32 v80 := rfl

theorem sse_mulmod_shoup_u16_shift8_eq (v : Reg) : sse_mulmod_shoup_u16_shift8 v = shift8 v := rfl

theorem sse_mulmod_shoup_u16_eq (p : Nat) (x y y' : Reg) : sse_mulmod_shoup_u16 p x y y' = sseMulmodShoup16 p x y y' := by
  simp only [sse_mulmod_shoup_u16, sseMulmodShoup16, sse_mulmod_shoup_u16_finish_eq, sse_mulmod_shoup_u16_shift8_eq,
    sse_mulhi_epu16_eq, c32_p, c32_pc16, c32_80']

/-- the AVX2 `finish` contains the lane permutation and the pack that the hand model has in `operator()` -/
theorem avx2_mulmod_shoup_u16_finish_eq (x y q vp32 vpc32 v80 : Reg) :
    avx2_mulmod_shoup_u16_finish x y q vp32 vpc32 v80 =
      packus32 (cast256to128 (finish16 cvtepu16_256 x y q vp32 vpc32 v80))
        (cast256to128 (permute2x128 (finish16 cvtepu16_256 x y q vp32 vpc32 v80) (finish16 cvtepu16_256 x y q vp32 vpc32 v80) 1)) := rfl

theorem avx2_mulmod_shoup_u16_eq (p : Nat) (x y y' : Reg) : avx2_mulmod_shoup_u16 p x y y' = avx2MulmodShoup16 p x y y' := by
  simp only [avx2_mulmod_shoup_u16, avx2MulmodShoup16, avx2_mulmod_shoup_u16_finish_eq, sse_mulhi_epu16_eq,
    c32_p, c32_pc16, c32_80']

/-! ## (iv) `muladd_shoup` (16-bit limbs; the 32-bit functor is the serial code in both builds) -/

theorem sse_muladd_shoup_u16_finish_eq (rop x y q vp32 vpc32 v80 : Reg) :
    sse_muladd_shoup_u16_finish rop x y q vp32 vpc32 v80 = finishMuladd16Sse rop x y q vp32 vpc32 v80 := rfl

theorem sse_muladd_shoup_u16_shift8_eq (v : Reg) : sse_muladd_shoup_u16_shift8 v = shift8 v := rfl

theorem sse_muladd_shoup_u16_eq (p : Nat) (rop x y y' : Reg) :
    sse_muladd_shoup_u16 p rop x y y' = sseMuladdShoup16 p rop x y y' := by
  simp only [sse_muladd_shoup_u16, sseMuladdShoup16, sse_muladd_shoup_u16_finish_eq, sse_muladd_shoup_u16_shift8_eq,
    sse_mulhi_epu16_eq, c32_p, c32_pc16, c32_80']

theorem avx2_muladd_shoup_u16_finish_eq (rop x y q vp32 vpc32 v80 : Reg) :
    avx2_muladd_shoup_u16_finish rop x y q vp32 vpc32 v80 =
      packus32 (cast256to128 (finishMuladd16Avx2 rop x y q vp32 vpc32 v80))
        (cast256to128 (permute2x128 (finishMuladd16Avx2 rop x y q vp32 vpc32 v80) (finishMuladd16Avx2 rop x y q vp32 vpc32 v80) 1)) := rfl

theorem avx2_muladd_shoup_u16_eq (p : Nat) (rop x y y' : Reg) :
    avx2_muladd_shoup_u16 p rop x y y' = avx2MuladdShoup16 p rop x y y' := by
  simp only [avx2_muladd_shoup_u16, avx2MuladdShoup16, avx2_muladd_shoup_u16_finish_eq, sse_mulhi_epu16_eq,
    c32_p, c32_pc16, c32_80']

/-! ## (v) butterflies: constructor constants + `operator()` from the loaded to the stored registers -/

theorem sse_bfly_u32_eq (p : Nat) (u0 u1 wi wt : Reg) : sse_bfly_u32 p u0 u1 wi wt = sseBfly32 p u0 u1 wi wt := by
  simp only [sse_bfly_u32, sseBfly32, vecBfly, sse_mulhi_epu32_eq, c32_p, c32_2p, c32_2pc, c32_80]

theorem avx2_bfly_u32_eq (p : Nat) (u0 u1 wi wt : Reg) : avx2_bfly_u32 p u0 u1 wi wt = avx2Bfly32 p u0 u1 wi wt := by
  simp only [avx2_bfly_u32, avx2Bfly32, vecBfly, avx2_mulhi_epu32_eq, c32_p, c32_2p, c32_2pc, c32_80]

theorem sse_bfly_u16_eq (p : Nat) (u0 u1 wi wt : Reg) : sse_bfly_u16 p u0 u1 wi wt = sseBfly16 p u0 u1 wi wt := by
  simp only [sse_bfly_u16, sseBfly16, vecBfly, sse_mulhi_epu16_eq, c16_p, c16_2p_mul, c16_2pc, c16_80]

theorem avx2_bfly_u16_eq (p : Nat) (u0 u1 wi wt : Reg) : avx2_bfly_u16 p u0 u1 wi wt = avx2Bfly16 p u0 u1 wi wt := by
  simp only [avx2_bfly_u16, avx2Bfly16, vecBfly, c16_p, c16_2p_shl, c16_2pc, c16_80]

end Nfl.SimdAstEq
