/-
Refinement of the word-level transform model, part 3: the layer-by-layer loop `nttLoop` followed by
the fused last two layers equals the depth-first recursion `Dft.dif` on every block; `nttWord`,
`permutW`, `invNttWord`.
-/
import NflVerif.Proofs.NttRefine2

namespace Nfl.NttRefine
open Nfl

section loop
variable {w p pn : Nat}

theorem nttLoop_succ (j h M : Nat) (wt wt' x : List Nat) :
    nttLoop w p (j + 1) (2 * h) M wt wt' x =
      nttLoop w p j h (2 * M) (wt.drop h) (wt'.drop h)
        (mapBlocks (2 * h) (layerBlock w p (wt.take h) (wt'.take h)) M x) := by
  simp [nttLoop]

/-- After `j` layers on `M` blocks of `2^(j+2)` words and the fused last two layers, every block
holds its `dif` of depth `j+2` (as residues), and every word is in `[0,2p)`. -/
theorem loop_spec (hw : w = 16 ∨ w = 32 ∨ w = 64) (hp0 : 0 < p) (hp1 : 1 < p) (h4 : 4 * p ≤ 2 ^ w)
    (hmul : ∀ x y, x < p → y < p → mulmod w p pn x y = x * y % p) (j : Nat) :
    ∀ (M B om : Nat) (x : List Nat), om < p → B = M * 2 ^ j → x.length = M * 2 ^ (j + 2) →
      Lazy p x →
      ∀ r, r = nttLoop w p j (2 ^ (j + 2)) M (prepWtab w p pn (j + 2) om)
                ((prepWtab w p pn (j + 2) om).map (shoupOf w p)) x →
      Lazy p (mapBlocks 4 (fused4 w p (r.2.1.getD 1 0) (r.2.2.getD 1 0)) B r.1) ∧
      (mapBlocks 4 (fused4 w p (r.2.1.getD 1 0) (r.2.2.getD 1 0)) B r.1).length = M * 2 ^ (j + 2) ∧
      castL p (mapBlocks 4 (fused4 w p (r.2.1.getD 1 0) (r.2.2.getD 1 0)) B r.1) =
        mapBlocksG (2 ^ (j + 2)) (Dft.dif (j + 2) (om : ZMod p)) M (castL p x) := by
  induction j with
  | zero =>
    intro M B om x hom hB hx hl r hr
    have hw1 : mulmod w p pn 1 om = om := by
      rw [hmul 1 om hp1 hom, Nat.one_mul, Nat.mod_eq_of_lt hom]
    have htab : prepWtab w p pn 2 om = [1, om, 1] := by
      simp [prepWtab, iterMul, hw1]
    rw [htab] at hr
    subst hr
    simp only [nttLoop, List.map_cons, List.map_nil]
    have e1 : [1, om, 1].getD 1 0 = om := rfl
    have e2 : [shoupOf w p 1, shoupOf w p om, shoupOf w p 1].getD 1 0 = shoupOf w p om := rfl
    rw [e1, e2]
    have hB' : B = M := by rw [hB]; simp
    subst hB'
    have hx' : x.length = B * 4 := by rw [hx]; norm_num
    have := mb_cast (p := p) 4 (fused4 w p om (shoupOf w p om)) (Dft.dif 2 (om : ZMod p))
      (fun b hb hbl => fused4_spec hw hp0 h4 hom b hb hbl) B x hx' hl
    simpa using this
  | succ j ih =>
    intro M B om x hom hB hx hl r hr
    have e : 2 ^ (j + 1 + 2) = 2 * 2 ^ (j + 2) := by rw [pow_succ]; ring
    obtain ⟨m1, m2⟩ := mulmod_spec hp0 hmul hom hom
    obtain ⟨t1, t2, _⟩ := iterMul_spec hp0 hmul hom (2 ^ (j + 2)) 1 hp1
    have t3 := iterMul_one_cast hp0 hp1 hmul hom (2 ^ (j + 2))
    have htab : prepWtab w p pn (j + 1 + 2) om =
        iterMul w p pn om (2 ^ (j + 2)) 1 ++ prepWtab w p pn (j + 2) (mulmod w p pn om om) := rfl
    rw [e] at hx hr ⊢
    rw [htab, nttLoop_succ, List.map_append, List.take_left' t2, List.drop_left' t2,
      List.take_left' (by rw [List.length_map, t2]), List.drop_left' (by rw [List.length_map, t2])]
      at hr
    -- the first layer
    obtain ⟨l1, l2, l3⟩ := mb_cast (p := p) (2 * 2 ^ (j + 2))
      (layerBlock w p (iterMul w p pn om (2 ^ (j + 2)) 1)
        ((iterMul w p pn om (2 ^ (j + 2)) 1).map (shoupOf w p)))
      (layerR (castL p (iterMul w p pn om (2 ^ (j + 2)) 1)))
      (fun b hb hbl => layerBlock_spec hw hp0 h4 (2 ^ (j + 2)) _ t1 t2 b hb hbl) M x hx hl
    have hlen : (mapBlocks (2 * 2 ^ (j + 2))
        (layerBlock w p (iterMul w p pn om (2 ^ (j + 2)) 1)
          ((iterMul w p pn om (2 ^ (j + 2)) 1).map (shoupOf w p))) M x).length =
        2 * M * 2 ^ (j + 2) := by rw [l2]; ring
    obtain ⟨i1, i2, i3⟩ := ih (2 * M) B (mulmod w p pn om om) _ m1
      (by rw [hB, pow_succ]; ring) hlen l1 r hr
    refine ⟨i1, by rw [i2]; ring, ?_⟩
    rw [i3, l3, m2, t3]
    have hxc : (castL p x).length = M * (2 * 2 ^ (j + 2)) := by simpa [castL] using hx
    rw [mb_comp (2 ^ (j + 2)) _ _
      (fun b hb => layerR_length (2 ^ (j + 2)) _ b hb (Dft.powers_length _ _)) M _ hxc]
    apply mb_congr _ _ _ _ M _ hxc
    intro b hb
    exact (dif_succ_layer (j + 2) (om : ZMod p) b hb).symm

theorem nttWord_two (k' : Nat) (wt wt' x : List Nat) :
    nttWord w p (k' + 2) wt wt' x =
      (mapBlocks 4 (fused4 w p ((nttLoop w p k' (2 ^ (k' + 2)) 1 wt wt' x).2.1.getD 1 0)
          ((nttLoop w p k' (2 ^ (k' + 2)) 1 wt wt' x).2.2.getD 1 0)) (2 ^ k')
        (nttLoop w p k' (2 ^ (k' + 2)) 1 wt wt' x).1).map (strictRed p) := rfl

/-- `core::ntt` with the Harvey table of `om` computes `Dft.dif k om` on residues and returns
canonical words. -/
theorem nttWord_spec (hw : w = 16 ∨ w = 32 ∨ w = 64) (hp0 : 0 < p) (hp1 : 1 < p)
    (h4 : 4 * p ≤ 2 ^ w)
    (hmul : ∀ x y, x < p → y < p → mulmod w p pn x y = x * y % p) (k : Nat) {om : Nat}
    (hom : om < p) (x : List Nat) (hx : x.length = 2 ^ k) (hc : Canonical p x) :
    Canonical p (nttWord w p k (prepWtab w p pn k om) ((prepWtab w p pn k om).map (shoupOf w p)) x) ∧
    (nttWord w p k (prepWtab w p pn k om) ((prepWtab w p pn k om).map (shoupOf w p)) x).length = 2 ^ k ∧
    castL p (nttWord w p k (prepWtab w p pn k om) ((prepWtab w p pn k om).map (shoupOf w p)) x) =
      Dft.dif k (om : ZMod p) (castL p x) := by
  have hw1' : 1 ≤ w := by rcases hw with rfl | rfl | rfl <;> norm_num
  match k, hx with
  | 0, hx => exact ⟨hc, hx, rfl⟩
  | 1, hx =>
    match x, hx, hc with
    | [u0, u1], _, hc =>
      have h0 : u0 < 2 * p := by have := hc u0 (by simp); omega
      have h1 : u1 < 2 * p := by have := hc u1 (by simp); omega
      obtain ⟨a0, c0⟩ := bflyLo_spec h4 h0 h1
      obtain ⟨a1, c1⟩ := subLazy_spec hw1' h4 h0 h1
      obtain ⟨b0, d0⟩ := strictRed_spec a0
      obtain ⟨b1, d1⟩ := strictRed_spec a1
      refine ⟨?_, rfl, ?_⟩
      · intro z hz
        simp only [nttWord, List.mem_cons, List.not_mem_nil, or_false] at hz
        rcases hz with rfl | rfl <;> assumption
      · simp only [nttWord, castL, List.map_cons, List.map_nil]
        rw [d0, d1, c0, c1]
        have t1 : ∀ (a b : ZMod p), List.take 1 [a, b] = [a] := fun _ _ => rfl
        simp [Dft.dif, Dft.powers, t1]
  | k' + 2, hx =>
    rw [nttWord_two]
    obtain ⟨l1, l2, l3⟩ := loop_spec hw hp0 hp1 h4 hmul k' 1 (2 ^ k') om x hom (by ring)
      (by rw [hx]; ring) hc.lazy _ rfl
    obtain ⟨s1, s2⟩ := map_spec (p := p) (2 * p) p (strictRed p)
      (fun x hx => strictRed_spec hx) _ l1
    refine ⟨s1, by rw [List.length_map, l2]; ring, ?_⟩
    rw [s2, l3, mb_one _ _ _ (by simpa [castL] using hx)]

end loop

/-! ### bit reversal -/

theorem bitrevCode_eq (k i : Nat) : Nfl.bitrevCode k i = Dft.bitrevCode k i := by
  induction k generalizing i with
  | zero => rfl
  | succ k ih => simp [Nfl.bitrevCode, Dft.bitrevCode, ih]

theorem permutW_spec {p : Nat} (hp0 : 0 < p) (k : Nat) (x : List Nat) (hc : Canonical p x) :
    Canonical p (permutW k x) ∧ (permutW k x).length = 2 ^ k ∧
      castL p (permutW k x) = Dft.permute k (castL p x) := by
  refine ⟨?_, by simp [permutW], ?_⟩
  · intro z hz
    simp only [permutW, List.mem_map, List.mem_range] at hz
    obtain ⟨i, _, rfl⟩ := hz
    simp only [Array.getD_eq_getD_getElem?, List.getElem?_toArray]
    rw [← List.getD_eq_getElem?_getD]
    exact hc.getD hp0 _
  · simp only [permutW, Dft.permute, castL, List.map_map]
    apply List.map_congr_left
    intro i hi
    rw [List.mem_range] at hi
    simp only [Function.comp, Array.getD_eq_getD_getElem?, List.getElem?_toArray]
    rw [← List.getD_eq_getElem?_getD, bitrevCode_eq, Dft.bitrevCode_eq_bitrev k i hi]
    exact (castL_getD p x _).symm

theorem permutW_zero (x : List Nat) (hx : x.length = 1) : permutW 0 x = x := by
  match x, hx with
  | [a], _ => rfl

theorem invNttWord_eq (w p k : Nat) (iwt iwt' x : List Nat) (hx : x.length = 2 ^ k) :
    invNttWord w p k iwt iwt' x = permutW k (nttWord w p k iwt iwt' (permutW k x)) := by
  unfold invNttWord
  split
  · rename_i h
    subst h
    have h1 : x.length = 1 := by simpa using hx
    rw [permutW_zero x h1]
    show x = permutW 0 x
    rw [permutW_zero x h1]
  · rfl

end Nfl.NttRefine
