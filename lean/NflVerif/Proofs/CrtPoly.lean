/-
Polynomial-level lemmas for C04: the modulus-major layout, the coefficient-wise lift of a whole polynomial, and
the compatibility of the schoolbook negacyclic product (`Spec.negacyclicNat`) with reduction modulo a divisor of
the modulus — which is what makes the per-modulus products lift to the product over `Z_Q`.
-/
import NflVerif.Proofs.CrtProofs

namespace Nfl.Crt
open Nat

/-! ### sums reduced at every step -/

theorem foldl_addmod (M : Nat) (f : Nat → Nat) : ∀ (l : List Nat) (s0 : Nat),
    l.foldl (fun s i => (s + f i) % M) s0 ≡ s0 + (l.map f).sum [MOD M]
  | [], s0 => by simp [Nat.ModEq]
  | i :: l, s0 => by
    simp only [List.foldl_cons, List.map_cons, List.sum_cons]
    refine (foldl_addmod M f l _).trans ?_
    have := (Nat.mod_modEq (s0 + f i) M).add_right ((l.map f).sum)
    simpa [Nat.add_assoc] using this

theorem sum_map_modEq (p : Nat) (f g : Nat → Nat) : ∀ l : List Nat, (∀ i, f i ≡ g i [MOD p]) →
    (l.map f).sum ≡ (l.map g).sum [MOD p]
  | [], _ => by simp [Nat.ModEq]
  | i :: l, h => by
    simp only [List.map_cons, List.sum_cons]
    exact (h i).add (sum_map_modEq p f g l h)

theorem fold_pair_modEq {Q p : Nat} (hd : p ∣ Q) (f g : Nat → Nat) (hfg : ∀ i, f i ≡ g i [MOD p]) (l : List Nat) :
    l.foldl (fun s i => (s + f i) % Q) 0 ≡ l.foldl (fun s i => (s + g i) % p) 0 [MOD p] := by
  have h1 := (foldl_addmod Q f l 0).of_dvd hd
  have h2 := foldl_addmod p g l 0
  have h3 := sum_map_modEq p f g l hfg
  simp only [Nat.zero_add] at h1 h2
  exact h1.trans (h3.trans h2.symm)

theorem negacyclic_final {Q p posQ negQ posp negp : Nat} (hd : p ∣ Q) (hp : 0 < p) (hQ : 0 < Q)
    (h1 : posQ ≡ posp [MOD p]) (h2 : negQ ≡ negp [MOD p]) :
    (posQ + Q - negQ % Q) % Q % p = (posp + p - negp % p) % p := by
  rw [Nat.mod_mod_of_dvd _ hd]
  have hnQ : negQ % Q < Q := Nat.mod_lt _ hQ
  have hnp : negp % p < p := Nat.mod_lt _ hp
  have e2 : negQ % Q ≡ negp % p [MOD p] :=
    (((Nat.mod_modEq negQ Q).of_dvd hd).trans h2).trans (Nat.mod_modEq negp p).symm
  have e1 : (posQ + Q - negQ % Q) + negQ % Q ≡ (posp + p - negp % p) + negp % p [MOD p] := by
    rw [Nat.sub_add_cancel (by omega), Nat.sub_add_cancel (by omega)]
    have a1 : posQ + Q ≡ posQ [MOD p] := by
      simpa using (Nat.ModEq.refl posQ).add (Nat.modEq_zero_iff_dvd.2 hd)
    have a2 : posp + p ≡ posp [MOD p] := by simp [Nat.ModEq]
    exact a1.trans (h1.trans a2.symm)
  exact Nat.ModEq.add_right_cancel e2 e1

theorem toArray_getD (a : List Nat) (i : Nat) : a.toArray.getD i 0 = a.getD i 0 := by
  simp only [Array.getD_eq_getD_getElem?, List.getElem?_toArray, List.getD_eq_getElem?_getD]

theorem getD_map_mod (A : List Nat) (p i : Nat) : (A.map (· % p)).getD i 0 = A.getD i 0 % p := by
  have := List.getD_map A 0 (n := i) (· % p)
  simpa using this

theorem negacyclic_length (p : Nat) (a b : List Nat) : (Spec.negacyclicNat p a b).length = a.length := by
  simp [Spec.negacyclicNat]

theorem negacyclic_getD_lt (p : Nat) (hp : 0 < p) (a b : List Nat) (c : Nat) (hc : c < a.length) :
    (Spec.negacyclicNat p a b).getD c 0 < p := by
  unfold Spec.negacyclicNat
  simp only []
  rw [List.getD_eq_getElem _ _ (by simpa using hc), List.getElem_map]
  exact Nat.mod_lt _ hp

/-- reducing the operands modulo a divisor `p` of `Q` commutes with the negacyclic product -/
theorem negacyclic_mod {Q p : Nat} (hd : p ∣ Q) (hp : 0 < p) (hQ : 0 < Q) (A B : List Nat) (c : Nat)
    (hc : c < A.length) :
    (Spec.negacyclicNat Q A B).getD c 0 % p =
      (Spec.negacyclicNat p (A.map (· % p)) (B.map (· % p))).getD c 0 := by
  unfold Spec.negacyclicNat
  simp only [List.length_map]
  rw [List.getD_eq_getElem _ _ (by simpa using hc), List.getD_eq_getElem _ _ (by simpa using hc),
    List.getElem_map, List.getElem_map, List.getElem_range]
  have term : ∀ i j, A.toArray.getD i 0 * B.toArray.getD j 0 ≡
      (List.map (· % p) A).toArray.getD i 0 * (List.map (· % p) B).toArray.getD j 0 [MOD p] := by
    intro i j
    simp only [toArray_getD, getD_map_mod]
    exact ((Nat.mod_modEq _ p).mul (Nat.mod_modEq _ p)).symm
  apply negacyclic_final hd hp hQ
  · exact fold_pair_modEq hd _ _ (fun i => term i (c - i)) _
  · exact fold_pair_modEq hd _ _ (fun t => term (c + 1 + t) (c + A.length - (c + 1 + t))) _

/-! ### the modulus-major layout -/

theorem getD_flatMap_chunks {α β : Type} (f : α → List β) (n : Nat) (d : β) : ∀ (l : List α),
    (∀ x ∈ l, (f x).length = n) → ∀ (cm i : Nat) (hcm : cm < l.length), i < n →
    (l.flatMap f).getD (cm * n + i) d = (f l[cm]).getD i d
  | [], _, cm, i, hcm, _ => by simp at hcm
  | x :: l, hl, 0, i, _, hi => by
    simp only [List.flatMap_cons, Nat.zero_mul, Nat.zero_add, List.getElem_cons_zero]
    exact List.getD_append _ _ _ _ (by rw [hl x (by simp)]; exact hi)
  | x :: l, hl, cm + 1, i, hcm, hi => by
    have hx : (f x).length = n := hl x (by simp)
    have e : (cm + 1) * n + i = (f x).length + (cm * n + i) := by rw [hx]; ring
    rw [List.flatMap_cons, e, List.getD_append_right _ _ _ _ (by omega), Nat.add_sub_cancel_left]
    simp only [List.getElem_cons_succ]
    exact getD_flatMap_chunks f n d l (fun y hy => hl y (by simp [hy])) cm i (by simpa using hcm) hi

theorem length_flatMap_chunks {α β : Type} (f : α → List β) (n : Nat) : ∀ (l : List α),
    (∀ x ∈ l, (f x).length = n) → (l.flatMap f).length = l.length * n
  | [], _ => by simp
  | x :: l, hl => by
    rw [List.flatMap_cons, List.length_append, hl x (by simp),
      length_flatMap_chunks f n l (fun y hy => hl y (by simp [hy])), List.length_cons]
    ring

theorem residuesAt_length (n m : Nat) (data : List Nat) (i : Nat) : (residuesAt n m data i).length = m := by
  simp [residuesAt]

theorem residuesAt_getD (n m : Nat) (data : List Nat) (i j : Nat) (hj : j < m) :
    (residuesAt n m data i).getD j 0 = data.getD (j * n + i) 0 := by
  unfold residuesAt
  rw [List.getD_eq_getElem _ _ (by simpa using hj), List.getElem_map, List.getElem_range]

theorem slice_length (n m : Nat) (data : List Nat) (hlen : data.length = n * m) (cm : Nat) (hcm : cm < m) :
    (slice n data cm).length = n := by
  unfold slice
  rw [List.length_take, List.length_drop, hlen]
  have h1 : n * (cm + 1) ≤ n * m := Nat.mul_le_mul_left n hcm
  have h2 : n * (cm + 1) = cm * n + n := by ring
  omega

theorem slice_getD (n : Nat) (data : List Nat) (cm i : Nat) (hi : i < n) :
    (slice n data cm).getD i 0 = data.getD (cm * n + i) 0 := by
  unfold slice
  simp [List.getD_eq_getElem?_getD, hi]

/-- canonical polynomial: `n·m` words, slice `cm` reduced modulo `p_cm` -/
def PolyCanon (ps : List Nat) (n : Nat) (a : List Nat) : Prop :=
  a.length = n * ps.length ∧ ∀ cm, cm < ps.length → ∀ i, i < n → a.getD (cm * n + i) 0 < ps.getD cm 0

theorem PolyCanon.residues {ps : List Nat} {n : Nat} {a : List Nat} (ha : PolyCanon ps n a) (i : Nat) (hi : i < n) :
    Canon ps (residuesAt n ps.length a i) :=
  ⟨residuesAt_length _ _ _ _, fun j hj => by rw [residuesAt_getD _ _ _ _ _ hj]; exact ha.2 j hj i hi⟩

/-- the mathematical value of `poly2mpz` -/
def poly2mpzNat (g : GmpConsts) (n : Nat) (data : List Nat) : List Nat :=
  (List.range n).map fun i => liftNat g (residuesAt n g.ps.length data i)

section Poly
variable {inv : Nat → Nat → Nat} {w : Nat} {ps : List Nat}

theorem poly2mpz_eq (hinv : InvContract inv) (h : ModOK w ps) (n : Nat) (a : List Nat) (ha : PolyCanon ps n a) :
    poly2mpz (gmpInitWith inv w ps) n a = (poly2mpzNat (gmpInitWith inv w ps) n a).map Int.ofNat := by
  unfold poly2mpz poly2mpzNat
  rw [List.map_map]
  apply List.map_congr_left
  intro i hi
  have hi' : i < n := List.mem_range.1 hi
  simp only [gmp_ps, Function.comp]
  exact lift_eq hinv h _ (ha.residues i hi')

theorem poly2mpzNat_length (g : GmpConsts) (n : Nat) (a : List Nat) : (poly2mpzNat g n a).length = n := by
  simp [poly2mpzNat]

theorem poly2mpzNat_getD (g : GmpConsts) (n : Nat) (a : List Nat) (i : Nat) (hi : i < n) :
    (poly2mpzNat g n a).getD i 0 = liftNat g (residuesAt n g.ps.length a i) := by
  unfold poly2mpzNat
  rw [List.getD_eq_getElem _ _ (by simpa using hi), List.getElem_map, List.getElem_range]

/-- reducing the lifted polynomial modulo `p_j` gives back slice `j` -/
theorem poly2mpzNat_map_mod (hinv : InvContract inv) (h : ModOK w ps) (n : Nat) (a : List Nat)
    (ha : PolyCanon ps n a) (j : Nat) (hj : j < ps.length) :
    (poly2mpzNat (gmpInitWith inv w ps) n a).map (· % ps[j]) = slice n a j := by
  apply List.ext_getElem
  · rw [List.length_map, poly2mpzNat_length, slice_length n ps.length a ha.1 j hj]
  · intro k hk1 hk2
    have hk : k < n := by simpa [poly2mpzNat_length] using hk1
    have e1 := getD_map_mod (poly2mpzNat (gmpInitWith inv w ps) n a) ps[j] k
    rw [List.getD_eq_getElem _ _ hk1] at e1
    have e2 := slice_getD n a j k hk
    rw [List.getD_eq_getElem _ _ hk2] at e2
    rw [e1, e2, poly2mpzNat_getD _ _ _ _ hk, gmp_ps, liftNat_mod hinv h _ (ha.residues k hk) j hj,
      residuesAt_getD _ _ _ _ _ hj]

theorem mulPoly_getD (n : Nat) (a b : List Nat) (ha : a.length = n * ps.length) (j i : Nat) (hj : j < ps.length)
    (hi : i < n) :
    (mulPoly ps n a b).getD (j * n + i) 0 =
      (Spec.negacyclicNat ps[j] (slice n a j) (slice n b j)).getD i 0 := by
  unfold mulPoly
  rw [getD_flatMap_chunks _ n 0 (List.range ps.length) _ j i (by simpa using hj) hi]
  · rw [List.getElem_range, List.getD_eq_getElem ps _ hj]
  · intro cm hcm
    rw [negacyclic_length, slice_length n ps.length a ha cm (List.mem_range.1 hcm)]

theorem mulPoly_canon (h : ModOK w ps) (n : Nat) (a b : List Nat) (ha : a.length = n * ps.length) :
    PolyCanon ps n (mulPoly ps n a b) := by
  constructor
  · unfold mulPoly
    rw [length_flatMap_chunks _ n]
    · simp [Nat.mul_comm]
    · intro cm hcm
      rw [negacyclic_length, slice_length n ps.length a ha cm (List.mem_range.1 hcm)]
  · intro cm hcm i hi
    rw [mulPoly_getD n a b ha cm i hcm hi, List.getD_eq_getElem ps _ hcm]
    apply negacyclic_getD_lt _ (h.pos _ (List.getElem_mem hcm))
    rw [slice_length n ps.length a ha cm hcm]; exact hi

/-- **the per-modulus negacyclic products lift to the negacyclic product over `Z_Q`** -/
theorem poly2mpzNat_mulPoly (hinv : InvContract inv) (h : ModOK w ps) (n : Nat) (a b : List Nat)
    (ha : PolyCanon ps n a) (hb : PolyCanon ps n b) :
    poly2mpzNat (gmpInitWith inv w ps) n (mulPoly ps n a b) =
      Spec.negacyclicNat ps.prod (poly2mpzNat (gmpInitWith inv w ps) n a) (poly2mpzNat (gmpInitWith inv w ps) n b) := by
  have hQ : 0 < ps.prod := prod_pos_of ps h.pos
  have hc := mulPoly_canon h n a b ha.1
  apply List.ext_getElem
  · rw [poly2mpzNat_length, negacyclic_length, poly2mpzNat_length]
  · intro i hi1 hi2
    have hi : i < n := by simpa [poly2mpzNat_length] using hi1
    have e1 := poly2mpzNat_getD (gmpInitWith inv w ps) n (mulPoly ps n a b) i hi
    rw [List.getD_eq_getElem _ _ hi1] at e1
    rw [e1, gmp_ps]
    have hiA : i < (poly2mpzNat (gmpInitWith inv w ps) n a).length := by rw [poly2mpzNat_length]; exact hi
    symm
    have e2 : (Spec.negacyclicNat ps.prod (poly2mpzNat (gmpInitWith inv w ps) n a)
        (poly2mpzNat (gmpInitWith inv w ps) n b))[i] =
        (Spec.negacyclicNat ps.prod (poly2mpzNat (gmpInitWith inv w ps) n a)
        (poly2mpzNat (gmpInitWith inv w ps) n b)).getD i 0 := (List.getD_eq_getElem _ _ hi2).symm
    rw [e2]
    apply liftNat_unique hinv h _ (hc.residues i hi)
    · exact negacyclic_getD_lt _ hQ _ _ _ hiA
    · intro j hj
      have hd : ps[j] ∣ ps.prod := List.dvd_prod (List.getElem_mem hj)
      have hp : 0 < ps[j] := h.pos _ (List.getElem_mem hj)
      rw [negacyclic_mod hd hp hQ _ _ i hiA, poly2mpzNat_map_mod hinv h n a ha j hj,
        poly2mpzNat_map_mod hinv h n b hb j hj, residuesAt_getD _ _ _ _ _ hj, mulPoly_getD n a b ha.1 j i hj hi]

/-! ### whole-polynomial round trips -/

theorem mpz2poly_length (zs : List Int) : (mpz2poly ps zs).length = ps.length * zs.length := by
  unfold mpz2poly
  exact length_flatMap_chunks _ zs.length ps (fun p _ => by simp)

theorem mpz2poly_getD (zs : List Int) (cm i : Nat) (hcm : cm < ps.length) (hi : i < zs.length) :
    (mpz2poly ps zs).getD (cm * zs.length + i) 0 = fdivUi zs[i] ps[cm] := by
  unfold mpz2poly
  rw [getD_flatMap_chunks _ zs.length 0 ps (fun p _ => by simp) cm i hcm hi,
    List.getD_eq_getElem _ _ (by simpa using hi), List.getElem_map]

theorem residuesAt_mpz2poly (zs : List Int) (i : Nat) (hi : i < zs.length) :
    residuesAt zs.length ps.length (mpz2poly ps zs) i = mpz2polyCoeff ps zs[i] := by
  apply List.ext_getElem
  · simp [residuesAt, mpz2polyCoeff]
  · intro j hj1 hj2
    have hj : j < ps.length := by simpa [residuesAt] using hj1
    have e1 := residuesAt_getD zs.length ps.length (mpz2poly ps zs) i j hj
    rw [List.getD_eq_getElem _ _ hj1] at e1
    have e2 := mpz2polyCoeff_getD (ps := ps) zs[i] j hj
    rw [List.getD_eq_getElem _ _ hj2] at e2
    rw [e1, e2, mpz2poly_getD zs j i hj hi]

/-- `poly2mpz ∘ mpz2poly` reduces every integer (any sign, any size) modulo `Q` -/
theorem poly2mpz_mpz2poly (hinv : InvContract inv) (h : ModOK w ps) (zs : List Int) :
    poly2mpzOfMpz2poly (gmpInitWith inv w ps) zs = zs.map (· % (ps.prod : Int)) := by
  unfold poly2mpzOfMpz2poly poly2mpz
  rw [gmp_ps]
  apply List.ext_getElem
  · simp
  · intro i hi1 hi2
    have hi : i < zs.length := by simpa using hi1
    rw [List.getElem_map, List.getElem_map, List.getElem_range, residuesAt_mpz2poly zs i hi]
    exact liftOfMpz_eq hinv h zs[i]

/-- `mpz2poly ∘ poly2mpz` is the identity on canonical polynomials -/
theorem mpz2poly_poly2mpz (hinv : InvContract inv) (h : ModOK w ps) (n : Nat) (a : List Nat)
    (ha : PolyCanon ps n a) : mpz2polyOfPoly2mpz (gmpInitWith inv w ps) n a = a := by
  unfold mpz2polyOfPoly2mpz
  rw [gmp_ps, poly2mpz_eq hinv h n a ha]
  set zs := (poly2mpzNat (gmpInitWith inv w ps) n a).map Int.ofNat with hzs
  have hzl : zs.length = n := by simp [hzs, poly2mpzNat_length]
  apply List.ext_getElem
  · rw [mpz2poly_length, hzl, ha.1, Nat.mul_comm]
  · intro k hk1 hk2
    rw [mpz2poly_length, hzl] at hk1
    have hn : 0 < n := by
      rcases Nat.eq_zero_or_pos n with h0 | h0
      · subst h0; simp at hk1
      · exact h0
    have hcm : k / n < ps.length := Nat.div_lt_of_lt_mul (by rwa [Nat.mul_comm] at hk1)
    have hi : k % n < n := Nat.mod_lt _ hn
    have hk : k = (k / n) * zs.length + k % n := by rw [hzl]; exact (Nat.div_add_mod' k n).symm
    have e1 : (mpz2poly ps zs)[k] = (mpz2poly ps zs).getD k 0 := (List.getD_eq_getElem _ _ _).symm
    have e2 : a[k] = a.getD k 0 := (List.getD_eq_getElem _ _ _).symm
    rw [e1, e2]
    conv_lhs => rw [hk]
    rw [mpz2poly_getD zs (k / n) (k % n) hcm (by rw [hzl]; exact hi)]
    have e3 : zs[k % n]'(by rw [hzl]; exact hi) =
        ((liftNat (gmpInitWith inv w ps) (residuesAt n ps.length a (k % n)) : Nat) : Int) := by
      simp only [hzs, List.getElem_map]
      have := poly2mpzNat_getD (gmpInitWith inv w ps) n a (k % n) hi
      rw [List.getD_eq_getElem _ _ (by rw [poly2mpzNat_length]; exact hi)] at this
      rw [this]; rfl
    rw [e3, fdivUi_natCast, liftNat_mod hinv h _ (ha.residues _ hi) _ hcm, residuesAt_getD _ _ _ _ _ hcm,
      Nat.div_add_mod']

/-! ### `set_mpz` (and the `mpz` constructors / assignments, which all forward to it) -/

theorem flatMap_eq_range {β : Type} (F : Nat → List β) : ∀ (l : List Nat),
    l.flatMap F = (List.range l.length).flatMap (fun cm => F (l.getD cm 0))
  | [] => by simp
  | p :: t => by
    rw [List.length_cons, List.range_succ_eq_map, List.flatMap_cons, List.flatMap_cons, List.flatMap_map,
      flatMap_eq_range F t]
    simp

theorem fdivUi_zero (p : Nat) : fdivUi 0 p = 0 := by simp [fdivUi]

/-- with at most `n` values, `set_mpz` stores for every modulus the floor residues of the values, zero padded:
it is `mpz2poly` of the zero-padded vector -/
theorem setMpz_eq (n : Nat) (vals : List Int) (hs : vals.length ≤ n) :
    setMpz ps n vals = some (mpz2poly ps (vals ++ List.replicate (n - vals.length) 0)) := by
  unfold setMpz
  simp only []
  rw [if_neg (by omega)]
  congr 1
  unfold mpz2poly
  rw [flatMap_eq_range _ ps]
  apply List.flatMap_congr
  intro cm hcm
  have hcm' : cm < ps.length := List.mem_range.1 hcm
  have hsrc : (if vals.length ≠ n * ps.length then vals else vals.drop (cm * n)) = vals := by
    by_cases hne : vals.length ≠ n * ps.length
    · rw [if_pos hne]
    · rw [if_neg hne]
      have he : vals.length = n * ps.length := by omega
      have : cm * n = 0 := by
        rcases Nat.eq_zero_or_pos n with h0 | h0
        · subst h0; simp
        · have : ps.length ≤ 1 := by
            by_contra hc
            have h2 : n * 2 ≤ n * ps.length := Nat.mul_le_mul_left n (by omega)
            omega
          have : cm = 0 := by omega
          subst this; simp
      rw [this, List.drop_zero]
  simp only [hsrc]
  rw [List.take_of_length_le hs, List.map_append, List.length_map, List.map_replicate, fdivUi_zero]

end Poly

end Nfl.Crt
