/-
The LOOP STRUCTURE of the SSE and AVX2 transforms that `tools/gen_vloop_ast.py` regenerates from clang's AST of
`ops::ntt_loop_sse_unrolled<poly>::run` (sse.hpp), `ops::ntt_loop_avx2_unrolled<poly>::run` (avx2.hpp) and `poly::core::ntt`
(core.hpp) in the two vector configurations — `Generated/VLoopAst.lean`, index-level code on (array, offset) pointers calling the
generated vector kernels of `Generated/SimdAst.lean` on whole registers (`CSemVLoop.rdv` / `wrv`) and the generated scalar block of
`Generated/NttAst.lean` — computes the hand-written scalar model `Model/Ntt.lean` (`nttLoop`, `nttWord`) for every degree `2^k`,
`3 ≤ k ≤ 32`; hence it equals the generated SCALAR loop (`Proofs/NttLoopAstEq.lean`) and the hand model of the vector loops
(`Model/Simd.lean`: `nttLoopSse`, `nttLoopAvx2`, through C05's loop theorems).

Method.  (1) `*_shape` (by `rfl`): each generated function is the generic text `vrunSseG` / `vrunAvx2G` below applied to its kernels,
its scalar block and its lane counts.  (2) one functor call = `StepSpec` (pointwise effect on `L` consecutive cells of the two
halves); a chunk loop advances the invariant `InvP` (the first `c` cells of both halves of the block are done) by `L` per call —
the same lemma serves the SSE loop, the AVX2 loop, the single SSE call after it and the scalar loop of the last layer (`L = 1`).
(3) blocks of one layer / layers as in `NttLoopAstEq` (`OuterInv`, `mapBlocks_layer_getD`, induction over the layers).
-/
import NflVerif.Generated.VLoopAst
import NflVerif.Proofs.NttLoopAstEq
import NflVerif.Proofs.SimdLanes

namespace Nfl.VLoopAstEq
open Nfl Nfl.CSem Nfl.CSemLoop Nfl.CSemVLoop Nfl.NttLoopPt Nfl.NttAstEq Nfl.NttLoopAstEq

/-! ### whole-register accesses -/

@[simp] theorem length_rdv (L : Nat) (m : List Nat) (i : Nat) : (rdv L m i).length = L := by simp [rdv]

theorem getD_rdv {L : Nat} (m : List Nat) (i : Nat) {j : Nat} (hj : j < L) : (rdv L m i).getD j 0 = rd m (i + j) := by
  unfold rdv
  rw [List.getD_eq_getElem?_getD, List.getElem?_map, List.getElem?_range hj]
  rfl

theorem mem_rdv_lt {w : Nat} {m : List Nat} (hm : Wd w m) (L i : Nat) : ∀ v ∈ rdv L m i, v < 2 ^ w := by
  intro v hv
  unfold rdv at hv
  obtain ⟨j, _, rfl⟩ := List.mem_map.mp hv
  exact hm _

@[simp] theorem length_wrv : ∀ (v m : List Nat) (i : Nat), (wrv m i v).length = m.length
  | [], m, i => rfl
  | a :: v, m, i => by rw [wrv, length_wrv v, length_wr]

theorem rd_wrv : ∀ (v m : List Nat) (i j : Nat), i + v.length ≤ m.length →
    rd (wrv m i v) j = if i ≤ j ∧ j < i + v.length then v.getD (j - i) 0 else rd m j
  | [], m, i, j, _ => by
    rw [wrv, if_neg (by simp only [List.length_nil]; omega)]
  | a :: v, m, i, j, h => by
    simp only [List.length_cons] at h
    rw [wrv, rd_wrv v (wr m i a) (i + 1) j (by rw [length_wr]; omega), rd_wr]
    simp only [List.length_cons]
    by_cases c1 : i + 1 ≤ j ∧ j < i + 1 + v.length
    · rw [if_pos c1, if_pos (by omega)]
      obtain ⟨d, rfl⟩ : ∃ d, j = i + 1 + d := ⟨j - (i + 1), by omega⟩
      rw [show i + 1 + d - (i + 1) = d by omega, show i + 1 + d - i = d + 1 by omega, List.getD_cons_succ]
    · rw [if_neg c1]
      by_cases c0 : i = j
      · subst c0
        rw [if_pos ⟨rfl, by omega⟩, if_pos (by omega), Nat.sub_self, List.getD_cons_zero]
      · rw [if_neg (fun hh => c0 hh.1), if_neg (by omega)]

theorem getD_zipWith_bflyLo (w p : Nat) : ∀ (a b : List Nat) (j : Nat), j < a.length → j < b.length →
    (List.zipWith (bflyLo w p) a b).getD j 0 = bflyLo w p (a.getD j 0) (b.getD j 0) := by
  intro a b j ha hb
  simp only [List.getD_eq_getElem?_getD, List.getElem?_zipWith, List.getElem?_eq_getElem ha, List.getElem?_eq_getElem hb,
    Option.getD_some]

/-! ### one functor call: its pointwise effect on `L` consecutive cells of the two halves -/

section step
variable (w p : Nat) (wtab winvtab : List Nat)

/-- `step x a0 a1 ti` = the memory after `body(&x[a0], &x[a1], &winvtab[ti], &wtab[ti])` for a functor working on `L` cells -/
def StepSpec (wo wo' L : Nat) (step : List Nat → Nat → Nat → Nat → List Nat) : Prop :=
  ∀ (x : List Nat) (a0 a1 ti : Nat), Wd w x → a0 + L ≤ a1 → a1 + L ≤ x.length →
    (step x a0 a1 ti).length = x.length ∧ Wd w (step x a0 a1 ti) ∧
    ∀ j, rd (step x a0 a1 ti) j =
      if a0 ≤ j ∧ j < a0 + L then bflyLo w p (rd x j) (rd x (j + (a1 - a0)))
      else if a1 ≤ j ∧ j < a1 + L then
        bflyHi w p (rd x (j - (a1 - a0))) (rd x j) (rd wtab (wo + ti + (j - a1))) (rd winvtab (wo' + ti + (j - a1)))
      else rd x j

/-- a vector functor call: four whole-register loads, the kernel, two whole-register stores -/
def vbf (kernel : Simd.Reg → Simd.Reg → Simd.Reg → Simd.Reg → Simd.Reg × Simd.Reg) (L wo wo' : Nat) (x : List Nat)
    (a0 a1 ti : Nat) : List Nat :=
  wrv (wrv x a0 (kernel (rdv L x a0) (rdv L x a1) (rdv L winvtab (wo' + ti)) (rdv L wtab (wo + ti))).1) a1
    (kernel (rdv L x a0) (rdv L x a1) (rdv L winvtab (wo' + ti)) (rdv L wtab (wo + ti))).2

variable {w p wtab winvtab}

theorem Wd_of_pointwise {x z : List Nat} (hx : Wd w x) {P Q : Nat → Prop} [DecidablePred P] [DecidablePred Q] {f g : Nat → Nat}
    (hf : ∀ j, f j < 2 ^ w) (hg : ∀ j, g j < 2 ^ w) (h : ∀ j, rd z j = if P j then f j else if Q j then g j else rd x j) : Wd w z := by
  intro j
  rw [h]
  split
  · exact hf j
  · split
    · exact hg j
    · exact hx j

theorem vbf_spec {kernel : Simd.Reg → Simd.Reg → Simd.Reg → Simd.Reg → Simd.Reg × Simd.Reg} {L : Nat}
    (hk : Simd.BodyOK w p L kernel) (hwi : Wd w winvtab) (wo wo' : Nat) :
    StepSpec w p wtab winvtab wo wo' L (vbf wtab winvtab kernel L wo wo') := by
  intro x a0 a1 ti hx h01 h1
  have e := hk (rdv L x a0) (rdv L x a1) (rdv L winvtab (wo' + ti)) (rdv L wtab (wo + ti)) (length_rdv ..) (length_rdv ..)
    (length_rdv ..) (length_rdv ..) (mem_rdv_lt hwi _ _)
  have lh := (hiList_spec w p L (rdv L x a0) (rdv L x a1) (rdv L wtab (wo + ti)) (rdv L winvtab (wo' + ti)) (length_rdv ..)
    (length_rdv ..) (length_rdv ..) (length_rdv ..))
  have ll : (List.zipWith (bflyLo w p) (rdv L x a0) (rdv L x a1)).length = L := by simp
  have key : ∀ j, rd (vbf wtab winvtab kernel L wo wo' x a0 a1 ti) j =
      if a0 ≤ j ∧ j < a0 + L then bflyLo w p (rd x j) (rd x (j + (a1 - a0)))
      else if a1 ≤ j ∧ j < a1 + L then
        bflyHi w p (rd x (j - (a1 - a0))) (rd x j) (rd wtab (wo + ti + (j - a1))) (rd winvtab (wo' + ti + (j - a1)))
      else rd x j := by
    intro j
    unfold vbf
    rw [e]
    simp only
    rw [rd_wrv _ _ _ _ (by rw [length_wrv, lh.1]; exact h1), rd_wrv _ _ _ _ (by rw [ll]; omega), ll, lh.1]
    by_cases c1 : a1 ≤ j ∧ j < a1 + L
    · rw [if_pos c1, if_neg (by omega), if_pos c1, lh.2 _ (by omega), getD_rdv _ _ (by omega), getD_rdv _ _ (by omega),
        getD_rdv _ _ (by omega), getD_rdv _ _ (by omega), show a0 + (j - a1) = j - (a1 - a0) by omega,
        show a1 + (j - a1) = j by omega]
    · rw [if_neg c1]
      by_cases c0 : a0 ≤ j ∧ j < a0 + L
      · rw [if_pos c0, if_pos c0, getD_zipWith_bflyLo _ _ _ _ _ (by rw [length_rdv]; omega) (by rw [length_rdv]; omega),
          getD_rdv _ _ (by omega), getD_rdv _ _ (by omega), show a0 + (j - a0) = j by omega,
          show a1 + (j - a0) = j + (a1 - a0) by omega]
      · rw [if_neg c0, if_neg c0, if_neg c1]
  refine ⟨by simp [vbf], Wd_of_pointwise hx (fun _ => bflyLo_lt _ _ _ _) (fun _ => bflyHi_lt _ _ _ _ _ _) key, key⟩

/-- the scalar functor call (`NttLoopAstEq.bf`) is a step on one cell -/
theorem bf_step {body : Nat → Nat → Nat → Nat → Nat → Nat × Nat} (hb : BodyOK body w p) (hwt : Wd w wtab) (hwi : Wd w winvtab)
    (wo wo' : Nat) : StepSpec w p wtab winvtab wo wo' 1 (fun x a0 a1 ti => bf body p wtab winvtab wo wo' x a0 a1 ti) := by
  intro x a0 a1 ti hx h01 h1
  obtain ⟨l, wd, r⟩ := bf_spec hb hwt hwi hx (a0 := a0) (a1 := a1) (by omega) (by omega) (by omega) wo wo' ti
  refine ⟨l, wd, ?_⟩
  intro j
  rw [r]
  by_cases c0 : j = a0
  · subst c0
    rw [if_pos rfl, if_pos (show j ≤ j ∧ j < j + 1 by omega), show j + (a1 - j) = a1 by omega]
  · rw [if_neg c0, if_neg (show ¬(a0 ≤ j ∧ j < a0 + 1) by omega)]
    by_cases c1 : j = a1
    · subst c1
      rw [if_pos rfl, if_pos (show j ≤ j ∧ j < j + 1 by omega), show j - (j - a0) = a0 by omega, Nat.sub_self, Nat.add_zero,
        Nat.add_zero]
    · rw [if_neg c1, if_neg (show ¬(a1 ≤ j ∧ j < a1 + 1) by omega)]

/-! ### a block `[B, B + 2h)`: the first `c` cells of both halves are done -/

def InvP (w p : Nat) (wtab winvtab : List Nat) (h wo wo' B : Nat) (y : List Nat) (c : Nat) (z : List Nat) : Prop :=
  z.length = y.length ∧ Wd w z ∧
  (∀ i, i < h → rd z (B + i) = if i < c then bflyLo w p (rd y (B + i)) (rd y (B + i + h)) else rd y (B + i)) ∧
  (∀ i, i < h → rd z (B + h + i) =
      if i < c then bflyHi w p (rd y (B + i)) (rd y (B + i + h)) (rd wtab (wo + i)) (rd winvtab (wo' + i)) else rd y (B + h + i)) ∧
  (∀ j, j < B ∨ B + 2 * h ≤ j → rd z j = rd y j)

theorem InvP_zero {h wo wo' B : Nat} {y : List Nat} (hy : Wd w y) : InvP w p wtab winvtab h wo wo' B y 0 y :=
  ⟨rfl, hy, fun i _ => by rw [if_neg (by omega)], fun i _ => by rw [if_neg (by omega)], fun _ _ => rfl⟩

/-- one functor call at the cells `c … c+L-1` of both halves -/
theorem InvP_step {L wo wo' : Nat} {step : List Nat → Nat → Nat → Nat → List Nat} (hs : StepSpec w p wtab winvtab wo wo' L step)
    {h B c : Nat} {y z : List Nat} (hz : InvP w p wtab winvtab h wo wo' B y c z) (hc : c + L ≤ h) (hB : B + 2 * h ≤ y.length) :
    InvP w p wtab winvtab h wo wo' B y (c + L) (step z (B + c) (B + c + h) c) := by
  obtain ⟨zl, zw, zlo, zhi, zout⟩ := hz
  obtain ⟨sl, sw, sr⟩ := hs z (B + c) (B + c + h) c zw (by omega) (by omega)
  have d : B + c + h - (B + c) = h := by omega
  refine ⟨by rw [sl, zl], sw, ?_, ?_, ?_⟩
  · intro i hi
    rw [sr, d]
    by_cases ci : c ≤ i ∧ i < c + L
    · have e1 := zlo i hi
      have e2 := zhi i hi
      rw [if_neg (by omega)] at e1 e2
      rw [if_pos (by omega), if_pos (by omega), e1, show B + i + h = B + h + i by omega, e2]
    · rw [if_neg (by omega), if_neg (by omega), zlo i hi]
      by_cases c' : i < c
      · rw [if_pos c', if_pos (by omega)]
      · rw [if_neg c', if_neg (by omega)]
  · intro i hi
    rw [sr, d]
    by_cases ci : c ≤ i ∧ i < c + L
    · have e1 := zlo i hi
      have e2 := zhi i hi
      rw [if_neg (by omega)] at e1 e2
      rw [if_neg (by omega), if_pos (by omega), if_pos (by omega), show B + h + i - h = B + i by omega, e1, e2,
        show B + i + h = B + h + i by omega, show wo + c + (B + h + i - (B + c + h)) = wo + i by omega,
        show wo' + c + (B + h + i - (B + c + h)) = wo' + i by omega]
    · rw [if_neg (by omega), if_neg (by omega), zhi i hi]
      by_cases c' : i < c
      · rw [if_pos c', if_pos (by omega)]
      · rw [if_neg c', if_neg (by omega)]
  · intro j hj
    rw [sr, if_neg (by omega), if_neg (by omega)]
    exact zout j hj

/-- `for (i = 0; i < bound; i += L) body(&x[B + i], &x[B + i + h], &winvtab[i], &wtab[i])` -/
def chunkC (step : List Nat → Nat → Nat → Nat → List Nat) (L h bound B : Nat) (x : List Nat) : List Nat :=
  forRange 0 bound L (fun i x => step x (B + i) (B + i + h) i) x

theorem chunkC_spec {L wo wo' : Nat} {step : List Nat → Nat → Nat → Nat → List Nat} (hs : StepSpec w p wtab winvtab wo wo' L step)
    {h bound B : Nat} {y : List Nat} (hy : Wd w y) (hT : L * tripCount 0 bound L ≤ h) (hB : B + 2 * h ≤ y.length) :
    InvP w p wtab winvtab h wo wo' B y (L * tripCount 0 bound L) (chunkC step L h bound B y) := by
  unfold chunkC
  apply forRange_inv (fun t z => InvP w p wtab winvtab h wo wo' B y (L * t) z)
  · rw [Nat.mul_zero]; exact InvP_zero hy
  · intro t z ht hz
    have h1 : L * (t + 1) ≤ L * tripCount 0 bound L := Nat.mul_le_mul_left L ht
    rw [Nat.mul_succ] at h1
    have := InvP_step hs hz (by omega) hB
    rw [Nat.mul_succ, Nat.zero_add]
    exact this

theorem tripCount_mul {L : Nat} (hL : 0 < L) (n : Nat) : tripCount 0 (L * n) L = n := by
  unfold tripCount
  rw [Nat.sub_zero, Nat.mul_add_div hL, Nat.div_eq_of_lt (by omega), Nat.add_zero]

/-- what a finished block looks like (the conclusion of `NttLoopAstEq.innerC_spec`, half-width `h`) -/
def InnerSpec (w p : Nat) (wtab winvtab : List Nat) (h wo wo' : Nat) (inner : Nat → List Nat → List Nat) : Prop :=
  ∀ (B : Nat) (y : List Nat), Wd w y → B + 2 * h ≤ y.length →
    (inner B y).length = y.length ∧ Wd w (inner B y) ∧
    (∀ i, i < h → rd (inner B y) (B + i) = bflyLo w p (rd y (B + i)) (rd y (B + i + h))) ∧
    (∀ i, i < h → rd (inner B y) (B + h + i) =
        bflyHi w p (rd y (B + i)) (rd y (B + i + h)) (rd wtab (wo + i)) (rd winvtab (wo' + i))) ∧
    (∀ j, j < B ∨ B + 2 * h ≤ j → rd (inner B y) j = rd y j)

theorem InvP_full {h wo wo' B : Nat} {y z : List Nat} (hz : InvP w p wtab winvtab h wo wo' B y h z) :
    z.length = y.length ∧ Wd w z ∧
    (∀ i, i < h → rd z (B + i) = bflyLo w p (rd y (B + i)) (rd y (B + i + h))) ∧
    (∀ i, i < h → rd z (B + h + i) = bflyHi w p (rd y (B + i)) (rd y (B + i + h)) (rd wtab (wo + i)) (rd winvtab (wo' + i))) ∧
    (∀ j, j < B ∨ B + 2 * h ≤ j → rd z j = rd y j) := by
  obtain ⟨a, b, c, d, e⟩ := hz
  exact ⟨a, b, fun i hi => by rw [c i hi, if_pos hi], fun i hi => by rw [d i hi, if_pos hi], e⟩

/-- the SSE loop / the scalar loop of the last layer: `n` calls on `L` cells each cover the half block -/
theorem inner_full {L wo wo' : Nat} {step : List Nat → Nat → Nat → Nat → List Nat} (hs : StepSpec w p wtab winvtab wo wo' L step)
    (hL : 0 < L) (n : Nat) : InnerSpec w p wtab winvtab (L * n) wo wo' (fun B y => chunkC step L (L * n) (L * n) B y) := by
  intro B y hy hB
  have := chunkC_spec hs (h := L * n) (bound := L * n) hy (by rw [tripCount_mul hL]) hB
  rw [tripCount_mul hL] at this
  exact InvP_full this

/-- the AVX2 block: `Navx2 = (h / La) * La`, AVX2 calls up to `Navx2`, then `if (Navx2 != h)` one SSE call at `Navx2` -/
def innerA (stepA stepS : List Nat → Nat → Nat → Nat → List Nat) (La h B : Nat) (x : List Nat) : List Nat :=
  if h / La * La ≠ h then
    stepS (chunkC stepA La h (h / La * La) B x) (B + h / La * La) (B + h / La * La + h) (h / La * La)
  else chunkC stepA La h (h / La * La) B x

theorem innerA_full {La Ls wo wo' : Nat} {stepA stepS : List Nat → Nat → Nat → Nat → List Nat}
    (hA : StepSpec w p wtab winvtab wo wo' La stepA) (hS : StepSpec w p wtab winvtab wo wo' Ls stepS) (hLa : 0 < La) {h : Nat}
    (hh : h / La * La = h ∨ h / La * La + Ls = h) : InnerSpec w p wtab winvtab h wo wo' (innerA stepA stepS La h) := by
  intro B y hy hB
  have hle : La * (h / La) ≤ h := Nat.mul_div_le h La
  have hc := chunkC_spec hA (h := h) (bound := h / La * La) hy
    (by rw [Nat.mul_comm (h / La) La, tripCount_mul hLa]; exact hle) hB
  rw [Nat.mul_comm (h / La) La, tripCount_mul hLa] at hc
  unfold innerA
  by_cases c : h / La * La ≠ h
  · rw [if_pos c]
    have e : h / La * La + Ls = h := by rcases hh with h1 | h1; exact absurd h1 c; exact h1
    rw [Nat.mul_comm (h / La) La] at e ⊢
    have := InvP_step hS hc (by omega) hB
    rw [e] at this
    exact InvP_full this
  · rw [if_neg c]
    have e : La * (h / La) = h := by rw [Nat.mul_comm]; exact Decidable.not_not.mp c
    rw [Nat.mul_comm (h / La) La]
    rw [e] at hc ⊢
    exact InvP_full hc

end step


/-! ### the blocks of one layer, for any inner loop that finishes a block -/

section outer
variable {w p : Nat} {wtab winvtab : List Nat}

/-- `for (r = 0; r < M; r++) <inner loop on the block starting at N * r>`, `N = 2 * (2 * h')` -/
def layerV (inner : Nat → List Nat → List Nat) (h' M : Nat) (x : List Nat) : List Nat :=
  forRange 0 M 1 (fun r x => inner (2 * (2 * h') * r) x) x

theorem layerV_spec {inner : Nat → List Nat → List Nat} {h' wo wo' : Nat}
    (hi : InnerSpec w p wtab winvtab (2 * h') wo wo' inner) (M : Nat) {mem : List Nat}
    (hm : Wd w mem) (hl : 2 * (2 * h') * M ≤ mem.length) :
    OuterInv w p wtab winvtab h' M wo wo' mem M (layerV inner h' M mem) := by
  have h := forRange_inv (OuterInv w p wtab winvtab h' M wo wo' mem) 0 M 1
    (fun r x => inner (2 * (2 * h') * r) x) mem
    ⟨rfl, hm, fun q i _ _ => by rw [if_neg (by omega)], fun q i _ _ => by rw [if_neg (by omega)], fun j _ => rfl⟩ ?_
  · rw [tripCount_one] at h; exact h
  · intro r z hr ⟨zl, zw, zlo, zhi, zout⟩
    rw [tripCount_one] at hr
    simp only [Nat.zero_add, Nat.one_mul]
    have hblk : 2 * (2 * h') * r + 2 * (2 * h') ≤ 2 * (2 * h') * M := by
      have := Nat.mul_le_mul_left (2 * (2 * h')) (show r + 1 ≤ M by omega)
      rw [Nat.mul_succ] at this; exact this
    obtain ⟨a, b, c, d, e⟩ := hi (2 * (2 * h') * r) z zw (by omega)
    have sep : ∀ q, q ≠ r → 2 * (2 * h') * q + 2 * (2 * h') ≤ 2 * (2 * h') * r ∨ 2 * (2 * h') * r + 2 * (2 * h') ≤ 2 * (2 * h') * q := by
      intro q hq
      rcases Nat.lt_or_gt_of_ne hq with h1 | h1
      · left
        have := Nat.mul_le_mul_left (2 * (2 * h')) (show q + 1 ≤ r by omega)
        rw [Nat.mul_succ] at this; exact this
      · right
        have := Nat.mul_le_mul_left (2 * (2 * h')) (show r + 1 ≤ q by omega)
        rw [Nat.mul_succ] at this; exact this
    refine ⟨by rw [a, zl], b, ?_, ?_, ?_⟩
    · intro q i hq hi
      by_cases hqr : q = r
      · subst hqr
        rw [c i hi, if_pos (by omega), zlo q i hq hi, if_neg (by omega)]
        have := zhi q i hq hi
        rw [if_neg (by omega), show 2 * (2 * h') * q + 2 * h' + i = 2 * (2 * h') * q + i + 2 * h' by omega] at this
        rw [this]
      · rw [e _ (by have := sep q hqr; omega), zlo q i hq hi]
        by_cases c' : q < r
        · rw [if_pos c', if_pos (by omega)]
        · rw [if_neg c', if_neg (by omega)]
    · intro q i hq hi
      by_cases hqr : q = r
      · subst hqr
        rw [d i hi, if_pos (by omega), zlo q i hq hi, if_neg (by omega)]
        have := zhi q i hq hi
        rw [if_neg (by omega), show 2 * (2 * h') * q + 2 * h' + i = 2 * (2 * h') * q + i + 2 * h' by omega] at this
        rw [this]
      · rw [e _ (by have := sep q hqr; omega), zhi q i hq hi]
        by_cases c' : q < r
        · rw [if_pos c', if_pos (by omega)]
        · rw [if_neg c', if_neg (by omega)]
    · intro j hj
      rw [e j (by omega), zout j hj]

/-- one layer of the index-level code = `mapBlocks … layerBlock` of the hand model (on the first `N * M` words) -/
theorem layerV_eq {inner : Nat → List Nat → List Nat} {h' wo : Nat} (hi : InnerSpec w p wtab winvtab (2 * h') wo wo inner) (M : Nat)
    {x t : List Nat} (hx : x.length = 2 * (2 * h') * M) (hh : 0 < h') (hxw : Wd w (x ++ t)) (hw : wo + 2 * h' ≤ wtab.length)
    (hw' : wo + 2 * h' ≤ winvtab.length) :
    layerV inner h' M (x ++ t) =
      mapBlocks (2 * (2 * h')) (layerBlock w p ((wtab.drop wo).take (2 * h')) ((winvtab.drop wo).take (2 * h'))) M x ++ t ∧
    Wd w (layerV inner h' M (x ++ t)) := by
  obtain ⟨zl, zwd, zlo, zhi, zout⟩ := layerV_spec hi M hxw (by rw [List.length_append]; omega)
  refine ⟨?_, zwd⟩
  obtain ⟨ml, mg⟩ := mapBlocks_layer_getD w p (2 * h') M wo wtab winvtab x (by omega) hx hw hw'
  apply ext_rd (by rw [zl, List.length_append, List.length_append, ml, hx])
  intro j _
  by_cases c : j < 2 * (2 * h') * M
  · rw [rd_append_left (by omega)]
    have e := mg j c
    unfold layerPt at e
    show _ = List.getD _ j 0
    rw [e]
    obtain ⟨q, r, hr, rfl⟩ : ∃ q r, r < 2 * (2 * h') ∧ j = 2 * (2 * h') * q + r :=
      ⟨j / (2 * (2 * h')), j % (2 * (2 * h')), Nat.mod_lt _ (by omega), (Nat.div_add_mod j _).symm⟩
    have hq : q < M := by
      apply Nat.lt_of_not_le
      intro hle
      have := Nat.mul_le_mul_left (2 * (2 * h')) hle
      omega
    have hblk : 2 * (2 * h') * q + 2 * (2 * h') ≤ 2 * (2 * h') * M := by
      have := Nat.mul_le_mul_left (2 * (2 * h')) (show q + 1 ≤ M by omega)
      rw [Nat.mul_succ] at this; exact this
    have rdx : ∀ i, i < x.length → rd (x ++ t) i = x.getD i 0 := fun i hi => rd_append_left hi
    rw [Nat.mul_add_mod, Nat.mod_eq_of_lt hr, show 2 * (2 * h') / 2 = 2 * h' by omega]
    by_cases cr : r < 2 * h'
    · rw [if_pos cr, zlo q r hq cr, if_pos hq, rdx _ (by omega), rdx _ (by omega)]
    · obtain ⟨i, rfl⟩ : ∃ i, r = 2 * h' + i := ⟨r - 2 * h', by omega⟩
      rw [if_neg cr, show 2 * (2 * h') * q + (2 * h' + i) = 2 * (2 * h') * q + 2 * h' + i by omega, zhi q i hq (by omega),
        if_pos hq, rdx _ (by omega), rdx _ (by omega)]
      simp only [rd]
      rw [show 2 * (2 * h') * q + 2 * h' + i - 2 * h' = 2 * (2 * h') * q + i by omega,
        show 2 * (2 * h') * q + i + 2 * h' = 2 * (2 * h') * q + 2 * h' + i by omega, show 2 * h' + i - 2 * h' = i by omega]
  · rw [zout j (by omega), rd_append_right (by omega), rd_append_right (by omega), ml, hx]

/-! ### all layers, for any layer step that computes the model's layer -/

/-- the layer step at layer `w0` (blocks of `2^(k-w0)` words) computes `mapBlocks … layerBlock` and advances the table offsets -/
def LayerOK (w p : Nat) (wtab winvtab : List Nat) (k : Nat) (t : List Nat)
    (step : Nat → List Nat × Nat × Nat → List Nat × Nat × Nat) (w0 : Nat) : Prop :=
  ∀ (x : List Nat) (wo : Nat), x.length = 2 ^ k → Wd w (x ++ t) → wo + 2 * 2 ^ (k - w0 - 2) ≤ wtab.length →
    wo + 2 * 2 ^ (k - w0 - 2) ≤ winvtab.length →
    step w0 (x ++ t, wo, wo) =
      (mapBlocks (2 * (2 * 2 ^ (k - w0 - 2))) (layerBlock w p ((wtab.drop wo).take (2 * 2 ^ (k - w0 - 2)))
        ((winvtab.drop wo).take (2 * 2 ^ (k - w0 - 2)))) (2 ^ w0) x ++ t, wo + 2 * 2 ^ (k - w0 - 2), wo + 2 * 2 ^ (k - w0 - 2)) ∧
    Wd w (mapBlocks (2 * (2 * 2 ^ (k - w0 - 2))) (layerBlock w p ((wtab.drop wo).take (2 * 2 ^ (k - w0 - 2)))
        ((winvtab.drop wo).take (2 * 2 ^ (k - w0 - 2)))) (2 ^ w0) x ++ t)

theorem layers_gen {step : Nat → List Nat × Nat × Nat → List Nat × Nat × Nat} {k : Nat} (t : List Nat)
    (hs : ∀ w0, w0 + 3 ≤ k → LayerOK w p wtab winvtab k t step w0) :
    ∀ (j w0 : Nat) (x : List Nat) (wo : Nat), w0 + j + 2 = k → x.length = 2 ^ k → Wd w (x ++ t) →
      wo + 2 ^ (k - w0) ≤ wtab.length + 4 → wo + 2 ^ (k - w0) ≤ winvtab.length + 4 →
      (List.range j).foldl (fun st i => step (w0 + i) st) (x ++ t, wo, wo) =
        ((nttLoop w p j (2 ^ (k - w0)) (2 ^ w0) (wtab.drop wo) (winvtab.drop wo) x).1 ++ t,
          wo + (2 ^ (k - w0) - 4), wo + (2 ^ (k - w0) - 4)) := by
  intro j
  induction j with
  | zero =>
    intro w0 x wo hj hx hxw _ _
    have : k - w0 = 2 := by omega
    rw [this]
    rfl
  | succ j ih =>
    intro w0 x wo hj hx hxw hl hl'
    have hsplit : 2 ^ (k - w0) = 2 * (2 * 2 ^ (k - w0 - 2)) := pow_split (by omega)
    have hhalf : 2 ^ (k - (w0 + 1)) = 2 * 2 ^ (k - w0 - 2) := by
      obtain ⟨m, hm⟩ : ∃ m, k - w0 = m + 2 := ⟨k - w0 - 2, by omega⟩
      rw [show k - (w0 + 1) = m + 1 by omega, hm, Nat.add_sub_cancel, Nat.pow_succ]; omega
    have hH : 2 ≤ 2 ^ (k - w0 - 2) := by
      have := Nat.pow_le_pow_right (show 0 < 2 by omega) (show 1 ≤ k - w0 - 2 by omega); omega
    have hprod : 2 * (2 * 2 ^ (k - w0 - 2)) * 2 ^ w0 = 2 ^ k := by rw [← hsplit, pow_prod (by omega)]
    obtain ⟨e, wd1⟩ := hs w0 (by omega) x wo hx hxw (by omega) (by omega)
    rw [foldl_range_shift (fun i st => step i st), e, nttLoop_step, hsplit,
      show 2 * (2 * 2 ^ (k - w0 - 2)) / 2 = 2 * 2 ^ (k - w0 - 2) by omega]
    have hx' : x.length = 2 * (2 * 2 ^ (k - w0 - 2)) * 2 ^ w0 := by rw [hprod, hx]
    have l1 := (mapBlocks_layer_getD w p (2 * 2 ^ (k - w0 - 2)) (2 ^ w0) wo wtab winvtab x (by omega) hx' (by omega) (by omega)).1
    rw [hprod] at l1
    have := ih (w0 + 1) _ (wo + 2 * 2 ^ (k - w0 - 2)) (by omega) l1 wd1 (by rw [hhalf]; omega) (by rw [hhalf]; omega)
    rw [hhalf, Nat.pow_succ, Nat.mul_comm (2 ^ w0) 2] at this
    rw [List.drop_drop, List.drop_drop]
    have eo : wo + 2 * 2 ^ (k - w0 - 2) + (2 * 2 ^ (k - w0 - 2) - 4) = wo + (2 * (2 * 2 ^ (k - w0 - 2)) - 4) := by omega
    rw [eo] at this
    exact this

end outer


/-! ### the generic text of the generated functions (copied from `Generated/VLoopAst.lean`; kernels, scalar block, lane counts and
the `elt_count` constant abstracted) -/

abbrev Kern := Nat → Simd.Reg → Simd.Reg → Simd.Reg → Simd.Reg → Simd.Reg × Simd.Reg
abbrev St := List Nat × Nat × Nat

set_option linter.unusedVariables false in
/-- body of `for (size_t w = 0; w < J-1; w++)` of `ntt_loop_sse_unrolled::run` -/
def vlayerSseG (ks : Kern) (Ls ec : Nat) (degree p x_o : Nat) (wtab winvtab : List Nat) : Nat → St → St :=
  fun w st =>
        let x := st.1
        let wtab_o := st.2.1
        let winvtab_o := st.2.2
        let M := CSem.castSU 64 (CSemLoop.shlS32v 1 w)
        let N := CSem.shrU 64 degree w
        let st := CSemLoop.forRange (CSem.castSU 64 0) M 1 (fun r st =>
              let x := st
              let st := CSemLoop.forRange (CSem.castSU 64 0) (CSem.divU 64 N (CSem.castSU 64 2)) ec (fun i st =>
                    let x := st
                    let o := ks p (CSemVLoop.rdv Ls x (x_o + (CSem.addU 64 (CSem.mulU 64 N r) i))) (CSemVLoop.rdv Ls x (x_o + (CSem.addU 64 (CSem.addU 64 (CSem.mulU 64 N r) i) (CSem.divU 64 N (CSem.castSU 64 2))))) (CSemVLoop.rdv Ls winvtab (winvtab_o + i)) (CSemVLoop.rdv Ls wtab (wtab_o + i))
                    let x := CSemVLoop.wrv x (x_o + (CSem.addU 64 (CSem.mulU 64 N r) i)) o.1
                    let x := CSemVLoop.wrv x (x_o + (CSem.addU 64 (CSem.addU 64 (CSem.mulU 64 N r) i) (CSem.divU 64 N (CSem.castSU 64 2)))) o.2
                    x) x
              let x := st
              x) x
        let x := st
        let wtab_o := wtab_o + (CSem.divU 64 N (CSem.castSU 64 2))
        let winvtab_o := winvtab_o + (CSem.divU 64 N (CSem.castSU 64 2))
        (x, wtab_o, winvtab_o)

set_option linter.unusedVariables false in
/-- body of `for (size_t w = 0; w < J-1; w++)` of `ntt_loop_avx2_unrolled::run` -/
def vlayerAvx2G (ka ks : Kern) (La Ls ec : Nat) (degree p x_o : Nat) (wtab winvtab : List Nat) : Nat → St → St :=
  fun w st =>
        let x := st.1
        let wtab_o := st.2.1
        let winvtab_o := st.2.2
        let M := CSem.castSU 64 (CSemLoop.shlS32v 1 w)
        let N := CSem.shrU 64 degree w
        let st := CSemLoop.forRange (CSem.castSU 64 0) M 1 (fun r st =>
              let x := st
              let Navx2 := CSem.mulU 64 (CSem.divU 64 (CSem.divU 64 N (CSem.castSU 64 2)) ec) ec
              let st := CSemLoop.forRange (CSem.castSU 64 0) Navx2 ec (fun i st =>
                    let x := st
                    let o := ka p (CSemVLoop.rdv La x (x_o + (CSem.addU 64 (CSem.mulU 64 N r) i))) (CSemVLoop.rdv La x (x_o + (CSem.addU 64 (CSem.addU 64 (CSem.mulU 64 N r) i) (CSem.divU 64 N (CSem.castSU 64 2))))) (CSemVLoop.rdv La winvtab (winvtab_o + i)) (CSemVLoop.rdv La wtab (wtab_o + i))
                    let x := CSemVLoop.wrv x (x_o + (CSem.addU 64 (CSem.mulU 64 N r) i)) o.1
                    let x := CSemVLoop.wrv x (x_o + (CSem.addU 64 (CSem.addU 64 (CSem.mulU 64 N r) i) (CSem.divU 64 N (CSem.castSU 64 2)))) o.2
                    x) x
              let x := st
              let st := if CSem.neU Navx2 (CSem.divU 64 N (CSem.castSU 64 2)) then
                    let i := Navx2
                    let o := ks p (CSemVLoop.rdv Ls x (x_o + (CSem.addU 64 (CSem.mulU 64 N r) i))) (CSemVLoop.rdv Ls x (x_o + (CSem.addU 64 (CSem.addU 64 (CSem.mulU 64 N r) i) (CSem.divU 64 N (CSem.castSU 64 2))))) (CSemVLoop.rdv Ls winvtab (winvtab_o + i)) (CSemVLoop.rdv Ls wtab (wtab_o + i))
                    let x := CSemVLoop.wrv x (x_o + (CSem.addU 64 (CSem.mulU 64 N r) i)) o.1
                    let x := CSemVLoop.wrv x (x_o + (CSem.addU 64 (CSem.addU 64 (CSem.mulU 64 N r) i) (CSem.divU 64 N (CSem.castSU 64 2)))) o.2
                    x
                  else x
              let x := st
              x) x
        let x := st
        let wtab_o := wtab_o + (CSem.divU 64 N (CSem.castSU 64 2))
        let winvtab_o := winvtab_o + (CSem.divU 64 N (CSem.castSU 64 2))
        (x, wtab_o, winvtab_o)

set_option linter.unusedVariables false in
/-- the layer `w = J-1` of both vector loops: the scalar functor, one call per iteration -/
def slayerG (body : Nat → Nat → Nat → Nat → Nat → Nat × Nat) (degree p x_o : Nat) (wtab winvtab : List Nat) : Nat → St → St :=
  fun w st =>
  let x := st.1
  let wtab_o := st.2.1
  let winvtab_o := st.2.2
  let M := CSem.castSU 64 (CSemLoop.shlS32v 1 w)
  let N := CSem.shrU 64 degree w
  let st := CSemLoop.forRange (CSem.castSU 64 0) M 1 (fun r st =>
        let x := st
        let st := CSemLoop.forRange (CSem.castSU 64 0) (CSem.divU 64 N (CSem.castSU 64 2)) 1 (fun i st =>
              let x := st
              let o := body p (CSemLoop.rd x (x_o + (CSem.addU 64 (CSem.mulU 64 N r) i) + 0)) (CSemLoop.rd x (x_o + (CSem.addU 64 (CSem.addU 64 (CSem.mulU 64 N r) i) (CSem.divU 64 N (CSem.castSU 64 2))) + 0)) (CSemLoop.rd wtab (wtab_o + i + 0)) (CSemLoop.rd winvtab (winvtab_o + i + 0))
              let x := CSemLoop.wr x (x_o + (CSem.addU 64 (CSem.mulU 64 N r) i) + 0) o.1
              let x := CSemLoop.wr x (x_o + (CSem.addU 64 (CSem.addU 64 (CSem.mulU 64 N r) i) (CSem.divU 64 N (CSem.castSU 64 2))) + 0) o.2
              x) x
        let x := st
        x) x
  let x := st
  let wtab_o := wtab_o + (CSem.divU 64 N (CSem.castSU 64 2))
  let winvtab_o := winvtab_o + (CSem.divU 64 N (CSem.castSU 64 2))
  (x, wtab_o, winvtab_o)

/-- `run`: the vector layers `w < J-1` (`vstep`), the scalar layer `w = J-1`, `return 1<<J` -/
def vrunG (vstep : Nat → Nat → Nat → List Nat → List Nat → Nat → St → St) (body : Nat → Nat → Nat → Nat → Nat → Nat × Nat)
    (degree : Nat) (p : Nat) (x : List Nat) (x_o : Nat) (wtab : List Nat) (wtab_o : Nat) (winvtab : List Nat) (winvtab_o : Nat) :
    List Nat × Nat × Nat × Nat :=
  let J := CSem.subU 64 (Gen.NttLoop.static_log2 degree) (CSem.castSU 64 2)
  let st := CSemLoop.forRange (CSem.castSU 64 0) (CSem.subU 64 J (CSem.castSU 64 1)) 1 (vstep degree p x_o wtab winvtab)
    (x, wtab_o, winvtab_o)
  let st' := slayerG body degree p x_o wtab winvtab (CSem.subU 64 J (CSem.castSU 64 1)) st
  (st'.1, st'.2.1, st'.2.2, CSem.castSU 64 (CSemLoop.shlS32v 1 J))

def vrunSseG (ks : Kern) (body : Nat → Nat → Nat → Nat → Nat → Nat × Nat) (Ls ec : Nat) :=
  vrunG (vlayerSseG ks Ls ec) body
def vrunAvx2G (ka ks : Kern) (body : Nat → Nat → Nat → Nat → Nat → Nat × Nat) (La Ls ec : Nat) :=
  vrunG (vlayerAvx2G ka ks La Ls ec) body

/-! ### (1) the generated functions are the generic text applied to their kernels, block and constants (`rfl`: any change of the
source text that changes the translated loop structure breaks these) -/

/-- `simd::sse::elt_count<T>::value = 16/sizeof(T)`, `simd::avx2::elt_count<T>::value = 32/sizeof(T)` as translated -/
def ecSse (sz : Nat) : Nat := CSem.divU 64 (CSem.castSU 64 16) sz
def ecAvx2 (sz : Nat) : Nat := CSem.divU 64 (CSem.castSU 64 32) sz

theorem sse_run_u16_shape : Gen.ntt_loop_sse_run_u16 = vrunSseG GenSimd.sse_bfly_u16 Gen.ntt_body_u16 8 (ecSse 2) := rfl
theorem sse_run_u32_shape : Gen.ntt_loop_sse_run_u32 = vrunSseG GenSimd.sse_bfly_u32 Gen.ntt_body_u32 4 (ecSse 4) := rfl
theorem avx2_run_u16_shape :
    Gen.ntt_loop_avx2_run_u16 = vrunAvx2G GenSimd.avx2_bfly_u16 GenSimd.sse_bfly_u16 Gen.ntt_body_u16 16 8 (ecAvx2 2) := rfl
theorem avx2_run_u32_shape :
    Gen.ntt_loop_avx2_run_u32 = vrunAvx2G GenSimd.avx2_bfly_u32 GenSimd.sse_bfly_u32 Gen.ntt_body_u32 8 4 (ecAvx2 4) := rfl
theorem ntt_sse_u16_shape : Gen.ntt_sse_u16 = nttG Gen.ntt_loop_sse_run_u16 Gen.ntt_deg2_u16 Gen.ntt_last2_u16 Gen.ntt_final_u16 := rfl
theorem ntt_sse_u32_shape : Gen.ntt_sse_u32 = nttG Gen.ntt_loop_sse_run_u32 Gen.ntt_deg2_u32 Gen.ntt_last2_u32 Gen.ntt_final_u32 := rfl
theorem ntt_avx2_u16_shape : Gen.ntt_avx2_u16 = nttG Gen.ntt_loop_avx2_run_u16 Gen.ntt_deg2_u16 Gen.ntt_last2_u16 Gen.ntt_final_u16 := rfl
theorem ntt_avx2_u32_shape : Gen.ntt_avx2_u32 = nttG Gen.ntt_loop_avx2_run_u32 Gen.ntt_deg2_u32 Gen.ntt_last2_u32 Gen.ntt_final_u32 := rfl
/-- 64-bit limbs: `ntt_loop<simd::sse|avx2, poly, uint64_t>` inherits `ntt_loop<simd::serial, poly, T>::run`: the generated
`core::ntt` of the vector builds IS the generated scalar `core::ntt` -/
theorem ntt_sse_u64_eq : Gen.ntt_sse_u64 = Gen.ntt_u64 := rfl
theorem ntt_avx2_u64_eq : Gen.ntt_avx2_u64 = Gen.ntt_u64 := rfl

theorem ecSse_2 : ecSse 2 = 8 := by decide
theorem ecSse_4 : ecSse 4 = 4 := by decide
theorem ecAvx2_2 : ecAvx2 2 = 16 := by decide
theorem ecAvx2_4 : ecAvx2 4 = 8 := by decide


/-! ### (2) the size_t arithmetic of the generated layers is exact: one generated layer = `layerV` of its inner loop -/

section arith

theorem slayerG_eq (body : Nat → Nat → Nat → Nat → Nat → Nat × Nat) {k w0 : Nat} (hk : k ≤ 32) (hw : w0 + 3 ≤ k) (p : Nat)
    (wtab winvtab mem : List Nat) (wo wo' : Nat) :
    slayerG body (2 ^ k) p 0 wtab winvtab w0 (mem, wo, wo') =
      (layerV (fun B y => chunkC (fun x a0 a1 ti => bf body p wtab winvtab wo wo' x a0 a1 ti) 1 (2 * 2 ^ (k - w0 - 2))
          (2 * 2 ^ (k - w0 - 2)) B y) (2 ^ (k - w0 - 2)) (2 ^ w0) mem,
        wo + 2 * 2 ^ (k - w0 - 2), wo' + 2 * 2 ^ (k - w0 - 2)) := by
  have hM := shl_one (show w0 ≤ 30 by omega)
  have hN : shrU 64 (2 ^ k) w0 = 2 * (2 * 2 ^ (k - w0 - 2)) := by rw [shr_pow hk (by omega), pow_split (by omega)]
  have h32 := pow_le_32 hk
  have hNM : 2 * (2 * 2 ^ (k - w0 - 2)) * 2 ^ w0 = 2 ^ k := by rw [← pow_split (by omega), pow_prod (by omega)]
  generalize 2 ^ (k - w0 - 2) = H at *
  have hD : divU 64 (2 * (2 * H)) 2 = 2 * H := by
    rw [divU64 _ (by have := Nat.le_mul_of_pos_right (2 * (2 * H)) (Nat.two_pow_pos w0); omega)]; omega
  simp only [slayerG, hM, hN, c0, c2, hD, Nat.add_zero]
  refine Prod.ext ?_ rfl
  simp only
  unfold layerV
  apply forRange_congr
  intro r hr st
  rw [tripCount_one] at hr
  simp only [Nat.zero_add, Nat.one_mul]
  unfold chunkC
  apply forRange_congr
  intro t ht st
  rw [tripCount_one] at ht
  simp only [Nat.zero_add, Nat.one_mul]
  have hblk : 2 * (2 * H) * r + 2 * (2 * H) ≤ 2 * (2 * H) * 2 ^ w0 := by
    have := Nat.mul_le_mul_left (2 * (2 * H)) (show r + 1 ≤ 2 ^ w0 by omega)
    rw [Nat.mul_succ] at this; exact this
  have e0 : mulU 64 (2 * (2 * H)) r = 2 * (2 * H) * r := mulU64 (by omega)
  rw [e0]
  have e1 : addU 64 (2 * (2 * H) * r) t = 2 * (2 * H) * r + t := addU64 (by omega)
  rw [e1]
  have e4 : addU 64 (2 * (2 * H) * r + t) (2 * H) = 2 * (2 * H) * r + t + 2 * H := addU64 (by omega)
  rw [e4]
  rfl

theorem vlayerSseG_eq (ks : Kern) {Ls ec : Nat} (hec : ec = Ls) (hLs : 0 < Ls) {k w0 : Nat} (hk : k ≤ 32) (hw : w0 + 3 ≤ k)
    (n : Nat) (hn : 2 * 2 ^ (k - w0 - 2) = Ls * n) (p : Nat) (wtab winvtab mem : List Nat) (wo wo' : Nat) :
    vlayerSseG ks Ls ec (2 ^ k) p 0 wtab winvtab w0 (mem, wo, wo') =
      (layerV (fun B y => chunkC (vbf wtab winvtab (ks p) Ls wo wo') Ls (2 * 2 ^ (k - w0 - 2)) (2 * 2 ^ (k - w0 - 2)) B y)
          (2 ^ (k - w0 - 2)) (2 ^ w0) mem,
        wo + 2 * 2 ^ (k - w0 - 2), wo' + 2 * 2 ^ (k - w0 - 2)) := by
  subst hec
  have hM := shl_one (show w0 ≤ 30 by omega)
  have hN : shrU 64 (2 ^ k) w0 = 2 * (2 * 2 ^ (k - w0 - 2)) := by rw [shr_pow hk (by omega), pow_split (by omega)]
  have h32 := pow_le_32 hk
  have hNM : 2 * (2 * 2 ^ (k - w0 - 2)) * 2 ^ w0 = 2 ^ k := by rw [← pow_split (by omega), pow_prod (by omega)]
  generalize 2 ^ (k - w0 - 2) = H at *
  have hD : divU 64 (2 * (2 * H)) 2 = 2 * H := by
    rw [divU64 _ (by have := Nat.le_mul_of_pos_right (2 * (2 * H)) (Nat.two_pow_pos w0); omega)]; omega
  simp only [vlayerSseG, hM, hN, c0, c2, hD, Nat.zero_add]
  refine Prod.ext ?_ rfl
  simp only
  unfold layerV
  apply forRange_congr
  intro r hr st
  rw [tripCount_one] at hr
  simp only [Nat.zero_add, Nat.one_mul]
  unfold chunkC
  apply forRange_congr
  intro t ht st
  rw [hn, tripCount_mul hLs] at ht
  have hlt : ec * t < 2 * H := by rw [hn]; exact (Nat.mul_lt_mul_left hLs).2 ht
  simp only [Nat.zero_add]
  generalize ec * t = i at *
  have hblk : 2 * (2 * H) * r + 2 * (2 * H) ≤ 2 * (2 * H) * 2 ^ w0 := by
    have := Nat.mul_le_mul_left (2 * (2 * H)) (show r + 1 ≤ 2 ^ w0 by omega)
    rw [Nat.mul_succ] at this; exact this
  have e0 : mulU 64 (2 * (2 * H)) r = 2 * (2 * H) * r := mulU64 (by omega)
  rw [e0]
  have e1 : addU 64 (2 * (2 * H) * r) i = 2 * (2 * H) * r + i := addU64 (by omega)
  rw [e1]
  have e4 : addU 64 (2 * (2 * H) * r + i) (2 * H) = 2 * (2 * H) * r + i + 2 * H := addU64 (by omega)
  rw [e4]
  rfl

theorem vlayerAvx2G_eq (ka ks : Kern) {La Ls ec : Nat} (hec : ec = La) (hLa : 0 < La) {k w0 : Nat} (hk : k ≤ 32) (hw : w0 + 3 ≤ k)
    (p : Nat) (wtab winvtab mem : List Nat) (wo wo' : Nat) :
    vlayerAvx2G ka ks La Ls ec (2 ^ k) p 0 wtab winvtab w0 (mem, wo, wo') =
      (layerV (innerA (vbf wtab winvtab (ka p) La wo wo') (vbf wtab winvtab (ks p) Ls wo wo') La (2 * 2 ^ (k - w0 - 2)))
          (2 ^ (k - w0 - 2)) (2 ^ w0) mem,
        wo + 2 * 2 ^ (k - w0 - 2), wo' + 2 * 2 ^ (k - w0 - 2)) := by
  subst hec
  have hM := shl_one (show w0 ≤ 30 by omega)
  have hN : shrU 64 (2 ^ k) w0 = 2 * (2 * 2 ^ (k - w0 - 2)) := by rw [shr_pow hk (by omega), pow_split (by omega)]
  have h32 := pow_le_32 hk
  have hNM : 2 * (2 * 2 ^ (k - w0 - 2)) * 2 ^ w0 = 2 ^ k := by rw [← pow_split (by omega), pow_prod (by omega)]
  generalize 2 ^ (k - w0 - 2) = H at *
  have hH64 : 2 * (2 * H) < 2 ^ 64 := by have := Nat.le_mul_of_pos_right (2 * (2 * H)) (Nat.two_pow_pos w0); omega
  have hD : divU 64 (2 * (2 * H)) 2 = 2 * H := by rw [divU64 _ hH64]; omega
  have hle : 2 * H / ec * ec ≤ 2 * H := Nat.div_mul_le_self _ _
  have hNA : mulU 64 (divU 64 (2 * H) ec) ec = 2 * H / ec * ec := by
    rw [divU64 _ (by omega), mulU64 (by omega)]
  simp only [vlayerAvx2G, hM, hN, c0, c2, hD, hNA, Nat.zero_add]
  refine Prod.ext ?_ rfl
  simp only
  unfold layerV
  apply forRange_congr
  intro r hr st
  rw [tripCount_one] at hr
  simp only [Nat.zero_add, Nat.one_mul]
  have hblk : 2 * (2 * H) * r + 2 * (2 * H) ≤ 2 * (2 * H) * 2 ^ w0 := by
    have := Nat.mul_le_mul_left (2 * (2 * H)) (show r + 1 ≤ 2 ^ w0 by omega)
    rw [Nat.mul_succ] at this; exact this
  have e0 : mulU 64 (2 * (2 * H)) r = 2 * (2 * H) * r := mulU64 (by omega)
  simp only [e0]
  have hloop : ∀ st : List Nat,
      forRange 0 (2 * H / ec * ec) ec (fun i x =>
        wrv (wrv x (addU 64 (2 * (2 * H) * r) i)
          (ka p (rdv ec x (addU 64 (2 * (2 * H) * r) i)) (rdv ec x (addU 64 (addU 64 (2 * (2 * H) * r) i) (2 * H)))
            (rdv ec winvtab (wo' + i)) (rdv ec wtab (wo + i))).1) (addU 64 (addU 64 (2 * (2 * H) * r) i) (2 * H))
          (ka p (rdv ec x (addU 64 (2 * (2 * H) * r) i)) (rdv ec x (addU 64 (addU 64 (2 * (2 * H) * r) i) (2 * H)))
            (rdv ec winvtab (wo' + i)) (rdv ec wtab (wo + i))).2) st =
      chunkC (vbf wtab winvtab (ka p) ec wo wo') ec (2 * H) (2 * H / ec * ec) (2 * (2 * H) * r) st := by
    intro st
    unfold chunkC
    apply forRange_congr
    intro t ht st
    rw [Nat.mul_comm (2 * H / ec) ec, tripCount_mul hLa] at ht
    have hlt : ec * t < 2 * H := by
      have := (Nat.mul_lt_mul_left hLa).2 ht
      rw [Nat.mul_comm ec (2 * H / ec)] at this; omega
    simp only [Nat.zero_add]
    generalize ec * t = i at *
    have e1 : addU 64 (2 * (2 * H) * r) i = 2 * (2 * H) * r + i := addU64 (by omega)
    rw [e1]
    have e4 : addU 64 (2 * (2 * H) * r + i) (2 * H) = 2 * (2 * H) * r + i + 2 * H := addU64 (by omega)
    rw [e4]
    rfl
  rw [hloop]
  unfold innerA
  simp only [neU, decide_eq_true_eq]
  have e1 : addU 64 (2 * (2 * H) * r) (2 * H / ec * ec) = 2 * (2 * H) * r + 2 * H / ec * ec := addU64 (by omega)
  have e4 : addU 64 (2 * (2 * H) * r + 2 * H / ec * ec) (2 * H) = 2 * (2 * H) * r + 2 * H / ec * ec + 2 * H := addU64 (by omega)
  simp only [e1, e4]
  rfl

end arith


/-! ### (3) every generated layer computes the model's layer; all layers; `run`; `core::ntt` -/

section run
variable {w p : Nat} {wtab winvtab : List Nat}

theorem pow_eight {m : Nat} (hm : 2 ≤ m) : 2 * 2 ^ m = 8 * 2 ^ (m - 2) := by
  obtain ⟨q, rfl⟩ : ∃ q, m = q + 2 := ⟨m - 2, by omega⟩
  rw [Nat.add_sub_cancel, Nat.pow_succ, Nat.pow_succ]; omega

theorem layer_ok_of_inner {k w0 : Nat} (hw : w0 + 3 ≤ k) (t : List Nat) {inner : Nat → Nat → Nat → List Nat → List Nat}
    {step : Nat → St → St}
    (he : ∀ mem wo wo', step w0 (mem, wo, wo') =
      (layerV (inner wo wo') (2 ^ (k - w0 - 2)) (2 ^ w0) mem, wo + 2 * 2 ^ (k - w0 - 2), wo' + 2 * 2 ^ (k - w0 - 2)))
    (hi : ∀ wo, InnerSpec w p wtab winvtab (2 * 2 ^ (k - w0 - 2)) wo wo (inner wo wo)) :
    LayerOK w p wtab winvtab k t step w0 := by
  intro x wo hx hxw hl hl'
  have hprod : 2 * (2 * 2 ^ (k - w0 - 2)) * 2 ^ w0 = 2 ^ k := by rw [← pow_split (by omega), pow_prod (by omega)]
  obtain ⟨e, wd⟩ := layerV_eq (hi wo) (2 ^ w0) (by rw [hprod, hx]) (Nat.two_pow_pos _) hxw hl hl'
  rw [e] at wd
  rw [he, e]
  exact ⟨rfl, wd⟩

/-- the scalar layer (`w = J-1` of the vector loops) -/
theorem slayer_ok {body : Nat → Nat → Nat → Nat → Nat → Nat × Nat} (hb : BodyOK body w p) (hwt : Wd w wtab) (hwi : Wd w winvtab)
    {k : Nat} (hk : k ≤ 32) (t : List Nat) {w0 : Nat} (hw : w0 + 3 ≤ k) :
    LayerOK w p wtab winvtab k t (slayerG body (2 ^ k) p 0 wtab winvtab) w0 := by
  apply layer_ok_of_inner hw t (fun mem wo wo' => slayerG_eq body hk hw p wtab winvtab mem wo wo')
  intro wo
  have := inner_full (bf_step hb hwt hwi wo wo) (show 0 < 1 by omega) (2 * 2 ^ (k - w0 - 2))
  simp only [Nat.one_mul] at this
  exact this

/-- a vector layer of the SSE loop: blocks of at least 16 words, `Ls ∣ 8` lanes -/
theorem vlayerSse_ok {ks : Kern} {Ls ec : Nat} (hks : Simd.BodyOK w p Ls (ks p)) (hec : ec = Ls) (hLs : 0 < Ls) (hd : Ls ∣ 8)
    (hwi : Wd w winvtab) {k : Nat} (hk : k ≤ 32) (t : List Nat) {w0 : Nat} (hw : w0 + 4 ≤ k) :
    LayerOK w p wtab winvtab k t (vlayerSseG ks Ls ec (2 ^ k) p 0 wtab winvtab) w0 := by
  obtain ⟨c, hc⟩ := hd
  have hn : 2 * 2 ^ (k - w0 - 2) = Ls * (c * 2 ^ (k - w0 - 2 - 2)) := by
    rw [pow_eight (show 2 ≤ k - w0 - 2 by omega), hc, Nat.mul_assoc]
  apply layer_ok_of_inner (by omega) t
    (fun mem wo wo' => vlayerSseG_eq ks hec hLs hk (by omega) _ hn p wtab winvtab mem wo wo')
  intro wo
  rw [hn]
  exact inner_full (vbf_spec hks hwi wo wo) hLs _

/-- a vector layer of the AVX2 loop: AVX2 calls while a full register fits, one SSE call for a half block of `Ls` cells -/
theorem vlayerAvx2_ok {ka ks : Kern} {La Ls ec : Nat} (hka : Simd.BodyOK w p La (ka p)) (hks : Simd.BodyOK w p Ls (ks p))
    (hec : ec = La) (hLa : 0 < La) (hh : ∀ q, 8 * q / La * La = 8 * q ∨ 8 * q / La * La + Ls = 8 * q)
    (hwi : Wd w winvtab) {k : Nat} (hk : k ≤ 32) (t : List Nat) {w0 : Nat} (hw : w0 + 4 ≤ k) :
    LayerOK w p wtab winvtab k t (vlayerAvx2G ka ks La Ls ec (2 ^ k) p 0 wtab winvtab) w0 := by
  apply layer_ok_of_inner (by omega) t
    (fun mem wo wo' => vlayerAvx2G_eq ka ks hec hLa hk (by omega) p wtab winvtab mem wo wo')
  intro wo
  have h8 := pow_eight (show 2 ≤ k - w0 - 2 by omega)
  have := hh (2 ^ (k - w0 - 2 - 2))
  rw [← h8] at this
  exact innerA_full (vbf_spec hka hwi wo wo) (vbf_spec hks hwi wo wo) hLa this

/-- vector step while the blocks have at least 16 words, scalar step for the layer of 8-word blocks -/
def cstep (vstep sstep : Nat → St → St) (k : Nat) : Nat → St → St :=
  fun w0 st => if w0 + 4 ≤ k then vstep w0 st else sstep w0 st

/-- **`ntt_loop_sse_unrolled::run` / `ntt_loop_avx2_unrolled::run` = `nttLoop`** (the scalar model), degree `2^(k'+3)` -/
theorem vrunG_eq {vstep : Nat → Nat → Nat → List Nat → List Nat → Nat → St → St}
    {body : Nat → Nat → Nat → Nat → Nat → Nat × Nat} {k' : Nat} (hk : k' + 3 ≤ 32) (t : List Nat)
    (hv : ∀ w0, w0 + 4 ≤ k' + 3 → LayerOK w p wtab winvtab (k' + 3) t (vstep (2 ^ (k' + 3)) p 0 wtab winvtab) w0)
    (hs : LayerOK w p wtab winvtab (k' + 3) t (slayerG body (2 ^ (k' + 3)) p 0 wtab winvtab) k')
    {x : List Nat} (hx : x.length = 2 ^ (k' + 3)) (hxw : Wd w (x ++ t)) (hlw : 2 ^ (k' + 3) ≤ wtab.length + 4)
    (hlw' : 2 ^ (k' + 3) ≤ winvtab.length + 4) :
    vrunG vstep body (2 ^ (k' + 3)) p (x ++ t) 0 wtab 0 winvtab 0 =
      ((nttLoop w p (k' + 1) (2 ^ (k' + 3)) 1 wtab winvtab x).1 ++ t, 2 ^ (k' + 3) - 4, 2 ^ (k' + 3) - 4, 2 ^ (k' + 1)) := by
  have hJ : subU 64 (Gen.NttLoop.static_log2 (2 ^ (k' + 3))) (castSU 64 2) = k' + 1 := by
    rw [log2_pow _ hk, c2]; unfold subU; omega
  have hJ1 : subU 64 (k' + 1) (castSU 64 1) = k' := by rw [c1]; unfold subU; omega
  let C := cstep (vstep (2 ^ (k' + 3)) p 0 wtab winvtab) (slayerG body (2 ^ (k' + 3)) p 0 wtab winvtab) (k' + 3)
  have hC : ∀ w0, w0 + 3 ≤ k' + 3 → LayerOK w p wtab winvtab (k' + 3) t C w0 := by
    intro w0 h0 x wo a b c d
    by_cases h4 : w0 + 4 ≤ k' + 3
    · have : C w0 (x ++ t, wo, wo) = vstep (2 ^ (k' + 3)) p 0 wtab winvtab w0 (x ++ t, wo, wo) := if_pos h4
      rw [this]; exact hv w0 h4 x wo a b c d
    · have e : w0 = k' := by omega
      subst e
      have : C w0 (x ++ t, wo, wo) = slayerG body (2 ^ (w0 + 3)) p 0 wtab winvtab w0 (x ++ t, wo, wo) := if_neg h4
      rw [this]; exact hs x wo a b c d
  have L := layers_gen t hC (k' + 1) 0 x 0 (by omega) hx hxw (by simpa using hlw) (by simpa using hlw')
  simp only [Nat.sub_zero, Nat.pow_zero, List.drop_zero, Nat.zero_add] at L
  unfold vrunG
  simp only [hJ, hJ1, shl_one (show k' + 1 ≤ 30 by omega), c0]
  have hf : forRange 0 k' 1 (vstep (2 ^ (k' + 3)) p 0 wtab winvtab) (x ++ t, 0, 0) =
      (List.range k').foldl (fun st i => C i st) (x ++ t, 0, 0) := by
    unfold forRange
    rw [tripCount_one]
    simp only [Nat.one_mul, Nat.zero_add]
    apply foldl_range_congr
    intro i hi st
    exact (if_pos (show i + 4 ≤ k' + 3 by omega)).symm
  have hl : ∀ st, slayerG body (2 ^ (k' + 3)) p 0 wtab winvtab k' st = C k' st := fun st =>
    (if_neg (show ¬ k' + 4 ≤ k' + 3 by omega)).symm
  rw [hf, hl]
  have : C k' ((List.range k').foldl (fun st i => C i st) (x ++ t, 0, 0)) =
      (List.range (k' + 1)).foldl (fun st i => C i st) (x ++ t, 0, 0) := by
    rw [List.range_succ, List.foldl_append]; rfl
  rw [this, L]

/-- the same for the scalar loop (`NttLoopAstEq.runG`), from `NttLoopAstEq.layers_eq` -/
theorem runG_eq {body : Nat → Nat → Nat → Nat → Nat → Nat × Nat} (hb : BodyOK body w p) (hwt : Wd w wtab) (hwi : Wd w winvtab)
    {k' : Nat} (hk : k' + 3 ≤ 32) (t : List Nat) {x : List Nat} (hx : x.length = 2 ^ (k' + 3)) (hxw : Wd w (x ++ t))
    (hlw : 2 ^ (k' + 3) ≤ wtab.length + 4) (hlw' : 2 ^ (k' + 3) ≤ winvtab.length + 4) :
    runG body (2 ^ (k' + 3)) p (x ++ t) 0 wtab 0 winvtab 0 =
      ((nttLoop w p (k' + 1) (2 ^ (k' + 3)) 1 wtab winvtab x).1 ++ t, 2 ^ (k' + 3) - 4, 2 ^ (k' + 3) - 4, 2 ^ (k' + 1)) := by
  have hJ : subU 64 (Gen.NttLoop.static_log2 (2 ^ (k' + 3))) (castSU 64 2) = k' + 1 := by
    rw [log2_pow _ hk, c2]; unfold subU; omega
  obtain ⟨L1, _⟩ := layers_eq hb hwt hwi hk t (k' + 1) 0 x 0 (by omega) hx hxw (by simpa using hlw) (by simpa using hlw')
  simp only [Nat.sub_zero, Nat.pow_zero, List.drop_zero, Nat.zero_add] at L1
  unfold runG
  simp only [hJ, shl_one (show k' + 1 ≤ 30 by omega), c0]
  have : forRange 0 (k' + 1) 1 (layerStepG body (2 ^ (k' + 3)) p 0 wtab winvtab) (x ++ t, 0, 0) =
      (List.range (k' + 1)).foldl (fun st i => layerStepG body (2 ^ (k' + 3)) p 0 wtab winvtab i st) (x ++ t, 0, 0) := by
    unfold forRange
    rw [tripCount_one]
    simp only [Nat.one_mul, Nat.zero_add]
  rw [this, L1]

theorem nttG_congr {run run' : Nat → Nat → List Nat → Nat → List Nat → Nat → List Nat → Nat → List Nat × Nat × Nat × Nat}
    (deg2 : Nat → Nat → Nat → Nat × Nat) (last2 : Nat → Nat → Nat → Nat → Nat → Nat → Nat → Nat × Nat × Nat × Nat)
    (fin : Nat → Nat → Nat) {degree p : Nat} {x : List Nat} {x_o : Nat} {wtab : List Nat} {wtab_o : Nat} {winvtab : List Nat}
    {winvtab_o : Nat} (h : run degree p x x_o wtab wtab_o winvtab winvtab_o = run' degree p x x_o wtab wtab_o winvtab winvtab_o) :
    nttG run deg2 last2 fin degree p x x_o wtab wtab_o winvtab winvtab_o =
      nttG run' deg2 last2 fin degree p x x_o wtab wtab_o winvtab winvtab_o := by
  unfold nttG
  simp only [h]

end run

end Nfl.VLoopAstEq
