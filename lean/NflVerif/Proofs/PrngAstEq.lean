/-
The step functions that `tools/gen_prng_ast.py` regenerates from clang's AST of lib/prng/randombytes.cpp and
lib/prng/fastrandombytes.cpp (`Generated/PrngAst.lean`), run by small hand-written drivers, are EQUAL to the
hand-written models `Model/RandomBytes.lean` (`RB.randombytes`) and `Model/FastRandom.lean` (`FastRandom.request`).

Drivers (this file; the only hand-written part between the generated pieces and the models):
* `Gen.exec` plays a script of operating-system answers to the generated pieces of `randombytes` — structural
  recursion on the script, one answer consumed per `open` / `read`, exactly the recursion scheme of the model; a
  `sleep` consumes nothing (at most two in a row are followed).  What the ENVIRONMENT does is the driver's part: the
  value an answer makes the call return (`-1` = `2^32-1` as `int`, `2^64-1` as `ssize_t`), the bytes a read stores
  (`writeAt`), the `overlong` / `mismatch` / `outOfScript` stops of the OS contract, the call log.
  What the CODE does comes from the generated pieces only: which call is made next, with which descriptor, offset
  and size, when it sleeps, when it returns, how `fd`, `x`, `xlen`, `i` change.
* `Gen.frbExec` runs the generated pieces of `fastrandombytes` against the environment of `Model/FastRandom.lean`
  (`os k` = the key delivered by the k-th call of `randombytes`, `gen key nonce len` = the bytes the Salsa20 routine
  writes); it refuses (`none`) a second lock, an unlock without lock, a return with the mutex held or without output,
  and any call whose arguments are not the expected objects.
Core tactics only.
-/
import NflVerif.Generated.PrngAst
import NflVerif.Proofs.RandomBytes
import NflVerif.Proofs.FastRandom

namespace Nfl.Gen
open Nfl Nfl.RB Nfl.CSem Nfl.CSemX

/-! ## `randombytes`: the driver -/

/-- the static descriptor as the model sees it: `-1` = not open -/
def fdOpt (fd : Nat) : Option Nat := if fd = 2 ^ 32 - 1 then none else some fd
/-- … and back: the `int` residue of the model's descriptor state -/
def encFd : Option Nat → Nat
  | none => 2 ^ 32 - 1
  | some f => f

/-- `sleep` needs no answer: follow up to `k` of them, logging each -/
def absorb : Nat → RbSt × RbNext → List Call → (RbSt × RbNext) × List Call
  | k + 1, (s, .call site [.int n]), log =>
    match rb_callee site with
    | .sleep => absorb k (rb_resume site s 0) (log ++ [.sleep n])
    | _ => ((s, .call site [.int n]), log)
  | _, p, log => (p, log)

/-- the generated pieces of `randombytes` against a script of OS answers, from the point `p` (state, what the code does next) -/
def exec : List Outcome → RbSt × RbNext → Mem → Result
  | script, p, mem =>
    let a := absorb 2 p []
    Result.addLog a.2 <|
      match a.1.2 with
      | .ret => .done mem [] script a.1.1.fd
      | .call site args =>
        match rb_callee site, args with
        | .open, [.str _, .int _] =>
          (match script with
           | [] => .stopped .outOfScript mem [.openNoAns] (fdOpt a.1.1.fd)
           | .openFail :: t => (exec t (rb_resume site a.1.1 (2 ^ 32 - 1)) mem).addLog [.open none]
           | .openOk f :: t => (exec t (rb_resume site a.1.1 f) mem).addLog [.open (some f)]
           | _ :: _ => .stopped .mismatch mem [.openNoAns] (fdOpt a.1.1.fd))
        | .read, [.int fd, .ptr _ off, .int req] =>
          (match script with
           | [] => .stopped .outOfScript mem [.readNoAns fd off req] (fdOpt a.1.1.fd)
           | .readErr :: t => (exec t (rb_resume site a.1.1 (2 ^ 64 - 1)) mem).addLog [.read fd off req (-1)]
           | .readZero :: t => (exec t (rb_resume site a.1.1 0) mem).addLog [.read fd off req 0]
           | .readBytes bs :: t =>
             if req < bs.length then .stopped .overlong mem [.readNoAns fd off req] (fdOpt a.1.1.fd)
             else (exec t (rb_resume site a.1.1 bs.length) (writeAt mem off bs)).addLog [.read fd off req bs.length]
           | _ :: _ => .stopped .mismatch mem [.readNoAns fd off req] (fdOpt a.1.1.fd))
        | _, _ => .stopped .mismatch mem [] (fdOpt a.1.1.fd)

/-- one call `randombytes(x, xlen)` of the GENERATED code: static `fd` on entry `fd0` (`none` = -1), the local `i`
holds the arbitrary value `i0`, the buffer is entirely unwritten -/
def randombytes (fd0 : Option Nat) (script : List Outcome) (xlen : Nat) (i0 : Nat := 0) : Result :=
  exec script (rb_entry { fd := encFd fd0, x := 0, xlen := xlen, i := i0 }) (List.replicate xlen none)

/-- a sequence of calls of the generated code sharing the static `fd` and the environment -/
def runCalls (fd0 : Option Nat) (script : List Outcome) : List Nat → List Result
  | [] => []
  | x :: xs =>
    match randombytes fd0 script x with
    | .done b l r f => .done b l r f :: runCalls (some f) r xs
    | r => [r]

/-! ## arithmetic of the pieces -/

theorem castSU64_small {a : Nat} (h : a < 2 ^ 31) : castSU 64 a = a := by
  unfold castSU; split <;> omega

theorem negS32_one : negS32 1 = 2 ^ 32 - 1 := by decide

theorem addLog_nil (r : Result) : r.addLog [] = r := by cases r <;> rfl
theorem addLog_addLog (a b : List Call) (r : Result) : (r.addLog a).addLog b = r.addLog (b ++ a) := by
  cases r <;> simp [Result.addLog]

/-- (iii) loop head, nothing wanted: return -/
theorem while_zero (f off i : Nat) :
    rb_while_0 { fd := f, x := off, xlen := 0, i := i } = ({ fd := f, x := off, xlen := 0, i := i }, .ret) := by
  simp [rb_while_0, gtU, castSU]

/-- (iii) loop head, `0 < xlen < 2^64`: the request is `read(fd, x, min xlen 2^20)` — the model's `req` -/
theorem while_pos {f off rem i : Nat} (h0 : 0 < rem) (h : rem < 2 ^ 64) :
    rb_while_0 { fd := f, x := off, xlen := rem, i := i } =
      ({ fd := f, x := off, xlen := rem, i := min rem chunk },
       .call .read_0 [.int f, .ptr .x off, .int (min rem chunk)]) := by
  have hc : castSU 64 1048576 = 1048576 := castSU64_small (by decide)
  have hz : castSU 64 0 = 0 := castSU64_small (by decide)
  have hi : castUS 64 (if ltU rem 1048576 then rem else 1048576) = min rem chunk := by
    unfold castUS ltU chunk
    by_cases hlt : rem < 1048576
    · simp [hlt]; omega
    · simp [hlt]; omega
  have hm : castSU 64 (min rem chunk) = min rem chunk := castSU64_small (by unfold chunk; omega)
  simp only [rb_while_0, hc, hz, hi, hm]
  simp [gtU, h0]

/-- (iv) `read` failed (`-1` as `ssize_t`): sleep, nothing changes but `i` -/
theorem after_read_err (f off rem i : Nat) :
    rb_after_read_0 { fd := f, x := off, xlen := rem, i := i } (2 ^ 64 - 1) =
      ({ fd := f, x := off, xlen := rem, i := 2 ^ 32 - 1 }, .call .sleep_1 [.int 1]) := by
  have h1 : castSS 64 32 (2 ^ 64 - 1) = 2 ^ 32 - 1 := by decide
  have h2 : ltS32 (2 ^ 32 - 1) 1 = true := by decide
  have h3 : castSU 32 1 = 1 := by decide
  simp only [rb_after_read_0, h1, h2, h3, if_true]

/-- (iv) `read` returned 0: sleep -/
theorem after_read_zero (f off rem i : Nat) :
    rb_after_read_0 { fd := f, x := off, xlen := rem, i := i } 0 =
      ({ fd := f, x := off, xlen := rem, i := 0 }, .call .sleep_1 [.int 1]) := by
  have h1 : castSS 64 32 0 = 0 := by decide
  have h2 : ltS32 0 1 = true := by decide
  have h3 : castSU 32 1 = 1 := by decide
  simp only [rb_after_read_0, h1, h2, h3, if_true]

/-- (iv) `read` delivered `1 ≤ n ≤ 2^20` bytes, `n ≤ xlen`: pointer and count move by exactly `n`, back to the loop head -/
theorem after_read_pos {f off rem i n : Nat} (h1 : 1 ≤ n) (hn : n ≤ chunk) (hr : n ≤ rem) (h : off + rem < 2 ^ 64) :
    rb_after_read_0 { fd := f, x := off, xlen := rem, i := i } n =
      rb_while_0 { fd := f, x := off + n, xlen := rem - n, i := n } := by
  unfold chunk at hn
  have hc : castSS 64 32 n = n := by unfold castSS; split <;> omega
  have hlt : ltS32 n 1 = false := by
    unfold ltS32 bias; simp; omega
  have hsu : castSU 64 n = n := castSU64_small (by omega)
  have hx : ptrAddS32 1 off n = off + n := by
    unfold ptrAddS32; rw [hsu]; omega
  have hl : subU 64 rem n = rem - n := by
    unfold subU; omega
  simp only [rb_after_read_0, rb_join_1, hc, hlt, hsu, hx, hl]
  simp

theorem after_sleep_1 (s : RbSt) : rb_after_sleep_1 s = rb_while_0 s := rfl
theorem after_sleep_0 (s : RbSt) : rb_after_sleep_0 s = rb_for_0 s := rfl
theorem join_0 (s : RbSt) : rb_join_0 s = rb_while_0 s := rfl
theorem for_0 (s : RbSt) : rb_for_0 s = (s, .call .open_0 [.str "/dev/urandom", .int 0]) := rfl

/-- (ii) `open` failed: `fd = -1`, sleep, then open again -/
theorem after_open_fail (s : RbSt) :
    rb_after_open_0 s (2 ^ 32 - 1) = ({ s with fd := 2 ^ 32 - 1 }, .call .sleep_0 [.int 1]) := by
  have h2 : neS32 (2 ^ 32 - 1) (negS32 1) = false := by decide
  have h3 : castSU 32 1 = 1 := by decide
  simp only [rb_after_open_0, h2, h3]
  simp

/-- (ii) `open` returned a descriptor in `int` range: on to the read loop with it -/
theorem after_open_ok (s : RbSt) {f : Nat} (hf : f < 2 ^ 31) :
    rb_after_open_0 s f = rb_while_0 { s with fd := f } := by
  have h2 : neS32 f (negS32 1) = true := by
    rw [negS32_one]; unfold neS32; simp; omega
  simp only [rb_after_open_0, h2, join_0]
  simp

/-- (i) entry test -/
theorem entry_none (x xlen i : Nat) :
    rb_entry { fd := 2 ^ 32 - 1, x := x, xlen := xlen, i := i } = rb_for_0 { fd := 2 ^ 32 - 1, x := x, xlen := xlen, i := i } := by
  have h : eqS32 (2 ^ 32 - 1) (negS32 1) = true := by decide
  simp only [rb_entry, h]
  simp
theorem entry_some {f : Nat} (hf : f < 2 ^ 31) (x xlen i : Nat) :
    rb_entry { fd := f, x := x, xlen := xlen, i := i } = rb_while_0 { fd := f, x := x, xlen := xlen, i := i } := by
  have h : eqS32 f (negS32 1) = false := by
    rw [negS32_one]; unfold eqS32; simp; omega
  simp only [rb_entry, h, join_0]
  simp

/-! ## the driver on the pieces -/

theorem absorb_while (k : Nat) (s : RbSt) (log : List Call) : absorb k (rb_while_0 s) log = (rb_while_0 s, log) := by
  cases k with
  | zero => simp [absorb]
  | succ k =>
    unfold rb_while_0
    simp only
    split <;> simp [absorb]

theorem absorb_for (k : Nat) (s : RbSt) (log : List Call) : absorb k (rb_for_0 s) log = (rb_for_0 s, log) := by
  cases k <;> simp [absorb, for_0]

theorem fdOpt_small {f : Nat} (hf : f < 2 ^ 31) : fdOpt f = some f := by
  unfold fdOpt; split
  · omega
  · rfl

/-- a sleep of the read loop, then the loop head -/
theorem exec_sleep_1 (script : List Outcome) (s : RbSt) (n : Nat) (mem : Mem) :
    exec script (s, .call .sleep_1 [.int n]) mem = (exec script (rb_while_0 s) mem).addLog [.sleep n] := by
  conv => lhs; rw [exec]
  conv => rhs; rw [exec]
  simp only [absorb, rb_callee, rb_resume, after_sleep_1, absorb_while, List.nil_append, addLog_addLog, List.append_nil]

/-- a sleep of the open loop, then `open` again -/
theorem exec_sleep_0 (script : List Outcome) (s : RbSt) (n : Nat) (mem : Mem) :
    exec script (s, .call .sleep_0 [.int n]) mem = (exec script (rb_for_0 s) mem).addLog [.sleep n] := by
  conv => lhs; rw [exec]
  conv => rhs; rw [exec]
  simp only [absorb, rb_callee, rb_resume, after_sleep_0, absorb_for, List.nil_append, addLog_addLog, List.append_nil]

/-- **the read loop**: from the loop head the generated code, driven by the script, IS the model's `readLoop` -/
theorem exec_while {f : Nat} (hf : f < 2 ^ 31) : ∀ (script : List Outcome) (mem : Mem) (off rem i : Nat),
    off + rem < 2 ^ 64 →
    exec script (rb_while_0 { fd := f, x := off, xlen := rem, i := i }) mem = readLoop f script mem off rem := by
  intro script
  induction script with
  | nil =>
    intro mem off rem i h
    by_cases hr : rem = 0
    · subst hr
      rw [exec, absorb_while, while_zero]
      simp [readLoop, Result.addLog]
    · rw [exec, absorb_while, while_pos (by omega) (by omega)]
      simp [readLoop, hr, rb_callee, Result.addLog, fdOpt_small hf]
  | cons o t ih =>
    intro mem off rem i h
    by_cases hr : rem = 0
    · subst hr
      rw [exec, absorb_while, while_zero]
      simp [readLoop, Result.addLog]
    · have hreq : min rem chunk ≤ chunk := Nat.min_le_right _ _
      rw [exec, absorb_while, while_pos (by omega) (by omega)]
      cases o with
      | openFail => simp [readLoop, hr, rb_callee, Result.addLog, fdOpt_small hf]
      | openOk g => simp [readLoop, hr, rb_callee, Result.addLog, fdOpt_small hf]
      | readErr =>
        simp only [rb_callee, rb_resume, after_read_err, exec_sleep_1, ih mem off rem _ h, addLog_addLog]
        conv => rhs; rw [readLoop]
        simp [hr]
      | readZero =>
        simp only [rb_callee, rb_resume, after_read_zero, exec_sleep_1, ih mem off rem _ h, addLog_addLog]
        conv => rhs; rw [readLoop]
        simp [hr]
      | readBytes bs =>
        simp only [rb_callee, rb_resume, addLog_nil]
        by_cases hover : min rem chunk < bs.length
        · rw [readLoop]; simp [hr, hover, fdOpt_small hf]
        · by_cases hz : bs.length < 1
          · have hb : bs = [] := by
              cases bs with
              | nil => rfl
              | cons b bs => simp at hz
            subst hb
            have hw : writeAt mem off [] = mem := by simp [writeAt]
            simp only [List.length_nil, after_read_zero, exec_sleep_1, hw, ih mem off rem _ h, addLog_addLog]
            conv => rhs; rw [readLoop]
            simp [hr]
          · have hle : bs.length ≤ min rem chunk := by omega
            have hlr : bs.length ≤ rem := Nat.le_trans hle (Nat.min_le_left _ _)
            rw [if_neg hover, after_read_pos (by omega) (by omega) hlr h,
              ih (writeAt mem off bs) (off + bs.length) (rem - bs.length) _ (by omega)]
            conv => rhs; rw [readLoop]
            simp [hr, hover, hz]

/-- **the open loop**: from the head of `for (;;)` with `fd = -1`, the generated code IS the model's `openLoop`
followed by its `readLoop` -/
theorem exec_for : ∀ (script : List Outcome) (mem : Mem) (x xlen i : Nat),
    (∀ g, Outcome.openOk g ∈ script → g < 2 ^ 31) → x + xlen < 2 ^ 64 →
    exec script (rb_for_0 { fd := 2 ^ 32 - 1, x := x, xlen := xlen, i := i }) mem =
      match openLoop script with
      | .ok f s l => (readLoop f s mem x xlen).addLog l
      | .stuck w l => .stopped w mem l none := by
  intro script
  induction script with
  | nil =>
    intro mem x xlen i _ _
    rw [exec, absorb_for, for_0]
    simp [rb_callee, openLoop, Result.addLog, fdOpt]
  | cons o t ih =>
    intro mem x xlen i hfd h
    rw [exec, absorb_for, for_0]
    cases o with
    | openFail =>
      simp only [rb_callee, rb_resume, after_open_fail, exec_sleep_0, addLog_addLog]
      rw [ih mem x xlen i (fun g hg => hfd g (List.mem_cons_of_mem _ hg)) h]
      simp only [openLoop]
      cases openLoop t with
      | ok f s l => simp [addLog_addLog]
      | stuck w l => simp [Result.addLog]
    | openOk g =>
      have hg : g < 2 ^ 31 := hfd g (by simp)
      simp only [rb_callee, rb_resume, after_open_ok _ hg, exec_while hg _ _ _ _ _ h, addLog_nil, openLoop]
    | readErr => simp [rb_callee, openLoop, Result.addLog, fdOpt]
    | readZero => simp [rb_callee, openLoop, Result.addLog, fdOpt]
    | readBytes bs => simp [rb_callee, openLoop, Result.addLog, fdOpt]

/-- the descriptors in play are values of `int` other than `-1`: the static one on entry and every one `open` returns -/
def FdsInRange (fd0 : Option Nat) (script : List Outcome) : Prop :=
  (∀ f, fd0 = some f → f < 2 ^ 31) ∧ ∀ g, Outcome.openOk g ∈ script → g < 2 ^ 31

/-- **generated = model, whole function.**  For every script of OS answers, every request size below `2^64`
(the range of `unsigned long long`), every descriptor state in `int` range and every initial junk in `i`. -/
theorem randombytes_eq (fd0 : Option Nat) (script : List Outcome) (xlen i0 : Nat)
    (hx : xlen < 2 ^ 64) (hfd : FdsInRange fd0 script) :
    randombytes fd0 script xlen i0 = RB.randombytes fd0 script xlen := by
  unfold randombytes RB.randombytes
  cases fd0 with
  | none =>
    simp only [encFd]
    rw [entry_none, exec_for script _ 0 xlen i0 hfd.2 (by omega)]
    rfl
  | some f =>
    have hf := hfd.1 f rfl
    simp only [encFd]
    rw [entry_some hf, exec_while hf _ _ _ _ _ (by omega)]

/-! ## `fastrandombytes`: the nonce step -/

open Nfl.FastRandom Nfl.C13aux

/-- the decode loop as unrolled by the translator: `n ^= ((unsigned long long) b) << 8 * k` for `k, k+1, …` -/
def genDecode : List Nat → Nat → Nat → Nat
  | [], _, n => n
  | b :: bs, k, n => genDecode bs (k + 1) (xorU 64 n (shlU 64 (castU 64 b) (mulS32 8 k)))

theorem genDecode_eq (bs : List Nat) : ∀ (k n : Nat), n < 2 ^ 64 → (∀ b ∈ bs, b < 256) → k + bs.length ≤ 8 →
    genDecode bs k n = decodeLoop k n bs := by
  induction bs with
  | nil => intro k n _ _ _; rfl
  | cons b bs ih =>
    intro k n hn hb hk
    simp only [List.length_cons] at hk
    have hb0 : b < 256 := hb b (by simp)
    have hm : mulS32 8 k = 8 * k := by unfold mulS32; omega
    have hc : castU 64 b = b := by unfold castU; omega
    have hs : shlU 64 b (8 * k) = (b <<< (8 * k)) % 2 ^ 64 := by unfold shlU; rw [Nat.shiftLeft_eq]
    have hx : xorU 64 n ((b <<< (8 * k)) % 2 ^ 64) = n ^^^ ((b <<< (8 * k)) % 2 ^ 64) := by
      unfold xorU
      exact Nat.mod_eq_of_lt (Nat.xor_lt_two_pow hn (Nat.mod_lt _ (Nat.two_pow_pos 64)))
    simp only [genDecode, decodeLoop, hm, hc, hs, hx]
    exact ih (k + 1) _ (Nat.xor_lt_two_pow hn (Nat.mod_lt _ (Nat.two_pow_pos 64)))
      (fun x hx => hb x (by simp [hx])) (by omega)

/-- one cell of the encode loop: `(unsigned char) ((n >> 8 * k) & 0xff)` -/
theorem genEncode_cell {n k : Nat} (hn : n < 2 ^ 64) (hk : k < 8) :
    castU 8 (andU 64 (shrU 64 n (mulS32 8 k)) (castSU 64 255)) = (n >>> (8 * k)) &&& 0xff := by
  have hm : mulS32 8 k = 8 * k := by unfold mulS32; omega
  have h255 : castSU 64 255 = 255 := castSU64_small (by decide)
  have hd : n / 2 ^ (8 * k) < 2 ^ 64 := Nat.lt_of_le_of_lt (Nat.div_le_self _ _) hn
  have hs : shrU 64 n (8 * k) = n / 2 ^ (8 * k) := by unfold shrU; exact Nat.mod_eq_of_lt hd
  rw [hm, h255, hs, shr_and]
  unfold castU andU
  rw [show (255 : Nat) = 2 ^ 8 - 1 by decide, Nat.and_two_pow_sub_one_eq_mod]
  have : n / 2 ^ (8 * k) % 2 ^ 8 < 2 ^ 8 := Nat.mod_lt _ (by decide)
  omega

/-- the nonce step of the generated code on the array contents: (what is copied to `my_nonce`, the new `nonce`),
from the join point after the seeding `if`, with `n = 0` as the entry piece leaves it -/
def nonce_step (nonce : List Nat) (junk : FrbSt) : List Nat × List Nat :=
  let r := (frb_join_0 { junk with nonce := nonce, n := 0 }).1
  (r.my_nonce, r.nonce)

theorem list8 {l : List Nat} (h : l.length = 8) : ∃ a b c d e f g k, l = [a, b, c, d, e, f, g, k] := by
  match l, h with
  | [a, b, c, d, e, f, g, k], _ => exact ⟨a, b, c, d, e, f, g, k, rfl⟩

/-- (vi) everything the join piece does, for a nonce of 8 bytes and a local array `my_nonce` of 8 cells: the old
nonce is copied to `my_nonce`, the new nonce is the model's `bump`, `init`, `key`, `r`, `rlen` are untouched and the
next thing is the end of the guarded block -/
theorem join_0_spec (st : FrbSt) (hn : st.nonce.length = 8) (hb : ∀ b ∈ st.nonce, b < 256)
    (hm : st.my_nonce.length = 8) (h0 : st.n = 0) :
    (frb_join_0 st).1.my_nonce = st.nonce ∧ (frb_join_0 st).1.nonce = bump st.nonce ∧
    (frb_join_0 st).1.init = st.init ∧ (frb_join_0 st).1.key = st.key ∧
    (frb_join_0 st).1.r = st.r ∧ (frb_join_0 st).1.rlen = st.rlen ∧
    (frb_join_0 st).2 = .call .unlock_0 [.ptr .state_mutex 0] := by
  obtain ⟨a, b, c, d, e, f, g, k, hl⟩ := list8 hn
  obtain ⟨m0, m1, m2, m3, m4, m5, m6, m7, hml⟩ := list8 hm
  have hdec : genDecode [a, b, c, d, e, f, g, k] 0 0 = decode [a, b, c, d, e, f, g, k] :=
    genDecode_eq _ 0 0 (by decide) (by rw [← hl]; exact hb) (by simp)
  have hlt : addU 64 (decode [a, b, c, d, e, f, g, k]) 1 < 2 ^ 64 := Nat.mod_lt _ (by decide)
  simp only [genDecode, Nat.zero_add, Nat.reduceAdd] at hdec
  refine ⟨?_, ?_, ?_, ?_, ?_, ?_, ?_⟩
  · simp [frb_join_0, hl, hml, arrSet, arrGet]
  · have hb' : bump [a, b, c, d, e, f, g, k] = encode (addU 64 (decode [a, b, c, d, e, f, g, k]) 1) := rfl
    rw [hl, hb']
    simp only [frb_join_0, hl, h0, arrSet, arrGet, List.set_cons_zero, List.set_cons_succ, List.getD_cons_zero,
      List.getD_cons_succ, hdec]
    simp only [encode, List.range, List.range.loop, List.map]
    rw [genEncode_cell hlt (show 0 < 8 by decide), genEncode_cell hlt (show 1 < 8 by decide),
      genEncode_cell hlt (show 2 < 8 by decide), genEncode_cell hlt (show 3 < 8 by decide),
      genEncode_cell hlt (show 4 < 8 by decide), genEncode_cell hlt (show 5 < 8 by decide),
      genEncode_cell hlt (show 6 < 8 by decide), genEncode_cell hlt (show 7 < 8 by decide)]
  · rfl
  · rfl
  · rfl
  · rfl
  · rfl

/-! ## `fastrandombytes`: the driver -/

/-- the generated pieces of `fastrandombytes` against the environment of `Model/FastRandom.lean`.
`seeds` counts the calls of `randombytes` (each stores `os seeds` in `key`), `held` = the mutex is held,
`out` = what the Salsa20 routine has written to the caller's buffer (`gen key my_nonce rlen`, the arrays as they
are AT THE CALL).  `none`: fuel exhausted, a lock/unlock that does not alternate, a second stream call, a return
with the mutex held or without output, or a call whose arguments are not exactly the expected objects. -/
def frbExec (gen : List Nat → List Nat → Nat → List Nat) (os : Nat → List Nat) :
    Nat → FrbSt × FrbNext → Nat → Bool → Option (List Nat) → Option (FrbSt × Nat × List Nat)
  | 0, _, _, _, _ => none
  | _ + 1, (s, .ret), seeds, held, out =>
    match held, out with
    | false, some o => some (s, seeds, o)
    | _, _ => none
  | k + 1, (s, .call site args), seeds, held, out =>
    match frb_callee site, args with
    | .lock, [.ptr .state_mutex _] => if held then none else frbExec gen os k (frb_resume site s 0) seeds true out
    | .unlock, [.ptr .state_mutex _] => if held then frbExec gen os k (frb_resume site s 0) seeds false out else none
    | .randombytes, [.ptr .key 0, .int 32] =>
      frbExec gen os k (frb_resume site { s with key := os seeds } 0) (seeds + 1) held out
    | .salsa20, [.ptr .r _, .int len, .ptr .my_nonce 0, .ptr .key 0] =>
      (match out with
       | none => frbExec gen os k (frb_resume site s 0) seeds held (some (gen s.key s.my_nonce len))
       | some _ => none)
    | _, _ => none

/-- the model's state as the C statics (`init`: 0 / 1), the request length as `rlen`; `junk` supplies the values the
locals `n`, `i`, `my_nonce` and the pointer offset `r` happen to hold on entry -/
def toSt (s : State) (len : Nat) (junk : FrbSt) : FrbSt :=
  { junk with init := if s.init then 1 else 0, key := s.key, nonce := s.nonce, rlen := len }

/-- one call `fastrandombytes(r, len)` of the GENERATED code in the model's state `s` -/
def request (gen : List Nat → List Nat → Nat → List Nat) (os : Nat → List Nat) (s : State) (len : Nat) (junk : FrbSt) :
    Option (State × List Nat) :=
  (frbExec gen os 8 (frb_entry (toSt s len junk)) s.seeds false none).map fun r =>
    ({ init := decide (r.1.init ≠ 0), key := r.1.key, nonce := r.1.nonce, seeds := r.2.1 }, r.2.2)

theorem entry_spec (st : FrbSt) : frb_entry st = ({ st with n := 0 }, .call .lock_0 [.ptr .state_mutex 0]) := by
  have : castSU 64 0 = 0 := by decide
  simp only [frb_entry, this]

/-- (v) the seeding test: `init == 0` → call `randombytes(key, 32)`, then `init = 1`; otherwise straight on -/
theorem after_lock_unseeded (st : FrbSt) (h : st.init = 0) :
    frb_after_lock_0 st = (st, .call .randombytes_0 [.ptr .key 0, .int 32]) := by
  have : notB (toBoolS32 0) = true := by decide
  simp only [frb_after_lock_0, h, this, if_true]
  cases st; simp_all
theorem after_lock_seeded (st : FrbSt) (h : st.init = 1) : frb_after_lock_0 st = frb_join_0 st := by
  have : notB (toBoolS32 1) = false := by decide
  simp only [frb_after_lock_0, h, this]
  cases st; simp_all
theorem after_randombytes_spec (st : FrbSt) : frb_after_randombytes_0 st = frb_join_0 { st with init := 1 } := rfl
/-- (vii) the stream is requested for `(r, rlen)` under the COPIED nonce `my_nonce` and the static `key` -/
theorem after_unlock_spec (st : FrbSt) :
    frb_after_unlock_0 st = (st, .call .salsa20_0 [.ptr .r st.r, .int st.rlen, .ptr .my_nonce 0, .ptr .key 0]) := rfl
theorem after_salsa_spec (st : FrbSt) : frb_after_salsa20_0 st = (st, .ret) := rfl

/-- **generated = model, whole function**: for every state whose nonce is 8 bytes, every key, request length and key
source, and whatever the locals hold on entry (`my_nonce` being an array of 8 cells) -/
theorem request_eq (gen : List Nat → List Nat → Nat → List Nat) (os : Nat → List Nat) (s : State) (len : Nat)
    (junk : FrbSt) (hn : s.nonce.length = 8) (hb : ∀ b ∈ s.nonce, b < 256) (hm : junk.my_nonce.length = 8) :
    request gen os s len junk = some (FastRandom.request gen os s len) := by
  unfold request
  rw [entry_spec]
  cases hi : s.init with
  | true =>
    obtain ⟨j1, j2, j3, j4, j5, j6, j7⟩ := join_0_spec { toSt s len junk with n := 0 } (by simpa [toSt] using hn)
      (by simpa [toSt] using hb) (by simpa [toSt] using hm) rfl
    have hseed : seed os s = s := by simp [seed, hi]
    simp only [frbExec, frb_callee, frb_resume, Bool.false_eq_true, if_false]
    rw [after_lock_seeded _ (by simp [toSt, hi])]
    generalize hJ : frb_join_0 { toSt s len junk with n := 0 } = J at j1 j2 j3 j4 j5 j6 j7
    obtain ⟨J1, J2⟩ := J
    simp only at j1 j2 j3 j4 j5 j6 j7
    subst j7
    simp only [frbExec, frb_callee, frb_resume, after_unlock_spec, after_salsa_spec, if_true, Option.map_some,
      j1, j2, j3, j4, j5, j6]
    simp [FastRandom.request, next, output, hseed, toSt, hi]
  | false =>
    obtain ⟨j1, j2, j3, j4, j5, j6, j7⟩ := join_0_spec { toSt s len junk with n := 0, key := os s.seeds, init := 1 }
      (by simpa [toSt] using hn) (by simpa [toSt] using hb) (by simpa [toSt] using hm) rfl
    have hseed : seed os s = { s with key := os s.seeds, init := true, seeds := s.seeds + 1 } := by simp [seed, hi]
    simp only [frbExec, frb_callee, frb_resume, Bool.false_eq_true, if_false]
    rw [after_lock_unseeded _ (by simp [toSt, hi])]
    simp only [frbExec, frb_callee, frb_resume, after_randombytes_spec]
    generalize hJ : frb_join_0 _ = J
    have hJ' : J = frb_join_0 { toSt s len junk with n := 0, key := os s.seeds, init := 1 } := by rw [← hJ]
    subst hJ'
    generalize hK : frb_join_0 { toSt s len junk with n := 0, key := os s.seeds, init := 1 } = K at j1 j2 j3 j4 j5 j6 j7
    obtain ⟨J1, J2⟩ := K
    simp only at j1 j2 j3 j4 j5 j6 j7
    subst j7
    simp only [frbExec, frb_callee, frb_resume, after_unlock_spec, after_salsa_spec, if_true, Option.map_some,
      j1, j2, j3, j4, j5, j6]
    simp [FastRandom.request, next, output, hseed, toSt]

end Nfl.Gen
