/- Invariant of the sampler-lifecycle model (Model/GaussLife.lean): with the cache released by the constructor, no
thread ever holds cached blocks between two events, whatever the events, threads and order. -/
import NflVerif.Model.GaussLife

namespace Nfl.Gauss.Life

/-- nothing lost, no thread's cache holds anything -/
def Inv (s : St) : Prop := s.lost = 0 ∧ ∀ t, s.cache t = 0

theorem inv_init : Inv St.init := ⟨rfl, fun _ => rfl⟩

theorem upd_zero {f : Nat → Nat} (h : ∀ t, f t = 0) (i : Nat) : ∀ t, upd f i 0 t = 0 := by
  intro t; unfold upd; split <;> simp [h]

theorem step_inv {fill ownB : Nat} {s s' : St} {e : Evt} (hi : Inv s)
    (h : step .inCtor fill ownB s e = some s') : Inv s' := by
  obtain ⟨hl, hc⟩ := hi
  unfold step at h
  split at h
  · split at h
    · cases h
    · cases h; exact ⟨hl, upd_zero hc _⟩
  · split at h
    · cases h
    · cases h; exact ⟨hl, hc⟩
  · split at h
    · cases h
    · cases h
      refine ⟨hl, ?_⟩
      intro t; simp only [upd]; split <;> simp [hc]
  · cases h
    refine ⟨by simp [hl, hc], upd_zero hc _⟩
  · cases h

theorem run_inv {fill ownB : Nat} : ∀ (evs : List Evt) {s s' : St}, Inv s →
    run .inCtor fill ownB s evs = some s' → Inv s'
  | [], s, s', hi, h => by simp [run] at h; cases h; exact hi
  | e :: es, s, s', hi, h => by
    simp only [run] at h
    split at h
    · cases h
    · rename_i s1 hs
      exact run_inv es (step_inv hi hs) h

theorem sumTo_zero {f : Nat → Nat} : ∀ n, (∀ i, i < n → f i = 0) → sumTo f n = 0
  | 0, _ => rfl
  | n + 1, h => by
    simp only [sumTo]
    rw [sumTo_zero n (fun i hi => h i (by omega)), h n (by omega)]

theorem allDead_iff {nobj : Nat} {s : St} : allDead nobj s = true ↔ ∀ o, o < nobj → s.own o = 0 := by
  simp [allDead]

end Nfl.Gauss.Life
