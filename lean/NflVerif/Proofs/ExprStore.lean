/-
Store lemmas and the loop invariant of `poly::operator=(expr)` (C07).  Core Lean only.
-/
import NflVerif.Spec.ExprSpec
namespace Nfl.Ex
open Nfl

theorem length_wr (st : Store) (h k v : Nat) : (wr st h k v).length = st.length := by
  simp [wr]

theorem rowlen_wr (st : Store) (h k v h' : Nat) :
    ((wr st h k v).getD h' []).length = (st.getD h' []).length := by
  unfold wr
  simp only [List.getD_eq_getElem?_getD, List.getElem?_set]
  by_cases hh : h = h'
  · subst hh
    by_cases hl : h < st.length
    · simp [hl]
    · simp [hl]
  · simp [hh]

theorem rd_wr (st : Store) (d k v h' k' : Nat) (hd : d < st.length) (hk : k < (st.getD d []).length) :
    rd (wr st d k v) h' k' = if h' = d ∧ k' = k then v else rd st h' k' := by
  unfold rd wr
  simp only [List.getD_eq_getElem?_getD, List.getElem?_set] at *
  by_cases hh : d = h'
  · subst hh
    simp only [hd, if_true, true_and]
    by_cases hkk : k = k'
    · subst hkk
      simp [hk]
    · have : ¬ k' = k := fun h => hkk h.symm
      simp [hkk, this]
  · have : ¬ h' = d := fun h => hh h.symm
    simp [hh, this]

theorem storeBlock_spec (d : Nat) : ∀ (vals : List Nat) (st : Store) (base : Nat),
    d < st.length → base + vals.length ≤ (st.getD d []).length →
    (storeBlock st d base vals).length = st.length ∧
    (∀ h, ((storeBlock st d base vals).getD h []).length = (st.getD h []).length) ∧
    ∀ h k, rd (storeBlock st d base vals) h k =
      if h = d ∧ base ≤ k ∧ k < base + vals.length then vals.getD (k - base) 0 else rd st h k
  | [], st, base, _, _ => by
    refine ⟨rfl, fun _ => rfl, fun h k => ?_⟩
    simp only [storeBlock, List.length_nil, Nat.add_zero]
    have : ¬ (h = d ∧ base ≤ k ∧ k < base) := by omega
    simp [this]
  | v :: vs, st, base, hd, hlen => by
    simp only [List.length_cons] at hlen
    have hd' : d < (wr st d base v).length := by rw [length_wr]; exact hd
    have hlen' : base + 1 + vs.length ≤ ((wr st d base v).getD d []).length := by
      rw [rowlen_wr]; omega
    obtain ⟨h1, h2, h3⟩ := storeBlock_spec d vs (wr st d base v) (base + 1) hd' hlen'
    refine ⟨?_, ?_, ?_⟩
    · simp only [storeBlock]; rw [h1, length_wr]
    · intro h; simp only [storeBlock]; rw [h2, rowlen_wr]
    · intro h k
      simp only [storeBlock, List.length_cons]
      rw [h3, rd_wr st d base v h k hd (by omega)]
      by_cases hh : h = d
      · subst hh
        by_cases hk1 : base + 1 ≤ k ∧ k < base + 1 + vs.length
        · have e1 : base ≤ k ∧ k < base + (vs.length + 1) := by omega
          simp only [true_and, hk1, e1, and_self, if_true]
          have : k - base = (k - (base + 1)) + 1 := by omega
          rw [this, List.getD_cons_succ]
        · by_cases hk0 : k = base
          · subst hk0
            have e1 : k ≤ k ∧ k < k + (vs.length + 1) := by omega
            simp [hk1, e1]
          · have e1 : ¬ (base ≤ k ∧ k < base + (vs.length + 1)) := by omega
            simp [hk1, hk0, e1]
      · simp [hh]

/-- a load only depends on the words the leaves hold at that coefficient -/
theorem loadElem_congr (c : Ctx) (st st' : Store) (cm i : Nat)
    (h : ∀ hd, rd st' hd (cm * c.deg + i) = rd st hd (cm * c.deg + i)) :
    ∀ e, loadElem c st' e cm i = loadElem c st e cm i := by
  intro e
  induction e with
  | leaf hh => simp [loadElem, h]
  | add a b iha ihb => simp [loadElem, iha, ihb]
  | sub a b iha ihb => simp [loadElem, iha, ihb]
  | mul a b iha ihb => simp [loadElem, iha, ihb]
  | shoup3 a b q iha ihb ihq => simp [loadElem, iha, ihb, ihq]
  | computeShoup a iha => simp [loadElem, iha]
  | eq a b iha ihb => simp [loadElem, iha, ihb]
  | neq a b iha ihb => simp [loadElem, iha, ihb]

/-- the words the assignment is going to produce, read off the *original* store -/
def newWord (c : Ctx) (st : Store) (e : Expr) (k : Nat) : Nat := loadElem c st e (k / c.deg) (k % c.deg)

/-- loop invariant after the first `m` words of the destination have been written -/
structure Inv (c : Ctx) (st : Store) (d : Nat) (e : Expr) (m : Nat) (st' : Store) : Prop where
  len : st'.length = st.length
  rows : ∀ h, (st'.getD h []).length = (st.getD h []).length
  frame : ∀ h, h ≠ d → ∀ k, rd st' h k = rd st h k
  dest : ∀ k, rd st' d k = if k < m then newWord c st e k else rd st d k

theorem idx_div {deg cm r : Nat} (hr : r < deg) : (cm * deg + r) / deg = cm := by
  have hpos : 0 < deg := by omega
  rw [Nat.mul_comm, Nat.mul_add_div hpos, Nat.div_eq_of_lt hr, Nat.add_zero]

theorem idx_mod {deg cm r : Nat} (hr : r < deg) : (cm * deg + r) % deg = r := by
  rw [Nat.mul_comm, Nat.mul_add_mod, Nat.mod_eq_of_lt hr]

theorem Inv.step {c : Ctx} {st : Store} {d : Nat} {e : Expr} {vs cm jb : Nat} {st' : Store}
    (hd : d < st.length) (hlen : (st.getD d []).length = c.n)
    (hcm : cm < c.nmod) (hjb : jb * vs + vs ≤ c.deg)
    (inv : Inv c st d e (cm * c.deg + jb * vs) st') :
    Inv c st d e (cm * c.deg + (jb + 1) * vs) (assignStep c d e vs cm st' jb) := by
  unfold assignStep
  have hload : loadBlock c st' e cm (jb * vs) vs = (List.range vs).map fun t => newWord c st e (cm * c.deg + jb * vs + t) := by
    unfold loadBlock
    apply List.map_congr_left
    intro t ht
    have ht' : t < vs := List.mem_range.mp ht
    have hlt : jb * vs + t < c.deg := by omega
    rw [loadElem_congr c st st' cm (jb * vs + t)]
    · unfold newWord
      rw [Nat.add_assoc, idx_div hlt, idx_mod hlt]
    · intro h
      by_cases hh : h = d
      · subst hh
        rw [inv.dest]
        have : ¬ (cm * c.deg + (jb * vs + t) < cm * c.deg + jb * vs) := by omega
        simp [this]
      · exact inv.frame h hh _
  have hd' : d < st'.length := by rw [inv.len]; exact hd
  have hN : cm * c.deg + c.deg ≤ c.n := by
    unfold Ctx.n
    calc cm * c.deg + c.deg = (cm + 1) * c.deg := by rw [Nat.add_mul, Nat.one_mul]
      _ ≤ c.nmod * c.deg := Nat.mul_le_mul_right _ hcm
  have hlen' : cm * c.deg + jb * vs + (loadBlock c st' e cm (jb * vs) vs).length ≤ (st'.getD d []).length := by
    rw [inv.rows, hlen]; simp [loadBlock]; omega
  obtain ⟨h1, h2, h3⟩ := storeBlock_spec d _ st' (cm * c.deg + jb * vs) hd' hlen'
  refine ⟨by rw [h1, inv.len], fun h => by rw [h2, inv.rows], ?_, ?_⟩
  · intro h hh k
    rw [h3]; simp [hh, inv.frame h hh k]
  · intro k
    rw [h3, hload]
    simp only [true_and, List.length_map, List.length_range]
    have e1 : (jb + 1) * vs = jb * vs + vs := by rw [Nat.add_mul, Nat.one_mul]
    by_cases hk : cm * c.deg + jb * vs ≤ k ∧ k < cm * c.deg + jb * vs + vs
    · have hk2 : k < cm * c.deg + (jb + 1) * vs := by omega
      simp only [hk, and_self, if_true, hk2]
      rw [List.getD_eq_getElem?_getD, List.getElem?_map, List.getElem?_range (by omega)]
      simp only [Option.map_some, Option.getD_some]
      congr 1; omega
    · simp only [hk, if_false]
      rw [inv.dest]
      by_cases hk3 : k < cm * c.deg + jb * vs
      · have : k < cm * c.deg + (jb + 1) * vs := by omega
        simp [hk3, this]
      · have : ¬ k < cm * c.deg + (jb + 1) * vs := by omega
        simp [hk3, this]

theorem Inv.inner {c : Ctx} {st : Store} {d : Nat} {e : Expr} {vs cm : Nat}
    (hd : d < st.length) (hlen : (st.getD d []).length = c.n) (hcm : cm < c.nmod) :
    ∀ nb, nb * vs ≤ c.deg → ∀ st', Inv c st d e (cm * c.deg) st' →
      Inv c st d e (cm * c.deg + nb * vs) ((List.range nb).foldl (assignStep c d e vs cm) st')
  | 0, _, st', inv => by simpa using inv
  | nb + 1, hnb, st', inv => by
    rw [List.range_succ, List.foldl_append]
    simp only [List.foldl_cons, List.foldl_nil]
    have e1 : (nb + 1) * vs = nb * vs + vs := by rw [Nat.add_mul, Nat.one_mul]
    exact Inv.step hd hlen hcm (by omega) (Inv.inner hd hlen hcm nb (by omega) st' inv)

theorem Inv.outer {c : Ctx} {st : Store} {d : Nat} {e : Expr} {vs : Nat}
    (hd : d < st.length) (hlen : (st.getD d []).length = c.n) (hdiv : vs ∣ c.deg) (hvs : 0 < vs) :
    ∀ nc, nc ≤ c.nmod → Inv c st d e (nc * c.deg) ((List.range nc).foldl (assignCm c d e vs) st)
  | 0, _ => by
    simp only [List.range_zero, List.foldl_nil, Nat.zero_mul]
    exact ⟨rfl, fun _ => rfl, fun _ _ _ => rfl, fun k => by simp⟩
  | nc + 1, hnc => by
    rw [List.range_succ, List.foldl_append]
    simp only [List.foldl_cons, List.foldl_nil]
    have ih := Inv.outer (e := e) hd hlen hdiv hvs nc (by omega)
    have hmul : c.deg / vs * vs = c.deg := Nat.div_mul_cancel hdiv
    have := Inv.inner (vs := vs) hd hlen (show nc < c.nmod by omega) (c.deg / vs) (by rw [hmul]; exact Nat.le_refl _) _ ih
    rw [hmul] at this
    have e1 : (nc + 1) * c.deg = nc * c.deg + c.deg := by rw [Nat.add_mul, Nat.one_mul]
    rw [e1]
    exact this

/-- the complete assignment satisfies the invariant with every word written -/
theorem assignW_inv {c : Ctx} {st : Store} {d : Nat} {e : Expr} {vs : Nat}
    (hd : d < st.length) (hlen : (st.getD d []).length = c.n) (hdiv : vs ∣ c.deg) (hvs : 0 < vs) :
    Inv c st d e c.n (assignW c vs d e st) :=
  Inv.outer hd hlen hdiv hvs c.nmod (Nat.le_refl _)

theorem getD_eq_of_rd {r r' : List Nat} (hl : r'.length = r.length) (h : ∀ k, r'.getD k 0 = r.getD k 0) : r' = r := by
  apply List.ext_getElem hl
  intro k h1 h2
  have := h k
  simp only [List.getD_eq_getElem?_getD, List.getElem?_eq_getElem h1, List.getElem?_eq_getElem h2, Option.getD_some] at this
  exact this

/-- **closed form of the assignment**: whatever the vector width and whatever the aliasing between destination and
leaves, the result is the original store with the destination row replaced by the words computed *from the original
store*. -/
theorem assignW_eq {c : Ctx} {st : Store} {d : Nat} {e : Expr} {vs : Nat}
    (hd : d < st.length) (hlen : (st.getD d []).length = c.n) (hdiv : vs ∣ c.deg) (hvs : 0 < vs) :
    assignW c vs d e st = st.set d ((List.range c.n).map (newWord c st e)) := by
  have inv := assignW_inv (e := e) hd hlen hdiv hvs
  apply List.ext_getElem
  · rw [inv.len]; simp
  · intro h h1 h2
    have hlt : h < st.length := by rw [← inv.len]; exact h1
    rw [List.getElem_set]
    by_cases hh : d = h
    · subst hh
      simp only [if_true]
      have hrow : (assignW c vs d e st)[d] = (assignW c vs d e st).getD d [] := by
        simp [List.getD_eq_getElem?_getD, List.getElem?_eq_getElem h1]
      rw [hrow]
      apply getD_eq_of_rd
      · rw [inv.rows, hlen]; simp
      · intro k
        have := inv.dest k
        unfold rd at this
        rw [this]
        by_cases hk : k < c.n
        · simp [hk, List.getD_eq_getElem?_getD, List.getElem?_map, List.getElem?_range hk]
        · simp only [hk, if_false]
          have a1 : (st.getD d []).getD k 0 = 0 := by
            rw [List.getD_eq_getElem?_getD, List.getElem?_eq_none (by rw [hlen]; omega)]; rfl
          have a2 : ((List.range c.n).map (newWord c st e)).getD k 0 = 0 := by
            rw [List.getD_eq_getElem?_getD, List.getElem?_eq_none (by simp; omega)]; rfl
          rw [a1, a2]
    · simp only [hh, if_false]
      have hrow : (assignW c vs d e st)[h] = (assignW c vs d e st).getD h [] := by
        simp [List.getD_eq_getElem?_getD, List.getElem?_eq_getElem h1]
      have hrow2 : st[h] = st.getD h [] := by
        simp [List.getD_eq_getElem?_getD, List.getElem?_eq_getElem hlt]
      rw [hrow, hrow2]
      apply getD_eq_of_rd (inv.rows h)
      intro k
      exact inv.frame h (fun x => hh x.symm) k

end Nfl.Ex
