/-
The negacyclic product is multiplication at every root of `X^n + 1`
(C01/C02 mathematical layer, part 4).
-/
import NflVerif.Proofs.Dft3

namespace Nfl.Dft

variable {R : Type*} [CommRing R]

/-- for fixed `i < n`, re-index `c ↦ j` with `i + j ≡ c (mod n)` -/
theorem negacyclic_inner (n : Nat) (a b : List R) (ζ : R) (hζ : ζ ^ n = -1) (i : Nat)
    (hi : i < n) :
    ∑ c ∈ Finset.range n,
        (if i ≤ c then a.getD i 0 * b.getD (c - i) 0
          else -(a.getD i 0 * b.getD (c + n - i) 0)) * ζ ^ c =
      ∑ j ∈ Finset.range n, a.getD i 0 * b.getD j 0 * ζ ^ (i + j) := by
  apply Finset.sum_nbij' (fun c => if i ≤ c then c - i else c + n - i)
    (fun j => if i + j < n then i + j else i + j - n)
  · intro c hc
    rw [Finset.mem_range] at hc ⊢
    split_ifs <;> omega
  · intro j hj
    rw [Finset.mem_range] at hj ⊢
    split_ifs <;> omega
  · intro c hc
    rw [Finset.mem_range] at hc
    split_ifs <;> omega
  · intro j hj
    rw [Finset.mem_range] at hj
    split_ifs <;> omega
  · intro c hc
    rw [Finset.mem_range] at hc
    split_ifs with h
    · rw [Nat.add_sub_cancel' h]
    · have e : i + (c + n - i) = c + n := by omega
      rw [e, pow_add, hζ]
      ring

theorem negacyclic_eval (n : Nat) (a b : List R) (ha : a.length = n) (hb : b.length = n)
    (ζ : R) (hζ : ζ ^ n = -1) :
    evalAt (negacyclic n a b) ζ = evalAt a ζ * evalAt b ζ := by
  rw [evalAt_eq_sum, evalAt_eq_sum, evalAt_eq_sum, negacyclic_length, ha, hb]
  have h1 : ∀ c ∈ Finset.range n, (negacyclic n a b).getD c 0 * ζ ^ c =
      ∑ i ∈ Finset.range n,
        (if i ≤ c then a.getD i 0 * b.getD (c - i) 0
          else -(a.getD i 0 * b.getD (c + n - i) 0)) * ζ ^ c := by
    intro c hc
    rw [Finset.mem_range] at hc
    rw [getD_negacyclic _ _ _ _ hc, negacyclicCoeff, sum_map_range, Finset.sum_mul]
  rw [Finset.sum_congr rfl h1, Finset.sum_comm, Finset.sum_mul_sum]
  apply Finset.sum_congr rfl
  intro i hi
  rw [Finset.mem_range] at hi
  rw [negacyclic_inner n a b ζ hζ i hi]
  apply Finset.sum_congr rfl
  intro j _
  rw [pow_add]
  ring

end Nfl.Dft
