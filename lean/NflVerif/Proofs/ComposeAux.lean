/-
Helper lemmas for `Properties/Compose.lean`: the glue between the independently developed property files.

* the moduli of the first `m` rows of a table (`moduli`) versus the prefix `P.take m` of the generated list
  (C04 is stated for `P16.take m` …, C01/C02 for rows `r ∈ l.table.rows`, C09 for an arbitrary list `ps`);
* modulus slices of flat (modulus-major) polynomials versus lists of slices;
* unconditional length / word-range facts about the tables of `core::initialize` (needed by C05's
  `ntt_backend`);
* shapes of the polynomials returned by the creators of `Model/Samplers.lean`.
-/
import NflVerif.Properties.C01
import NflVerif.Properties.C04
import NflVerif.Properties.C05
import NflVerif.Properties.C09
import NflVerif.Properties.C16

namespace Nfl.Compose
open Nfl Nfl.C03 Nfl.Crt Nfl.NttRefine

/-! ### rows of a table and the generated modulus list -/

theorem zipRows_map_p : ∀ (P Pn R I : List Nat), P.length ≤ Pn.length → P.length ≤ R.length →
    P.length ≤ I.length → (zipRows P Pn R I).map (·.p) = P
  | [], _, _, _, _, _, _ => by simp [zipRows]
  | _ :: _, [], _, _, h, _, _ => by simp at h
  | _ :: _, _ :: _, [], _, _, h, _ => by simp at h
  | _ :: _, _ :: _, _ :: _, [], _, _, h => by simp at h
  | a :: ps, b :: pns, c :: rs, d :: is, h1, h2, h3 => by
    simp only [zipRows, List.map_cons]
    rw [zipRows_map_p ps pns rs is (by simpa using h1) (by simpa using h2) (by simpa using h3)]

/-- the four generated lists of every table are (at least) as long as the modulus list (C06) -/
theorem table_lens (l : Limb) : l.table.P.length ≤ l.table.Pn.length ∧
    l.table.P.length ≤ l.table.roots.length ∧ l.table.P.length ≤ l.table.invN.length := by
  cases l
  · exact C06.lens16
  · exact C06.lens32
  · exact C06.lens64

/-- the modulus column of the rows *is* the generated modulus list -/
theorem rows_map_p (l : Limb) : l.table.rows.map (·.p) = l.table.P := by
  obtain ⟨h1, h2, h3⟩ := table_lens l
  exact zipRows_map_p _ _ _ _ h1 h2 h3

theorem rows_length (l : Limb) : l.table.rows.length = l.table.P.length := by
  rw [← rows_map_p l, List.length_map]

/-- the moduli `get_modulus(0) … get_modulus(m-1)` of `poly<T, n, m>`: the first `m` rows of the table -/
def moduli (l : Limb) (m : Nat) : List Nat := (l.table.rows.take m).map (·.p)

theorem moduli_eq_take (l : Limb) (m : Nat) : moduli l m = l.table.P.take m := by
  unfold moduli; rw [List.map_take, rows_map_p]

theorem moduli16 (m : Nat) : moduli Limb.w16 m = Gen.P16.take m := moduli_eq_take _ m
theorem moduli32 (m : Nat) : moduli Limb.w32 m = Gen.P32.take m := moduli_eq_take _ m
theorem moduli64 (m : Nat) : moduli Limb.w64 m = Gen.P64.take m := moduli_eq_take _ m

theorem moduli_length (l : Limb) {m : Nat} (hm : m ≤ l.table.rows.length) : (moduli l m).length = m := by
  unfold moduli; rw [List.length_map, List.length_take]; omega

/-- row `cm` (`Table.row`, total) is a row of the table when `cm` is in range -/
theorem row_mem (l : Limb) {cm : Nat} (hcm : cm < l.table.rows.length) : l.table.row cm ∈ l.table.rows := by
  unfold Table.row
  rw [List.getD_eq_getElem _ _ hcm]
  exact List.getElem_mem hcm

theorem row_eq_getElem (l : Limb) {cm : Nat} (hcm : cm < l.table.rows.length) :
    l.table.row cm = l.table.rows[cm] := by
  unfold Table.row
  rw [List.getD_eq_getElem _ _ hcm]

theorem moduli_getElem (l : Limb) {m cm : Nat} (hm : m ≤ l.table.rows.length) (hcm : cm < m)
    (h : cm < (moduli l m).length) : (moduli l m)[cm] = (l.table.row cm).p := by
  rw [row_eq_getElem l (by omega)]
  simp [moduli]

theorem moduli_getD (l : Limb) {m cm : Nat} (hm : m ≤ l.table.rows.length) (hcm : cm < m) :
    (moduli l m).getD cm 0 = (l.table.row cm).p := by
  have h : cm < (moduli l m).length := by rw [moduli_length l hm]; exact hcm
  rw [List.getD_eq_getElem _ _ h, moduli_getElem l hm hcm h]

theorem mem_moduli (l : Limb) {m p : Nat} (hp : p ∈ moduli l m) : ∃ r ∈ l.table.rows, r.p = p := by
  obtain ⟨r, hr, rfl⟩ := List.mem_map.1 hp
  exact ⟨r, List.mem_of_mem_take hr, rfl⟩

/-- **C06 ⇒ hypothesis of C04**: the first `m` moduli of every table are an admissible CRT modulus set -/
theorem crt_modOK (l : Limb) (m : Nat) : Crt.ModOK l.w (moduli l m) := by
  rw [moduli_eq_take]
  cases l
  · exact C04.modOK16 m
  · exact C04.modOK32 m
  · exact C04.modOK64 m

/-- **C06/C03 ⇒ hypothesis of C09**: the same list meets the samplers' admissibility condition -/
theorem sampler_modOK (l : Limb) (m : Nat) : C09.ModOK l.w (moduli l m) := by
  refine ⟨by cases l <;> simp [Limb.w], by cases l <;> simp [Limb.w], ?_⟩
  intro p hp
  obtain ⟨r, hr, rfl⟩ := mem_moduli l hp
  exact ⟨(row_ok l r hr).prime.two_le, four_p_le l hr⟩

theorem limb_dvd (l : Limb) : 8 ∣ l.w := by cases l <;> simp [Limb.w]

theorem p_lt_word (l : Limb) {r : Row} (hr : r ∈ l.table.rows) : r.p < 2 ^ l.w := by
  have := four_p_le l hr; have := p_pos l hr; omega

/-! ### slices of flat polynomials -/

theorem slice_canonical {ps : List Nat} {n : Nat} {a : List Nat} (ha : PolyCanon ps n a) (cm : Nat)
    (hcm : cm < ps.length) : Canonical (ps.getD cm 0) (slice n a cm) := by
  intro x hx
  obtain ⟨i, hi, rfl⟩ := List.getElem_of_mem hx
  have hlen := slice_length n ps.length a ha.1 cm hcm
  have hin : i < n := hlen ▸ hi
  have e := slice_getD n a cm i hin
  rw [List.getD_eq_getElem _ _ hi] at e
  rw [e]; exact ha.2 cm hcm i hin

/-- slice `cm` of a concatenation of `n`-word chunks is chunk `cm` -/
theorem slice_flatMap (n m : Nat) (F : Nat → List Nat) (hF : ∀ cm, cm < m → (F cm).length = n) (cm : Nat)
    (hcm : cm < m) : slice n ((List.range m).flatMap F) cm = F cm := by
  have hlen : ((List.range m).flatMap F).length = n * m := by
    rw [length_flatMap_chunks F n _ (fun x hx => hF x (List.mem_range.1 hx))]; simp [Nat.mul_comm]
  apply List.ext_getElem
  · rw [slice_length n m _ hlen cm hcm, hF cm hcm]
  · intro i h1 h2
    have hi : i < n := by rw [slice_length n m _ hlen cm hcm] at h1; exact h1
    have e1 := slice_getD n ((List.range m).flatMap F) cm i hi
    rw [List.getD_eq_getElem _ _ h1] at e1
    rw [e1, getD_flatMap_chunks F n 0 (List.range m) (fun x hx => hF x (List.mem_range.1 hx)) cm i
      (by simpa using hcm) hi, List.getD_eq_getElem _ _ (by simpa using h2)]
    simp

theorem flatMap_range_congr {β : Type} (m : Nat) (F G : Nat → List β) (h : ∀ cm, cm < m → F cm = G cm) :
    (List.range m).flatMap F = (List.range m).flatMap G := by
  rw [List.flatMap_def, List.flatMap_def]
  congr 1
  exact List.map_congr_left (fun cm hcm => h cm (List.mem_range.1 hcm))

theorem polyCanon_flatMap {ps : List Nat} {n : Nat} (F : Nat → List Nat)
    (hF : ∀ cm, cm < ps.length → (F cm).length = n ∧ Canonical (ps.getD cm 0) (F cm)) :
    PolyCanon ps n ((List.range ps.length).flatMap F) := by
  constructor
  · rw [length_flatMap_chunks F n _ (fun x hx => (hF x (List.mem_range.1 hx)).1)]; simp [Nat.mul_comm]
  · intro cm hcm i hi
    rw [getD_flatMap_chunks F n 0 (List.range ps.length) (fun x hx => (hF x (List.mem_range.1 hx)).1) cm i
      (by simpa using hcm) hi]
    simp only [List.getElem_range]
    exact (hF cm hcm).2.getD (by
      have := (hF cm hcm).2
      rcases Nat.eq_zero_or_pos (ps.getD cm 0) with h0 | h0
      · exfalso
        have hl := (hF cm hcm).1
        have : (F cm)[i]'(by omega) < ps.getD cm 0 := this _ (List.getElem_mem _)
        omega
      · exact h0) i

/-! ### the tables of `core::initialize`: lengths and word range, with no hypothesis at all -/

theorem iterMul_length (w p pn s : Nat) : ∀ (n c : Nat), (iterMul w p pn s n c).length = n
  | 0, _ => rfl
  | n + 1, c => by simp [iterMul, iterMul_length w p pn s n]

theorem prepWtab_length (w p pn : Nat) : ∀ (k om : Nat), (prepWtab w p pn k om).length + 1 = 2 ^ k
  | 0, _ => rfl
  | k + 1, om => by
    have := prepWtab_length w p pn k (mulmod w p pn om om)
    simp only [prepWtab, List.length_append, iterMul_length]
    rw [Nat.pow_succ]; omega

theorem mulShoupList_length (w p : Nat) : ∀ (a t t' : List Nat),
    (mulShoupList w p a t t').length = min a.length (min t.length t'.length)
  | [], _, _ => by simp [mulShoupList]
  | _ :: _, [], _ => by simp [mulShoupList]
  | _ :: _, _ :: _, [] => by simp [mulShoupList]
  | x :: a, y :: t, z :: t' => by
    simp only [mulShoupList, List.length_cons, mulShoupList_length w p a t t']; omega

theorem shoupOf_lt (w p x : Nat) : shoupOf w p x < 2 ^ w := Nat.mod_lt _ (Nat.two_pow_pos w)

theorem permutW_length (k : Nat) (x : List Nat) : (permutW k x).length = 2 ^ k := by simp [permutW]

section tables
variable (w lk : Nat) (r : Row) (k : Nat)

theorem phis_length : (initTables w lk r k).phis.length = 2 ^ k := by
  simp only [initTables]; exact iterMul_length ..
theorem shoupphis_length : (initTables w lk r k).shoupphis.length = 2 ^ k := by
  simp only [initTables, List.length_map]; exact iterMul_length ..
theorem invphis_length : (initTables w lk r k).invphis.length = 2 ^ k := by
  simp only [initTables]; exact iterMul_length ..
theorem omegas_length : (initTables w lk r k).omegas.length + 1 = 2 ^ k := by
  simp only [initTables]; exact prepWtab_length ..
theorem shoupomegas_length : (initTables w lk r k).shoupomegas.length + 1 = 2 ^ k := by
  simp only [initTables, List.length_map]; exact prepWtab_length ..
theorem invomegas_length : (initTables w lk r k).invomegas.length + 1 = 2 ^ k := by
  simp only [initTables]; exact prepWtab_length ..
theorem shoupinvomegas_length : (initTables w lk r k).shoupinvomegas.length + 1 = 2 ^ k := by
  simp only [initTables, List.length_map]; exact prepWtab_length ..
theorem shoupomegas_lt : ∀ v ∈ (initTables w lk r k).shoupomegas, v < 2 ^ w := by
  simp only [initTables]; exact C05.mem_map_lt (shoupOf_lt w r.p) _
theorem shoupinvomegas_lt : ∀ v ∈ (initTables w lk r k).shoupinvomegas, v < 2 ^ w := by
  simp only [initTables]; exact C05.mem_map_lt (shoupOf_lt w r.p) _

/-- the φ-twisted input of `ntt_pow_phi` has as many words as the input -/
theorem twisted_length (a : List Nat) (ha : a.length = 2 ^ k) :
    (mulShoupList w r.p a (initTables w lk r k).phis (initTables w lk r k).shoupphis).length = 2 ^ k := by
  rw [mulShoupList_length, phis_length, shoupphis_length, ha]; simp

end tables

/-! ### shapes of created polynomials (`Model/Samplers.lean`) -/

open Nfl.Samplers in
theorem mkPoly_length (n : Nat) (ps : List Nat) (f : Nat → Nat → Nat → Nat) : (mkPoly n ps f).length = ps.length := by
  simp [mkPoly]

open Nfl.Samplers in
theorem mkPoly_slice_length (n : Nat) (ps : List Nat) (f : Nat → Nat → Nat → Nat) (cm : Nat) (hcm : cm < ps.length) :
    ((mkPoly n ps f).getD cm []).length = n := by
  simp [mkPoly, List.getD_eq_getElem?_getD, hcm]

theorem foldl_set_length {β : Type} (val : β → Nat) (pos : β → Nat) : ∀ (l : List β) (d : List Nat),
    (l.foldl (fun d x => d.set (pos x) (val x)) d).length = d.length
  | [], _ => rfl
  | x :: l, d => by simp [List.foldl_cons, foldl_set_length val pos l]

open Nfl.Samplers in
theorem hwtWrite_length (w n p : Nat) (sorted signReq : List Nat) : (hwtWrite w n p sorted signReq).length = n := by
  unfold hwtWrite
  rw [foldl_set_length (fun pj : Nat × Nat => if wordAt 8 signReq pj.2 &&& 2 ≠ 0 then 1 else pmOf w p)
    (fun pj => pj.1)]
  simp

/-- words of a slice: `word out cm i` is the `i`-th word of `out.getD cm []` -/
theorem slice_canonical_of_word {out : Samplers.Poly} {cm n p : Nat} (hlen : (out.getD cm []).length = n)
    (hw : ∀ i, i < n → Samplers.word out cm i < p) : Canonical p (out.getD cm []) := by
  intro x hx
  obtain ⟨i, hi, rfl⟩ := List.getElem_of_mem hx
  have := hw i (hlen ▸ hi)
  unfold Samplers.word at this
  rwa [List.getD_eq_getElem _ _ hi] at this

/-! ### flat polynomials are the concatenation of their slices; residue-wise operations -/

theorem flatMap_slice (n : Nat) (hn : 0 < n) (m : Nat) (a : List Nat) (ha : a.length = n * m) :
    (List.range m).flatMap (slice n a) = a := by
  have hl : ((List.range m).flatMap (slice n a)).length = n * m := by
    rw [length_flatMap_chunks (slice n a) n _ (fun cm hcm => slice_length n m a ha cm (List.mem_range.1 hcm))]
    simp [Nat.mul_comm]
  apply List.ext_getElem (by rw [hl, ha])
  intro j h1 h2
  obtain ⟨cm, i, hi, rfl⟩ : ∃ cm i, i < n ∧ j = cm * n + i :=
    ⟨j / n, j % n, Nat.mod_lt _ hn, (Nat.div_add_mod' j n).symm⟩
  have hcm : cm < m := by
    by_contra hge
    have : m * n ≤ cm * n := Nat.mul_le_mul_right n (by omega)
    have h2' : cm * n + i < m * n := by rw [Nat.mul_comm m n, ← ha]; exact h2
    omega
  rw [← List.getD_eq_getElem _ 0 h1, ← List.getD_eq_getElem _ 0 h2,
    getD_flatMap_chunks (slice n a) n 0 (List.range m)
      (fun x hx => slice_length n m a ha x (List.mem_range.1 hx)) cm i (by simpa using hcm) hi]
  simp only [List.getElem_range]
  exact slice_getD n a cm i hi

theorem zip3With_eq_map (f : Nat → Nat → Nat → Nat) : ∀ (m : Nat) (ps a b : List Nat), ps.length = m → a.length = m →
    b.length = m → zip3With f ps a b = (List.range m).map fun j => f (ps.getD j 0) (a.getD j 0) (b.getD j 0)
  | 0, [], [], [], _, _, _ => rfl
  | m + 1, p :: ps, x :: a, y :: b, h1, h2, h3 => by
    rw [List.range_succ_eq_map, List.map_cons, List.map_map]
    simp only [zip3With]
    rw [zip3With_eq_map f m ps a b (by simpa using h1) (by simpa using h2) (by simpa using h3)]
    simp [Function.comp_def]
  | 0, _ :: _, _, _, h, _, _ => by simp at h
  | 0, [], _ :: _, _, _, h, _ => by simp at h
  | 0, [], [], _ :: _, _, _, h => by simp at h
  | _ + 1, [], _, _, h, _, _ => by simp at h
  | _ + 1, _ :: _, [], _, _, h, _ => by simp at h
  | _ + 1, _ :: _, _ :: _, [], _, _, h => by simp at h

theorem poly2mpz_getD (g : GmpConsts) (n : Nat) (data : List Nat) (i : Nat) (hi : i < n) :
    (poly2mpz g n data).getD i 0 = poly2mpzCoeff g (residuesAt n g.ps.length data i) := by
  simp [poly2mpz, List.getD_eq_getElem?_getD, hi]

end Nfl.Compose
