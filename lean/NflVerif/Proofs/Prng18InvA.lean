/- C18 helper lemmas, part A: state invariants of the locked model (mutex discipline, nonce counter, seeding). -/
import NflVerif.Model.Prng18
namespace Nfl.Prng18

def Pc.inside : Pc → Bool
  | .rdInit | .seed | .fill | .wrInit | .rdNonceA | .rdNonceB | .wrNonce | .unlock => true
  | _ => false

def Pc.pastInit : Pc → Bool
  | .rdNonceA | .rdNonceB | .wrNonce | .unlock | .gen => true
  | _ => false

/-- inside the seeding step (flag and key being written) -/
def Pc.seeding : Pc → Bool
  | .seed | .fill | .wrInit => true
  | _ => false

def Pc.hasMy : Pc → Bool
  | .rdNonceB | .wrNonce | .unlock | .gen => true
  | _ => false

structure InvA (sd : Seeding) (seedVal : Nat → Nat) (n0 : Nat) (s : State) : Prop where
  lockI : ∀ t, (s.thr t).pc.inside = true ↔ s.lock = some t
  acqI : s.acq.map Prod.snd = (List.range' n0 s.acq.length).map (· % W)
  nonceHeld : ∀ h, s.lock = some h → (s.thr h).pc ≠ .unlock →
      s.nonce = (s.thr h).ticket ∧ 1 ≤ s.acq.length ∧ (s.thr h).ticket = (n0 + (s.acq.length - 1)) % W
  nonceFree : (s.lock = none ∨ ∃ h, s.lock = some h ∧ (s.thr h).pc = .unlock) → s.nonce = (n0 + s.acq.length) % W
  myI : ∀ t, (s.thr t).pc.hasMy = true → (s.thr t).my = (s.thr t).ticket
  nI : ∀ t, (s.thr t).pc = .wrNonce → (s.thr t).n = (s.thr t).ticket
  -- seeding: while a thread is inside the seeding step every other thread is idle and nothing has been generated
  seedingI : ∀ h, (s.thr h).pc.seeding = true → s.lock = some h ∧ s.out = [] ∧ ∀ t, t ≠ h → (s.thr t).pc = .idle
  seedT : s.init = true → (∃ h, s.lock = some h ∧ (s.thr h).pc.seeding = true) ∨ (s.seeds = 1 ∧ s.key = seedVal 0 ∧ s.miss = 0)
  seedF : s.init = false → s.out = [] ∧ (∀ t, s.lock ≠ some t → (s.thr t).pc = .idle) ∧
      (s.seeds = 0 ∨ (s.seeds = 1 ∧ s.key = seedVal 0 ∧ ∃ h, s.lock = some h ∧ ((s.thr h).pc = .wrInit ∨ (s.thr h).pc = .fill)))
  pastI : ∀ t, (s.thr t).pc.pastInit = true → s.init = true ∧ s.seeds = 1 ∧ s.key = seedVal 0 ∧ s.miss = 0
  seedPc : ∀ t, (s.thr t).pc = .seed → s.seeds = 0 ∧ s.init = sd.flagFirst
  fillPc : ∀ t, (s.thr t).pc = .fill → s.seeds = 1 ∧ s.key = seedVal 0 ∧ 1 ≤ s.miss ∧ s.init = sd.flagFirst
  wrInitPc : ∀ t, (s.thr t).pc = .wrInit → s.init = false ∧
      (if sd.flagFirst then s.seeds = 0 else s.seeds = 1 ∧ s.key = seedVal 0 ∧ s.miss = 0)
  seedsLe : s.seeds ≤ 1
  outSeeds : s.out ≠ [] → s.seeds = 1
  outKey : ∀ o ∈ s.out, o.key = seedVal 0 ∧ o.miss = 0

theorem invA_init (sd : Seeding) (seedVal : Nat → Nat) (reqs : Nat → Nat) (n0 : Nat) (hn0 : n0 < W) :
    InvA sd seedVal n0 (init reqs n0) := by
  constructor <;> simp [init, Pc.inside, Pc.pastInit, Pc.hasMy, Pc.seeding, Nat.mod_eq_of_lt hn0]

theorem invA_step_idle {sd : Seeding} {seedVal : Nat → Nat} {n0 : Nat} {s s' : State} {t : Nat}
    (hi : InvA sd seedVal n0 s) (hpc : (s.thr t).pc = .idle) (hs : step sd seedVal s t = some s') : InvA sd seedVal n0 s' := by
  obtain ⟨lockI, acqI, nonceHeld, nonceFree, myI, nI, seedingI, seedT, seedF, pastI, seedPc, fillPc, wrInitPc, seedsLe, outSeeds, outKey⟩ := hi
  have hin := lockI t
  simp only [step, hpc] at hs
  split at hs
  · cases hs
  · split at hs
    · cases hs
    · rename_i hlock
      simp at hs; subst hs
      have hnf := nonceFree (Or.inl hlock)
      constructor
      case acqI =>
        simp only [List.map_append, List.length_append, List.length_singleton, List.range'_concat, acqI]
        simp [hnf]
      case nonceHeld =>
        intro h hh hne
        simp at hh; subst hh
        simp [hnf]
      all_goals grind [upd, Pc.inside, Pc.pastInit, Pc.hasMy, Pc.seeding]

theorem invA_step_wrNonce {sd : Seeding} {seedVal : Nat → Nat} {n0 : Nat} {s s' : State} {t : Nat}
    (hi : InvA sd seedVal n0 s) (hpc : (s.thr t).pc = .wrNonce) (hs : step sd seedVal s t = some s') : InvA sd seedVal n0 s' := by
  obtain ⟨lockI, acqI, nonceHeld, nonceFree, myI, nI, seedingI, seedT, seedF, pastI, seedPc, fillPc, wrInitPc, seedsLe, outSeeds, outKey⟩ := hi
  have hin := lockI t
  simp only [step, hpc] at hs
  simp at hs; subst hs
  have hl : s.lock = some t := (lockI t).mp (by simp [hpc, Pc.inside])
  obtain ⟨h1, h2, h3⟩ := nonceHeld t hl (by simp [hpc])
  have h4 := nI t hpc
  constructor
  case nonceFree =>
    intro _
    show ((s.thr t).n + 1) % W = (n0 + s.acq.length) % W
    rw [h4, h3]; simp only [W]; omega
  all_goals grind [upd, Pc.inside, Pc.pastInit, Pc.hasMy, Pc.seeding]

theorem invA_step_rdInit {sd : Seeding} {seedVal : Nat → Nat} {n0 : Nat} {s s' : State} {t : Nat}
    (hi : InvA sd seedVal n0 s) (hpc : (s.thr t).pc = .rdInit) (hs : step sd seedVal s t = some s') : InvA sd seedVal n0 s' := by
  obtain ⟨lockI, acqI, nonceHeld, nonceFree, myI, nI, seedingI, seedT, seedF, pastI, seedPc, fillPc, wrInitPc, seedsLe, outSeeds, outKey⟩ := hi
  have hin := lockI t
  simp only [step, hpc] at hs
  simp at hs; subst hs
  constructor
  all_goals grind [upd, Pc.inside, Pc.pastInit, Pc.hasMy, Pc.seeding]

theorem invA_step_seed {sd : Seeding} {seedVal : Nat → Nat} {n0 : Nat} {s s' : State} {t : Nat}
    (hi : InvA sd seedVal n0 s) (hpc : (s.thr t).pc = .seed) (hs : step sd seedVal s t = some s') : InvA sd seedVal n0 s' := by
  obtain ⟨lockI, acqI, nonceHeld, nonceFree, myI, nI, seedingI, seedT, seedF, pastI, seedPc, fillPc, wrInitPc, seedsLe, outSeeds, outKey⟩ := hi
  have hin := lockI t
  simp only [step, hpc] at hs
  simp at hs; subst hs
  constructor
  all_goals grind [upd, Pc.inside, Pc.pastInit, Pc.hasMy, Pc.seeding]

theorem invA_step_fill {sd : Seeding} {seedVal : Nat → Nat} {n0 : Nat} {s s' : State} {t : Nat}
    (hi : InvA sd seedVal n0 s) (hpc : (s.thr t).pc = .fill) (hs : step sd seedVal s t = some s') : InvA sd seedVal n0 s' := by
  obtain ⟨lockI, acqI, nonceHeld, nonceFree, myI, nI, seedingI, seedT, seedF, pastI, seedPc, fillPc, wrInitPc, seedsLe, outSeeds, outKey⟩ := hi
  have hin := lockI t
  simp only [step, hpc] at hs
  simp at hs; subst hs
  constructor
  all_goals grind [upd, Pc.inside, Pc.pastInit, Pc.hasMy, Pc.seeding]

theorem invA_step_wrInit {sd : Seeding} {seedVal : Nat → Nat} {n0 : Nat} {s s' : State} {t : Nat}
    (hi : InvA sd seedVal n0 s) (hpc : (s.thr t).pc = .wrInit) (hs : step sd seedVal s t = some s') : InvA sd seedVal n0 s' := by
  obtain ⟨lockI, acqI, nonceHeld, nonceFree, myI, nI, seedingI, seedT, seedF, pastI, seedPc, fillPc, wrInitPc, seedsLe, outSeeds, outKey⟩ := hi
  have hin := lockI t
  simp only [step, hpc] at hs
  simp at hs; subst hs
  constructor
  all_goals grind [upd, Pc.inside, Pc.pastInit, Pc.hasMy, Pc.seeding]

theorem invA_step_rdNonceA {sd : Seeding} {seedVal : Nat → Nat} {n0 : Nat} {s s' : State} {t : Nat}
    (hi : InvA sd seedVal n0 s) (hpc : (s.thr t).pc = .rdNonceA) (hs : step sd seedVal s t = some s') : InvA sd seedVal n0 s' := by
  obtain ⟨lockI, acqI, nonceHeld, nonceFree, myI, nI, seedingI, seedT, seedF, pastI, seedPc, fillPc, wrInitPc, seedsLe, outSeeds, outKey⟩ := hi
  have hin := lockI t
  simp only [step, hpc] at hs
  simp at hs; subst hs
  constructor
  all_goals grind [upd, Pc.inside, Pc.pastInit, Pc.hasMy, Pc.seeding]

theorem invA_step_rdNonceB {sd : Seeding} {seedVal : Nat → Nat} {n0 : Nat} {s s' : State} {t : Nat}
    (hi : InvA sd seedVal n0 s) (hpc : (s.thr t).pc = .rdNonceB) (hs : step sd seedVal s t = some s') : InvA sd seedVal n0 s' := by
  obtain ⟨lockI, acqI, nonceHeld, nonceFree, myI, nI, seedingI, seedT, seedF, pastI, seedPc, fillPc, wrInitPc, seedsLe, outSeeds, outKey⟩ := hi
  have hin := lockI t
  simp only [step, hpc] at hs
  simp at hs; subst hs
  constructor
  all_goals grind [upd, Pc.inside, Pc.pastInit, Pc.hasMy, Pc.seeding]

theorem invA_step_unlock {sd : Seeding} {seedVal : Nat → Nat} {n0 : Nat} {s s' : State} {t : Nat}
    (hi : InvA sd seedVal n0 s) (hpc : (s.thr t).pc = .unlock) (hs : step sd seedVal s t = some s') : InvA sd seedVal n0 s' := by
  obtain ⟨lockI, acqI, nonceHeld, nonceFree, myI, nI, seedingI, seedT, seedF, pastI, seedPc, fillPc, wrInitPc, seedsLe, outSeeds, outKey⟩ := hi
  have hin := lockI t
  simp only [step, hpc] at hs
  simp at hs; subst hs
  constructor
  all_goals grind [upd, Pc.inside, Pc.pastInit, Pc.hasMy, Pc.seeding]

theorem invA_step_gen {sd : Seeding} {seedVal : Nat → Nat} {n0 : Nat} {s s' : State} {t : Nat}
    (hi : InvA sd seedVal n0 s) (hpc : (s.thr t).pc = .gen) (hs : step sd seedVal s t = some s') : InvA sd seedVal n0 s' := by
  obtain ⟨lockI, acqI, nonceHeld, nonceFree, myI, nI, seedingI, seedT, seedF, pastI, seedPc, fillPc, wrInitPc, seedsLe, outSeeds, outKey⟩ := hi
  have hin := lockI t
  simp only [step, hpc] at hs
  simp at hs; subst hs
  constructor
  all_goals grind [upd, Pc.inside, Pc.pastInit, Pc.hasMy, Pc.seeding]

theorem invA_step {sd : Seeding} {seedVal : Nat → Nat} {n0 : Nat} {s s' : State} {t : Nat}
    (hi : InvA sd seedVal n0 s) (hs : step sd seedVal s t = some s') : InvA sd seedVal n0 s' := by
  cases hpc : (s.thr t).pc
  case idle => exact invA_step_idle hi hpc hs
  case rdInit => exact invA_step_rdInit hi hpc hs
  case seed => exact invA_step_seed hi hpc hs
  case fill => exact invA_step_fill hi hpc hs
  case wrInit => exact invA_step_wrInit hi hpc hs
  case rdNonceA => exact invA_step_rdNonceA hi hpc hs
  case rdNonceB => exact invA_step_rdNonceB hi hpc hs
  case wrNonce => exact invA_step_wrNonce hi hpc hs
  case unlock => exact invA_step_unlock hi hpc hs
  case gen => exact invA_step_gen hi hpc hs

end Nfl.Prng18
