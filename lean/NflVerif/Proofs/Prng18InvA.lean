/- C18 helper lemmas, part A: state invariants of the locked model (mutex discipline, nonce counter, seeding). -/
import NflVerif.Model.Prng18
namespace Nfl.Prng18

def Pc.inside : Pc → Bool
  | .rdInit | .seed | .wrInit | .rdNonceA | .rdNonceB | .wrNonce | .unlock => true
  | _ => false

def Pc.pastInit : Pc → Bool
  | .rdNonceA | .rdNonceB | .wrNonce | .unlock | .gen => true
  | _ => false

def Pc.hasMy : Pc → Bool
  | .rdNonceB | .wrNonce | .unlock | .gen => true
  | _ => false

structure InvA (seedVal : Nat → Nat) (n0 : Nat) (s : State) : Prop where
  lockI : ∀ t, (s.thr t).pc.inside = true ↔ s.lock = some t
  acqI : s.acq.map Prod.snd = (List.range' n0 s.acq.length).map (· % W)
  nonceHeld : ∀ h, s.lock = some h → (s.thr h).pc ≠ .unlock →
      s.nonce = (s.thr h).ticket ∧ 1 ≤ s.acq.length ∧ (s.thr h).ticket = (n0 + (s.acq.length - 1)) % W
  nonceFree : (s.lock = none ∨ ∃ h, s.lock = some h ∧ (s.thr h).pc = .unlock) → s.nonce = (n0 + s.acq.length) % W
  myI : ∀ t, (s.thr t).pc.hasMy = true → (s.thr t).my = (s.thr t).ticket
  nI : ∀ t, (s.thr t).pc = .wrNonce → (s.thr t).n = (s.thr t).ticket
  seedT : s.init = true → s.seeds = 1 ∧ s.key = seedVal 0
  seedF : s.init = false → s.out = [] ∧ (∀ t, s.lock ≠ some t → (s.thr t).pc = .idle) ∧
      (s.seeds = 0 ∨ (s.seeds = 1 ∧ s.key = seedVal 0 ∧ ∃ h, s.lock = some h ∧ (s.thr h).pc = .wrInit))
  pastI : ∀ t, (s.thr t).pc.pastInit = true → s.init = true
  seedPc : ∀ t, (s.thr t).pc = .seed → s.init = false ∧ s.seeds = 0
  wrInitPc : ∀ t, (s.thr t).pc = .wrInit → s.init = false ∧ s.seeds = 1 ∧ s.key = seedVal 0
  outKey : ∀ o ∈ s.out, o.key = seedVal 0

theorem invA_init (seedVal : Nat → Nat) (reqs : Nat → Nat) (n0 : Nat) (hn0 : n0 < W) :
    InvA seedVal n0 (init reqs n0) := by
  constructor <;> simp [init, Pc.inside, Pc.pastInit, Pc.hasMy, Nat.mod_eq_of_lt hn0]

theorem invA_step {seedVal : Nat → Nat} {n0 : Nat} {s s' : State} {t : Nat}
    (hi : InvA seedVal n0 s) (hs : step seedVal s t = some s') : InvA seedVal n0 s' := by
  obtain ⟨lockI, acqI, nonceHeld, nonceFree, myI, nI, seedT, seedF, pastI, seedPc, wrInitPc, outKey⟩ := hi
  have hin := lockI t
  cases hpc : (s.thr t).pc <;> simp only [step, hpc] at hs
  case idle =>
    split at hs
    · cases hs
    · split at hs
      · cases hs
      · rename_i hlock
        simp at hs; subst hs
        have hnf := nonceFree (Or.inl hlock)
        constructor
        case acqI =>
          simp only [List.map_append, List.length_append, List.length_singleton, List.range'_concat, acqI]
          simp [hnf]
        case nonceHeld =>
          intro h hh hne
          simp at hh; subst hh
          simp [hnf]
        all_goals grind [upd, Pc.inside, Pc.pastInit, Pc.hasMy]
  case wrNonce =>
    simp at hs; subst hs
    have hl : s.lock = some t := (lockI t).mp (by simp [hpc, Pc.inside])
    obtain ⟨h1, h2, h3⟩ := nonceHeld t hl (by simp [hpc])
    have h4 := nI t hpc
    constructor
    case nonceFree =>
      intro _
      show ((s.thr t).n + 1) % W = (n0 + s.acq.length) % W
      rw [h4, h3]; simp only [W]; omega
    all_goals grind [upd, Pc.inside, Pc.pastInit, Pc.hasMy]
  all_goals (simp at hs; subst hs; constructor)
  all_goals (try grind [upd, Pc.inside, Pc.pastInit, Pc.hasMy])

end Nfl.Prng18
