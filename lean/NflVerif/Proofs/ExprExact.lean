/-
C07 helper lemmas: on admissible trees over rows of the generated tables the scalar evaluation `loadElem`
is the exact modular meaning `evalExact` (uses the C03 exactness theorems).
-/
import NflVerif.Proofs.ExprStore
import NflVerif.Properties.C03
namespace Nfl.Ex
open Nfl

def Limb.toC03 : Limb → C03.Limb | .w16 => .w16 | .w32 => .w32 | .w64 => .w64

theorem Limb.toC03_w (l : Limb) : l.toC03.w = l.w := by cases l <;> rfl

/-- the moduli of the context are rows of the table of its limb width (`params<T>::P[cm]`, `Pn[cm]`) -/
def Ctx.TableRows (c : Ctx) : Prop := ∀ r ∈ c.rows, r ∈ c.l.toC03.table.rows

theorem Ctx.row_mem {c : Ctx} (h : c.TableRows) {cm : Nat} (hcm : cm < c.nmod) : c.row cm ∈ c.l.toC03.table.rows := by
  apply h
  unfold Ctx.row
  unfold Ctx.nmod at hcm
  rw [List.getD_eq_getElem?_getD, List.getElem?_eq_getElem hcm]
  exact List.getElem_mem hcm

theorem evalExact_lt_of_mod {c : Ctx} (h : c.TableRows) {cm : Nat} (hcm : cm < c.nmod) (x : Nat) :
    x % c.p cm < c.p cm := Nat.mod_lt _ (C03.p_pos _ (Ctx.row_mem h hcm))

/-- scalar evaluation = exact meaning, on admissible trees -/
theorem loadElem_exact {c : Ctx} (hrows : c.TableRows) (st : Store) :
    ∀ e, Adm c st e → ∀ cm, cm < c.nmod → ∀ i, i < c.deg → loadElem c st e cm i = evalExact c st e cm i := by
  intro e
  induction e with
  | leaf h => intro _ cm _ i _; rfl
  | add a b iha ihb =>
    intro hadm cm hcm i hi
    obtain ⟨ha, hb, hc⟩ := hadm
    obtain ⟨hx, hy⟩ := hc cm hcm i hi
    simp only [loadElem, evalExact, iha ha cm hcm i hi, ihb hb cm hcm i hi]
    have := (C03.add_exact c.l.toC03 (Ctx.row_mem hrows hcm) hx hy).1
    rw [Limb.toC03_w] at this
    exact this
  | sub a b iha ihb =>
    intro hadm cm hcm i hi
    obtain ⟨ha, hb, hc⟩ := hadm
    obtain ⟨hx, hy⟩ := hc cm hcm i hi
    simp only [loadElem, evalExact, iha ha cm hcm i hi, ihb hb cm hcm i hi]
    have h4 := C03.four_p_le c.l.toC03 (Ctx.row_mem hrows hcm)
    rw [Limb.toC03_w] at h4
    have h2 : 2 * c.p cm ≤ 2 ^ c.w := by unfold Ctx.p Ctx.w; omega
    rw [submod_exact h2 hx hy]
    unfold Spec.subSpec
    rw [Nat.mod_eq_of_lt hy]
  | mul a b iha ihb =>
    intro hadm cm hcm i hi
    obtain ⟨ha, hb, hc⟩ := hadm
    obtain ⟨hx, hy⟩ := hc cm hcm i hi
    simp only [loadElem, evalExact, iha ha cm hcm i hi, ihb hb cm hcm i hi]
    have := C03.mul_exact c.l.toC03 (Ctx.row_mem hrows hcm) hx hy
    rw [Limb.toC03_w] at this
    exact this
  | shoup3 a b q iha ihb ihq =>
    intro hadm cm hcm i hi
    obtain ⟨ha, hb, hq, hc⟩ := hadm
    obtain ⟨hx, hy, hqv⟩ := hc cm hcm i hi
    simp only [loadElem, evalExact, iha ha cm hcm i hi, ihb hb cm hcm i hi, ihq hq cm hcm i hi, hqv]
    have h4 := C03.four_p_le c.l.toC03 (Ctx.row_mem hrows hcm)
    have hp0 := C03.p_pos c.l.toC03 (Ctx.row_mem hrows hcm)
    have hw := c.l.toC03.w_cases
    rw [Limb.toC03_w] at h4 hw
    have h2 : 2 * c.p cm ≤ 2 ^ c.w := by unfold Ctx.p Ctx.w; omega
    have hx' : evalExact c st a cm i < 2 ^ c.w := by unfold Ctx.p Ctx.w at *; omega
    exact mulmodShoup_exact hw hp0 h2 hx' hy
  | computeShoup a iha =>
    intro hadm cm hcm i hi
    simp only [loadElem, evalExact, iha hadm cm hcm i hi]
    have := C03.shoup_quotient c.l.toC03 (Ctx.row_mem hrows hcm) (evalExact c st a cm i)
    rw [Limb.toC03_w] at this
    exact this
  | eq a b _ _ => intro hadm; exact hadm.elim
  | neq a b _ _ => intro hadm; exact hadm.elim

/-- the words the assignment produces are the exact meaning -/
theorem newWords_eq_pointwise {c : Ctx} (hrows : c.TableRows) (st : Store) (e : Expr) (hadm : Adm c st e) :
    (List.range c.n).map (newWord c st e) = pointwise c st e := by
  unfold pointwise
  apply List.map_congr_left
  intro k hk
  have hk' : k < c.nmod * c.deg := List.mem_range.mp hk
  have hdeg : 0 < c.deg := by
    rcases Nat.eq_zero_or_pos c.deg with h | h
    · rw [h] at hk'; omega
    · exact h
  unfold newWord
  apply loadElem_exact hrows st e hadm
  · rw [Nat.div_lt_iff_lt_mul hdeg]; exact hk'
  · exact Nat.mod_lt _ hdeg

theorem eltCount_pos (l : Limb) (m : Mode) : 0 < eltCount l m := by
  cases l <;> cases m <;> decide

/-- leaves (storage handles) a tree reads -/
def Expr.leaves : Expr → List Nat
  | .leaf h => [h]
  | .add a b | .sub a b | .mul a b | .eq a b | .neq a b => a.leaves ++ b.leaves
  | .shoup3 a b q => a.leaves ++ b.leaves ++ q.leaves
  | .computeShoup a => a.leaves

theorem evalExact_congr (c : Ctx) (st st' : Store) :
    ∀ e, (∀ h ∈ e.leaves, st'.getD h [] = st.getD h []) → ∀ cm i, evalExact c st' e cm i = evalExact c st e cm i := by
  intro e
  induction e with
  | leaf h =>
    intro hl cm i
    have := hl h (by simp [Expr.leaves])
    unfold evalExact rd
    rw [this]
  | add a b iha ihb | sub a b iha ihb | mul a b iha ihb | eq a b iha ihb | neq a b iha ihb =>
    intro hl cm i
    simp only [Expr.leaves, List.mem_append] at hl
    simp [evalExact, iha (fun h hh => hl h (Or.inl hh)), ihb (fun h hh => hl h (Or.inr hh))]
  | shoup3 a b q iha ihb ihq =>
    intro hl cm i
    simp only [Expr.leaves, List.mem_append] at hl
    simp [evalExact, iha (fun h hh => hl h (Or.inl (Or.inl hh))), ihb (fun h hh => hl h (Or.inl (Or.inr hh)))]
  | computeShoup a iha =>
    intro hl cm i
    simp only [Expr.leaves] at hl
    simp [evalExact, iha hl]

theorem Adm_congr (c : Ctx) (st st' : Store) :
    ∀ e, (∀ h ∈ e.leaves, st'.getD h [] = st.getD h []) → Adm c st e → Adm c st' e := by
  intro e
  induction e with
  | leaf h => intro _ _; trivial
  | add a b iha ihb | sub a b iha ihb | mul a b iha ihb =>
    intro hl hadm
    simp only [Expr.leaves, List.mem_append] at hl
    obtain ⟨ha, hb, hc⟩ := hadm
    refine ⟨iha (fun h hh => hl h (Or.inl hh)) ha, ihb (fun h hh => hl h (Or.inr hh)) hb, ?_⟩
    intro cm hcm i hi
    rw [evalExact_congr c st st' a (fun h hh => hl h (Or.inl hh)), evalExact_congr c st st' b (fun h hh => hl h (Or.inr hh))]
    exact hc cm hcm i hi
  | shoup3 a b q iha ihb ihq =>
    intro hl hadm
    simp only [Expr.leaves, List.mem_append] at hl
    obtain ⟨ha, hb, hq, hc⟩ := hadm
    refine ⟨iha (fun h hh => hl h (Or.inl (Or.inl hh))) ha, ihb (fun h hh => hl h (Or.inl (Or.inr hh))) hb,
      ihq (fun h hh => hl h (Or.inr hh)) hq, ?_⟩
    intro cm hcm i hi
    rw [evalExact_congr c st st' a (fun h hh => hl h (Or.inl (Or.inl hh))),
      evalExact_congr c st st' b (fun h hh => hl h (Or.inl (Or.inr hh))),
      evalExact_congr c st st' q (fun h hh => hl h (Or.inr hh))]
    exact hc cm hcm i hi
  | computeShoup a iha =>
    intro hl hadm
    simp only [Expr.leaves] at hl
    exact iha hl hadm
  | eq a b _ _ | neq a b _ _ => intro _ hadm; exact hadm.elim

end Nfl.Ex
