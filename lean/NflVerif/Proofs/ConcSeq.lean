/- C17 helper lemmas: the sequential schedule (thread 0 to completion, then thread 1, …) is a complete run. -/
import NflVerif.Model.Conc
namespace Nfl.Conc

theorem run_append (s1 s2 : List Nat) : ∀ c, run c (s1 ++ s2) = (run c s1).bind (fun c' => run c' s2) := by
  induction s1 with
  | nil => intro c; rfl
  | cons t s ih =>
    intro c
    simp only [List.cons_append, run]
    cases step c t with
    | none => rfl
    | some c1 => exact ih c1

theorem step_thr {c c' : Config} {t : Nat} (h : step c t = some c') :
    (c'.thr t).todo = (c.thr t).todo.tail ∧ ∀ t', t' ≠ t → c'.thr t' = c.thr t' := by
  unfold step at h
  cases htodo : (c.thr t).todo with
  | nil => simp [htodo] at h
  | cons a rest =>
    cases a <;> (simp [htodo] at h; subst h; simp [setThr]; intro t' ht; simp [ht])

theorem step_some {c : Config} {t : Nat} (h : (c.thr t).todo ≠ []) : ∃ c', step c t = some c' := by
  unfold step
  cases htodo : (c.thr t).todo with
  | nil => exact absurd htodo h
  | cons a rest => cases a <;> simp

/-- running one thread to completion -/
theorem run_thread (t : Nat) : ∀ (n : Nat) (c : Config), (c.thr t).todo.length = n →
    ∃ c', run c (List.replicate n t) = some c' ∧ (c'.thr t).todo = [] ∧ ∀ t', t' ≠ t → c'.thr t' = c.thr t' := by
  intro n
  induction n with
  | zero =>
    intro c h
    exact ⟨c, rfl, List.eq_nil_of_length_eq_zero h, fun _ _ => rfl⟩
  | succ n ih =>
    intro c h
    have hne : (c.thr t).todo ≠ [] := by intro h0; rw [h0] at h; simp at h
    obtain ⟨c1, hs⟩ := step_some hne
    obtain ⟨h1, h2⟩ := step_thr hs
    have hl : (c1.thr t).todo.length = n := by rw [h1]; simp [h]
    obtain ⟨c', hr, hd, ho⟩ := ih c1 hl
    refine ⟨c', ?_, hd, fun t' ht' => by rw [ho t' ht', h2 t' ht']⟩
    simp [List.replicate_succ, run, hs, hr]

/-- running a duplicate-free list of threads one after the other, each to completion -/
theorem run_seq : ∀ (ts : List Nat), ts.Nodup → ∀ c : Config,
    ∃ c', run c (ts.flatMap (fun t => List.replicate (c.thr t).todo.length t)) = some c' ∧
      (∀ t ∈ ts, (c'.thr t).todo = []) ∧ ∀ t, t ∉ ts → c'.thr t = c.thr t := by
  intro ts
  induction ts with
  | nil => intro _ c; exact ⟨c, rfl, by simp, fun _ _ => rfl⟩
  | cons t ts ih =>
    intro hnd c
    obtain ⟨hnot, hnd'⟩ := List.nodup_cons.mp hnd
    obtain ⟨c1, hr1, hd1, ho1⟩ := run_thread t _ c rfl
    obtain ⟨c', hr, hd, ho⟩ := ih hnd' c1
    have hcongr : ts.flatMap (fun t => List.replicate (c.thr t).todo.length t)
        = ts.flatMap (fun t => List.replicate (c1.thr t).todo.length t) := by
      rw [List.flatMap_def, List.flatMap_def]
      congr 1
      apply List.map_congr_left
      intro a ha
      have : a ≠ t := fun h => hnot (h ▸ ha)
      rw [ho1 a this]
    refine ⟨c', ?_, ?_, ?_⟩
    · rw [List.flatMap_cons, run_append, hr1, hcongr]
      exact hr
    · intro t' ht'
      rcases List.mem_cons.mp ht' with rfl | h
      · rw [ho t' hnot]; exact hd1
      · exact hd t' h
    · intro t' ht'
      have h1 : t' ≠ t := fun h => ht' (h ▸ List.mem_cons_self ..)
      have h2 : t' ∉ ts := fun h => ht' (List.mem_cons_of_mem _ h)
      rw [ho t' h2, ho1 t' h1]

/-- the sequential schedule of `n` threads is a complete run of the program -/
theorem seq_complete (progs : Nat → List Access) (m0 : Mem) (n : Nat) (hn : ∀ t, n ≤ t → progs t = []) :
    ∃ cs, run (init progs m0) (seqSched progs n) = some cs ∧ Complete cs := by
  obtain ⟨c', hr, hd, ho⟩ := run_seq (List.range n) List.nodup_range (init progs m0)
  refine ⟨c', hr, ?_⟩
  intro t
  by_cases h : t < n
  · exact hd t (List.mem_range.mpr h)
  · rw [ho t (by simpa [List.mem_range] using h)]
    exact hn t (Nat.le_of_not_lt h)

end Nfl.Conc
