/-
C14 — invariant of the copy-on-write heap and the effect of the shared_ptr primitives on it.
`InvX s t`: the invariant with one temporary `shared_ptr` `t` alive (as inside `_p = x`).
Core Lean only.
-/
import NflVerif.Model.Cow
namespace Nfl.Cow

/-- number of handles pointing to `p` -/
def cnt (p : Nat) (hs : List Handle) : Nat := hs.count (.at p)

def rcOf (heap : Nat → Option Cell) (p : Nat) : Nat :=
  match heap p with
  | some c => c.rc
  | none => 0

def tmpOwns (t : Handle) (p : Nat) : Nat := if t = .at p then 1 else 0

theorem cnt_set {hs : List Handle} {d : Nat} {hd : Handle} (p : Nat) (h : Handle) (hget : hs[d]? = some hd) :
    cnt p (hs.set d h) + tmpOwns hd p = cnt p hs + tmpOwns h p := by
  induction hs generalizing d with
  | nil => simp at hget
  | cons a l ih =>
    cases d with
    | zero =>
      simp at hget; subst hget
      simp only [List.set_cons_zero, cnt, List.count_cons, tmpOwns, beq_iff_eq]
      omega
    | succ d =>
      simp at hget
      have := ih hget
      simp only [List.set_cons_succ, cnt, List.count_cons] at *
      omega

theorem cnt_pos_of_get {hs : List Handle} {i : Nat} {p : Nat} (h : hs[i]? = some (.at p)) : 1 ≤ cnt p hs := by
  have : Handle.at p ∈ hs := List.mem_of_getElem? h
  exact List.count_pos_iff.mpr this

theorem cnt_ge_two {hs : List Handle} {i d : Nat} {p : Nat} (hne : i ≠ d) (hi : hs[i]? = some (.at p))
    (hd : hs[d]? = some (.at p)) : 2 ≤ cnt p hs := by
  have h1 := cnt_set p .null hd
  have h2 : (hs.set d .null)[i]? = some (.at p) := by rw [List.getElem?_set_ne (Ne.symm hne)]; exact hi
  have h3 := cnt_pos_of_get h2
  simp [tmpOwns] at h1
  omega

theorem not_mem_of_cnt_zero {hs : List Handle} {p : Nat} (h : cnt p hs = 0) : Handle.at p ∉ hs :=
  List.count_eq_zero.mp h


structure InvX (s : State) (t : Handle) : Prop where
  /-- the reference count is the number of owners: handles pointing to the cell (+ the temporary) -/
  rc_count : ∀ p, rcOf s.heap p = cnt p s.hs + tmpOwns t p
  /-- no leak: an allocated cell has at least one owner -/
  rc_pos : ∀ p c, s.heap p = some c → 1 ≤ c.rc
  fresh : ∀ p, s.next ≤ p → s.heap p = none
  alloc_log : ∀ p, p ∈ s.allocLog ↔ p < s.next
  alloc_nodup : s.allocLog.Nodup
  free_log : ∀ p, p ∈ s.freeLog ↔ (p < s.next ∧ s.heap p = none)
  free_nodup : s.freeLog.Nodup

/-- the invariant between statements (no temporary alive) -/
abbrev Inv (s : State) : Prop := InvX s .dead

@[simp] theorem tmpOwns_dead (p : Nat) : tmpOwns .dead p = 0 := by simp [tmpOwns]
@[simp] theorem tmpOwns_null (p : Nat) : tmpOwns .null p = 0 := by simp [tmpOwns]
@[simp] theorem tmpOwns_at (q p : Nat) : tmpOwns (.at q) p = if q = p then 1 else 0 := by simp [tmpOwns]

@[simp] theorem upd_same (f : Nat → Option Cell) (p : Nat) (c : Option Cell) : upd f p c p = c := by simp [upd]
theorem upd_other (f : Nat → Option Cell) {p q : Nat} (c : Option Cell) (h : q ≠ p) : upd f p c q = f q := by
  simp [upd, h]

theorem InvX.congr_tmp {s : State} {t t' : Handle} (h : InvX s t) (ht : ∀ p, tmpOwns t p = tmpOwns t' p) :
    InvX s t' :=
  { h with rc_count := fun p => by rw [← ht]; exact h.rc_count p }

theorem InvX.live {s : State} {t : Handle} (h : InvX s t) {i : Nat} {p : Nat} (hi : s.hs[i]? = some (.at p)) :
    ∃ c, s.heap p = some c := by
  have h1 := h.rc_count p
  have h2 := cnt_pos_of_get hi
  cases hp : s.heap p with
  | some c => exact ⟨c, rfl⟩
  | none => simp [rcOf, hp] at h1; omega

theorem InvX.live_tmp {s : State} {p : Nat} (h : InvX s (.at p)) : ∃ c, s.heap p = some c := by
  have h1 := h.rc_count p
  cases hp : s.heap p with
  | some c => exact ⟨c, rfl⟩
  | none => simp [rcOf, hp] at h1

/-- the temporary and handle `d` exchange their contents (`swap`, construction from a temporary, move out) -/
theorem InvX.swap {s : State} {t hd : Handle} {d : Nat} (h : InvX s t) (hget : s.hs[d]? = some hd) :
    InvX (setH s d t) hd := by
  have hrc : ∀ p, rcOf (setH s d t).heap p = cnt p (setH s d t).hs + tmpOwns hd p := by
    intro p
    have h1 := h.rc_count p
    have h2 := cnt_set p t hget
    simp only [setH]; omega
  exact { h with rc_count := hrc }

theorem InvX.incr {s : State} {t : Handle} {p : Nat} {c : Cell} (h : InvX s t) (ht : ∀ q, tmpOwns t q = 0)
    (hp : s.heap p = some c) :
    ∃ s', incr s p = some s' ∧ InvX s' (.at p) ∧ s'.hs = s.hs ∧
      s'.heap = upd s.heap p (some { c with rc := c.rc + 1 }) := by
  refine ⟨{ s with heap := upd s.heap p (some { c with rc := c.rc + 1 }) }, by simp [Cow.incr, hp], ?_, rfl, rfl⟩
  refine { rc_count := ?_, rc_pos := ?_, fresh := ?_, alloc_log := h.alloc_log, alloc_nodup := h.alloc_nodup,
           free_log := ?_, free_nodup := h.free_nodup }
  · intro q
    have h1 := h.rc_count q
    by_cases hq : q = p
    · subst hq; simp [rcOf, hp, ht] at h1 ⊢; omega
    · simp [rcOf, upd_other _ _ hq, ht, Ne.symm hq] at h1 ⊢; omega
  · intro q c' hc'
    by_cases hq : q = p
    · subst hq; simp at hc'; subst hc'; simp
    · simp only [upd_other _ _ hq] at hc'; exact h.rc_pos q c' hc'
  · intro q hq
    have := h.fresh q hq
    by_cases hqp : q = p
    · subst hqp; simp [hp] at this
    · simp [upd_other _ _ hqp, this]
  · intro q
    rw [h.free_log q]
    by_cases hqp : q = p
    · subst hqp; simp [hp]
    · simp [upd_other _ _ hqp]

/-- destruction of the temporary -/
theorem InvX.decr {s : State} {p : Nat} (h : InvX s (.at p)) :
    ∃ s', decr s p = some s' ∧ Inv s' ∧ s'.hs = s.hs ∧ s'.next = s.next ∧ s'.allocLog = s.allocLog ∧
      (∀ q, q ≠ p → s'.heap q = s.heap q) ∧
      (∀ c, s.heap p = some c → (c.rc = 1 → s'.heap p = none ∧ s'.freeLog = p :: s.freeLog ∧ cnt p s.hs = 0) ∧
                                 (c.rc ≠ 1 → s'.heap p = some { c with rc := c.rc - 1 } ∧ s'.freeLog = s.freeLog)) := by
  obtain ⟨c, hc⟩ := h.live_tmp
  have hpos := h.rc_pos p c hc
  have hcnt := h.rc_count p
  simp [rcOf, hc] at hcnt
  have hlt : p < s.next := by
    apply Nat.lt_of_not_ge; intro hge; have := h.fresh p hge; simp [hc] at this
  by_cases h1 : c.rc = 1
  · refine ⟨{ s with heap := upd s.heap p none, freeLog := p :: s.freeLog }, by simp [Cow.decr, hc, h1], ?_, rfl, rfl, rfl,
      fun q hq => upd_other _ _ hq, ?_⟩
    · refine { rc_count := ?_, rc_pos := ?_, fresh := ?_, alloc_log := h.alloc_log, alloc_nodup := h.alloc_nodup,
               free_log := ?_, free_nodup := ?_ }
      · intro q
        have hq := h.rc_count q
        by_cases hqp : q = p
        · subst hqp; simp [rcOf]; omega
        · simp [rcOf, upd_other _ _ hqp, Ne.symm hqp] at hq ⊢; exact hq
      · intro q c' hc'
        by_cases hqp : q = p
        · subst hqp; simp at hc'
        · simp only [upd_other _ _ hqp] at hc'; exact h.rc_pos q c' hc'
      · intro q hq
        by_cases hqp : q = p
        · subst hqp; simp
        · simp [upd_other _ _ hqp, h.fresh q hq]
      · intro q
        by_cases hqp : q = p
        · subst hqp; simp [hlt]
        · simp [upd_other _ _ hqp, hqp, h.free_log q]
      · have : p ∉ s.freeLog := by rw [h.free_log p]; simp [hc]
        exact List.nodup_cons.mpr ⟨this, h.free_nodup⟩
    · intro c' hc'; rw [hc] at hc'; cases hc'
      exact ⟨fun _ => ⟨by simp, rfl, by omega⟩, fun hne => absurd h1 hne⟩
  · have hne0 : c.rc ≠ 0 := by omega
    refine ⟨{ s with heap := upd s.heap p (some { c with rc := c.rc - 1 }) }, by simp [Cow.decr, hc, h1, hne0], ?_, rfl, rfl, rfl,
      fun q hq => upd_other _ _ hq, ?_⟩
    · refine { rc_count := ?_, rc_pos := ?_, fresh := ?_, alloc_log := h.alloc_log, alloc_nodup := h.alloc_nodup,
               free_log := ?_, free_nodup := h.free_nodup }
      · intro q
        have hq := h.rc_count q
        by_cases hqp : q = p
        · subst hqp; simp [rcOf]; omega
        · simp [rcOf, upd_other _ _ hqp, Ne.symm hqp] at hq ⊢; exact hq
      · intro q c' hc'
        by_cases hqp : q = p
        · subst hqp; simp at hc'; subst hc'; simp; omega
        · simp only [upd_other _ _ hqp] at hc'; exact h.rc_pos q c' hc'
      · intro q hq
        by_cases hqp : q = p
        · have hq' : s.next ≤ q := hq
          subst hqp; omega
        · simp [upd_other _ _ hqp, h.fresh q hq]
      · intro q
        by_cases hqp : q = p
        · subst hqp; simp [h.free_log q, hc]
        · simp [upd_other _ _ hqp, h.free_log q]
    · intro c' hc'; rw [hc] at hc'; cases hc'
      exact ⟨fun h1' => absurd h1' h1, fun _ => ⟨by simp, rfl⟩⟩

/-- `make_pointer(v)`: the temporary owns the fresh cell -/
theorem InvX.alloc {s : State} {t : Handle} (h : InvX s t) (ht : ∀ q, tmpOwns t q = 0) (v : Val) :
    InvX (alloc s v).1 (.at s.next) ∧ cnt s.next s.hs = 0 := by
  have hfree : s.heap s.next = none := h.fresh _ (Nat.le_refl _)
  have hc0 : cnt s.next s.hs = 0 := by
    have := h.rc_count s.next; simp [rcOf, hfree, ht] at this; omega
  refine ⟨{ rc_count := ?_, rc_pos := ?_, fresh := ?_, alloc_log := ?_, alloc_nodup := ?_,
            free_log := ?_, free_nodup := h.free_nodup }, hc0⟩
  · intro q
    have hq := h.rc_count q
    by_cases hqp : q = s.next
    · subst hqp; simp [Cow.alloc, rcOf, hc0]
    · simp [Cow.alloc, rcOf, upd_other _ _ hqp, ht, Ne.symm hqp] at hq ⊢; exact hq
  · intro q c' hc'
    by_cases hqp : q = s.next
    · subst hqp; simp [Cow.alloc] at hc'; subst hc'; simp
    · simp [Cow.alloc, upd_other _ _ hqp] at hc'; exact h.rc_pos q c' hc'
  · intro q hq
    simp [Cow.alloc] at hq ⊢
    have hqp : q ≠ s.next := by omega
    rw [upd_other _ _ hqp]; exact h.fresh q (by omega)
  · intro q; simp [Cow.alloc, h.alloc_log q]; omega
  · simp [Cow.alloc]; exact ⟨by rw [h.alloc_log]; omega, h.alloc_nodup⟩
  · intro q
    by_cases hqp : q = s.next
    · subst hqp; simp [Cow.alloc, h.free_log]
    · simp [Cow.alloc, upd_other _ _ hqp, h.free_log q]; intro _; omega

end Nfl.Cow
