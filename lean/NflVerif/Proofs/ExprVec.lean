/-
C07: evaluating a tree on whole registers with lane-wise kernels is the same as evaluating it element by element.
The hypothesis `Kernels.Lanewise` (each SIMD kernel = the scalar functor applied in every lane) is what the C03/C05
lane theorems / the C03 correspondence stream establish for the SSE and AVX2 functors.  Core Lean only.
-/
import NflVerif.Proofs.ExprStore
namespace Nfl.Ex
open Nfl

/-- the register-level functors `Op{}(x, y, cm)` of one backend, on registers of any number of lanes -/
structure Kernels where
  add : Nat → List Nat → List Nat → List Nat
  sub : Nat → List Nat → List Nat → List Nat
  mul : Nat → List Nat → List Nat → List Nat
  shoup : Nat → List Nat → List Nat → List Nat → List Nat
  cshoup : Nat → List Nat → List Nat

/-- `kernel = map scalar`: lane `t` of the result is the scalar functor on lane `t` of the operands -/
structure Kernels.Lanewise (K : Kernels) (c : Ctx) : Prop where
  add : ∀ cm xs ys, K.add cm xs ys = (List.range xs.length).map fun t => addmod c.w (c.p cm) (xs.getD t 0) (ys.getD t 0)
  sub : ∀ cm xs ys, K.sub cm xs ys = (List.range xs.length).map fun t => submod c.w (c.p cm) (xs.getD t 0) (ys.getD t 0)
  mul : ∀ cm xs ys, K.mul cm xs ys =
    (List.range xs.length).map fun t => mulmod c.w (c.p cm) (c.row cm).pn (xs.getD t 0) (ys.getD t 0)
  shoup : ∀ cm xs ys qs, K.shoup cm xs ys qs =
    (List.range xs.length).map fun t => mulmodShoup c.w (c.p cm) (xs.getD t 0) (ys.getD t 0) (qs.getD t 0)
  cshoup : ∀ cm xs, K.cshoup cm xs = (List.range xs.length).map fun t => computeShoup c.w (c.p cm) (xs.getD t 0)

/-- `expr::load<M>(cm, j)` on registers of `vs` lanes: leaves are `M::load(&p(cm,j))`, inner nodes apply the kernel -/
def loadVec (K : Kernels) (c : Ctx) (st : Store) : Expr → Nat → Nat → Nat → List Nat
  | .leaf h, cm, j, vs => (List.range vs).map fun t => rd st h (cm * c.deg + (j + t))
  | .add a b, cm, j, vs => K.add cm (loadVec K c st a cm j vs) (loadVec K c st b cm j vs)
  | .sub a b, cm, j, vs => K.sub cm (loadVec K c st a cm j vs) (loadVec K c st b cm j vs)
  | .mul a b, cm, j, vs => K.mul cm (loadVec K c st a cm j vs) (loadVec K c st b cm j vs)
  | .shoup3 a b q, cm, j, vs => K.shoup cm (loadVec K c st a cm j vs) (loadVec K c st b cm j vs) (loadVec K c st q cm j vs)
  | .computeShoup a, cm, j, vs => K.cshoup cm (loadVec K c st a cm j vs)
  | .eq a b, cm, j, vs => loadBlock c st (.eq a b) cm j vs
  | .neq a b, cm, j, vs => loadBlock c st (.neq a b) cm j vs

theorem getD_map_range (f : Nat → Nat) (vs t : Nat) (ht : t < vs) : ((List.range vs).map f).getD t 0 = f t := by
  simp [List.getD_eq_getElem?_getD, List.getElem?_map, List.getElem?_range ht]

theorem loadVec_eq_loadBlock {K : Kernels} {c : Ctx} (hK : K.Lanewise c) (st : Store) (cm j vs : Nat) :
    ∀ e, loadVec K c st e cm j vs = loadBlock c st e cm j vs := by
  intro e
  induction e with
  | leaf h => rfl
  | add a b iha ihb =>
    simp only [loadVec, iha, ihb, hK.add]
    unfold loadBlock
    simp only [List.length_map, List.length_range]
    apply List.map_congr_left
    intro t ht
    have ht' := List.mem_range.mp ht
    simp only [getD_map_range _ vs t ht', loadElem]
  | sub a b iha ihb =>
    simp only [loadVec, iha, ihb, hK.sub]
    unfold loadBlock
    simp only [List.length_map, List.length_range]
    apply List.map_congr_left
    intro t ht
    have ht' := List.mem_range.mp ht
    simp only [getD_map_range _ vs t ht', loadElem]
  | mul a b iha ihb =>
    simp only [loadVec, iha, ihb, hK.mul]
    unfold loadBlock
    simp only [List.length_map, List.length_range]
    apply List.map_congr_left
    intro t ht
    have ht' := List.mem_range.mp ht
    simp only [getD_map_range _ vs t ht', loadElem]
  | shoup3 a b q iha ihb ihq =>
    simp only [loadVec, iha, ihb, ihq, hK.shoup]
    unfold loadBlock
    simp only [List.length_map, List.length_range]
    apply List.map_congr_left
    intro t ht
    have ht' := List.mem_range.mp ht
    simp only [getD_map_range _ vs t ht', loadElem]
  | computeShoup a iha =>
    simp only [loadVec, iha, hK.cshoup]
    unfold loadBlock
    simp only [List.length_map, List.length_range]
    apply List.map_congr_left
    intro t ht
    have ht' := List.mem_range.mp ht
    simp only [getD_map_range _ vs t ht', loadElem]
  | eq a b _ _ => rfl
  | neq a b _ _ => rfl

/-- the assignment loop with register-level kernels -/
def assignStepK (K : Kernels) (c : Ctx) (d : Nat) (e : Expr) (vs cm : Nat) (st : Store) (jb : Nat) : Store :=
  storeBlock st d (cm * c.deg + jb * vs) (loadVec K c st e cm (jb * vs) vs)

def assignK (K : Kernels) (c : Ctx) (vs d : Nat) (e : Expr) (st : Store) : Store :=
  (List.range c.nmod).foldl (fun st cm => (List.range (c.deg / vs)).foldl (assignStepK K c d e vs cm) st) st

theorem assignK_eq_assignW {K : Kernels} {c : Ctx} (hK : K.Lanewise c) (vs d : Nat) (e : Expr) (st : Store) :
    assignK K c vs d e st = assignW c vs d e st := by
  unfold assignK assignW assignCm
  have : assignStepK K c d e vs = assignStep c d e vs := by
    funext cm st jb
    unfold assignStepK assignStep
    rw [loadVec_eq_loadBlock hK]
  rw [this]

end Nfl.Ex
