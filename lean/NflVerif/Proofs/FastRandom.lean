/-
Helper lemmas for C13 (core Lean only): little-endian encoding, the decode/encode loops of
`fastrandombytes`, lengths and prefixes of the Salsa20 stream.
-/
import NflVerif.Spec.Salsa20
import NflVerif.Model.FastRandom
namespace Nfl.C13aux
open Nfl.Salsa20 Nfl.FastRandom

/-! ### little-endian encoding -/

theorem encodeLE_length (k n : Nat) : (encodeLE k n).length = k := by
  induction k generalizing n with
  | zero => rfl
  | succ k ih => simp [encodeLE, ih]

theorem encodeLE_lt (k n : Nat) : ∀ b ∈ encodeLE k n, b < 256 := by
  induction k generalizing n with
  | zero => intro b hb; simp [encodeLE] at hb
  | succ k ih =>
    intro b hb
    simp only [encodeLE, List.mem_cons] at hb
    rcases hb with rfl | hb
    · exact Nat.mod_lt _ (by decide)
    · exact ih _ b hb

theorem decodeLE_encodeLE (k n : Nat) : decodeLE (encodeLE k n) = n % 256 ^ k := by
  induction k generalizing n with
  | zero => simp [encodeLE, decodeLE, Nat.mod_one]
  | succ k ih =>
    simp only [encodeLE, decodeLE, ih]
    rw [Nat.pow_succ, Nat.mul_comm (256 ^ k) 256, Nat.mod_mul]

theorem encodeLE_inj {k n n' : Nat} (hn : n < 256 ^ k) (hn' : n' < 256 ^ k)
    (h : encodeLE k n = encodeLE k n') : n = n' := by
  have := congrArg decodeLE h
  rwa [decodeLE_encodeLE, decodeLE_encodeLE, Nat.mod_eq_of_lt hn, Nat.mod_eq_of_lt hn'] at this

/-! ### the decode loop: XOR of disjoint shifted bytes is the little-endian value -/

theorem xor_shiftLeft_of_lt {a b k : Nat} (h : a < 2 ^ k) : a ^^^ (b <<< k) = a + b * 2 ^ k := by
  apply Nat.eq_of_testBit_eq
  intro j
  rw [show a + b * 2 ^ k = 2 ^ k * b + a by rw [Nat.mul_comm, Nat.add_comm],
      Nat.testBit_two_pow_mul_add _ h, Nat.testBit_xor, Nat.testBit_shiftLeft]
  by_cases hj : j < k
  · simp [hj, Nat.not_le.mpr hj]
  · have hkj : k ≤ j := Nat.le_of_not_lt hj
    have : a.testBit j = false :=
      Nat.testBit_lt_two_pow (Nat.lt_of_lt_of_le h (Nat.pow_le_pow_right (by decide) hkj))
    simp [hj, this, hkj]

theorem decodeLoop_eq (bs : List Nat) : ∀ (i n : Nat), n < 2 ^ (8 * i) → (∀ b ∈ bs, b < 256) →
    8 * (i + bs.length) ≤ 64 → decodeLoop i n bs = n + 2 ^ (8 * i) * decodeLE bs := by
  induction bs with
  | nil => intro i n _ _ _; simp [decodeLoop, decodeLE]
  | cons b bs ih =>
    intro i n hn hb hlen
    have hb0 : b < 256 := hb b (by simp)
    simp only [List.length_cons] at hlen
    have hpow : 2 ^ (8 * (i + 1)) = 2 ^ (8 * i) * 256 := by
      rw [Nat.mul_add, Nat.pow_add]
    have hP : 0 < 2 ^ (8 * i) := Nat.two_pow_pos _
    have hle : 2 ^ (8 * (i + 1)) ≤ 2 ^ 64 := Nat.pow_le_pow_right (by decide) (by omega)
    have hbP : b * 2 ^ (8 * i) < 2 ^ (8 * (i + 1)) := by
      rw [hpow, Nat.mul_comm]; exact Nat.mul_lt_mul_of_pos_left hb0 hP
    have hsh : (b <<< (8 * i)) % 2 ^ 64 = b <<< (8 * i) := by
      rw [Nat.shiftLeft_eq]; exact Nat.mod_eq_of_lt (Nat.lt_of_lt_of_le hbP hle)
    have hstep : n ^^^ (b <<< (8 * i)) = n + b * 2 ^ (8 * i) := xor_shiftLeft_of_lt hn
    have hn' : n + b * 2 ^ (8 * i) < 2 ^ (8 * (i + 1)) := by
      rw [hpow]
      have : b * 2 ^ (8 * i) ≤ 255 * 2 ^ (8 * i) := Nat.mul_le_mul_right _ (by omega)
      omega
    simp only [decodeLoop, hsh, hstep, decodeLE]
    rw [ih (i + 1) _ hn' (fun x hx => hb x (by simp [hx])) (by omega), hpow]
    rw [Nat.mul_add, Nat.mul_comm b, Nat.mul_assoc, Nat.add_assoc]

theorem decode_encodeLE {n : Nat} (hn : n < 2 ^ 64) : decode (encodeLE 8 n) = n := by
  unfold decode
  rw [decodeLoop_eq _ 0 0 (by decide) (encodeLE_lt 8 n) (by simp [encodeLE_length])]
  simp only [Nat.mul_zero, Nat.pow_zero, Nat.one_mul, Nat.zero_add, decodeLE_encodeLE]
  exact Nat.mod_eq_of_lt (by simpa using hn)

/-! ### the encode loop is the 8-byte little-endian encoding -/

theorem shr_and (n k : Nat) : (n >>> k) &&& 0xff = n / 2 ^ k % 256 := by
  rw [Nat.shiftRight_eq_div_pow]
  exact Nat.and_two_pow_sub_one_eq_mod _ 8

theorem encode_eq (n : Nat) : encode n = encodeLE 8 n := by
  simp only [encode, List.range, List.range.loop, List.map, encodeLE, shr_and]
  simp [Nat.div_div_eq_div_mul]

theorem bump_encodeLE (n : Nat) : bump (encodeLE 8 (n % 2 ^ 64)) = encodeLE 8 ((n + 1) % 2 ^ 64) := by
  unfold bump
  rw [decode_encodeLE (Nat.mod_lt _ (by decide)), encode_eq]
  congr 1
  omega

/-! ### lengths and prefixes of the stream -/

theorem length_flatMap_const {α β : Type} (f : α → List β) (k : Nat) (h : ∀ a, (f a).length = k) (l : List α) :
    (l.flatMap f).length = k * l.length := by
  induction l with
  | nil => simp
  | cons a l ih => simp [List.flatMap_cons, h, ih, Nat.mul_succ, Nat.add_comm]

theorem hash_length (x : List Nat) : (Salsa20.hash x).length = 64 := by
  unfold Salsa20.hash
  rw [length_flatMap_const _ 4 (fun _ => encodeLE_length 4 _)]
  simp

theorem blocks_length (key nonce : List Nat) (nb : Nat) : (blocks key nonce nb).length = 64 * nb := by
  unfold blocks
  rw [length_flatMap_const (block key nonce) 64 (fun j => hash_length _)]
  simp

theorem blocks_prefix (key nonce : List Nat) {nb nb' : Nat} (h : nb ≤ nb') :
    ∃ rest, blocks key nonce nb' = blocks key nonce nb ++ rest := by
  obtain ⟨d, rfl⟩ := Nat.exists_eq_add_of_le h
  unfold blocks
  refine ⟨(List.range' nb d).flatMap (block key nonce), ?_⟩
  rw [← List.flatMap_append, List.range_eq_range', List.range_eq_range', ← List.range'_append_1]
  simp

/-- the first `q + m` blocks are the first `q` blocks followed by the blocks `q, …, q + m - 1` -/
theorem blocks_split (key nonce : List Nat) (q m : Nat) :
    blocks key nonce (q + m) = blocks key nonce q ++ (List.range m).flatMap fun i => block key nonce (q + i) := by
  unfold blocks
  rw [List.range_add, List.flatMap_append, List.flatMap_map]

/-- dropping `64 q + r` bytes of a stream of `64 q + r + n` bytes leaves the `n` bytes that start at byte `r` of block `q` -/
theorem window_eq (key nonce : List Nat) (q r n : Nat) :
    (stream key nonce (64 * q + r + n)).drop (64 * q + r)
      = (((List.range ((r + n + 63) / 64)).flatMap fun i => block key nonce (q + i)).drop r).take n := by
  unfold stream
  have hq : (64 * q + r + n + 63) / 64 = q + (r + n + 63) / 64 := by omega
  have hl : (blocks key nonce q).length = 64 * q := blocks_length _ _ _
  rw [hq, blocks_split, List.drop_take, ← List.drop_drop, ← hl, List.drop_left]
  congr 1
  omega

/-! ### invariants of the state machine -/

theorem seed_nonce (os : Nat → List Nat) (s : State) : (seed os s).nonce = s.nonce := by
  unfold seed; split <;> rfl

theorem next_nonce (os : Nat → List Nat) (s : State) : (next os s).nonce = bump s.nonce := by
  simp [next, seed_nonce]

/-- the key material is in one of two states: never seeded, or seeded by the first call of `randombytes` -/
def KeyInv (os : Nat → List Nat) (s : State) : Prop :=
  (s.init = false ∧ s.seeds = 0) ∨ (s.init = true ∧ s.seeds = 1 ∧ s.key = os 0)

theorem start_inv (os : Nat → List Nat) : KeyInv os start := Or.inl ⟨rfl, rfl⟩

theorem seed_inv {os : Nat → List Nat} {s : State} (h : KeyInv os s) :
    (seed os s).init = true ∧ (seed os s).seeds = 1 ∧ (seed os s).key = os 0 := by
  unfold seed
  rcases h with ⟨hi, hs⟩ | ⟨hi, hs, hk⟩
  · simp [hi, hs]
  · simp [hi, hs, hk]

theorem next_inv {os : Nat → List Nat} {s : State} (h : KeyInv os s) :
    (next os s).init = true ∧ (next os s).seeds = 1 ∧ (next os s).key = os 0 := by
  have := seed_inv h
  simpa [next] using this

/-! ### what a request returns, from any state satisfying the invariants -/

theorem outputs_length (gen : List Nat → List Nat → Nat → List Nat) (os : Nat → List Nat) (lens : List Nat) :
    ∀ s, (outputs gen os s lens).length = lens.length := by
  induction lens with
  | nil => intro s; rfl
  | cons len rest ih => intro s; simp [outputs, ih]

theorem request_output_from (gen : List Nat → List Nat → Nat → List Nat) (os : Nat → List Nat) (lens : List Nat) :
    ∀ (s : State) (m i : Nat), KeyInv os s → s.nonce = encodeLE 8 (m % 2 ^ 64) → (hi : i < lens.length) →
    (outputs gen os s lens)[i]? = some (gen (os 0) (encodeLE 8 ((m + i) % 2 ^ 64)) lens[i]) := by
  induction lens with
  | nil => intro s m i _ _ hi; exact absurd hi (Nat.not_lt_zero _)
  | cons len rest ih =>
    intro s m i hinv hn hi
    cases i with
    | zero =>
      simp only [outputs, List.getElem?_cons_zero, List.getElem_cons_zero, Nat.add_zero, output]
      rw [(seed_inv hinv).2.2, seed_nonce, hn]
    | succ i =>
      have h1 : (next os s).nonce = encodeLE 8 ((m + 1) % 2 ^ 64) := by rw [next_nonce, hn, bump_encodeLE]
      have hinv' : KeyInv os (next os s) := Or.inr (next_inv hinv)
      have := ih (next os s) (m + 1) i hinv' h1 (by simpa using hi)
      simp only [outputs, List.getElem?_cons_succ, List.getElem_cons_succ]
      rw [this]; congr 4; omega

/-! ### seeding happens in the first request only -/

theorem runState_inv (os : Nat → List Nat) (lens : List Nat) : ∀ s, KeyInv os s → lens ≠ [] →
    (runState os s lens).init = true ∧ (runState os s lens).seeds = 1 ∧ (runState os s lens).key = os 0 := by
  induction lens with
  | nil => intro s _ h; exact absurd rfl h
  | cons len rest ih =>
    intro s hinv _
    cases rest with
    | nil => simpa [runState] using next_inv hinv
    | cons l r =>
      have := ih (next os s) (Or.inr (next_inv hinv)) (by simp)
      simpa [runState] using this

end Nfl.C13aux
