/-
Pointwise (index-by-index) description of the hand model's loop structure (`Model/Ntt.lean`: `mapBlocks`, `layerBlock`,
`fused4`): what `Proofs/NttLoopAstEq.lean` compares the index-level code translated from the C++ with.
Core tactics only.
-/
import NflVerif.Model.Ntt

namespace Nfl.NttLoopPt
open Nfl

/-- one layer, pointwise: blocks of `N` words of the memory `f`, table pointers at offset `wo` -/
def layerPt (w p N wo : Nat) (wtab winvtab : List Nat) (f : Nat → Nat) (j : Nat) : Nat :=
  if j % N < N / 2 then bflyLo w p (f j) (f (j + N / 2))
  else bflyHi w p (f (j - N / 2)) (f j) (wtab.getD (wo + (j % N - N / 2)) 0) (winvtab.getD (wo + (j % N - N / 2)) 0)

/-- the fused last two layers, pointwise: blocks of 4 words -/
def fusedPt (w p w1 w1' : Nat) (f : Nat → Nat) (j : Nat) : Nat :=
  (fused4 w p w1 w1' [f (j - j % 4), f (j - j % 4 + 1), f (j - j % 4 + 2), f (j - j % 4 + 3)]).getD (j % 4) 0

theorem hiList_spec (w p : Nat) : ∀ (h : Nat) (a b c d : List Nat),
    a.length = h → b.length = h → c.length = h → d.length = h →
    (hiList w p a b c d).length = h ∧
    ∀ i, i < h → (hiList w p a b c d).getD i 0 =
      bflyHi w p (a.getD i 0) (b.getD i 0) (c.getD i 0) (d.getD i 0) := by
  intro h
  induction h with
  | zero =>
    intro a b c d ha hb hc hd
    cases a with
    | nil => simp [hiList]
    | cons _ _ => simp at ha
  | succ h ih =>
    intro a b c d ha hb hc hd
    cases a with
    | nil => simp at ha
    | cons u0 a =>
    cases b with
    | nil => simp at hb
    | cons u1 b =>
    cases c with
    | nil => simp at hc
    | cons wt c =>
    cases d with
    | nil => simp at hd
    | cons wt' d =>
      simp at ha hb hc hd
      obtain ⟨hl, hg⟩ := ih a b c d ha hb hc hd
      refine ⟨by simp [hiList, hl], ?_⟩
      intro i hi
      cases i with
      | zero => simp [hiList]
      | succ i =>
        simp only [hiList, List.getD_cons_succ]
        exact hg i (by omega)

theorem take_drop_getD (l : List Nat) (a N i : Nat) (hi : i < N) :
    ((l.drop a).take N).getD i 0 = l.getD (a + i) 0 := by
  simp [List.getD_eq_getElem?_getD, List.getElem?_drop, hi]

theorem take_drop_length (l : List Nat) (a N : Nat) (h : a + N ≤ l.length) :
    ((l.drop a).take N).length = N := by
  simp; omega

theorem layerBlock_spec (w p h : Nat) (ws ws' b : List Nat) (hb : b.length = 2 * h)
    (hws : ws.length = h) (hws' : ws'.length = h) :
    (layerBlock w p ws ws' b).length = 2 * h ∧
    ∀ i, i < 2 * h → (layerBlock w p ws ws' b).getD i 0 =
      if i < h then bflyLo w p (b.getD i 0) (b.getD (i + h) 0)
      else bflyHi w p (b.getD (i - h) 0) (b.getD i 0) (ws.getD (i - h) 0) (ws'.getD (i - h) 0) := by
  have hh : b.length / 2 = h := by omega
  have ht : (b.take h).length = h := by simp; omega
  have hd : (b.drop h).length = h := by simp; omega
  obtain ⟨hl, hg⟩ := hiList_spec w p h (b.take h) (b.drop h) ws ws' ht hd hws hws'
  have hz : (List.zipWith (bflyLo w p) (b.take h) (b.drop h)).length = h := by
    simp [ht, hd]
  unfold layerBlock
  simp only [hh]
  refine ⟨by simp only [List.length_append, hz, hl]; omega, ?_⟩
  intro i hi
  by_cases hlt : i < h
  · simp only [hlt, if_true]
    rw [List.getD_eq_getElem?_getD, List.getElem?_append_left (by omega)]
    have h1 : b[i]? = some (b[i]'(by omega)) := List.getElem?_eq_getElem _
    have h2 : b[h + i]? = some (b[h + i]'(by omega)) := List.getElem?_eq_getElem _
    simp [List.getD_eq_getElem?_getD, List.getElem?_zipWith, List.getElem?_drop, hlt, h1, h2,
      Nat.add_comm i h]
  · simp only [hlt, if_false]
    rw [List.getD_eq_getElem?_getD, List.getElem?_append_right (by omega), hz,
      ← List.getD_eq_getElem?_getD, hg (i - h) (by omega)]
    have e : h + (i - h) = i := by omega
    have e2 : i - h < h := by omega
    simp [List.getD_eq_getElem?_getD, List.getElem?_drop, e, e2]

theorem mapBlocks_spec (N : Nat) (f : List Nat → List Nat)
    (hf : ∀ l : List Nat, l.length = N → (f l).length = N) :
    ∀ (M : Nat) (x : List Nat), x.length = N * M →
      (mapBlocks N f M x).length = N * M ∧
      ∀ q i, q < M → i < N →
        (mapBlocks N f M x).getD (N * q + i) 0 = (f ((x.drop (N * q)).take N)).getD i 0 := by
  intro M
  induction M with
  | zero => intro x _; simp [mapBlocks]
  | succ M ih =>
    intro x hx
    have hx' : x.length = N * M + N := by rw [hx, Nat.mul_succ]
    have htk : (x.take N).length = N := by simp; omega
    have hdr : (x.drop N).length = N * M := by simp; omega
    obtain ⟨hl, hg⟩ := ih (x.drop N) hdr
    have hfl := hf _ htk
    unfold mapBlocks
    refine ⟨by simp only [List.length_append, hfl, hl, Nat.mul_succ]; omega, ?_⟩
    intro q i hq hi
    cases q with
    | zero =>
      simp only [Nat.mul_zero, Nat.zero_add, List.drop_zero]
      rw [List.getD_eq_getElem?_getD, List.getElem?_append_left (by omega),
        ← List.getD_eq_getElem?_getD]
    | succ q =>
      rw [List.getD_eq_getElem?_getD, List.getElem?_append_right (by rw [hfl, Nat.mul_succ]; omega), hfl,
        ← List.getD_eq_getElem?_getD]
      have e : N * (q + 1) + i - N = N * q + i := by rw [Nat.mul_succ]; omega
      rw [e, hg q i (by omega) hi, List.drop_drop]
      have e3 : N + N * q = N * (q + 1) := by rw [Nat.mul_succ]; omega
      first
        | rw [e3]
        | (rw [Nat.add_comm] ; rw [e3])

theorem mapBlocks_spec_div (N : Nat) (f : List Nat → List Nat) (hN : 0 < N)
    (hf : ∀ l : List Nat, l.length = N → (f l).length = N)
    (M : Nat) (x : List Nat) (hx : x.length = N * M) (j : Nat) (hj : j < N * M) :
    (mapBlocks N f M x).getD j 0 = (f ((x.drop (N * (j / N))).take N)).getD (j % N) 0 := by
  have h := (mapBlocks_spec N f hf M x hx).2 (j / N) (j % N)
    ((Nat.div_lt_iff_lt_mul hN).2 (by rw [Nat.mul_comm]; exact hj)) (Nat.mod_lt _ hN)
  rw [Nat.div_add_mod] at h
  exact h

theorem mapBlocks_layer_getD (w p h M wo : Nat) (wtab winvtab x : List Nat) (hh : 0 < h) (hx : x.length = 2 * h * M)
    (hw : wo + h ≤ wtab.length) (hwi : wo + h ≤ winvtab.length) :
    (mapBlocks (2 * h) (layerBlock w p ((wtab.drop wo).take h) ((winvtab.drop wo).take h)) M x).length = 2 * h * M ∧
    ∀ j, j < 2 * h * M →
      (mapBlocks (2 * h) (layerBlock w p ((wtab.drop wo).take h) ((winvtab.drop wo).take h)) M x).getD j 0 =
        layerPt w p (2 * h) wo wtab winvtab (fun i => x.getD i 0) j := by
  have hws := take_drop_length wtab wo h hw
  have hws' := take_drop_length winvtab wo h hwi
  have hf : ∀ l : List Nat, l.length = 2 * h →
      (layerBlock w p ((wtab.drop wo).take h) ((winvtab.drop wo).take h) l).length = 2 * h :=
    fun l hl => (layerBlock_spec w p h _ _ l hl hws hws').1
  refine ⟨(mapBlocks_spec (2 * h) _ hf M x hx).1, ?_⟩
  intro j hj
  rw [mapBlocks_spec_div (2 * h) _ (by omega) hf M x hx j hj]
  have hq : j / (2 * h) < M := (Nat.div_lt_iff_lt_mul (by omega)).2 (by rw [Nat.mul_comm]; exact hj)
  have hi : j % (2 * h) < 2 * h := Nat.mod_lt _ (by omega)
  have hdm : 2 * h * (j / (2 * h)) + j % (2 * h) = j := Nat.div_add_mod j (2 * h)
  have hbl : ((x.drop (2 * h * (j / (2 * h)))).take (2 * h)).length = 2 * h := by
    apply take_drop_length
    have : 2 * h * (j / (2 * h)) + 2 * h = 2 * h * (j / (2 * h) + 1) := by rw [Nat.mul_succ]
    rw [this, hx]
    exact Nat.mul_le_mul_left _ hq
  rw [(layerBlock_spec w p h _ _ _ hbl hws hws').2 _ hi]
  have hN2 : 2 * h / 2 = h := by omega
  unfold layerPt
  simp only [hN2]
  generalize j / (2 * h) = q at *
  generalize j % (2 * h) = i at *
  by_cases hlt : i < h
  · simp only [hlt, if_true]
    rw [take_drop_getD _ _ _ _ hi, take_drop_getD _ _ _ _ (by omega : i + h < 2 * h)]
    have : 2 * h * q + (i + h) = j + h := by omega
    rw [this, hdm]
  · simp only [hlt, if_false]
    rw [take_drop_getD _ _ _ _ hi, take_drop_getD _ _ _ _ (by omega : i - h < 2 * h),
      take_drop_getD _ _ _ _ (by omega : i - h < h), take_drop_getD _ _ _ _ (by omega : i - h < h)]
    have : 2 * h * q + (i - h) = j - h := by omega
    rw [this, hdm]

theorem list4_eq (l : List Nat) (hl : l.length = 4) :
    l = [l.getD 0 0, l.getD 1 0, l.getD 2 0, l.getD 3 0] := by
  match l, hl with
  | [a, b, c, d], _ => simp

theorem fused4_length (w p w1 w1' : Nat) (l : List Nat) (hl : l.length = 4) :
    (fused4 w p w1 w1' l).length = 4 := by
  match l, hl with
  | [a, b, c, d], _ => simp [fused4]

theorem mapBlocks_fused_getD (w p w1 w1' M : Nat) (x : List Nat) (hx : x.length = 4 * M) :
    (mapBlocks 4 (fused4 w p w1 w1') M x).length = 4 * M ∧
    ∀ j, j < 4 * M → (mapBlocks 4 (fused4 w p w1 w1') M x).getD j 0 = fusedPt w p w1 w1' (fun i => x.getD i 0) j := by
  have hf := fused4_length w p w1 w1'
  refine ⟨(mapBlocks_spec 4 _ hf M x hx).1, ?_⟩
  intro j hj
  rw [mapBlocks_spec_div 4 _ (by omega) hf M x hx j hj]
  have hbl : ((x.drop (4 * (j / 4))).take 4).length = 4 := by
    apply take_drop_length; omega
  unfold fusedPt
  have e : j - j % 4 = 4 * (j / 4) := by omega
  rw [e, list4_eq _ hbl]
  simp only [take_drop_getD _ _ _ _ (by omega : 0 < 4), take_drop_getD _ _ _ _ (by omega : 1 < 4),
    take_drop_getD _ _ _ _ (by omega : 2 < 4), take_drop_getD _ _ _ _ (by omega : 3 < 4), Nat.add_zero]

end Nfl.NttLoopPt
