/-
Whole-function equality of the generated depth-1 `buildLookupTables` (`Generated/LutAst.lean`) with the hand model `Gauss.buildLUT1`.
-/
import NflVerif.Proofs.LutAstEq

set_option linter.unusedVariables false
set_option linter.unusedSimpArgs false
namespace Nfl.Gen
open Nfl Nfl.Gauss Nfl.CGauss Nfl.CLut

/-! ### the initial value and the bound of `val` (32-bit `int` arithmetic, then widened to `int64_t`) -/

theorem sval_small (m : Nat) (h : m < 2 ^ 31) : CSem.sval m = (m : Int) := by
  unfold CSem.sval; split <;> omega

theorem sval_neg_small (m : Nat) (h : m < 2 ^ 31) : CSem.sval (CGauss.negS32 m) = -(m : Int) := by
  unfold CSem.sval CGauss.negS32; split <;> omega

theorem halfG_pos (nb : Nat) (h1 : 1 ≤ nb) (h31 : nb < 2 ^ 31) :
    CLut.divS32 (CSem.subS32 (CSem.castUS 32 nb) 1) 2 = (nb - 1) / 2 := by
  have e : CSem.subS32 (CSem.castUS 32 nb) 1 = nb - 1 := by unfold CSem.subS32 CSem.castUS; omega
  unfold CLut.divS32
  rw [e, sval_small _ (by omega), sval_small 2 (by omega), Int.tdiv_eq_ediv_of_nonneg (by omega)]
  omega

theorem halfG_neg (nb : Nat) (h1 : 1 ≤ nb) (h31 : nb < 2 ^ 31) :
    CLut.divS32 (CGauss.negS32 (CSem.subS32 (CSem.castUS 32 nb) 1)) 2 = enc 32 (-(((nb - 1) / 2 : Nat) : Int)) := by
  have e : CSem.subS32 (CSem.castUS 32 nb) 1 = nb - 1 := by unfold CSem.subS32 CSem.castUS; omega
  unfold CLut.divS32 enc
  rw [e, sval_neg_small _ (by omega), sval_small 2 (by omega), Int.neg_tdiv, Int.tdiv_eq_ediv_of_nonneg (by omega)]
  congr 1

theorem widen_enc (x : Int) (hlo : -(2 ^ 31 : Int) ≤ x) (hhi : x < 2 ^ 31) : CSem.castSS 32 64 (enc 32 x) = enc 64 x := by
  unfold CSem.castSS enc; split <;> omega

theorem add32_enc (x y : Int) : CGauss.addS 32 (enc 32 x) (enc 32 y) = enc 32 (x + y) := by
  unfold CGauss.addS enc; omega

theorem enc32_nat (m : Nat) (h : m < 2 ^ 31) : enc 32 (m : Int) = m := by unfold enc; omega

theorem v0G_eq (nb : Nat) (rc : Int) (h1 : 1 ≤ nb) (h31 : nb < 2 ^ 31) (hv0 : -(2 ^ 31 : Int) ≤ v0Of nb rc)
    (hv0' : v0Of nb rc < 2 ^ 31) : v0G nb (enc 32 rc) = enc 64 (v0Of nb rc) := by
  unfold v0G
  rw [halfG_neg nb h1 h31, add32_enc]
  exact widen_enc _ hv0 hv0'

theorem vmaxG_eq (nb : Nat) (rc : Int) (h1 : 1 ≤ nb) (h31 : nb < 2 ^ 31) (hvm : -(2 ^ 31 : Int) ≤ vmaxOf nb rc)
    (hvm' : vmaxOf nb rc < 2 ^ 31) : vmaxG nb (enc 32 rc) = enc 64 (vmaxOf nb rc) := by
  unfold vmaxG
  rw [halfG_pos nb h1 h31, ← enc32_nat ((nb - 1) / 2) (by omega), add32_enc]
  exact widen_enc _ hvm hvm'

/-! ### the outer loop, depth 1 -/

/-- the generated body as a chain of binds (definitional) -/
theorem outer1Body_def (cout : Nat → Nat) (nb W : Nat) (bs : List (List Nat)) (fc : Nat) (T : Array CCell) (lu1 val b : Nat) :
    outer1Body cout nb W bs (fc, T, lu1, val, b) =
      (whileFuel (W + 1) (fillCond W bs b) (fillBody cout val) (T, lu1)).bind fun r =>
      (setVal r.1 r.2 (cout val)).bind fun T2 =>
      (setFlag T2 r.2 true).bind fun T3 =>
      (barAt 64 bs b).bind fun p =>
      (pushBack T3 r.2 p).bind fun T4 =>
      (whileFuel (CSem.castUSw 64 nb + 1) (run1Cond nb bs r.2) (run1Body bs r.2) (T4, CGauss.addS 64 val 1, CGauss.addS 64 b 1)).bind fun q =>
      some (CSem.addU 32 fc 1, q.1, CSem.addU 32 r.2 1, q.2.1, q.2.2) := rfl

/-- one pass through the body of the model's outer loop -/
def step1 (W : Nat) (ba : Array Str) (s : BSt) : Option BSt :=
  match bword ba s.b 0 with
  | none => none
  | some first =>
    match fillLoop W first s.val (W + 1) s.lu1 s.t1 with
    | none => none
    | some (lu1, t) =>
      match ba[s.b]? with
      | none => none
      | some s0 =>
        match runLoop1 ba lu1 (ba.size + 1) (s.b + 1) (s.val + 1) [s0] with
        | none => none
        | some (b', val', run) =>
          match wr t lu1 (fun c => { val := s.val, flag := true, bl := c.bl ++ run }) with
          | none => none
          | some t' => some { s with lu1 := lu1 + 1, val := val', b := b', t1 := t' }

theorem outer1_succ (W : Nat) (ba : Array Str) (vmax : Int) (fuel : Nat) (s : BSt) :
    outer1 W ba vmax (fuel + 1) s =
      if s.val ≤ vmax ∧ s.lu1 < W then (step1 W ba s).bind (outer1 W ba vmax fuel) else some s := by
  rw [outer1, step1]
  split
  · repeat' split
    all_goals simp_all
  · rfl

theorem castUSw64_small (nb : Nat) (h : nb < 2 ^ 31) : CSem.castUSw 64 nb = nb := by
  simp only [CSem.castUSw]; omega
theorem addS64_small (b : Nat) (h : b < 2 ^ 31) : CGauss.addS 64 b 1 = b + 1 := by
  simp only [CGauss.addS]; omega
theorem addU32_small (b : Nat) (h : b < 2 ^ 31) : CSem.addU 32 b 1 = b + 1 := by
  simp only [CSem.addU]; omega

/-- the three stores into the cell `lu1` -/
theorem cell_stores (ob : Nat) (cout : Nat → Nat) (hc : CoutOK ob cout) (t : Array Cell) (i : Nat) (hi : i < t.size) (v : Int) (s0 : Str)
    {β : Type} (k : Array CCell → Option β) :
    ((setVal (encA ob t) i (cout (enc 64 v))).bind fun T2 => (setFlag T2 i true).bind fun T3 => (pushBack T3 i ⟨s0, 0⟩).bind k) =
      k (encA ob (t.set i { val := v, flag := true, bl := t[i].bl ++ [s0] })) := by
  rw [hc v, setVal_enc, wr_some _ _ _ hi, Option.map_some, Option.bind_some, setFlag_enc, wr_some _ _ _ (by simpa using hi),
    Option.map_some, Option.bind_some, pushBack_enc, wr_some _ _ _ (by simpa using hi)]
  simp [Array.set_set, addBl]

theorem cell_stores_none (ob : Nat) (cout : Nat → Nat) (hc : CoutOK ob cout) (t : Array Cell) (i : Nat) (hi : ¬ i < t.size) (v : Int)
    {β : Type} (f : Array CCell → Option β) :
    ((setVal (encA ob t) i (cout (enc 64 v))).bind f) = none := by
  rw [hc v, setVal_enc, wr_none _ _ _ hi]; rfl

theorem outer1Body_eq (ob nb W : Nat) (cout : Nat → Nat) (hc : CoutOK ob cout) (bs : List Str) (hnb : nb = bs.length)
    (hn31 : nb < 2 ^ 31) (hsm : ∀ s ∈ bs, Small s) (hW : W < 2 ^ 31)
    (fc lu1 b : Nat) (v : Int) (t : Array Cell) (t2 : Array (Option (Array Cell))) (hb : b ≤ nb) (hlu : lu1 < W) :
    outer1Body cout nb W bs (fc, encA ob t, lu1, enc 64 v, b) =
      (step1 W bs.toArray ⟨lu1, v, b, t, t2⟩).map (fun s' => (CSem.addU 32 fc 1, encA ob s'.t1, s'.lu1, enc 64 s'.val, s'.b)) := by
  have hb63 : b < 2 ^ 63 := by omega
  rw [outer1Body_def, step1]
  by_cases hbn : b < nb
  · have hbl : b < bs.length := by omega
    have hs : bs[b]? = some bs[b] := List.getElem?_eq_getElem hbl
    have hget : bs.toArray[b]? = some bs[b] := by simp [hs]
    have hss : Small bs[b] := hsm _ (List.mem_of_getElem? hs)
    cases h0 : bs[b][0]? with
    | none =>
      have hcnd : fillCond W bs b (encA ob t, lu1) = none := by
        simp [fillCond, barAt_nat _ _ hb63, hs, idxS_nat _ _ (show 0 < 2 ^ 31 by omega), h0]
      rw [wf_none _ _ _ _ hcnd]
      simp [bword, hget, h0]
    | some w0 =>
      have hw0 : w0 < 2 ^ 31 := hss w0 (List.mem_of_getElem? h0)
      have hbw : bword bs.toArray b 0 = some w0 := by simp [bword, hget, h0]
      rw [fill_sim ob W cout hc bs b hb63 bs[b] w0 hs h0 hw0 (by omega) v (W + 1) lu1 t]
      simp only [hbw]
      cases hfl : fillLoop W w0 v (W + 1) lu1 t with
      | none => rfl
      | some r =>
        obtain ⟨lu1', t'⟩ := r
        have hle : lu1' ≤ W := fillLoop_le W w0 v (W + 1) lu1 t _ hfl (by omega)
        simp only [Option.map_some, Option.bind_some, hget]
        by_cases hi : lu1' < t'.size
        · rw [barAt_nat _ _ hb63, hs]
          simp only [Option.map_some, Option.bind_some]
          rw [cell_stores ob cout hc t' lu1' hi v bs[b], enc64_succ, addS64_small b (by omega), castUSw64_small nb hn31,
            run1_sim ob nb bs hnb hn31 hsm lu1' (nb + 1) (b + 1) (by omega) (v + 1) _ (by simpa using hi),
            runLoop1_acc _ _ _ _ _ [bs[b]], addU32_small lu1' (by omega)]
          have hsz : bs.toArray.size = nb := by simp [hnb]
          rw [hsz]
          cases runLoop1 bs.toArray lu1' (nb + 1) (b + 1) (v + 1) [] with
          | none => rfl
          | some q =>
            obtain ⟨b', v', run⟩ := q
            simp [wr_some _ _ _ hi, Array.set_set, addBl]
        · rw [cell_stores_none ob cout hc t' lu1' hi v]
          cases runLoop1 bs.toArray lu1' (bs.toArray.size + 1) (b + 1) (v + 1) [bs[b]] with
          | none => rfl
          | some q => simp [wr_none _ _ _ hi]
  · have hbl : ¬ b < bs.length := by omega
    have hcnd : fillCond W bs b (encA ob t, lu1) = none := by
      simp [fillCond, barAt_nat _ _ hb63, hbl]
    rw [wf_none _ _ _ _ hcnd]
    simp [bword, hbl]

/-- the invariant of the outer loop: `b_index` only grows, stays `≤ nb`, and `val` grows with it -/
theorem step1_inv (W : Nat) (ba : Array Str) (s s' : BSt) (h : step1 W ba s = some s') :
    s.b < s'.b ∧ s'.b ≤ ba.size ∧ s'.val = s.val + ((s'.b - s.b : Nat) : Int) := by
  unfold step1 at h
  cases hbw : bword ba s.b 0 with
  | none => simp [hbw] at h
  | some first =>
    have hbs : s.b < ba.size := by
      unfold bword at hbw
      by_cases hlt : s.b < ba.size
      · exact hlt
      · simp [Array.getElem?_eq_none (Nat.le_of_not_lt hlt)] at hbw
    simp only [hbw] at h
    cases hfl : fillLoop W first s.val (W + 1) s.lu1 s.t1 with
    | none => simp [hfl] at h
    | some r =>
      obtain ⟨lu1, t⟩ := r
      simp only [hfl] at h
      cases hg : ba[s.b]? with
      | none => simp [hg] at h
      | some s0 =>
        simp only [hg] at h
        cases hr : runLoop1 ba lu1 (ba.size + 1) (s.b + 1) (s.val + 1) [s0] with
        | none => simp [hr] at h
        | some q =>
          obtain ⟨b', v', run⟩ := q
          simp only [hr] at h
          have hrange := runLoop1_range _ _ _ _ _ _ _ hr
          cases hw : wr t lu1 (fun c => { val := s.val, flag := true, bl := c.bl ++ run }) with
          | none => simp [hw] at h
          | some t' =>
            simp only [hw, Option.some.injEq] at h
            subst h
            simp only at hrange ⊢
            omega

theorem outer1Cond_eq (nb W rc32 : Nat) (vmax : Int) (hvm : -(2 ^ 63 : Int) ≤ vmax) (hvm' : vmax < 2 ^ 63)
    (hG : vmaxG nb rc32 = enc 64 vmax) (fc : Nat) (T : Array CCell) (lu1 b : Nat) (v : Int)
    (hv : -(2 ^ 63 : Int) ≤ v) (hv' : v < 2 ^ 63) :
    outer1Cond nb W rc32 (fc, T, lu1, enc 64 v, b) = some (decide (v ≤ vmax ∧ lu1 < W)) := by
  simp only [outer1Cond, hG, leS64_enc v vmax hv hv' hvm hvm', CSem.ltU, Option.pure_def, Bool.decide_and]

theorem outer1_sim (ob nb W : Nat) (cout : Nat → Nat) (hc : CoutOK ob cout) (bs : List Str) (hnb : nb = bs.length)
    (hn31 : nb < 2 ^ 31) (hsm : ∀ s ∈ bs, Small s) (hW : W < 2 ^ 31) (rc32 : Nat) (v0 vmax : Int)
    (hv0 : -(2 ^ 31 : Int) ≤ v0) (hv0' : v0 < 2 ^ 31) (hvm : -(2 ^ 31 : Int) ≤ vmax) (hvm' : vmax < 2 ^ 31)
    (hG : vmaxG nb rc32 = enc 64 vmax) (fuel fc : Nat) (s : BSt) (hb : s.b ≤ nb) (hv : s.val = v0 + (s.b : Int)) :
    (whileFuel fuel (outer1Cond nb W rc32) (outer1Body cout nb W bs) (fc, encA ob s.t1, s.lu1, enc 64 s.val, s.b)).map (fun r => r.2.1) =
      (outer1 W bs.toArray vmax fuel s).map (fun s' => encA ob s'.t1) := by
  induction fuel generalizing fc s with
  | zero => rfl
  | succ n ih =>
    have hcnd := outer1Cond_eq nb W rc32 vmax (by omega) (by omega) hG fc (encA ob s.t1) s.lu1 s.b s.val (by omega) (by omega)
    rw [outer1_succ]
    by_cases hcd : s.val ≤ vmax ∧ s.lu1 < W
    · rw [if_pos hcd]
      have hcnd' : outer1Cond nb W rc32 (fc, encA ob s.t1, s.lu1, enc 64 s.val, s.b) = some true := by
        rw [hcnd]; simp [hcd]
      have hbody := outer1Body_eq ob nb W cout hc bs hnb hn31 hsm hW fc s.lu1 s.b s.val s.t1 s.t2 hb hcd.2
      cases hst : step1 W bs.toArray s with
      | none =>
        have hst' : step1 W bs.toArray ⟨s.lu1, s.val, s.b, s.t1, s.t2⟩ = none := hst
        rw [hst'] at hbody
        rw [wf_true_none _ _ _ _ hcnd' hbody]; rfl
      | some s' =>
        have hst' : step1 W bs.toArray ⟨s.lu1, s.val, s.b, s.t1, s.t2⟩ = some s' := hst
        rw [hst'] at hbody
        have hinv := step1_inv _ _ _ _ hst
        have hsz : bs.toArray.size = nb := by simp [hnb]
        rw [wf_true _ _ _ _ _ hcnd' hbody, ih _ s' (by omega) (by omega)]
        rfl
    · rw [if_neg hcd]
      have hcnd' : outer1Cond nb W rc32 (fc, encA ob s.t1, s.lu1, enc 64 s.val, s.b) = some false := by
        rw [hcnd]; simp [hcd]
      rw [wf_false _ _ _ _ hcnd']; rfl

theorem encA_replicate (ob W : Nat) : newCells W = encA ob (Array.replicate W default) := by
  have e : encCell ob default = ⟨0, false, []⟩ := by
    show encCell ob ⟨0, false, []⟩ = _
    simp [encCell, enc]
  unfold newCells encA
  rw [Array.map_replicate, e]

theorem buildG1_def (cout : Nat → Nat) (nb W rc : Nat) (bs : List (List Nat)) :
    buildG1 cout nb W rc bs = (whileFuel (W + 1) (outer1Cond nb W rc) (outer1Body cout nb W bs)
      (CSem.castSU 32 0, newCells (CSem.castU 64 W), CSem.castSU 32 0, v0G nb rc, CSem.castSS 32 64 0)).bind
        fun r => some (r.1, CSem.castSU 32 0, r.2.1) := rfl

theorem buildLUT1_def (W : Nat) (bs : List Str) (rc : Int) :
    buildLUT1 W bs rc = (outer1 W bs.toArray (vmaxOf bs.length rc) (W + 1)
      { lu1 := 0, val := v0Of bs.length rc, b := 0, t1 := Array.replicate W default, t2 := #[] }).map (fun s => ⟨s.t1, s.t2⟩) := by
  unfold buildLUT1
  simp only []
  split <;> simp_all

/-- **the generated depth-1 builder equals the hand model `buildLUT1`** (for every barrier list with first words that fit `int`) -/
theorem buildG1_eq (ob nb W : Nat) (cout : Nat → Nat) (hc : CoutOK ob cout) (bs : List Str) (rc : Int) (hnb : nb = bs.length)
    (hnb1 : 1 ≤ nb) (hn31 : nb < 2 ^ 31) (hsm : ∀ s ∈ bs, Small s) (hW : W < 2 ^ 31)
    (hrc : -(2 ^ 31 : Int) ≤ rc) (hrc' : rc < 2 ^ 31) (hv0 : -(2 ^ 31 : Int) ≤ v0Of nb rc) (hvm : vmaxOf nb rc < 2 ^ 31) :
    (buildG1 cout nb W (enc 32 rc) bs).map (fun r => r.2.2) = (buildLUT1 W bs rc).map (fun T => encA ob T.t1) := by
  have hv0' : v0Of nb rc < 2 ^ 31 := by unfold v0Of; omega
  have hvm0 : -(2 ^ 31 : Int) ≤ vmaxOf nb rc := by unfold vmaxOf; omega
  have hG := vmaxG_eq nb rc hnb1 hn31 hvm0 hvm
  have h0 := v0G_eq nb rc hnb1 hn31 hv0 hv0'
  have hsim := outer1_sim ob nb W cout hc bs hnb hn31 hsm hW (enc 32 rc) (v0Of nb rc) (vmaxOf nb rc) hv0 hv0' hvm0 hvm hG (W + 1)
    (CSem.castSU 32 0) ⟨0, v0Of nb rc, 0, Array.replicate W default, #[]⟩ (Nat.zero_le _) (by simp)
  have hW64 : CSem.castU 64 W = W := by simp only [CSem.castU]; omega
  have hz : CSem.castSU 32 0 = 0 := by decide
  have hz' : CSem.castSS 32 64 0 = 0 := by decide
  rw [buildG1_def, buildLUT1_def]
  rw [h0, hW64, hz', encA_replicate ob W, ← hnb]
  simp only [] at hsim
  rw [hz] at hsim ⊢
  generalize whileFuel (W + 1) (outer1Cond nb W (enc 32 rc)) (outer1Body cout nb W bs)
      (0, encA ob (Array.replicate W default), 0, enc 64 (v0Of nb rc), 0) = x at hsim ⊢
  generalize outer1 W bs.toArray (vmaxOf nb rc) (W + 1) ⟨0, v0Of nb rc, 0, Array.replicate W default, #[]⟩ = y at hsim ⊢
  cases x with
  | none => cases y with
    | none => rfl
    | some s => cases hsim
  | some r => cases y with
    | none => cases hsim
    | some s =>
      simp only [Option.map_some, Option.some.injEq] at hsim
      obtain ⟨a, b, c, d, e⟩ := r
      simpa using hsim

end Nfl.Gen
