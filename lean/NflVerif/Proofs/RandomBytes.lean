/-
Invariants of the `randombytes` model (helper lemmas for Properties/C19.lean).  Core Lean only.
-/
import NflVerif.Model.RandomBytes
import NflVerif.Spec.RandomBytesSpec
namespace Nfl.RB

/-! ### bookkeeping on `Result` -/

@[simp] theorem addLog_log (l : List Call) (r : Result) : (r.addLog l).log = l ++ r.log := by
  cases r <;> rfl
@[simp] theorem addLog_buf (l : List Call) (r : Result) : (r.addLog l).buf = r.buf := by
  cases r <;> rfl
@[simp] theorem addLog_isDone (l : List Call) (r : Result) : (r.addLog l).isDone = r.isDone := by
  cases r <;> rfl

theorem addLog_eq_done {l : List Call} {r : Result} {b lg rest f} :
    r.addLog l = .done b lg rest f ↔ ∃ lg', r = .done b lg' rest f ∧ lg = l ++ lg' := by
  cases r with
  | done b' l' r' f' =>
    simp only [Result.addLog, Result.done.injEq]
    constructor
    · rintro ⟨rfl, rfl, rfl, rfl⟩; exact ⟨l', ⟨rfl, rfl, rfl, rfl⟩, rfl⟩
    · rintro ⟨lg', ⟨rfl, rfl, rfl, rfl⟩, rfl⟩; exact ⟨rfl, rfl, rfl, rfl⟩
  | stopped w b' l' f' => simp [Result.addLog]

theorem addLog_eq_stopped {l : List Call} {r : Result} {w b lg f} :
    r.addLog l = .stopped w b lg f ↔ ∃ lg', r = .stopped w b lg' f ∧ lg = l ++ lg' := by
  cases r with
  | done b' l' r' f' => simp [Result.addLog]
  | stopped w' b' l' f' =>
    simp only [Result.addLog, Result.stopped.injEq]
    constructor
    · rintro ⟨rfl, rfl, rfl, rfl⟩; exact ⟨l', ⟨rfl, rfl, rfl, rfl⟩, rfl⟩
    · rintro ⟨lg', ⟨rfl, rfl, rfl, rfl⟩, rfl⟩; exact ⟨rfl, rfl, rfl, rfl⟩

/-! ### memory -/

/-- storing `bs` right after the part already filled, inside the part still unset -/
theorem writeAt_fresh (pre : Mem) (rem : Nat) (bs : List Nat) :
    writeAt (pre ++ List.replicate rem none) pre.length bs
      = (pre ++ bs.map some) ++ List.replicate (rem - bs.length) none := by
  unfold writeAt
  rw [List.take_left', List.drop_append]
  · simp [List.drop_replicate]
  · rfl

/-- only read outcomes -/
def isRead : Outcome → Bool
  | .readErr | .readZero | .readBytes _ => true
  | _ => false

theorem delivered_append (a b : List Outcome) : delivered (a ++ b) = delivered a ++ delivered b := by
  induction a with
  | nil => rfl
  | cons o s ih => cases o <;> simp [delivered, ih]

theorem all_isRead_append {a b : List Outcome} :
    (a ++ b).all isRead = (a.all isRead && b.all isRead) := by simp

/-! ### the read loop: buffer -/

/-- if the read loop returns, it consumed a prefix `used` of read outcomes whose delivered bytes are exactly
    the `rem` bytes wanted, stored in order right after what was already filled -/
theorem readLoop_done (fd : Nat) : ∀ (script : List Outcome) (pre : Mem) (rem : Nat) {buf log rest f},
    readLoop fd script (pre ++ List.replicate rem none) pre.length rem = .done buf log rest f →
    f = fd ∧ ∃ used, script = used ++ rest ∧ used.all isRead = true ∧
      buf = pre ++ (delivered used).map some ∧ (delivered used).length = rem := by
  intro script
  induction script with
  | nil =>
    intro pre rem buf log rest f h
    unfold readLoop at h
    by_cases hr : rem = 0
    · subst hr
      simp at h
      obtain ⟨rfl, _, rfl, rfl⟩ := h
      exact ⟨rfl, [], rfl, rfl, by simp [delivered], rfl⟩
    · simp [hr] at h
  | cons o s ih =>
    intro pre rem buf log rest f h
    unfold readLoop at h
    by_cases hr : rem = 0
    · subst hr
      simp at h
      obtain ⟨rfl, _, rfl, rfl⟩ := h
      exact ⟨rfl, [], rfl, rfl, by simp [delivered], rfl⟩
    · simp only [hr, if_false] at h
      cases o with
      | openFail => simp at h
      | openOk g => simp at h
      | readErr =>
        simp only [addLog_eq_done] at h
        obtain ⟨lg', h, _⟩ := h
        obtain ⟨hf, used, hs, hu, hb, hl⟩ := ih pre rem h
        exact ⟨hf, .readErr :: used, by simp [hs], by simp [isRead, hu], by simpa [delivered] using hb,
          by simpa [delivered] using hl⟩
      | readZero =>
        simp only [addLog_eq_done] at h
        obtain ⟨lg', h, _⟩ := h
        obtain ⟨hf, used, hs, hu, hb, hl⟩ := ih pre rem h
        exact ⟨hf, .readZero :: used, by simp [hs], by simp [isRead, hu], by simpa [delivered] using hb,
          by simpa [delivered] using hl⟩
      | readBytes bs =>
        simp only at h
        by_cases hov : min rem chunk < bs.length
        · simp [hov] at h
        · simp only [hov, if_false] at h
          by_cases hz : bs.length < 1
          · simp only [hz, if_true, addLog_eq_done] at h
            obtain ⟨lg', h, _⟩ := h
            obtain ⟨hf, used, hs, hu, hb, hl⟩ := ih pre rem h
            have hbs : bs = [] := by
              cases bs with
              | nil => rfl
              | cons a t => simp at hz
            exact ⟨hf, .readBytes bs :: used, by simp [hs], by simp [isRead, hu],
              by simpa [delivered, hbs] using hb, by simpa [delivered, hbs] using hl⟩
          · simp only [hz, if_false, addLog_eq_done] at h
            obtain ⟨lg', h, _⟩ := h
            have hle : bs.length ≤ rem := by omega
            rw [writeAt_fresh] at h
            have hlen : pre.length + bs.length = (pre ++ bs.map some).length := by simp
            rw [hlen] at h
            obtain ⟨hf, used, hs, hu, hb, hl⟩ := ih (pre ++ bs.map some) (rem - bs.length) h
            refine ⟨hf, .readBytes bs :: used, by simp [hs], by simp [isRead, hu], ?_, ?_⟩
            · simp [delivered, hb]
            · simp [delivered, hl]; omega

/-- if the read loop does not return, the buffer holds the bytes delivered so far, in order, followed by
    bytes never written; fewer than `rem` bytes had been delivered -/
theorem readLoop_stopped (fd : Nat) : ∀ (script : List Outcome) (pre : Mem) (rem : Nat) {w buf log f},
    readLoop fd script (pre ++ List.replicate rem none) pre.length rem = .stopped w buf log f →
    f = some fd ∧ ∃ used tail, script = used ++ tail ∧ used.all isRead = true ∧
      (w = .outOfScript → tail = []) ∧ (delivered used).length < rem ∧
      buf = pre ++ (delivered used).map some ++ List.replicate (rem - (delivered used).length) none := by
  intro script
  induction script with
  | nil =>
    intro pre rem w buf log f h
    unfold readLoop at h
    by_cases hr : rem = 0
    · simp [hr] at h
    · simp only [hr, if_false, Result.stopped.injEq] at h
      obtain ⟨_, rfl, _, rfl⟩ := h
      exact ⟨rfl, [], [], rfl, rfl, fun _ => rfl, by simp [delivered]; omega, by simp [delivered]⟩
  | cons o s ih =>
    intro pre rem w buf log f h
    unfold readLoop at h
    by_cases hr : rem = 0
    · simp [hr] at h
    · simp only [hr, if_false] at h
      have stopHere : ∀ {w' : Stop} {lg : List Call}, w' ≠ .outOfScript →
          Result.stopped w' (pre ++ List.replicate rem none) lg (some fd) = .stopped w buf log f →
          f = some fd ∧ ∃ used tail, o :: s = used ++ tail ∧ used.all isRead = true ∧
            (w = .outOfScript → tail = []) ∧ (delivered used).length < rem ∧
            buf = pre ++ (delivered used).map some ++
              List.replicate (rem - (delivered used).length) none := by
        intro w' lg hw' h
        simp only [Result.stopped.injEq] at h
        obtain ⟨rfl, rfl, _, rfl⟩ := h
        exact ⟨rfl, [], o :: s, rfl, rfl, fun e => absurd e hw', by simp [delivered]; omega,
          by simp [delivered]⟩
      cases o with
      | openFail => exact stopHere (by decide) h
      | openOk g => exact stopHere (by decide) h
      | readErr =>
        simp only [addLog_eq_stopped] at h
        obtain ⟨lg', h, _⟩ := h
        obtain ⟨hf, used, tail, hs, hu, ht, hl, hb⟩ := ih pre rem h
        exact ⟨hf, .readErr :: used, tail, by simp [hs], by simp [isRead, hu], ht,
          by simpa [delivered] using hl, by simpa [delivered] using hb⟩
      | readZero =>
        simp only [addLog_eq_stopped] at h
        obtain ⟨lg', h, _⟩ := h
        obtain ⟨hf, used, tail, hs, hu, ht, hl, hb⟩ := ih pre rem h
        exact ⟨hf, .readZero :: used, tail, by simp [hs], by simp [isRead, hu], ht,
          by simpa [delivered] using hl, by simpa [delivered] using hb⟩
      | readBytes bs =>
        simp only at h
        by_cases hov : min rem chunk < bs.length
        · simp only [hov, if_true] at h
          exact stopHere (by decide) h
        · simp only [hov, if_false] at h
          by_cases hz : bs.length < 1
          · simp only [hz, if_true, addLog_eq_stopped] at h
            obtain ⟨lg', h, _⟩ := h
            obtain ⟨hf, used, tail, hs, hu, ht, hl, hb⟩ := ih pre rem h
            have hbs : bs = [] := by
              cases bs with
              | nil => rfl
              | cons a t => simp at hz
            exact ⟨hf, .readBytes bs :: used, tail, by simp [hs], by simp [isRead, hu], ht,
              by simpa [delivered, hbs] using hl, by simpa [delivered, hbs] using hb⟩
          · simp only [hz, if_false, addLog_eq_stopped] at h
            obtain ⟨lg', h, _⟩ := h
            have hle : bs.length ≤ rem := by omega
            rw [writeAt_fresh] at h
            have hlen : pre.length + bs.length = (pre ++ bs.map some).length := by simp
            rw [hlen] at h
            obtain ⟨hf, used, tail, hs, hu, ht, hl, hb⟩ := ih (pre ++ bs.map some) (rem - bs.length) h
            refine ⟨hf, .readBytes bs :: used, tail, by simp [hs], by simp [isRead, hu], ht, ?_, ?_⟩
            · simp only [delivered, List.length_append]; omega
            · simp only [delivered, List.length_append, List.map_append, hb, List.append_assoc,
                Nat.sub_sub]

/-! ### the read loop: call log -/

theorem readLoop_trace (fd : Nat) : ∀ (script : List Outcome) (mem : Mem) (off rem : Nat),
    ReadTrace fd off rem (readLoop fd script mem off rem).log (readLoop fd script mem off rem).isDone := by
  intro script
  induction script with
  | nil =>
    intro mem off rem
    unfold readLoop
    by_cases hr : rem = 0
    · subst hr; simp [Result.log, Result.isDone]; exact .ret off
    · simp only [hr, if_false, Result.log, Result.isDone]; exact .stuck off rem (by omega)
  | cons o s ih =>
    intro mem off rem
    unfold readLoop
    by_cases hr : rem = 0
    · subst hr; simp [Result.log, Result.isDone]; exact .ret off
    · have hpos : 0 < rem := by omega
      simp only [hr, if_false]
      cases o with
      | openFail => simp only [Result.log, Result.isDone]; exact .stuck off rem hpos
      | openOk g => simp only [Result.log, Result.isDone]; exact .stuck off rem hpos
      | readErr =>
        simp only [addLog_log, addLog_isDone, List.cons_append, List.nil_append]
        exact .fail off rem (-1) _ _ hpos (by decide) (ih mem off rem)
      | readZero =>
        simp only [addLog_log, addLog_isDone, List.cons_append, List.nil_append]
        exact .fail off rem 0 _ _ hpos (by decide) (ih mem off rem)
      | readBytes bs =>
        simp only
        by_cases hov : min rem chunk < bs.length
        · simp only [hov, if_true, Result.log, Result.isDone]; exact .stuck off rem hpos
        · simp only [hov, if_false]
          by_cases hz : bs.length < 1
          · simp only [hz, if_true, addLog_log, addLog_isDone, List.cons_append, List.nil_append]
            exact .fail off rem 0 _ _ hpos (by decide) (ih mem off rem)
          · simp only [hz, if_false, addLog_log, addLog_isDone, List.cons_append, List.nil_append]
            exact .ok off rem bs.length _ _ hpos (by omega) (by omega) (ih _ _ _)

theorem readTrace_readPhase {fd off rem l fin} (h : ReadTrace fd off rem l fin) :
    ∀ c ∈ l, ReadPhase fd c := by
  induction h with
  | ret off => intro c hc; simp at hc
  | stuck off rem h => intro c hc; simp at hc; subst hc; simp [ReadPhase]
  | fail off rem r l fin _ _ _ ih =>
    intro c hc
    simp only [List.mem_cons] at hc
    rcases hc with rfl | rfl | hc
    · simp [ReadPhase]
    · simp [ReadPhase]
    · exact ih c hc
  | ok off rem n l fin _ _ _ _ ih =>
    intro c hc
    simp only [List.mem_cons] at hc
    rcases hc with rfl | hc
    · simp [ReadPhase]
    · exact ih c hc

theorem readPhase_not_open {f : Nat} {c : Call} (h : ReadPhase f c) : isOpenCall c = false := by
  cases c <;> simp_all [ReadPhase, isOpenCall]

theorem readPhase_not_openOk {f : Nat} {c : Call} (h : ReadPhase f c) : isOpenOk c = false := by
  cases c <;> simp_all [ReadPhase, isOpenOk]

/-! ### progress -/

theorem readLoop_completes (fd : Nat) : ∀ (script : List Outcome) (mem : Mem) (off rem : Nat),
    inContract rem script = true → rem ≤ (delivered script).length →
    (readLoop fd script mem off rem).isDone = true := by
  intro script
  induction script with
  | nil =>
    intro mem off rem _ hl
    simp [delivered] at hl
    subst hl
    simp [readLoop, Result.isDone]
  | cons o s ih =>
    intro mem off rem hc hl
    unfold readLoop
    by_cases hr : rem = 0
    · simp [hr, Result.isDone]
    · simp only [hr, if_false]
      have hr' : (rem == 0) = false := by simp [hr]
      cases o with
      | openFail => simp [inContract, hr'] at hc
      | openOk g => simp [inContract, hr'] at hc
      | readErr =>
        simp only [inContract, hr', Bool.false_or] at hc
        simp only [addLog_isDone]
        exact ih mem off rem hc (by simpa [delivered] using hl)
      | readZero =>
        simp only [inContract, hr', Bool.false_or] at hc
        simp only [addLog_isDone]
        exact ih mem off rem hc (by simpa [delivered] using hl)
      | readBytes bs =>
        simp only [inContract, hr', Bool.false_or, Bool.and_eq_true, decide_eq_true_eq] at hc
        obtain ⟨hle, hc⟩ := hc
        have hov : ¬ min rem chunk < bs.length := by omega
        simp only [hov, if_false]
        by_cases hz : bs.length < 1
        · have hbs : bs = [] := by
            cases bs with
            | nil => rfl
            | cons a t => simp at hz
          subst hbs
          simp only [hz, if_true, addLog_isDone]
          exact ih mem off rem (by simpa using hc) (by simpa [delivered] using hl)
        · simp only [hz, if_false, addLog_isDone]
          apply ih _ _ _ hc
          simp only [delivered, List.length_append] at hl
          omega

/-! ### the open loop -/

theorem openLoop_ok : ∀ (script : List Outcome) {f rest l}, openLoop script = .ok f rest l →
    ∃ k, script = List.replicate k .openFail ++ .openOk f :: rest ∧ l = openFails k ++ [.open (some f)] := by
  intro script
  induction script with
  | nil => intro f rest l h; simp [openLoop] at h
  | cons o s ih =>
    intro f rest l h
    cases o with
    | openFail =>
      simp only [openLoop] at h
      cases hs : openLoop s with
      | ok f' r' l' =>
        rw [hs] at h
        simp only [OpenRes.ok.injEq] at h
        obtain ⟨rfl, rfl, rfl⟩ := h
        obtain ⟨k, hk, hl⟩ := ih hs
        exact ⟨k + 1, by simp [List.replicate_succ, hk], by simp [openFails, hl]⟩
      | stuck w l' => rw [hs] at h; simp at h
    | openOk g =>
      simp only [openLoop, OpenRes.ok.injEq] at h
      obtain ⟨rfl, rfl, rfl⟩ := h
      exact ⟨0, by simp, by simp [openFails]⟩
    | readErr => simp [openLoop] at h
    | readZero => simp [openLoop] at h
    | readBytes bs => simp [openLoop] at h

theorem openLoop_stuck : ∀ (script : List Outcome) {w l}, openLoop script = .stuck w l →
    ∃ k tail, script = List.replicate k .openFail ++ tail ∧ l = openFails k ++ [.openNoAns] ∧
      (w = .outOfScript → tail = []) := by
  intro script
  induction script with
  | nil =>
    intro w l h
    simp only [openLoop, OpenRes.stuck.injEq] at h
    obtain ⟨rfl, rfl⟩ := h
    exact ⟨0, [], by simp, by simp [openFails], fun _ => rfl⟩
  | cons o s ih =>
    intro w l h
    have other : ∀ {o : Outcome}, OpenRes.stuck Stop.mismatch [Call.openNoAns] = .stuck w l →
        ∃ k tail, o :: s = List.replicate k .openFail ++ tail ∧ l = openFails k ++ [.openNoAns] ∧
          (w = .outOfScript → tail = []) := by
      intro o h
      simp only [OpenRes.stuck.injEq] at h
      obtain ⟨rfl, rfl⟩ := h
      exact ⟨0, o :: s, by simp, by simp [openFails], fun e => by cases e⟩
    cases o with
    | openFail =>
      simp only [openLoop] at h
      cases hs : openLoop s with
      | ok f' r' l' => rw [hs] at h; simp at h
      | stuck w' l' =>
        rw [hs] at h
        simp only [OpenRes.stuck.injEq] at h
        obtain ⟨rfl, rfl⟩ := h
        obtain ⟨k, tail, hk, hl, ht⟩ := ih hs
        exact ⟨k + 1, tail, by simp [List.replicate_succ, hk], by simp [openFails, hl], ht⟩
    | openOk g => simp [openLoop] at h
    | readErr => exact other (by simpa [openLoop] using h)
    | readZero => exact other (by simpa [openLoop] using h)
    | readBytes bs => exact other (by simpa [openLoop] using h)

theorem openLoop_replicate (k : Nat) (f : Nat) (rest : List Outcome) :
    openLoop (List.replicate k .openFail ++ .openOk f :: rest) = .ok f rest (openFails k ++ [.open (some f)]) := by
  induction k with
  | zero => simp [openLoop, openFails]
  | succ k ih => simp [List.replicate_succ, openLoop, ih, openFails]

theorem openLoop_allFail (k : Nat) :
    openLoop (List.replicate k .openFail) = .stuck .outOfScript (openFails k ++ [.openNoAns]) := by
  induction k with
  | zero => simp [openLoop, openFails]
  | succ k ih => simp [List.replicate_succ, openLoop, ih, openFails]

theorem openFails_mem {k : Nat} {c : Call} (h : c ∈ openFails k) : c = .open none ∨ c = .sleep 1 := by
  induction k with
  | zero => simp [openFails] at h
  | succ k ih =>
    simp only [openFails, List.mem_cons] at h
    rcases h with h | h | h
    · exact .inl h
    · exact .inr h
    · exact ih h

/-! ### sequences of calls -/

theorem randombytes_some_trace (f : Nat) (script : List Outcome) (xlen : Nat) :
    ReadTrace f 0 xlen (randombytes (some f) script xlen).log (randombytes (some f) script xlen).isDone := by
  simp only [randombytes]; exact readLoop_trace f script _ 0 xlen

/-- once the descriptor is open every later call is a pure read phase on that descriptor -/
theorem runCalls_some_readPhase (f : Nat) : ∀ (xlens : List Nat) (script : List Outcome),
    ∀ c ∈ allLog (runCalls (some f) script xlens), ReadPhase f c := by
  intro xlens
  induction xlens with
  | nil => intro script c hc; simp [runCalls, allLog] at hc
  | cons x xs ih =>
    intro script c hc
    have ht := randombytes_some_trace f script x
    simp only [runCalls] at hc
    cases hr : randombytes (some f) script x with
    | done b l r f' =>
      rw [hr] at hc ht
      have hf : f' = f := by
        simp only [randombytes] at hr
        have := readLoop_done f script [] x (by simpa using hr)
        exact this.1
      subst hf
      simp only [allLog, List.flatMap_cons, List.mem_append, Result.log] at hc
      rcases hc with hc | hc
      · exact readTrace_readPhase ht c hc
      · exact ih r c hc
    | stopped w b l f' =>
      rw [hr] at hc ht
      simp only [allLog, List.flatMap_cons, List.flatMap_nil, List.append_nil, Result.log] at hc
      exact readTrace_readPhase ht c hc

end Nfl.RB
