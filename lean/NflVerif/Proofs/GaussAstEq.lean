/-
Equality of the code generated from clang's AST of FastGaussianNoise.hpp (`Generated/GaussAst.lean`, tools/gen_gauss_ast.py)
with the hand model `Model/Gauss.lean`.  Core Lean only.

`cmpG` / `iterG` are the generated texts with the instantiation-dependent nodes as parameters (index width `ib`, the two
conversions `out_class → int64_t` / `int64_t → out_class`, `_lu_depth`, the translated `cmp`); the generated definitions are
DEFINITIONALLY these (`*_eq_G : … := rfl`, re-checked on every run), so one proof serves the three instantiations.
-/
import NflVerif.Generated.GaussAst
import NflVerif.Model.Gauss

namespace Nfl.Gen
open Nfl Nfl.Gauss Nfl.CGauss

/-! ### encodings -/

/-- residue of an integer in a `b`-bit type -/
def enc (b : Nat) (x : Int) : Nat := (x % 2 ^ b).toNat
/-- a cell of the hand model as the `output<in_class,out_class>` object of `b`-bit `out_class` -/
def encCell (b : Nat) (c : Cell) : CCell := ⟨enc b c.val, c.flag, c.bl⟩
def encT1 (b : Nat) (T : Tables) : Array CCell := T.t1.map (encCell b)
def encT2 (b : Nat) (T : Tables) : Array (Option (Array CCell)) := T.t2.map (Option.map (Array.map (encCell b)))

/-! ### `forEach` -/

theorem forEach_map {α β σ ρ : Type} (f : α → β) (l : List α) (body : β → σ → Option (Flow σ ρ)) (s : σ) :
    forEach (l.map f) body s = forEach l (fun a => body (f a)) s := by
  induction l generalizing s with
  | nil => rfl
  | cons a l ih =>
    simp only [List.map_cons, forEach]
    cases body (f a) s with
    | none => rfl
    | some fl => cases fl <;> simp [ih]

theorem forEach_range_succ {σ ρ : Type} (n : Nat) (body : Nat → σ → Option (Flow σ ρ)) (s : σ) :
    forEach (List.range (n + 1)) body s =
      match body 0 s with
      | some (.next s') => forEach (List.range n) (fun i => body (i + 1)) s'
      | other => other := by
  rw [List.range_succ_eq_map, forEach]
  cases body 0 s with
  | none => rfl
  | some fl => cases fl <;> simp [forEach_map]

/-! ### `cmp` -/

/-- the body of the `for` loop of the generated `cmp`, index width `ib` -/
def cmpBody (ib : Nat) (op1 op2 : Ptr) : Nat → Unit → Option (Flow Unit Nat) := fun i s => do
        let () := s
        let t1 ← CGauss.idxS 32 op1 i
        let t2 ← CGauss.idxS 32 op2 i
        if CSem.gtS32 (CSem.castUS ib t1) (CSem.castUS ib t2) then
          pure (.ret 1)
        else
          let t3 ← CGauss.idxS 32 op1 i
          let t4 ← CGauss.idxS 32 op2 i
          if CSem.ltS32 (CSem.castUS ib t3) (CSem.castUS ib t4) then
            pure (.ret (CGauss.negS32 1))
          else
            pure (.next ())

def cmpG (ib : Nat) (_word_precision : Nat) (op1 : CGauss.Ptr) (op2 : CGauss.Ptr) : Option Nat := do
  match (← CGauss.forEach (ρ := Nat) (List.range (CGauss.tripS 32 (CSem.castUS 32 _word_precision))) (cmpBody ib op1 op2) ()) with
  | .ret r => pure r
  | .next s | .brk s =>
    let () := s
    pure 0

theorem cmp_u8_i32_1_eq_G : @cmp_u8_i32_1 = cmpG 8 := rfl
theorem cmp_u16_i64_2_eq_G : @cmp_u16_i64_2 = cmpG 16 := rfl
theorem cmp_u8_u64_2_eq_G : @cmp_u8_u64_2 = cmpG 8 := rfl

theorem idxS_nat (p : Ptr) (i : Nat) (h : i < 2 ^ 31) : idxS 32 p i = p.obj[p.off + i]? := by
  have e : CSem.svalW 32 i = (i : Int) := by unfold CSem.svalW; split <;> omega
  have h0 : (0 : Int) ≤ (p.off : Int) + (i : Int) := by omega
  simp only [idxS, ptrAddS, e, h0, if_true, Option.bind_some, load]
  congr 1

theorem gtS32_small (k a w : Nat) (ha : a < 2 ^ 31) (hw : w < 2 ^ 31) :
    CSem.gtS32 (CSem.castUS k a) (CSem.castUS k w) = decide (w < a) := by
  simp only [CSem.gtS32, CSem.bias, CSem.castUS]
  apply decide_eq_decide.mpr
  omega
theorem ltS32_small (k a w : Nat) (ha : a < 2 ^ 31) (hw : w < 2 ^ 31) :
    CSem.ltS32 (CSem.castUS k a) (CSem.castUS k w) = decide (a < w) := by
  simp only [CSem.ltS32, CSem.bias, CSem.castUS]
  apply decide_eq_decide.mpr
  omega

/-- words of a string fit the index type (and hence `int`) -/
def Small (l : List Nat) : Prop := ∀ x ∈ l, x < 2 ^ 31

theorem cmp_loop (ib : Nat) (op1 op2 : Ptr) (b : Str) (j : Nat) (hj : j + b.length < 2 ^ 31)
    (h1 : op1.obj.drop (op1.off + j) = b) (hs1 : Small b) (hs2 : Small op2.obj) :
    forEach (List.range b.length) (fun i => cmpBody ib op1 op2 (i + j)) () =
      match cmpRd b (op2.obj.drop (op2.off + j)) with
      | none => none
      | some (r, _) => if r = 0 then some (.next ()) else some (.ret (enc 32 r)) := by
  induction b generalizing j with
  | nil => simp [forEach, cmpRd]
  | cons a as ih =>
    have hget : op1.obj[op1.off + j]? = some a := by
      have := congrArg List.head? h1
      simpa [List.head?_drop] using this
    have hdrop : op1.obj.drop (op1.off + (j + 1)) = as := by
      have := congrArg List.tail h1
      simpa [List.tail_drop, Nat.add_assoc] using this
    have ha : a < 2 ^ 31 := hs1 a List.mem_cons_self
    have hsa : Small as := fun x hx => hs1 x (List.mem_cons_of_mem _ hx)
    simp only [List.length_cons] at hj ⊢
    rw [forEach_range_succ]
    have hfun : (fun i => cmpBody ib op1 op2 (i + 1 + j)) = (fun i => cmpBody ib op1 op2 (i + (j + 1))) := by
      funext i; rw [show i + 1 + j = i + (j + 1) by omega]
    rw [hfun]
    have ih' := ih (j + 1) (by omega) hdrop hsa
    cases hw : op2.obj.drop (op2.off + j) with
    | nil =>
      have : op2.obj[op2.off + j]? = none := by
        have := congrArg List.head? hw
        simpa [List.head?_drop] using this
      simp [cmpBody, idxS_nat _ _ (show j < 2 ^ 31 by omega), hget, this, cmpRd]
    | cons w ws =>
      have hg2 : op2.obj[op2.off + j]? = some w := by
        have := congrArg List.head? hw
        simpa [List.head?_drop] using this
      have hd2 : op2.obj.drop (op2.off + (j + 1)) = ws := by
        have := congrArg List.tail hw
        simpa [List.tail_drop, Nat.add_assoc] using this
      have hwl : w < 2 ^ 31 := hs2 w (List.mem_of_getElem? hg2)
      simp only [cmpBody, idxS_nat _ _ (show j < 2 ^ 31 by omega), Nat.zero_add, hget, hg2, hd2, cmpRd,
        gtS32_small _ _ _ ha hwl, ltS32_small _ _ _ ha hwl, bind, Option.bind, pure]
      by_cases c1 : w < a
      · simp [c1, enc]
      · by_cases c2 : a < w
        · have : ¬ (a > w) := c1
          simp [c1, c2, this, enc, negS32]
        · have : ¬ (a > w) := c1
          simp only [c1, c2, this, decide_false, if_false, Bool.false_eq_true, ih', hd2]
          cases cmpRd as ws with
          | none => rfl
          | some r => rfl

theorem tripS_wp (wp : Nat) (h : wp < 2 ^ 31) : tripS 32 (CSem.castUS 32 wp) = wp := by
  unfold tripS CSem.castUS CSem.svalW
  split <;> omega

/-- **the generated `cmp` is the hand model's `cmpRd`** (result; `none` = the comparison leaves the buffer), for a barrier
of exactly `_word_precision` words.  Needed: `wp < 2^31` (`(int)_word_precision` is the loop bound), words below `2^31`
(`(int) op[i]` keeps them: true for both index types), barrier length `= wp` (the code runs over `wp` words of the barrier
object, the hand model over the barrier's own length: see `cmp_short_barrier_differs`). -/
theorem cmpG_eq (ib wp : Nat) (b : Str) (noise : Ptr) (hwp : wp < 2 ^ 31) (hb : b.length = wp) (hs1 : Small b)
    (hs2 : Small noise.obj) :
    cmpG ib wp (ptrOf b) noise = (cmpRd b (noise.obj.drop noise.off)).map (fun r => enc 32 r.1) := by
  have h := cmp_loop ib (ptrOf b) noise b 0 (by omega) (by simp [ptrOf]) hs1 hs2
  have hf : (fun i => cmpBody ib (ptrOf b) noise (i + 0)) = cmpBody ib (ptrOf b) noise := by funext i; rfl
  rw [hf, hb] at h
  simp only [cmpG, tripS_wp wp hwp, h, Nat.add_zero, bind, pure]
  cases cmpRd b (noise.obj.drop noise.off) with
  | none => rfl
  | some r =>
    obtain ⟨r, n⟩ := r
    by_cases h0 : r = 0
    · subst h0; rfl
    · simp [h0]

def iterG (cin cout : Nat → Nat) (cmpf : Nat → CGauss.Ptr → CGauss.Ptr → Option Nat) (depth : Nat) (_word_precision : Nat) (lu_table : Array CGauss.CCell) (lu_table2 : Array (Option (Array CGauss.CCell))) (rand_outdata : CGauss.Ptr) (computed_outputs : Nat) (innoise_bytesize : Nat) (innoise_words : Nat) (used_words : Nat) (noise : CGauss.Ptr) (noise_init_ptr : CGauss.Ptr) : Option (CGauss.Ptr × Nat × Nat × CGauss.Ptr × List CGauss.Ext) := do
  let calls : List CGauss.Ext := []
  let t1 ← CGauss.load noise
  let input1 := t1
  let t2 ← CGauss.cellAt lu_table input1
  let flagged := t2.flag
  let (used_words, output, flagged, noise) ← (if flagged then (do
      let (used_words, output, flagged, noise) ← (if CSem.eqU depth (CSem.castSU 32 1) then (do
          let t3 ← CGauss.cellAt lu_table input1
          let output := cin t3.val
          let t4 ← CGauss.cellAt lu_table input1
          let s := CGauss.Flow.state (← CGauss.forEach (ρ := Empty) t4.l_b_ptr (fun b_ptr s => do
                let b_ptr := CGauss.ptrOf b_ptr
                let output := s
                let t5 ← cmpf _word_precision b_ptr noise
                if CSem.eqS32 t5 1 then
                  pure (.brk output)
                else
                  let output := CGauss.addS 64 output 1
                  pure (.next output)) output)
          let output := s
          let noise := CGauss.ptrAddU noise (CSem.subU 32 _word_precision (CSem.castSU 32 1))
          let used_words := CSem.addU 64 used_words (CSem.castU 64 (CSem.subU 32 _word_precision (CSem.castSU 32 1)))
          pure (used_words, output, flagged, noise))
        else (do
          let t6 ← CGauss.ptrAddS 32 noise 1
          let t7 ← CGauss.load t6
          let input2 := t7
          let t8 ← CGauss.rowAt lu_table2 input1
          let t9 ← CGauss.cellAt t8 input2
          let flagged := t9.flag
          let (used_words, output, noise) ← (if flagged then (do
              let t10 ← CGauss.rowAt lu_table2 input1
              let t11 ← CGauss.cellAt t10 input2
              let output := cin t11.val
              let t12 ← CGauss.rowAt lu_table2 input1
              let t13 ← CGauss.cellAt t12 input2
              let s := CGauss.Flow.state (← CGauss.forEach (ρ := Empty) t13.l_b_ptr (fun b_ptr s => do
                    let b_ptr := CGauss.ptrOf b_ptr
                    let output := s
                    let t14 ← cmpf _word_precision b_ptr noise
                    if CSem.eqS32 t14 1 then
                      pure (.brk output)
                    else
                      let output := CGauss.addS 64 output 1
                      pure (.next output)) output)
              let output := s
              let noise := CGauss.ptrAddU noise (CSem.subU 32 _word_precision (CSem.castSU 32 2))
              let used_words := CSem.addU 64 used_words (CSem.castU 64 (CSem.subU 32 _word_precision (CSem.castSU 32 2)))
              pure (used_words, output, noise))
            else (do
              let t15 ← CGauss.rowAt lu_table2 input1
              let t16 ← CGauss.cellAt t15 input2
              let output := cin t16.val
              pure (used_words, output, noise)))
          let noise := CGauss.ptrAddU noise 1
          let used_words := CSem.addU 64 used_words 1
          pure (used_words, output, flagged, noise)))
      pure (used_words, output, flagged, noise))
    else (do
      let t17 ← CGauss.cellAt lu_table input1
      let output := cin t17.val
      pure (used_words, output, flagged, noise)))
  let noise := CGauss.ptrAddU noise 1
  let used_words := CSem.addU 64 used_words 1
  let t18 := computed_outputs
  let computed_outputs := CSem.addU 64 computed_outputs 1
  let rand_outdata ← CGauss.storeU rand_outdata t18 (cout output)
  let (used_words, noise, calls) ← (if CSem.geU (CSem.addU 64 used_words (CSem.castU 64 _word_precision)) innoise_words then (do
      let noise := noise_init_ptr
      let used_words := CSem.castSU 64 0
      let calls := calls ++ [CGauss.Ext.fastrandombytes noise innoise_bytesize]
      pure (used_words, noise, calls))
    else (do
      pure (used_words, noise, calls)))
  pure (rand_outdata, computed_outputs, used_words, noise, calls)


theorem iter_u8_i32_1_eq_G : @getNoise_iter_u8_i32_1 = iterG (CSem.castSS 32 64) (CSem.castSS 64 32) (cmpG 8) 1 := rfl
theorem iter_u16_i64_2_eq_G : @getNoise_iter_u16_i64_2 = iterG (fun x => x) (fun x => x) (cmpG 16) 2 := rfl
theorem iter_u8_u64_2_eq_G : @getNoise_iter_u8_u64_2 = iterG (CSem.castUSw 64) (CGauss.castSwU 64 64) (cmpG 8) 2 := rfl

/-! ### the barrier walk of a flagged cell -/

theorem scan_loop (tape : Str) (body : List Nat → Nat → Option (Flow Nat Empty)) (bl : List Str)
    (hb : ∀ b ∈ bl, ∀ o, body b o = match cmpRd b tape with
        | none => none
        | some (r, _) => if r = 1 then some (.brk o) else some (.next ((o + 1) % 2 ^ 64)))
    (o0 : Nat) (v0 : Int) (k seen : Nat) :
    match scanRd tape bl (v0 + k) seen with
    | none => forEach bl body ((o0 + k) % 2 ^ 64) = none
    | some (r, _) => ∃ k' fl, forEach bl body ((o0 + k) % 2 ^ 64) = some fl ∧ fl.state = (o0 + k') % 2 ^ 64 ∧
        r = v0 + (k' : Nat) := by
  induction bl generalizing k seen with
  | nil => exact ⟨k, _, rfl, rfl, rfl⟩
  | cons b bs ih =>
    have hb0 := hb b List.mem_cons_self ((o0 + k) % 2 ^ 64)
    simp only [scanRd, forEach]
    cases hc : cmpRd b tape with
    | none => simp only [hc] at hb0 ⊢; rw [hb0]
    | some rn =>
      obtain ⟨r, n⟩ := rn
      simp only [hc] at hb0 ⊢
      by_cases h1 : r = 1
      · simp only [h1, if_true] at hb0 ⊢
        exact ⟨k, _, by rw [hb0], rfl, rfl⟩
      · simp only [h1, if_false] at hb0 ⊢
        rw [hb0]
        have e1 : ((o0 + k) % 2 ^ 64 + 1) % 2 ^ 64 = (o0 + (k + 1)) % 2 ^ 64 := by omega
        have e2 : v0 + (k : Int) + 1 = v0 + ((k + 1 : Nat) : Int) := by omega
        rw [e1, e2]
        exact ih (fun b hb' => hb b (List.mem_cons_of_mem _ hb')) (k + 1) (max seen n)

theorem cmpRd_range (b t : Str) (r : Int) (n : Nat) (h : cmpRd b t = some (r, n)) : r = 1 ∨ r = -1 ∨ r = 0 := by
  induction b generalizing t r n with
  | nil => simp [cmpRd] at h; omega
  | cons a as ih =>
    cases t with
    | nil => simp [cmpRd] at h
    | cons w ws =>
      simp only [cmpRd] at h
      split at h
      · simp at h; omega
      · split at h
        · simp at h; omega
        · cases hc : cmpRd as ws with
          | none => simp [hc] at h
          | some rn =>
            obtain ⟨r', n'⟩ := rn
            simp [hc] at h
            exact h.1 ▸ ih ws r' n' hc

/-- every barrier listed in a cell that `getNoise` walks has exactly `wp` words, each below `2^31` -/
def CellLists (wp : Nat) (c : Cell) : Prop := ∀ b ∈ c.bl, b.length = wp ∧ Small b

/-- the body of the generated barrier walk -/
def scanBody (cmpf : Ptr → Ptr → Option Nat) (noise : Ptr) : List Nat → Nat → Option (Flow Nat Empty) :=
  fun b_ptr s => (cmpf (ptrOf b_ptr) noise).bind fun t5 =>
    if CSem.eqS32 t5 1 = true then some (Flow.brk s) else some (Flow.next (addS 64 s 1))

theorem scanBody_spec (ib wp : Nat) (noise : Ptr) (hwp : wp < 2 ^ 31) (hs : Small noise.obj) (c : Cell)
    (hl : CellLists wp c) : ∀ b ∈ c.bl, ∀ o, scanBody (cmpG ib wp) noise b o =
      match cmpRd b (noise.obj.drop noise.off) with
      | none => none
      | some (r, _) => if r = 1 then some (.brk o) else some (.next ((o + 1) % 2 ^ 64)) := by
  intro b hbm o
  obtain ⟨hlen, hsm⟩ := hl b hbm
  simp only [scanBody, cmpG_eq ib wp b noise hwp hlen hsm hs]
  cases hcr : cmpRd b (noise.obj.drop noise.off) with
  | none => rfl
  | some rn =>
    obtain ⟨r, n⟩ := rn
    rcases cmpRd_range _ _ _ _ hcr with rfl | rfl | rfl <;> simp [enc, CSem.eqS32, addS]

/-! ### one iteration of the `while` loop -/

theorem cellAt_enc (ob : Nat) (T : Tables) (i : Nat) : cellAt (encT1 ob T) i = (T.t1[i]?).map (encCell ob) := by
  simp [cellAt, encT1]

theorem rowAt_enc (ob : Nat) (T : Tables) (i : Nat) :
    rowAt (encT2 ob T) i = match T.t2[i]? with
      | some (some r) => some (r.map (encCell ob))
      | _ => none := by
  simp only [rowAt, encT2, Array.getElem?_map]
  cases T.t2[i]? with
  | none => rfl
  | some r => cases r <;> rfl

theorem cellAt_map (ob : Nat) (row : Array Cell) (i : Nat) :
    cellAt (row.map (encCell ob)) i = (row[i]?).map (encCell ob) := by
  simp [cellAt]

/-- what the conversions `out_class → int64_t` (`cin`) and `int64_t → out_class` (`cout`) of an instantiation have to satisfy -/
structure ConvOK (ob : Nat) (cin cout : Nat → Nat) : Prop where
  lt : ∀ v : Int, cin (enc ob v) < 2 ^ 64
  io : ∀ (v : Int) (k : Nat), cout ((cin (enc ob v) + k) % 2 ^ 64) = enc ob (v + k)

def TabLists (depth W wp : Nat) (T : Tables) : Prop :=
  if depth = 1 then ∀ (i : Nat) (c : Cell), i < W → T.t1[i]? = some c → c.flag = true → CellLists wp c
  else ∀ (i : Nat) (c1 : Cell) (row : Array Cell) (j : Nat) (c : Cell), i < W → j < W → T.t1[i]? = some c1 → c1.flag = true →
    T.t2[i]? = some (some row) → row[j]? = some c → c.flag = true → CellLists wp c

/-- one iteration in terms of the hand model's `decode`: the output `(out_class) d.out` is stored at index `computed_outputs`,
`d.used` words are consumed, and the refill test `used_words + _word_precision >= innoise_words` decides between
"continue in the buffer" and "`noise = noise_init_ptr; used_words = 0; fastrandombytes(noise, innoise_bytesize)`" -/
def iterSpec (ob depth wp : Nat) (T : Tables) (out : Ptr) (co ibs iw uw : Nat) (noise nip : Ptr) :
    Option (Ptr × Nat × Nat × Ptr × List Ext) :=
  match decode depth wp T (noise.obj.drop noise.off) with
  | none => none
  | some d =>
    match storeU out co (enc ob d.out) with
    | none => none
    | some out' =>
      if iw ≤ ((uw + d.used) % 2 ^ 64 + wp) % 2 ^ 64 then
        some (out', (co + 1) % 2 ^ 64, 0, nip, [Ext.fastrandombytes nip ibs])
      else some (out', (co + 1) % 2 ^ 64, (uw + d.used) % 2 ^ 64, ⟨noise.obj, noise.off + d.used⟩, [])

theorem iterG_eq_1 (ob ib wp : Nat) (cin cout : Nat → Nat) (hc : ConvOK ob cin cout) (T : Tables)
    (out : Ptr) (co ibs iw uw : Nat) (noise nip : Ptr)
    (hwp1 : 1 ≤ wp) (hwp : wp < 2 ^ 31) (W : Nat) (hW : W ≤ 2 ^ 31) (hsW : ∀ x ∈ noise.obj, x < W)
    (hT' : TabLists 1 W wp T) :
    iterG cin cout (cmpG ib) 1 wp (encT1 ob T) (encT2 ob T) out co ibs iw uw noise nip =
      iterSpec ob 1 wp T out co ibs iw uw noise nip := by
  have hT : ∀ (i : Nat) (c : Cell), i < W → T.t1[i]? = some c → c.flag = true → CellLists wp c := by
    simpa [TabLists] using hT'
  have hs : Small noise.obj := fun x hx => Nat.lt_of_lt_of_le (hsW x hx) hW
  unfold iterG iterSpec
  cases htape : noise.obj.drop noise.off with
  | nil =>
    have : noise.obj[noise.off]? = none := by
      have := congrArg List.head? htape
      simpa [List.head?_drop] using this
    simp [load, this, decode, decode1]
  | cons i1 rest =>
    have hl : noise.obj[noise.off]? = some i1 := by
      have := congrArg List.head? htape
      simpa [List.head?_drop] using this
    simp only [load, hl, cellAt_enc, decode, decode1, if_true, Option.bind_eq_bind, Option.pure_def, Option.bind_some]
    cases hc1 : T.t1[i1]? with
    | none => simp
    | some c =>
      simp only [Option.map_some, encCell]
      cases hf : c.flag with
      | false =>
        simp [hf]
        have e0 : cout (cin (enc ob c.val)) = enc ob c.val := by
          have := hc.io c.val 0
          rw [Nat.add_zero, Nat.mod_eq_of_lt (hc.lt _)] at this
          simpa using this
        rw [e0]
        cases storeU out co (enc ob c.val) with
        | none => rfl
        | some o' =>
          have hm : wp % 2 ^ 64 = wp := Nat.mod_eq_of_lt (by omega)
          simp only [CSem.geU, CSem.addU, CSem.castU, CSem.castSU, ptrAddU, decide_eq_true_eq, hm]
          by_cases hcnd : iw ≤ ((uw + 1) % 2 ^ 64 + wp) % 2 ^ 64
          · have hcnd' : iw ≤ (uw + 1 + wp) % 18446744073709551616 := by omega
            simp [hcnd, hcnd']
          · have hcnd' : ¬ iw ≤ (uw + 1 + wp) % 18446744073709551616 := by omega
            simp [hcnd, hcnd']
      | true =>
        have key := scan_loop _ _ c.bl (scanBody_spec ib wp noise hwp hs c (hT i1 c (hsW i1 (List.mem_of_getElem? hl)) hc1 hf)) (cin (enc ob c.val)) c.val 0 1
        rw [htape, Nat.add_zero, Nat.mod_eq_of_lt (hc.lt _)] at key
        unfold scanBody at key
        have e : c.val + ((0 : Nat) : Int) = c.val := by omega
        rw [e] at key
        have hwp0 : wp ≠ 0 := by omega
        cases hsr : scanRd (i1 :: rest) c.bl c.val 1 with
        | none =>
          rw [hsr] at key
          simp [hf, CSem.eqU, CSem.castSU, key, hwp0]
        | some rs =>
          obtain ⟨r, sn⟩ := rs
          rw [hsr] at key
          obtain ⟨k', fl, hfe, hst, hr⟩ := key
          simp [hf, CSem.eqU, CSem.castSU, hfe, hst, hr, hwp0, hc.io]
          cases storeU out co (enc ob (c.val + ↑k')) with
          | none => rfl
          | some o' =>
            have hm : wp % 2 ^ 64 = wp := Nat.mod_eq_of_lt (by omega)
            have e1 : CSem.subU 32 wp 1 = wp - 1 := by unfold CSem.subU; omega
            have e2 : CSem.addU 64 (CSem.addU 64 uw (CSem.castU 64 (wp - 1))) 1 = (uw + wp) % 2 ^ 64 := by
              simp only [CSem.addU, CSem.castU]; omega
            have e3 : noise.off + (wp - 1) + 1 = noise.off + wp := by omega
            simp only [e1, e2, CSem.geU, CSem.addU, CSem.castU, ptrAddU, decide_eq_true_eq, hm, Option.bind_some, e3]
            have e4 : uw + (wp - 1) + 1 = uw + wp := by omega
            by_cases hcnd : iw ≤ ((uw + wp) % 2 ^ 64 + wp) % 2 ^ 64
            · have hcnd' : iw ≤ (uw + wp + wp) % 18446744073709551616 := by omega
              simp [hcnd', e4]
            · have hcnd' : ¬ iw ≤ (uw + wp + wp) % 18446744073709551616 := by omega
              simp [hcnd', e4]

theorem ptrAddS_one (p : Ptr) : ptrAddS 32 p 1 = some ⟨p.obj, p.off + 1⟩ := by
  have e : CSem.svalW 32 1 = 1 := by decide
  have h0 : (0 : Int) ≤ (p.off : Int) + 1 := by omega
  simp only [ptrAddS, e, h0, if_true]
  congr 2

theorem iterG_eq_2 (ob ib wp : Nat) (cin cout : Nat → Nat) (hc : ConvOK ob cin cout) (T : Tables)
    (out : Ptr) (co ibs iw uw : Nat) (noise nip : Ptr)
    (hwp1 : 2 ≤ wp) (hwp : wp < 2 ^ 31) (W : Nat) (hW : W ≤ 2 ^ 31) (hsW : ∀ x ∈ noise.obj, x < W)
    (hT' : TabLists 2 W wp T) :
    iterG cin cout (cmpG ib) 2 wp (encT1 ob T) (encT2 ob T) out co ibs iw uw noise nip =
      iterSpec ob 2 wp T out co ibs iw uw noise nip := by
  have hT : ∀ (i : Nat) (c1 : Cell) (row : Array Cell) (j : Nat) (c : Cell), i < W → j < W → T.t1[i]? = some c1 →
      c1.flag = true → T.t2[i]? = some (some row) → row[j]? = some c → c.flag = true → CellLists wp c := by
    simpa [TabLists] using hT'
  have hs : Small noise.obj := fun x hx => Nat.lt_of_lt_of_le (hsW x hx) hW
  have hm : wp % 2 ^ 64 = wp := Nat.mod_eq_of_lt (by omega)
  unfold iterG iterSpec
  cases htape : noise.obj.drop noise.off with
  | nil =>
    have : noise.obj[noise.off]? = none := by
      have := congrArg List.head? htape
      simpa [List.head?_drop] using this
    simp [load, this, decode, decode2]
  | cons i1 rest =>
    have hl : noise.obj[noise.off]? = some i1 := by
      have := congrArg List.head? htape
      simpa [List.head?_drop] using this
    have hrest : noise.obj.drop (noise.off + 1) = rest := by
      have := congrArg List.tail htape
      simpa [List.tail_drop] using this
    simp only [load, hl, cellAt_enc, decode, decode2, if_true, Option.bind_eq_bind, Option.pure_def, Option.bind_some,
      show (2 : Nat) ≠ 1 by decide, if_false]
    cases hc1 : T.t1[i1]? with
    | none => simp
    | some c =>
      simp only [Option.map_some, encCell]
      cases hf : c.flag with
      | false =>
        simp [hf]
        have e0 : cout (cin (enc ob c.val)) = enc ob c.val := by
          have := hc.io c.val 0
          rw [Nat.add_zero, Nat.mod_eq_of_lt (hc.lt _)] at this
          simpa using this
        rw [e0]
        cases storeU out co (enc ob c.val) with
        | none => rfl
        | some o' =>
          simp only [CSem.geU, CSem.addU, CSem.castU, CSem.castSU, ptrAddU, decide_eq_true_eq, hm]
          by_cases hcnd : iw ≤ ((uw + 1) % 2 ^ 64 + wp) % 2 ^ 64
          · have hcnd' : iw ≤ (uw + 1 + wp) % 18446744073709551616 := by omega
            simp [hcnd, hcnd']
          · have hcnd' : ¬ iw ≤ (uw + 1 + wp) % 18446744073709551616 := by omega
            simp [hcnd, hcnd']
      | true =>
        simp only [hf, if_true, CSem.eqU, CSem.castSU, ptrAddS_one, Option.bind_some, load]
        cases rest with
        | nil =>
          have : noise.obj[noise.off + 1]? = none := by
            have := congrArg List.head? hrest
            simpa [List.head?_drop] using this
          simp [this]
        | cons i2 rest2 =>
          have hl2 : noise.obj[noise.off + 1]? = some i2 := by
            have := congrArg List.head? hrest
            simpa [List.head?_drop] using this
          simp only [hl2, rowAt_enc]
          cases hr1 : T.t2[i1]? with
          | none => simp
          | some orow =>
            cases orow with
            | none => simp
            | some row =>
              simp only [Option.bind_some, cellAt_map]
              cases hc2 : row[i2]? with
              | none => simp
              | some c2 =>
                cases hf2 : c2.flag with
                | false =>
                  simp [hf2, encCell]
                  have e0 : cout (cin (enc ob c2.val)) = enc ob c2.val := by
                    have := hc.io c2.val 0
                    rw [Nat.add_zero, Nat.mod_eq_of_lt (hc.lt _)] at this
                    simpa using this
                  rw [e0]
                  cases storeU out co (enc ob c2.val) with
                  | none => rfl
                  | some o' =>
                    simp only [CSem.geU, CSem.addU, CSem.castU, CSem.castSU, ptrAddU, decide_eq_true_eq, hm]
                    by_cases hcnd : iw ≤ (((uw + 1) % 2 ^ 64 + 1) % 2 ^ 64 + wp) % 2 ^ 64
                    · have hcnd' : iw ≤ (uw + 2 + wp) % 18446744073709551616 := by omega
                      have e5 : ((uw + 1) % 2 ^ 64 + 1) % 2 ^ 64 = (uw + 2) % 2 ^ 64 := by omega
                      simp [hcnd, hcnd', e5]
                    · have hcnd' : ¬ iw ≤ (uw + 2 + wp) % 18446744073709551616 := by omega
                      have e5 : ((uw + 1) % 2 ^ 64 + 1) % 2 ^ 64 = (uw + 2) % 2 ^ 64 := by omega
                      have e6 : noise.off + 1 + 1 = noise.off + 2 := by omega
                      simp [hcnd, hcnd', e5, e6]
                | true =>
                  have hlists := hT i1 c row i2 c2 (hsW i1 (List.mem_of_getElem? hl)) (hsW i2 (List.mem_of_getElem? hl2)) hc1 hf hr1 hc2 hf2
                  have key := scan_loop _ _ c2.bl (scanBody_spec ib wp noise hwp hs c2 hlists) (cin (enc ob c2.val)) c2.val 0 2
                  rw [htape, Nat.add_zero, Nat.mod_eq_of_lt (hc.lt _)] at key
                  unfold scanBody at key
                  have e : c2.val + ((0 : Nat) : Int) = c2.val := by omega
                  rw [e] at key
                  have hwp0 : ¬ wp < 2 := by omega
                  cases hsr : scanRd (i1 :: i2 :: rest2) c2.bl c2.val 2 with
                  | none =>
                    rw [hsr] at key
                    simp [hf2, encCell, key, hwp0, hsr]
                  | some rs =>
                    obtain ⟨r, sn⟩ := rs
                    rw [hsr] at key
                    obtain ⟨k', fl, hfe, hst, hr⟩ := key
                    simp [hf2, encCell, hfe, hst, hr, hwp0, hc.io, hsr]
                    cases storeU out co (enc ob (c2.val + ↑k')) with
                    | none => rfl
                    | some o' =>
                      have e1 : CSem.subU 32 wp 2 = wp - 2 := by unfold CSem.subU; omega
                      have e2 : CSem.addU 64 (CSem.addU 64 (CSem.addU 64 uw (CSem.castU 64 (wp - 2))) 1) 1 = (uw + wp) % 2 ^ 64 := by
                        simp only [CSem.addU, CSem.castU]; omega
                      have e3 : noise.off + (wp - 2) + 1 + 1 = noise.off + wp := by omega
                      simp only [e1, e2, CSem.geU, CSem.addU, CSem.castU, ptrAddU, decide_eq_true_eq, hm, Option.bind_some, e3]
                      have e7 : (((uw + (wp - 2) % 2 ^ 64) % 2 ^ 64 + 1) % 2 ^ 64 + 1) % 2 ^ 64 = (uw + wp) % 2 ^ 64 := by omega
                      rw [e7]
                      by_cases hcnd : iw ≤ ((uw + wp) % 2 ^ 64 + wp) % 2 ^ 64
                      · have hcnd' : iw ≤ (uw + wp + wp) % 18446744073709551616 := by omega
                        simp [hcnd, hcnd']
                      · have hcnd' : ¬ iw ≤ (uw + wp + wp) % 18446744073709551616 := by omega
                        simp [hcnd, hcnd']

/-! ### the conversions of the three instantiations -/

theorem conv_i32 : ConvOK 32 (CSem.castSS 32 64) (CSem.castSS 64 32) := by
  constructor
  · intro x; unfold CSem.castSS; split <;> omega
  · intro v k; unfold CSem.castSS enc; split <;> split <;> omega
theorem conv_i64 : ConvOK 64 (fun x => x) (fun x => x) := by
  constructor
  · intro v; show enc 64 v < 2 ^ 64; unfold enc; omega
  · intro v k; unfold enc; omega
theorem conv_u64 : ConvOK 64 (CSem.castUSw 64) (CGauss.castSwU 64 64) := by
  constructor
  · intro x; unfold CSem.castUSw; omega
  · intro v k; unfold CSem.castUSw CGauss.castSwU enc; split <;> omega

end Nfl.Gen
