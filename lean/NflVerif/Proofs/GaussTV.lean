/-
Error propagation from the barrier table to the total variation distance (helper lemmas of Properties/C10TV.lean).

Everything is exact arithmetic in an arbitrary linearly ordered field `K` (`ℚ` for the executable examples; the same
statements hold verbatim for `ℝ`, i.e. for the true discrete Gaussian, whose values are not rational).  Only finite
sums occur.

Setting.  `L = [B_0, …, B_{nb-1}]` is the list of numeric barriers (`numB W bs` of Proofs/GaussMass.lean), `N = W^wp`
the number of input strings.  The inverse CDF gives the value `v₀ + k` (`0 ≤ k ≤ nb`) to `hiOf L N k − loOf L k` input
strings (`B_{-1} = 0`, `B_nb = N`): `pInd k = (B_k − B_{k-1}) / N`.  `q : ℤ → K` is the "ideal" probability function;
only its values on the support `{v₀, …, v₀+nb}` occur, through `cumQ k = Σ_{j ≤ k} q (v₀+j)`, and the mass outside the
support is `tailMass = 1 − cumQ nb`.
-/
import NflVerif.Proofs.GaussMass
import NflVerif.Proofs.GaussParams
import Mathlib.Algebra.Order.BigOperators.Group.Finset
import Mathlib.Algebra.Order.Field.Basic
import Mathlib.Algebra.BigOperators.Intervals
import Mathlib.Algebra.BigOperators.Ring.Finset
import Mathlib.Algebra.BigOperators.Field
import Mathlib.Tactic.FieldSimp
import Mathlib.Algebra.Order.Floor.Semiring
import Mathlib.Tactic.Linarith
import Mathlib.Tactic.Ring
import Mathlib.Tactic.Positivity

namespace Nfl.Gauss.TV
open Nfl.Gauss Finset

variable (K : Type*) [Field K] [LinearOrder K] [IsStrictOrderedRing K]

/-! ### definitions -/

/-- probability that the inverse CDF of the barrier list `L` (over `N` equally likely inputs) gives to `v₀ + k`:
`(B_k − B_{k-1}) / N` with `B_{-1} = 0`, `B_{|L|} = N`. -/
def pInd (L : List ℕ) (N : ℕ) (k : ℕ) : K := ((hiOf L N k : K) - (loOf L k : K)) / (N : K)

variable {K}

/-- exact cumulative value of the ideal distribution *restricted to the support*: `Σ_{j ≤ k} q (v₀ + j)`. -/
def cumQ (q : ℤ → K) (v0 : ℤ) (k : ℕ) : K := ∑ j ∈ range (k + 1), q (v0 + (j : ℤ))

/-- mass of the ideal distribution outside the support `{v₀, …, v₀ + nb}`. -/
def tailMass (q : ℤ → K) (v0 : ℤ) (nb : ℕ) : K := 1 - cumQ q v0 nb

/-- total variation on `ℤ` between the induced distribution (no mass outside the support) and `q`:
`½ (Σ_{k ≤ nb} |pInd k − q (v₀+k)| + tailMass)`.  (`tv_event` below: it bounds `|P(A) − Q(A)|` for every event.) -/
def tv (L : List ℕ) (N : ℕ) (q : ℤ → K) (v0 : ℤ) : K :=
  (∑ k ∈ range (L.length + 1), |pInd K L N k - q (v0 + (k : ℤ))| + tailMass q v0 L.length) / 2

/-! ### the barrier list as a cumulative function -/

/-- `cB j = B_{j-1}` as a natural number (`0` for `j = 0`, `N` for `j = |L| + 1`). -/
def cB (L : List ℕ) (N : ℕ) (j : ℕ) : ℕ := if j = 0 then 0 else hiOf L N (j - 1)

theorem loOf_eq_cB (L : List ℕ) (N : ℕ) {k : ℕ} (hk : k ≤ L.length) : loOf L k = cB L N k := by
  unfold loOf cB
  cases k with
  | zero => simp
  | succ j =>
    have : j < L.length := by omega
    simp [hiOf, this]

theorem hiOf_eq_cB (L : List ℕ) (N : ℕ) (k : ℕ) : hiOf L N k = cB L N (k + 1) := by simp [cB]

theorem cB_last (L : List ℕ) (N : ℕ) : cB L N (L.length + 1) = N := by simp [cB, hiOf]

theorem cB_zero (L : List ℕ) (N : ℕ) : cB L N 0 = 0 := by simp [cB]

theorem cB_succ_of_lt (L : List ℕ) (N : ℕ) {k : ℕ} (hk : k < L.length) : cB L N (k + 1) = L[k] := by
  simp [cB, hiOf, hk]

omit [LinearOrder K] [IsStrictOrderedRing K] in
theorem pInd_eq_cB (L : List ℕ) (N : ℕ) {k : ℕ} (hk : k ≤ L.length) :
    pInd K L N k = ((cB L N (k + 1) : K) - (cB L N k : K)) / (N : K) := by
  rw [pInd, loOf_eq_cB L N hk, hiOf_eq_cB]

/-- `B_{k-1} ≤ B_k` on a sorted list bounded by `N`. -/
theorem loOf_le_hiOf {L : List ℕ} {N : ℕ} (hs : L.Pairwise (· ≤ ·)) (hN : ∀ x ∈ L, x ≤ N) {k : ℕ}
    (hk : k ≤ L.length) : loOf L k ≤ hiOf L N k := by
  unfold loOf hiOf
  cases k with
  | zero => simp
  | succ j =>
    have hj : j < L.length := by omega
    simp only [Nat.add_eq_zero_iff, Nat.one_ne_zero, and_false, if_false, Nat.add_sub_cancel]
    rw [getD_of_lt _ _ hj]
    split
    · rename_i h
      rw [getD_of_lt _ _ h]
      exact List.pairwise_iff_getElem.mp hs j (j + 1) hj h (by omega)
    · exact hN _ (List.getElem_mem hj)

/-- the induced probabilities are non-negative … -/
theorem pInd_nonneg {L : List ℕ} {N : ℕ} (hs : L.Pairwise (· ≤ ·)) (hN : ∀ x ∈ L, x ≤ N) {k : ℕ}
    (hk : k ≤ L.length) : 0 ≤ pInd K L N k := by
  have h : (loOf L k : K) ≤ (hiOf L N k : K) := by exact_mod_cast loOf_le_hiOf hs hN hk
  unfold pInd
  exact div_nonneg (by linarith) (by positivity)

/-- … and sum to one over the support: the induced distribution has no mass elsewhere. -/
theorem pInd_sum (L : List ℕ) {N : ℕ} (hN : 0 < N) : ∑ k ∈ range (L.length + 1), pInd K L N k = 1 := by
  have h : ∀ k ∈ range (L.length + 1),
      pInd K L N k = (cB L N (k + 1) : K) / (N : K) - (cB L N k : K) / (N : K) := by
    intro k hk
    rw [pInd_eq_cB L N (by simpa [Nat.lt_succ_iff] using hk), sub_div]
  rw [sum_congr rfl h, Finset.sum_range_sub fun j => (cB L N j : K) / (N : K)]
  rw [cB_last, cB_zero]
  have : (N : K) ≠ 0 := by positivity
  simp [this]

/-! ### the telescoping estimate -/

/-- `g 0 = 0`, `|g j| ≤ δ` for `1 ≤ j ≤ n`, `g (n+1) = t ≥ 0`:  `Σ_{k ≤ n} |g (k+1) − g k| ≤ 2·n·δ + t`.
(First increment `≤ δ`, `n − 1` interior increments `≤ 2δ`, last increment `≤ t + δ`; just `t` if `n = 0`.) -/
theorem sum_abs_increments_le (g : ℕ → K) (n : ℕ) (δ t : K) (h0 : g 0 = 0) (ht : 0 ≤ t)
    (hlast : g (n + 1) = t) (hg : ∀ j, 1 ≤ j → j ≤ n → |g j| ≤ δ) :
    ∑ k ∈ range (n + 1), |g (k + 1) - g k| ≤ 2 * (n : K) * δ + t := by
  cases n with
  | zero =>
    simp only [zero_add] at hlast
    simp [h0, hlast, abs_of_nonneg ht]
  | succ n =>
    rw [sum_range_succ, sum_range_succ']
    have hfirst : |g (0 + 1) - g 0| ≤ δ := by
      rw [h0, sub_zero]; exact hg 1 (le_refl _) (by omega)
    have hmid : ∑ k ∈ range n, |g (k + 1 + 1) - g (k + 1)| ≤ ∑ _k ∈ range n, 2 * δ := by
      apply sum_le_sum
      intro k hk
      have hk' : k < n := mem_range.mp hk
      have h1 := abs_le.mp (hg (k + 1 + 1) (by omega) (by omega))
      have h2 := abs_le.mp (hg (k + 1) (by omega) (by omega))
      rw [abs_le]; constructor <;> linarith [h1.1, h1.2, h2.1, h2.2]
    have hend : |g (n + 1 + 1) - g (n + 1)| ≤ t + δ := by
      have h2 := abs_le.mp (hg (n + 1) (by omega) (le_refl _))
      rw [hlast, abs_le]; constructor <;> linarith [h2.1, h2.2]
    rw [sum_const, card_range, nsmul_eq_mul] at hmid
    push_cast
    linarith

/-! ### the error-propagation theorem -/

/-- `e j = B_{j-1}/N − C_{j-1}`: the error of barrier `j − 1` against the ideal cumulative value (`e 0 = 0`). -/
def errSeq (L : List ℕ) (N : ℕ) (q : ℤ → K) (v0 : ℤ) (j : ℕ) : K :=
  (cB L N j : K) / (N : K) - ∑ i ∈ range j, q (v0 + (i : ℤ))

theorem pInd_sub_q (L : List ℕ) (N : ℕ) (q : ℤ → K) (v0 : ℤ) {k : ℕ} (hk : k ≤ L.length) :
    pInd K L N k - q (v0 + (k : ℤ)) = errSeq L N q v0 (k + 1) - errSeq L N q v0 k := by
  rw [pInd_eq_cB L N hk, errSeq, errSeq, sum_range_succ, sub_div]
  ring

/-- Σ over the support of `|pInd − q|`, in terms of `δ` and the outside mass. -/
theorem sum_abs_le_of_barrier_error (L : List ℕ) (N : ℕ) (q : ℤ → K) (v0 : ℤ) (δ : K) (hN : 0 < N)
    (htail : 0 ≤ tailMass q v0 L.length)
    (hbar : ∀ k (hk : k < L.length), |((L[k] : ℕ) : K) / (N : K) - cumQ q v0 k| ≤ δ) :
    ∑ k ∈ range (L.length + 1), |pInd K L N k - q (v0 + (k : ℤ))| ≤
      2 * (L.length : K) * δ + tailMass q v0 L.length := by
  have hcongr : ∀ k ∈ range (L.length + 1), |pInd K L N k - q (v0 + (k : ℤ))| =
      |errSeq L N q v0 (k + 1) - errSeq L N q v0 k| := by
    intro k hk
    rw [pInd_sub_q L N q v0 (by simpa [Nat.lt_succ_iff] using hk)]
  rw [sum_congr rfl hcongr]
  have hNK : (N : K) ≠ 0 := by positivity
  apply sum_abs_increments_le (errSeq L N q v0) L.length δ (tailMass q v0 L.length)
  · simp [errSeq, cB_zero]
  · exact htail
  · simp [errSeq, cB_last, tailMass, cumQ, hNK]
  · intro j h1 hj
    obtain ⟨k, rfl⟩ : ∃ k, j = k + 1 := ⟨j - 1, by omega⟩
    have hk : k < L.length := by omega
    have := hbar k hk
    rwa [errSeq, cB_succ_of_lt L N hk, ← cumQ]

/-- **error propagation**: if every barrier is within `δ` of the (scaled) ideal cumulative value, the induced
distribution is within `nb·δ + tailMass` of the ideal one in total variation.  (`δ ≥ 0` is implied by the hypothesis
as soon as there is a barrier; the constant is attained: see the example in Properties/C10TV.lean.) -/
theorem tv_le_of_barrier_error (L : List ℕ) (N : ℕ) (q : ℤ → K) (v0 : ℤ) (δ : K) (hN : 0 < N)
    (htail : 0 ≤ tailMass q v0 L.length)
    (hbar : ∀ k (hk : k < L.length), |((L[k] : ℕ) : K) / (N : K) - cumQ q v0 k| ≤ δ) :
    tv L N q v0 ≤ (L.length : K) * δ + tailMass q v0 L.length := by
  have h := sum_abs_le_of_barrier_error L N q v0 δ hN htail hbar
  unfold tv
  linarith

/-- **budget form**: `nb·δ + tailMass ≤ 2^-λ / m` gives `tv ≤ 2^-λ / m`. -/
theorem tv_budget (L : List ℕ) (N : ℕ) (q : ℤ → K) (v0 : ℤ) (δ : K) (lam m : ℕ) (hN : 0 < N)
    (htail : 0 ≤ tailMass q v0 L.length)
    (hbar : ∀ k (hk : k < L.length), |((L[k] : ℕ) : K) / (N : K) - cumQ q v0 k| ≤ δ)
    (hbud : (L.length : K) * δ + tailMass q v0 L.length ≤ ((2 : K) ^ lam)⁻¹ / (m : K)) :
    tv L N q v0 ≤ ((2 : K) ^ lam)⁻¹ / (m : K) :=
  le_trans (tv_le_of_barrier_error L N q v0 δ hN htail hbar) hbud

/-! ### `tv` is the total variation: it bounds the difference of the two probabilities of every event

An event is a set `A` of support indices plus a set of integers outside the support; the induced distribution gives the
outside part probability `0`, the ideal one gives it some `o` with `0 ≤ o ≤ tailMass`. -/

theorem sum_pInd_sub_q (L : List ℕ) {N : ℕ} (q : ℤ → K) (v0 : ℤ) (hN : 0 < N) :
    ∑ k ∈ range (L.length + 1), (pInd K L N k - q (v0 + (k : ℤ))) = tailMass q v0 L.length := by
  rw [sum_sub_distrib, pInd_sum L hN, tailMass, cumQ]

theorem tv_event (L : List ℕ) {N : ℕ} (q : ℤ → K) (v0 : ℤ) (hN : 0 < N) (A : Finset ℕ)
    (hA : A ⊆ range (L.length + 1)) (o : K) (ho : 0 ≤ o) (ho' : o ≤ tailMass q v0 L.length) :
    |∑ k ∈ A, pInd K L N k - (∑ k ∈ A, q (v0 + (k : ℤ)) + o)| ≤ tv L N q v0 := by
  set d : ℕ → K := fun k => pInd K L N k - q (v0 + (k : ℤ)) with hd
  have hsum : ∑ k ∈ range (L.length + 1), d k = tailMass q v0 L.length := sum_pInd_sub_q L q v0 hN
  have hA1 : ∑ k ∈ A, pInd K L N k - (∑ k ∈ A, q (v0 + (k : ℤ)) + o) = ∑ k ∈ A, d k - o := by
    rw [hd, sum_sub_distrib]; ring
  have hup : ∑ k ∈ A, d k ≤ ∑ k ∈ range (L.length + 1), (|d k| + d k) / 2 :=
    calc ∑ k ∈ A, d k ≤ ∑ k ∈ A, (|d k| + d k) / 2 :=
          sum_le_sum fun k _ => by linarith [le_abs_self (d k)]
      _ ≤ _ := sum_le_sum_of_subset_of_nonneg hA fun k _ _ => by linarith [neg_abs_le (d k)]
  have hlo : -∑ k ∈ range (L.length + 1), (|d k| - d k) / 2 ≤ ∑ k ∈ A, d k := by
    have : ∑ k ∈ A, (|d k| - d k) / 2 ≤ ∑ k ∈ range (L.length + 1), (|d k| - d k) / 2 :=
      sum_le_sum_of_subset_of_nonneg hA fun k _ _ => by linarith [le_abs_self (d k)]
    have h2 : -∑ k ∈ A, (|d k| - d k) / 2 ≤ ∑ k ∈ A, d k := by
      rw [← sum_neg_distrib]
      exact sum_le_sum fun k _ => by linarith [neg_abs_le (d k)]
    linarith
  have e1 : ∑ k ∈ range (L.length + 1), (|d k| + d k) / 2 = tv L N q v0 := by
    rw [← sum_div, sum_add_distrib, hsum]; rfl
  have e2 : ∑ k ∈ range (L.length + 1), (|d k| - d k) / 2 =
      tv L N q v0 - tailMass q v0 L.length := by
    rw [← sum_div, sum_sub_distrib, hsum]
    unfold tv
    ring
  rw [hA1, abs_le]
  constructor <;> linarith

/-! ### where `δ` comes from: rounding to the grid `ℤ/N` plus the error of the computed cumulative value -/

/-- an integer within one unit of `N·x` is within `1/N` of `x` after scaling. -/
theorem grid_error {N : ℕ} (hN : 0 < N) (B : ℕ) (x : K) (h : |(B : K) - (N : K) * x| ≤ 1) :
    |(B : K) / (N : K) - x| ≤ 1 / (N : K) := by
  have hNK : (0 : K) < (N : K) := by exact_mod_cast hN
  have e : (B : K) / (N : K) - x = ((B : K) - (N : K) * x) / (N : K) := by
    field_simp
  rw [e, abs_div, abs_of_pos hNK]
  exact div_le_div_of_nonneg_right h hNK.le

/-- in particular truncation: `B = ⌊N·x⌋`. -/
theorem floor_error [FloorSemiring K] {N : ℕ} (hN : 0 < N) (x : K) (hx : 0 ≤ x) :
    |((⌊(N : K) * x⌋₊ : ℕ) : K) / (N : K) - x| ≤ 1 / (N : K) := by
  apply grid_error hN
  have hnx : 0 ≤ (N : K) * x := mul_nonneg (by positivity) hx
  have h1 := Nat.floor_le hnx
  have h2 := Nat.lt_floor_add_one ((N : K) * x)
  rw [abs_le]; constructor <;> linarith

/-- rounding error `≤ c₁`, error of the computed value `x'` against the exact one `≤ η`: total `≤ c₁ + η`. -/
theorem barrier_error_split (b x' x c₁ η : K) (h1 : |b - x'| ≤ c₁) (h2 : |x' - x| ≤ η) : |b - x| ≤ c₁ + η :=
  calc |b - x| ≤ |b - x'| + |x' - x| := abs_sub_le b x' x
    _ ≤ c₁ + η := add_le_add h1 h2

/-! ### the parameter arithmetic (`N = 2^bits`, `k = kOf λ m`) -/

/-- what `precOK` (Model/GaussParams.lean) says, as a rational inequality: `(nb − 3) · 2^-bits < 2^-k`. -/
theorem quant_of_precOK {k nb bits : ℕ} (h : precOK k nb bits = true) :
    ((nb : K) - 3) / (2 : K) ^ bits < ((2 : K) ^ k)⁻¹ := by
  simp only [precOK, decide_eq_true_eq] at h
  have hc : (2 : K) ^ k * ((nb - 3 : ℕ) : K) < (2 : K) ^ bits := by exact_mod_cast h
  have hsub : (nb : K) - 3 ≤ ((nb - 3 : ℕ) : K) := by
    rcases Nat.lt_or_ge nb 3 with h3 | h3
    · have : (nb : K) < 3 := by exact_mod_cast h3
      have : (0 : K) ≤ ((nb - 3 : ℕ) : K) := Nat.cast_nonneg _
      linarith
    · rw [Nat.cast_sub h3]; simp
  have hk : (0 : K) < (2 : K) ^ k := by positivity
  have hb : (0 : K) < (2 : K) ^ bits := by positivity
  rw [div_lt_iff₀ hb, ← one_div, div_mul_eq_mul_div, one_mul, lt_div_iff₀ hk]
  nlinarith

/-- `precOK` alone keeps the pure quantisation term `nb · 2^-bits` (one grid unit per barrier) below `2 · 2^-k` — the
whole per-sample budget, not half of it: `precOK` is stated with `nb − 3` (the code approximates `nb` by `2·t·σ`). -/
theorem quant_lt_two_of_precOK {k nb bits : ℕ} (h : precOK k nb bits = true) (hnb : 5 ≤ nb) :
    (nb : K) * (1 / (2 : K) ^ bits) < 2 * ((2 : K) ^ k)⁻¹ := by
  simp only [precOK, decide_eq_true_eq] at h
  have hkb : k + 2 ≤ bits := by
    by_contra hcon
    have h1 : bits ≤ k + 1 := by omega
    have h2 : 2 ^ bits ≤ 2 ^ (k + 1) := Nat.pow_le_pow_right (by omega) h1
    have h3 : 2 ^ k * 2 ≤ 2 ^ k * (nb - 3) := Nat.mul_le_mul_left _ (by omega)
    rw [Nat.pow_succ] at h2
    omega
  have h4 : 2 ^ (k + 2) ≤ 2 ^ bits := Nat.pow_le_pow_right (by omega) hkb
  have hnat : nb * 2 ^ k < 2 * 2 ^ bits := by
    have e : nb * 2 ^ k = 2 ^ k * (nb - 3) + 3 * 2 ^ k := by
      have : nb = (nb - 3) + 3 := by omega
      conv_lhs => rw [this]
      ring
    have : 2 ^ (k + 2) = 4 * 2 ^ k := by ring
    have hp : 0 < 2 ^ k := Nat.two_pow_pos k
    omega
  have hc : (nb : K) * (2 : K) ^ k < 2 * (2 : K) ^ bits := by exact_mod_cast hnat
  have hk : (0 : K) < (2 : K) ^ k := by positivity
  have hb : (0 : K) < (2 : K) ^ bits := by positivity
  rw [mul_one_div, div_lt_iff₀ hb, ← one_div, mul_one_div, div_mul_eq_mul_div, lt_div_iff₀ hk]
  exact hc

/-- the condition under which a barrier error of `c` grid units (`δ = c · 2^-bits`; `c = 1`: rounding only) uses at
most half of the per-sample budget: `c · nb · 2^k ≤ 2^bits`.  (Core Lean, evaluable like `precOK`; it implies
`precOK` for `c ≥ 1`, `nb ≥ 1`.) -/
def precStrong (c k nb bits : ℕ) : Bool := c * nb * 2 ^ k ≤ 2 ^ bits

theorem quant_le_of_precStrong {c k nb bits : ℕ} (h : precStrong c k nb bits = true) :
    (nb : K) * ((c : K) / (2 : K) ^ bits) ≤ ((2 : K) ^ k)⁻¹ := by
  simp only [precStrong, decide_eq_true_eq] at h
  have hc : (c : K) * (nb : K) * (2 : K) ^ k ≤ (2 : K) ^ bits := by exact_mod_cast h
  have hk : (0 : K) < (2 : K) ^ k := by positivity
  have hb : (0 : K) < (2 : K) ^ bits := by positivity
  rw [mul_div_assoc', div_le_iff₀ hb, ← one_div, div_mul_eq_mul_div, one_mul, le_div_iff₀ hk]
  linarith

theorem precOK_of_precStrong {c k nb bits : ℕ} (hc : 1 ≤ c) (hnb : 1 ≤ nb) (h : precStrong c k nb bits = true) :
    precOK k nb bits = true := by
  simp only [precStrong, precOK, decide_eq_true_eq] at *
  have hp : 0 < 2 ^ k := Nat.two_pow_pos k
  have h1 : 2 ^ k * (nb - 3) < 2 ^ k * nb := Nat.mul_lt_mul_of_pos_left (by omega) hp
  have h2 : 1 * nb * 2 ^ k ≤ c * nb * 2 ^ k := Nat.mul_le_mul_right _ (Nat.mul_le_mul_right _ hc)
  rw [Nat.one_mul, Nat.mul_comm nb] at h2
  omega

/-- two shares of `2^-k`, `k = λ + 1 + ⌈log₂ m⌉`, fit in `2^-λ / m` — for every `m ≥ 1`. -/
theorem two_shares_le_budget (lam m : ℕ) (hm : 1 ≤ m) :
    2 * ((2 : K) ^ kOf lam m)⁻¹ ≤ ((2 : K) ^ lam)⁻¹ / (m : K) := by
  have hmK : (0 : K) < (m : K) := by exact_mod_cast hm
  have hle : (m : K) ≤ (2 : K) ^ clog2 m := by exact_mod_cast le_two_pow_clog2 m
  have hl : (0 : K) < (2 : K) ^ lam := by positivity
  have hcl : (0 : K) < (2 : K) ^ clog2 m := by positivity
  have e : (2 : K) ^ kOf lam m = 2 * (2 : K) ^ lam * (2 : K) ^ clog2 m := by
    unfold kOf; rw [pow_add, pow_add]; ring
  rw [e, le_div_iff₀ hmK]
  have : 2 * (2 * (2 : K) ^ lam * (2 : K) ^ clog2 m)⁻¹ = ((2 : K) ^ lam)⁻¹ * ((2 : K) ^ clog2 m)⁻¹ := by
    field_simp
  rw [this, mul_assoc]
  apply mul_le_of_le_one_right (by positivity)
  rw [inv_mul_le_iff₀ hcl, mul_one]
  exact hle

end Nfl.Gauss.TV
