/-
Helper lemmas for C04 (CRT lift of `gmp.hpp`): the `mpz_invert` contract and its implementation, the
Barrett/"Shoup" quotient bound that justifies the single conditional subtraction, the Chinese remainder facts
about the lifting integers, and the `Int.emod` facts for the reverse direction.
-/
import NflVerif.Model.Crt
import Mathlib.Data.Nat.ChineseRemainder
import Mathlib.Data.Int.ModEq
import Mathlib.Data.Int.GCD
import Mathlib.Data.List.GetD
import Mathlib.Tactic.Ring
import Mathlib.Tactic.Linarith
import Mathlib.Tactic.NormNum

namespace Nfl.Crt
open Nat

/-- what `gmp.hpp` relies on from `mpz_invert(rop, a, p)`: when the inverse exists, `0 ≤ rop < p` and
`a·rop ≡ 1 (mod p)` (`rop = 0` when `p = 1`). -/
def InvContract (inv : Nat → Nat → Nat) : Prop :=
  ∀ a p, 0 < p → Nat.Coprime a p → inv a p < p ∧ a * inv a p % p = 1 % p

/-- canonical residue vector for the moduli `ps` -/
def Canon (ps rs : List Nat) : Prop :=
  rs.length = ps.length ∧ ∀ i, i < ps.length → rs.getD i 0 < ps.getD i 0

/-! ### extended Euclid meets the `mpz_invert` contract -/

theorem xgcdAux_spec (a p : Nat) : ∀ (fuel r0 : Nat) (s0 : Int) (r1 : Nat) (s1 : Int), r1 < fuel →
    (r0 : Int) ≡ s0 * a [ZMOD p] → (r1 : Int) ≡ s1 * a [ZMOD p] →
    (xgcdAux fuel r0 s0 r1 s1).1 = Nat.gcd r0 r1 ∧
      ((xgcdAux fuel r0 s0 r1 s1).1 : Int) ≡ (xgcdAux fuel r0 s0 r1 s1).2 * a [ZMOD p] := by
  intro fuel
  induction fuel with
  | zero => intro r0 s0 r1 s1 h; omega
  | succ f ih =>
    intro r0 s0 r1 s1 hf h0 h1
    unfold xgcdAux
    by_cases hr : r1 = 0
    · subst hr; simp [h0]
    · simp only [hr, if_false]
      have hlt : r0 % r1 < r1 := Nat.mod_lt _ (Nat.pos_of_ne_zero hr)
      have h2 : ((r0 % r1 : Nat) : Int) ≡ (s0 - ((r0 / r1 : Nat) : Int) * s1) * a [ZMOD p] := by
        have e : ((r0 % r1 : Nat) : Int) = (r0 : Int) - ((r0 / r1 : Nat) : Int) * (r1 : Int) := by
          have := Nat.mod_add_div r0 r1
          have : ((r0 % r1 : Nat) : Int) + (r1 : Int) * ((r0 / r1 : Nat) : Int) = (r0 : Int) := by exact_mod_cast this
          linarith
        rw [e, sub_mul, mul_assoc]
        exact h0.sub (h1.mul_left _)
      obtain ⟨g1, g2⟩ := ih r1 s1 (r0 % r1) (s0 - ((r0 / r1 : Nat) : Int) * s1) (by omega) h1 h2
      refine ⟨?_, g2⟩
      rw [g1, Nat.gcd_comm r0 r1, Nat.gcd_rec r1 r0, Nat.gcd_comm]

theorem invMod_contract : InvContract invMod := by
  intro a p hp hcop
  have h := xgcdAux_spec a p (p + 1) a 1 p 0 (by omega) (by simp) (by simp [Int.ModEq])
  obtain ⟨g1, g2⟩ := h
  rw [hcop] at g1
  rw [g1] at g2
  set s := (xgcdAux (p + 1) a 1 p 0).2 with hs
  have hpz : (0 : Int) < (p : Int) := by exact_mod_cast hp
  have hnn : 0 ≤ s % (p : Int) := Int.emod_nonneg _ (by omega)
  have hlt : s % (p : Int) < p := Int.emod_lt_of_pos _ hpz
  have hcast : ((invMod a p : Nat) : Int) = s % (p : Int) := by
    unfold invMod; rw [← hs]; exact Int.toNat_of_nonneg hnn
  constructor
  · have : ((invMod a p : Nat) : Int) < (p : Int) := by rw [hcast]; exact hlt
    exact_mod_cast this
  · have e : ((a * invMod a p % p : Nat) : Int) = ((1 % p : Nat) : Int) := by
      push_cast
      rw [hcast]
      have : (a : Int) * (s % (p : Int)) ≡ 1 [ZMOD p] := by
        have h1 : (a : Int) * (s % (p : Int)) ≡ (a : Int) * s [ZMOD p] := (Int.mod_modEq s p).mul_left _
        have h2 : (a : Int) * s ≡ 1 [ZMOD p] := by
          rw [mul_comm]; exact_mod_cast g2.symm
        exact h1.trans h2
      exact this
    exact_mod_cast e

/-! ### the quotient estimate: one conditional subtraction suffices whenever `x < 2^s` -/

theorem barrett (Q s x : Nat) (hQ : 0 < Q) (hx : x < 2 ^ s) :
    (x * (2 ^ s / Q) / 2 ^ s) * Q ≤ x ∧ x < (x * (2 ^ s / Q) / 2 ^ s + 2) * Q := by
  set mu := 2 ^ s / Q with hmu
  set q := x * mu / 2 ^ s with hq
  have hS : 0 < 2 ^ s := Nat.two_pow_pos s
  have h1 : mu * Q ≤ 2 ^ s := Nat.div_mul_le_self _ _
  have h2 : 2 ^ s < mu * Q + Q := by
    exact Nat.lt_div_mul_add (a := 2 ^ s) hQ
  have h3 : q * 2 ^ s ≤ x * mu := Nat.div_mul_le_self _ _
  have h4 : x * mu < q * 2 ^ s + 2 ^ s := by
    exact Nat.lt_div_mul_add (a := x * mu) hS
  constructor
  · -- q·2^s·Q ≤ x·μ·Q ≤ x·2^s
    have : q * Q * 2 ^ s ≤ x * 2 ^ s := by
      calc q * Q * 2 ^ s = q * 2 ^ s * Q := by ring
        _ ≤ x * mu * Q := Nat.mul_le_mul_right _ h3
        _ = x * (mu * Q) := by ring
        _ ≤ x * 2 ^ s := Nat.mul_le_mul_left _ h1
    exact Nat.le_of_mul_le_mul_right this hS
  · -- x·2^s < x·(μQ+Q) = xμQ + xQ < (q+1)·2^s·Q + 2^s·Q
    have : x * 2 ^ s < (q + 2) * Q * 2 ^ s := by
      rcases Nat.eq_zero_or_pos x with hx0 | hxp
      · subst hx0; rw [Nat.zero_mul]; exact Nat.mul_pos (Nat.mul_pos (Nat.succ_pos _) hQ) hS
      · calc x * 2 ^ s < x * (mu * Q + Q) := Nat.mul_lt_mul_of_pos_left h2 hxp
          _ = x * mu * Q + x * Q := by ring
          _ < (q * 2 ^ s + 2 ^ s) * Q + 2 ^ s * Q :=
              Nat.add_lt_add (Nat.mul_lt_mul_of_pos_right h4 hQ) (Nat.mul_lt_mul_of_pos_right hx hQ)
          _ = (q + 2) * Q * 2 ^ s := by ring
    exact Nat.lt_of_mul_lt_mul_right this

/-- the reduction step of `poly2mpz` returns `x mod Q` whenever the accumulated sum is below `2^s` -/
theorem shoupReduce_eq (g : GmpConsts) (x : Nat) (hQ : 0 < g.Q) (hmu : g.mu = 2 ^ g.s / g.Q) (hx : x < 2 ^ g.s) :
    shoupReduce g x = ((x % g.Q : Nat) : Int) := by
  obtain ⟨hle, hlt⟩ := barrett g.Q g.s x hQ hx
  unfold shoupReduce
  simp only [Nat.shiftRight_eq_div_pow, hmu]
  set q := x * (2 ^ g.s / g.Q) / 2 ^ g.s with hq
  obtain ⟨d, hd⟩ := Nat.exists_eq_add_of_le hle
  have hd2 : d < 2 * g.Q := by
    have : (q + 2) * g.Q = q * g.Q + 2 * g.Q := by ring
    omega
  have hx1 : (x : Int) - (q : Int) * (g.Q : Int) = (d : Int) := by
    have : (x : Int) = ((q * g.Q + d : Nat) : Int) := by rw [← hd]
    rw [this]; push_cast; ring
  rw [hx1]
  by_cases hge : g.Q ≤ d
  · have : (d : Int) ≥ (g.Q : Int) := by exact_mod_cast hge
    rw [if_pos this]
    have hmod : x % g.Q = d - g.Q := by
      have e : x = (d - g.Q) + g.Q * (q + 1) := by
        have : g.Q * (q + 1) = q * g.Q + g.Q := by ring
        omega
      rw [e, Nat.add_mul_mod_self_left, Nat.mod_eq_of_lt (by omega)]
    rw [hmod, Nat.cast_sub hge]
  · have hlt' : d < g.Q := Nat.lt_of_not_le hge
    have : ¬ ((d : Int) ≥ (g.Q : Int)) := by
      intro h; have : g.Q ≤ d := by exact_mod_cast h
      omega
    rw [if_neg this]
    have hmod : x % g.Q = d := by
      have e : x = d + g.Q * q := by
        have : g.Q * q = q * g.Q := by ring
        omega
      rw [e, Nat.add_mul_mod_self_left, Nat.mod_eq_of_lt hlt']
    rw [hmod]

/-! ### product of the moduli, lifting integers -/

theorem foldl_mul_eq (ps : List Nat) : ∀ acc, ps.foldl (· * ·) acc = acc * ps.prod := by
  induction ps with
  | nil => intro acc; simp
  | cons p t ih => intro acc; simp [List.foldl_cons, ih, Nat.mul_assoc]

theorem prodL_eq (ps : List Nat) : prodL ps = ps.prod := by
  unfold prodL; rw [foldl_mul_eq]; simp

theorem prod_pos_of (ps : List Nat) (hpos : ∀ p ∈ ps, 0 < p) : 0 < ps.prod := by
  induction ps with
  | nil => simp
  | cons p t ih =>
    rw [List.prod_cons]
    exact Nat.mul_pos (hpos p (by simp)) (ih fun q hq => hpos q (by simp [hq]))

/-- `Q / p` is coprime to `p` for every `p` of a pairwise coprime list with product `Q` -/
theorem coprime_prod_div (ps : List Nat) (hc : ps.Pairwise Nat.Coprime) (hpos : ∀ p ∈ ps, 0 < p) :
    ∀ i (hi : i < ps.length), Nat.Coprime (ps.prod / ps[i]) ps[i] := by
  induction ps with
  | nil => intro i hi; simp at hi
  | cons a t ih =>
    intro i hi
    have ha : 0 < a := hpos a (by simp)
    obtain ⟨hat, ht⟩ := List.pairwise_cons.1 hc
    cases i with
    | zero =>
      simp only [List.getElem_cons_zero, List.prod_cons]
      rw [Nat.mul_div_cancel_left _ ha]
      exact (Nat.coprime_list_prod_right_iff.2 hat).symm
    | succ j =>
      have hj : j < t.length := by simpa using hi
      simp only [List.getElem_cons_succ, List.prod_cons]
      have hd : t[j] ∣ t.prod := List.dvd_prod (List.getElem_mem hj)
      rw [Nat.mul_div_assoc a hd]
      exact Nat.Coprime.mul_left (hat _ (List.getElem_mem hj)) (ih ht (fun q hq => hpos q (by simp [hq])) j hj)

theorem coprime_getElem (ps : List Nat) (hc : ps.Pairwise Nat.Coprime) (i j : Nat) (hi : i < ps.length)
    (hj : j < ps.length) (hij : i ≠ j) : Nat.Coprime ps[i] ps[j] := by
  rw [List.pairwise_iff_getElem] at hc
  rcases Nat.lt_or_gt_of_ne hij with h | h
  · exact hc i j hi hj h
  · exact (hc j i hj hi h).symm

/-- `p_j ∣ Q / p_i` for `i ≠ j` -/
theorem dvd_prod_div (ps : List Nat) (hc : ps.Pairwise Nat.Coprime) (i j : Nat) (hi : i < ps.length)
    (hj : j < ps.length) (hij : i ≠ j) : ps[j] ∣ ps.prod / ps[i] := by
  have h1 : ps[i] ∣ ps.prod := List.dvd_prod (List.getElem_mem hi)
  have h2 : ps[j] ∣ ps.prod := List.dvd_prod (List.getElem_mem hj)
  exact Nat.dvd_div_of_mul_dvd ((coprime_getElem ps hc i j hi hj hij).mul_dvd_of_dvd_of_dvd h1 h2)

/-! ### the accumulated sum -/

theorem rawSumAux_eq : ∀ (L rs : List Nat) (acc : Nat),
    rawSumAux L rs acc = acc + (List.zipWith (· * ·) L rs).sum
  | [], _, acc => by simp [rawSumAux]
  | _ :: _, [], acc => by simp [rawSumAux]
  | l :: L, r :: rs, acc => by
    rw [rawSumAux, rawSumAux_eq L rs]
    by_cases h : r = 0
    · subst h; simp
    · simp [h, Nat.add_assoc]

/-- skipping the zero residues does not change the sum -/
theorem rawSum_eq (L rs : List Nat) : rawSum L rs = (List.zipWith (· * ·) L rs).sum := by
  unfold rawSum; rw [rawSumAux_eq]; simp

theorem sum_zip_modEq_zero (p : Nat) : ∀ (L rs : List Nat), (∀ i, i < L.length → L.getD i 0 ≡ 0 [MOD p]) →
    (List.zipWith (· * ·) L rs).sum ≡ 0 [MOD p]
  | [], _, _ => by simp [Nat.ModEq]
  | _ :: _, [], _ => by simp [Nat.ModEq]
  | l :: L, r :: rs, h => by
    simp only [List.zipWith_cons_cons, List.sum_cons]
    have h0 : l ≡ 0 [MOD p] := by simpa using h 0 (by simp)
    have ht := sum_zip_modEq_zero p L rs (fun i hi => by simpa using h (i + 1) (by simpa using hi))
    simpa using (h0.mul_right r).add ht

/-- a sum against a "Kronecker" coefficient vector picks one residue -/
theorem sum_zip_kronecker (p : Nat) : ∀ (L rs : List Nat) (j : Nat), L.length = rs.length → j < L.length →
    (∀ i, i < L.length → L.getD i 0 ≡ (if i = j then 1 else 0) [MOD p]) →
    (List.zipWith (· * ·) L rs).sum ≡ rs.getD j 0 [MOD p]
  | [], _, j, _, hj, _ => by simp at hj
  | _ :: _, [], _, hl, _, _ => by simp at hl
  | l :: L, r :: rs, j, hl, hj, h => by
    simp only [List.zipWith_cons_cons, List.sum_cons]
    cases j with
    | zero =>
      have h0 : l ≡ 1 [MOD p] := by simpa using h 0 (by simp)
      have ht := sum_zip_modEq_zero p L rs (fun i hi => by simpa using h (i + 1) (by simpa using hi))
      simpa using (h0.mul_right r).add ht
    | succ j' =>
      have h0 : l ≡ 0 [MOD p] := by simpa using h 0 (by simp)
      have ht := sum_zip_kronecker p L rs j' (by simpa using hl) (by simpa using hj)
        (fun i hi => by simpa using h (i + 1) (by simpa using hi))
      simpa using (h0.mul_right r).add ht

theorem sum_zip_le (A B : Nat) : ∀ (L rs : List Nat), (∀ l ∈ L, l ≤ A) → (∀ r ∈ rs, r ≤ B) →
    (List.zipWith (· * ·) L rs).sum ≤ L.length * (A * B)
  | [], _, _, _ => by simp
  | _ :: _, [], _, _ => by simp
  | l :: L, r :: rs, hL, hR => by
    simp only [List.zipWith_cons_cons, List.sum_cons, List.length_cons]
    have h1 : l * r ≤ A * B := Nat.mul_le_mul (hL l (by simp)) (hR r (by simp))
    have h2 := sum_zip_le A B L rs (fun x hx => hL x (by simp [hx])) (fun x hx => hR x (by simp [hx]))
    calc l * r + _ ≤ A * B + L.length * (A * B) := Nat.add_le_add h1 h2
      _ = (L.length + 1) * (A * B) := by ring

/-! ### the constants of `GMP::GMP()` -/

/-- hypotheses on a modulus set: pairwise coprime, non-zero, representable in a `w`-bit limb -/
structure ModOK (w : Nat) (ps : List Nat) : Prop where
  coprime : ps.Pairwise Nat.Coprime
  pos : ∀ p ∈ ps, 0 < p
  small : ∀ p ∈ ps, p ≤ 2 ^ w

section Main
variable {inv : Nat → Nat → Nat} {w : Nat} {ps : List Nat}

@[simp] theorem gmp_ps : (gmpInitWith inv w ps).ps = ps := rfl
theorem gmp_Q : (gmpInitWith inv w ps).Q = ps.prod := prodL_eq ps
theorem gmp_mu : (gmpInitWith inv w ps).mu = 2 ^ (gmpInitWith inv w ps).s / (gmpInitWith inv w ps).Q := rfl
theorem gmp_s : (gmpInitWith inv w ps).s = bitsNat ps.prod + w + Nat.log2 ps.length + 1 := by
  show bitsNat (prodL ps) + w + staticLog2 ps.length + 1 = _
  rw [prodL_eq]; rfl
theorem gmp_L_length : (gmpInitWith inv w ps).L.length = ps.length := by
  simp [gmpInitWith]

theorem gmp_L_getD (i : Nat) (hi : i < ps.length) :
    (gmpInitWith inv w ps).L.getD i 0 = inv (ps.prod / ps[i]) ps[i] * (ps.prod / ps[i]) := by
  have : (gmpInitWith inv w ps).L = ps.map fun p => inv (ps.prod / p) p * (ps.prod / p) := by
    simp [gmpInitWith, prodL_eq]
  rw [this, List.getD_eq_getElem _ _ (by simpa using hi), List.getElem_map]

theorem gmp_Q_pos (h : ModOK w ps) : 0 < (gmpInitWith inv w ps).Q := by
  rw [gmp_Q]; exact prod_pos_of ps h.pos

/-- `L_i ≡ δ_ij (mod p_j)` -/
theorem L_modEq (hinv : InvContract inv) (h : ModOK w ps) (i j : Nat) (hi : i < ps.length) (hj : j < ps.length) :
    (gmpInitWith inv w ps).L.getD i 0 ≡ (if i = j then 1 else 0) [MOD ps[j]] := by
  rw [gmp_L_getD i hi]
  by_cases hij : i = j
  · subst hij
    simp only [if_true]
    have hp : 0 < ps[i] := h.pos _ (List.getElem_mem hi)
    have := (hinv (ps.prod / ps[i]) ps[i] hp (coprime_prod_div ps h.coprime h.pos i hi)).2
    unfold Nat.ModEq
    rw [Nat.mul_comm]; exact this
  · simp only [hij, if_false]
    have hd := dvd_prod_div ps h.coprime i j hi hj hij
    exact (Nat.modEq_zero_iff_dvd.2 (Dvd.dvd.mul_left hd _))

theorem L_le (hinv : InvContract inv) (h : ModOK w ps) : ∀ l ∈ (gmpInitWith inv w ps).L, l ≤ ps.prod := by
  intro l hl
  obtain ⟨i, hi, rfl⟩ := List.getElem_of_mem hl
  have hi' : i < ps.length := by rwa [gmp_L_length] at hi
  have e := gmp_L_getD (inv := inv) (w := w) i hi'
  rw [List.getD_eq_getElem _ _ hi] at e
  rw [e]
  have hp : 0 < ps[i] := h.pos _ (List.getElem_mem hi')
  have hlt := (hinv (ps.prod / ps[i]) ps[i] hp (coprime_prod_div ps h.coprime h.pos i hi')).1
  have hd : ps[i] ∣ ps.prod := List.dvd_prod (List.getElem_mem hi')
  calc inv (ps.prod / ps[i]) ps[i] * (ps.prod / ps[i]) ≤ ps[i] * (ps.prod / ps[i]) :=
        Nat.mul_le_mul_right _ hlt.le
    _ = ps.prod := Nat.mul_div_cancel' hd

theorem Canon.getD_lt {rs : List Nat} (hr : Canon ps rs) (i : Nat) (hi : i < ps.length) : rs.getD i 0 < ps[i] := by
  have := hr.2 i hi
  rwa [List.getD_eq_getElem ps _ hi] at this

theorem Canon.le_pow {rs : List Nat} (h : ModOK w ps) (hr : Canon ps rs) : ∀ r ∈ rs, r ≤ 2 ^ w := by
  intro r hrm
  obtain ⟨i, hi, rfl⟩ := List.getElem_of_mem hrm
  have hi' : i < ps.length := hr.1 ▸ hi
  have h1 := hr.getD_lt i hi'
  rw [List.getD_eq_getElem _ _ hi] at h1
  have h2 := h.small _ (List.getElem_mem hi')
  omega

/-- the accumulated sum is congruent to every residue -/
theorem rawSum_modEq (hinv : InvContract inv) (h : ModOK w ps) (rs : List Nat) (hlen : rs.length = ps.length)
    (j : Nat) (hj : j < ps.length) :
    rawSum (gmpInitWith inv w ps).L rs ≡ rs.getD j 0 [MOD ps[j]] := by
  rw [rawSum_eq]
  apply sum_zip_kronecker
  · rw [gmp_L_length, hlen]
  · rwa [gmp_L_length]
  · intro i hi
    rw [gmp_L_length] at hi
    exact L_modEq hinv h i j hi hj

/-- **sizing of the shift**: the accumulated sum is below `2^s` (so the quotient estimate is off by at most one) -/
theorem rawSum_lt (hinv : InvContract inv) (h : ModOK w ps) (rs : List Nat) (hr : Canon ps rs) :
    rawSum (gmpInitWith inv w ps).L rs < 2 ^ (gmpInitWith inv w ps).s := by
  rw [rawSum_eq, gmp_s]
  have h1 := sum_zip_le ps.prod (2 ^ w) _ rs (L_le hinv h) (hr.le_pow h)
  rw [gmp_L_length] at h1
  have hQ : 0 < ps.prod := prod_pos_of ps h.pos
  have hb : ps.prod < 2 ^ bitsNat ps.prod := by
    unfold bitsNat; rw [if_neg (by omega)]; exact Nat.lt_log2_self
  have hm : ps.length < 2 ^ (Nat.log2 ps.length + 1) := Nat.lt_log2_self
  have hW : 0 < 2 ^ w := Nat.two_pow_pos w
  calc _ ≤ ps.length * (ps.prod * 2 ^ w) := h1
    _ < 2 ^ (Nat.log2 ps.length + 1) * (ps.prod * 2 ^ w) := Nat.mul_lt_mul_of_pos_right hm (Nat.mul_pos hQ hW)
    _ ≤ 2 ^ (Nat.log2 ps.length + 1) * (2 ^ bitsNat ps.prod * 2 ^ w) :=
        Nat.mul_le_mul_left _ (Nat.mul_le_mul_right _ hb.le)
    _ = 2 ^ (bitsNat ps.prod + w + Nat.log2 ps.length + 1) := by
        rw [← pow_add, ← pow_add]; congr 1; omega

/-- the mathematical value of the lift -/
def liftNat (g : GmpConsts) (rs : List Nat) : Nat := rawSum g.L rs % g.Q

/-- `poly2mpz` (one coefficient) returns the accumulated sum reduced modulo `Q` — one conditional subtraction
is enough -/
theorem lift_eq (hinv : InvContract inv) (h : ModOK w ps) (rs : List Nat) (hr : Canon ps rs) :
    poly2mpzCoeff (gmpInitWith inv w ps) rs = (liftNat (gmpInitWith inv w ps) rs : Int) :=
  shoupReduce_eq _ _ (gmp_Q_pos h) gmp_mu (rawSum_lt hinv h rs hr)

theorem liftNat_lt (h : ModOK w ps) (rs : List Nat) : liftNat (gmpInitWith inv w ps) rs < ps.prod := by
  unfold liftNat; rw [gmp_Q]; exact Nat.mod_lt _ (prod_pos_of ps h.pos)

theorem liftNat_mod (hinv : InvContract inv) (h : ModOK w ps) (rs : List Nat) (hr : Canon ps rs)
    (j : Nat) (hj : j < ps.length) : liftNat (gmpInitWith inv w ps) rs % ps[j] = rs.getD j 0 := by
  have hd : ps[j] ∣ ps.prod := List.dvd_prod (List.getElem_mem hj)
  have h1 : liftNat (gmpInitWith inv w ps) rs ≡ rawSum (gmpInitWith inv w ps).L rs [MOD ps[j]] := by
    unfold liftNat; rw [gmp_Q]; exact (Nat.mod_modEq _ _).of_dvd hd
  have h2 := h1.trans (rawSum_modEq hinv h rs hr.1 j hj)
  unfold Nat.ModEq at h2
  rw [h2, Nat.mod_eq_of_lt (hr.getD_lt j hj)]

/-- Chinese remainder theorem: a natural number below `Q` with the same residues is the lift -/
theorem liftNat_unique (hinv : InvContract inv) (h : ModOK w ps) (rs : List Nat) (hr : Canon ps rs)
    (y : Nat) (hy : y < ps.prod) (hres : ∀ j (hj : j < ps.length), y % ps[j] = rs.getD j 0) :
    y = liftNat (gmpInitWith inv w ps) rs := by
  have hm : y ≡ liftNat (gmpInitWith inv w ps) rs [MOD ps.prod] := by
    rw [Nat.modEq_list_prod_iff h.coprime]
    intro i
    show y % ps[i.1] = _ % ps[i.1]
    rw [hres i.1 i.2, liftNat_mod hinv h rs hr i.1 i.2]
  exact hm.eq_of_lt_of_lt hy (liftNat_lt h rs)

/-- every way of producing a number below `Q` with the right residues gives the value `poly2mpz` returns -/
theorem lift_of_residues (hinv : InvContract inv) (h : ModOK w ps) (rs : List Nat) (hr : Canon ps rs)
    (y : Nat) (hy : y < ps.prod) (hres : ∀ j (hj : j < ps.length), y % ps[j] = rs.getD j 0) :
    poly2mpzCoeff (gmpInitWith inv w ps) rs = (y : Int) := by
  rw [lift_eq hinv h rs hr, liftNat_unique hinv h rs hr y hy hres]

/-! ### the reverse direction: `mpz_fdiv_ui` -/

theorem fdivUi_cast (z : Int) (p : Nat) (hp : 0 < p) : (fdivUi z p : Int) = z % (p : Int) := by
  unfold fdivUi
  exact Int.toNat_of_nonneg (Int.emod_nonneg _ (by omega))

theorem fdivUi_lt (z : Int) (p : Nat) (hp : 0 < p) : fdivUi z p < p := by
  have h1 := fdivUi_cast z p hp
  have h2 : z % (p : Int) < p := Int.emod_lt_of_pos _ (by exact_mod_cast hp)
  have : (fdivUi z p : Int) < (p : Int) := by rw [h1]; exact h2
  exact_mod_cast this

theorem fdivUi_natCast (y p : Nat) : fdivUi (y : Int) p = y % p := by
  unfold fdivUi
  have : (y : Int) % (p : Int) = ((y % p : Nat) : Int) := (Int.natCast_mod y p).symm
  rw [this, Int.toNat_natCast]

theorem mpz2polyCoeff_getD (z : Int) (j : Nat) (hj : j < ps.length) :
    (mpz2polyCoeff ps z).getD j 0 = fdivUi z ps[j] := by
  unfold mpz2polyCoeff
  rw [List.getD_eq_getElem _ _ (by simpa using hj), List.getElem_map]

theorem mpz2polyCoeff_canon (h : ModOK w ps) (z : Int) : Canon ps (mpz2polyCoeff ps z) := by
  refine ⟨by simp [mpz2polyCoeff], fun i hi => ?_⟩
  rw [mpz2polyCoeff_getD z i hi, List.getD_eq_getElem ps _ hi]
  exact fdivUi_lt z _ (h.pos _ (List.getElem_mem hi))

/-- `mpz2poly ∘ poly2mpz = id` on canonical residues -/
theorem residuesOfLift_eq (hinv : InvContract inv) (h : ModOK w ps) (rs : List Nat) (hr : Canon ps rs) :
    residuesOfLift (gmpInitWith inv w ps) rs = rs := by
  unfold residuesOfLift
  rw [lift_eq hinv h rs hr, gmp_ps]
  apply List.ext_getElem
  · simp [mpz2polyCoeff, hr.1]
  · intro j hj1 hj2
    have hj : j < ps.length := by simpa [mpz2polyCoeff] using hj1
    have e := mpz2polyCoeff_getD (ps := ps) (liftNat (gmpInitWith inv w ps) rs : Int) j hj
    rw [List.getD_eq_getElem _ _ hj1] at e
    rw [e, fdivUi_natCast, liftNat_mod hinv h rs hr j hj, List.getD_eq_getElem _ _ hj2]

/-- `poly2mpz ∘ mpz2poly = (· mod Q)` for every integer -/
theorem liftOfMpz_eq (hinv : InvContract inv) (h : ModOK w ps) (z : Int) :
    liftOfMpz (gmpInitWith inv w ps) z = z % (ps.prod : Int) := by
  unfold liftOfMpz
  rw [gmp_ps]
  have hQ : 0 < ps.prod := prod_pos_of ps h.pos
  have hy := fdivUi_cast z ps.prod hQ
  rw [← hy]
  apply lift_of_residues hinv h _ (mpz2polyCoeff_canon h z) _ (fdivUi_lt z _ hQ)
  intro j hj
  rw [mpz2polyCoeff_getD z j hj]
  have hp : 0 < ps[j] := h.pos _ (List.getElem_mem hj)
  have hd : (ps[j] : Int) ∣ (ps.prod : Int) := by exact_mod_cast List.dvd_prod (List.getElem_mem hj)
  have : ((fdivUi z ps.prod % ps[j] : Nat) : Int) = (fdivUi z ps[j] : Int) := by
    rw [Int.natCast_mod, hy, fdivUi_cast z _ hp, Int.emod_emod_of_dvd _ hd]
  exact_mod_cast this

/-! ### residue-wise ring operations -/

theorem zip3With_length (f : Nat → Nat → Nat → Nat) : ∀ (ps a b : List Nat), a.length = ps.length →
    b.length = ps.length → (zip3With f ps a b).length = ps.length
  | [], _, _, _, _ => by simp [zip3With]
  | _ :: _, [], _, h, _ => by simp at h
  | _ :: _, _ :: _, [], _, h => by simp at h
  | p :: ps, x :: xs, y :: ys, ha, hb => by
    simp [zip3With, zip3With_length f ps xs ys (by simpa using ha) (by simpa using hb)]

theorem zip3With_getD (f : Nat → Nat → Nat → Nat) : ∀ (ps a b : List Nat) (j : Nat), a.length = ps.length →
    b.length = ps.length → j < ps.length →
    (zip3With f ps a b).getD j 0 = f (ps.getD j 0) (a.getD j 0) (b.getD j 0)
  | [], _, _, _, _, _, hj => by simp at hj
  | _ :: _, [], _, _, h, _, _ => by simp at h
  | _ :: _, _ :: _, [], _, _, h, _ => by simp at h
  | p :: ps, x :: xs, y :: ys, j, ha, hb, hj => by
    cases j with
    | zero => simp [zip3With]
    | succ j' =>
      simp only [zip3With, List.getD_cons_succ]
      exact zip3With_getD f ps xs ys j' (by simpa using ha) (by simpa using hb) (by simpa using hj)

theorem zip3With_canon (f : Nat → Nat → Nat → Nat) (hf : ∀ p x y, 0 < p → f p x y < p)
    (h : ModOK w ps) (a b : List Nat) (ha : a.length = ps.length) (hb : b.length = ps.length) :
    Canon ps (zip3With f ps a b) := by
  refine ⟨zip3With_length f ps a b ha hb, fun i hi => ?_⟩
  rw [zip3With_getD f ps a b i ha hb hi]
  apply hf
  rw [List.getD_eq_getElem ps _ hi]; exact h.pos _ (List.getElem_mem hi)

theorem mod_mod_getElem (x : Nat) (j : Nat) (hj : j < ps.length) : x % ps.prod % ps[j] = x % ps[j] :=
  Nat.mod_mod_of_dvd _ (List.dvd_prod (List.getElem_mem hj))

theorem lift_add (hinv : InvContract inv) (h : ModOK w ps) (a b : List Nat) (ha : Canon ps a) (hb : Canon ps b) :
    poly2mpzCoeff (gmpInitWith inv w ps) (addRes ps a b) =
      (poly2mpzCoeff (gmpInitWith inv w ps) a + poly2mpzCoeff (gmpInitWith inv w ps) b) % (ps.prod : Int) := by
  have hQ : 0 < ps.prod := prod_pos_of ps h.pos
  rw [lift_eq hinv h a ha, lift_eq hinv h b hb]
  set la := liftNat (gmpInitWith inv w ps) a
  set lb := liftNat (gmpInitWith inv w ps) b
  have hc : Canon ps (addRes ps a b) :=
    zip3With_canon _ (fun p x y hp => Nat.mod_lt _ hp) h a b ha.1 hb.1
  rw [lift_of_residues hinv h _ hc ((la + lb) % ps.prod) (Nat.mod_lt _ hQ)]
  · push_cast; rfl
  · intro j hj
    unfold addRes
    rw [zip3With_getD _ ps a b j ha.1 hb.1 hj, mod_mod_getElem _ j hj, List.getD_eq_getElem ps _ hj,
      Nat.add_mod, liftNat_mod hinv h a ha j hj, liftNat_mod hinv h b hb j hj]

theorem lift_mul (hinv : InvContract inv) (h : ModOK w ps) (a b : List Nat) (ha : Canon ps a) (hb : Canon ps b) :
    poly2mpzCoeff (gmpInitWith inv w ps) (mulRes ps a b) =
      (poly2mpzCoeff (gmpInitWith inv w ps) a * poly2mpzCoeff (gmpInitWith inv w ps) b) % (ps.prod : Int) := by
  have hQ : 0 < ps.prod := prod_pos_of ps h.pos
  rw [lift_eq hinv h a ha, lift_eq hinv h b hb]
  set la := liftNat (gmpInitWith inv w ps) a
  set lb := liftNat (gmpInitWith inv w ps) b
  have hc : Canon ps (mulRes ps a b) :=
    zip3With_canon _ (fun p x y hp => Nat.mod_lt _ hp) h a b ha.1 hb.1
  rw [lift_of_residues hinv h _ hc ((la * lb) % ps.prod) (Nat.mod_lt _ hQ)]
  · push_cast; rfl
  · intro j hj
    unfold mulRes
    rw [zip3With_getD _ ps a b j ha.1 hb.1 hj, mod_mod_getElem _ j hj, List.getD_eq_getElem ps _ hj,
      Nat.mul_mod, liftNat_mod hinv h a ha j hj, liftNat_mod hinv h b hb j hj]

theorem lift_sub (hinv : InvContract inv) (h : ModOK w ps) (a b : List Nat) (ha : Canon ps a) (hb : Canon ps b) :
    poly2mpzCoeff (gmpInitWith inv w ps) (subRes ps a b) =
      (poly2mpzCoeff (gmpInitWith inv w ps) a - poly2mpzCoeff (gmpInitWith inv w ps) b) % (ps.prod : Int) := by
  have hQ : 0 < ps.prod := prod_pos_of ps h.pos
  rw [lift_eq hinv h a ha, lift_eq hinv h b hb]
  have hlb : liftNat (gmpInitWith inv w ps) b < ps.prod := liftNat_lt h b
  set la := liftNat (gmpInitWith inv w ps) a
  set lb := liftNat (gmpInitWith inv w ps) b
  have hc : Canon ps (subRes ps a b) :=
    zip3With_canon _ (fun p x y hp => Nat.mod_lt _ hp) h a b ha.1 hb.1
  rw [lift_of_residues hinv h _ hc ((la + ps.prod - lb) % ps.prod) (Nat.mod_lt _ hQ)]
  · rw [Int.natCast_mod, Nat.cast_sub (by omega)]
    push_cast
    rw [show (la : Int) + (ps.prod : Int) - (lb : Int) = ((la : Int) - lb) + ps.prod by ring, Int.add_emod_right]
  · intro j hj
    unfold subRes
    rw [zip3With_getD _ ps a b j ha.1 hb.1 hj, mod_mod_getElem _ j hj, List.getD_eq_getElem ps _ hj]
    have hbj : b.getD j 0 < ps[j] := hb.getD_lt j hj
    have hd : ps[j] ∣ ps.prod := List.dvd_prod (List.getElem_mem hj)
    -- cancel the subtrahend on both sides
    have h1 : (la + ps.prod - lb) + lb ≡ (a.getD j 0 + ps[j] - b.getD j 0) + b.getD j 0 [MOD ps[j]] := by
      rw [Nat.sub_add_cancel (by omega), Nat.sub_add_cancel (by omega)]
      have e1 : la + ps.prod ≡ la [MOD ps[j]] := by
        have := (Nat.modEq_zero_iff_dvd.2 hd)
        simpa using (Nat.ModEq.refl la).add this
      have e2 : a.getD j 0 + ps[j] ≡ a.getD j 0 [MOD ps[j]] := by
        simp [Nat.ModEq]
      have e3 : la ≡ a.getD j 0 [MOD ps[j]] := by
        unfold Nat.ModEq; rw [liftNat_mod hinv h a ha j hj, Nat.mod_eq_of_lt (ha.getD_lt j hj)]
      exact e1.trans (e3.trans e2.symm)
    have h2 : lb ≡ b.getD j 0 [MOD ps[j]] := by
      unfold Nat.ModEq; rw [liftNat_mod hinv h b hb j hj, Nat.mod_eq_of_lt hbj]
    exact Nat.ModEq.add_right_cancel h2 h1

end Main

end Nfl.Crt
