/-
`decode` (one iteration of the `getNoise` loop) against tables satisfying `tableOK`:  fast path = full comparison =
inverse CDF.  Core Lean only.
-/
import NflVerif.Proofs.GaussLex

namespace Nfl.Gauss

/-! ### `cmpRd` / `scanRd` (comparison against the buffer) versus the pure `cmp` / `scan` -/

theorem cmpRd_eq (b tape : Str) (h : b.length ≤ tape.length) :
    ∃ n, n ≤ b.length ∧ cmpRd b tape = some (cmp b tape, n) := by
  induction b generalizing tape with
  | nil => exact ⟨0, Nat.le_refl _, by simp [cmpRd, cmp]⟩
  | cons x xs ih =>
    cases tape with
    | nil => simp at h
    | cons y ys =>
      simp only [List.length_cons, Nat.add_le_add_iff_right] at h
      obtain ⟨n, hn, he⟩ := ih ys h
      simp only [cmpRd, cmp_cons]
      by_cases h1 : x > y
      · exact ⟨1, by simp, by simp [h1]⟩
      · by_cases h2 : x < y
        · exact ⟨1, by simp, by simp [h1, h2]⟩
        · exact ⟨n + 1, by simp [hn], by simp [h1, h2, he]⟩

theorem scanRd_eq (tape : Str) (bl : List Str) (out : Int) (s m : Nat) (hs : s ≤ m)
    (h : ∀ b ∈ bl, b.length ≤ tape.length ∧ b.length ≤ m) :
    ∃ s', s' ≤ m ∧ scanRd tape bl out s = some (scan tape bl out, s') := by
  induction bl generalizing out s with
  | nil => exact ⟨s, hs, by simp [scanRd, scan]⟩
  | cons b bs ih =>
    have hb := h b List.mem_cons_self
    obtain ⟨n, hn, he⟩ := cmpRd_eq b tape hb.1
    have hmax : max s n ≤ m := by omega
    simp only [scanRd, he, scan]
    by_cases hc : cmp b tape = 1
    · exact ⟨max s n, hmax, by simp [hc]⟩
    · simp only [hc, if_false]
      exact ih (out + 1) (max s n) hmax (fun x hx => h x (List.mem_cons_of_mem _ hx))

/-- reading only: `cmpRd` depends on the first `|b|` words of the buffer -/
theorem cmpRd_congr (b t1 t2 : Str) (n : Nat) (hb : b.length ≤ n) (h : t1.take n = t2.take n) : cmpRd b t1 = cmpRd b t2 := by
  induction b generalizing t1 t2 n with
  | nil => simp [cmpRd]
  | cons x xs ih =>
    cases n with
    | zero => simp at hb
    | succ n =>
      simp only [List.length_cons, Nat.add_le_add_iff_right] at hb
      cases t1 with
      | nil => cases t2 with
        | nil => rfl
        | cons y ys => simp at h
      | cons y ys =>
        cases t2 with
        | nil => simp at h
        | cons z zs =>
          simp only [List.take_succ_cons, List.cons.injEq] at h
          obtain ⟨rfl, h⟩ := h
          simp only [cmpRd]
          rw [ih ys zs n hb h]

theorem scanRd_congr (bl : List Str) (t1 t2 : Str) (n : Nat) (out : Int) (s : Nat) (hb : ∀ b ∈ bl, b.length ≤ n)
    (h : t1.take n = t2.take n) : scanRd t1 bl out s = scanRd t2 bl out s := by
  induction bl generalizing out s with
  | nil => simp [scanRd]
  | cons b bs ih =>
    simp only [scanRd]
    rw [cmpRd_congr b t1 t2 n (hb b List.mem_cons_self) h]
    cases cmpRd b t2 with
    | none => rfl
    | some rn =>
      obtain ⟨r, k⟩ := rn
      simp only
      split
      · rfl
      · exact ih (out + 1) (max s k) (fun x hx => hb x (List.mem_cons_of_mem _ hx))

/-! ### the inverse CDF only looks at the first `wp` words -/

theorem leB_take {wp : Nat} {b : Str} (hb : b.length = wp) (u : Str) : leB b u = leB b (u.take wp) := by
  simp only [leB]; rw [cmp_take b u, hb]

theorem invCDF_take {wp : Nat} {bs : List Str} (hl : LenWp wp bs) (v0 : Int) (u : Str) :
    invCDF bs v0 u = invCDF bs v0 (u.take wp) := by
  simp only [invCDF]
  congr 2
  apply List.countP_congr
  intro b hb
  rw [leB_take (hl b hb) u]

/-! ### one correct cell gives the inverse CDF -/

theorem filter_lenWp {wp : Nat} {bs : List Str} (hl : LenWp wp bs) (q : Str → Bool) : LenWp wp (bs.filter q) :=
  fun b hb => hl b (List.mem_filter.mp hb).1

/-- value of an unflagged correct cell, or value + scan of a flagged correct cell, is the inverse CDF of every string
that starts with the cell's prefix. -/
theorem cell_invCDF {wp : Nat} {bs : List Str} {v0 : Int} {p u : Str} {c : Cell}
    (hl : LenWp wp bs) (hs : bs.Pairwise (fun a b => leB a b = true)) (hp : p <+: u) (hpl : p.length ≤ wp) (hu : wp ≤ u.length)
    (hc : cellOK bs v0 p c = true) :
    (c.flag = false → c.val = invCDF bs v0 u) ∧ (c.flag = true → scan u c.bl c.val = invCDF bs v0 u) := by
  simp only [cellOK, Bool.and_eq_true, beq_iff_eq] at hc
  obtain ⟨hval, hfl⟩ := hc
  have hsplit := countP_leB_split (u := u) bs hp (fun b hb => by rw [hl b hb]; exact hpl)
  constructor
  · intro hf
    simp only [hf, Bool.false_eq_true, if_false, Bool.not_eq_true', List.any_eq_false] at hfl
    have : bs.filter (hasPre p) = [] := by
      rw [List.filter_eq_nil_iff]; intro b hb; simpa using hfl b hb
    simp [invCDF, hsplit, this, hval]
  · intro hf
    simp only [hf, if_true, beq_iff_eq] at hfl
    rw [hfl, scan_eq_countP (wp := wp) _ _ (filter_lenWp hl _) hu (hs.filter _), hval]
    simp only [invCDF, hsplit]; omega

/-! ### depth 1 -/

theorem tableOK1_cell {W : Nat} {bs : List Str} {v0 : Int} {T : Tables} (h : tableOK1 W bs v0 T = true) {i : Nat} (hi : i < W) :
    ∃ c, T.t1[i]? = some c ∧ cellOK bs v0 [i] c = true := by
  simp only [tableOK1, Bool.and_eq_true, beq_iff_eq, List.all_eq_true, List.mem_range] at h
  have hsz : i < T.t1.size := by omega
  refine ⟨T.t1[i], by simp [hsz], ?_⟩
  have := h.2 i hi
  simpa [Array.getD, hsz] using this

/-- what `decode` returns on a correct table -/
structure DecOK (bs : List Str) (v0 : Int) (wp : Nat) (tape : Str) (d : Dec) : Prop where
  out_eq : d.out = invCDF bs v0 (tape.take wp)
  seen_le : d.seen ≤ d.used
  used_le : d.used ≤ wp
  used_pos : 1 ≤ d.used

theorem decode1_ok {W wp : Nat} {bs : List Str} {v0 : Int} {T : Tables} {tape : Str}
    (hwf : barriersWF W wp bs = true) (hsort : sortedB bs = true) (hT : tableOK1 W bs v0 T = true)
    (hwp : 1 ≤ wp) (hlen : wp ≤ tape.length) (hw : ∀ x ∈ tape, x < W) :
    ∃ d, decode1 wp T tape = some d ∧ DecOK bs v0 wp tape d := by
  have hl := lenWp_of_WF hwf
  have hs := pairwise_of_sortedB hl hsort
  cases tape with
  | nil => simp at hlen; omega
  | cons i1 rest =>
    have hi : i1 < W := hw i1 List.mem_cons_self
    obtain ⟨c, hc, hok⟩ := tableOK1_cell hT hi
    have hp : [i1] <+: i1 :: rest := by simp [List.cons_prefix_cons]
    have hcell := cell_invCDF (u := i1 :: rest) hl hs hp (by simpa using hwp) hlen hok
    simp only [decode1, hc]
    by_cases hf : c.flag = true
    · have hbl : c.bl = bs.filter (hasPre [i1]) := by
        simp only [cellOK, Bool.and_eq_true, hf, if_true, beq_iff_eq] at hok; exact hok.2
      obtain ⟨s', hs', he⟩ := scanRd_eq (i1 :: rest) c.bl c.val 1 wp hwp (fun b hb => by
        have := filter_lenWp hl (hasPre [i1]) b (hbl ▸ hb); omega)
      have hnot : ¬ wp < 1 := by omega
      refine ⟨⟨scan (i1 :: rest) c.bl c.val, wp, s'⟩, by simp [hf, hnot, he], ?_⟩
      exact ⟨by rw [hcell.2 hf, invCDF_take hl], hs', Nat.le_refl _, hwp⟩
    · simp only [Bool.not_eq_true] at hf
      refine ⟨⟨c.val, 1, 1⟩, by simp [hf], ?_⟩
      exact ⟨by rw [hcell.1 hf, invCDF_take hl], Nat.le_refl _, hwp, Nat.le_refl _⟩

/-! ### depth 2 -/

theorem tableOK2_cell {W : Nat} {bs : List Str} {v0 : Int} {T : Tables} (h : tableOK2 W bs v0 T = true) {i : Nat} (hi : i < W) :
    ∃ c, T.t1[i]? = some c ∧
      (c.flag = false → cellOK bs v0 [i] c = true) ∧
      (c.flag = true → ∃ row, T.t2[i]? = some (some row) ∧
        ∀ j, j < W → ∃ c2, row[j]? = some c2 ∧ cellOK bs v0 [i, j] c2 = true) := by
  simp only [tableOK2, Bool.and_eq_true, beq_iff_eq, List.all_eq_true, List.mem_range] at h
  obtain ⟨⟨hs1, hs2⟩, hall⟩ := h
  have hsz : i < T.t1.size := by omega
  have hsz2 : i < T.t2.size := by omega
  refine ⟨T.t1[i], by simp [hsz], ?_, ?_⟩
  · intro hf
    have := hall i hi
    simpa [Array.getD, hsz, hf] using this
  · intro hf
    have := hall i hi
    have hg1 : T.t1.getD i default = T.t1[i] := by simp [Array.getD, hsz]
    have hg2 : T.t2.getD i none = T.t2[i] := by simp [Array.getD, hsz2]
    rw [hg1, hg2] at this
    simp only [hf, if_true] at this
    cases hrow : T.t2[i] with
    | none => simp [hrow] at this
    | some row =>
      simp only [hrow, Bool.and_eq_true, beq_iff_eq, List.all_eq_true, List.mem_range] at this
      refine ⟨row, by simp [hsz2, hrow], ?_⟩
      intro j hj
      have hj' : j < row.size := by omega
      refine ⟨row[j], by simp [hj'], ?_⟩
      simpa [hj'] using this.2 j hj

theorem decode2_ok {W wp : Nat} {bs : List Str} {v0 : Int} {T : Tables} {tape : Str}
    (hwf : barriersWF W wp bs = true) (hsort : sortedB bs = true) (hT : tableOK2 W bs v0 T = true)
    (hwp : 2 ≤ wp) (hlen : wp ≤ tape.length) (hw : ∀ x ∈ tape, x < W) :
    ∃ d, decode2 wp T tape = some d ∧ DecOK bs v0 wp tape d := by
  have hl := lenWp_of_WF hwf
  have hs := pairwise_of_sortedB hl hsort
  cases tape with
  | nil => simp at hlen; omega
  | cons i1 rest =>
    have hi : i1 < W := hw i1 List.mem_cons_self
    obtain ⟨c, hc, hun, hfl⟩ := tableOK2_cell hT hi
    simp only [decode2, hc]
    by_cases hf : c.flag = true
    · cases rest with
      | nil => simp at hlen; omega
      | cons i2 rest2 =>
        have hi2 : i2 < W := hw i2 (by simp)
        obtain ⟨row, hrow, hcells⟩ := hfl hf
        obtain ⟨c2, hc2, hok2⟩ := hcells i2 hi2
        have hp : [i1, i2] <+: i1 :: i2 :: rest2 := by simp [List.cons_prefix_cons]
        have hcell := cell_invCDF (u := i1 :: i2 :: rest2) hl hs hp (by simpa using hwp) hlen hok2
        simp only [hf, if_true, hrow, hc2]
        by_cases hf2 : c2.flag = true
        · have hbl : c2.bl = bs.filter (hasPre [i1, i2]) := by
            simp only [cellOK, Bool.and_eq_true, hf2, if_true, beq_iff_eq] at hok2; exact hok2.2
          obtain ⟨s', hs', he⟩ := scanRd_eq (i1 :: i2 :: rest2) c2.bl c2.val 2 wp hwp (fun b hb => by
            have := filter_lenWp hl (hasPre [i1, i2]) b (hbl ▸ hb); omega)
          have hnot : ¬ wp < 2 := by omega
          refine ⟨⟨scan (i1 :: i2 :: rest2) c2.bl c2.val, wp, s'⟩, by simp [hf2, hnot, he], ?_⟩
          exact ⟨by rw [hcell.2 hf2, invCDF_take hl], hs', Nat.le_refl _, by show 1 ≤ wp; omega⟩
        · simp only [Bool.not_eq_true] at hf2
          refine ⟨⟨c2.val, 2, 2⟩, by simp [hf2], ?_⟩
          exact ⟨by rw [hcell.1 hf2, invCDF_take hl], Nat.le_refl _, hwp, by show 1 ≤ 2; omega⟩
    · simp only [Bool.not_eq_true] at hf
      have hp : [i1] <+: i1 :: rest := by simp [List.cons_prefix_cons]
      have hcell := cell_invCDF (u := i1 :: rest) hl hs hp (by simp; omega) hlen (hun hf)
      refine ⟨⟨c.val, 1, 1⟩, by simp [hf], ?_⟩
      exact ⟨by rw [hcell.1 hf, invCDF_take hl], Nat.le_refl _, by show 1 ≤ wp; omega, Nat.le_refl _⟩

/-- both depths -/
theorem decode_ok {depth W wp : Nat} {bs : List Str} {v0 : Int} {T : Tables} {tape : Str}
    (hwf : barriersWF W wp bs = true) (hsort : sortedB bs = true) (hT : tableOK depth W bs v0 T = true)
    (hwp : depth ≤ wp) (hlen : wp ≤ tape.length) (hw : ∀ x ∈ tape, x < W) :
    ∃ d, decode depth wp T tape = some d ∧ DecOK bs v0 wp tape d := by
  simp only [tableOK] at hT
  by_cases h1 : depth = 1
  · subst h1; simp only [if_true] at hT
    simpa [decode] using decode1_ok hwf hsort hT hwp hlen hw
  · by_cases h2 : depth = 2
    · subst h2; simp only [if_true, if_neg h1] at hT
      simpa [decode] using decode2_ok hwf hsort hT hwp hlen hw
    · simp [h1, h2] at hT

end Nfl.Gauss
