/- C17 helper lemmas: the invariant "every thread is somewhere inside its own solo run" is preserved by every step
   of every schedule. -/
import NflVerif.Model.Conc
namespace Nfl.Conc

theorem solo_append (as bs : List Access) (st : Mem × List Val) :
    solo (as ++ bs) st = solo bs (solo as st) := by
  simp [solo, List.foldl_append]

theorem solo_snoc (as : List Access) (a : Access) (st : Mem × List Val) :
    solo (as ++ [a]) st = soloStep (solo as st) a := by
  simp [solo, List.foldl_append]

theorem okFor_read {t : Nat} {l : Loc} (h : (Access.read l).okFor t = true) :
    (∃ s, l = .shared s) ∨ (∃ o, l = .priv t o) := by
  cases l with
  | shared s => exact Or.inl ⟨s, rfl⟩
  | priv t' o =>
    simp [Access.okFor] at h
    exact Or.inr ⟨o, by rw [h]⟩

theorem okFor_write {t : Nat} {l : Loc} {f} (h : (Access.write l f).okFor t = true) :
    ∃ o, l = .priv t o := by
  cases l with
  | shared s => simp [Access.okFor] at h
  | priv t' o =>
    simp [Access.okFor] at h
    exact ⟨o, by rw [h]⟩

/-- a confined thread running alone leaves everything but its own objects untouched -/
theorem solo_frame (t : Nat) (as : List Access) (hok : ∀ a ∈ as, a.okFor t = true) (l : Loc)
    (hl : ∀ o, l ≠ .priv t o) : ∀ st, (solo as st).1 l = st.1 l := by
  induction as with
  | nil => intro st; rfl
  | cons a as ih =>
    intro st
    have ha := hok a (List.mem_cons_self ..)
    have ih' := ih (fun b hb => hok b (List.mem_cons_of_mem _ hb)) (soloStep st a)
    show (solo as (soloStep st a)).1 l = st.1 l
    rw [ih']
    cases a with
    | read l' => rfl
    | write l' f =>
      obtain ⟨o, rfl⟩ := okFor_write ha
      simp [soloStep, Mem.set, hl o]

/-- The invariant. -/
structure Inv (progs : Nat → List Access) (m0 : Mem) (c : Config) : Prop where
  thr : ∀ t, ∃ done, progs t = done ++ (c.thr t).todo ∧ (c.thr t).obs = (solo done (m0, [])).2 ∧
          ∀ o, c.mem (.priv t o) = (solo done (m0, [])).1 (.priv t o)
  shared : ∀ s, c.mem (.shared s) = m0 (.shared s)
  trace : ∀ e ∈ c.trace, ∃ a ∈ progs e.tid, a.isWrite = e.isWrite ∧ a.loc = e.loc

theorem inv_init (progs : Nat → List Access) (m0 : Mem) : Inv progs m0 (init progs m0) where
  thr := fun t => ⟨[], by simp [init, solo]⟩
  shared := fun _ => rfl
  trace := by simp [init]

theorem inv_step {progs : Nat → List Access} {m0 : Mem} (hc : Confined progs) {c c' : Config} {t : Nat}
    (hi : Inv progs m0 c) (hs : step c t = some c') : Inv progs m0 c' := by
  obtain ⟨done, hp, hobs, hmem⟩ := hi.thr t
  unfold step at hs
  cases htodo : (c.thr t).todo with
  | nil => simp [htodo] at hs
  | cons a rest =>
    rw [htodo] at hp
    have hmemA : a ∈ progs t := by rw [hp]; simp
    have hok : a.okFor t = true := hc t a hmemA
    have hdone_ok : ∀ b ∈ done, b.okFor t = true := fun b hb => hc t b (by rw [hp]; simp [hb])
    have hp' : progs t = (done ++ [a]) ++ rest := by rw [hp]; simp
    cases a with
    | read l =>
      simp [htodo] at hs
      subst hs
      -- the value read is the one the solo run reads
      have hval : c.mem l = (solo done (m0, [])).1 l := by
        rcases okFor_read hok with ⟨s, rfl⟩ | ⟨o, rfl⟩
        · rw [hi.shared s, solo_frame t done hdone_ok (.shared s) (by intro o h; cases h)]
        · exact hmem o
      refine ⟨?_, hi.shared, ?_⟩
      · intro t'
        by_cases h : t' = t
        · subst h
          refine ⟨done ++ [Access.read l], ?_, ?_, ?_⟩
          · simpa [setThr] using hp'
          · simp [setThr, solo_snoc, soloStep, hobs, hval]
          · intro o; simp [solo_snoc, soloStep]; exact hmem o
        · obtain ⟨d', h1, h2, h3⟩ := hi.thr t'
          exact ⟨d', by simpa [setThr, h] using h1, by simpa [setThr, h] using h2, h3⟩
      · intro e he
        simp at he
        rcases he with he | rfl
        · exact hi.trace e he
        · exact ⟨_, hmemA, rfl, rfl⟩
    | write l f =>
      simp [htodo] at hs
      subst hs
      obtain ⟨o, rfl⟩ := okFor_write hok
      refine ⟨?_, ?_, ?_⟩
      · intro t'
        by_cases h : t' = t
        · subst h
          refine ⟨done ++ [Access.write (.priv t' o) f], ?_, ?_, ?_⟩
          · simpa [setThr] using hp'
          · simp [setThr, solo_snoc, soloStep, hobs]
          · intro o'
            rw [solo_snoc]
            by_cases ho : o' = o
            · subst ho; simp [soloStep, Mem.set, hobs]
            · have : Loc.priv t' o' ≠ Loc.priv t' o := by intro hh; cases hh; exact ho rfl
              simp [soloStep, Mem.set, this]; exact hmem o'
        · obtain ⟨d', h1, h2, h3⟩ := hi.thr t'
          refine ⟨d', by simpa [setThr, h] using h1, by simpa [setThr, h] using h2, ?_⟩
          intro o'
          have : Loc.priv t' o' ≠ Loc.priv t o := by intro hh; cases hh; exact h rfl
          simp [Mem.set, this]; exact h3 o'
      · intro s
        simp [Mem.set]; exact hi.shared s
      · intro e he
        simp at he
        rcases he with he | rfl
        · exact hi.trace e he
        · exact ⟨_, hmemA, rfl, rfl⟩

theorem inv_run {progs : Nat → List Access} {m0 : Mem} (hc : Confined progs) :
    ∀ (sched : List Nat) (c c' : Config), Inv progs m0 c → run c sched = some c' → Inv progs m0 c' := by
  intro sched
  induction sched with
  | nil => intro c c' hi hr; simp [run] at hr; subst hr; exact hi
  | cons t s ih =>
    intro c c' hi hr
    simp only [run] at hr
    cases hst : step c t with
    | none => simp [hst] at hr
    | some c1 =>
      rw [hst] at hr
      exact ih c1 c' (inv_step hc hi hst) hr

end Nfl.Conc
