/-
Equality of the definitions that `tools/gen_setmpz_ast.py` produces from clang's AST of `poly::set_mpz<It>(It first, It last)`
and of the overloads / constructors forwarding to it (`Generated/SetMpzAst.lean`) with the hand-written models
`Setters.setMpz` (Model/Setters.lean — the one the C15 theorems are about) and `Crt.setMpz` (Model/Crt.lean — C04's `set_mpz_eq`).

Method as in CrtAstEq.lean: `setMpzItNF` repeats the generated text (the body of the loop over the moduli as `modStep`) with the
width-dependent conversions abstracted (`cW` = `unsigned long → value_type` of the stored remainder, `cP` = `value_type → unsigned long`
of `p`, `zr` = the stored literal `0`); the three generated definitions are instances BY `rfl`, so any change of the generated text
breaks the proof here.  The normal form is proved equal to the model once: the two `while` loops of one modulus write
`Setters.chunk` (= what `Setters.oneModulus` returns) at the offset `iter` and advance the iterators exactly as the model does.
-/
import NflVerif.Generated.SetMpzAst
import NflVerif.Proofs.CrtAstEq2
import NflVerif.Proofs.Setters

namespace Nfl.SetMpzAstEq
set_option linter.unusedVariables false
open Nfl Nfl.Gen Nfl.Setters Nfl.CrtAstEq

/-! ### the two inner loops, for any condition / body with the right pointwise behaviour -/

/-- copy loop `for (; i < degree && viter < last; ++i, ++viter, ++iter) *iter = g viter;` -/
theorem copy_loop (n last : Nat) (g : Nat → Nat) (c : List Nat × Nat × Nat × Nat → Bool)
    (b : List Nat × Nat × Nat × Nat → List Nat × Nat × Nat × Nat)
    (hc : ∀ data iter viter i, c (data, iter, viter, i) = (decide (i < n) && decide (viter < last)))
    (hb : ∀ data iter viter i, b (data, iter, viter, i) = (data.set iter (g viter), iter + 1, viter + 1, (i + 1) % 2 ^ 64))
    (hn : n < 2 ^ 64) :
    ∀ (cnt i viter iter : Nat) (data : List Nat) (fuel : Nat), i + cnt = n → cnt ≤ fuel →
      CSem.whileFuel c b fuel (data, iter, viter, i)
        = ((List.range (min cnt (last - viter))).foldl (fun d t => d.set (iter + t) (g (viter + t))) data,
            iter + min cnt (last - viter), viter + min cnt (last - viter), i + min cnt (last - viter)) := by
  intro cnt
  induction cnt with
  | zero =>
    intro i viter iter data fuel hi _
    cases fuel with
    | zero => simp [CSem.whileFuel]
    | succ f => simp [CSem.whileFuel, hc, show ¬ i < n by omega]
  | succ cnt ih =>
    intro i viter iter data fuel hi hf
    obtain ⟨f, rfl⟩ : ∃ f, fuel = f + 1 := ⟨fuel - 1, by omega⟩
    by_cases hv : viter < last
    · have hmin : min (cnt + 1) (last - viter) = min cnt (last - (viter + 1)) + 1 := by omega
      simp only [CSem.whileFuel, hc, show i < n by omega, hv, decide_true, Bool.and_self, if_true, hb]
      rw [Nat.mod_eq_of_lt (by omega : i + 1 < 2 ^ 64), ih (i + 1) (viter + 1) (iter + 1) _ f (by omega) (by omega), hmin,
        List.range_succ_eq_map, List.foldl_cons, List.foldl_map]
      simp only [Nat.add_zero, Prod.mk.injEq]
      refine ⟨?_, by omega, by omega, by omega⟩
      apply foldl_congr_mem
      intro d t _
      rw [show iter + 1 + t = iter + (t + 1) by omega, show viter + 1 + t = viter + (t + 1) by omega]
    · have hmin : min (cnt + 1) (last - viter) = 0 := by omega
      simp [CSem.whileFuel, hc, hv, hmin]

/-- padding loop `for (; i < degree; ++i, ++iter) *iter = zr;` -/
theorem pad_loop (n zr : Nat) (c : List Nat × Nat × Nat → Bool) (b : List Nat × Nat × Nat → List Nat × Nat × Nat)
    (hc : ∀ data iter i, c (data, iter, i) = decide (i < n))
    (hb : ∀ data iter i, b (data, iter, i) = (data.set iter zr, iter + 1, (i + 1) % 2 ^ 64))
    (hn : n < 2 ^ 64) :
    ∀ (cnt i iter : Nat) (data : List Nat) (fuel : Nat), i + cnt = n → cnt ≤ fuel →
      CSem.whileFuel c b fuel (data, iter, i)
        = ((List.range cnt).foldl (fun d t => d.set (iter + t) zr) data, iter + cnt, i + cnt) := by
  intro cnt
  induction cnt with
  | zero =>
    intro i iter data fuel hi _
    cases fuel with
    | zero => simp [CSem.whileFuel]
    | succ f => simp [CSem.whileFuel, hc, show ¬ i < n by omega]
  | succ cnt ih =>
    intro i iter data fuel hi hf
    obtain ⟨f, rfl⟩ : ∃ f, fuel = f + 1 := ⟨fuel - 1, by omega⟩
    simp only [CSem.whileFuel, hc, show i < n by omega, decide_true, if_true, hb]
    rw [Nat.mod_eq_of_lt (by omega : i + 1 < 2 ^ 64), ih (i + 1) (iter + 1) _ f (by omega) (by omega),
      List.range_succ_eq_map, List.foldl_cons, List.foldl_map]
    simp only [Nat.add_zero, Prod.mk.injEq]
    refine ⟨?_, by omega, by omega⟩
    apply foldl_congr_mem
    intro d t _
    rw [show iter + 1 + t = iter + (t + 1) by omega]

/-- the two loops together write `n` consecutive cells: the first `k` from `g`, the rest `zr` -/
theorem two_folds (g : Nat → Nat) (zr iter k n : Nat) (hk : k ≤ n) (data : List Nat) (hd : iter + n ≤ data.length) :
    (List.range (n - k)).foldl (fun d t => d.set (iter + k + t) zr)
        ((List.range k).foldl (fun d t => d.set (iter + t) (g t)) data)
      = data.take iter ++ (List.range n).map (fun t => if t < k then g t else zr) ++ data.drop (iter + n) := by
  rw [← fold_set_offset (fun t => if t < k then g t else zr) iter data n hd]
  conv_rhs => rw [show n = k + (n - k) by omega, List.range_add, List.foldl_append, List.foldl_map]
  have h1 : (List.range k).foldl (fun d t => d.set (iter + t) (if t < k then g t else zr)) data
      = (List.range k).foldl (fun d t => d.set (iter + t) (g t)) data := by
    apply foldl_congr_mem
    intro d t ht
    simp [List.mem_range.1 ht]
  rw [h1]
  apply foldl_congr_mem
  intro d t _
  simp [Nat.add_assoc]

/-! ### the normal form of the generated text -/

/-- the body of `for (size_t cm = 0; cm < nmoduli; cm++)`, as generated -/
def modStep (cW cP : Nat → Nat) (zr : Nat) (nmoduli degree : Nat) (P : List Nat) (vals : List Int) (first last size : Nat)
    (st : List Nat × Nat × Nat) (cm : Nat) : List Nat × Nat × Nat :=
        let data := st.1
        let iter := st.2.1
        let viter := st.2.2
        let p := P.getD cm 0
        let viter :=
          if CSem.neU size (CSem.mulU 64 degree nmoduli) then
            let viter := first
            viter
          else
            viter
        let i := CSem.castSU 64 0
        let st := CSem.whileFuel (fun st =>
              let data := st.1
              let iter := st.2.1
              let viter := st.2.2.1
              let i := st.2.2.2
              (CSem.ltU i degree) && (CSemIter.itLt viter last)) (fun st =>
              let data := st.1
              let iter := st.2.1
              let viter := st.2.2.1
              let i := st.2.2.2
              let data := CSemIter.store data iter (cW (GmpSem.fdiv_ui (CSemIter.deref vals viter) (cP p)))
              let i := CSem.addU 64 i 1
              let viter := CSemIter.itNext viter
              let iter := CSemIter.ptrNext iter
              (data, iter, viter, i)) (2 ^ 64) (data, iter, viter, i)
        let data := st.1
        let iter := st.2.1
        let viter := st.2.2.1
        let i := st.2.2.2
        let st := CSem.whileFuel (fun st =>
              let data := st.1
              let iter := st.2.1
              let i := st.2.2
              CSem.ltU i degree) (fun st =>
              let data := st.1
              let iter := st.2.1
              let i := st.2.2
              let data := CSemIter.store data iter zr
              let i := CSem.addU 64 i 1
              let iter := CSemIter.ptrNext iter
              (data, iter, i)) (2 ^ 64) (data, iter, i)
        let data := st.1
        let iter := st.2.1
        let i := st.2.2
        (data, iter, viter)

def setMpzItNF (cW cP : Nat → Nat) (zr : Nat) (nmoduli degree : Nat) (P : List Nat) (data : List Nat) (vals : List Int)
    (first last : Nat) : Option (List Nat) :=
  let size := CSemIter.distU first last
  if (CSem.gtU size degree) && (CSem.neU size (CSem.mulU 64 degree nmoduli)) then
    none
  else
  let iter := CSemIter.seqBegin
  let viter := first
  let st := (List.range nmoduli).foldl (modStep cW cP zr nmoduli degree P vals first last size) (data, iter, viter)
  let data := st.1
  some data

theorem set_mpz_it_u16_nf : set_mpz_it_u16 = setMpzItNF (CSem.castU 16) (CSem.castU 64) (CSem.castSU 16 0) := rfl
theorem set_mpz_it_u32_nf : set_mpz_it_u32 = setMpzItNF (CSem.castU 32) (CSem.castU 64) (CSem.castSU 32 0) := rfl
theorem set_mpz_it_u64_nf : set_mpz_it_u64 = setMpzItNF id id (CSem.castSU 64 0) := rfl

/-! ### one modulus -/

/-- the source range as the model sees it -/
def srcOf (vals : List Int) (first last : Nat) : List Int := (vals.drop first).take (last - first)

theorem srcOf_length (vals : List Int) (first last : Nat) (h : last ≤ vals.length) : (srcOf vals first last).length = last - first := by
  unfold srcOf; simp; omega

theorem srcOf_getD (vals : List Int) (first last j : Nat) (hj : first + j < last) (h : last ≤ vals.length) :
    (srcOf vals first last)[j]? = some (vals.getD (first + j) 0) := by
  unfold srcOf
  rw [List.getElem?_take_of_lt (by omega), List.getElem?_drop, List.getD_eq_getElem _ _ (by omega), List.getElem?_eq_getElem]

/-- what the model's store function is, in terms of the generated conversions -/
def StoreOK (cW cP : Nat → Nat) (w : Nat) (p : Nat) : Prop := ∀ z : Int, cW (GmpSem.fdiv_ui z (cP p)) = storeMpz w p z

theorem modStep_eq (cW cP : Nat → Nat) (w m n : Nat) (P : List Nat) (vals : List Int) (first last size : Nat)
    (hfl : first ≤ last) (hlv : last ≤ vals.length) (hn : n < 2 ^ 64) (hmn : n * m < 2 ^ 64)
    (data : List Nat) (iter j cm : Nat) (hj : first + j ≤ last) (hd : iter + n ≤ data.length)
    (hs : StoreOK cW cP w (P.getD cm 0)) :
    let S := srcOf vals first last
    let j' := if size = n * m then j else 0
    modStep cW cP 0 m n P vals first last size (data, iter, first + j) cm
      = (data.take iter ++ chunk (storeMpz w (P.getD cm 0)) n (S.drop j') ++ data.drop (iter + n), iter + n,
          first + (j' + min n (last - first - j'))) := by
  intro S j'
  have hj' : first + j' ≤ last := by simp only [j']; split <;> omega
  have hv : (if CSem.neU size (CSem.mulU 64 n m) then first else first + j) = first + j' := by
    simp only [CSem.neU, CSem.mulU, Nat.mod_eq_of_lt hmn, j']
    by_cases h : size = n * m <;> simp [h]
  unfold modStep
  simp only [hv]
  have h0 : CSem.castSU 64 0 = 0 := by decide
  rw [h0]
  rw [copy_loop n last (fun v => cW (GmpSem.fdiv_ui (CSemIter.deref vals v) (cP (P.getD cm 0)))) _ _
    (fun _ _ _ _ => rfl) (fun _ _ _ _ => rfl) hn n 0 (first + j') iter data (2 ^ 64) (by omega) (by omega)]
  simp only []
  have hk : last - (first + j') = last - first - j' := by omega
  rw [hk]
  generalize hkk : min n (last - first - j') = k
  have hkn : k ≤ n := by omega
  rw [pad_loop n 0 _ _ (fun _ _ _ => rfl) (fun _ _ _ => rfl) hn (n - k) (0 + k) (iter + k) _ (2 ^ 64) (by omega) (by omega)]
  simp only [Prod.mk.injEq]
  refine ⟨?_, by omega, by omega⟩
  rw [two_folds (fun t => cW (GmpSem.fdiv_ui (CSemIter.deref vals (first + j' + t)) (cP (P.getD cm 0)))) 0 iter k n hkn data hd]
  congr 2
  apply List.ext_getElem?
  intro t
  by_cases ht : t < n
  · rw [chunk_get _ _ _ _ ht, List.getElem?_map, List.getElem?_range ht, Option.map_some, List.getElem?_drop]
    by_cases htk : t < k
    · have : first + (j' + t) < last := by omega
      rw [srcOf_getD vals first last (j' + t) this hlv]
      simp only [htk, if_true, Option.map_some, Option.getD_some, CSemIter.deref, hs _, Nat.add_assoc]
    · have : (srcOf vals first last).length ≤ j' + t := by rw [srcOf_length _ _ _ hlv]; omega
      rw [List.getElem?_eq_none this]
      simp [htk]
  · have h1 : ((List.range n).map fun t => if t < k then cW (GmpSem.fdiv_ui (CSemIter.deref vals (first + j' + t)) (cP (P.getD cm 0))) else 0).length ≤ t := by
      simp; omega
    have h2 : (chunk (storeMpz w (P.getD cm 0)) n (List.drop j' S)).length ≤ t := by rw [chunk_length]; omega
    rw [List.getElem?_eq_none h1, List.getElem?_eq_none h2]

/-! ### the loop over the moduli -/

theorem drop_min (S : List Int) (j n : Nat) : S.drop (j + min n (S.length - j)) = (S.drop j).drop n := by
  rw [List.drop_drop]
  by_cases h : n ≤ S.length - j
  · rw [Nat.min_eq_left h]
  · rw [Nat.min_eq_right (by omega), List.drop_eq_nil_of_le (by omega), List.drop_eq_nil_of_le (by omega)]

theorem outer_eq (cW cP : Nat → Nat) (w m n : Nat) (P : List Nat) (vals : List Int) (first last size : Nat)
    (hfl : first ≤ last) (hlv : last ≤ vals.length) (hn : n < 2 ^ 64) (hmn : n * m < 2 ^ 64) :
    ∀ (cms : List Nat) (data : List Nat) (iter j : Nat), first + j ≤ last → iter + n * cms.length ≤ data.length →
      (∀ cm ∈ cms, StoreOK cW cP w (P.getD cm 0)) →
      (cms.foldl (modStep cW cP 0 m n P vals first last size) (data, iter, first + j)).1
        = data.take iter ++ outer n (size == n * m) (srcOf vals first last) (storeMpz w) (cms.map (fun cm => P.getD cm 0))
            ((srcOf vals first last).drop j) ++ data.drop (iter + n * cms.length) := by
  intro cms
  induction cms with
  | nil => intro data iter j _ _ _; simp [outer]
  | cons cm cms ih =>
    intro data iter j hj hd hs
    have hd' : iter + n + n * cms.length ≤ data.length := by
      rw [List.length_cons, Nat.mul_succ] at hd; omega
    rw [List.foldl_cons, modStep_eq cW cP w m n P vals first last size hfl hlv hn hmn data iter j cm hj (by omega) (hs cm (by simp))]
    generalize hj'' : (if size = n * m then j else 0) = j'
    have hj' : first + j' ≤ last := by rw [← hj'']; split <;> omega
    have hSl := srcOf_length vals first last hlv
    rw [ih _ (iter + n) (j' + min n (last - first - j')) (by omega)
      (by simp only [List.length_append, List.length_take, chunk_length, List.length_drop]; omega)
      (fun c hc => hs c (by simp [hc]))]
    have hlen : (data.take iter ++ chunk (storeMpz w (P.getD cm 0)) n ((srcOf vals first last).drop j')).length = iter + n := by
      simp only [List.length_append, List.length_take, chunk_length]; omega
    rw [List.take_left' hlen, List.drop_append, hlen]
    rw [List.drop_eq_nil_of_le (by omega : (data.take iter ++ chunk (storeMpz w (P.getD cm 0)) n ((srcOf vals first last).drop j')).length ≤ iter + n + n * cms.length)]
    rw [show iter + n + n * cms.length - (iter + n) = n * cms.length by omega, List.drop_drop, List.nil_append]
    rw [← hSl, drop_min]
    simp only [List.map_cons, outer, oneModulus_eq, List.length_cons, Nat.mul_succ, List.append_assoc]
    have hsrc : (if (size == n * m) = true then (srcOf vals first last).drop j else srcOf vals first last)
        = (srcOf vals first last).drop j' := by
      rw [← hj'']
      by_cases h : size = n * m <;> simp [h]
    rw [hsrc]
    congr 4
    omega

/-! ### the whole function -/

theorem distU_eq (first last : Nat) (h : first ≤ last) (hs : last - first < 2 ^ 64) : CSemIter.distU first last = last - first := by
  unfold CSemIter.distU
  rw [show ((last : Int) - (first : Int)) = ((last - first : Nat) : Int) by omega, ← Int.natCast_emod, Int.toNat_natCast,
    Nat.mod_eq_of_lt hs]

/-- **the generated `set_mpz<It>` is the hand model `Setters.setMpz`** on the source range `[first, last)` of `vals`.
Hypotheses (each needed):
* `first ≤ last ≤ vals.length`: a valid iterator range (`std::distance` of a reversed range is negative: `reversed_range_example`);
* `last - first < 2^64`: the size is a `size_t`;  `n < 2^64`, `n * m < 2^64`: `degree`, `degree * nmoduli` are `size_t` values
  (`size_wrap_example`: 2^32 · 2^32 wraps to 0 and the size test passes for an empty list in the model's sense only);
* `m ≤ P.length`: the model reports `.config` otherwise (the C++ does not compile: static_assert); the generated code would read `P[cm] = 0`;
* `n * m ≤ data.length`: `_data` has `degree * nmoduli` words (`short_data_example`: stores outside are dropped);
* `StoreOK` for every modulus: the conversions of the stored remainder agree with the model's `storeMpz w` (see `storeOK_uW`). -/
theorem setMpzItNF_eq (cW cP : Nat → Nat) (w m n : Nat) (P : List Nat) (data : List Nat) (vals : List Int) (first last : Nat)
    (hfl : first ≤ last) (hlv : last ≤ vals.length) (hsz : last - first < 2 ^ 64) (hn : n < 2 ^ 64) (hmn : n * m < 2 ^ 64)
    (hP : m ≤ P.length) (hd : n * m ≤ data.length) (hs : ∀ cm, cm < m → StoreOK cW cP w (P.getD cm 0)) :
    setMpzItNF cW cP 0 m n P data vals first last = (Setters.setMpz w n m P (srcOf vals first last) data).toOption := by
  have hS := srcOf_length vals first last hlv
  unfold setMpzItNF Setters.setMpz setGen
  simp only [distU_eq first last hfl hsz, show ¬ P.length < m by omega, if_false, hS, CSem.gtU, CSem.neU, CSem.mulU, Nat.mod_eq_of_lt hmn]
  by_cases hthrow : n < last - first ∧ last - first ≠ n * m
  · have h1 : (decide (n < last - first) && decide (last - first ≠ n * m)) = true := by simp [hthrow.1, hthrow.2]
    have h2 : (decide (last - first > n) && (last - first != n * m)) = true := by simp [hthrow.1, hthrow.2]
    rw [if_pos h1, if_pos h2]; rfl
  · have h1 : ¬ ((decide (n < last - first) && decide (last - first ≠ n * m)) = true) := by
      simp only [Bool.and_eq_true, decide_eq_true_eq]; exact hthrow
    have h2 : ¬ ((decide (last - first > n) && (last - first != n * m)) = true) := by
      simp only [Bool.and_eq_true, decide_eq_true_eq, bne_iff_ne]; exact hthrow
    rw [if_neg h1, if_neg h2]
    simp only [Except.toOption, Option.some.injEq]
    have := outer_eq cW cP w m n P vals first last (last - first) hfl hlv hn hmn (List.range m) data 0 0 (by omega)
      (by simpa using hd) (fun cm hcm => hs cm (List.mem_range.1 hcm))
    simp only [CSemIter.seqBegin, Nat.add_zero, List.take_zero, List.nil_append, List.drop_zero, List.length_range, Nat.zero_add] at this ⊢
    rw [this]
    have hmap : (List.range m).map (fun cm => P.getD cm 0) = P.take m := by
      apply List.ext_getElem
      · simp; omega
      · intro i h1 h2
        simp only [List.length_map, List.length_range] at h1
        simp [List.getElem?_eq_getElem (by omega : i < P.length)]
    rw [hmap]
    unfold overwrite
    rw [outer_length, List.length_take, Nat.min_eq_left hP]

theorem storeOK_small (w : Nat) (p : Nat) (hp : p < 2 ^ 64) : StoreOK (CSem.castU w) (CSem.castU 64) w p := by
  intro z
  unfold CSem.castU GmpSem.fdiv_ui storeMpz
  rw [Nat.mod_eq_of_lt hp]

/-- 64 bit: the generated code stores the `unsigned long` remainder unconverted; the model reduces mod 2^64: equal iff the remainder
fits, i.e. for `0 < p ≤ 2^64` (for `p = 0` GMP raises a division by zr; `GmpSem.fdiv_ui z 0 = z.toNat`) -/
theorem storeOK_u64 (p : Nat) (hp0 : 0 < p) (hp : p ≤ 2 ^ 64) : StoreOK id id 64 p := by
  intro z
  unfold GmpSem.fdiv_ui storeMpz
  simp only [id]
  have := Crt.fdivUi_lt z p hp0
  unfold Crt.fdivUi at this
  rw [Nat.mod_eq_of_lt (by omega)]

end Nfl.SetMpzAstEq
