/-
The executable oracle `Spec.negacyclicNat` is the product in `Z_p[X]/(X^n+1)` reduced into `[0,p)`.
-/
import NflVerif.Spec.NttSpec
import NflVerif.Proofs.NttRefine1
import Mathlib.Algebra.BigOperators.Intervals
import Mathlib.Data.Int.ModEq

namespace Nfl.NttRefine
open Nfl

theorem foldl_mod (p : Nat) (f : Nat → Nat) (m : Nat) :
    (List.range m).foldl (fun s i => (s + f i) % p) 0 = (∑ i ∈ Finset.range m, f i) % p := by
  induction m with
  | zero => simp
  | succ m ih =>
    rw [List.range_succ, List.foldl_append, ih, Finset.sum_range_succ]
    simp only [List.foldl_cons, List.foldl_nil]
    rw [Nat.mod_add_mod]

/-- coefficient `c` of the oracle, with the folds written as sums -/
def coeffNat (p : Nat) (a b : List Nat) (c : Nat) : Nat :=
  ((∑ i ∈ Finset.range (c + 1), a.getD i 0 * b.getD (c - i) 0) % p + p -
    (∑ t ∈ Finset.range (a.length - c - 1),
      a.getD (c + 1 + t) 0 * b.getD (c + a.length - (c + 1 + t)) 0) % p % p) % p

theorem negacyclicNat_eq (p : Nat) (a b : List Nat) :
    Spec.negacyclicNat p a b = (List.range a.length).map (coeffNat p a b) := by
  unfold Spec.negacyclicNat coeffNat
  simp only
  apply List.map_congr_left
  intro c _
  rw [foldl_mod p (fun i => a.toArray.getD i 0 * b.toArray.getD (c - i) 0),
    foldl_mod p (fun t => a.toArray.getD (c + 1 + t) 0 * b.toArray.getD (c + a.length - (c + 1 + t)) 0)]
  simp only [Array.getD_eq_getD_getElem?, List.getElem?_toArray, ← List.getD_eq_getElem?_getD]

theorem negacyclicNat_length (p : Nat) (a b : List Nat) :
    (Spec.negacyclicNat p a b).length = a.length := by
  rw [negacyclicNat_eq]; simp

theorem negacyclicNat_canonical (p : Nat) (hp0 : 0 < p) (a b : List Nat) :
    Canonical p (Spec.negacyclicNat p a b) := by
  rw [negacyclicNat_eq]
  intro z hz
  simp only [List.mem_map] at hz
  obtain ⟨c, _, rfl⟩ := hz
  exact Nat.mod_lt _ hp0

theorem negacyclicNat_getD (p : Nat) (a b : List Nat) (c : Nat) (hc : c < a.length) :
    (Spec.negacyclicNat p a b).getD c 0 = coeffNat p a b c := by
  rw [negacyclicNat_eq]
  have hz : c < ((List.range a.length).map (coeffNat p a b)).length := by simpa using hc
  rw [List.getD_eq_getElem _ _ hz]; simp

theorem sum_split {R : Type*} [AddCommMonoid R] (n c m : Nat) (hn : n = c + 1 + m) (f : Nat → R) :
    ∑ i ∈ Finset.range n, f i =
      ∑ i ∈ Finset.range (c + 1), f i + ∑ t ∈ Finset.range m, f (c + 1 + t) := by
  subst hn; exact Finset.sum_range_add f (c + 1) m

theorem coeffNat_cast (p : Nat) (hp0 : 0 < p) (a b : List Nat) (c : Nat) (hc : c < a.length) :
    ((coeffNat p a b c : Nat) : ZMod p) =
      Dft.negacyclicCoeff a.length (castL p a) (castL p b) c := by
  unfold coeffNat Dft.negacyclicCoeff
  rw [Dft.sum_map_range]
  rw [sum_split a.length c (a.length - c - 1) (by omega)]
  generalize a.length - c - 1 = m
  generalize hS2 : (∑ t ∈ Finset.range m,
      a.getD (c + 1 + t) 0 * b.getD (c + a.length - (c + 1 + t)) 0) = S2
  rw [ZMod.natCast_mod, Nat.cast_sub (by have := Nat.mod_lt (S2 % p) hp0; omega)]
  subst hS2
  push_cast
  rw [ZMod.natCast_mod, ZMod.natCast_mod, ZMod.natCast_mod, natCast_self']
  push_cast
  rw [add_zero, sub_eq_add_neg, ← Finset.sum_neg_distrib]
  congr 1
  · apply Finset.sum_congr rfl
    intro i hi
    rw [Finset.mem_range] at hi
    rw [if_pos (by omega), castL_getD, castL_getD]
  · apply Finset.sum_congr rfl
    intro t _
    rw [if_neg (by omega), castL_getD, castL_getD]

/-- **the oracle is the negacyclic product**: its residues are the coefficients of
`a·b mod (X^n+1)`, it has `n` coefficients, each in `[0,p)`. -/
theorem negacyclicNat_spec (p : Nat) (hp0 : 0 < p) (a b : List Nat) :
    (Spec.negacyclicNat p a b).map (fun (x : Nat) => (x : ZMod p)) =
        Dft.negacyclic a.length (a.map (fun (x : Nat) => (x : ZMod p)))
          (b.map (fun (x : Nat) => (x : ZMod p))) ∧
      (Spec.negacyclicNat p a b).length = a.length ∧ Canonical p (Spec.negacyclicNat p a b) := by
  refine ⟨?_, negacyclicNat_length p a b, negacyclicNat_canonical p hp0 a b⟩
  rw [negacyclicNat_eq]
  unfold Dft.negacyclic
  rw [List.map_map]
  apply List.map_congr_left
  intro c hc
  rw [List.mem_range] at hc
  exact coeffNat_cast p hp0 a b c hc

/-- **the oracle, coefficient by coefficient, over the integers**: coefficient `c` is
`(Σ_{i+j=c} a_i b_j − Σ_{i+j=c+n} a_i b_j) mod p` (`Int.emod`, so in `[0,p)`). -/
theorem negacyclicNat_int (p : Nat) (hp0 : 0 < p) (a b : List Nat) (c : Nat) (hc : c < a.length) :
    (((Spec.negacyclicNat p a b).getD c 0 : Nat) : Int) =
      ((∑ i ∈ Finset.range (c + 1), (a.getD i 0 : Int) * (b.getD (c - i) 0 : Int)) -
        (∑ i ∈ Finset.Ico (c + 1) a.length,
          (a.getD i 0 : Int) * (b.getD (c + a.length - i) 0 : Int))) % (p : Int) := by
  rw [negacyclicNat_getD p a b c hc]
  unfold coeffNat
  rw [Finset.sum_Ico_eq_sum_range, show a.length - (c + 1) = a.length - c - 1 by omega]
  generalize a.length - c - 1 = m
  generalize hS2 : (∑ t ∈ Finset.range m,
      a.getD (c + 1 + t) 0 * b.getD (c + a.length - (c + 1 + t)) 0) = S2
  rw [Int.natCast_mod, Nat.cast_sub (by have := Nat.mod_lt (S2 % p) hp0; omega)]
  subst hS2
  push_cast
  change Int.ModEq (p : Int) _ _
  apply Int.ModEq.sub
  · have h1 : Int.ModEq (p : Int)
        ((∑ i ∈ Finset.range (c + 1), (a.getD i 0 : Int) * (b.getD (c - i) 0 : Int)) % (p : Int))
        (∑ i ∈ Finset.range (c + 1), (a.getD i 0 : Int) * (b.getD (c - i) 0 : Int)) :=
      Int.mod_modEq _ _
    have h2 : Int.ModEq (p : Int) (p : Int) 0 := by simp [Int.ModEq]
    simpa using h1.add h2
  · exact (Int.mod_modEq _ _).trans (Int.mod_modEq _ _)

end Nfl.NttRefine
