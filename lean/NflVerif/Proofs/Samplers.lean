/-
Helper lemmas for C09 / C12: the word-level models of `Model/Samplers.lean` compute what the comments in
the code promise, under explicit admissibility conditions.  Core Lean only (no Mathlib needed).
-/
import NflVerif.Model.Samplers
import NflVerif.Spec.SamplersSpec
namespace Nfl.Samplers
open Nfl.Spec.Samplers (enc)


theorem word_mkPoly (n : Nat) (ps : List Nat) (f : Nat → Nat → Nat → Nat) (cm i : Nat)
    (hcm : cm < ps.length) (hi : i < n) : word (mkPoly n ps f) cm i = f cm ps[cm] i := by
  simp [word, mkPoly, List.getD_eq_getElem?_getD, hcm, hi]

theorem log2_bounds {p : Nat} (hp0 : 0 < p) : 2 ^ Nat.log2 p ≤ p ∧ p < 2 ^ (Nat.log2 p + 1) :=
  ⟨Nat.log2_self_le (by omega), Nat.lt_log2_self⟩

theorem uniMask_eq {w p : Nat} (hp0 : 0 < p) (hp : p < 2 ^ 63) (hw : p < 2 ^ w) :
    uniMask w p = 2 ^ (Nat.log2 p + 1) - 1 := by
  have hL : Nat.log2 p < 63 := (Nat.log2_lt (by omega)).2 hp
  have hLw : Nat.log2 p < w := (Nat.log2_lt (by omega)).2 hw
  have h1 : 2 ^ (Nat.log2 p + 1) ≤ 2 ^ 63 := Nat.pow_le_pow_right (by decide) (by omega)
  have h2 : 2 ^ (Nat.log2 p + 1) ≤ 2 ^ w := Nat.pow_le_pow_right (by decide) (by omega)
  have h3 : 0 < 2 ^ (Nat.log2 p + 1) := Nat.two_pow_pos _
  unfold uniMask u64
  generalize 2 ^ (Nat.log2 p + 1) = M at *
  have : (M % 2 ^ 64 + 2 ^ 64 - 1) % 2 ^ 64 = M - 1 := by omega
  rw [this]
  exact Nat.mod_eq_of_lt (by omega)

theorem uniCoef_lt {w p : Nat} (hp0 : 0 < p) (hp : p < 2 ^ 63) (hw : p < 2 ^ w) (x : Nat) :
    uniCoef w p x < p := by
  unfold uniCoef
  rw [uniMask_eq hp0 hp hw, Nat.and_two_pow_sub_one_eq_mod]
  have hb := log2_bounds hp0
  have : x % 2 ^ (Nat.log2 p + 1) < 2 ^ (Nat.log2 p + 1) := Nat.mod_lt _ (Nat.two_pow_pos _)
  rw [Nat.pow_succ] at this
  unfold red1
  split <;> omega


theorem u64_eq : u64 = 18446744073709551616 := by decide

theorem twoBm1_eq {B : Nat} (hB : 1 ≤ B) (h64 : 2 * B ≤ 2 ^ 64) : twoBm1 B = 2 * B - 1 := by
  unfold twoBm1 u64; omega

/-- `L = bitLen (2B-1)`: `2^(L-1) ≤ 2B-1 < 2^L` and the mask is `2^L - 1` -/
theorem bndMask_eq {w B : Nat} (hB : 1 ≤ B) (hw : 2 * B ≤ 2 ^ w) (hw64 : w ≤ 64) :
    bndMask w B = 2 ^ bitLen (2 * B - 1) - 1 ∧ 2 * B - 1 < 2 ^ bitLen (2 * B - 1) ∧
      2 ^ bitLen (2 * B - 1) ≤ 2 * (2 * B - 1) := by
  have h64 : 2 * B ≤ 2 ^ 64 := Nat.le_trans hw (Nat.pow_le_pow_right (by decide) hw64)
  have ht0 : 0 < 2 * B - 1 := by omega
  have hb := log2_bounds ht0
  have hbl : bitLen (2 * B - 1) = Nat.log2 (2 * B - 1) + 1 := by unfold bitLen; rw [if_neg (by omega)]
  have hLw : Nat.log2 (2 * B - 1) < w := (Nat.log2_lt (by omega)).2 (by omega)
  have h2 : 2 ^ (Nat.log2 (2 * B - 1) + 1) ≤ 2 ^ w := Nat.pow_le_pow_right (by decide) (by omega)
  have h3 : 2 ^ w ≤ 2 ^ 64 := Nat.pow_le_pow_right (by decide) hw64
  refine ⟨?_, by rw [hbl]; exact hb.2, by rw [hbl, Nat.pow_succ]; omega⟩
  unfold bndMask
  rw [twoBm1_eq hB h64]
  simp only [hbl]
  split
  · have : Nat.log2 (2 * B - 1) + 1 = 64 := by omega
    have hw' : w = 64 := by omega
    rw [this, hw']; decide
  · exact Nat.mod_eq_of_lt (by have := Nat.two_pow_pos (Nat.log2 (2 * B - 1) + 1); omega)

theorem bndTmp_lt {w B : Nat} (hB : 1 ≤ B) (hw : 2 * B ≤ 2 ^ w) (hw64 : w ≤ 64) (x : Nat) :
    bndTmp w B x < 2 * B - 1 := by
  obtain ⟨hm, _, h2⟩ := bndMask_eq hB hw hw64
  have h64 : 2 * B ≤ 2 ^ 64 := Nat.le_trans hw (Nat.pow_le_pow_right (by decide) hw64)
  unfold bndTmp
  simp only [twoBm1_eq hB h64, hm, Nat.and_two_pow_sub_one_eq_mod]
  have : x % 2 ^ bitLen (2 * B - 1) < 2 ^ bitLen (2 * B - 1) := Nat.mod_lt _ (Nat.two_pow_pos _)
  split <;> omega

/-- the signed integer a bounded coefficient stands for (before amplification) -/
def bndSigned (w B x : Nat) : Int :=
  if bndTmp w B x ≥ B then (bndTmp w B x : Int) - (2 * B - 1 : Nat) else (bndTmp w B x : Int)

theorem bndSigned_abs {w B : Nat} (hB : 1 ≤ B) (hw : 2 * B ≤ 2 ^ w) (hw64 : w ≤ 64) (x : Nat) :
    (bndSigned w B x).natAbs ≤ B - 1 := by
  have := bndTmp_lt hB hw hw64 x
  unfold bndSigned
  split <;> omega

theorem enc_neg {p D : Nat} (hD : 0 < D) : enc p (-(D : Int)) = p - D := by
  unfold enc
  rw [if_neg (by omega)]
  simp

theorem enc_nonneg {p D : Nat} : enc p (D : Int) = D := by
  unfold enc
  rw [if_pos (by omega)]
  simp

theorem bndCoef_eq {w B A p : Nat} (hB : 1 ≤ B) (hA : 1 ≤ A) (hBp : B < p) (hAB : A * (B - 1) < p)
    (hw : 4 * p ≤ 2 ^ w) (hw64 : w ≤ 64) (x : Nat) :
    bndCoef w B A p x = enc p ((A : Int) * bndSigned w B x) := by
  have hwB : 2 * B ≤ 2 ^ w := by omega
  have hpw : p < 2 ^ w := by omega
  have h64 : 2 * B ≤ 2 ^ 64 := Nat.le_trans hwB (Nat.pow_le_pow_right (by decide) hw64)
  have h3 : 2 ^ w ≤ 2 ^ 64 := Nat.pow_le_pow_right (by decide) hw64
  have ht := bndTmp_lt hB hwB hw64 x
  unfold bndCoef bndSigned
  simp only [twoBm1_eq hB h64]
  generalize bndTmp w B x = tmp at *
  by_cases hge : tmp ≥ B
  · -- negative value: D = (2B-1-tmp)·A
    have hD1 : 1 ≤ 2 * B - 1 - tmp := by omega
    have hD2 : 2 * B - 1 - tmp ≤ B - 1 := by omega
    have hDA : (2 * B - 1 - tmp) * A ≤ A * (B - 1) := by
      rw [Nat.mul_comm A]; exact Nat.mul_le_mul_right A hD2
    have hDpos : 0 < (2 * B - 1 - tmp) * A := Nat.mul_pos (by omega) (by omega)
    have hsplit : (2 * B - 1) * A = tmp * A + (2 * B - 1 - tmp) * A := by
      rw [← Nat.add_mul]; congr 1; omega
    have hval : (A : Int) * ((tmp : Int) - ((2 * B - 1 : Nat) : Int)) = -(((2 * B - 1 - tmp) * A : Nat) : Int) := by
      have : ((2 * B - 1 - tmp : Nat) : Int) = ((2 * B - 1 : Nat) : Int) - tmp := by omega
      rw [Int.natCast_mul, this, Int.mul_comm]; 
      rw [← Int.neg_mul]; congr 1; omega
    simp only [if_pos hge, hval, enc_neg hDpos]
    by_cases hA1 : A = 1
    · subst hA1
      simp only [Nat.mul_one, ↓reduceIte] at *
      have hs : (p + tmp) % 2 ^ (if w < 32 then 32 else w) = p + tmp := by
        apply Nat.mod_eq_of_lt
        split
        · have : 2 ^ w ≤ 2 ^ 32 := Nat.pow_le_pow_right (by decide) (by omega)
          omega
        · omega
      rw [hs]
      have : ((p + tmp) % u64 + u64 - (2 * B - 1)) % u64 = p - (2 * B - 1 - tmp) := by rw [u64_eq]; omega
      rw [this]; exact Nat.mod_eq_of_lt (Nat.lt_of_le_of_lt (Nat.sub_le _ _) hpw)
    · simp only [if_neg hA1]
      rw [hsplit]
      generalize (2 * B - 1 - tmp) * A = D at *
      generalize tmp * A = X at *
      have : ((p + X) % u64 + u64 - (X + D) % u64) % u64 = p - D := by rw [u64_eq]; omega
      rw [this]; exact Nat.mod_eq_of_lt (by omega)
  · have hlt : tmp ≤ B - 1 := by omega
    have hXA : tmp * A ≤ A * (B - 1) := by rw [Nat.mul_comm A]; exact Nat.mul_le_mul_right A hlt
    have hval : (A : Int) * (tmp : Int) = ((tmp * A : Nat) : Int) := by rw [Int.natCast_mul, Int.mul_comm]
    simp only [if_neg hge, hval, enc_nonneg]
    by_cases hA1 : A = 1
    · subst hA1; simp
    · simp only [if_neg hA1]
      generalize tmp * A = X at *
      rw [Nat.mod_eq_of_lt (show X < u64 by rw [u64_eq]; omega), Nat.mod_eq_of_lt (by omega)]


theorem toSigned_emod {w : Nat} (hw : 1 ≤ w) {x : Int} (hlo : -(2 : Int) ^ (w - 1) ≤ x) (hhi : x < (2 : Int) ^ (w - 1)) :
    toSigned w (x % (2 : Int) ^ w) = x := by
  have hM : (2 : Int) ^ w = 2 * (2 : Int) ^ (w - 1) := by
    have : w = (w - 1) + 1 := by omega
    rw [this, Int.pow_succ]; simp; omega
  have hpos : (0 : Int) < (2 : Int) ^ (w - 1) := Int.pow_pos (by decide)
  unfold toSigned
  by_cases hx : 0 ≤ x
  · rw [Int.emod_eq_of_lt hx (by omega)]
    rw [if_pos hhi]
  · have : x % (2 : Int) ^ w = x + (2 : Int) ^ w := by
      rw [Int.emod_eq_add_self_emod, Int.emod_eq_of_lt (by omega) (by omega)]
    rw [this, if_neg (by omega)]; omega

theorem gauAmp_eq {w amp : Nat} (hw : 1 ≤ w) (hw64 : w ≤ 64) {v : Int}
    (hlo : -(2 : Int) ^ (w - 1) ≤ v * amp) (hhi : v * amp < (2 : Int) ^ (w - 1)) :
    gauAmp w amp v = v * amp := by
  unfold gauAmp
  split
  · next h => subst h; simp
  · have hdvd : ((2 : Int) ^ w) ∣ (u64 : Int) := by
      refine ⟨(2 : Int) ^ (64 - w), ?_⟩
      rw [← Int.pow_add]
      have : w + (64 - w) = 64 := by omega
      rw [this]; decide
    rw [Int.emod_emod_of_dvd _ hdvd, Int.mul_emod, Int.emod_emod_of_dvd _ hdvd, ← Int.mul_emod]
    exact toSigned_emod hw hlo hhi

theorem gauStore_eq {w p : Nat} (hpw : p < 2 ^ w) {x : Int} (hx : x.natAbs < p) :
    gauStore w p x = enc p x := by
  have hM : ((2 ^ w : Nat) : Int) = (2 : Int) ^ w := by simp
  unfold gauStore enc
  by_cases h : x < 0
  · rw [if_pos h, if_neg (by omega), Int.emod_eq_of_lt (by omega) (by omega)]; omega
  · rw [if_neg h, if_pos (by omega), Int.emod_eq_of_lt (by omega) (by omega)]

theorem gau_eq {w p amp : Nat} (hw : 1 ≤ w) (hw64 : w ≤ 64) (hpw : 2 * p ≤ 2 ^ w) {v : Int}
    (hadm : v.natAbs * amp < p) : gauStore w p (gauAmp w amp v) = enc p (v * amp) := by
  have hM : (2 : Int) ^ w = 2 * (2 : Int) ^ (w - 1) := by
    have : w = (w - 1) + 1 := by omega
    rw [this, Int.pow_succ]; simp; omega
  have hMn : ((2 ^ w : Nat) : Int) = (2 : Int) ^ w := by simp
  have habs : (v * (amp : Int)).natAbs = v.natAbs * amp := by rw [Int.natAbs_mul]; simp
  have hb : ((v * (amp : Int)).natAbs : Int) < (2 : Int) ^ (w - 1) := by omega
  rw [gauAmp_eq hw hw64 (by omega) (by omega)]
  exact gauStore_eq (by omega) (by omega)


theorem pmOf_eq {w p : Nat} (hp : 1 ≤ p) (hpw : p < 2 ^ w) : pmOf w p = p - 1 := by
  unfold pmOf
  have : p + 2 ^ w - 1 = (p - 1) + 2 ^ w := by omega
  rw [this, Nat.add_mod_right, Nat.mod_eq_of_lt (by omega)]

/-- the ternary value of one byte -/
def zoVal (rho b : Nat) : Int := if b ≤ rho then (if b &&& 2 ≠ 0 then 1 else -1) else 0

theorem zoCoef_eq {w p : Nat} (hp : 1 ≤ p) (hpw : p < 2 ^ w) (rho b : Nat) :
    zoCoef w rho p b = enc p (zoVal rho b) := by
  unfold zoCoef zoVal
  split
  · split
    · simp [enc]
    · rw [pmOf_eq hp hpw]; simp [enc]
  · simp [enc]

theorem resFold_append (h : Nat) : ∀ (a : List Nat) (k : Nat) (hit b : List Nat),
    resFold h k hit (a ++ b) = resFold h (k + a.length) (resFold h k hit a) b
  | [], k, hit, b => by simp [resFold]
  | x :: a, k, hit, b => by
    simp only [List.cons_append, resFold, List.length_cons]
    rw [resFold_append h a (k + 1)]
    congr 1; omega

theorem runBuf_spec (h n : Nat) : ∀ (buf : List Nat) (st : HwtSt), st.k ≤ n →
    ∃ idx : List Nat, (runBuf h n st buf).k = st.k + idx.length ∧ (runBuf h n st buf).k ≤ n ∧
      (runBuf h n st buf).hit = resFold h st.k st.hit idx ∧ ∀ j (hj : j < idx.length), idx[j] ≤ st.k + j
  | [], st, hk => ⟨[], by simp [runBuf, resFold, hk]⟩
  | x :: rest, st, hk => by
    unfold runBuf
    by_cases h1 : st.k ≥ n
    · rw [if_pos h1]; exact ⟨[], by simp [resFold, hk]⟩
    · rw [if_neg h1]
      by_cases h2 : accept st.k x = true
      · rw [if_pos h2]
        obtain ⟨idx, e1, e2, e3, e4⟩ := runBuf_spec h n rest ⟨st.k + 1, resStep h st.hit st.k (x % (st.k + 1))⟩ (by simp; omega)
        refine ⟨(x % (st.k + 1)) :: idx, ?_, e2, ?_, ?_⟩
        · rw [e1]; simp; omega
        · rw [e3]; simp [resFold]
        · intro j hj
          rcases j with _ | j
          · simp; exact Nat.le_of_lt_succ (Nat.mod_lt _ (by omega))
          · simp at hj ⊢
            have := e4 j hj
            simp at this; omega
      · rw [if_neg h2]
        exact runBuf_spec h n rest st hk

/-- positions phase of the model = reservoir fold over the accepted, reduced indices; the unread tape is a
suffix, and the result does not depend on it -/
theorem runTape_spec (h n : Nat) : ∀ (tape : Tape) (st st' : HwtSt) (rest : Tape), st.k ≤ n →
    runTape h n st tape = some (st', rest) →
    (∃ idx : List Nat, st'.k = n ∧ n = st.k + idx.length ∧ st'.hit = resFold h st.k st.hit idx ∧
      ∀ j (hj : j < idx.length), idx[j] ≤ st.k + j) ∧
    ∃ consumed : Tape, tape = consumed ++ rest ∧ ∀ rest' : Tape, runTape h n st (consumed ++ rest') = some (st', rest')
  | [], st, st', rest, hk, hr => by
    unfold runTape at hr
    split at hr
    · next hge =>
      simp at hr; obtain ⟨rfl, rfl⟩ := hr
      refine ⟨⟨[], by omega, by simp; omega, by simp [resFold], by simp⟩, [], rfl, ?_⟩
      intro rest'
      cases rest' <;> simp [runTape, hge]
    · simp at hr
  | req :: t, st, st', rest, hk, hr => by
    unfold runTape at hr
    split at hr
    · next hge =>
      simp at hr; obtain ⟨rfl, rfl⟩ := hr
      refine ⟨⟨[], by omega, by simp; omega, by simp [resFold], by simp⟩, [], rfl, ?_⟩
      intro rest'
      cases rest' <;> simp [runTape, hge]
    · next hlt =>
      obtain ⟨idx1, a1, a2, a3, a4⟩ := runBuf_spec h n (words64 h req) st hk
      obtain ⟨⟨idx2, b1, b2, b3, b4⟩, c, hc, hc'⟩ := runTape_spec h n t _ st' rest a2 hr
      refine ⟨⟨idx1 ++ idx2, b1, ?_, ?_, ?_⟩, req :: c, by rw [hc]; rfl, ?_⟩
      · rw [b2, a1]; simp; omega
      · rw [b3, a3, a1, resFold_append]
      · intro j hj
        by_cases hj1 : j < idx1.length
        · rw [List.getElem_append_left hj1]; exact a4 j hj1
        · rw [List.getElem_append_right (by omega)]
          have := b4 (j - idx1.length) (by simp at hj; omega)
          rw [a1] at this; omega
      · intro rest'
        simp only [List.cons_append]
        rw [runTape, if_neg hlt]
        exact hc' rest'

theorem foldl_set_spec (val : Nat → Nat) : ∀ (ps : List Nat) (j0 : Nat) (d : List Nat), ps.Nodup →
    (∀ a ∈ ps, a < d.length) →
    ((ps.zipIdx j0).foldl (fun d (pj : Nat × Nat) => d.set pj.1 (val pj.2)) d).length = d.length ∧
    ∀ i, ((ps.zipIdx j0).foldl (fun d (pj : Nat × Nat) => d.set pj.1 (val pj.2)) d).getD i 0 =
      if i ∈ ps then val (j0 + ps.idxOf i) else d.getD i 0
  | [], j0, d, _, _ => by simp
  | a :: ps, j0, d, hnd, hlt => by
    have hnd' := (List.nodup_cons.1 hnd)
    have ih := foldl_set_spec val ps (j0 + 1) (d.set a (val j0)) hnd'.2
      (by intro b hb; simp; exact hlt b (List.mem_cons_of_mem _ hb))
    simp only [List.zipIdx_cons, List.foldl_cons]
    refine ⟨by rw [ih.1]; simp, ?_⟩
    intro i
    rw [ih.2 i]
    by_cases hia : i = a
    · subst hia
      have ha := hlt i (List.mem_cons_self)
      simp [hnd'.1, List.getD_eq_getElem?_getD, ha]
    · have hai : ¬ a = i := fun e => hia e.symm
      by_cases hip : i ∈ ps
      · have hb : (a == i) = false := by simp [hai]
        simp [hip, List.idxOf_cons, hb]; congr 1; omega
      · simp [hip, hia, List.getD_eq_getElem?_getD, hai]

theorem ins_perm (a : Nat) : ∀ l : List Nat, (ins a l).Perm (a :: l)
  | [] => List.Perm.refl _
  | b :: l => by
    unfold ins
    split
    · exact List.Perm.refl _
    · exact ((ins_perm a l).cons b).trans (List.Perm.swap a b l)

theorem isort_perm : ∀ l : List Nat, (isort l).Perm l
  | [] => List.Perm.refl _
  | a :: l => (ins_perm a (isort l)).trans ((isort_perm l).cons a)

theorem ins_sorted (a : Nat) : ∀ l : List Nat, l.Pairwise (· ≤ ·) → (ins a l).Pairwise (· ≤ ·)
  | [], _ => by simp [ins]
  | b :: l, hl => by
    unfold ins
    have hl' := List.pairwise_cons.1 hl
    split
    · next hab =>
      refine List.pairwise_cons.2 ⟨?_, hl⟩
      intro c hc
      rcases List.mem_cons.1 hc with rfl | hc
      · exact hab
      · exact Nat.le_trans hab (hl'.1 c hc)
    · next hab =>
      refine List.pairwise_cons.2 ⟨?_, ins_sorted a l hl'.2⟩
      intro c hc
      rcases List.mem_cons.1 ((ins_perm a l).mem_iff.1 hc) with rfl | hc
      · omega
      · exact hl'.1 c hc

theorem isort_sorted : ∀ l : List Nat, (isort l).Pairwise (· ≤ ·)
  | [] => by simp [isort]
  | a :: l => ins_sorted a _ (isort_sorted l)

/-! ### creators from values -/

theorem setValues_some {n : Nat} {ps : List Nat} {vals : List Nat} {red : Bool} {out : Poly}
    (ho : setValues n ps vals red = some out) :
    out = mkPoly n ps fun cm p i =>
      if (if vals.length = n * ps.length then cm * n + i else i) < vals.length then
        (if red then vals.getD (if vals.length = n * ps.length then cm * n + i else i) 0 % p
         else vals.getD (if vals.length = n * ps.length then cm * n + i else i) 0)
      else 0 := by
  unfold setValues at ho
  dsimp only at ho
  by_cases hc : vals.length > n ∧ vals.length ≠ n * ps.length
  · rw [if_pos hc] at ho; exact absurd ho (by simp)
  · rw [if_neg hc] at ho; exact (Option.some.inj ho).symm

theorem setMpz_some {n : Nat} {ps : List Nat} {vals : List Int} {out : Poly}
    (ho : setMpz n ps vals = some out) :
    out = mkPoly n ps fun cm p i =>
      if (if vals.length = n * ps.length then cm * n + i else i) < vals.length then
        (vals.getD (if vals.length = n * ps.length then cm * n + i else i) 0 % (p : Int)).toNat
      else 0 := by
  unfold setMpz at ho
  dsimp only at ho
  by_cases hc : vals.length > n ∧ vals.length ≠ n * ps.length
  · rw [if_pos hc] at ho; exact absurd ho (by simp)
  · rw [if_neg hc] at ho; exact (Option.some.inj ho).symm

end Nfl.Samplers
