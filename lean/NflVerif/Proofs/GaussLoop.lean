/-
The `getNoise` loop: buffer bookkeeping (C11).  Core Lean only.
-/
import NflVerif.Proofs.GaussDecode

namespace Nfl.Gauss

/-! ### `decode` never reads outside `wp` words when the tables have the right shape -/

structure DecShape (wp : Nat) (d : Dec) : Prop where
  seen_le : d.seen ≤ d.used
  used_le : d.used ≤ wp
  used_pos : 1 ≤ d.used

theorem listsOK_get {wp : Nat} {row : Array Cell} (h : listsOK wp row = true) {i : Nat} (hi : i < row.size) :
    row[i].flag = true → ∀ b ∈ row[i].bl, b.length ≤ wp := by
  simp only [listsOK, Bool.or_eq_true, Bool.not_eq_true', List.all_eq_true, decide_eq_true_eq] at h
  intro hf b hb
  have hm : row[i] ∈ row.toList := by rw [Array.mem_toList_iff]; exact Array.getElem_mem hi
  rcases h row[i] hm with h' | h'
  · rw [hf] at h'; simp at h'
  · exact h' b hb

theorem shape_size {depth W wp : Nat} {T : Tables} (h : shapeOK depth W wp T = true) : T.t1.size = W := by
  simp only [shapeOK, Bool.and_eq_true, beq_iff_eq] at h; exact h.1

theorem shape_t1 {W wp : Nat} {T : Tables} (h : shapeOK 1 W wp T = true) {i : Nat} (hi : i < W) :
    ∃ c, T.t1[i]? = some c ∧ (c.flag = true → ∀ b ∈ c.bl, b.length ≤ wp) := by
  have hs := shape_size h
  simp only [shapeOK, Bool.and_eq_true, beq_iff_eq, beq_self_eq_true, if_true] at h
  have hsz : i < T.t1.size := by omega
  exact ⟨T.t1[i], by simp [hsz], listsOK_get h.2 hsz⟩

theorem shape_t2 {W wp : Nat} {T : Tables} (h : shapeOK 2 W wp T = true) {i : Nat} (hi : i < W) {c : Cell}
    (hc : T.t1[i]? = some c) (hf : c.flag = true) :
    ∃ row, T.t2[i]? = some (some row) ∧ ∀ j, j < W → ∃ c2, row[j]? = some c2 ∧ (c2.flag = true → ∀ b ∈ c2.bl, b.length ≤ wp) := by
  have hs := shape_size h
  simp only [shapeOK, Bool.and_eq_true, beq_iff_eq, show ((2 : Nat) == 1) = false by rfl, Bool.false_eq_true, if_false,
    beq_self_eq_true, true_and, List.all_eq_true, List.mem_range, Bool.or_eq_true, Bool.not_eq_true'] at h
  obtain ⟨_, hs2, hall⟩ := h
  have hsz : i < T.t1.size := by omega
  have hsz2 : i < T.t2.size := by omega
  have hci : T.t1[i] = c := by simpa [hsz] using hc
  have hg1 : T.t1.getD i default = c := by simp [Array.getD, hsz, hci]
  have hg2 : T.t2.getD i none = T.t2[i] := by simp [Array.getD, hsz2]
  have := hall i hi
  rw [hg1, hg2] at this
  rcases this with this | this
  · rw [hf] at this; simp at this
  · cases hrow : T.t2[i] with
    | none => simp [hrow] at this
    | some row =>
      simp only [hrow, Bool.and_eq_true, beq_iff_eq] at this
      refine ⟨row, by simp [hsz2, hrow], ?_⟩
      intro j hj
      have hj' : j < row.size := by omega
      exact ⟨row[j], by simp [hj'], listsOK_get this.2 hj'⟩

theorem decode_shape {depth W wp : Nat} {T : Tables} {tape : Str}
    (hT : shapeOK depth W wp T = true) (hwp : depth ≤ wp) (hlen : wp ≤ tape.length) (hw : ∀ x ∈ tape, x < W) :
    ∃ d, decode depth wp T tape = some d ∧ DecShape wp d := by
  have hd : depth = 1 ∨ depth = 2 := by
    by_cases h1 : depth = 1
    · exact Or.inl h1
    · by_cases h2 : depth = 2
      · exact Or.inr h2
      · simp [shapeOK, h1, h2] at hT
  have hsize := shape_size hT
  cases tape with
  | nil => simp at hlen; omega
  | cons i1 rest =>
    have hi : i1 < W := hw i1 List.mem_cons_self
    rcases hd with rfl | rfl
    · obtain ⟨c, hc, hbl⟩ := shape_t1 hT hi
      simp only [decode, if_true, decode1, hc]
      by_cases hf : c.flag = true
      · obtain ⟨s', hs', he⟩ := scanRd_eq (i1 :: rest) c.bl c.val 1 wp hwp (fun b hb => ⟨by have := hbl hf b hb; omega, hbl hf b hb⟩)
        have hnot : ¬ wp < 1 := by omega
        exact ⟨⟨scan (i1 :: rest) c.bl c.val, wp, s'⟩, by simp [hf, hnot, he], ⟨hs', Nat.le_refl _, hwp⟩⟩
      · simp only [Bool.not_eq_true] at hf
        exact ⟨⟨c.val, 1, 1⟩, by simp [hf], ⟨Nat.le_refl _, hwp, Nat.le_refl _⟩⟩
    · have hsz : i1 < T.t1.size := by omega
      have hc : T.t1[i1]? = some T.t1[i1] := by simp [hsz]
      generalize T.t1[i1] = c at hc
      simp only [decode, if_true, decode2, hc, show ¬ (2 = 1) by omega, if_false]
      by_cases hf : c.flag = true
      · cases rest with
        | nil => simp at hlen; omega
        | cons i2 rest2 =>
          have hi2 : i2 < W := hw i2 (by simp)
          obtain ⟨row, hrow, hcells⟩ := shape_t2 hT hi hc hf
          obtain ⟨c2, hc2, hbl2⟩ := hcells i2 hi2
          simp only [hf, if_true, hrow, hc2]
          by_cases hf2 : c2.flag = true
          · obtain ⟨s', hs', he⟩ := scanRd_eq (i1 :: i2 :: rest2) c2.bl c2.val 2 wp hwp
              (fun b hb => ⟨by have := hbl2 hf2 b hb; omega, hbl2 hf2 b hb⟩)
            have hnot : ¬ wp < 2 := by omega
            exact ⟨⟨scan (i1 :: i2 :: rest2) c2.bl c2.val, wp, s'⟩, by simp [hf2, hnot, he], ⟨hs', Nat.le_refl _, by show 1 ≤ wp; omega⟩⟩
          · simp only [Bool.not_eq_true] at hf2
            exact ⟨⟨c2.val, 2, 2⟩, by simp [hf2], ⟨Nat.le_refl _, hwp, by show 1 ≤ 2; omega⟩⟩
      · simp only [Bool.not_eq_true] at hf
        exact ⟨⟨c.val, 1, 1⟩, by simp [hf], ⟨Nat.le_refl _, by show 1 ≤ wp; omega, Nat.le_refl _⟩⟩

/-- **the output depends only on the words consumed**: a buffer that agrees with `tape` on the `d.used` words that were
consumed decodes to the same result. -/
theorem decode_congr {depth W wp : Nat} {T : Tables} {tape tape' : Str} {d : Dec}
    (hT : shapeOK depth W wp T = true) (hw : ∀ x ∈ tape, x < W)
    (h : decode depth wp T tape = some d) (hpre : tape'.take d.used = tape.take d.used) :
    decode depth wp T tape' = some d := by
  have hd : depth = 1 ∨ depth = 2 := by
    by_cases h1 : depth = 1
    · exact Or.inl h1
    · by_cases h2 : depth = 2
      · exact Or.inr h2
      · simp [decode, h1, h2] at h
  have hsize := shape_size hT
  cases tape with
  | nil => rcases hd with rfl | rfl <;> simp [decode, decode1, decode2] at h
  | cons i1 rest =>
    have hi : i1 < W := hw i1 List.mem_cons_self
    have hsz : i1 < T.t1.size := by omega
    have hc : T.t1[i1]? = some T.t1[i1] := by simp [hsz]
    generalize T.t1[i1] = c at hc
    rcases hd with rfl | rfl
    · obtain ⟨c', hc', hbl⟩ := shape_t1 hT hi
      rw [hc] at hc'; cases hc'
      simp only [decode, if_true, decode1, hc] at h
      by_cases hf : c.flag = true
      · simp only [hf, if_true] at h
        by_cases hnot : wp < 1
        · simp [hnot] at h
        · simp only [hnot, if_false] at h
          cases hsc : scanRd (i1 :: rest) c.bl c.val 1 with
          | none => simp [hsc] at h
          | some r =>
            obtain ⟨out, seen⟩ := r
            simp only [hsc, Option.some.injEq] at h
            subst h
            simp only at hpre
            obtain ⟨n, rfl⟩ : ∃ n, wp = n + 1 := ⟨wp - 1, by omega⟩
            cases tape' with
            | nil => simp at hpre
            | cons j1 rest' =>
              have hj : j1 = i1 := by simp at hpre; exact hpre.1
              subst hj
              simp only [decode, if_true, decode1, hc, hf, hnot, if_false]
              rw [scanRd_congr c.bl (j1 :: rest') (j1 :: rest) (n + 1) c.val 1 (hbl hf) hpre, hsc]
      · simp only [Bool.not_eq_true] at hf
        simp only [hf, Bool.false_eq_true, if_false, Option.some.injEq] at h
        subst h
        simp only at hpre
        cases tape' with
        | nil => simp at hpre
        | cons j1 rest' =>
          simp at hpre; subst hpre
          simp [decode, decode1, hc, hf]
    · simp only [decode, if_true, decode2, hc, show ¬ (2 = 1) by omega, if_false] at h
      by_cases hf : c.flag = true
      · cases rest with
        | nil => simp [hf] at h
        | cons i2 rest2 =>
          have hi2 : i2 < W := hw i2 (by simp)
          obtain ⟨row, hrow, hcells⟩ := shape_t2 hT hi hc hf
          obtain ⟨c2, hc2, hbl2⟩ := hcells i2 hi2
          simp only [hf, if_true, hrow, hc2] at h
          by_cases hf2 : c2.flag = true
          · simp only [hf2, if_true] at h
            by_cases hnot : wp < 2
            · simp [hnot] at h
            · simp only [hnot, if_false] at h
              cases hsc : scanRd (i1 :: i2 :: rest2) c2.bl c2.val 2 with
              | none => simp [hsc] at h
              | some r =>
                obtain ⟨out, seen⟩ := r
                simp only [hsc, Option.some.injEq] at h
                subst h
                simp only at hpre
                obtain ⟨n, rfl⟩ : ∃ n, wp = n + 2 := ⟨wp - 2, by omega⟩
                match tape', hpre with
                | [], hpre => simp at hpre
                | [j1], hpre => simp at hpre
                | j1 :: j2 :: rest', hpre =>
                  have h12 : j1 = i1 ∧ j2 = i2 := by simp at hpre; exact ⟨hpre.1, hpre.2.1⟩
                  obtain ⟨rfl, rfl⟩ := h12
                  simp only [decode, if_true, decode2, hc, show ¬ (2 = 1) by omega, if_false, hf, hrow, hc2, hf2, hnot]
                  rw [scanRd_congr c2.bl (j1 :: j2 :: rest') (j1 :: j2 :: rest2) (n + 2) c2.val 2 (hbl2 hf2) hpre, hsc]
          · simp only [Bool.not_eq_true] at hf2
            simp only [hf2, Bool.false_eq_true, if_false, Option.some.injEq] at h
            subst h
            simp only at hpre
            match tape', hpre with
            | [], hpre => simp at hpre
            | [j1], hpre => simp at hpre
            | j1 :: j2 :: rest', hpre =>
              have h12 : j1 = i1 ∧ j2 = i2 := by simp at hpre; exact ⟨hpre.1, hpre.2⟩
              obtain ⟨rfl, rfl⟩ := h12
              simp [decode, decode2, hc, hf, hrow, hc2, hf2]
      · simp only [Bool.not_eq_true] at hf
        simp only [hf, Bool.false_eq_true, if_false, Option.some.injEq] at h
        subst h
        simp only at hpre
        cases tape' with
        | nil => simp at hpre
        | cons j1 rest' =>
          simp at hpre; subst hpre
          simp [decode, decode2, hc, hf]

/-! ### correct tables have the right shape -/

theorem listsOK_of_cells {wp : Nat} {bs : List Str} {v0 : Int} (hl : LenWp wp bs) (row : Array Cell) (p : Nat → Str)
    (h : ∀ i, (hi : i < row.size) → cellOK bs v0 (p i) row[i] = true) : listsOK wp row = true := by
  simp only [listsOK, Bool.or_eq_true, Bool.not_eq_true', List.all_eq_true, decide_eq_true_eq]
  intro c hc
  rw [Array.mem_toList_iff] at hc
  obtain ⟨i, hi, rfl⟩ := Array.getElem_of_mem hc
  by_cases hf : row[i].flag = true
  · right
    have := h i hi
    simp only [cellOK, Bool.and_eq_true, hf, if_true, beq_iff_eq] at this
    intro b hb
    rw [this.2] at hb
    rw [hl b (List.mem_filter.mp hb).1]; exact Nat.le_refl _
  · left; simpa using hf

theorem shape_of_tableOK {depth W wp : Nat} {bs : List Str} {v0 : Int} {T : Tables}
    (hwf : barriersWF W wp bs = true) (hT : tableOK depth W bs v0 T = true) : shapeOK depth W wp T = true := by
  have hl := lenWp_of_WF hwf
  simp only [tableOK] at hT
  by_cases h1 : depth = 1
  · subst h1
    simp only [if_true, tableOK1, Bool.and_eq_true, beq_iff_eq, List.all_eq_true, List.mem_range] at hT
    simp only [shapeOK, hT.1, beq_self_eq_true, Bool.true_and, if_true]
    apply listsOK_of_cells hl T.t1 (fun i => [i])
    intro i hi
    have := hT.2 i (by omega)
    simpa [Array.getD, hi] using this
  · by_cases h2 : depth = 2
    · subst h2
      simp only [show ¬ (2 = 1) by omega, if_false, if_true, tableOK2, Bool.and_eq_true, beq_iff_eq, List.all_eq_true,
        List.mem_range] at hT
      obtain ⟨⟨hs1, hs2⟩, hall⟩ := hT
      simp only [shapeOK, hs1, hs2, beq_self_eq_true, Bool.true_and, show ((2 : Nat) == 1) = false by rfl,
        Bool.false_eq_true, if_false, List.all_eq_true, List.mem_range, Bool.or_eq_true, Bool.not_eq_true']
      intro i hi
      have := hall i hi
      by_cases hf : (T.t1.getD i default).flag = true
      · right
        simp only [hf, if_true] at this
        cases hrow : T.t2.getD i none with
        | none => simp [hrow] at this
        | some row =>
          simp only [hrow, Bool.and_eq_true, beq_iff_eq, List.all_eq_true, List.mem_range] at this
          simp only [Bool.and_eq_true, beq_iff_eq]
          refine ⟨this.1, ?_⟩
          apply listsOK_of_cells hl row (fun j => [i, j])
          intro j hj
          have := this.2 j (by omega)
          simpa [Array.getD, hj] using this
      · left; simpa using hf
    · simp [h1, h2] at hT

/-! ### the trace of a run -/

/-- The bookkeeping of a trace that starts with `used_words = pos` in the buffer of request `req`: each iteration
starts where the previous one stopped, or at 0 in the buffer of the *next* request; it inspects only words it consumes,
and consumes only words of the buffer. -/
def Chain (wp bufLen : Nat) : Nat → Nat → List Ev → Prop
  | _, _, [] => True
  | req, pos, e :: t =>
    e.req = req ∧ e.pos = pos ∧ e.seen ≤ e.used ∧ 1 ≤ e.used ∧ e.pos + e.used ≤ bufLen ∧
    (if e.pos + e.used + wp ≥ bufLen then Chain wp bufLen (req + 1) 0 t else Chain wp bufLen req (e.pos + e.used) t)

/-- one output per iteration — no hypothesis at all -/
theorem loop_length {depth wp : Nat} {T : Tables} {bufLen : Nat} {fills : Nat → Str} (n req pos : Nat) (rest : Str)
    {evs : List Ev} (h : loop depth wp T bufLen fills n req pos rest = some evs) : evs.length = n := by
  induction n generalizing req pos rest evs with
  | zero => simp [loop] at h; simp [← h]
  | succ n ih =>
    simp only [loop] at h
    split at h
    · simp at h
    · rename_i d _
      split at h
      · simp at h
      · rename_i evs' he
        simp only [Option.some.injEq] at h
        subst h
        simp only [List.length_cons, Nat.add_right_cancel_iff]
        split at he
        · exact ih _ _ _ he
        · exact ih _ _ _ he

/-- well-formed random source: every request delivers at least `bufLen` words, each an `in_class` value -/
structure FillsOK (W bufLen : Nat) (fills : Nat → Str) : Prop where
  len : ∀ r, bufLen ≤ (fills r).length
  words : ∀ r, ∀ x ∈ fills r, x < W

theorem loop_chain {depth W wp : Nat} {T : Tables} {bufLen : Nat} {fills : Nat → Str}
    (hT : shapeOK depth W wp T = true) (hwp : depth ≤ wp) (hf : FillsOK W bufLen fills)
    (n req pos : Nat) (rest : Str) (hrest : rest = ((fills req).take bufLen).drop pos) (hpos : pos + wp ≤ bufLen) :
    ∃ evs, loop depth wp T bufLen fills n req pos rest = some evs ∧ Chain wp bufLen req pos evs := by
  induction n generalizing req pos rest with
  | zero => exact ⟨[], by simp [loop], trivial⟩
  | succ n ih =>
    have hlen : rest.length = bufLen - pos := by
      rw [hrest, List.length_drop, List.length_take, Nat.min_eq_left (hf.len req)]
    have hw : ∀ x ∈ rest, x < W := by
      intro x hx; rw [hrest] at hx
      exact hf.words req x (List.mem_of_mem_take (List.mem_of_mem_drop hx))
    obtain ⟨d, hdec, hds⟩ := decode_shape hT hwp (by omega) hw
    simp only [loop, hdec]
    have hu := hds.used_le
    by_cases hre : pos + d.used + wp ≥ bufLen
    · obtain ⟨evs, he, hc⟩ := ih (req + 1) 0 ((fills (req + 1)).take bufLen) (by simp) (by omega)
      refine ⟨⟨req, pos, d.used, d.seen, d.out⟩ :: evs, by simp [hre, he], ?_⟩
      simp only [Chain, true_and]
      exact ⟨hds.seen_le, hds.used_pos, by omega, by simp [hre, hc]⟩
    · obtain ⟨evs, he, hc⟩ := ih req (pos + d.used) (rest.drop d.used) (by rw [hrest, List.drop_drop]) (by omega)
      refine ⟨⟨req, pos, d.used, d.seen, d.out⟩ :: evs, by simp [hre, he], ?_⟩
      simp only [Chain, true_and]
      exact ⟨hds.seen_le, hds.used_pos, by omega, by simp [hre, hc]⟩

/-! ### consequences of `Chain` -/

theorem chain_bounds {wp bufLen : Nat} {req pos : Nat} {evs : List Ev} (h : Chain wp bufLen req pos evs) :
    ∀ e ∈ evs, e.seen ≤ e.used ∧ 1 ≤ e.used ∧ e.pos + e.used ≤ bufLen ∧ (req < e.req ∨ (e.req = req ∧ pos ≤ e.pos)) := by
  induction evs generalizing req pos with
  | nil => simp
  | cons a t ih =>
    simp only [Chain] at h
    obtain ⟨h1, h2, h3, h4, h5, h6⟩ := h
    intro e he
    rcases List.mem_cons.mp he with rfl | he'
    · exact ⟨h3, h4, h5, Or.inr ⟨h1, by omega⟩⟩
    · split at h6
      · have := ih h6 e he'
        exact ⟨this.1, this.2.1, this.2.2.1, Or.inl (by omega)⟩
      · have := ih h6 e he'
        refine ⟨this.1, this.2.1, this.2.2.1, ?_⟩
        rcases this.2.2.2 with h | ⟨h, h'⟩
        · exact Or.inl h
        · exact Or.inr ⟨h, by omega⟩

/-- consumed pieces of two different iterations never overlap: either they lie in buffers of different requests, or the
earlier one ends before the later one starts. -/
theorem chain_disjoint {wp bufLen : Nat} {req pos : Nat} {evs : List Ev} (h : Chain wp bufLen req pos evs) :
    evs.Pairwise (fun a b => a.req < b.req ∨ (a.req = b.req ∧ a.pos + a.used ≤ b.pos)) := by
  induction evs generalizing req pos with
  | nil => exact List.Pairwise.nil
  | cons a t ih =>
    simp only [Chain] at h
    obtain ⟨h1, h2, _, _, _, h6⟩ := h
    split at h6
    · refine List.Pairwise.cons ?_ (ih h6)
      intro b hb
      rcases (chain_bounds h6 b hb).2.2.2 with h | ⟨h, _⟩
      · exact Or.inl (by omega)
      · exact Or.inl (by omega)
    · refine List.Pairwise.cons ?_ (ih h6)
      intro b hb
      rcases (chain_bounds h6 b hb).2.2.2 with h | ⟨h, h'⟩
      · exact Or.inl (by omega)
      · exact Or.inr ⟨by omega, h'⟩

end Nfl.Gauss
