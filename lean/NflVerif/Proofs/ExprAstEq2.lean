/-
C07 / C08 — source-level tie of the expression-template machinery, second part (continues `Proofs/ExprAstEq.lean`):

§7  the VALUE-level equality for the fused product in the vector builds.  The generated evaluators `assign_fma_sse_u32`
    (`a0 + shoup(a1*a2, a3)`, `uint32_t`, SSE build, 4 lanes) and `assign_fma_avx2_u16` (`uint16_t`, AVX2 build: the fused product has the
    AVX2 tag, its `simd_mode` is SSE, the loop runs 8 lanes wide) are, on EVERY heap, `Compose2.assignReal`: the register-level loop in
    which every node applies the hand model of the real kernel of its own tag (`Generated/SimdAst.lean` kernels = `Model/Simd.lean` kernels
    by `Proofs/SimdAstEq.lean`).  Under Compose2's hypotheses (`TableRows`, `Adm`, …) that loop is `Ex.assign` = the pointwise meaning
    (`Compose2.assignReal_eq_assign`, `expr_real_kernels_correct`): the lane hypothesis of C05 is discharged there.
§8  comparison shapes through `expr::operator bool`: the generated `tobool_<shape>_<build>_<T>` (= `Gen.BoolAst.expr_to_bool` bound to the
    resolved `store` / `load` / `elt_count` / `is_eqmod` of the instantiation, `eqmod::operator()` / `neqmod::operator()` translated) are
    `Ex.exprToBool` of the corresponding tree.
§9  the resolved data of the new instances.
-/
import NflVerif.Proofs.ExprAstEq
import NflVerif.Proofs.BoolAstEq
import NflVerif.Properties.Compose2

namespace Nfl.ExprAst
open Nfl Nfl.CSem Nfl.CSemExpr Nfl.Ex
open Gen.ExprAst

/-! ## §7 the fused product in the vector builds -/

/-- **the generic loop with a vector `store` = Compose2's register-level loop `assignT`**, for any kernel family `kf` and tag function:
as soon as the translated loader is `loadVecT` on every block the loop visits.  No hypothesis on the heap. -/
theorem vec_tieT (c : Ctx) (e : Expr) (kf : Mode → Kernels) (tagf : Expr → Mode) (P Pn : Nat → Nat) (vs d : Nat)
    (store : Mem → Ptr → List Nat → Mem) (load : Mem → Nat → Nat → List Nat) (m : Store) (S : Sizes c)
    (hstore : ∀ m p v, store m p v = storeBlock m p.1 p.2 v) (hvs : 0 < vs)
    (hload : ∀ m cm j, cm < c.nmod → j + vs ≤ c.deg → load m cm j = Compose2.loadVecT kf tagf c m e cm j vs) :
    Gen.ExprAst.poly_assign c.deg c.nmod P Pn vs store load d m = Compose2.assignT kf tagf c vs d e m := by
  rw [poly_assign_eq_assignWL c.deg c.nmod P Pn vs d id store load (fun st cm j => Compose2.loadVecT kf tagf c st e cm j vs)
    (fun _ => True) m hstore ?_ (fun _ _ _ _ _ _ => trivial) hvs S.nm S.deg S.n trivial]
  · rfl
  · intro m cm jb _ hcm hjb
    have h1 : (jb + 1) * vs ≤ c.deg / vs * vs := Nat.mul_le_mul_right vs hjb
    have h2 := Nat.div_mul_le_self c.deg vs
    have h3 : (jb + 1) * vs = jb * vs + vs := by rw [Nat.add_mul, Nat.one_mul]
    exact hload m cm (jb * vs) hcm (by omega)

/-- `_mm_load_si128` of a leaf at the `size_t` index = the leaf register of `loadVecT` -/
theorem mm_load_leaf (bits vs : Nat) (hvs : 128 / bits = vs) (kf : Mode → Kernels) (tagf : Expr → Mode) (c : Ctx) (m : Store) (a cm j : Nat)
    (hidx : cm * c.deg + j < 2 ^ 64) :
    mm_load_si128 bits m (elemPtr a (addU 64 (mulU 64 cm c.deg) j)) = Compose2.loadVecT kf tagf c m (.leaf a) cm j vs := by
  rw [idx_eq hidx, ← hvs]
  show (List.range (128 / bits)).map (fun t => rd m a (cm * c.deg + j + t)) = (List.range (128 / bits)).map (fun t => rd m a (cm * c.deg + (j + t)))
  simp only [Nat.add_assoc]

theorem sse_store_lanes_u16 (m : Mem) (p : Ptr) (v : List Nat) : simd_sse_store_u16 m p v = storeBlock m p.1 p.2 v :=
  storeLanes_eq_storeBlock p.1 v m p.2

/-- the tree `a0 + shoup(a1 * a2, a3)` after `_make_op`'s fusion -/
def fmaTree (a0 a1 a2 a3 : Nat) : Expr := .add (.leaf a0) (.shoup3 (.leaf a1) (.leaf a2) (.leaf a3))

/-- **`d = a0 + shoup(a1*a2, a3)`, SSE build, `uint32_t`: the generated evaluator IS the loop with the real kernels, on every heap**
(`sse_addmod_u32` / `sse_mulmod_shoup_u32` generated from opt/arch/sse.hpp = `Simd.sseAddmod32` / `Simd.sseMulmodShoup32`). -/
theorem assign_fma_sse_u32_eq_real (c : Ctx) (hl : c.l = .w32) (S : Sizes c) (m : Store) (d a0 a1 a2 a3 : Nat) :
    assign_fma_sse_u32 c.deg c.nmod c.p (pnOf c) m d a0 a1 a2 a3 = Compose2.assignReal c .sse d (fmaTree a0 a1 a2 a3) m := by
  have hmode : eltCount c.l (mode .sse c.l (fmaTree a0 a1 a2 a3)) = 4 := by rw [hl]; rfl
  have h4 : CSem.divU 64 16 4 = 4 := by decide
  unfold Compose2.assignReal
  rw [hmode]
  have key := vec_tieT c (fmaTree a0 a1 a2 a3) (fun tg => Compose2.realKernels tg c) (Compose2.nodeTag .sse c.l) c.p (pnOf c) 4 d
    simd_sse_store_u32 (fun m cm j => load_sse_u32_addmod_sse_of_P_Lmulmod_shoup_sse_of_P_P_PR c.deg c.nmod c.p (pnOf c) m (a0, (a1, a2, a3)) cm j)
    m S sse_store_lanes (by omega) ?_
  · rw [← key, ← h4]
  · intro m cm j hcm hj
    have hidx : cm * c.deg + j < 2 ^ 64 := Nat.lt_trans (idx_lt hcm (by omega)) S.n
    have ht1 : Compose2.nodeTag .sse c.l (fmaTree a0 a1 a2 a3) = .sse := by rw [hl]; rfl
    have ht2 : Compose2.nodeTag .sse c.l (.shoup3 (.leaf a1) (.leaf a2) (.leaf a3)) = .sse := by rw [hl]; rfl
    have hadd : ∀ cm xs ys, (Compose2.realKernels .sse c).add cm xs ys = Simd.sseAddmod32 (c.p cm) xs ys := by
      intro cm xs ys; simp only [Compose2.realKernels, hl]
    have hsh : ∀ cm xs ys qs, (Compose2.realKernels .sse c).shoup cm xs ys qs = Simd.sseMulmodShoup32 (c.p cm) xs ys qs := by
      intro cm xs ys qs; simp only [Compose2.realKernels, hl]
    have hleaf := fun a => mm_load_leaf 32 4 (by decide) (fun tg => Compose2.realKernels tg c) (Compose2.nodeTag .sse c.l) c m a cm j hidx
    unfold fmaTree at ht1 ⊢
    expr_ast_unfold
    simp only [hleaf, SimdAstEq.sse_addmod_u32_eq, SimdAstEq.sse_mulmod_shoup_u32_eq, Compose2.loadVecT, ht1, ht2, hadd, hsh]

/-- **VALUE-level equality, SSE build, `uint32_t`** — hypotheses exactly those of `Compose2.expr_real_kernels_correct`
(`hrows`: the moduli are rows of the generated table; `hd`, `hlen`: the destination is an object of the heap with `nmoduli * degree` cells;
`hdiv`: the register width of the mode the tree resolves to divides the degree (= the `static_assert` of `operator=`); `hadm : Adm c m e`:
canonical operands, third operand of the product = `compute_shoup` of the second) plus the C-type bounds `Sizes` of the translated loop.
`hacc` (every node's `load<M>` compiles) holds for this tree.  Nothing relates `d` to `a0 … a3`: every destination, every aliasing. -/
theorem assign_fma_sse_u32_eq (c : Ctx) (hl : c.l = .w32) (hrows : c.TableRows) (S : Sizes c) (m : Store) (d a0 a1 a2 a3 : Nat)
    (hd : d < m.length) (hlen : (m.getD d []).length = c.n)
    (hdiv : eltCount c.l (mode .sse c.l (fmaTree a0 a1 a2 a3)) ∣ c.deg) (hadm : Adm c m (fmaTree a0 a1 a2 a3)) :
    assign_fma_sse_u32 c.deg c.nmod c.p (pnOf c) m d a0 a1 a2 a3 = assign c .sse d (fmaTree a0 a1 a2 a3) m := by
  rw [assign_fma_sse_u32_eq_real c hl S]
  exact Compose2.assignReal_eq_assign c hrows .sse d _ m hd hlen (by rw [hl]; rfl) hdiv hadm

/-- … and the pointwise meaning: the destination row becomes the exact coefficient-wise value on the heap before the assignment -/
theorem assign_fma_sse_u32_pointwise (c : Ctx) (hl : c.l = .w32) (hrows : c.TableRows) (S : Sizes c) (m : Store) (d a0 a1 a2 a3 : Nat)
    (hd : d < m.length) (hlen : (m.getD d []).length = c.n)
    (hdiv : eltCount c.l (mode .sse c.l (fmaTree a0 a1 a2 a3)) ∣ c.deg) (hadm : Adm c m (fmaTree a0 a1 a2 a3)) :
    assign_fma_sse_u32 c.deg c.nmod c.p (pnOf c) m d a0 a1 a2 a3 = m.set d (pointwise c m (fmaTree a0 a1 a2 a3)) := by
  rw [assign_fma_sse_u32_eq_real c hl S]
  exact Compose2.expr_real_kernels_correct c hrows .sse d _ m hd hlen (by rw [hl]; rfl) hdiv hadm

/-- **AVX2 build, `uint16_t`**: `mulmod_shoup<uint16_t, avx2>` (the kernel computing in a `__m256i` on SSE-width registers,
`GenSimd.avx2_mulmod_shoup_u16` = `Simd.avx2MulmodShoup16`) under `addmod<uint16_t, sse>`; `simd::sse` load/store, 8 lanes. -/
theorem assign_fma_avx2_u16_eq_real (c : Ctx) (hl : c.l = .w16) (S : Sizes c) (m : Store) (d a0 a1 a2 a3 : Nat) :
    assign_fma_avx2_u16 c.deg c.nmod c.p (pnOf c) m d a0 a1 a2 a3 = Compose2.assignReal c .avx2 d (fmaTree a0 a1 a2 a3) m := by
  have hmode : eltCount c.l (mode .avx2 c.l (fmaTree a0 a1 a2 a3)) = 8 := by rw [hl]; rfl
  have h8 : CSem.divU 64 16 2 = 8 := by decide
  unfold Compose2.assignReal
  rw [hmode]
  have key := vec_tieT c (fmaTree a0 a1 a2 a3) (fun tg => Compose2.realKernels tg c) (Compose2.nodeTag .avx2 c.l) c.p (pnOf c) 8 d
    simd_sse_store_u16 (fun m cm j => load_sse_u16_addmod_sse_of_P_Lmulmod_shoup_avx2_of_P_P_PR c.deg c.nmod c.p (pnOf c) m (a0, (a1, a2, a3)) cm j)
    m S sse_store_lanes_u16 (by omega) ?_
  · rw [← key, ← h8]
  · intro m cm j hcm hj
    have hidx : cm * c.deg + j < 2 ^ 64 := Nat.lt_trans (idx_lt hcm (by omega)) S.n
    have ht1 : Compose2.nodeTag .avx2 c.l (fmaTree a0 a1 a2 a3) = .sse := by rw [hl]; rfl
    have ht2 : Compose2.nodeTag .avx2 c.l (.shoup3 (.leaf a1) (.leaf a2) (.leaf a3)) = .avx2 := by rw [hl]; rfl
    have hadd : ∀ cm xs ys, (Compose2.realKernels .sse c).add cm xs ys = Simd.sseAddmod16 (c.p cm) xs ys := by
      intro cm xs ys; simp only [Compose2.realKernels, hl]
    have hsh : ∀ cm xs ys qs, (Compose2.realKernels .avx2 c).shoup cm xs ys qs = Simd.avx2MulmodShoup16 (c.p cm) xs ys qs := by
      intro cm xs ys qs; simp only [Compose2.realKernels, hl]
    have hleaf := fun a => mm_load_leaf 16 8 (by decide) (fun tg => Compose2.realKernels tg c) (Compose2.nodeTag .avx2 c.l) c m a cm j hidx
    unfold fmaTree at ht1 ⊢
    expr_ast_unfold
    simp only [hleaf, SimdAstEq.sse_addmod_u16_eq, SimdAstEq.avx2_mulmod_shoup_u16_eq, Compose2.loadVecT, ht1, ht2, hadd, hsh]

/-- **VALUE-level equality, AVX2 build, `uint16_t`** (hypotheses as `assign_fma_sse_u32_eq`) -/
theorem assign_fma_avx2_u16_eq (c : Ctx) (hl : c.l = .w16) (hrows : c.TableRows) (S : Sizes c) (m : Store) (d a0 a1 a2 a3 : Nat)
    (hd : d < m.length) (hlen : (m.getD d []).length = c.n)
    (hdiv : eltCount c.l (mode .avx2 c.l (fmaTree a0 a1 a2 a3)) ∣ c.deg) (hadm : Adm c m (fmaTree a0 a1 a2 a3)) :
    assign_fma_avx2_u16 c.deg c.nmod c.p (pnOf c) m d a0 a1 a2 a3 = assign c .avx2 d (fmaTree a0 a1 a2 a3) m := by
  rw [assign_fma_avx2_u16_eq_real c hl S]
  exact Compose2.assignReal_eq_assign c hrows .avx2 d _ m hd hlen (by rw [hl]; rfl) hdiv hadm

theorem assign_fma_avx2_u16_pointwise (c : Ctx) (hl : c.l = .w16) (hrows : c.TableRows) (S : Sizes c) (m : Store) (d a0 a1 a2 a3 : Nat)
    (hd : d < m.length) (hlen : (m.getD d []).length = c.n)
    (hdiv : eltCount c.l (mode .avx2 c.l (fmaTree a0 a1 a2 a3)) ∣ c.deg) (hadm : Adm c m (fmaTree a0 a1 a2 a3)) :
    assign_fma_avx2_u16 c.deg c.nmod c.p (pnOf c) m d a0 a1 a2 a3 = m.set d (pointwise c m (fmaTree a0 a1 a2 a3)) := by
  rw [assign_fma_avx2_u16_eq_real c hl S]
  exact Compose2.expr_real_kernels_correct c hrows .avx2 d _ m hd hlen (by rw [hl]; rfl) hdiv hadm

/-! ## §8 comparison shapes through `expr::operator bool` -/

theorem all_range_congr {n : Nat} {f g : Nat → Bool} (h : ∀ i, i < n → f i = g i) : (List.range n).all f = (List.range n).all g := by
  rw [Bool.eq_iff_iff, List.all_eq_true, List.all_eq_true]
  constructor
  · intro H x hx; rw [← h x (List.mem_range.mp hx)]; exact H x hx
  · intro H x hx; rw [h x (List.mem_range.mp hx)]; exact H x hx

theorem any_range_congr {n : Nat} {f g : Nat → Bool} (h : ∀ i, i < n → f i = g i) : (List.range n).any f = (List.range n).any g := by
  rw [Bool.eq_iff_iff, List.any_eq_true, List.any_eq_true]
  constructor
  · rintro ⟨x, hx, H⟩; exact ⟨x, hx, by rw [← h x (List.mem_range.mp hx)]; exact H⟩
  · rintro ⟨x, hx, H⟩; exact ⟨x, hx, by rw [h x (List.mem_range.mp hx)]; exact H⟩

/-- the generated `operator bool` reads `tmp[k]` only for `cm < nmoduli`, `j` a multiple of the width below `degree`, `k < vector_size` -/
theorem expr_to_bool_congr (nm deg vs : Nat) (isEq : Bool) (s1 s2 : Nat → Nat → Nat → Nat)
    (hvs : 0 < vs) (hnm : nm < 2 ^ 64) (hdeg : deg < 2 ^ 64) (hvs64 : vs < 2 ^ 64)
    (h : ∀ cm, cm < nm → ∀ jb, jb < deg / vs → ∀ t, t < vs → s1 cm (jb * vs) t = s2 cm (jb * vs) t) :
    Gen.BoolAst.expr_to_bool nm vs deg s1 isEq = Gen.BoolAst.expr_to_bool nm vs deg s2 isEq := by
  rw [BoolAst.expr_to_bool_eq nm deg vs isEq s1 hvs hnm hdeg hvs64, BoolAst.expr_to_bool_eq nm deg vs isEq s2 hvs hnm hdeg hvs64]
  cases isEq
  · simp only [Bool.false_eq_true, if_false]
    exact any_range_congr fun cm hcm => any_range_congr fun jb hjb => any_range_congr fun t ht => by rw [h cm hcm jb hjb t ht]
  · simp only [if_true]
    exact all_range_congr fun cm hcm => all_range_congr fun jb hjb => all_range_congr fun t ht => by rw [h cm hcm jb hjb t ht]

/-- **the tie for `bool(e)`**: `Ex.exprToBool` is the generated `operator bool` run with ANY `stored` that agrees with the hand model's
`rootWord` on the cells the loops read (`vs` = `elt_count` of the mode the root resolves to) -/
theorem tobool_tie (c : Ctx) (be : Backend) (m : Store) (e : Expr) (hdom : e.inDomain = true) (S : Sizes c) (vs : Nat)
    (hvs : vs = eltCount c.l (mode be c.l e)) (stored : Nat → Nat → Nat → Nat)
    (h : ∀ cm, cm < c.nmod → ∀ jb, jb < c.deg / vs → ∀ t, t < vs → stored cm (jb * vs) t = rootWord c (mode be c.l e) m e cm (jb * vs) t) :
    exprToBool c be m e = some (Gen.BoolAst.expr_to_bool c.nmod vs c.deg stored (BoolAst.isEqRoot e)) := by
  unfold exprToBool
  rw [BoolAst.exprToBoolM_ast c _ m e hdom S.nm S.deg, ← hvs]
  congr 1
  exact (expr_to_bool_congr c.nmod c.deg vs _ _ _ (by rw [hvs]; exact eltCount_pos _ _) S.nm S.deg (by rw [hvs]; exact BoolAst.eltCount_lt _ _) h).symm

/-- the serial `store` into the local array `tmp[1]`, then `tmp[0]` -/
theorem tmp_serial (x v : Nat) : rd (storeCell [[x]] (elemPtr 0 0) v) 0 0 = v := rfl

/-- `_mm_store_si128` into the local array `tmp[2]` of `uint64_t`, then `tmp[k]` -/
theorem tmp_sse_u64 (x0 x1 v0 v1 : Nat) :
    rd (mm_store_si128 64 [[x0, x1]] (elemPtr 0 0) [v0, v1]) 0 0 = v0 ∧
    rd (mm_store_si128 64 [[x0, x1]] (elemPtr 0 0) [v0, v1]) 0 1 = v1 := ⟨rfl, rfl⟩

theorem ofBool_eqU (x y : Nat) : ofBool (eqU x y) = if (x == y) = true then 1 else 0 := by
  unfold ofBool eqU; by_cases h : x = y <;> simp [h]

theorem ofBool_neU (x y : Nat) : ofBool (neU x y) = if (x == y) = false then 1 else 0 := by
  unfold ofBool neU; by_cases h : x = y <;> simp [h]

/-- the hand model's stored word of a comparison root in serial mode (one element per lane, `true` = 1) -/
theorem rootWord_eq_serial (c : Ctx) (m : Store) (a b : Expr) (cm j : Nat) :
    rootWord c .serial m (.eq a b) cm j 0 = if (loadElem c m a cm j == loadElem c m b cm j) = true then 1 else 0 := by
  simp [rootWord, cmpWord, eltsPerLane, trueWord]

theorem rootWord_neq_serial (c : Ctx) (m : Store) (a b : Expr) (cm j : Nat) :
    rootWord c .serial m (.neq a b) cm j 0 = if (loadElem c m a cm j == loadElem c m b cm j) = false then 1 else 0 := by
  simp [rootWord, cmpWord, eltsPerLane, trueWord]

/-- **serial tie for `bool(e)`**: `simd_mode` = serial (whatever the build), `tmp[1]`; `load cm i` the translated `expr.load<serial>(cm, i)` -/
theorem tobool_tie_serial (c : Ctx) (be : Backend) (m : Store) (e : Expr) (hdom : e.inDomain = true) (S : Sizes c)
    (hm : mode be c.l e = .serial) (tmp : List Nat) (htmp : tmp.length = 1) (load : Nat → Nat → Nat)
    (h : ∀ cm, cm < c.nmod → ∀ i, i < c.deg → load cm i = rootWord c .serial m e cm i 0) :
    exprToBool c be m e = some (Gen.BoolAst.expr_to_bool c.nmod 1 c.deg
      (fun cm j k => loadCell (simd_serial_store [tmp] (elemPtr 0 0) (load cm j)) (elemPtr 0 k)) (BoolAst.isEqRoot e)) := by
  obtain ⟨x, rfl⟩ := List.length_eq_one_iff.mp htmp
  refine tobool_tie c be m e hdom S 1 (by rw [hm]; rfl) _ ?_
  intro cm hcm jb hjb t ht
  have ht0 : t = 0 := by omega
  subst ht0
  have hj : jb * 1 < c.deg := by rw [Nat.div_one] at hjb; omega
  rw [hm, ← h cm hcm _ hj]
  rfl

/-- **SSE tie for `bool(e)` on `uint64_t`**: two 64-bit lanes, `tmp[2]`; `load cm j` the translated `expr.load<sse>(cm, j)` (a register) -/
theorem tobool_tie_sse_u64 (c : Ctx) (hl : c.l = .w64) (be : Backend) (m : Store) (e : Expr) (hdom : e.inDomain = true) (S : Sizes c)
    (hm : mode be c.l e = .sse) (tmp : List Nat) (htmp : tmp.length = 2) (load : Nat → Nat → List Nat)
    (h : ∀ cm, cm < c.nmod → ∀ j, j + 2 ≤ c.deg → load cm j = [rootWord c .sse m e cm j 0, rootWord c .sse m e cm j 1]) :
    exprToBool c be m e = some (Gen.BoolAst.expr_to_bool c.nmod (CSem.divU 64 16 8) c.deg
      (fun cm j k => loadCell (simd_sse_store_u64 [tmp] (elemPtr 0 0) (load cm j)) (elemPtr 0 k)) (BoolAst.isEqRoot e)) := by
  obtain ⟨x0, x1, rfl⟩ := List.length_eq_two.mp htmp
  have h2 : CSem.divU 64 16 8 = 2 := by decide
  rw [h2]
  refine tobool_tie c be m e hdom S 2 (by rw [hm, hl]; rfl) _ ?_
  intro cm hcm jb hjb t ht
  have h1 : (jb + 1) * 2 ≤ c.deg / 2 * 2 := Nat.mul_le_mul_right 2 hjb
  have h3 := Nat.div_mul_le_self c.deg 2
  rw [hm]
  simp only [h cm hcm (jb * 2) (by omega)]
  rcases (by omega : t = 0 ∨ t = 1) with rfl | rfl <;> rfl

/-- the hand model's stored words of a comparison root in SSE mode on `uint64_t` (one element per 64-bit lane, `true` = all-ones) -/
theorem rootWord_eq_sse64 (c : Ctx) (hl : c.l = .w64) (m : Store) (a b : Expr) (cm j t : Nat) :
    rootWord c .sse m (.eq a b) cm j t = if (loadElem c m a cm (j + t) == loadElem c m b cm (j + t)) = true then Simd.ones 64 else 0 := by
  simp [rootWord, cmpWord, eltsPerLane, trueWord, hl, Limb.w, Simd.ones]

theorem rootWord_neq_sse64 (c : Ctx) (hl : c.l = .w64) (m : Store) (a b : Expr) (cm j t : Nat) :
    rootWord c .sse m (.neq a b) cm j t = if (loadElem c m a cm (j + t) == loadElem c m b cm (j + t)) = false then Simd.ones 64 else 0 := by
  simp [rootWord, cmpWord, eltsPerLane, trueWord, hl, Limb.w, Simd.ones]

theorem mm_load_u64 (m : Store) (a k : Nat) : mm_load_si128 64 m (elemPtr a k) = [rd m a k, rd m a (k + 1)] := rfl

theorem vecEq64_two (x0 x1 y0 y1 : Nat) :
    Simd.vecEq64 [x0, x1] [y0, y1] = [if (x0 == y0) = true then Simd.ones 64 else 0, if (x1 == y1) = true then Simd.ones 64 else 0] := by
  simp [Simd.vecEq64]

theorem vecNeq64_two (x0 x1 y0 y1 : Nat) :
    Simd.vecNeq64 [x0, x1] [y0, y1] = [if (x0 == y0) = false then Simd.ones 64 else 0, if (x1 == y1) = false then Simd.ones 64 else 0] := by
  simp only [Simd.vecNeq64, List.zipWith_cons_cons, List.zipWith_nil_left]
  by_cases h0 : x0 = y0 <;> by_cases h1 : x1 = y1 <;> simp [h0, h1]

/-! ### the instances.  `tmp` : the indeterminate contents of the local array (`vector_size` cells); hypotheses as in §4 / §5:
`S : Sizes c` (C types of the class constants and of `P[cm]`); for the shapes with an arithmetic operand `InRange c.w m` (the cells are
values of `T`: the generated `addmod` computes in `T`).  `a == b` / `a != b` on polynomials: EVERY heap. -/

/-- `bool(a0 == a1)`, serial build, `uint32_t` -/
theorem tobool_eq_serial_u32_eq (c : Ctx) (S : Sizes c) (m : Store) (tmp : List Nat) (htmp : tmp.length = 1) (a0 a1 : Nat) :
    exprToBool c .serial m (.eq (.leaf a0) (.leaf a1)) = some (tobool_eq_serial_u32 c.deg c.nmod c.p (pnOf c) m tmp a0 a1) := by
  refine tobool_tie_serial c .serial m _ rfl S rfl tmp htmp _ ?_
  intro cm hcm i hi
  have hidx := Nat.lt_trans (idx_lt hcm hi) S.n
  rw [rootWord_eq_serial]
  expr_ast_unfold
  simp only [loadCell_eq_rd, idx_eq hidx, ofBool_eqU, loadElem]
  rfl

/-- `bool(a0 != a1)`, serial build, `uint32_t` -/
theorem tobool_neq_serial_u32_eq (c : Ctx) (S : Sizes c) (m : Store) (tmp : List Nat) (htmp : tmp.length = 1) (a0 a1 : Nat) :
    exprToBool c .serial m (.neq (.leaf a0) (.leaf a1)) = some (tobool_neq_serial_u32 c.deg c.nmod c.p (pnOf c) m tmp a0 a1) := by
  refine tobool_tie_serial c .serial m _ rfl S rfl tmp htmp _ ?_
  intro cm hcm i hi
  have hidx := Nat.lt_trans (idx_lt hcm hi) S.n
  rw [rootWord_neq_serial]
  expr_ast_unfold
  simp only [loadCell_eq_rd, idx_eq hidx, ofBool_neU, loadElem]
  rfl

/-- `bool((a0 + a1) == a2)`, serial build, `uint32_t` -/
theorem tobool_addeq_serial_u32_eq (c : Ctx) (hl : c.l = .w32) (S : Sizes c) (m : Store) (hm : InRange c.w m) (tmp : List Nat) (htmp : tmp.length = 1)
    (a0 a1 a2 : Nat) :
    exprToBool c .serial m (.eq (.add (.leaf a0) (.leaf a1)) (.leaf a2)) = some (tobool_addeq_serial_u32 c.deg c.nmod c.p (pnOf c) m tmp a0 a1 a2) := by
  have hw := w_of_32 hl
  refine tobool_tie_serial c .serial m _ rfl S (by rw [hl]; rfl) tmp htmp _ ?_
  intro cm hcm i hi
  have hidx := Nat.lt_trans (idx_lt hcm hi) S.n
  have hrd := fun h k => InRange.rd hm h k
  have hp := S.p
  rw [hw] at hrd hp
  rw [rootWord_eq_serial]
  expr_ast_unfold
  simp only [loadCell_eq_rd, idx_eq hidx, ofBool_eqU, loadElem, hw, hrd, hp, OpsAstEq.addmod_u32_eq]

/-- `bool(a0 == a1)`, serial build, `uint64_t` -/
theorem tobool_eq_serial_u64_eq (c : Ctx) (S : Sizes c) (m : Store) (tmp : List Nat) (htmp : tmp.length = 1) (a0 a1 : Nat) :
    exprToBool c .serial m (.eq (.leaf a0) (.leaf a1)) = some (tobool_eq_serial_u64 c.deg c.nmod c.p (pnOf c) m tmp a0 a1) := by
  refine tobool_tie_serial c .serial m _ rfl S rfl tmp htmp _ ?_
  intro cm hcm i hi
  have hidx := Nat.lt_trans (idx_lt hcm hi) S.n
  rw [rootWord_eq_serial]
  expr_ast_unfold
  simp only [loadCell_eq_rd, idx_eq hidx, ofBool_eqU, loadElem]
  rfl

/-- `bool(a0 != a1)`, serial build, `uint64_t` -/
theorem tobool_neq_serial_u64_eq (c : Ctx) (S : Sizes c) (m : Store) (tmp : List Nat) (htmp : tmp.length = 1) (a0 a1 : Nat) :
    exprToBool c .serial m (.neq (.leaf a0) (.leaf a1)) = some (tobool_neq_serial_u64 c.deg c.nmod c.p (pnOf c) m tmp a0 a1) := by
  refine tobool_tie_serial c .serial m _ rfl S rfl tmp htmp _ ?_
  intro cm hcm i hi
  have hidx := Nat.lt_trans (idx_lt hcm hi) S.n
  rw [rootWord_neq_serial]
  expr_ast_unfold
  simp only [loadCell_eq_rd, idx_eq hidx, ofBool_neU, loadElem]
  rfl

/-- `bool((a0 + a1) == a2)`, serial build, `uint64_t` -/
theorem tobool_addeq_serial_u64_eq (c : Ctx) (hl : c.l = .w64) (S : Sizes c) (m : Store) (hm : InRange c.w m) (tmp : List Nat) (htmp : tmp.length = 1)
    (a0 a1 a2 : Nat) :
    exprToBool c .serial m (.eq (.add (.leaf a0) (.leaf a1)) (.leaf a2)) = some (tobool_addeq_serial_u64 c.deg c.nmod c.p (pnOf c) m tmp a0 a1 a2) := by
  have hw := w_of_64 hl
  refine tobool_tie_serial c .serial m _ rfl S (by rw [hl]; rfl) tmp htmp _ ?_
  intro cm hcm i hi
  have hidx := Nat.lt_trans (idx_lt hcm hi) S.n
  have hrd := fun h k => InRange.rd hm h k
  have hp := S.p
  rw [hw] at hrd hp
  rw [rootWord_eq_serial]
  expr_ast_unfold
  simp only [loadCell_eq_rd, idx_eq hidx, ofBool_eqU, loadElem, hw, hrd, hp, OpsAstEq.addmod_u64_eq]

/-- `bool(a0 == a1)`, SSE build, `uint64_t`: `eqmod<uint64_t, sse>::operator()<__m128i>` — GCC's vector `==` on two 64-bit lanes,
`_mm_load_si128` / `_mm_store_si128` into `tmp[2]`, `is_eqmod` true: every heap -/
theorem tobool_eq_sse_u64_eq (c : Ctx) (hl : c.l = .w64) (S : Sizes c) (m : Store) (tmp : List Nat) (htmp : tmp.length = 2) (a0 a1 : Nat) :
    exprToBool c .sse m (.eq (.leaf a0) (.leaf a1)) = some (tobool_eq_sse_u64 c.deg c.nmod c.p (pnOf c) m tmp a0 a1) := by
  refine tobool_tie_sse_u64 c hl .sse m _ rfl S rfl tmp htmp _ ?_
  intro cm hcm j hj
  have hidx : cm * c.deg + j < 2 ^ 64 := Nat.lt_trans (idx_lt hcm (by omega)) S.n
  rw [rootWord_eq_sse64 c hl, rootWord_eq_sse64 c hl]
  expr_ast_unfold
  simp only [idx_eq hidx, mm_load_u64, vecEq64_two, loadElem, Nat.add_zero, Nat.add_assoc]
  rfl

/-- `bool(a0 != a1)`, SSE build, `uint64_t` -/
theorem tobool_neq_sse_u64_eq (c : Ctx) (hl : c.l = .w64) (S : Sizes c) (m : Store) (tmp : List Nat) (htmp : tmp.length = 2) (a0 a1 : Nat) :
    exprToBool c .sse m (.neq (.leaf a0) (.leaf a1)) = some (tobool_neq_sse_u64 c.deg c.nmod c.p (pnOf c) m tmp a0 a1) := by
  refine tobool_tie_sse_u64 c hl .sse m _ rfl S rfl tmp htmp _ ?_
  intro cm hcm j hj
  have hidx : cm * c.deg + j < 2 ^ 64 := Nat.lt_trans (idx_lt hcm (by omega)) S.n
  rw [rootWord_neq_sse64 c hl, rootWord_neq_sse64 c hl]
  expr_ast_unfold
  simp only [idx_eq hidx, mm_load_u64, vecNeq64_two, loadElem, Nat.add_zero, Nat.add_assoc]
  rfl

/-- `bool((a0 + a1) == a2)`, SSE build, `uint64_t`: `addmod<uint64_t, sse>` inherits the serial functor, so `operator==` tags the comparison
`serial` and the conversion runs element-wise with the scalar functors (the resolved data shows it) -/
theorem tobool_addeq_sse_u64_eq (c : Ctx) (hl : c.l = .w64) (S : Sizes c) (m : Store) (hm : InRange c.w m) (tmp : List Nat) (htmp : tmp.length = 1)
    (a0 a1 a2 : Nat) :
    exprToBool c .sse m (.eq (.add (.leaf a0) (.leaf a1)) (.leaf a2)) = some (tobool_addeq_sse_u64 c.deg c.nmod c.p (pnOf c) m tmp a0 a1 a2) := by
  have hw := w_of_64 hl
  refine tobool_tie_serial c .sse m _ rfl S (by rw [hl]; rfl) tmp htmp _ ?_
  intro cm hcm i hi
  have hidx := Nat.lt_trans (idx_lt hcm hi) S.n
  have hrd := fun h k => InRange.rd hm h k
  have hp := S.p
  rw [hw] at hrd hp
  rw [rootWord_eq_serial]
  expr_ast_unfold
  simp only [loadCell_eq_rd, idx_eq hidx, ofBool_eqU, loadElem, hw, hrd, hp, OpsAstEq.addmod_u64_eq]

/-! ## §9 the resolved data of the new instances -/

theorem resolved_fma_avx2_u16_ok : resolved_fma_avx2_u16.ok = true := by decide
theorem resolved_tobool_eq_serial_u32_ok : resolved_tobool_eq_serial_u32.ok = true := by decide
theorem resolved_tobool_neq_serial_u32_ok : resolved_tobool_neq_serial_u32.ok = true := by decide
theorem resolved_tobool_addeq_serial_u32_ok : resolved_tobool_addeq_serial_u32.ok = true := by decide
theorem resolved_tobool_eq_serial_u64_ok : resolved_tobool_eq_serial_u64.ok = true := by decide
theorem resolved_tobool_neq_serial_u64_ok : resolved_tobool_neq_serial_u64.ok = true := by decide
theorem resolved_tobool_addeq_serial_u64_ok : resolved_tobool_addeq_serial_u64.ok = true := by decide
theorem resolved_tobool_eq_sse_u64_ok : resolved_tobool_eq_sse_u64.ok = true := by decide
theorem resolved_tobool_neq_sse_u64_ok : resolved_tobool_neq_sse_u64.ok = true := by decide
theorem resolved_tobool_addeq_sse_u64_ok : resolved_tobool_addeq_sse_u64.ok = true := by decide

/-- the AVX2 instance runs 8 lanes wide in SSE registers: the fused product carries the AVX2 tag (2) and `simd_mode` SSE (1), the sum the SSE tag,
`store` is `simd::sse::store`, `vector_size` = 16 / sizeof(uint16_t) -/
theorem resolved_fma_avx2_u16_data :
    resolved_fma_avx2_u16.ty = .node2 .addmod 1 1 .poly (.node3 .mulmod_shoup 2 1 .poly .poly .poly) ∧
    resolved_fma_avx2_u16.storeMode = 1 ∧ resolved_fma_avx2_u16.vectorSize = 8 ∧ resolved_fma_avx2_u16.fused = 1 := by decide

/-- not vacuous: the AVX2 data with 16 lanes, or the SSE comparison of a sum tagged `sse`, is rejected -/
example : ({ resolved_fma_avx2_u16 with vectorSize := 16 } : Resolved).ok = false ∧
    ({ resolved_tobool_addeq_sse_u64 with storeMode := 1, vectorSize := 2 } : Resolved).ok = false ∧
    ({ resolved_tobool_eq_sse_u64 with vectorSize := 1 } : Resolved).ok = false := by decide

end Nfl.ExprAst
