/-
The definitions that `tools/gen_ops_ast.py` regenerates from clang's AST of `include/nfl/ops.hpp` and
`include/nfl/opt/ops.hpp` (`Generated/OpsAst.lean`) are EQUAL to the hand-written model `Model/Ops.lean`,
for all arguments in the ranges of their C types.  Hypotheses are only those ranges (and `0 < p` for
`compute_shoup`, see there).  Core tactics only (`simp only`, `omega`, `split`, induction).
-/
import NflVerif.Generated.OpsAst
import NflVerif.Model.Ops

namespace Nfl.OpsAstEq
open Nfl Nfl.CSem

/-! ### the CSem helpers on in-range arguments -/

theorem castU_of_lt {k a : Nat} (h : a < 2 ^ k) : castU k a = a := Nat.mod_eq_of_lt h
theorem castU_eq (k a : Nat) : castU k a = a % 2 ^ k := rfl
theorem castUS_of_lt {k a : Nat} (h : a < 2 ^ 32) : castUS k a = a := Nat.mod_eq_of_lt h

theorem castSU_of_lt {k a : Nat} (h : a < 2 ^ 31) : castSU k a = a % 2 ^ k := by
  unfold castSU
  have h1 : a % 2 ^ 32 = a := Nat.mod_eq_of_lt (by omega)
  rw [h1, if_pos h]

theorem castSU_zero (k : Nat) : castSU k 0 = 0 := by
  rw [castSU_of_lt (by omega)]; exact Nat.zero_mod _

/-- `int → unsigned int` is the identity on residues -/
theorem castSU_32 {a : Nat} (h : a < 2 ^ 32) : castSU 32 a = a := by
  unfold castSU
  have h1 : a % 2 ^ 32 = a := Nat.mod_eq_of_lt h
  rw [h1]; split <;> omega

theorem addU_eq (k a b : Nat) : addU k a b = (a + b) % 2 ^ k := rfl
theorem mulU_eq (k a b : Nat) : mulU k a b = (a * b) % 2 ^ k := rfl
theorem geU_eq (a b : Nat) : geU a b = decide (b ≤ a) := rfl

theorem subU_of_le {k a b : Nat} (hb : b ≤ a) (ha : a < 2 ^ k) : subU k a b = a - b := by
  unfold subU
  have : a + 2 ^ k - b = (a - b) + 2 ^ k := by omega
  rw [this, Nat.add_mod_right]; exact Nat.mod_eq_of_lt (by omega)

theorem subU_zero {k a : Nat} (ha : a < 2 ^ k) : subU k a 0 = a := by
  rw [subU_of_le (Nat.zero_le _) ha]; rfl

theorem subU_eq_subWrap {k a b : Nat} (ha : a < 2 ^ k) (hb : b < 2 ^ k) : subU k a b = subWrap (2 ^ k) a b := by
  unfold subU subWrap; rw [Nat.mod_eq_of_lt ha, Nat.mod_eq_of_lt hb]

theorem divU_of_lt {k a : Nat} (b : Nat) (ha : a < 2 ^ k) : divU k a b = a / b := by
  unfold divU; exact Nat.mod_eq_of_lt (Nat.lt_of_le_of_lt (Nat.div_le_self _ _) ha)

theorem modU_of_lt {k a : Nat} (b : Nat) (ha : a < 2 ^ k) : modU k a b = a % b := by
  unfold modU; exact Nat.mod_eq_of_lt (Nat.lt_of_le_of_lt (Nat.mod_le _ _) ha)

theorem shrU_of_lt {k a : Nat} (s : Nat) (ha : a < 2 ^ k) : shrU k a s = a / 2 ^ s := by
  unfold shrU; exact Nat.mod_eq_of_lt (Nat.lt_of_le_of_lt (Nat.div_le_self _ _) ha)

theorem shlU_eq (k a s : Nat) : shlU k a s = (a * 2 ^ s) % 2 ^ k := rfl

theorem addS32_of_lt {a b : Nat} (h : a + b < 2 ^ 32) : addS32 a b = a + b := Nat.mod_eq_of_lt h

theorem subS32_of_le {a b : Nat} (hb : b ≤ a) (ha : a < 2 ^ 32) : subS32 a b = a - b := by
  unfold subS32
  rw [Nat.mod_eq_of_lt ha, Nat.mod_eq_of_lt (Nat.lt_of_le_of_lt hb ha)]
  have : a + 2 ^ 32 - b = (a - b) + 2 ^ 32 := by omega
  rw [this, Nat.add_mod_right]; exact Nat.mod_eq_of_lt (by omega)

theorem subS32_eq_subWrap (a b : Nat) : subS32 a b = subWrap (2 ^ 32) a b := rfl

theorem mulS32_eq (a b : Nat) : mulS32 a b = (a * b) % 2 ^ 32 := rfl

theorem geS32_of_lt {a b : Nat} (ha : a < 2 ^ 31) (hb : b < 2 ^ 31) : geS32 a b = decide (b ≤ a) := by
  unfold geS32 bias
  have h1 : (a + 2 ^ 31) % 2 ^ 32 = a + 2 ^ 31 := Nat.mod_eq_of_lt (by omega)
  have h2 : (b + 2 ^ 31) % 2 ^ 32 = b + 2 ^ 31 := Nat.mod_eq_of_lt (by omega)
  rw [h1, h2]
  by_cases h : b ≤ a
  · rw [decide_eq_true h, decide_eq_true (by omega : b + 2 ^ 31 ≤ a + 2 ^ 31)]
  · rw [decide_eq_false h, decide_eq_false (by omega : ¬ b + 2 ^ 31 ≤ a + 2 ^ 31)]

theorem subWrap_mod_left (M a b : Nat) : subWrap M (a % M) b = subWrap M a b := by
  unfold subWrap; rw [Nat.mod_mod]

theorem subWrap_mod_right (M a b : Nat) : subWrap M a (b % M) = subWrap M a b := by
  unfold subWrap; rw [Nat.mod_mod]

theorem subWrap_lt {M : Nat} (hM : 0 < M) (a b : Nat) : subWrap M a b < M := Nat.mod_lt _ hM

/-- `if (r >= p) r -= p;` / `r - ((r >= p) ? p : 0)` in an unsigned type -/
theorem condsub_U {k r p : Nat} (hr : r < 2 ^ k) :
    (if geU r p = true then subU k r p else r) = if p ≤ r then r - p else r := by
  rw [geU_eq]
  by_cases h : p ≤ r
  · rw [decide_eq_true h, if_pos rfl, if_pos h, subU_of_le h hr]
  · rw [decide_eq_false h, if_neg (by decide), if_neg h]

theorem condsub_U' {k r p : Nat} (hr : r < 2 ^ k) :
    subU k r (if geU r p = true then p else 0) = if p ≤ r then r - p else r := by
  rw [geU_eq]
  by_cases h : p ≤ r
  · rw [decide_eq_true h, if_pos rfl, if_pos h, subU_of_le h hr]
  · rw [decide_eq_false h, if_neg (by decide), if_neg h, subU_zero hr]

/-! ### addmod, submod -/

theorem addmod_u16_eq (p x y : Nat) (hp : p < 2 ^ 16) (hx : x < 2 ^ 16) (hy : y < 2 ^ 16) :
    Gen.addmod_u16 p x y = Nfl.addmod 16 p x y := by
  have hz : (x + y) % 2 ^ 16 < 2 ^ 16 := Nat.mod_lt _ (by omega)
  simp (disch := omega) only [Gen.addmod_u16, Nfl.addmod, castUS_of_lt, addS32_of_lt, castSU_of_lt, geS32_of_lt]
  by_cases h : p ≤ (x + y) % 2 ^ 16
  · rw [decide_eq_true h, if_pos rfl, if_pos h, subS32_of_le h (by omega), castSU_of_lt (by omega)]
    exact Nat.mod_eq_of_lt (by omega)
  · rw [decide_eq_false h, if_neg (by decide), if_neg h, subS32_of_le (Nat.zero_le _) (by omega), castSU_of_lt (by omega)]
    exact Nat.mod_eq_of_lt (by omega)

theorem addmod_u32_eq (p x y : Nat) (_hp : p < 2 ^ 32) (_hx : x < 2 ^ 32) (_hy : y < 2 ^ 32) :
    Gen.addmod_u32 p x y = Nfl.addmod 32 p x y := by
  have hz : (x + y) % 2 ^ 32 < 2 ^ 32 := Nat.mod_lt _ (by omega)
  simp only [Gen.addmod_u32, Nfl.addmod, addU_eq, castSU_zero]
  exact condsub_U' hz

theorem addmod_u64_eq (p x y : Nat) (_hp : p < 2 ^ 64) (_hx : x < 2 ^ 64) (_hy : y < 2 ^ 64) :
    Gen.addmod_u64 p x y = Nfl.addmod 64 p x y := by
  have hz : (x + y) % 2 ^ 64 < 2 ^ 64 := Nat.mod_lt _ (by omega)
  simp only [Gen.addmod_u64, Nfl.addmod, addU_eq, castSU_zero]
  exact condsub_U' hz

theorem submod_u16_eq (p x y : Nat) (hp : p < 2 ^ 16) (hx : x < 2 ^ 16) (hy : y < 2 ^ 16) :
    Gen.submod_u16 p x y = Nfl.submod 16 p x y := by
  simp (disch := omega) only [Gen.submod_u16, Nfl.submod, castUS_of_lt]
  have key : castSU 16 (subS32 p y) = subWrap (2 ^ 16) p y := by
    unfold subWrap
    rw [Nat.mod_eq_of_lt hp, Nat.mod_eq_of_lt hy]
    by_cases h : y ≤ p
    · rw [subS32_of_le h (by omega), castSU_of_lt (by omega)]; omega
    · unfold subS32 castSU
      rw [Nat.mod_eq_of_lt (by omega : p < 2 ^ 32), Nat.mod_eq_of_lt (by omega : y < 2 ^ 32)]
      have h1 : (p + 2 ^ 32 - y) % 2 ^ 32 = p + 2 ^ 32 - y := Nat.mod_eq_of_lt (by omega)
      rw [h1, Nat.mod_eq_of_lt (by omega : p + 2 ^ 32 - y < 2 ^ 32), if_neg (by omega)]
      omega
  rw [key]
  exact addmod_u16_eq p x _ hp hx (subWrap_lt (by omega) _ _)

theorem submod_u32_eq (p x y : Nat) (hp : p < 2 ^ 32) (hx : x < 2 ^ 32) (hy : y < 2 ^ 32) :
    Gen.submod_u32 p x y = Nfl.submod 32 p x y := by
  simp only [Gen.submod_u32, Nfl.submod]
  rw [subU_eq_subWrap hp hy]
  exact addmod_u32_eq p x _ hp hx (subWrap_lt (by omega) _ _)

theorem submod_u64_eq (p x y : Nat) (hp : p < 2 ^ 64) (hx : x < 2 ^ 64) (hy : y < 2 ^ 64) :
    Gen.submod_u64 p x y = Nfl.submod 64 p x y := by
  simp only [Gen.submod_u64, Nfl.submod]
  rw [subU_eq_subWrap hp hy]
  exact addmod_u64_eq p x _ hp hx (subWrap_lt (by omega) _ _)

/-! ### compute_shoup -/

theorem subLoop_eq_mod' {p : Nat} (hp : 0 < p) : ∀ (fuel x : Nat), x ≤ fuel → subLoop fuel x p = x % p
  | 0, x, h => by
    have : x = 0 := by omega
    subst this; simp [subLoop]
  | fuel + 1, x, h => by
    unfold subLoop
    by_cases hx : p ≤ x
    · rw [if_pos hx, subLoop_eq_mod' hp fuel (x - p) (by omega)]
      exact (Nat.mod_eq_sub_mod hx).symm
    · rw [if_neg hx]; exact (Nat.mod_eq_of_lt (by omega)).symm

/-- the translated `while (x >= p) x -= p;` computes `x % p` (any condition / body that agree with
`x >= p` / `x - p` on the values of the type) -/
theorem whileFuel_subloop {w p : Nat} (hp : 0 < p) (c : Nat → Bool) (body : Nat → Nat)
    (hc : ∀ x, x < 2 ^ w → c x = decide (p ≤ x)) (hb : ∀ x, x < 2 ^ w → p ≤ x → body x = x - p) :
    ∀ (fuel x : Nat), x ≤ fuel → x < 2 ^ w → whileFuel c body fuel x = x % p
  | 0, x, h, _ => by
    have : x = 0 := by omega
    subst this; simp [whileFuel]
  | fuel + 1, x, h, hx => by
    unfold whileFuel
    rw [hc x hx]
    by_cases hpx : p ≤ x
    · rw [decide_eq_true hpx, if_pos rfl, hb x hx hpx,
        whileFuel_subloop hp c body hc hb fuel (x - p) (by omega) (by omega)]
      exact (Nat.mod_eq_sub_mod hpx).symm
    · rw [decide_eq_false hpx, if_neg (by decide)]; exact (Nat.mod_eq_of_lt (by omega)).symm

/-- the last line of `compute_shoup`, both sides after the loop -/
theorem shoup_tail {w x' p : Nat} (hx' : x' < 2 ^ w) (hp : p < 2 ^ w) :
    castU w (divU (w + w) (shlU (w + w) (castU (w + w) x') w) (castU (w + w) p)) =
      ((x' * 2 ^ w) % 2 ^ (w + w) / p) % 2 ^ w := by
  have hww : 2 ^ w ≤ 2 ^ (w + w) := Nat.pow_le_pow_right (by omega) (by omega)
  rw [castU_of_lt (Nat.lt_of_lt_of_le hx' hww), castU_of_lt (Nat.lt_of_lt_of_le hp hww), shlU_eq,
    divU_of_lt _ (Nat.mod_lt _ (Nat.two_pow_pos _)), castU_eq]

/-- `0 < p` is needed: for `p = 0` the C++ loop `while (x >= 0) x -= 0;` does not terminate (and the division
that follows is undefined), so the fuel-bounded translation has no meaning there. -/
theorem compute_shoup_u16_eq (p x : Nat) (hp0 : 0 < p) (hp : p < 2 ^ 16) (hx : x < 2 ^ 16) :
    Gen.compute_shoup_u16 p x = Nfl.computeShoup 16 p x := by
  have hloop := whileFuel_subloop (w := 16) hp0
    (fun x => geS32 (castUS 16 x) (castUS 16 p)) (fun x => castSU 16 (subS32 (castUS 16 x) (castUS 16 p)))
    (fun x hx => by simp (disch := omega) only [castUS_of_lt, geS32_of_lt])
    (fun x hx hpx => by
      simp (disch := omega) only [castUS_of_lt]
      rw [subS32_of_le hpx (by omega), castSU_of_lt (by omega)]; exact Nat.mod_eq_of_lt (by omega))
    (2 ^ 16) x (by omega) hx
  have hm : x % p < 2 ^ 16 := Nat.lt_of_le_of_lt (Nat.mod_le _ _) hx
  simp only [Gen.compute_shoup_u16, Nfl.computeShoup]
  rw [hloop, subLoop_eq_mod' hp0 x x (Nat.le_refl _)]
  exact shoup_tail (w := 16) hm hp

theorem compute_shoup_u32_eq (p x : Nat) (hp0 : 0 < p) (hp : p < 2 ^ 32) (hx : x < 2 ^ 32) :
    Gen.compute_shoup_u32 p x = Nfl.computeShoup 32 p x := by
  have hloop := whileFuel_subloop (w := 32) hp0 (fun x => geU x p) (fun x => subU 32 x p)
    (fun x _ => geU_eq x p) (fun x hx hpx => subU_of_le hpx hx) (2 ^ 32) x (by omega) hx
  have hm : x % p < 2 ^ 32 := Nat.lt_of_le_of_lt (Nat.mod_le _ _) hx
  simp only [Gen.compute_shoup_u32, Nfl.computeShoup]
  rw [hloop, subLoop_eq_mod' hp0 x x (Nat.le_refl _)]
  exact shoup_tail (w := 32) hm hp

theorem compute_shoup_u64_eq (p x : Nat) (hp0 : 0 < p) (hp : p < 2 ^ 64) (hx : x < 2 ^ 64) :
    Gen.compute_shoup_u64 p x = Nfl.computeShoup 64 p x := by
  have hloop := whileFuel_subloop (w := 64) hp0 (fun x => geU x p) (fun x => subU 64 x p)
    (fun x _ => geU_eq x p) (fun x hx hpx => subU_of_le hpx hx) (2 ^ 64) x (by omega) hx
  have hm : x % p < 2 ^ 64 := Nat.lt_of_le_of_lt (Nat.mod_le _ _) hx
  simp only [Gen.compute_shoup_u64, Nfl.computeShoup]
  rw [hloop, subLoop_eq_mod' hp0 x x (Nat.le_refl _)]
  exact shoup_tail (w := 64) hm hp

/-! ### mulmod (division), muladd (division) -/

theorem mul_lt_sq {w x y : Nat} (hx : x < 2 ^ w) (hy : y < 2 ^ w) : x * y < 2 ^ (w + w) := by
  rw [Nat.pow_add]; exact Nat.mul_lt_mul'' hx hy

theorem mulmodDiv_tail {w p x y : Nat} (hp : p < 2 ^ w) (hx : x < 2 ^ w) (hy : y < 2 ^ w) :
    castU w (modU (w + w) (mulU (w + w) (castU (w + w) x) (castU (w + w) y)) (castU (w + w) p)) =
      ((x * y) % 2 ^ (w + w) % p) % 2 ^ w := by
  have hww : 2 ^ w ≤ 2 ^ (w + w) := Nat.pow_le_pow_right (by omega) (by omega)
  rw [castU_of_lt (Nat.lt_of_lt_of_le hx hww), castU_of_lt (Nat.lt_of_lt_of_le hy hww),
    castU_of_lt (Nat.lt_of_lt_of_le hp hww), mulU_eq, modU_of_lt _ (Nat.mod_lt _ (Nat.two_pow_pos _)), castU_eq]

theorem mulmod_u16_eq (p x y : Nat) (hp : p < 2 ^ 16) (hx : x < 2 ^ 16) (hy : y < 2 ^ 16) :
    Gen.mulmod_u16 p x y = Nfl.mulmodDiv 16 p x y := by
  simp only [Gen.mulmod_u16, Nfl.mulmodDiv]
  exact mulmodDiv_tail (w := 16) hp hx hy

theorem mulmod_u32_eq (p x y : Nat) (hp : p < 2 ^ 32) (hx : x < 2 ^ 32) (hy : y < 2 ^ 32) :
    Gen.mulmod_u32 p x y = Nfl.mulmodDiv 32 p x y := by
  simp only [Gen.mulmod_u32, Nfl.mulmodDiv]
  exact mulmodDiv_tail (w := 32) hp hx hy

theorem muladdDiv_tail {w p rop x y : Nat} (hp : p < 2 ^ w) (hr : rop < 2 ^ w) (hx : x < 2 ^ w) (hy : y < 2 ^ w) :
    castU w (modU (w + w) (addU (w + w) (mulU (w + w) (castU (w + w) x) (castU (w + w) y)) (castU (w + w) rop))
      (castU (w + w) p)) = (((x * y) % 2 ^ (w + w) + rop) % 2 ^ (w + w) % p) % 2 ^ w := by
  have hww : 2 ^ w ≤ 2 ^ (w + w) := Nat.pow_le_pow_right (by omega) (by omega)
  rw [castU_of_lt (Nat.lt_of_lt_of_le hx hww), castU_of_lt (Nat.lt_of_lt_of_le hy hww),
    castU_of_lt (Nat.lt_of_lt_of_le hp hww), castU_of_lt (Nat.lt_of_lt_of_le hr hww), mulU_eq, addU_eq,
    modU_of_lt _ (Nat.mod_lt _ (Nat.two_pow_pos _)), castU_eq]

theorem muladd_u16_eq (p rop x y : Nat) (hp : p < 2 ^ 16) (hr : rop < 2 ^ 16) (hx : x < 2 ^ 16) (hy : y < 2 ^ 16) :
    Gen.muladd_u16 p rop x y = Nfl.muladdDiv 16 p rop x y := by
  simp only [Gen.muladd_u16, Nfl.muladdDiv]
  exact muladdDiv_tail (w := 16) hp hr hx hy

theorem muladd_u32_eq (p rop x y : Nat) (hp : p < 2 ^ 32) (hr : rop < 2 ^ 32) (hx : x < 2 ^ 32) (hy : y < 2 ^ 32) :
    Gen.muladd_u32 p rop x y = Nfl.muladdDiv 32 p rop x y := by
  simp only [Gen.muladd_u32, Nfl.muladdDiv]
  exact muladdDiv_tail (w := 32) hp hr hx hy

/-! ### 64-bit Barrett: mulmod<uint64_t>, muladd<uint64_t> -/

/-- the statements `res = …; q = …; r = …; if (r >= p) r -= p;` shared by both 64-bit functors -/
theorem barrett_u64 (p pn x y : Nat) (hp : p < 2 ^ 64) (hpn : pn < 2 ^ 64) (hx : x < 2 ^ 64) (hy : y < 2 ^ 64) :
    (let res := mulU 128 (castU 128 x) (castU 128 y)
     let q := addU 128 (mulU 128 (castU 128 pn) (shrU 128 res 64)) (shlU 128 res 2)
     let r := castU 64 (subU 128 res (mulU 128 (shrU 128 q 64) (castU 128 p)))
     if geU r p = true then subU 64 r p else r) = Nfl.barrett64 p pn x y := by
  have h128 : (0 : Nat) < 2 ^ 128 := Nat.two_pow_pos _
  have e4 : (2 : Nat) ^ 2 = 4 := rfl
  simp only [Nfl.barrett64]
  rw [castU_of_lt (by omega : x < 2 ^ 128), castU_of_lt (by omega : y < 2 ^ 128),
    castU_of_lt (by omega : pn < 2 ^ 128), castU_of_lt (by omega : p < 2 ^ 128)]
  simp only [mulU_eq, addU_eq, shlU_eq, e4]
  rw [shrU_of_lt 64 (Nat.mod_lt _ h128), shrU_of_lt 64 (Nat.mod_lt _ h128),
    subU_eq_subWrap (Nat.mod_lt _ h128) (Nat.mod_lt _ h128), castU_eq]
  exact condsub_U (Nat.mod_lt _ (Nat.two_pow_pos _))

theorem mulmod_u64_eq (p pn x y : Nat) (hp : p < 2 ^ 64) (hpn : pn < 2 ^ 64) (hx : x < 2 ^ 64) (hy : y < 2 ^ 64) :
    Gen.mulmod_u64 p pn x y = Nfl.mulmod64 p pn x y := by
  simp only [Gen.mulmod_u64, Nfl.mulmod64]
  exact barrett_u64 p pn x y hp hpn hx hy

theorem muladd_u64_eq (p pn rop x y : Nat) (hp : p < 2 ^ 64) (hpn : pn < 2 ^ 64) (_hr : rop < 2 ^ 64)
    (hx : x < 2 ^ 64) (hy : y < 2 ^ 64) :
    Gen.muladd_u64 p pn rop x y = Nfl.muladd64 p pn rop x y := by
  have hb := barrett_u64 p pn x y hp hpn hx hy
  simp only [Gen.muladd_u64, Nfl.muladd64] at hb ⊢
  rw [hb, addU_eq]
  exact condsub_U (Nat.mod_lt _ (Nat.two_pow_pos _))

/-! ### mulmod_shoup, muladd_shoup -/

theorem arithWidth_16 : arithWidth 16 = 32 := rfl
theorem arithWidth_32 : arithWidth 32 = 32 := rfl
theorem arithWidth_64 : arithWidth 64 = 64 := rfl

/-- `T q = ((greater_value_type) x * yprime) >> w;` -/
theorem shoupQ_tail {w W x yp : Nat} (hW : 2 ^ w ≤ 2 ^ W) (hx : x < 2 ^ w) (hy : yp < 2 ^ w) :
    castU w (shrU W (mulU W (castU W x) (castU W yp)) w) = ((x * yp) % 2 ^ W / 2 ^ w) % 2 ^ w := by
  rw [castU_of_lt (Nat.lt_of_lt_of_le hx hW), castU_of_lt (Nat.lt_of_lt_of_le hy hW), mulU_eq,
    shrU_of_lt _ (Nat.mod_lt _ (Nat.two_pow_pos _)), castU_eq]

theorem ite_mod_of_lt {M p d : Nat} (hd : d < M) : (if p ≤ d then d - p else d) % M = if p ≤ d then d - p else d := by
  apply Nat.mod_eq_of_lt; split <;> omega

/-- `x * y - q * p` in `T` (32/64 bit) -/
theorem diff_U {w x y q p : Nat} : subU w (mulU w x y) (mulU w q p) = subWrap (2 ^ w) (x * y) (q * p) := by
  rw [mulU_eq, mulU_eq, subU_eq_subWrap (Nat.mod_lt _ (Nat.two_pow_pos _)) (Nat.mod_lt _ (Nat.two_pow_pos _)),
    subWrap_mod_left, subWrap_mod_right]

/-- `x * y - q * p` in `int` (16 bit operands) -/
theorem diff_S {x y q p : Nat} (hx : x < 2 ^ 16) (hy : y < 2 ^ 16) (hq : q < 2 ^ 16) (hp : p < 2 ^ 16) :
    subS32 (mulS32 (castUS 16 x) (castUS 16 y)) (mulS32 (castUS 16 q) (castUS 16 p)) =
      subWrap (2 ^ 32) (x * y) (q * p) := by
  rw [castUS_of_lt (by omega : x < 2 ^ 32), castUS_of_lt (by omega : y < 2 ^ 32), castUS_of_lt (by omega : q < 2 ^ 32),
    castUS_of_lt (by omega : p < 2 ^ 32), mulS32_eq, mulS32_eq, subS32_eq_subWrap, subWrap_mod_left, subWrap_mod_right]

/-- the last line of the model `mulmodShoup`, as a function of the difference `d = x*y - q*p` -/
def shoupRet (w p d : Nat) : Nat := (if p ≤ d then d - p else d) % 2 ^ w
/-- the last two lines of the model `muladdShoup`, as a function of the difference `d = x*y - q*p` -/
def lazyRet (w p rop d : Nat) : Nat :=
  (if p ≤ (rop + d) % 2 ^ w then (rop + d) % 2 ^ w - p else (rop + d) % 2 ^ w) % 2 ^ w

theorem mulmodShoup_def16 (p x y yp : Nat) : Nfl.mulmodShoup 16 p x y yp =
    shoupRet 16 p (subWrap (2 ^ 32) (x * y) (((x * yp) % 2 ^ 32 / 2 ^ 16) % 2 ^ 16 * p)) := rfl
theorem mulmodShoup_def32 (p x y yp : Nat) : Nfl.mulmodShoup 32 p x y yp =
    shoupRet 32 p (subWrap (2 ^ 32) (x * y) (((x * yp) % 2 ^ 64 / 2 ^ 32) % 2 ^ 32 * p)) := rfl
theorem mulmodShoup_def64 (p x y yp : Nat) : Nfl.mulmodShoup 64 p x y yp =
    shoupRet 64 p (subWrap (2 ^ 64) (x * y) (((x * yp) % 2 ^ 128 / 2 ^ 64) % 2 ^ 64 * p)) := rfl
theorem muladdShoup_def16 (p rop x y yp : Nat) : Nfl.muladdShoup 16 p rop x y yp =
    lazyRet 16 p rop (subWrap (2 ^ 32) (x * y) (((x * yp) % 2 ^ 32 / 2 ^ 16) % 2 ^ 16 * p)) := rfl
theorem muladdShoup_def32 (p rop x y yp : Nat) : Nfl.muladdShoup 32 p rop x y yp =
    lazyRet 32 p rop (subWrap (2 ^ 32) (x * y) (((x * yp) % 2 ^ 64 / 2 ^ 32) % 2 ^ 32 * p)) := rfl
theorem muladdShoup_def64 (p rop x y yp : Nat) : Nfl.muladdShoup 64 p rop x y yp =
    lazyRet 64 p rop (subWrap (2 ^ 64) (x * y) (((x * yp) % 2 ^ 128 / 2 ^ 64) % 2 ^ 64 * p)) := rfl

/-- `return res - ((res>=p) ? p : 0);` with `res` in the greater type `W`, result truncated to `T` (32/64 bit) -/
theorem shoup_ret_U {w W p : Nat} (hW : 2 ^ w ≤ 2 ^ W) (hp : p < 2 ^ w) (d : Nat) (hd : d < 2 ^ w) :
    castU w (subU W (castU W d) (castU W (if geU (castU W d) (castU W p) = true then p else castSU w 0))) =
      shoupRet w p d := by
  unfold shoupRet
  have hdW : d < 2 ^ W := Nat.lt_of_lt_of_le hd hW
  rw [castU_of_lt hdW, castU_of_lt (Nat.lt_of_lt_of_le hp hW), castSU_zero, geU_eq]
  by_cases h : p ≤ d
  · rw [decide_eq_true h, if_pos rfl, if_pos h, castU_of_lt (Nat.lt_of_lt_of_le hp hW), subU_of_le h hdW, castU_eq]
  · rw [decide_eq_false h, if_neg (by decide), if_neg h, castU_of_lt (Nat.two_pow_pos _), subU_zero hdW, castU_eq]

/-- the same in the 16-bit instantiation (`res` is `unsigned int`, the conditional is an `int`) -/
theorem shoup_ret_16 {p : Nat} (hp : p < 2 ^ 16) (d : Nat) (hd32 : d < 2 ^ 32) :
    castU 16 (subU 32 (castSU 32 d) (castSU 32 (if geU (castSU 32 d) (castU 32 p) = true then castUS 16 p else 0))) =
      shoupRet 16 p d := by
  unfold shoupRet
  rw [castSU_32 hd32, castU_of_lt (by omega : p < 2 ^ 32), castUS_of_lt (by omega : p < 2 ^ 32), geU_eq]
  by_cases h : p ≤ d
  · rw [decide_eq_true h, if_pos rfl, if_pos h, castSU_32 (by omega), subU_of_le h hd32, castU_eq]
  · rw [decide_eq_false h, if_neg (by decide), if_neg h, castSU_zero, subU_zero hd32, castU_eq]

theorem mulmod_shoup_u32_eq (p x y yprime : Nat) (hp : p < 2 ^ 32) (hx : x < 2 ^ 32) (_hy : y < 2 ^ 32)
    (hyp : yprime < 2 ^ 32) : Gen.mulmod_shoup_u32 p x y yprime = Nfl.mulmodShoup 32 p x y yprime := by
  rw [mulmodShoup_def32]
  simp only [Gen.mulmod_shoup_u32]
  rw [shoupQ_tail (w := 32) (W := 64) (by omega) hx hyp, diff_U]
  exact shoup_ret_U (w := 32) (W := 64) (by omega) hp _ (subWrap_lt (Nat.two_pow_pos _) _ _)

theorem mulmod_shoup_u64_eq (p x y yprime : Nat) (hp : p < 2 ^ 64) (hx : x < 2 ^ 64) (_hy : y < 2 ^ 64)
    (hyp : yprime < 2 ^ 64) : Gen.mulmod_shoup_u64 p x y yprime = Nfl.mulmodShoup 64 p x y yprime := by
  rw [mulmodShoup_def64]
  simp only [Gen.mulmod_shoup_u64]
  rw [shoupQ_tail (w := 64) (W := 128) (by omega) hx hyp, diff_U]
  exact shoup_ret_U (w := 64) (W := 128) (by omega) hp _ (subWrap_lt (Nat.two_pow_pos _) _ _)

theorem mulmod_shoup_u16_eq (p x y yprime : Nat) (hp : p < 2 ^ 16) (hx : x < 2 ^ 16) (hy : y < 2 ^ 16)
    (hyp : yprime < 2 ^ 16) : Gen.mulmod_shoup_u16 p x y yprime = Nfl.mulmodShoup 16 p x y yprime := by
  rw [mulmodShoup_def16]
  simp only [Gen.mulmod_shoup_u16]
  rw [shoupQ_tail (w := 16) (W := 32) (by omega) hx hyp,
    diff_S hx hy (Nat.mod_lt _ (Nat.two_pow_pos _)) hp]
  exact shoup_ret_16 hp _ (subWrap_lt (Nat.two_pow_pos _) _ _)

/-- `return rop - ((rop>=p) ? p : 0);` on 16-bit operands promoted to `int` -/
theorem condsub_S16 {z p : Nat} (hz : z < 2 ^ 16) (hp : p < 2 ^ 16) :
    castSU 16 (subS32 (castUS 16 z) (if geS32 (castUS 16 z) (castUS 16 p) = true then castUS 16 p else 0)) =
      if p ≤ z then z - p else z := by
  rw [castUS_of_lt (by omega : z < 2 ^ 32), castUS_of_lt (by omega : p < 2 ^ 32), geS32_of_lt (by omega) (by omega)]
  by_cases h : p ≤ z
  · rw [decide_eq_true h, if_pos rfl, if_pos h, subS32_of_le h (by omega), castSU_of_lt (by omega)]
    exact Nat.mod_eq_of_lt (by omega)
  · rw [decide_eq_false h, if_neg (by decide), if_neg h, subS32_of_le (Nat.zero_le _) (by omega), castSU_of_lt (by omega)]
    exact Nat.mod_eq_of_lt (by omega)

/-- `int → uint16_t` keeps the low 16 bits of the residue -/
theorem castSU_16 {a : Nat} (h : a < 2 ^ 32) : castSU 16 a = a % 2 ^ 16 := by
  unfold castSU
  rw [Nat.mod_eq_of_lt h]; split <;> omega

/-- `rop += d; return rop - ((rop>=p) ? p : 0);` in `int` (16 bit operands), `d` an `int` residue -/
theorem lazy_ret_16 {p rop : Nat} (hp : p < 2 ^ 16) (hr : rop < 2 ^ 16) (d : Nat) :
    (fun rop' => castSU 16 (subS32 (castUS 16 rop') (if geS32 (castUS 16 rop') (castUS 16 p) = true then castUS 16 p else 0)))
      (castSU 16 (addS32 (castUS 16 rop) d)) = lazyRet 16 p rop d := by
  have e : castSU 16 (addS32 (castUS 16 rop) d) = (rop + d) % 2 ^ 16 := by
    have h32 : addS32 rop d < 2 ^ 32 := Nat.mod_lt _ (Nat.two_pow_pos _)
    rw [castUS_of_lt (by omega : rop < 2 ^ 32), castSU_16 h32]
    unfold addS32; omega
  unfold lazyRet
  rw [e]
  show castSU 16 (subS32 (castUS 16 ((rop + d) % 2 ^ 16))
    (if geS32 (castUS 16 ((rop + d) % 2 ^ 16)) (castUS 16 p) = true then castUS 16 p else 0)) = _
  rw [condsub_S16 (Nat.mod_lt _ (Nat.two_pow_pos _)) hp, ite_mod_of_lt (Nat.mod_lt _ (Nat.two_pow_pos _))]

/-- `rop += d; return rop - ((rop>=p) ? p : 0);` in `T` (32/64 bit) -/
theorem lazy_ret_U {w p rop : Nat} (d : Nat) :
    (fun rop' => subU w rop' (if geU rop' p = true then p else castSU w 0)) (addU w rop d) = lazyRet w p rop d := by
  unfold lazyRet
  show subU w (addU w rop d) (if geU (addU w rop d) p = true then p else castSU w 0) = _
  rw [addU_eq, castSU_zero, condsub_U' (Nat.mod_lt _ (Nat.two_pow_pos _)), ite_mod_of_lt (Nat.mod_lt _ (Nat.two_pow_pos _))]

theorem muladd_shoup_u16_eq (p rop x y yprime : Nat) (hp : p < 2 ^ 16) (hr : rop < 2 ^ 16) (hx : x < 2 ^ 16)
    (hy : y < 2 ^ 16) (hyp : yprime < 2 ^ 16) :
    Gen.muladd_shoup_u16 p rop x y yprime = Nfl.muladdShoup 16 p rop x y yprime := by
  rw [muladdShoup_def16]
  simp only [Gen.muladd_shoup_u16]
  rw [shoupQ_tail (w := 16) (W := 32) (by omega) hx hyp,
    diff_S hx hy (Nat.mod_lt _ (Nat.two_pow_pos _)) hp]
  exact lazy_ret_16 hp hr _

theorem muladd_shoup_u32_eq (p rop x y yprime : Nat) (_hp : p < 2 ^ 32) (_hr : rop < 2 ^ 32) (hx : x < 2 ^ 32)
    (_hy : y < 2 ^ 32) (hyp : yprime < 2 ^ 32) :
    Gen.muladd_shoup_u32 p rop x y yprime = Nfl.muladdShoup 32 p rop x y yprime := by
  rw [muladdShoup_def32]
  simp only [Gen.muladd_shoup_u32]
  rw [shoupQ_tail (w := 32) (W := 64) (by omega) hx hyp, diff_U]
  exact lazy_ret_U _

theorem muladd_shoup_u64_eq (p rop x y yprime : Nat) (_hp : p < 2 ^ 64) (_hr : rop < 2 ^ 64) (hx : x < 2 ^ 64)
    (_hy : y < 2 ^ 64) (hyp : yprime < 2 ^ 64) :
    Gen.muladd_shoup_u64 p rop x y yprime = Nfl.muladdShoup 64 p rop x y yprime := by
  rw [muladdShoup_def64]
  simp only [Gen.muladd_shoup_u64]
  rw [shoupQ_tail (w := 64) (W := 128) (by omega) hx hyp, diff_U]
  exact lazy_ret_U _

end Nfl.OpsAstEq
