/-
Mathematical layer of C01/C02: theorems about the definitions of `Proofs/DftDefs.lean`.

* `Dft1`: `bitrev_lt`, `bitrev_involutive`, `bitrevCode_eq_bitrev`, `dif_length`, list helpers
* `Dft2`: `dif_spec` (`dif_spec'` is the `Finset.sum` form), `nttSpec_eval`
* `Dft3`: `nttSpec_add`, `nttSpec_sub` (no root-of-unity hypothesis)
* `Dft4`: `negacyclic_eval`
* `Dft5`: `orthogonality`, `inv_ntt`, `ntt_inv`, `ntt_mul`

All results hold over an arbitrary commutative ring.
-/
import NflVerif.Proofs.Dft5
