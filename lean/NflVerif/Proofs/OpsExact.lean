/-
Exactness of the scalar functor models (`Model/Ops.lean`) — helper lemmas for C03.
All statements are for every operand (no bound on sizes other than the C types' ranges).
-/
import NflVerif.Model.Ops
import Mathlib.Tactic.Ring
import Mathlib.Tactic.Linarith
import Mathlib.Data.Nat.ModEq

namespace Nfl

theorem condsub_eq_mod {p r : Nat} (h : r < 2 * p) : (if p ≤ r then r - p else r) = r % p := by
  split
  · rename_i hp
    have : r = (r - p) + p := by omega
    conv_rhs => rw [this]
    rw [Nat.add_mod_right, Nat.mod_eq_of_lt (by omega)]
  · rw [Nat.mod_eq_of_lt (by omega)]

theorem subWrap_eq {M a b : Nat} (hab : b ≤ a) (hd : a - b < M) : subWrap M a b = a - b := by
  unfold subWrap
  have hM : 0 < M := by omega
  have hb : b % M < M := Nat.mod_lt _ hM
  have key : (a % M + M - b % M) + b ≡ (a - b) + b [MOD M] := by
    have e1 : (a % M + M - b % M) + b = a % M + M + (b - b % M) := by
      have := Nat.mod_le b M; omega
    have e2 : b - b % M = M * (b / M) := by
      have := Nat.div_add_mod b M; omega
    rw [e1, e2, Nat.sub_add_cancel hab]
    calc a % M + M + M * (b / M) ≡ a % M + 0 + 0 [MOD M] := by
          apply Nat.ModEq.add
          · apply Nat.ModEq.add (Nat.ModEq.refl _)
            exact (Nat.modEq_zero_iff_dvd.2 (dvd_refl M))
          · exact (Nat.modEq_zero_iff_dvd.2 (Dvd.intro _ rfl))
      _ = a % M := by simp
      _ ≡ a [MOD M] := Nat.mod_modEq _ _
  have := Nat.ModEq.add_right_cancel' b key
  unfold Nat.ModEq at this
  rw [this, Nat.mod_eq_of_lt hd]

section generic
variable {w p : Nat}

theorem addmod_exact (hp : 2 * p ≤ 2 ^ w) {x y : Nat} (hx : x < p) (hy : y < p) :
    addmod w p x y = (x + y) % p := by
  unfold addmod
  rw [Nat.mod_eq_of_lt (by omega : x + y < 2 ^ w)]
  exact condsub_eq_mod (by omega)

theorem addmod_lt (hp : 2 * p ≤ 2 ^ w) {x y : Nat} (hx : x < p) (hy : y < p) :
    addmod w p x y < p := by
  rw [addmod_exact hp hx hy]; exact Nat.mod_lt _ (by omega)

/-- `(x - y) mod p` as a natural number in `[0,p)` -/
def subSpec (p x y : Nat) : Nat := (x + (p - y % p)) % p

theorem submod_exact (hp : 2 * p ≤ 2 ^ w) {x y : Nat} (hx : x < p) (hy : y < p) :
    submod w p x y = (x + p - y) % p := by
  unfold submod
  have hs : subWrap (2 ^ w) p y = p - y := subWrap_eq (by omega) (by omega)
  rw [hs]
  unfold addmod
  rw [Nat.mod_eq_of_lt (by omega : x + (p - y) < 2 ^ w)]
  rw [condsub_eq_mod (by omega)]
  congr 1; omega

theorem submod_int (hp : 2 * p ≤ 2 ^ w) {x y : Nat} (hx : x < p) (hy : y < p) :
    ((submod w p x y : Nat) : Int) = ((x : Int) - y) % p := by
  rw [submod_exact hp hx hy]
  have h1 : ((x + p - y : Nat) : Int) = (x : Int) - y + p := by
    rw [Nat.cast_sub (by omega)]; push_cast; ring
  rw [Int.natCast_mod, h1, Int.add_emod_right]

theorem subLoop_eq_mod (hp : 0 < p) : ∀ (fuel x : Nat), x ≤ fuel → subLoop fuel x p = x % p
  | 0, x, h => by
    have : x = 0 := by omega
    subst this; simp [subLoop]
  | fuel + 1, x, h => by
    unfold subLoop
    split
    · rename_i hpx
      rw [subLoop_eq_mod hp fuel (x - p) (by omega)]
      conv_rhs => rw [show x = (x - p) + p by omega, Nat.add_mod_right]
    · rw [Nat.mod_eq_of_lt (by omega)]

/-- The precomputed quotient of *any* word `y` is `⌊(y mod p)·2^w / p⌋`. -/
theorem computeShoup_spec (hp0 : 0 < p) (hp : p ≤ 2 ^ w) (y : Nat) :
    computeShoup w p y = (y % p) * 2 ^ w / p := by
  unfold computeShoup
  simp only
  rw [subLoop_eq_mod hp0 y y (le_refl _)]
  have hy : y % p < p := Nat.mod_lt _ hp0
  have hW : 0 < 2 ^ w := Nat.pow_pos (by norm_num)
  have h1 : y % p * 2 ^ w < 2 ^ (2 * w) := by
    rw [two_mul, pow_add]
    exact Nat.mul_lt_mul_of_lt_of_le (by omega) (le_refl _) hW
  rw [Nat.mod_eq_of_lt h1]
  apply Nat.mod_eq_of_lt
  rw [Nat.div_lt_iff_lt_mul hp0]
  calc y % p * 2 ^ w < p * 2 ^ w := Nat.mul_lt_mul_of_lt_of_le hy (le_refl _) hW
    _ = 2 ^ w * p := Nat.mul_comm _ _

theorem mulmodDiv_exact (hp0 : 0 < p) (hp : p ≤ 2 ^ w) {x y : Nat} (hx : x < 2 ^ w) (hy : y < 2 ^ w) :
    mulmodDiv w p x y = x * y % p := by
  unfold mulmodDiv
  have h1 : x * y < 2 ^ (2 * w) := by
    rw [two_mul, pow_add]; exact Nat.mul_lt_mul'' hx hy
  rw [Nat.mod_eq_of_lt h1]
  exact Nat.mod_eq_of_lt (lt_of_lt_of_le (Nat.mod_lt _ hp0) hp)

/-- Shoup's lazy quotient: for every word `x` (not only `x < p`) and `y < p`, with
`y' = ⌊y·W/p⌋` and `q = ⌊x·y'/W⌋` we have `q·p ≤ x·y < q·p + 2p`. -/
theorem shoup_bounds {W : Nat} (hp0 : 0 < p) {x y : Nat} (hx : x < W) :
    let y' := y * W / p
    let q := x * y' / W
    q * p ≤ x * y ∧ x * y < q * p + 2 * p := by
  intro y' q
  have hW : 0 < W := by omega
  have h1 : y' * p ≤ y * W := Nat.div_mul_le_self _ _
  have h1' : y * W < p * (y' + 1) := Nat.lt_mul_div_succ (y * W) hp0
  have h2 : q * W ≤ x * y' := Nat.div_mul_le_self _ _
  have h2' : x * y' < W * (q + 1) := Nat.lt_mul_div_succ (x * y') hW
  constructor
  · have a1 : q * W * p ≤ x * y' * p := Nat.mul_le_mul_right p h2
    have a2 : x * (y' * p) ≤ x * (y * W) := Nat.mul_le_mul_left x h1
    have a3 : W * (q * p) ≤ W * (x * y) := by nlinarith
    exact Nat.le_of_mul_le_mul_left a3 hW
  · have b1 : x * (y * W) ≤ x * (p * (y' + 1)) := Nat.mul_le_mul_left x h1'.le
    have b2 : x * y' * p < W * (q + 1) * p := Nat.mul_lt_mul_of_pos_right h2' hp0
    have b3 : x * p < W * p := Nat.mul_lt_mul_of_pos_right hx hp0
    have b4 : W * (x * y) < W * (q * p + 2 * p) := by nlinarith
    exact Nat.lt_of_mul_lt_mul_left b4

theorem shoupQ_eq {w x yp : Nat} (hx : x < 2 ^ w) (hy : yp < 2 ^ w) :
    shoupQ w x yp = x * yp / 2 ^ w := by
  unfold shoupQ
  have h1 : x * yp < 2 ^ (2 * w) := by
    rw [two_mul, pow_add]; exact Nat.mul_lt_mul'' hx hy
  rw [Nat.mod_eq_of_lt h1]
  apply Nat.mod_eq_of_lt
  rw [Nat.div_lt_iff_lt_mul (Nat.two_pow_pos w)]
  rw [two_mul, pow_add] at h1; exact h1

theorem le_arithWidth (w : Nat) (hw : w = 16 ∨ w = 32 ∨ w = 64) : 2 ^ w ≤ 2 ^ arithWidth w := by
  unfold arithWidth
  rcases hw with rfl | rfl | rfl <;> norm_num

/-- `y' = ⌊y·2^w/p⌋` fits in a word when `y < p`. -/
theorem shoupConst_lt (hp0 : 0 < p) {y : Nat} (hy : y < p) : y * 2 ^ w / p < 2 ^ w := by
  rw [Nat.div_lt_iff_lt_mul hp0, Nat.mul_comm (2 ^ w) p]
  exact Nat.mul_lt_mul_of_pos_right hy (Nat.two_pow_pos w)

/-- Lazy Shoup remainder (what the butterflies use): for every word `x`, `y < p`,
the value computed by `x*y - q*p` in machine arithmetic is the true difference, lies in `[0,2p)`
and is congruent to `x*y`. -/
theorem shoupDiff_spec (hw : w = 16 ∨ w = 32 ∨ w = 64) (hp0 : 0 < p) (hp : 2 * p ≤ 2 ^ w)
    {x y : Nat} (hx : x < 2 ^ w) (hy : y < p) :
    let q := shoupQ w x (y * 2 ^ w / p)
    shoupDiff w p x y q = x * y - q * p ∧ q * p ≤ x * y ∧ x * y - q * p < 2 * p := by
  intro q
  have hq : q = x * (y * 2 ^ w / p) / 2 ^ w := shoupQ_eq hx (shoupConst_lt hp0 hy)
  obtain ⟨hb1, hb2⟩ := shoup_bounds (W := 2 ^ w) hp0 (y := y) hx
  rw [← hq] at hb1 hb2
  refine ⟨?_, hb1, by omega⟩
  unfold shoupDiff
  apply subWrap_eq hb1
  have := le_arithWidth w hw
  omega

/-- Exactness of `mulmod_shoup` for **every** word `x` (in particular lazy values in `[0,4p)`). -/
theorem mulmodShoup_exact (hw : w = 16 ∨ w = 32 ∨ w = 64) (hp0 : 0 < p) (hp : 2 * p ≤ 2 ^ w)
    {x y : Nat} (hx : x < 2 ^ w) (hy : y < p) :
    mulmodShoup w p x y (y * 2 ^ w / p) = x * y % p := by
  obtain ⟨h1, h2, h3⟩ := shoupDiff_spec hw hp0 hp hx hy
  unfold mulmodShoup
  simp only
  rw [h1, condsub_eq_mod h3]
  have hmod : (x * y - shoupQ w x (y * 2 ^ w / p) * p) % p = x * y % p := by
    conv_rhs => rw [show x * y = (x * y - shoupQ w x (y * 2 ^ w / p) * p) + shoupQ w x (y * 2 ^ w / p) * p by omega]
    rw [Nat.add_mul_mod_self_right]
  rw [hmod]
  exact Nat.mod_eq_of_lt (lt_of_lt_of_le (Nat.mod_lt _ hp0) (by omega))

theorem mulmodShoup_computeShoup (hw : w = 16 ∨ w = 32 ∨ w = 64) (hp0 : 0 < p) (hp : 2 * p ≤ 2 ^ w)
    {x y : Nat} (hx : x < 2 ^ w) (hy : y < p) :
    mulmodShoup w p x y (computeShoup w p y) = x * y % p := by
  rw [computeShoup_spec hp0 (by omega) y, Nat.mod_eq_of_lt hy]
  exact mulmodShoup_exact hw hp0 hp hx hy

theorem muladdDiv_exact (hp0 : 0 < p) (hp : 4 * p ≤ 2 ^ w) {rop x y : Nat}
    (hr : rop < p) (hx : x < p) (hy : y < p) :
    muladdDiv w p rop x y = (x * y + rop) % p := by
  unfold muladdDiv
  have hxy : x * y < p * p := Nat.mul_lt_mul'' hx hy
  have hWW : 2 ^ (2 * w) = 2 ^ w * 2 ^ w := by rw [two_mul, pow_add]
  have h1 : x * y + rop < 2 ^ (2 * w) := by rw [hWW]; nlinarith
  rw [Nat.mod_eq_of_lt (by omega : x * y < 2 ^ (2 * w)), Nat.mod_eq_of_lt h1]
  exact Nat.mod_eq_of_lt (lt_of_lt_of_le (Nat.mod_lt _ hp0) (by omega))

/-- The lazily reduced multiply-add is congruent to `x*y+z` and below `2p`. -/
theorem muladdShoup_lazy (hw : w = 16 ∨ w = 32 ∨ w = 64) (hp0 : 0 < p) (hp : 4 * p ≤ 2 ^ w)
    {rop x y : Nat} (hr : rop < p) (hx : x < 2 ^ w) (hy : y < p) :
    muladdShoup w p rop x y (y * 2 ^ w / p) % p = (x * y + rop) % p ∧
    muladdShoup w p rop x y (y * 2 ^ w / p) < 2 * p := by
  obtain ⟨h1, h2, h3⟩ := shoupDiff_spec hw hp0 (by omega) hx hy
  unfold muladdShoup
  simp only
  rw [h1]
  generalize hq : shoupQ w x (y * 2 ^ w / p) = q at *
  generalize hd : x * y - q * p = d at *
  have hsum : (rop + d) % 2 ^ w = rop + d := Nat.mod_eq_of_lt (by omega)
  rw [hsum]
  have hxy : x * y = d + q * p := by omega
  constructor
  · split
    · rename_i hge
      rw [Nat.mod_eq_of_lt (by omega : rop + d - p < 2 ^ w)]
      rw [hxy]
      have : d + q * p + rop = (rop + d - p) + (q + 1) * p := by
        rw [Nat.add_mul]; omega
      rw [this, Nat.add_mul_mod_self_right]
    · rw [Nat.mod_eq_of_lt (by omega : rop + d < 2 ^ w), hxy]
      have : d + q * p + rop = (rop + d) + q * p := by omega
      rw [this, Nat.add_mul_mod_self_right]
  · split
    · rw [Nat.mod_eq_of_lt (by omega)]; omega
    · rw [Nat.mod_eq_of_lt (by omega)]; omega

end generic

/-! ### 64-bit Barrett reduction -/

/-- Pure inequality core of the Barrett argument, with `N = 2^64` abstract. -/
theorem barrett_core {N p pn res hi q qh : Nat} (hp0 : 0 < p) (hNpos : 0 < N) (hp : 4 * p ≤ N)
    (hn1 : (4 * N + pn) * p ≤ N * N) (hn2 : N * N < p * (4 * N + pn + 1))
    (hpnN : 2 * pn ≤ N) (hres_lt : res < p * p)
    (hhi1 : hi * N ≤ res) (hhi2 : res < N * (hi + 1)) (hqdef : q = pn * hi + res * 4)
    (hqh1 : qh * N ≤ q) (hqh2 : q < N * (qh + 1)) :
    qh * p ≤ res ∧ res < (qh + 2) * p := by
  have hpp : 16 * (p * p) ≤ N * N := by nlinarith
  constructor
  · have a1 : qh * N * N ≤ q * N := Nat.mul_le_mul_right N hqh1
    have a2 : q * N ≤ res * (4 * N + pn) := by
      have : pn * (hi * N) ≤ pn * res := Nat.mul_le_mul_left pn hhi1
      nlinarith
    have a3 : qh * p * (N * N) ≤ res * (N * N) := by
      calc qh * p * (N * N) = qh * N * N * p := by ring
        _ ≤ res * (4 * N + pn) * p := Nat.mul_le_mul_right p (le_trans a1 a2)
        _ = res * ((4 * N + pn) * p) := by ring
        _ ≤ res * (N * N) := Nat.mul_le_mul_left res hn1
    exact Nat.le_of_mul_le_mul_right a3 (Nat.mul_pos hNpos hNpos)
  · have b1 : res * (N * N) ≤ res * (p * (4 * N + pn + 1)) := Nat.mul_le_mul_left res hn2.le
    have b2 : res * (4 * N + pn) < N * (N * (qh + 1)) + pn * N := by
      have h1 : pn * res ≤ pn * (N * (hi + 1)) := Nat.mul_le_mul_left pn hhi2.le
      nlinarith
    have b3 : pn * N + res ≤ N * N := by nlinarith
    have b4 : res * (N * N) < (qh + 2) * p * (N * N) := by
      calc res * (N * N) ≤ res * (p * (4 * N + pn + 1)) := b1
        _ = res * (4 * N + pn) * p + res * p := by ring
        _ < (N * (N * (qh + 1)) + pn * N) * p + res * p := by
            have := Nat.mul_lt_mul_of_pos_right b2 hp0; omega
        _ = N * N * (qh + 1) * p + (pn * N + res) * p := by ring
        _ ≤ N * N * (qh + 1) * p + (N * N) * p := by
            have := Nat.mul_le_mul_right p b3; omega
        _ = (qh + 2) * p * (N * N) := by ring
    exact Nat.lt_of_mul_lt_mul_right b4

/-- Hypotheses: `p` is a 62-bit modulus (`4p ≤ 2^64`), `pn` is the low word of the true Newton
quotient `⌊2^128/p⌋ = 4·2^64 + pn`, and `pn ≤ 2^63` (all table rows have `pn < 2^60`). -/
theorem barrett64_exact {p pn x y : Nat} (hp0 : 0 < p) (hp : 4 * p ≤ 2 ^ 64)
    (hn : 2 ^ 128 / p = 4 * 2 ^ 64 + pn) (hpn : pn ≤ 2 ^ 63) (hx : x < p) (hy : y < p) :
    barrett64 p pn x y = x * y % p := by
  have hN : (2 : Nat) ^ 128 = 2 ^ 64 * 2 ^ 64 := by norm_num
  have hres_lt : x * y < p * p := Nat.mul_lt_mul'' hx hy
  have hn1 : (4 * 2 ^ 64 + pn) * p ≤ 2 ^ 64 * 2 ^ 64 := by
    rw [← hn, ← hN]; exact Nat.div_mul_le_self _ _
  have hn2 : 2 ^ 64 * 2 ^ 64 < p * (4 * 2 ^ 64 + pn + 1) := by
    have := Nat.lt_mul_div_succ (2 ^ 128) hp0
    rw [hn, hN] at this; exact this
  obtain ⟨lo, up⟩ := barrett_core (N := 2 ^ 64) (res := x * y) (hi := x * y / 2 ^ 64)
    (q := pn * (x * y / 2 ^ 64) + x * y * 4) (qh := (pn * (x * y / 2 ^ 64) + x * y * 4) / 2 ^ 64)
    hp0 (by norm_num) hp hn1 hn2 (by omega) hres_lt
    (Nat.div_mul_le_self _ _) (Nat.lt_mul_div_succ _ (by norm_num)) rfl
    (Nat.div_mul_le_self _ _) (Nat.lt_mul_div_succ _ (by norm_num))
  unfold barrett64
  simp only
  have hpp : 16 * (p * p) ≤ 2 ^ 128 := by rw [hN]; nlinarith
  have hres128 : x * y < 2 ^ 128 := by omega
  rw [Nat.mod_eq_of_lt hres128]
  have hhi_lt : x * y / 2 ^ 64 < 2 ^ 60 := by
    rw [Nat.div_lt_iff_lt_mul (by norm_num)]
    have : (2 : Nat) ^ 60 * 2 ^ 64 * 16 = 2 ^ 128 := by norm_num
    omega
  have hq1 : pn * (x * y / 2 ^ 64) < 2 ^ 123 := by
    calc pn * (x * y / 2 ^ 64) ≤ 2 ^ 63 * (x * y / 2 ^ 64) := Nat.mul_le_mul_right _ hpn
      _ < 2 ^ 63 * 2 ^ 60 := Nat.mul_lt_mul_of_pos_left hhi_lt (by norm_num)
      _ = 2 ^ 123 := by norm_num
  have hq2 : x * y * 4 < 2 ^ 126 := by omega
  rw [Nat.mod_eq_of_lt (by omega : pn * (x * y / 2 ^ 64) < 2 ^ 128),
      Nat.mod_eq_of_lt (by omega : x * y * 4 < 2 ^ 128),
      Nat.mod_eq_of_lt (by omega : pn * (x * y / 2 ^ 64) + x * y * 4 < 2 ^ 128)]
  generalize (pn * (x * y / 2 ^ 64) + x * y * 4) / 2 ^ 64 = qh at *
  have hqp : qh * p < 2 ^ 128 := by omega
  rw [Nat.mod_eq_of_lt hqp, subWrap_eq lo (by omega)]
  have hd : x * y - qh * p < 2 * p := by
    have : (qh + 2) * p = qh * p + 2 * p := by ring
    omega
  rw [Nat.mod_eq_of_lt (by omega : x * y - qh * p < 2 ^ 64), condsub_eq_mod hd]
  conv_rhs => rw [show x * y = (x * y - qh * p) + qh * p by omega]
  rw [Nat.add_mul_mod_self_right]

theorem mulmod64_exact {p pn x y : Nat} (hp0 : 0 < p) (hp : 4 * p ≤ 2 ^ 64)
    (hn : 2 ^ 128 / p = 4 * 2 ^ 64 + pn) (hpn : pn ≤ 2 ^ 63) (hx : x < p) (hy : y < p) :
    mulmod64 p pn x y = x * y % p := barrett64_exact hp0 hp hn hpn hx hy

theorem muladd64_exact {p pn rop x y : Nat} (hp0 : 0 < p) (hp : 4 * p ≤ 2 ^ 64)
    (hn : 2 ^ 128 / p = 4 * 2 ^ 64 + pn) (hpn : pn ≤ 2 ^ 63)
    (hr : rop < p) (hx : x < p) (hy : y < p) :
    muladd64 p pn rop x y = (x * y + rop) % p := by
  unfold muladd64
  simp only
  rw [barrett64_exact hp0 hp hn hpn hx hy]
  have hm : x * y % p < p := Nat.mod_lt _ hp0
  rw [Nat.mod_eq_of_lt (by omega : x * y % p + rop < 2 ^ 64), condsub_eq_mod (by omega)]
  rw [Nat.add_mod, Nat.mod_mod, ← Nat.add_mod]

end Nfl
