/-
Uniformity of the reservoir sampler of `set(hwt_dist)` (C09/C12 mathematical layer).

`resFold h h (List.range h) idx` is the final reservoir as a function of the accepted indices
`idx_k ∈ [0,k]`, `k = h, …, n-1`.  Every `h`-subset of `{0..n-1}` has exactly `(n-h)!` preimages among the
`(h+1)(h+2)⋯n` index tuples, i.e. the reservoir is a uniformly distributed `h`-subset when the indices are
independent and uniform.
-/
import NflVerif.Model.Samplers
import Mathlib.Data.List.Nodup
import Mathlib.Data.Finset.Powerset
import Mathlib.Data.Finset.Prod
import Mathlib.Data.Finset.Card
import Mathlib.Data.Nat.Factorial.Basic
import Mathlib.Algebra.BigOperators.Group.Finset.Basic
import Mathlib.Algebra.BigOperators.Group.Finset.Sigma
import Mathlib.Algebra.BigOperators.Group.Finset.Piecewise
import Mathlib.Algebra.BigOperators.Ring.Finset
import Mathlib.Algebra.BigOperators.Intervals

namespace Nfl.Samplers

open Finset

/-! ### structural facts on `resStep` / `resFold` -/

theorem length_resStep (h : Nat) (hit : List Nat) (k pos : Nat) :
    (resStep h hit k pos).length = hit.length := by
  unfold resStep; split <;> simp

theorem nodup_resStep {h : Nat} {hit : List Nat} {k : Nat} (pos : Nat)
    (hnd : hit.Nodup) (hlt : ∀ x ∈ hit, x < k) : (resStep h hit k pos).Nodup := by
  unfold resStep; split
  · exact hnd.set (fun hk => Nat.lt_irrefl _ (hlt k hk))
  · exact hnd

theorem lt_of_mem_resStep {h : Nat} {hit : List Nat} {k : Nat} (pos : Nat)
    (hlt : ∀ x ∈ hit, x < k) : ∀ x ∈ resStep h hit k pos, x < k + 1 := by
  intro x hx
  unfold resStep at hx; split at hx
  · rcases List.mem_or_eq_of_mem_set hx with hx | rfl
    · exact Nat.lt_succ_of_lt (hlt x hx)
    · exact Nat.lt_succ_self _
  · exact Nat.lt_succ_of_lt (hlt x hx)

/-- structural facts used elsewhere -/
theorem resFold_invariant {h : Nat} {idx : List Nat} {k : Nat} {hit : List Nat}
    (hlen : hit.length = h) (hnd : hit.Nodup) (hlt : ∀ x ∈ hit, x < k) :
    (resFold h k hit idx).length = h ∧ (resFold h k hit idx).Nodup ∧
      ∀ x ∈ resFold h k hit idx, x < k + idx.length := by
  induction idx generalizing k hit with
  | nil => exact ⟨hlen, hnd, by simpa [resFold] using hlt⟩
  | cons x xs ih =>
    have := ih (k := k + 1) (hit := resStep h hit k x)
      (by rw [length_resStep, hlen]) (nodup_resStep x hnd hlt) (lt_of_mem_resStep x hlt)
    simp only [resFold, List.length_cons]
    refine ⟨this.1, this.2.1, fun y hy => ?_⟩
    have := this.2.2 y hy
    omega

theorem resFold_snoc (h : Nat) (k : Nat) (hit xs : List Nat) (x : Nat) :
    resFold h k hit (xs ++ [x]) = resStep h (resFold h k hit xs) (k + xs.length) x := by
  induction xs generalizing k hit with
  | nil => simp [resFold]
  | cons y ys ih =>
    simp only [List.cons_append, resFold, List.length_cons, ih]
    congr 1; omega

/-- the set of a reservoir after overwriting slot `x` by a fresh element `n` -/
theorem toFinset_set {L : List Nat} {x n : Nat} (hnd : L.Nodup) (hx : x < L.length) :
    (L.set x n).toFinset = insert n (L.toFinset.erase L[x]) := by
  ext a
  simp only [List.mem_toFinset, mem_insert, mem_erase]
  constructor
  · intro ha
    obtain ⟨i, hi, rfl⟩ := List.getElem_of_mem ha
    rw [List.length_set] at hi
    rw [List.getElem_set]
    split
    · exact Or.inl rfl
    · rename_i hxi
      refine Or.inr ⟨fun he => hxi ?_, List.getElem_mem _⟩
      exact ((hnd.getElem_inj_iff).1 he).symm
  · rintro (rfl | ⟨hne, ha⟩)
    · exact List.mem_iff_getElem.2 ⟨x, by simpa using hx, by simp⟩
    · obtain ⟨i, hi, rfl⟩ := List.getElem_of_mem ha
      have hxi : x ≠ i := fun he => hne (by subst he; rfl)
      exact List.mem_iff_getElem.2 ⟨i, by simpa using hi, by simp [List.getElem_set_ne hxi]⟩

/-! ### one reservoir step: how many draws `x ∈ [0,n]` turn the reservoir `L` into the set `S` -/

/-- the new element `n` is not wanted: exactly the `n+1-h` draws `x ≥ h` keep `L`, all others insert `n` -/
theorem step_count_not_mem {h n : Nat} {L : List Nat} {S : Finset Nat}
    (hlen : L.length = h) (hnd : L.Nodup) (hhn : h ≤ n) (hS : n ∉ S) :
    #{x ∈ range (n + 1) | (resStep h L n x).toFinset = S}
      = if L.toFinset = S then n + 1 - h else 0 := by
  have key : ∀ x, (resStep h L n x).toFinset = S ↔ h ≤ x ∧ L.toFinset = S := by
    intro x
    unfold resStep
    split
    · rename_i hx
      constructor
      · intro he
        exfalso; apply hS
        rw [← he, toFinset_set hnd (by omega)]
        exact mem_insert_self _ _
      · intro ⟨h1, _⟩; omega
    · rename_i hx
      constructor
      · intro he; exact ⟨by omega, he⟩
      · intro he; exact he.2
  simp only [key]
  split_ifs with hT
  · have : {x ∈ range (n + 1) | h ≤ x ∧ L.toFinset = S} = range (n + 1) \ range h := by
      ext x; simp only [mem_filter, mem_range, mem_sdiff, hT, and_true, not_lt]
    rw [this, card_sdiff_of_subset (by simpa using by omega), card_range, card_range]
  · simp [hT]

/-- the new element `n` is wanted: exactly one draw works when the rest of `S` is already in `L`,
none otherwise -/
theorem step_count_mem {h n : Nat} {L : List Nat} {S : Finset Nat}
    (hlen : L.length = h) (hnd : L.Nodup) (hlt : ∀ x ∈ L, x < n) (hhn : h ≤ n)
    (hcard : #S = h) (hS : n ∈ S) :
    #{x ∈ range (n + 1) | (resStep h L n x).toFinset = S}
      = if S.erase n ⊆ L.toFinset then 1 else 0 := by
  have hnL : n ∉ L := fun hm => Nat.lt_irrefl _ (hlt n hm)
  have key : ∀ x, (resStep h L n x).toFinset = S ↔
      ∃ hx : x < L.length, L.toFinset.erase L[x] = S.erase n := by
    intro x
    unfold resStep
    split
    · rename_i hx
      have hx' : x < L.length := by omega
      rw [toFinset_set hnd hx']
      have hnA : n ∉ L.toFinset.erase L[x] := fun hm => hnL (List.mem_toFinset.1 (mem_of_mem_erase hm))
      constructor
      · intro he
        exact ⟨hx', by rw [← he, erase_insert hnA]⟩
      · rintro ⟨_, he⟩
        rw [he, insert_erase hS]
    · rename_i hx
      constructor
      · intro he
        exfalso; apply hnL
        rw [← List.mem_toFinset, he]; exact hS
      · rintro ⟨hx', _⟩; omega
  simp only [key]
  have hTcard : #L.toFinset = h := by rw [List.toFinset_card_of_nodup hnd, hlen]
  have hS'card : #(S.erase n) = h - 1 := by rw [card_erase_of_mem hS, hcard]
  have hpos : 0 < h := by rw [← hcard]; exact card_pos.2 ⟨n, hS⟩
  split_ifs with hsub
  · have h1 : #(L.toFinset \ S.erase n) = 1 := by
      rw [card_sdiff_of_subset hsub, hTcard, hS'card]; omega
    obtain ⟨y0, hy0⟩ := card_eq_one.1 h1
    have hy0T : y0 ∈ L := by
      have : y0 ∈ L.toFinset \ S.erase n := by rw [hy0]; exact mem_singleton_self _
      exact List.mem_toFinset.1 (mem_sdiff.1 this).1
    obtain ⟨x0, hx0, rfl⟩ := List.getElem_of_mem hy0T
    rw [card_eq_one]
    refine ⟨x0, ?_⟩
    ext x
    simp only [mem_filter, mem_range, mem_singleton]
    constructor
    · rintro ⟨_, hx, he⟩
      have : L[x] ∈ L.toFinset \ S.erase n := by
        refine mem_sdiff.2 ⟨List.mem_toFinset.2 (List.getElem_mem _), ?_⟩
        rw [← he]; exact notMem_erase _ _
      rw [hy0, mem_singleton] at this
      exact (hnd.getElem_inj_iff).1 this
    · rintro rfl
      refine ⟨by omega, hx0, ?_⟩
      rw [← sdiff_singleton_eq_erase, ← hy0, Finset.sdiff_sdiff_eq_self hsub]
  · rw [card_eq_zero, filter_eq_empty_iff]
    rintro x _ ⟨hx, he⟩
    apply hsub
    rw [← he]; exact erase_subset _ _

/-- the `h`-subsets of `U` that contain a given `(h-1)`-subset `S'` are the `insert y S'`, `y ∈ U \ S'` -/
theorem card_supersets {α : Type*} [DecidableEq α] (U S' : Finset α) (h : Nat)
    (hsub : S' ⊆ U) (hc : #S' + 1 = h) :
    #{T ∈ powersetCard h U | S' ⊆ T} = #U - #S' := by
  have : {T ∈ powersetCard h U | S' ⊆ T} = (U \ S').image (fun y => insert y S') := by
    ext T
    simp only [mem_filter, mem_powersetCard, mem_image, mem_sdiff]
    constructor
    · rintro ⟨⟨hTU, hTc⟩, hST⟩
      have h1 : #(T \ S') = 1 := by rw [card_sdiff_of_subset hST, hTc]; omega
      obtain ⟨y, hy⟩ := card_eq_one.1 h1
      have hyT : y ∈ T \ S' := by rw [hy]; exact mem_singleton_self _
      refine ⟨y, ⟨hTU (mem_sdiff.1 hyT).1, (mem_sdiff.1 hyT).2⟩, ?_⟩
      rw [insert_eq, ← hy, sdiff_union_of_subset hST]
    · rintro ⟨y, ⟨hyU, hyS⟩, rfl⟩
      refine ⟨⟨insert_subset hyU hsub, ?_⟩, subset_insert _ _⟩
      rw [card_insert_of_notMem hyS, hc]
  rw [this, card_image_of_injOn, card_sdiff_of_subset hsub]
  intro y1 hy1 y2 hy2 he
  simp only [coe_sdiff, Set.mem_sdiff, mem_coe] at hy1 hy2
  have he' : insert y1 S' = insert y2 S' := he
  have : y1 ∈ insert y2 S' := by rw [← he']; exact mem_insert_self _ _
  rcases mem_insert.1 this with h' | h'
  · exact h'
  · exact absurd h' hy1.2

/-! ### the index tuples -/

/-- all index tuples (idx_h, …, idx_{h+m-1}) with idx_k ∈ [0,k], in processing order -/
def fwdTuples (h : Nat) : Nat → Finset (List Nat)
  | 0 => {[]}
  | m + 1 => ((range (h + m + 1)) ×ˢ (fwdTuples h m)).image (fun xl => xl.2 ++ [xl.1])

theorem mem_fwdTuples_succ {h m : Nat} {idx : List Nat} :
    idx ∈ fwdTuples h (m + 1) ↔ ∃ l ∈ fwdTuples h m, ∃ x, x ≤ h + m ∧ idx = l ++ [x] := by
  simp only [fwdTuples, mem_image, mem_product, mem_range, Prod.exists]
  constructor
  · rintro ⟨x, l, ⟨hx, hl⟩, rfl⟩
    exact ⟨l, hl, x, by omega, rfl⟩
  · rintro ⟨l, hl, x, hx, rfl⟩
    exact ⟨x, l, ⟨by omega, hl⟩, rfl⟩

theorem mem_fwdTuples {h m : Nat} {idx : List Nat} :
    idx ∈ fwdTuples h m ↔ idx.length = m ∧ ∀ j (hj : j < idx.length), idx[j] ≤ h + j := by
  induction m generalizing idx with
  | zero =>
    simp only [fwdTuples, mem_singleton]
    constructor
    · rintro rfl; simp
    · rintro ⟨h0, _⟩; exact List.length_eq_zero_iff.1 h0
  | succ m ih =>
    rw [mem_fwdTuples_succ]
    constructor
    · rintro ⟨l, hl, x, hx, rfl⟩
      obtain ⟨hlen, hb⟩ := ih.1 hl
      refine ⟨by simp [hlen], fun j hj => ?_⟩
      rw [List.getElem_append]
      split
      · exact hb j _
      · rename_i hjl
        simp only [List.length_append, List.length_singleton] at hj
        have : j = m := by omega
        subst this
        simpa using hx
    · rintro ⟨hlen, hb⟩
      rcases List.eq_nil_or_concat idx with rfl | ⟨l, x, rfl⟩
      · simp at hlen
      · simp only [List.concat_eq_append] at hlen hb ⊢
        simp only [List.length_append, List.length_singleton] at hlen
        refine ⟨l, ih.2 ⟨by omega, fun j hj => ?_⟩, x, ?_, rfl⟩
        · have := hb j (by simp; omega)
          rwa [List.getElem_append_left hj] at this
        · have := hb l.length (by simp)
          rw [List.getElem_append_right (le_refl _)] at this
          simp only [Nat.sub_self, List.getElem_cons_zero] at this
          omega

theorem snoc_injective : Function.Injective (fun xl : Nat × List Nat => xl.2 ++ [xl.1]) := by
  rintro ⟨x, l⟩ ⟨y, l'⟩ he
  obtain ⟨h1, h2⟩ := List.append_inj' he rfl
  simp only [List.cons.injEq, and_true] at h2
  have h1' : l = l' := h1
  rw [h1', h2]

theorem card_fwdTuples (h m : Nat) : #(fwdTuples h m) = ∏ j ∈ range m, (h + j + 1) := by
  induction m with
  | zero => simp [fwdTuples]
  | succ m ih =>
    rw [fwdTuples, card_image_of_injective _ snoc_injective, card_product, card_range, ih,
      prod_range_succ, mul_comm]

/-! ### the counting theorem -/

theorem resFold_range_invariant {h m : Nat} {l : List Nat} (hl : l ∈ fwdTuples h m) :
    (resFold h h (List.range h) l).length = h ∧ (resFold h h (List.range h) l).Nodup ∧
      ∀ x ∈ resFold h h (List.range h) l, x < h + m := by
  have := resFold_invariant (h := h) (idx := l) (k := h) (hit := List.range h)
    List.length_range List.nodup_range (fun x hx => List.mem_range.1 hx)
  rwa [(mem_fwdTuples.1 hl).1] at this

theorem toFinset_resFold_mem {h m : Nat} {l : List Nat} (hl : l ∈ fwdTuples h m) :
    (resFold h h (List.range h) l).toFinset ∈ powersetCard h (range (h + m)) := by
  obtain ⟨hlen, hnd, hlt⟩ := resFold_range_invariant hl
  rw [mem_powersetCard]
  refine ⟨fun x hx => mem_range.2 (hlt x (List.mem_toFinset.1 hx)), ?_⟩
  rw [List.toFinset_card_of_nodup hnd, hlen]

/-- every `h`-subset of `{0..h+m-1}` is the final reservoir of exactly `m!` index tuples -/
theorem count_fwd (h m : Nat) : ∀ S ∈ powersetCard h (range (h + m)),
    #{l ∈ fwdTuples h m | (resFold h h (List.range h) l).toFinset = S} = m.factorial := by
  induction m with
  | zero =>
    intro S hS
    rw [mem_powersetCard] at hS
    have : S = range h := eq_of_subset_of_card_le hS.1 (by simp [hS.2])
    subst this
    have : (List.range h).toFinset = range h := by ext x; simp
    rw [fwdTuples, filter_singleton]
    simp [resFold, this]
  | succ m ih =>
    intro S hS
    rw [mem_powersetCard] at hS
    obtain ⟨hSsub, hScard⟩ := hS
    have step1 : #{l ∈ fwdTuples h (m + 1) | (resFold h h (List.range h) l).toFinset = S}
        = ∑ l ∈ fwdTuples h m, #{x ∈ range (h + m + 1) |
            (resStep h (resFold h h (List.range h) l) (h + m) x).toFinset = S} := by
      rw [fwdTuples, filter_image, card_image_of_injective _ snoc_injective, card_filter,
        sum_product_right]
      refine sum_congr rfl fun l hl => ?_
      rw [card_filter]
      refine sum_congr rfl fun x _ => ?_
      simp only [resFold_snoc, (mem_fwdTuples.1 hl).1]
    rw [step1]
    by_cases hn : h + m ∈ S
    · -- the new element is wanted
      have hS'sub : S.erase (h + m) ⊆ range (h + m) := by
        intro x hx
        have h1 := mem_range.1 (hSsub (mem_of_mem_erase hx))
        have h2 := ne_of_mem_erase hx
        exact mem_range.2 (by omega)
      have hpos : 0 < h := by rw [← hScard]; exact card_pos.2 ⟨_, hn⟩
      have hS'card : #(S.erase (h + m)) + 1 = h := by rw [card_erase_of_mem hn, hScard]; omega
      rw [sum_congr rfl fun l hl => step_count_mem (resFold_range_invariant hl).1
        (resFold_range_invariant hl).2.1 (resFold_range_invariant hl).2.2 (Nat.le_add_right h m)
        hScard hn]
      rw [← card_filter]
      rw [card_eq_sum_card_fiberwise (f := fun l => (resFold h h (List.range h) l).toFinset)
        (t := {T ∈ powersetCard h (range (h + m)) | S.erase (h + m) ⊆ T})]
      · rw [sum_congr rfl (g := fun _ => m.factorial)]
        · rw [sum_const, Nat.nsmul_eq_mul, card_supersets _ _ _ hS'sub hS'card, card_range,
            Nat.factorial_succ]
          congr 1; omega
        · intro T hT
          rw [mem_filter] at hT
          rw [filter_filter, ← ih T hT.1]
          congr 1
          refine filter_congr fun l _ => ?_
          constructor
          · exact fun hh => hh.2
          · intro hh; exact ⟨by rw [hh]; exact hT.2, hh⟩
      · intro l hl
        simp only [coe_filter, Set.mem_ofPred_eq] at hl ⊢
        exact ⟨toFinset_resFold_mem hl.1, hl.2⟩
    · -- the new element is not wanted
      have hS' : S ∈ powersetCard h (range (h + m)) := by
        rw [mem_powersetCard]
        refine ⟨fun x hx => ?_, hScard⟩
        have h1 := mem_range.1 (hSsub hx)
        have h2 : x ≠ h + m := fun he => hn (he ▸ hx)
        exact mem_range.2 (by omega)
      rw [sum_congr rfl fun l hl => step_count_not_mem (resFold_range_invariant hl).1
        (resFold_range_invariant hl).2.1 (Nat.le_add_right h m) hn]
      rw [← sum_filter, sum_const, Nat.nsmul_eq_mul, ih S hS', Nat.factorial_succ, mul_comm]
      congr 1; omega

/-- **Uniformity of the reservoir**: every `h`-subset `S` of `{0..n-1}` is the final reservoir of exactly
`(n-h)!` of the `(h+1)(h+2)⋯n` index tuples (`card_fwdTuples`); the count does not depend on `S`.
(No hypothesis `0 < h` is needed.) -/
theorem reservoir_uniform (n h : Nat) (hn : h ≤ n) :
    ∀ S ∈ powersetCard h (range n),
      ((fwdTuples h (n - h)).filter
        (fun idx => (resFold h h (List.range h) idx).toFinset = S)).card = (n - h).factorial := by
  intro S hS
  apply count_fwd
  rwa [Nat.add_sub_cancel' hn]

/-! ### non-vacuity checks on a tiny instance -/

example : ((fwdTuples 2 2).filter
    (fun idx => (resFold 2 2 (List.range 2) idx).toFinset = {0, 1})).card = 2 := by decide

example : ((fwdTuples 2 2).filter
    (fun idx => (resFold 2 2 (List.range 2) idx).toFinset = {1, 3})).card = 2 := by decide

example : (fwdTuples 2 2).card = 12 := by decide

end Nfl.Samplers
