/-
The table builder that `tools/gen_init_ast.py` regenerates from clang's AST of `core::initialize()` / `core::prep_wtab`
(`Generated/InitAst.lean`, built on the generated `Gen.mulmod_uW` of `Generated/OpsAst.lean`) returns EXACTLY the tables of
the hand-written model `Model/Ntt.lean` (`initTables`, `prepWtab`, `iterMul`, `sqrIter`, `shoupOf`).

Hypotheses of the equalities (nothing about primality / roots: they hold for every in-range row):
* `p, root, invN < 2^w` (and `pn < 2^64` for `uint64_t`): the ranges of the C types — `Gen.mulmod_uW = Nfl.mulmod` needs them;
* `degree = 2^k`, `kMaxPolyDegree = 2^lk` with `k ≤ lk` (otherwise `static_log2<kMax> - static_log2<degree>` wraps in
  `size_t` and the squaring loop of the C++ does not terminate; the model's `lk - k` is 0 there) and `lk < 32`
  (`kMaxPolyDegree` is an `unsigned int`; `unsigned K = degree` truncates and the `unsigned int` loop counters wrap at 2^32:
  see `prep_needs_degree_lt` below for a concrete difference at `degree = 2^32`);
* the rows have the declared extents (`InitRow.wf`): `degree` words, `2*degree` for `omegas` / `invomegas`; their CONTENT
  is arbitrary.
Besides the equalities: the final pointer offsets (`wtab` ends at `degree-1`, `wtabshoup` at `2*degree-1`, so every store
was inside the row), the loop `while (K >= 2)` has left (`K = 1 < 2`: fuel 64 sufficed), `shoupomegas = degree`.

Method (as Proofs/CrtAstEq.lean): `prepNF` / `initNF` repeat the generated text with the conversions that differ between
`uint16_t` / `uint32_t` / `uint64_t` abstracted as parameters; the generated definitions are instances BY `rfl` (any change
of the generated text breaks the proof here); the NF is proved equal to the model once.  Core tactics only.
-/
import NflVerif.Generated.InitAst
import NflVerif.Model.Ntt
import NflVerif.Proofs.OpsAstEq

namespace Nfl.InitAstEq
set_option linter.unusedVariables false
open Nfl Nfl.CSem Nfl.CSemInit Nfl.Gen Nfl.OpsAstEq

/-! ### rows read pointwise -/

theorem load_store (l : List Nat) (i v j : Nat) :
    load (store l i v) j = if i = j ∧ i < l.length then v else load l j := by
  unfold load store
  by_cases hij : i = j
  · subst hij
    by_cases hi : i < l.length
    · simp [hi, List.getD_eq_getElem?_getD]
    · simp [hi, List.getD_eq_getElem?_getD]
  · simp [hij, List.getD_eq_getElem?_getD]

theorem getD_of_lt {l : List Nat} {j : Nat} (d : Nat) (h : j < l.length) : l.getD j d = l[j] := by
  simp [List.getD_eq_getElem?_getD, h]

theorem length_store (l : List Nat) (i v : Nat) : (store l i v).length = l.length := by
  unfold store; simp

theorem ext_load {l l' : List Nat} (hl : l.length = l'.length) (h : ∀ j, j < l.length → load l j = load l' j) : l = l' := by
  apply List.ext_getElem hl
  intro j h1 h2
  have := h j h1
  unfold load at this
  rwa [getD_of_lt _ h1, getD_of_lt _ h2] at this

/-- `n`-fold application, in the order the loops apply it -/
def iter (f : Nat → Nat) : Nat → Nat → Nat
  | 0, x => x
  | n + 1, x => iter f n (f x)

theorem iter_succ' (f : Nat → Nat) : ∀ n x, iter f (n + 1) x = f (iter f n x)
  | 0, _ => rfl
  | n + 1, x => by
    show iter f (n + 1) (f x) = f (iter f n (f x))
    exact iter_succ' f n (f x)

/-! ### the model's lists pointwise -/

theorem length_iterMul (w p pn s : Nat) : ∀ n c, (iterMul w p pn s n c).length = n
  | 0, _ => rfl
  | n + 1, c => by simp [iterMul, length_iterMul w p pn s n]

theorem load_iterMul (w p pn s : Nat) : ∀ n c j, j < n →
    load (iterMul w p pn s n c) j = iter (fun x => mulmod w p pn x s) j c
  | 0, _, _, h => by omega
  | n + 1, c, 0, _ => by simp [iterMul, load, iter]
  | n + 1, c, j + 1, h => by
    have := load_iterMul w p pn s n (mulmod w p pn c s) j (by omega)
    simpa [iterMul, load, iter] using this

theorem sqrIter_eq_iter (w p pn : Nat) : ∀ j x, sqrIter w p pn j x = iter (fun x => mulmod w p pn x x) j x
  | 0, _ => rfl
  | j + 1, x => by simp [sqrIter, iter, sqrIter_eq_iter w p pn j]

theorem mulmod_lt (w p pn x y : Nat) : mulmod w p pn x y < 2 ^ w := by
  unfold mulmod
  split
  · next h =>
    subst h
    unfold mulmod64 barrett64
    simp only
    have := Nat.mod_lt (subWrap (2 ^ 128) (x * y % 2 ^ 128)
      ((pn * (x * y % 2 ^ 128 / 2 ^ 64) % 2 ^ 128 + x * y % 2 ^ 128 * 4 % 2 ^ 128) % 2 ^ 128 / 2 ^ 64 * p % 2 ^ 128)) (Nat.two_pow_pos 64)
    split <;> omega
  · exact Nat.mod_lt _ (Nat.two_pow_pos _)

theorem iter_mulmod_lt (w p pn s : Nat) (n c : Nat) (hc : c < 2 ^ w) :
    iter (fun x => mulmod w p pn x s) n c < 2 ^ w := by
  cases n with
  | zero => exact hc
  | succ n => rw [iter_succ']; exact mulmod_lt _ _ _ _ _

/-! ### a loop that fills two rows cell by cell (`phis` / `shoupphis`, `invpoly_times_invphis` / its companion) -/

/-- the loop body, as generated -/
def tabStep (h f : Nat → Nat) (st : List Nat × List Nat × Nat) (i : Nat) : List Nat × List Nat × Nat :=
  (store st.1 i st.2.2, store st.2.1 i (h st.2.2), f st.2.2)

theorem tab_loop (h f : Nat → Nat) (l l' : List Nat) (t : Nat) : ∀ m, m ≤ l.length → m ≤ l'.length →
    ∃ a a', (List.range m).foldl (tabStep h f) (l, l', t) = (a, a', iter f m t) ∧ a.length = l.length ∧ a'.length = l'.length ∧
      (∀ j, load a j = if j < m then iter f j t else load l j) ∧
      (∀ j, load a' j = if j < m then h (iter f j t) else load l' j) := by
  intro m
  induction m with
  | zero => intro _ _; exact ⟨l, l', rfl, rfl, rfl, fun j => by simp, fun j => by simp⟩
  | succ m ih =>
    intro h1 h2
    obtain ⟨a, a', e, la, la', ha, ha'⟩ := ih (by omega) (by omega)
    refine ⟨store a m (iter f m t), store a' m (h (iter f m t)), ?_, ?_, ?_, ?_, ?_⟩
    · rw [List.range_succ, List.foldl_append, e]; simp [tabStep, iter_succ']
    · rw [length_store, la]
    · rw [length_store, la']
    · intro j
      rw [load_store, ha j]
      by_cases hj : m = j
      · subst hj; simp [la]; omega
      · have : ¬ (m = j ∧ m < a.length) := fun hh => hj hh.1
        rw [if_neg this]
        by_cases hlt : j < m
        · simp [hlt, Nat.lt_succ_of_lt hlt]
        · have : ¬ j < m + 1 := by omega
          simp [hlt, this]
    · intro j
      rw [load_store, ha' j]
      by_cases hj : m = j
      · subst hj; simp [la']; omega
      · have : ¬ (m = j ∧ m < a'.length) := fun hh => hj hh.1
        rw [if_neg this]
        by_cases hlt : j < m
        · simp [hlt, Nat.lt_succ_of_lt hlt]
        · have : ¬ j < m + 1 := by omega
          simp [hlt, this]

/-- the filled rows are the model's lists -/
theorem tab_loop_model (w p pn s : Nat) (h : Nat → Nat) (l l' : List Nat) (t n : Nat) (hl : l.length = n) (hl' : l'.length = n) :
    (List.range n).foldl (tabStep h (fun x => mulmod w p pn x s)) (l, l', t) =
      (iterMul w p pn s n t, (iterMul w p pn s n t).map h, iter (fun x => mulmod w p pn x s) n t) := by
  obtain ⟨a, a', e, la, la', ha, ha'⟩ := tab_loop h (fun x => mulmod w p pn x s) l l' t n (by omega) (by omega)
  rw [e]
  have e1 : a = iterMul w p pn s n t := by
    apply ext_load (by rw [la, hl, length_iterMul])
    intro j hj
    rw [ha j, if_pos (by omega), load_iterMul _ _ _ _ _ _ _ (by omega)]
  have e2 : a' = (iterMul w p pn s n t).map h := by
    apply ext_load (by rw [la', hl', List.length_map, length_iterMul])
    intro j hj
    have hjn : j < n := by omega
    rw [ha' j, if_pos hjn]
    have : load ((iterMul w p pn s n t).map h) j = h (load (iterMul w p pn s n t) j) := by
      unfold load
      rw [getD_of_lt _ (by simp [length_iterMul]; exact hjn), getD_of_lt _ (by simp [length_iterMul]; exact hjn)]
      simp
    rw [this, load_iterMul _ _ _ _ _ _ _ hjn]
  rw [e1, e2]

/-! ### writes through the two walking pointers of `prep_wtab` -/

theorem load_append (l1 l2 : List Nat) (i : Nat) :
    load (l1 ++ l2) i = if i < l1.length then load l1 i else load l2 (i - l1.length) := by
  unfold load
  by_cases h : i < l1.length
  · simp [h, List.getD_eq_getElem?_getD, List.getElem?_append_left h]
  · simp [h, List.getD_eq_getElem?_getD, List.getElem?_append_right (Nat.le_of_not_lt h)]

theorem load_singleton (v i : Nat) : load [v] i = if i = 0 then v else 0 := by
  unfold load
  cases i <;> simp

/-- `mem'` is `mem` with `vals` written from offset `a` on and `vals.map S` from offset `b` on -/
def Wr (S : Nat → Nat) (mem mem' : List Nat) (a b : Nat) (vals : List Nat) : Prop :=
  mem'.length = mem.length ∧ ∀ j, load mem' j =
    if a ≤ j ∧ j < a + vals.length then load vals (j - a)
    else if b ≤ j ∧ j < b + vals.length then S (load vals (j - b)) else load mem j

theorem Wr_nil (S : Nat → Nat) (mem : List Nat) (a b : Nat) : Wr S mem mem a b [] := by
  refine ⟨rfl, fun j => ?_⟩
  have h1 : ¬ (a ≤ j ∧ j < a + ([] : List Nat).length) := by simp
  have h2 : ¬ (b ≤ j ∧ j < b + ([] : List Nat).length) := by simp
  rw [if_neg h1, if_neg h2]

theorem Wr_snoc {S : Nat → Nat} {mem mem1 : List Nat} {a b : Nat} {vals : List Nat} (v : Nat)
    (h : Wr S mem mem1 a b vals) (hab : a + vals.length < b) (hb : b + vals.length < mem.length) :
    Wr S mem (store (store mem1 (a + vals.length) v) (b + vals.length) (S v)) a b (vals ++ [v]) := by
  obtain ⟨hl, hp⟩ := h
  refine ⟨by rw [length_store, length_store, hl], fun j => ?_⟩
  rw [load_store, load_store, length_store, hl, hp j, List.length_append, List.length_singleton]
  simp only [load_append, load_singleton]
  by_cases h1 : j = b + vals.length
  · subst h1
    have c1 : ¬ (a ≤ b + vals.length ∧ b + vals.length < a + (vals.length + 1)) := by omega
    have c2 : b ≤ b + vals.length ∧ b + vals.length < b + (vals.length + 1) := by omega
    have c3 : ¬ (b + vals.length - b < vals.length) := by omega
    have c4 : b + vals.length - b - vals.length = 0 := by omega
    rw [if_pos ⟨rfl, hb⟩, if_neg c1, if_pos c2, if_neg c3, if_pos c4]
  · have c0 : ¬ (b + vals.length = j ∧ b + vals.length < mem.length) := fun hh => h1 hh.1.symm
    rw [if_neg c0]
    by_cases h2 : j = a + vals.length
    · subst h2
      have c1 : a ≤ a + vals.length ∧ a + vals.length < a + (vals.length + 1) := by omega
      have c3 : ¬ (a + vals.length - a < vals.length) := by omega
      have c4 : a + vals.length - a - vals.length = 0 := by omega
      rw [if_pos ⟨rfl, by omega⟩, if_pos c1, if_neg c3, if_pos c4]
    · have c1 : ¬ (a + vals.length = j ∧ a + vals.length < mem.length) := fun hh => h2 hh.1.symm
      rw [if_neg c1]
      by_cases h3 : a ≤ j ∧ j < a + vals.length
      · have c2 : a ≤ j ∧ j < a + (vals.length + 1) := by omega
        have c3 : j - a < vals.length := by omega
        rw [if_pos h3, if_pos c2, if_pos c3]
      · have c2 : ¬ (a ≤ j ∧ j < a + (vals.length + 1)) := by omega
        rw [if_neg h3, if_neg c2]
        by_cases h4 : b ≤ j ∧ j < b + vals.length
        · have c3 : b ≤ j ∧ j < b + (vals.length + 1) := by omega
          have c4 : j - b < vals.length := by omega
          rw [if_pos h4, if_pos c3, if_pos c4]
        · have c3 : ¬ (b ≤ j ∧ j < b + (vals.length + 1)) := by omega
          rw [if_neg h4, if_neg c3]

theorem Wr_append {S : Nat → Nat} {mem mem1 mem2 : List Nat} {a b : Nat} {v1 v2 : List Nat}
    (h1 : Wr S mem mem1 a b v1) (h2 : Wr S mem1 mem2 (a + v1.length) (b + v1.length) v2) (hab : a + v1.length + v2.length ≤ b) :
    Wr S mem mem2 a b (v1 ++ v2) := by
  obtain ⟨l1, p1⟩ := h1
  obtain ⟨l2, p2⟩ := h2
  refine ⟨by rw [l2, l1], fun j => ?_⟩
  rw [p2 j, p1 j, List.length_append]
  simp only [load_append]
  by_cases r1 : a ≤ j ∧ j < a + v1.length
  · have c1 : ¬ (a + v1.length ≤ j ∧ j < a + v1.length + v2.length) := by omega
    have c2 : ¬ (b + v1.length ≤ j ∧ j < b + v1.length + v2.length) := by omega
    have c3 : a ≤ j ∧ j < a + (v1.length + v2.length) := by omega
    have c4 : j - a < v1.length := by omega
    rw [if_neg c1, if_neg c2, if_pos r1, if_pos c3, if_pos c4]
  · by_cases r2 : a + v1.length ≤ j ∧ j < a + v1.length + v2.length
    · have c3 : a ≤ j ∧ j < a + (v1.length + v2.length) := by omega
      have c4 : ¬ (j - a < v1.length) := by omega
      have c5 : j - (a + v1.length) = j - a - v1.length := by omega
      rw [if_pos r2, if_pos c3, if_neg c4, c5]
    · have c3 : ¬ (a ≤ j ∧ j < a + (v1.length + v2.length)) := by omega
      rw [if_neg r2, if_neg c3]
      by_cases r3 : b ≤ j ∧ j < b + v1.length
      · have c1 : ¬ (b + v1.length ≤ j ∧ j < b + v1.length + v2.length) := by omega
        have c2 : b ≤ j ∧ j < b + (v1.length + v2.length) := by omega
        have c4 : j - b < v1.length := by omega
        rw [if_neg c1, if_neg r1, if_pos r3, if_pos c2, if_pos c4]
      · by_cases r4 : b + v1.length ≤ j ∧ j < b + v1.length + v2.length
        · have c2 : b ≤ j ∧ j < b + (v1.length + v2.length) := by omega
          have c4 : ¬ (j - b < v1.length) := by omega
          have c5 : j - (b + v1.length) = j - b - v1.length := by omega
          rw [if_pos r4, if_pos c2, if_neg c4, c5]
        · have c2 : ¬ (b ≤ j ∧ j < b + (v1.length + v2.length)) := by omega
          rw [if_neg r4, if_neg r1, if_neg r3, if_neg c2]

theorem load_take (l : List Nat) (m j : Nat) : load (l.take m) j = if j < m then load l j else 0 := by
  unfold load
  by_cases h : j < m
  · simp [h, List.getD_eq_getElem?_getD]
  · simp [h, List.getD_eq_getElem?_getD, List.getElem?_take]

theorem load_drop (l : List Nat) (n j : Nat) : load (l.drop n) j = load l (n + j) := by
  unfold load
  simp [List.getD_eq_getElem?_getD, List.getElem?_drop]

theorem load_map_lt (h : Nat → Nat) (l : List Nat) (j : Nat) (hj : j < l.length) : load (l.map h) j = h (load l j) := by
  unfold load
  rw [getD_of_lt _ (by simpa using hj), getD_of_lt _ hj]
  simp

/-- reading the two written regions back -/
theorem Wr_read {S : Nat → Nat} {mem mem' : List Nat} {a b : Nat} {vals : List Nat}
    (h : Wr S mem mem' a b vals) (hab : a + vals.length ≤ b) (hb : b + vals.length ≤ mem.length) :
    (mem'.drop a).take vals.length = vals ∧ (mem'.drop b).take vals.length = vals.map S := by
  obtain ⟨hl, hp⟩ := h
  constructor
  · apply ext_load (by simp [hl]; omega)
    intro j hj
    have hj' : j < vals.length := by simp [hl] at hj; omega
    have c1 : a ≤ a + j ∧ a + j < a + vals.length := by omega
    have c2 : a + j - a = j := by omega
    rw [load_take, if_pos hj', load_drop, hp, if_pos c1, c2]
  · apply ext_load (by simp [hl]; omega)
    intro j hj
    have hj' : j < vals.length := by simp [hl] at hj; omega
    have c0 : ¬ (a ≤ b + j ∧ b + j < a + vals.length) := by omega
    have c1 : b ≤ b + j ∧ b + j < b + vals.length := by omega
    have c2 : b + j - b = j := by omega
    rw [load_take, if_pos hj', load_drop, hp, if_neg c0, if_pos c1, c2, load_map_lt _ _ _ hj']

/-- cells outside the two regions keep their content -/
theorem Wr_frame {S : Nat → Nat} {mem mem' : List Nat} {a b : Nat} {vals : List Nat}
    (h : Wr S mem mem' a b vals) (j : Nat) (h1 : ¬ (a ≤ j ∧ j < a + vals.length)) (h2 : ¬ (b ≤ j ∧ j < b + vals.length)) :
    load mem' j = load mem j := by
  rw [h.2 j, if_neg h1, if_neg h2]

theorem iterMul_snoc (w p pn s : Nat) : ∀ m c,
    iterMul w p pn s (m + 1) c = iterMul w p pn s m c ++ [iter (fun x => mulmod w p pn x s) m c]
  | 0, c => rfl
  | m + 1, c => by
    show c :: iterMul w p pn s (m + 1) (mulmod w p pn c s) = _
    rw [iterMul_snoc w p pn s m]; rfl

theorem length_prepWtab (w p pn : Nat) : ∀ k om, (prepWtab w p pn k om).length = 2 ^ k - 1
  | 0, _ => rfl
  | k + 1, om => by
    have := Nat.two_pow_pos k
    simp [prepWtab, length_iterMul, length_prepWtab w p pn k, Nat.pow_succ]; omega

/-- the body of `for (i < K/2)`, as generated -/
def innerStep (cv sh G : Nat → Nat) (st : List Nat × Nat × Nat × Nat) (i : Nat) : List Nat × Nat × Nat × Nat :=
  (store (store st.1 st.2.1 (cv st.2.2.2)) st.2.2.1 (sh st.2.2.2), ptrAdd st.2.1 1, ptrAdd st.2.2.1 1, G st.2.2.2)

theorem inner_loop (w p pn s : Nat) (cv sh G : Nat → Nat)
    (hcv : ∀ c, c < 2 ^ w → cv c = c) (hsh : ∀ c, c < 2 ^ w → sh c = shoupOf w p c)
    (hG : ∀ c, c < 2 ^ w → G c = mulmod w p pn c s) (mem : List Nat) (a b c : Nat) (hc : c < 2 ^ w) :
    ∀ m, a + m ≤ b → b + m ≤ mem.length →
      ∃ mem', (List.range m).foldl (innerStep cv sh G) (mem, a, b, c) =
          (mem', a + m, b + m, iter (fun x => mulmod w p pn x s) m c) ∧
        Wr (shoupOf w p) mem mem' a b (iterMul w p pn s m c) := by
  intro m
  induction m with
  | zero => intro _ _; exact ⟨mem, rfl, Wr_nil _ _ _ _⟩
  | succ m ih =>
    intro h1 h2
    obtain ⟨mem1, e, hw⟩ := ih (by omega) (by omega)
    have hx := iter_mulmod_lt w p pn s m c hc
    have hlen := length_iterMul w p pn s m c
    refine ⟨store (store mem1 (a + m) (iter (fun x => mulmod w p pn x s) m c)) (b + m)
      (shoupOf w p (iter (fun x => mulmod w p pn x s) m c)), ?_, ?_⟩
    · rw [List.range_succ, List.foldl_append, e]
      simp only [List.foldl_cons, List.foldl_nil, innerStep, ptrAdd, hcv _ hx, hsh _ hx, hG _ hx, iter_succ']
      rfl
    · rw [iterMul_snoc]
      have := Wr_snoc (iter (fun x => mulmod w p pn x s) m c) hw (by rw [hlen]; omega) (by rw [hlen]; omega)
      rw [hlen] at this
      exact this

/-! ### `prep_wtab`: the generated text with the limb-dependent conversions as parameters -/

/-- the loop condition `K >= 2` -/
def prepCond (st : List Nat × Nat × Nat × Nat × Nat) : Bool := geU st.2.2.2.2 (castSU 32 2)

/-- the body of `while (K >= 2)`.  `one` = the converted literal 1, `cv` = `static_cast<T>(wi)`, `sh` = `(wi << W) / p` stored as
`T`, `up` = the conversion of the functor's result to `greater_value_type`, `mm` = `Gen.mulmod_uW P_cm [Pn_cm]` -/
def prepBody (one : Nat) (cv sh up : Nat → Nat) (mm : Nat → Nat → Nat) (st : List Nat × Nat × Nat × Nat × Nat) :
    List Nat × Nat × Nat × Nat × Nat :=
  let st' := forCount 64 (castU 64 (divU 32 st.2.2.2.2 (castSU 32 2)))
    (innerStep cv sh (fun wi => up (mm (cv wi) st.2.2.2.1))) (st.1, st.2.1, st.2.2.1, one)
  (st'.1, st'.2.1, st'.2.2.1, mm st.2.2.2.1 st.2.2.2.1, divU 32 st.2.2.2.2 (castSU 32 2))

def prepNF (one : Nat) (cv sh up : Nat → Nat) (mm : Nat → Nat → Nat) (degree : Nat)
    (mem : List Nat) (wtab wtabshoup w : Nat) : List Nat × Nat × Nat × Nat × Nat :=
  let st := CSem.whileFuel prepCond (prepBody one cv sh up mm) 64 (mem, wtab, wtabshoup, w, castU 32 degree)
  (st.1, st.2.1, st.2.2.1, st.2.2.2.1, st.2.2.2.2)

theorem prep_wtab_u16_shape (degree P : Nat) (mem : List Nat) (a b w : Nat) :
    prep_wtab_u16_state degree P mem a b w =
      prepNF (castSU 32 1) (castU 16) (fun wi => castU 16 (divU 32 (shlU 32 wi 16) (castU 32 P))) (castU 32) (mulmod_u16 P) degree mem a b w := rfl
theorem prep_wtab_u32_shape (degree P : Nat) (mem : List Nat) (a b w : Nat) :
    prep_wtab_u32_state degree P mem a b w =
      prepNF (castSU 64 1) (castU 32) (fun wi => castU 32 (divU 64 (shlU 64 wi 32) (castU 64 P))) (castU 64) (mulmod_u32 P) degree mem a b w := rfl
theorem prep_wtab_u64_shape (degree P Pn : Nat) (mem : List Nat) (a b w : Nat) :
    prep_wtab_u64_state degree P Pn mem a b w =
      prepNF (castSU 128 1) (castU 64) (fun wi => castU 64 (divU 128 (shlU 128 wi 64) (castU 128 P))) (castU 128) (mulmod_u64 P Pn) degree mem a b w := rfl

theorem two32 : castSU 32 2 = 2 := by rw [castSU_of_lt (by omega)]

/-- what the NF needs to know about the limb: the conversions are value-preserving on `w`-bit values and `mm` is the model's `mulmod` -/
structure LimbOK (w p pn one : Nat) (cv sh up : Nat → Nat) (mm : Nat → Nat → Nat) : Prop where
  one_eq : one = 1
  one_lt : 1 < 2 ^ w
  cv_id : ∀ c, c < 2 ^ w → cv c = c
  up_id : ∀ c, c < 2 ^ w → up c = c
  sh_eq : ∀ c, c < 2 ^ w → sh c = shoupOf w p c
  mm_eq : ∀ x y, x < 2 ^ w → y < 2 ^ w → mm x y = mulmod w p pn x y

theorem prep_loop {w p pn one : Nat} {cv sh up : Nat → Nat} {mm : Nat → Nat → Nat} (L : LimbOK w p pn one cv sh up mm) :
    ∀ (k fuel : Nat) (mem : List Nat) (a b s : Nat), k < fuel → k < 32 → s < 2 ^ w →
      a + (2 ^ k - 1) ≤ b → b + (2 ^ k - 1) ≤ mem.length →
      ∃ mem', CSem.whileFuel prepCond (prepBody one cv sh up mm) fuel (mem, a, b, s, 2 ^ k) =
          (mem', a + (2 ^ k - 1), b + (2 ^ k - 1), sqrIter w p pn k s, 1) ∧
        Wr (shoupOf w p) mem mem' a b (prepWtab w p pn k s) := by
  intro k
  induction k with
  | zero =>
    intro fuel mem a b s hf _ _ _ _
    obtain ⟨f, rfl⟩ : ∃ f, fuel = f + 1 := ⟨fuel - 1, by omega⟩
    refine ⟨mem, ?_, Wr_nil _ _ _ _⟩
    have hc : prepCond (mem, a, b, s, 2 ^ 0) = false := by simp [prepCond, two32, geU]
    rw [CSem.whileFuel, hc]
    simp [sqrIter]
  | succ k ih =>
    intro fuel mem a b s hf hk hs hab hb
    obtain ⟨f, rfl⟩ : ∃ f, fuel = f + 1 := ⟨fuel - 1, by omega⟩
    have hpk : 0 < 2 ^ k := Nat.two_pow_pos k
    have hps : 2 ^ (k + 1) = 2 * 2 ^ k := by rw [Nat.pow_succ]; omega
    have hk32 : 2 ^ (k + 1) < 2 ^ 32 := Nat.pow_lt_pow_right (by omega) hk
    have hc : prepCond (mem, a, b, s, 2 ^ (k + 1)) = true := by simp [prepCond, two32, geU]; omega
    have hdiv : divU 32 (2 ^ (k + 1)) (castSU 32 2) = 2 ^ k := by
      rw [two32, divU_of_lt _ hk32]; omega
    have hcast : castU 64 (2 ^ k) = 2 ^ k := castU_of_lt (by omega)
    have hG : ∀ c, c < 2 ^ w → (fun wi => up (mm (cv wi) s)) c = mulmod w p pn c s := by
      intro c hc
      show up (mm (cv c) s) = _
      rw [L.cv_id c hc, L.mm_eq c s hc hs, L.up_id _ (mulmod_lt _ _ _ _ _)]
    obtain ⟨mem1, e1, w1⟩ := inner_loop w p pn s cv sh (fun wi => up (mm (cv wi) s)) L.cv_id L.sh_eq hG mem a b 1 L.one_lt
      (2 ^ k) (by omega) (by omega)
    have hss : mulmod w p pn s s < 2 ^ w := mulmod_lt _ _ _ _ _
    have hbody : prepBody one cv sh up mm (mem, a, b, s, 2 ^ (k + 1)) = (mem1, a + 2 ^ k, b + 2 ^ k, mulmod w p pn s s, 2 ^ k) := by
      simp only [prepBody, hdiv, hcast]
      rw [forCount_eq_foldl 64 (2 ^ k) _ _ (by omega), L.one_eq, e1, L.mm_eq s s hs hs]
    obtain ⟨mem2, e2, w2⟩ := ih f mem1 (a + 2 ^ k) (b + 2 ^ k) (mulmod w p pn s s) (by omega) (by omega) hss
      (by omega) (by rw [w1.1]; omega)
    refine ⟨mem2, ?_, ?_⟩
    · rw [CSem.whileFuel, hc, if_pos rfl, hbody, e2]
      have ea : a + 2 ^ k + (2 ^ k - 1) = a + (2 ^ (k + 1) - 1) := by omega
      have eb : b + 2 ^ k + (2 ^ k - 1) = b + (2 ^ (k + 1) - 1) := by omega
      rw [ea, eb]
      rfl
    · show Wr (shoupOf w p) mem mem2 a b (iterMul w p pn s (2 ^ k) 1 ++ prepWtab w p pn k (mulmod w p pn s s))
      have hl := length_iterMul w p pn s (2 ^ k) 1
      apply Wr_append w1
      · rw [hl]; exact w2
      · rw [hl, length_prepWtab]; omega

/-- `prep_wtab` on a row of `mem.length` words with the two pointers at offsets `a`, `b`: the model's `prepWtab` list from `a`
on, its Shoup companions from `b` on, everything else untouched; final offsets `a + (n-1)`, `b + (n-1)`; `K = 1` at the exit. -/
theorem prepNF_spec {w p pn one : Nat} {cv sh up : Nat → Nat} {mm : Nat → Nat → Nat} (L : LimbOK w p pn one cv sh up mm)
    (k : Nat) (mem : List Nat) (a b s : Nat) (hk : k < 32) (hs : s < 2 ^ w)
    (hab : a + (2 ^ k - 1) ≤ b) (hb : b + (2 ^ k - 1) ≤ mem.length) :
    ∃ mem', prepNF one cv sh up mm (2 ^ k) mem a b s = (mem', a + (2 ^ k - 1), b + (2 ^ k - 1), sqrIter w p pn k s, 1) ∧
      Wr (shoupOf w p) mem mem' a b (prepWtab w p pn k s) := by
  have hk32 : 2 ^ k < 2 ^ 32 := Nat.pow_lt_pow_right (by omega) hk
  obtain ⟨mem', e, hw⟩ := prep_loop L k 64 mem a b s (by omega) hk hs hab hb
  refine ⟨mem', ?_, hw⟩
  unfold prepNF
  rw [castU_of_lt hk32, e]

/-! ### `static_log2` (meta.hpp recursion, Generated/CrtAst.lean) on powers of two -/

theorem log2_impl_pow : ∀ (fuel k : Nat), k < fuel → fuel ≤ 64 → log2_impl fuel (2 ^ k) = k := by
  intro fuel
  induction fuel with
  | zero => intro k h; omega
  | succ f ih =>
    intro k hk hf
    unfold log2_impl
    cases k with
    | zero => simp
    | succ k =>
      have hp : 0 < 2 ^ k := Nat.two_pow_pos k
      have hne : ¬ (2 ^ (k + 1) = 1) := by rw [Nat.pow_succ]; omega
      have hlt : 2 ^ (k + 1) < 2 ^ 64 := Nat.pow_lt_pow_right (by omega) (by omega)
      have hd : divU 64 (2 ^ (k + 1)) 2 = 2 ^ k := by
        rw [divU_of_lt _ hlt, Nat.pow_succ]; omega
      rw [if_neg hne, hd, ih k (by omega) (by omega), addU_eq, Nat.mod_eq_of_lt (by omega)]; omega

theorem static_log2_pow (k : Nat) (hk : k < 64) : static_log2 (2 ^ k) = k := log2_impl_pow 64 k hk (Nat.le_refl _)

/-! ### the body of `initialize()`'s loop: the generated text with the limb-dependent conversions as parameters -/

/-- `one1` = the literal 1 converted to `value_type`, `cvq` = `static_cast<T>(kMaxPolyDegree/degree)`, `sh1` = `(temp << W) / p` stored
as `T`, `mm` = `Gen.mulmod_uW P_cm [Pn_cm]`, `prep` = `Gen.prep_wtab_uW degree P_cm [Pn_cm]` -/
def initNF (one1 : Nat) (cvq sh1 : Nat → Nat) (mm : Nat → Nat → Nat) (prep : List Nat → Nat → Nat → Nat → List Nat)
    (degree kMax root invN : Nat) (s : InitRow) : InitRow :=
  let shoupomegas := ptrAdd 0 degree
  let shoupinvomegas := ptrAdd 0 degree
  let phi := forCount 32 (subU 64 (static_log2 kMax) (static_log2 degree)) (fun phi i => mm phi phi) root
  let st := forCount 32 degree (tabStep sh1 (fun t => mm t phi)) (s.phis, s.shoupphis, one1)
  let invphi := mm st.2.2 (load st.1 (subU 64 degree (castSU 64 1)))
  let invpolyDegree := mm invN (cvq (divU 64 (castU 64 kMax) degree))
  let st2 := forCount 32 degree (tabStep sh1 (fun t => mm t invphi)) (s.invpoly_times_invphis, s.shoupinvpoly_times_invphis, invpolyDegree)
  { phis := st.1, shoupphis := st.2.1, invpoly_times_invphis := st2.1, shoupinvpoly_times_invphis := st2.2.1,
    omegas := prep s.omegas 0 shoupomegas (mm phi phi), shoupomegas := shoupomegas,
    invomegas := prep s.invomegas 0 shoupinvomegas (mm invphi invphi), shoupinvomegas := shoupinvomegas,
    invpolyDegree := invpolyDegree }

theorem initialize_row_u16_shape (degree kMax P root invN : Nat) (s : InitRow) :
    initialize_row_u16 degree kMax P root invN s =
      initNF (castSU 16 1) (castU 16) (fun t => castU 16 (divU 32 (shlU 32 (castU 32 t) 16) (castU 32 P))) (mulmod_u16 P)
        (prep_wtab_u16 degree P) degree kMax root invN s := rfl
theorem initialize_row_u32_shape (degree kMax P root invN : Nat) (s : InitRow) :
    initialize_row_u32 degree kMax P root invN s =
      initNF (castSU 32 1) (castU 32) (fun t => castU 32 (divU 64 (shlU 64 (castU 64 t) 32) (castU 64 P))) (mulmod_u32 P)
        (prep_wtab_u32 degree P) degree kMax root invN s := rfl
theorem initialize_row_u64_shape (degree kMax P Pn root invN : Nat) (s : InitRow) :
    initialize_row_u64 degree kMax P Pn root invN s =
      initNF (castSU 64 1) (fun x => x) (fun t => castU 64 (divU 128 (shlU 128 (castU 128 t) 64) (castU 128 P))) (mulmod_u64 P Pn)
        (prep_wtab_u64 degree P Pn) degree kMax root invN s := rfl

/-- the tables of one modulus as the C++ lays them out, compared with the model's `NttTables` -/
structure RowEq (n : Nat) (g : InitRow) (t : NttTables) (invDeg : Nat) : Prop where
  phis : g.phis = t.phis
  shoupphis : g.shoupphis = t.shoupphis
  invphis : g.invpoly_times_invphis = t.invphis
  shoupinvphis : g.shoupinvpoly_times_invphis = t.shoupinvphis
  shoupomegas_off : g.shoupomegas = n
  omegas : g.omegas.take (n - 1) = t.omegas
  shoupomegas : (g.omegas.drop g.shoupomegas).take (n - 1) = t.shoupomegas
  shoupinvomegas_off : g.shoupinvomegas = n
  invomegas : g.invomegas.take (n - 1) = t.invomegas
  shoupinvomegas : (g.invomegas.drop g.shoupinvomegas).take (n - 1) = t.shoupinvomegas
  invpolyDegree : g.invpolyDegree = invDeg
  len_omegas : g.omegas.length = 2 * n
  len_invomegas : g.invomegas.length = 2 * n

theorem sqr_loop (w p pn : Nat) (mm : Nat → Nat → Nat) (hmm : ∀ x y, x < 2 ^ w → y < 2 ^ w → mm x y = mulmod w p pn x y) :
    ∀ j x, x < 2 ^ w → (List.range j).foldl (fun phi (i : Nat) => mm phi phi) x = sqrIter w p pn j x ∧ sqrIter w p pn j x < 2 ^ w := by
  intro j
  induction j with
  | zero => intro x hx; exact ⟨rfl, hx⟩
  | succ j ih =>
    intro x hx
    have h := ih x hx
    have e : sqrIter w p pn (j + 1) x = mulmod w p pn (sqrIter w p pn j x) (sqrIter w p pn j x) := by
      rw [sqrIter_eq_iter, iter_succ', ← sqrIter_eq_iter]
    rw [List.range_succ, List.foldl_append, h.1, e]
    simp only [List.foldl_cons, List.foldl_nil]
    rw [hmm _ _ h.2 h.2]
    exact ⟨rfl, mulmod_lt _ _ _ _ _⟩

theorem tab_congr (h : Nat → Nat) (f g : Nat → Nat) (w : Nat) (hfg : ∀ x, x < 2 ^ w → f x = g x) (hg : ∀ x, g x < 2 ^ w) :
    ∀ m (l l' : List Nat) (t : Nat), t < 2 ^ w →
      (List.range m).foldl (tabStep h f) (l, l', t) = (List.range m).foldl (tabStep h g) (l, l', t) ∧
      ((List.range m).foldl (tabStep h g) (l, l', t)).2.2 < 2 ^ w := by
  intro m
  induction m with
  | zero => intro l l' t ht; exact ⟨rfl, ht⟩
  | succ m ih =>
    intro l l' t ht
    obtain ⟨e, hlt⟩ := ih l l' t ht
    rw [List.range_succ, List.foldl_append, List.foldl_append, e]
    simp only [List.foldl_cons, List.foldl_nil, tabStep]
    rw [hfg _ hlt]
    exact ⟨rfl, hg _⟩

theorem take_of_Wr0 {S : Nat → Nat} {mem mem' : List Nat} {b : Nat} {vals : List Nat}
    (h : Wr S mem mem' 0 b vals) (hab : vals.length ≤ b) (hb : b + vals.length ≤ mem.length) :
    mem'.take vals.length = vals ∧ (mem'.drop b).take vals.length = vals.map S := by
  have := Wr_read h (by omega) hb
  simpa using this

/-- `initNF` builds the model's tables.  `hprep`: the `prep` it calls is the `.1` of the `prepNF` of the same limb. -/
theorem initNF_spec {w p pn one one1 : Nat} {cv sh up cvq sh1 : Nat → Nat} {mm : Nat → Nat → Nat}
    (L : LimbOK w p pn one cv sh up mm) (hone1 : one1 = 1) (hcvq : ∀ x, x < 2 ^ 64 → cvq x = x % 2 ^ w)
    (hsh1 : ∀ c, c < 2 ^ w → sh1 c = shoupOf w p c)
    (r : Row) (hrp : r.p = p) (hrpn : r.pn = pn) (lk k : Nat) (s : InitRow)
    (prep : List Nat → Nat → Nat → Nat → List Nat)
    (hprep : ∀ mem a b x, prep mem a b x = (prepNF one cv sh up mm (2 ^ k) mem a b x).1)
    (hroot : r.root < 2 ^ w) (hinv : r.invN < 2 ^ w) (hk : k ≤ lk) (hlk : lk < 32) (hs : s.wf (2 ^ k)) :
    RowEq (2 ^ k) (initNF one1 cvq sh1 mm prep (2 ^ k) (2 ^ lk) r.root r.invN s) (initTables w lk r k)
      (mulmod w p pn r.invN ((2 ^ lk / 2 ^ k) % 2 ^ w)) := by
  subst hrp hrpn
  obtain ⟨h1, h2, h3, h4, h5, h6⟩ := hs
  have hk32 : k < 32 := by omega
  have hn32 : 2 ^ k < 2 ^ 32 := Nat.pow_lt_pow_right (by omega) hk32
  have hK32 : 2 ^ lk < 2 ^ 32 := Nat.pow_lt_pow_right (by omega) hlk
  have hn0 : 0 < 2 ^ k := Nat.two_pow_pos k
  -- phi
  have hsub : subU 64 (static_log2 (2 ^ lk)) (static_log2 (2 ^ k)) = lk - k := by
    rw [static_log2_pow lk (by omega), static_log2_pow k (by omega), subU_of_le hk (by omega)]
  obtain ⟨ephi, hphi⟩ := sqr_loop w r.p r.pn mm L.mm_eq (lk - k) r.root hroot
  have ephi' : forCount 32 (subU 64 (static_log2 (2 ^ lk)) (static_log2 (2 ^ k))) (fun phi (i : Nat) => mm phi phi) r.root =
      sqrIter w r.p r.pn (lk - k) r.root := by
    rw [hsub, forCount_eq_foldl 32 _ _ _ (by omega), ephi]
  -- the two table loops
  have tab : ∀ (x t : Nat) (l l' : List Nat), x < 2 ^ w → t < 2 ^ w → l.length = 2 ^ k → l'.length = 2 ^ k →
      forCount 32 (2 ^ k) (tabStep sh1 (fun t => mm t x)) (l, l', t) =
        (iterMul w r.p r.pn x (2 ^ k) t, (iterMul w r.p r.pn x (2 ^ k) t).map (shoupOf w r.p),
          iter (fun c => mulmod w r.p r.pn c x) (2 ^ k) t) := by
    intro x t l l' hx ht hl hl'
    rw [forCount_eq_foldl 32 _ _ _ hn32,
      (tab_congr sh1 (fun t => mm t x) (fun c => mulmod w r.p r.pn c x) w (fun c hc => L.mm_eq c x hc hx) (fun c => mulmod_lt _ _ _ _ _)
        (2 ^ k) l l' t ht).1,
      tab_loop_model w r.p r.pn x sh1 l l' t (2 ^ k) hl hl']
    congr 2
    apply List.map_congr_left
    intro c hc
    obtain ⟨j, hj, rfl⟩ := List.getElem_of_mem hc
    have hjn : j < 2 ^ k := by simpa [length_iterMul] using hj
    have : (iterMul w r.p r.pn x (2 ^ k) t)[j] = load (iterMul w r.p r.pn x (2 ^ k) t) j := by
      unfold load; rw [getD_of_lt _ hj]
    rw [this, load_iterMul _ _ _ _ _ _ _ hjn]
    exact hsh1 _ (iter_mulmod_lt _ _ _ _ _ _ ht)
  have hidx : subU 64 (2 ^ k) (castSU 64 1) = 2 ^ k - 1 := by
    rw [castSU_of_lt (by omega), Nat.mod_eq_of_lt (by omega), subU_of_le (by omega) (by omega)]
  have hquo : cvq (divU 64 (castU 64 (2 ^ lk)) (2 ^ k)) = (2 ^ lk / 2 ^ k) % 2 ^ w := by
    have hd : divU 64 (castU 64 (2 ^ lk)) (2 ^ k) = 2 ^ lk / 2 ^ k := by
      rw [castU_of_lt (by omega), divU_of_lt _ (by omega)]
    have hlt : 2 ^ lk / 2 ^ k < 2 ^ 64 := Nat.lt_of_le_of_lt (Nat.div_le_self _ _) (by omega)
    rw [hd, hcvq _ hlt]
  -- name the model's ingredients
  unfold initNF initTables
  simp only [ephi', hone1, hidx, hquo]
  rw [tab _ 1 _ _ hphi L.one_lt h1 h2]
  simp only
  have hphiN : (iterMul w r.p r.pn (sqrIter w r.p r.pn (lk - k) r.root) (2 ^ k + 1) 1).getD (2 ^ k) 0 =
      iter (fun c => mulmod w r.p r.pn c (sqrIter w r.p r.pn (lk - k) r.root)) (2 ^ k) 1 :=
    load_iterMul _ _ _ _ _ _ _ (by omega)
  have hlast : load (iterMul w r.p r.pn (sqrIter w r.p r.pn (lk - k) r.root) (2 ^ k) 1) (2 ^ k - 1) =
      (iterMul w r.p r.pn (sqrIter w r.p r.pn (lk - k) r.root) (2 ^ k) 1).getD (2 ^ k - 1) 0 := rfl
  have hl1 : (iterMul w r.p r.pn (sqrIter w r.p r.pn (lk - k) r.root) (2 ^ k) 1).getD (2 ^ k - 1) 0 < 2 ^ w := by
    have := load_iterMul w r.p r.pn (sqrIter w r.p r.pn (lk - k) r.root) (2 ^ k) 1 (2 ^ k - 1) (by omega)
    unfold load at this
    rw [this]; exact iter_mulmod_lt _ _ _ _ _ _ L.one_lt
  have hN : iter (fun c => mulmod w r.p r.pn c (sqrIter w r.p r.pn (lk - k) r.root)) (2 ^ k) 1 < 2 ^ w :=
    iter_mulmod_lt _ _ _ _ _ _ L.one_lt
  rw [hlast, L.mm_eq _ _ hN hl1, ← hphiN]
  have hq : (2 ^ lk / 2 ^ k) % 2 ^ w < 2 ^ w := Nat.mod_lt _ (Nat.two_pow_pos _)
  rw [L.mm_eq _ _ hinv hq]
  have hinvphi := mulmod_lt w r.p r.pn ((iterMul w r.p r.pn (sqrIter w r.p r.pn (lk - k) r.root) (2 ^ k + 1) 1).getD (2 ^ k) 0)
    ((iterMul w r.p r.pn (sqrIter w r.p r.pn (lk - k) r.root) (2 ^ k) 1).getD (2 ^ k - 1) 0)
  rw [tab _ _ _ _ hinvphi (mulmod_lt _ _ _ _ _) h3 h4]
  simp only
  rw [L.mm_eq _ _ hphi hphi, L.mm_eq _ _ hinvphi hinvphi]
  -- the two calls of prep_wtab
  obtain ⟨m1, e1, w1⟩ := prepNF_spec L k s.omegas 0 (ptrAdd 0 (2 ^ k)) (mulmod w r.p r.pn (sqrIter w r.p r.pn (lk - k) r.root)
    (sqrIter w r.p r.pn (lk - k) r.root)) hk32 (mulmod_lt _ _ _ _ _) (by unfold ptrAdd; omega) (by unfold ptrAdd; omega)
  obtain ⟨m2, e2, w2⟩ := prepNF_spec L k s.invomegas 0 (ptrAdd 0 (2 ^ k)) (mulmod w r.p r.pn
    (mulmod w r.p r.pn ((iterMul w r.p r.pn (sqrIter w r.p r.pn (lk - k) r.root) (2 ^ k + 1) 1).getD (2 ^ k) 0)
      ((iterMul w r.p r.pn (sqrIter w r.p r.pn (lk - k) r.root) (2 ^ k) 1).getD (2 ^ k - 1) 0))
    (mulmod w r.p r.pn ((iterMul w r.p r.pn (sqrIter w r.p r.pn (lk - k) r.root) (2 ^ k + 1) 1).getD (2 ^ k) 0)
      ((iterMul w r.p r.pn (sqrIter w r.p r.pn (lk - k) r.root) (2 ^ k) 1).getD (2 ^ k - 1) 0)))
    hk32 (mulmod_lt _ _ _ _ _) (by unfold ptrAdd; omega) (by unfold ptrAdd; omega)
  have hp0 : ptrAdd 0 (2 ^ k) = 2 ^ k := by unfold ptrAdd; omega
  have r1 := take_of_Wr0 w1 (by rw [length_prepWtab, hp0]; omega) (by rw [length_prepWtab, hp0]; omega)
  have r2 := take_of_Wr0 w2 (by rw [length_prepWtab, hp0]; omega) (by rw [length_prepWtab, hp0]; omega)
  rw [length_prepWtab] at r1 r2
  constructor <;> simp only [hprep, e1, e2]
  · exact hp0
  · exact r1.1
  · exact r1.2
  · exact hp0
  · exact r2.1
  · exact r2.2
  · rw [w1.1, h5]
  · rw [w2.1, h6]

/-! ### the three limbs -/

theorem mulmod_16 (p pn x y : Nat) : mulmod 16 p pn x y = mulmodDiv 16 p x y := by simp [mulmod]
theorem mulmod_32 (p pn x y : Nat) : mulmod 32 p pn x y = mulmodDiv 32 p x y := by simp [mulmod]
theorem mulmod_64 (p pn x y : Nat) : mulmod 64 p pn x y = mulmod64 p pn x y := by simp [mulmod]

/-- `(wi << W) / p` stored as `T`, `wi` already of the greater type -/
theorem sh_wide {w c p : Nat} (hc : c < 2 ^ w) (hp : p < 2 ^ w) :
    castU w (divU (w + w) (shlU (w + w) c w) (castU (w + w) p)) = ((c * 2 ^ w) % 2 ^ (w + w) / p) % 2 ^ w := by
  have hww : 2 ^ w ≤ 2 ^ (w + w) := Nat.pow_le_pow_right (by omega) (by omega)
  rw [castU_of_lt (Nat.lt_of_lt_of_le hp hww), shlU_eq, divU_of_lt _ (Nat.mod_lt _ (Nat.two_pow_pos _)), castU_eq]

theorem limb16 (p pn : Nat) (hp : p < 2 ^ 16) :
    LimbOK 16 p pn (castSU 32 1) (castU 16) (fun wi => castU 16 (divU 32 (shlU 32 wi 16) (castU 32 p))) (castU 32) (mulmod_u16 p) where
  one_eq := by rw [castSU_of_lt (by omega)]
  one_lt := by omega
  cv_id := fun c hc => castU_of_lt hc
  up_id := fun c hc => castU_of_lt (by omega)
  sh_eq := fun c hc => sh_wide (w := 16) hc hp
  mm_eq := fun x y hx hy => by rw [mulmod_16]; exact mulmod_u16_eq p x y hp hx hy

theorem limb32 (p pn : Nat) (hp : p < 2 ^ 32) :
    LimbOK 32 p pn (castSU 64 1) (castU 32) (fun wi => castU 32 (divU 64 (shlU 64 wi 32) (castU 64 p))) (castU 64) (mulmod_u32 p) where
  one_eq := by rw [castSU_of_lt (by omega)]
  one_lt := by omega
  cv_id := fun c hc => castU_of_lt hc
  up_id := fun c hc => castU_of_lt (by omega)
  sh_eq := fun c hc => sh_wide (w := 32) hc hp
  mm_eq := fun x y hx hy => by rw [mulmod_32]; exact mulmod_u32_eq p x y hp hx hy

theorem limb64 (p pn : Nat) (hp : p < 2 ^ 64) (hpn : pn < 2 ^ 64) :
    LimbOK 64 p pn (castSU 128 1) (castU 64) (fun wi => castU 64 (divU 128 (shlU 128 wi 64) (castU 128 p))) (castU 128) (mulmod_u64 p pn) where
  one_eq := by rw [castSU_of_lt (by omega)]
  one_lt := by omega
  cv_id := fun c hc => castU_of_lt hc
  up_id := fun c hc => castU_of_lt (by omega)
  sh_eq := fun c hc => sh_wide (w := 64) hc hp
  mm_eq := fun x y hx hy => by rw [mulmod_64]; exact mulmod_u64_eq p pn x y hp hpn hx hy

/-- `prep_wtab` as translated, 16 bit: on a row `mem` with the pointers at offsets `a + (n-1) ≤ b`, `b + (n-1) ≤ mem.length`
(`n = degree = 2^k < 2^32`, `w < 2^16`): the model's list from `a`, its Shoup companions from `b`, the rest untouched; the
pointers end at `a + (n-1)`, `b + (n-1)`; `K = 1` (the loop has left: fuel 64 sufficed). -/
theorem prep_wtab_u16_eq (p pn k : Nat) (mem : List Nat) (a b s : Nat) (hp : p < 2 ^ 16) (hs : s < 2 ^ 16) (hk : k < 32)
    (hab : a + (2 ^ k - 1) ≤ b) (hb : b + (2 ^ k - 1) ≤ mem.length) :
    ∃ mem', prep_wtab_u16_state (2 ^ k) p mem a b s = (mem', a + (2 ^ k - 1), b + (2 ^ k - 1), sqrIter 16 p pn k s, 1) ∧
      Wr (shoupOf 16 p) mem mem' a b (prepWtab 16 p pn k s) := by
  rw [prep_wtab_u16_shape]; exact prepNF_spec (limb16 p pn hp) k mem a b s hk hs hab hb
theorem prep_wtab_u32_eq (p pn k : Nat) (mem : List Nat) (a b s : Nat) (hp : p < 2 ^ 32) (hs : s < 2 ^ 32) (hk : k < 32)
    (hab : a + (2 ^ k - 1) ≤ b) (hb : b + (2 ^ k - 1) ≤ mem.length) :
    ∃ mem', prep_wtab_u32_state (2 ^ k) p mem a b s = (mem', a + (2 ^ k - 1), b + (2 ^ k - 1), sqrIter 32 p pn k s, 1) ∧
      Wr (shoupOf 32 p) mem mem' a b (prepWtab 32 p pn k s) := by
  rw [prep_wtab_u32_shape]; exact prepNF_spec (limb32 p pn hp) k mem a b s hk hs hab hb
theorem prep_wtab_u64_eq (p pn k : Nat) (mem : List Nat) (a b s : Nat) (hp : p < 2 ^ 64) (hpn : pn < 2 ^ 64) (hs : s < 2 ^ 64) (hk : k < 32)
    (hab : a + (2 ^ k - 1) ≤ b) (hb : b + (2 ^ k - 1) ≤ mem.length) :
    ∃ mem', prep_wtab_u64_state (2 ^ k) p pn mem a b s = (mem', a + (2 ^ k - 1), b + (2 ^ k - 1), sqrIter 64 p pn k s, 1) ∧
      Wr (shoupOf 64 p) mem mem' a b (prepWtab 64 p pn k s) := by
  rw [prep_wtab_u64_shape]; exact prepNF_spec (limb64 p pn hp hpn) k mem a b s hk hs hab hb

/-- `k < 32` is needed: `unsigned K = degree` truncates, so at `degree = 2^32` the translated `prep_wtab` writes nothing
(`K = 0`), whereas the model's `prepWtab … 32 …` has `2^32 - 1` entries. -/
theorem prep_needs_degree_lt :
    prep_wtab_u16_state (2 ^ 32) 15361 [7, 7, 7, 7] 0 2 5 = ([7, 7, 7, 7], 0, 2, 5, 0) ∧ (prepWtab 16 15361 0 32 5).length = 2 ^ 32 - 1 :=
  ⟨by decide, length_prepWtab _ _ _ _ _⟩

/-- the table builder as translated from `initialize()`, 16 bit, returns exactly the model's tables (layout: `RowEq`) -/
theorem initialize_row_u16_eq (r : Row) (lk k : Nat) (s : InitRow) (hp : r.p < 2 ^ 16) (hroot : r.root < 2 ^ 16)
    (hinv : r.invN < 2 ^ 16) (hk : k ≤ lk) (hlk : lk < 32) (hs : s.wf (2 ^ k)) :
    RowEq (2 ^ k) (initialize_row_u16 (2 ^ k) (2 ^ lk) r.p r.root r.invN s) (initTables 16 lk r k)
      (mulmod 16 r.p r.pn r.invN ((2 ^ lk / 2 ^ k) % 2 ^ 16)) := by
  rw [initialize_row_u16_shape]
  exact initNF_spec (limb16 r.p r.pn hp) (by rw [castSU_of_lt (by omega)]) (fun x _ => castU_eq 16 x)
    (fun c hc => shoup_tail (w := 16) hc hp) r rfl rfl lk k s _
    (fun mem a b x => by show (prep_wtab_u16_state _ _ _ _ _ _).1 = _; rw [prep_wtab_u16_shape]) hroot hinv hk hlk hs

theorem initialize_row_u32_eq (r : Row) (lk k : Nat) (s : InitRow) (hp : r.p < 2 ^ 32) (hroot : r.root < 2 ^ 32)
    (hinv : r.invN < 2 ^ 32) (hk : k ≤ lk) (hlk : lk < 32) (hs : s.wf (2 ^ k)) :
    RowEq (2 ^ k) (initialize_row_u32 (2 ^ k) (2 ^ lk) r.p r.root r.invN s) (initTables 32 lk r k)
      (mulmod 32 r.p r.pn r.invN ((2 ^ lk / 2 ^ k) % 2 ^ 32)) := by
  rw [initialize_row_u32_shape]
  exact initNF_spec (limb32 r.p r.pn hp) (by rw [castSU_of_lt (by omega)]) (fun x _ => castU_eq 32 x)
    (fun c hc => shoup_tail (w := 32) hc hp) r rfl rfl lk k s _
    (fun mem a b x => by show (prep_wtab_u32_state _ _ _ _ _ _).1 = _; rw [prep_wtab_u32_shape]) hroot hinv hk hlk hs

theorem initialize_row_u64_eq (r : Row) (lk k : Nat) (s : InitRow) (hp : r.p < 2 ^ 64) (hpn : r.pn < 2 ^ 64) (hroot : r.root < 2 ^ 64)
    (hinv : r.invN < 2 ^ 64) (hk : k ≤ lk) (hlk : lk < 32) (hs : s.wf (2 ^ k)) :
    RowEq (2 ^ k) (initialize_row_u64 (2 ^ k) (2 ^ lk) r.p r.pn r.root r.invN s) (initTables 64 lk r k)
      (mulmod 64 r.p r.pn r.invN ((2 ^ lk / 2 ^ k) % 2 ^ 64)) := by
  rw [initialize_row_u64_shape]
  exact initNF_spec (limb64 r.p r.pn hp hpn) (by rw [castSU_of_lt (by omega)]) (fun x hx => (Nat.mod_eq_of_lt hx).symm)
    (fun c hc => shoup_tail (w := 64) hc hp) r rfl rfl lk k s _
    (fun mem a b x => by show (prep_wtab_u64_state _ _ _ _ _ _ _).1 = _; rw [prep_wtab_u64_shape]) hroot hinv hk hlk hs

end Nfl.InitAstEq
