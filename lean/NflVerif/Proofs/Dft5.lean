/-
Orthogonality of the powers of a `2^k`-th root of `-1`, and the inversion / convolution theorems
(C01/C02 mathematical layer, part 5).  Everything holds in an arbitrary commutative ring.
-/
import NflVerif.Proofs.Dft4
import Mathlib.Tactic.LinearCombination

namespace Nfl.Dft

variable {R : Type*} [CommRing R]

/-! ### orthogonality -/

theorem geom_sum_root (k : Nat) (ω : R) (hω : ω ^ 2 ^ k = -1) (d : Nat) (hd0 : 0 < d)
    (hd : d < 2 ^ (k + 1)) : ∑ i ∈ Finset.range (2 ^ (k + 1)), ω ^ (i * d) = 0 := by
  induction k generalizing ω d with
  | zero =>
    have : d = 1 := by simp at hd; omega
    subst this
    simp at hω
    simp [Finset.sum_range_succ, hω]
  | succ k ih =>
    have h2 : 2 ^ (k + 1 + 1) = 2 ^ (k + 1) + 2 ^ (k + 1) := by rw [pow_succ]; omega
    rw [h2, Finset.sum_range_add]
    rcases Nat.even_or_odd' d with ⟨m, rfl | rfl⟩
    · have hm0 : 0 < m := by omega
      have hm : m < 2 ^ (k + 1) := by omega
      have hω2 : (ω * ω) ^ 2 ^ k = -1 := by
        rw [← pow_two, ← pow_mul, ← pow_succ']
        exact hω
      have e : ∀ i, ω ^ (i * (2 * m)) = (ω * ω) ^ (i * m) := by
        intro i
        rw [← pow_two, ← pow_mul]
        congr 1
        ring
      simp only [pow_shift_even (k + 1) ω hω, e]
      rw [ih (ω * ω) hω2 m hm0 hm, add_zero]
    · simp only [pow_shift_odd (k + 1) ω hω]
      rw [Finset.sum_neg_distrib, add_neg_cancel]

theorem inv_root (m : Nat) (ω ωi : R) (hinv : ωi * ω = 1) (hω : ω ^ m = -1) : ωi ^ m = -1 := by
  have h : ωi ^ m * ω ^ m = 1 := by rw [← mul_pow, hinv, one_pow]
  rw [hω] at h
  linear_combination -h

theorem orthogonality (k : Nat) (ω ωi : R) (hinv : ωi * ω = 1)
    (hω : k = 0 ∨ ω ^ 2 ^ (k - 1) = -1) (j s : Nat) (hj : j < 2 ^ k) (hs : s < 2 ^ k) :
    ∑ i ∈ Finset.range (2 ^ k), ω ^ (i * j) * ωi ^ (i * s) =
      if j = s then (2 ^ k : R) else 0 := by
  have hinv' : ω * ωi = 1 := by rw [mul_comm]; exact hinv
  cases k with
  | zero =>
    have hj0 : j = 0 := by simpa using hj
    have hs0 : s = 0 := by simpa using hs
    subst hj0 hs0
    simp
  | succ k =>
    have hω' : ω ^ 2 ^ k = -1 := by simpa using hω
    have hωi : ωi ^ 2 ^ k = -1 := inv_root _ ω ωi hinv hω'
    rcases Nat.lt_trichotomy j s with h | h | h
    · rw [if_neg (by omega)]
      have e : ∀ i, ω ^ (i * j) * ωi ^ (i * s) = ωi ^ (i * (s - j)) := by
        intro i
        have : i * s = i * j + i * (s - j) := by rw [← Nat.mul_add]; congr 1; omega
        rw [this, pow_add, ← mul_assoc, ← mul_pow, hinv', one_pow, one_mul]
      simp only [e]
      exact geom_sum_root k ωi hωi (s - j) (by omega) (by omega)
    · subst h
      rw [if_pos rfl]
      have e : ∀ i, ω ^ (i * j) * ωi ^ (i * j) = 1 := by
        intro i
        rw [← mul_pow, hinv', one_pow]
      simp [e]
    · rw [if_neg (by omega)]
      have e : ∀ i, ω ^ (i * j) * ωi ^ (i * s) = ω ^ (i * (j - s)) := by
        intro i
        have : i * j = i * (j - s) + i * s := by rw [← Nat.mul_add]; congr 1; omega
        rw [this, pow_add, mul_assoc, ← mul_pow, hinv', one_pow, mul_one]
      simp only [e]
      exact geom_sum_root k ω hω' (j - s) (by omega) (by omega)

/-! ### closed form of `invSpec` -/

theorem invSpec_length (k : Nat) (φi ninv : R) (y : List R) :
    (invSpec k φi ninv y).length = 2 ^ k := by
  simp [invSpec, permute_length, powers_length]

theorem getD_map_powers (c φ : R) (n s : Nat) (hs : s < n) :
    ((powers φ n).map (c * ·)).getD s 0 = c * φ ^ s := by
  unfold powers
  rw [List.map_map]
  exact getD_map_range _ _ _ hs

theorem invSpec_getD (k : Nat) (φi ninv : R) (y : List R) (hφi : φi ^ 2 ^ k = -1) (s : Nat)
    (hs : s < 2 ^ k) :
    (invSpec k φi ninv y).getD s 0 =
      (∑ i ∈ Finset.range (2 ^ k), y.getD (bitrev k i) 0 * (φi * φi) ^ (i * s)) *
        (ninv * φi ^ s) := by
  unfold invSpec
  rw [getD_zipWith _ _ _ _ (by rw [permute_length]; exact hs)
      (by rw [List.length_map, powers_length]; exact hs),
    getD_map_powers _ _ _ _ hs, getD_permute _ _ _ hs,
    dif_spec' k (φi * φi) _ (permute_length k y) (sq_root_cond k φi hφi) _ (bitrev_lt k s hs),
    bitrev_involutive k s hs]
  congr 1
  apply Finset.sum_congr rfl
  intro i hi
  rw [Finset.mem_range] at hi
  rw [getD_permute _ _ _ hi]

/-! ### inversion -/

theorem sq_inv (φ φi : R) (hinv : φi * φ = 1) : (φi * φi) * (φ * φ) = 1 := by
  linear_combination (φi * φ + 1) * hinv

theorem inv_ntt (k : Nat) (φ φi ninv : R) (a : List R) (hφ : φ ^ 2 ^ k = -1)
    (hinv : φi * φ = 1) (hn : ninv * (2 ^ k : R) = 1) (ha : a.length = 2 ^ k) :
    invSpec k φi ninv (nttSpec k φ a) = a := by
  have hφi : φi ^ 2 ^ k = -1 := inv_root _ φ φi hinv hφ
  apply ext_getD (by rw [invSpec_length, ha])
  intro s hs
  rw [invSpec_length] at hs
  rw [invSpec_getD k φi ninv _ hφi s hs]
  have key : ∀ i ∈ Finset.range (2 ^ k),
      (nttSpec k φ a).getD (bitrev k i) 0 * (φi * φi) ^ (i * s) =
        ∑ j ∈ Finset.range (2 ^ k),
          a.getD j 0 * φ ^ j * ((φ * φ) ^ (i * j) * (φi * φi) ^ (i * s)) := by
    intro i hi
    rw [Finset.mem_range] at hi
    rw [nttSpec_getD k φ a ha hφ _ (bitrev_lt k i hi), bitrev_involutive k i hi, Finset.sum_mul]
    apply Finset.sum_congr rfl
    intro j _
    rw [Nat.mul_comm j i]
    ring
  rw [Finset.sum_congr rfl key, Finset.sum_comm]
  have key2 : ∀ j ∈ Finset.range (2 ^ k),
      ∑ i ∈ Finset.range (2 ^ k),
          a.getD j 0 * φ ^ j * ((φ * φ) ^ (i * j) * (φi * φi) ^ (i * s)) =
        if j = s then a.getD j 0 * φ ^ j * (2 ^ k : R) else 0 := by
    intro j hj
    rw [Finset.mem_range] at hj
    rw [← Finset.mul_sum,
      orthogonality k (φ * φ) (φi * φi) (sq_inv φ φi hinv) (sq_root_cond k φ hφ) j s hj hs]
    split_ifs <;> simp
  rw [Finset.sum_congr rfl key2, Finset.sum_ite_eq', if_pos (Finset.mem_range.mpr hs)]
  have h1 : φi ^ s * φ ^ s = 1 := by rw [← mul_pow, hinv, one_pow]
  linear_combination (a.getD s 0 * (ninv * 2 ^ k)) * h1 + a.getD s 0 * hn

theorem ntt_inv (k : Nat) (φ φi ninv : R) (y : List R) (hφ : φ ^ 2 ^ k = -1)
    (hinv : φi * φ = 1) (hn : ninv * (2 ^ k : R) = 1) (hy : y.length = 2 ^ k) :
    nttSpec k φ (invSpec k φi ninv y) = y := by
  have hφi : φi ^ 2 ^ k = -1 := inv_root _ φ φi hinv hφ
  have hlen := invSpec_length k φi ninv y
  apply ext_getD (by rw [nttSpec_length _ _ _ hlen, hy])
  intro r hr
  rw [nttSpec_length _ _ _ hlen] at hr
  rw [nttSpec_getD k φ _ hlen hφ r hr]
  have hB := bitrev_lt k r hr
  have key : ∀ s ∈ Finset.range (2 ^ k),
      (invSpec k φi ninv y).getD s 0 * φ ^ s * (φ * φ) ^ (s * bitrev k r) =
        ∑ i ∈ Finset.range (2 ^ k),
          y.getD (bitrev k i) 0 * ninv *
            ((φ * φ) ^ (s * bitrev k r) * (φi * φi) ^ (s * i)) := by
    intro s hs
    rw [Finset.mem_range] at hs
    rw [invSpec_getD k φi ninv y hφi s hs, Finset.sum_mul, Finset.sum_mul, Finset.sum_mul]
    apply Finset.sum_congr rfl
    intro i _
    have h1 : φi ^ s * φ ^ s = 1 := by rw [← mul_pow, hinv, one_pow]
    rw [Nat.mul_comm i s]
    linear_combination
      (y.getD (bitrev k i) 0 * (φi * φi) ^ (s * i) * ninv * (φ * φ) ^ (s * bitrev k r)) * h1
  rw [Finset.sum_congr rfl key, Finset.sum_comm]
  have key2 : ∀ i ∈ Finset.range (2 ^ k),
      ∑ s ∈ Finset.range (2 ^ k),
          y.getD (bitrev k i) 0 * ninv *
            ((φ * φ) ^ (s * bitrev k r) * (φi * φi) ^ (s * i)) =
        if bitrev k r = i then y.getD (bitrev k i) 0 * ninv * (2 ^ k : R) else 0 := by
    intro i hi
    rw [Finset.mem_range] at hi
    rw [← Finset.mul_sum,
      orthogonality k (φ * φ) (φi * φi) (sq_inv φ φi hinv) (sq_root_cond k φ hφ) _ i hB hi]
    split_ifs <;> simp
  rw [Finset.sum_congr rfl key2, Finset.sum_ite_eq, if_pos (Finset.mem_range.mpr hB),
    bitrev_involutive k r hr]
  linear_combination y.getD r 0 * hn

/-! ### convolution theorem -/

theorem root_pow_odd (n : Nat) (φ : R) (hφ : φ ^ n = -1) (B : Nat) :
    (φ ^ (2 * B + 1)) ^ n = -1 := by
  rw [← pow_mul, Nat.mul_comm, pow_mul, hφ, pow_succ, pow_mul, neg_one_sq, one_pow, one_mul]

theorem nttSpec_negacyclic (k : Nat) (φ : R) (a b : List R) (hφ : φ ^ 2 ^ k = -1)
    (ha : a.length = 2 ^ k) (hb : b.length = 2 ^ k) :
    nttSpec k φ (negacyclic (2 ^ k) a b) =
      List.zipWith (· * ·) (nttSpec k φ a) (nttSpec k φ b) := by
  have hc := negacyclic_length (2 ^ k) a b
  have hla := nttSpec_length k φ a ha
  have hlb := nttSpec_length k φ b hb
  apply ext_getD (by simp [nttSpec_length k φ _ hc, hla, hlb])
  intro r hr
  rw [nttSpec_length k φ _ hc] at hr
  rw [getD_zipWith _ _ _ _ (by omega) (by omega), nttSpec_eval k φ _ hc hφ r hr,
    nttSpec_eval k φ a ha hφ r hr, nttSpec_eval k φ b hb hφ r hr,
    negacyclic_eval (2 ^ k) a b ha hb _ (root_pow_odd _ φ hφ _)]

theorem ntt_mul (k : Nat) (φ φi ninv : R) (a b : List R) (hφ : φ ^ 2 ^ k = -1)
    (hinv : φi * φ = 1) (hn : ninv * (2 ^ k : R) = 1) (ha : a.length = 2 ^ k)
    (hb : b.length = 2 ^ k) :
    invSpec k φi ninv (List.zipWith (· * ·) (nttSpec k φ a) (nttSpec k φ b)) =
      negacyclic (2 ^ k) a b := by
  rw [← nttSpec_negacyclic k φ a b hφ ha hb,
    inv_ntt k φ φi ninv _ hφ hinv hn (negacyclic_length _ a b)]

end Nfl.Dft
