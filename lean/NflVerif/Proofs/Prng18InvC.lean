/- C18 helper lemmas, part C: every pair of conflicting accesses to init/key/nonce is ordered by the mutex. -/
import NflVerif.Proofs.Prng18InvA
namespace Nfl.Prng18

structure InvC (s : State) : Prop where
  trInitF : s.init = false → ∀ e ∈ s.trace, s.lock = some e.tid
  trSeed : ∀ h, (s.thr h).pc.seeding = true → ∀ e ∈ s.trace, e.tid = h
  trCs : ∀ e ∈ s.trace, e.cs < s.acq.length ∧ (∀ h, s.lock = some h → e.tid ≠ h → e.cs + 1 < s.acq.length)
  csI : ∀ t, (s.thr t).pc ≠ .idle → (s.thr t).csidx < s.acq.length ∧
      (s.lock = some t → (s.thr t).csidx + 1 = s.acq.length) ∧
      (∀ h, s.lock = some h → h ≠ t → (s.thr t).csidx + 1 < s.acq.length)
  trKeyW : ∀ e ∈ s.trace, e.var = .key → e.isWrite = true →
      ∀ t, t ≠ e.tid → (s.thr t).pc ≠ .idle → e.cs < (s.thr t).csidx
  trShape : ∀ e ∈ s.trace, (e.isWrite = true → e.inside = true) ∧ (e.inside = false → e.var = .key ∧ e.isWrite = false)
  pw : s.trace.Pairwise (fun e1 e2 => Conflict e1 e2 → LockOrdered e1 e2)

theorem invC_init (reqs : Nat → Nat) (n0 : Nat) : InvC (init reqs n0) := by
  constructor <;> simp [init]

/-- a new event `b` of the mutex holder `t` is lock-ordered after every earlier conflicting event -/
theorem holder_event_ok {sd : Seeding} {seedVal : Nat → Nat} {n0 : Nat} {s : State} {t : Nat} (ha : InvA sd seedVal n0 s) (hc : InvC s)
    (hl : s.lock = some t) (v : Var) (w : Bool) (hkey : v = .key → w = true → (s.thr t).pc.seeding = true) :
    ∀ a ∈ s.trace, Conflict a ⟨t, v, w, true, (s.thr t).csidx⟩ → LockOrdered a ⟨t, v, w, true, (s.thr t).csidx⟩ := by
  intro a hamem ⟨hne, hvar, hw⟩
  simp only at hne hvar hw
  have hpc : (s.thr t).pc ≠ .idle := by
    intro h; have := (ha.lockI t).mpr hl; simp [h, Pc.inside] at this
  have h1 := (hc.csI t hpc).2.1 hl
  have h2 := (hc.trCs a hamem).2 t hl hne
  have h3 := hc.trShape a hamem
  refine ⟨?_, by simp only; omega⟩
  cases hai : a.inside with
  | true => rfl
  | false =>
    exfalso
    obtain ⟨hk, hwa⟩ := h3.2 hai
    rw [hwa] at hw
    simp at hw
    have hseed := hkey (by rw [← hvar, hk]) hw
    exact hne (hc.trSeed t hseed a hamem)

theorem invC_step {sd : Seeding} {seedVal : Nat → Nat} {n0 : Nat} {s s' : State} {t : Nat}
    (ha : InvA sd seedVal n0 s) (hi : InvC s) (hs : step sd seedVal s t = some s') : InvC s' := by
  have hi' := hi
  obtain ⟨trInitF, trSeed, trCs, csI, trKeyW, trShape, pw⟩ := hi
  have hlockI := ha.lockI
  have hseedF := ha.seedF
  have hseedPc := ha.seedPc t
  have hseeding := ha.seedingI
  have hpast := ha.pastI t
  cases hpc : (s.thr t).pc <;> simp only [step, hpc] at hs
  case idle =>
    split at hs
    · cases hs
    · split at hs
      · cases hs
      · rename_i hlock
        simp at hs; subst hs
        constructor
        case pw => exact pw
        all_goals (try grind [upd, Pc.inside, Pc.pastInit, Pc.seeding])
  case gen =>
    simp at hs; subst hs
    have hnl : s.lock ≠ some t := by intro h; have := (hlockI t).mpr h; simp [hpc, Pc.inside] at this
    constructor
    case pw =>
      simp only [List.pairwise_append, List.pairwise_cons, List.mem_singleton]
      refine ⟨pw, by simp, ?_⟩
      intro a hamem b hb
      subst hb
      intro ⟨hne, hvar, hw⟩
      simp only at hne hvar hw
      simp at hw
      exact ⟨(trShape a hamem).1 hw, trKeyW a hamem hvar hw t (fun h => hne h.symm) (by simp [hpc])⟩
    all_goals (try grind [upd, Pc.inside, Pc.pastInit, Pc.seeding])
  case unlock =>
    simp at hs; subst hs
    constructor
    case pw => exact pw
    all_goals (try grind [upd, Pc.inside, Pc.pastInit, Pc.seeding])
  case seed =>   -- the call of randombytes: no access to the generator state yet
    simp at hs; subst hs
    constructor
    case pw => exact pw
    all_goals (try grind [upd, Pc.inside, Pc.pastInit, Pc.seeding])
  all_goals
    have hl : s.lock = some t := (hlockI t).mp (by simp [hpc, Pc.inside])
    simp at hs; subst hs
    constructor
    case pw =>
      simp only [List.pairwise_append, List.pairwise_cons, List.mem_singleton]
      refine ⟨pw, by simp, ?_⟩
      intro a hamem b hb
      subst hb
      exact holder_event_ok ha hi' hl _ _ (by intro h1 h2; first | (simp [hpc, Pc.seeding]; done) | cases h1 | cases h2) a hamem
    all_goals (try grind [upd, Pc.inside, Pc.pastInit, Pc.seeding])

end Nfl.Prng18
