/-
Structure of the fixed-weight sampler's output (C09 / C12): the positions are the reservoir fold over an
admissible index tuple, sorted; exactly those positions hold ±1 (the same sign for every modulus), all
others hold 0.
-/
import NflVerif.Proofs.Samplers
import NflVerif.Proofs.Reservoir
namespace Nfl.Samplers
open Nfl.Spec.Samplers (enc)

/-- sign bit used for the `j`-th smallest position -/
def hwtSign (signReq : List Nat) (j : Nat) : Bool := wordAt 8 signReq j &&& 2 ≠ 0

theorem hwtPositions_spec {h n : Nat} (hn : h ≤ n) {tape : Tape} {sorted : List Nat} {rest : Tape}
    (hp : hwtPositions h n tape = some (sorted, rest)) :
    (∃ idx ∈ fwdTuples h (n - h), sorted.Perm (resFold h h (List.range h) idx)) ∧
    sorted.length = h ∧ sorted.Nodup ∧ (∀ a ∈ sorted, a < n) ∧
    ∃ consumed : Tape, tape = consumed ++ rest ∧
      ∀ rest' : Tape, hwtPositions h n (consumed ++ rest') = some (sorted, rest') := by
  unfold hwtPositions at hp
  split at hp
  · simp at hp
  · next st rest0 hrt =>
    simp at hp
    obtain ⟨rfl, rfl⟩ := hp
    obtain ⟨⟨idx, _, e2, e3, e4⟩, c, hc, hc'⟩ := runTape_spec h n tape ⟨h, List.range h⟩ st rest0 hn hrt
    simp only at e2 e3 e4
    have hinv := resFold_invariant (h := h) (idx := idx) (k := h) (hit := List.range h)
      (by simp) List.nodup_range (by intro x hx; exact List.mem_range.1 hx)
    have hperm := isort_perm st.hit
    rw [e3] at hperm ⊢
    refine ⟨⟨idx, mem_fwdTuples.2 ⟨by omega, e4⟩, hperm⟩, ?_, ?_, ?_, c, hc, ?_⟩
    · rw [hperm.length_eq]; exact hinv.1
    · exact (hperm.nodup_iff).2 hinv.2.1
    · intro a ha
      have := hinv.2.2 a ((hperm.mem_iff).1 ha)
      omega
    · intro rest'
      unfold hwtPositions
      rw [hc' rest']; simp only [e3]

theorem setHwt_spec {w n : Nat} {ps : List Nat} {h : Nat} {tape : Tape} {out : Poly}
    (ho : setHwt w n ps h tape = some out) :
    0 < h ∧ h ≤ n ∧ ∃ sorted rest, hwtPositions h n tape = some (sorted, rest) ∧
      out = ps.map fun p => hwtWrite w n p sorted (rest.headD []) := by
  unfold setHwt at ho
  split at ho
  · simp at ho
  · next hh =>
    split at ho
    · simp at ho
    · next sorted rest hp =>
      simp only [Option.some.injEq] at ho
      exact ⟨by omega, by omega, sorted, rest, hp, ho.symm⟩

theorem hwtWrite_getD {w n p : Nat} {sorted : List Nat} (hnd : sorted.Nodup) (hlt : ∀ a ∈ sorted, a < n)
    (signReq : List Nat) (i : Nat) :
    (hwtWrite w n p sorted signReq).getD i 0 =
      if i ∈ sorted then (if hwtSign signReq (sorted.idxOf i) then 1 else pmOf w p) else 0 := by
  unfold hwtWrite
  have := (foldl_set_spec (fun j => if wordAt 8 signReq j &&& 2 ≠ 0 then 1 else pmOf w p) sorted 0
    (List.replicate n 0) hnd (by simpa using hlt)).2 i
  rw [this]
  simp [hwtSign, List.getD_eq_getElem?_getD, List.getElem?_replicate]
  split <;> split <;> simp

theorem word_map (ps : List Nat) (f : Nat → List Nat) (cm i : Nat) (hcm : cm < ps.length) :
    word (ps.map f) cm i = (f ps[cm]).getD i 0 := by
  simp [word, List.getD_eq_getElem?_getD, hcm]

end Nfl.Samplers
