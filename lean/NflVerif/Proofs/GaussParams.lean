/- Lemmas about the exact-integer model of `FastGaussianNoise::init()`'s parameter `k` (Model/GaussParams.lean). -/
import NflVerif.Model.GaussParams

namespace Nfl.Gauss

theorem le_two_pow_clog2 (m : Nat) : m ≤ 2 ^ clog2 m := by
  unfold clog2
  split
  · omega
  · have := @Nat.lt_log2_self (m - 1)
    omega

theorem clog2_le_of_le_two_pow {m j : Nat} (h : m ≤ 2 ^ j) : clog2 m ≤ j := by
  unfold clog2
  split
  · omega
  · rename_i hm
    have hne : m - 1 ≠ 0 := by omega
    have : (m - 1).log2 < j := (Nat.log2_lt hne).2 (by omega)
    omega

theorem clog2_two_pow (j : Nat) : clog2 (2 ^ j) = j := by
  apply Nat.le_antisymm (clog2_le_of_le_two_pow (Nat.le_refl _))
  have h := le_two_pow_clog2 (2 ^ j)
  exact (Nat.pow_le_pow_iff_right (by omega)).1 h

theorem clog2_mono {m m' : Nat} (h : m ≤ m') : clog2 m ≤ clog2 m' :=
  clog2_le_of_le_two_pow (Nat.le_trans h (le_two_pow_clog2 m'))

theorem tailOK_anti {k k' nb sn sd : Nat} (hk : k' ≤ k) (h : tailOK k nb sn sd = true) : tailOK k' nb sn sd = true := by
  simp only [tailOK, decide_eq_true_eq] at *
  refine Nat.le_trans (Nat.mul_le_mul_left _ ?_) h
  omega

theorem precOK_anti {k k' nb bits : Nat} (hk : k' ≤ k) (h : precOK k nb bits = true) : precOK k' nb bits = true := by
  simp only [precOK, decide_eq_true_eq] at *
  exact Nat.lt_of_le_of_lt (Nat.mul_le_mul_right _ (Nat.pow_le_pow_right (by omega) hk)) h

end Nfl.Gauss
