/-
The array-backed evaluators of `Model/SamplersFast.lean` ARE the model functions of `Model/Samplers.lean`:
equalities for all inputs (no side condition).  Core Lean only.
-/
import NflVerif.Model.SamplersFast
import NflVerif.Proofs.Samplers
namespace Nfl.Samplers

theorem wordAtA_toArray (wb : Nat) (req : List Nat) (j : Nat) : wordAtA wb req.toArray j = wordAt wb req j := by
  simp [wordAtA, wordAt, Array.getD_eq_getD_getElem?, List.getD_eq_getElem?_getD]

theorem setUniformFast_eq (w n : Nat) (ps : List Nat) (tape : Tape) :
    setUniformFast w n ps tape = setUniform w n ps tape := by
  simp [setUniformFast, setUniform, wordAtA_toArray]

theorem setBoundedFast_eq (w n : Nat) (ps : List Nat) (B A : Nat) (tape : Tape) :
    setBoundedFast w n ps B A tape = setBounded w n ps B A tape := by
  simp [setBoundedFast, setBounded, wordAtA_toArray]

theorem setZOFast_eq (w n : Nat) (ps : List Nat) (rho : Nat) (tape : Tape) :
    setZOFast w n ps rho tape = setZO w n ps rho tape := by
  simp [setZOFast, setZO, Array.getD_eq_getD_getElem?, List.getD_eq_getElem?_getD]

/-! ### fixed weight -/

theorem words64A_toArray (h : Nat) (req : List Nat) : words64A h req.toArray = words64 h req := by
  simp [words64A, words64, wordAtA_toArray]

theorem resStepA_toList (h : Nat) (hit : Array Nat) (k pos : Nat) :
    (resStepA h hit k pos).toList = resStep h hit.toList k pos := by
  unfold resStepA resStep
  split <;> simp

theorem runBufA_eq (h n : Nat) : ∀ (buf : List Nat) (k : Nat) (hit : Array Nat),
    (runBufA h n k hit buf).1 = (runBuf h n ⟨k, hit.toList⟩ buf).k ∧
    (runBufA h n k hit buf).2.toList = (runBuf h n ⟨k, hit.toList⟩ buf).hit
  | [], k, hit => by simp [runBufA, runBuf]
  | x :: rest, k, hit => by
    unfold runBufA runBuf
    by_cases hk : k ≥ n
    · simp [hk]
    · simp only [hk, if_false]
      by_cases ha : accept k x = true
      · simp only [ha, if_true]
        have := runBufA_eq h n rest (k + 1) (resStepA h hit k (x % (k + 1)))
        rw [resStepA_toList] at this
        exact this
      · simp only [ha]
        exact runBufA_eq h n rest k hit

/-- the state of the array run, read back as a model state -/
def stOf (s : Nat × Array Nat) : HwtSt := ⟨s.1, s.2.toList⟩

theorem runTapeA_eq (h n : Nat) : ∀ (tape : Tape) (k : Nat) (hit : Array Nat),
    (runTapeA h n k hit tape).map (fun r => (stOf r.1, r.2)) = runTape h n ⟨k, hit.toList⟩ tape
  | [], k, hit => by
    unfold runTapeA runTape
    by_cases hk : k ≥ n <;> simp [hk, stOf]
  | req :: t, k, hit => by
    unfold runTapeA runTape
    by_cases hk : k ≥ n
    · simp [hk, stOf]
    · simp only [hk, if_false]
      have hb := runBufA_eq h n (words64A h req.toArray) k hit
      rw [words64A_toArray] at hb
      have := runTapeA_eq h n t (runBufA h n k hit (words64 h req)).1 (runBufA h n k hit (words64 h req)).2
      rw [words64A_toArray]
      rw [this]
      congr 1
      cases hrb : runBuf h n ⟨k, hit.toList⟩ (words64 h req) with
      | mk k' hit' =>
        rw [hrb] at hb
        simp only at hb
        rw [hb.1, hb.2]

theorem mergeSort_eq_isort (l : List Nat) : l.mergeSort (fun a b => decide (a ≤ b)) = isort l := by
  apply List.Perm.eq_of_pairwise (le := fun a b => a ≤ b)
  · intro a b _ _ h1 h2; omega
  · have := List.pairwise_mergeSort (le := fun a b : Nat => decide (a ≤ b))
      (by intro a b c; simp; omega) (by intro a b; simp; omega) l
    simpa using this
  · exact isort_sorted l
  · exact (List.mergeSort_perm l _).trans (isort_perm l).symm

theorem hwtPositionsFast_eq (h n : Nat) (tape : Tape) : hwtPositionsFast h n tape = hwtPositions h n tape := by
  unfold hwtPositionsFast hwtPositions
  have := runTapeA_eq h n tape h (Array.range h)
  simp only [Array.toList_range] at this
  rw [← this]
  cases runTapeA h n h (Array.range h) tape with
  | none => simp
  | some r =>
    obtain ⟨st, rest⟩ := r
    simp [stOf, mergeSort_eq_isort]

theorem foldl_setA_toList (f : Nat → Nat) : ∀ (l : List (Nat × Nat)) (d : Array Nat),
    (l.foldl (fun (d : Array Nat) (pj : Nat × Nat) => d.setIfInBounds pj.1 (f pj.2)) d).toList =
      l.foldl (fun (d : List Nat) (pj : Nat × Nat) => d.set pj.1 (f pj.2)) d.toList
  | [], d => by simp
  | pj :: l, d => by
    simp only [List.foldl_cons]
    rw [foldl_setA_toList f l]
    simp

theorem hwtWriteA_toArray (w n p : Nat) (sorted signReq : List Nat) :
    hwtWriteA w n p sorted signReq.toArray = hwtWrite w n p sorted signReq := by
  unfold hwtWriteA hwtWrite
  have := foldl_setA_toList (fun j => if wordAt 8 signReq j &&& 2 ≠ 0 then 1 else pmOf w p)
    sorted.zipIdx (Array.replicate n 0)
  simp only [wordAtA_toArray]
  rw [this]
  simp

/-- THE FAST EVALUATOR IS THE MODEL (all parameters, all tapes) -/
theorem setHwtFast_eq (w n : Nat) (ps : List Nat) (h : Nat) (tape : Tape) :
    setHwtFast w n ps h tape = setHwt w n ps h tape := by
  unfold setHwtFast setHwt
  rw [hwtPositionsFast_eq]
  split
  · rfl
  · cases hwtPositions h n tape with
    | none => rfl
    | some r =>
      obtain ⟨sorted, rest⟩ := r
      simp [hwtWriteA_toArray]

end Nfl.Samplers

/-! ### the array-backed spec predicates are the spec predicates; the spec's accept test is the model's -/
namespace Nfl.Spec.Samplers
open Nfl.Samplers

theorem getWA_toArray (out : List Nat) (n cm i : Nat) : getWA out.toArray n cm i = getW out n cm i := by
  simp [getWA, getW, Array.getD_eq_getD_getElem?, List.getD_eq_getElem?_getD]

theorem canonicalA_eq (n : Nat) (ps out : List Nat) : canonicalA n ps out.toArray = canonical n ps out := by
  simp [canonicalA, canonical, getWA_toArray]

theorem crtCoefA_eq (n : Nat) (ps out : List Nat) (bound : Nat) (ok : Int → Bool) (i : Nat) :
    crtCoefA n ps out.toArray bound ok i = crtCoef n ps out bound ok i := by
  unfold crtCoefA crtCoef
  cases ps <;> simp [getWA_toArray]

theorem crtConsistentA_eq (n : Nat) (ps out : List Nat) (bound : Nat) (ok : Int → Bool) :
    crtConsistentA n ps out.toArray bound ok = crtConsistent n ps out bound ok := by
  unfold crtConsistentA crtConsistent
  congr 1
  funext i
  exact crtCoefA_eq n ps out bound ok i

theorem encodesA_eq (n : Nat) (ps out : List Nat) (v : Nat → Int) :
    encodesA n ps out.toArray v = encodes n ps out v := by
  simp [encodesA, encodes, getWA_toArray]

theorem supportA_eq (n : Nat) (out : List Nat) (cm : Nat) : supportA n out.toArray cm = support n out cm := by
  simp [supportA, support, getWA_toArray]

/-- "the word's block is a complete block" is the code's test `pos < (SIZE_MAX/(k+1))*(k+1)` -/
theorem specAccept_eq_accept (k x : Nat) : specAccept k x = accept k x := by
  unfold specAccept accept sizeMax
  have := Nat.div_lt_iff_lt_mul (x := x) (y := (2 ^ 64 - 1) / (k + 1)) (k := k + 1) (by omega)
  simp only [this]

/-- a word is rejected iff it is at or above `rejThreshold` -/
theorem accept_iff_lt_rejThreshold (k x : Nat) : accept k x = true ↔ x < rejThreshold k := by
  unfold accept rejThreshold sizeMax
  exact decide_eq_true_iff

end Nfl.Spec.Samplers

/-! ### the specification's positions (`specPositions`, on the flat word stream) are the model's (`hwtPositions`,
on the request tape): same words, request boundaries forgotten -/
namespace Nfl.Samplers
open Nfl.Spec.Samplers

theorem runBuf_done (h n : Nat) (st : HwtSt) (hk : st.k ≥ n) : ∀ l, runBuf h n st l = st
  | [] => by simp [runBuf]
  | _ :: _ => by simp [runBuf, hk]

theorem runBuf_append (h n : Nat) : ∀ (a b : List Nat) (st : HwtSt),
    runBuf h n st (a ++ b) = runBuf h n (runBuf h n st a) b
  | [], b, st => by simp [runBuf]
  | x :: a, b, st => by
    by_cases hk : st.k ≥ n
    · rw [runBuf_done h n st hk, runBuf_done h n st hk, runBuf_done h n st hk]
    · have e1 : ∀ l, runBuf h n st (x :: l) =
          if accept st.k x then runBuf h n ⟨st.k + 1, resStep h st.hit st.k (x % (st.k + 1))⟩ l else runBuf h n st l := by
        intro l; rw [runBuf]; simp only [hk, if_false]
      rw [List.cons_append, e1, e1]
      split
      · exact runBuf_append h n a b _
      · exact runBuf_append h n a b _

/-- the exact-rejection run of the specification, without inverted decisions, is the model's buffer run -/
theorem specRun_eq_runBuf (h n : Nat) : ∀ (ws : List Nat) (t k : Nat) (hit : Array Nat),
    (specRun h n ws t k hit []).1.toList = (runBuf h n ⟨k, hit.toList⟩ ws).hit ∧
    (specRun h n ws t k hit []).2.1 = (runBuf h n ⟨k, hit.toList⟩ ws).k
  | [], t, k, hit => by simp [specRun, runBuf]
  | x :: ws, t, k, hit => by
    unfold specRun runBuf
    by_cases hk : k ≥ n
    · simp [hk]
    · simp only [hk, if_false, List.head?_nil, List.tail_nil]
      have hf : ((none : Option Nat) == some t) = false := rfl
      simp only [hf, Bool.false_eq_true, if_false, specAccept_eq_accept]
      have hb : ∀ b : Bool, (b != false) = b := by intro b; cases b <;> rfl
      simp only [hb]
      by_cases ha : accept k x = true
      · simp only [ha, if_true]
        have := specRun_eq_runBuf h n ws (t + 1) (k + 1) (if x % (k + 1) < h then hit.setIfInBounds (x % (k + 1)) k else hit)
        have e : (if x % (k + 1) < h then hit.setIfInBounds (x % (k + 1)) k else hit).toList =
            resStep h hit.toList k (x % (k + 1)) := by
          unfold resStep; split <;> simp
        rw [e] at this
        exact this
      · simp only [ha]
        exact specRun_eq_runBuf h n ws (t + 1) k hit

theorem runTape_flat (h n : Nat) : ∀ (tape : Tape) (st st' : HwtSt) (rest : Tape),
    runTape h n st tape = some (st', rest) →
    st'.k ≥ n ∧ ∃ consumed : Tape, tape = consumed ++ rest ∧ st' = runBuf h n st (consumed.flatMap (words64 h))
  | [], st, st', rest, hr => by
    unfold runTape at hr
    split at hr
    · next hk =>
      simp only [Option.some.injEq, Prod.mk.injEq] at hr
      obtain ⟨rfl, rfl⟩ := hr
      exact ⟨hk, [], by simp, by simp [runBuf]⟩
    · simp at hr
  | req :: t, st, st', rest, hr => by
    unfold runTape at hr
    split at hr
    · next hk =>
      simp only [Option.some.injEq, Prod.mk.injEq] at hr
      obtain ⟨rfl, rfl⟩ := hr
      exact ⟨hk, [], by simp, by simp [runBuf]⟩
    · obtain ⟨hk', c, hc, hst⟩ := runTape_flat h n t _ st' rest hr
      refine ⟨hk', req :: c, by simp [hc], ?_⟩
      rw [hst, List.flatMap_cons, runBuf_append]

/-- SPEC = MODEL on positions: whenever the model's position phase succeeds on a tape, the specification run over
the words of the requests it consumed yields the same ascending positions. -/
theorem specPositions_eq_model {h n : Nat} {tape : Tape} {sorted : List Nat} {rest : Tape}
    (hp : hwtPositions h n tape = some (sorted, rest)) :
    ∃ consumed : Tape, tape = consumed ++ rest ∧
      specPositions h n (consumed.flatMap (words64 h)) = some sorted := by
  unfold hwtPositions at hp
  split at hp
  · simp at hp
  · next st rest0 hrt =>
    simp only [Option.some.injEq, Prod.mk.injEq] at hp
    obtain ⟨rfl, rfl⟩ := hp
    obtain ⟨hk, c, hc, hst⟩ := runTape_flat h n tape _ st rest0 hrt
    refine ⟨c, hc, ?_⟩
    have hs := specRun_eq_runBuf h n (c.flatMap (words64 h)) 0 h (Array.range h)
    simp only [Array.toList_range] at hs
    rw [← hst] at hs
    unfold specPositions
    simp only [hs.2, hk, if_true, hs.1, mergeSort_eq_isort]

end Nfl.Samplers
