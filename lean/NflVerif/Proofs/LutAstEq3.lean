/-
Whole-function equality of the generated depth-2 `buildLookupTables` (`Generated/LutAst.lean`) with the hand model `Gauss.buildLUT2`.
-/
import NflVerif.Proofs.LutAstEq2

set_option linter.unusedVariables false
set_option linter.unusedSimpArgs false
namespace Nfl.Gen
open Nfl Nfl.Gauss Nfl.CGauss Nfl.CLut

/-! ### the generated depth-2 text with the conversion `int64_t → out_class` as a parameter -/

abbrev Rows := Array (Option (Array CCell))

def run2Cond (nb : Nat) (barriers : List (List Nat)) (lu_index1 lu_index2 : Nat) : Rows × Nat × Nat → Option Bool := fun s => do
  let (lu_table2, val, b_index) := s
  let t17 ← (if CSem.ltS 64 b_index (CSem.castUSw 64 nb) then (do let t15 ← CLut.barAt 64 barriers b_index; let t16 ← CGauss.idxS 32 t15 0; pure (CSem.eqU lu_index1 (CSem.castU 32 t16))) else pure false)
  let t20 ← (if t17 then (do let t18 ← CLut.barAt 64 barriers b_index; let t19 ← CGauss.idxS 32 t18 1; pure (CSem.eqU lu_index2 (CSem.castU 32 t19))) else pure false)
  pure (t20)

def run2Body (barriers : List (List Nat)) (lu_index1 lu_index2 : Nat) : Rows × Nat × Nat → Option (Rows × Nat × Nat) := fun s => do
  let (lu_table2, val, b_index) := s
  let t21 ← CLut.barAt 64 barriers b_index
  let lu_table2 ← CLut.pushBack2 lu_table2 lu_index1 lu_index2 t21
  let b_index := CGauss.addS 64 b_index 1
  let val := CGauss.addS 64 val 1
  pure (lu_table2, val, b_index)

def inner2Cond (lu_size : Nat) : Nat × Rows × Nat × Nat × Nat → Option Bool := fun s => do
  let (_flag_ctr2, lu_table2, lu_index2, val, b_index) := s
  pure (CSem.ltU lu_index2 lu_size)

/-- the branch `lu_index1 == barriers[b_index][0] && lu_index2 == barriers[b_index][1]` -/
def inner2Flag (cout : Nat → Nat) (nb : Nat) (barriers : List (List Nat)) (lu_index1 lu_index2 : Nat) :
    Nat × Rows × Nat × Nat → Option (Nat × Rows × Nat × Nat) := fun s => do
  let (_flag_ctr2, lu_table2, val, b_index) := s
  let lu_table2 ← CLut.setVal2 lu_table2 lu_index1 lu_index2 (cout val)
  let lu_table2 ← CLut.setFlag2 lu_table2 lu_index1 lu_index2 true
  let _flag_ctr2 := CSem.addU 32 _flag_ctr2 1
  let t13 := b_index
  let b_index := CGauss.addS 64 b_index 1
  let t14 ← CLut.barAt 64 barriers t13
  let lu_table2 ← CLut.pushBack2 lu_table2 lu_index1 lu_index2 t14
  let val := CGauss.addS 64 val 1
  let (lu_table2, val, b_index) ← CLut.whileFuel ((CSem.castUSw 64 nb) + 1) (run2Cond nb barriers lu_index1 lu_index2) (run2Body barriers lu_index1 lu_index2) (lu_table2, val, b_index)
  pure (_flag_ctr2, lu_table2, val, b_index)

def inner2Body (cout : Nat → Nat) (nb : Nat) (barriers : List (List Nat)) (lu_index1 : Nat) :
    Nat × Rows × Nat × Nat × Nat → Option (Nat × Rows × Nat × Nat × Nat) := fun s => do
  let (_flag_ctr2, lu_table2, lu_index2, val, b_index) := s
  let t3 ← CLut.barAt 64 barriers b_index
  let t4 ← CGauss.idxS 32 t3 0
  let t7 ← (if CSem.ltU lu_index1 (CSem.castU 32 t4) then pure true else (do let t5 ← CLut.barAt 64 barriers b_index; let t6 ← CGauss.idxS 32 t5 1; pure (CSem.ltU lu_index2 (CSem.castU 32 t6))))
  let (_flag_ctr2, lu_table2, val, b_index) ← (if t7 then (do
      let lu_table2 ← CLut.setVal2 lu_table2 lu_index1 lu_index2 (cout val)
      pure (_flag_ctr2, lu_table2, val, b_index))
    else (do
      let t8 ← CLut.barAt 64 barriers b_index
      let t9 ← CGauss.idxS 32 t8 0
      let t12 ← (if CSem.eqU lu_index1 (CSem.castU 32 t9) then (do let t10 ← CLut.barAt 64 barriers b_index; let t11 ← CGauss.idxS 32 t10 1; pure (CSem.eqU lu_index2 (CSem.castU 32 t11))) else pure false)
      let (_flag_ctr2, lu_table2, val, b_index) ← (if t12 then inner2Flag cout nb barriers lu_index1 lu_index2 (_flag_ctr2, lu_table2, val, b_index)
        else (do
          pure (_flag_ctr2, lu_table2, val, b_index)))
      pure (_flag_ctr2, lu_table2, val, b_index)))
  let lu_index2 := CSem.addU 32 lu_index2 1
  pure (_flag_ctr2, lu_table2, lu_index2, val, b_index)

def outer2Cond (nb lu_size rc : Nat) : Nat × Nat × Array CCell × Rows × Nat × Nat × Nat × Nat → Option Bool := fun s => do
  let (_flag_ctr1, _flag_ctr2, lu_table, lu_table2, lu_index1, lu_index2, val, b_index) := s
  pure ((CSem.leS 64 val (vmaxG nb rc)) && (CSem.ltU lu_index1 lu_size))

def outer2Body (cout : Nat → Nat) (nb lu_size : Nat) (barriers : List (List Nat)) :
    Nat × Nat × Array CCell × Rows × Nat × Nat × Nat × Nat → Option (Nat × Nat × Array CCell × Rows × Nat × Nat × Nat × Nat) := fun s => do
  let (_flag_ctr1, _flag_ctr2, lu_table, lu_table2, lu_index1, lu_index2, val, b_index) := s
  let (lu_table, lu_index1) ← CLut.whileFuel (lu_size + 1) (fillCond lu_size barriers b_index) (fillBody cout val) (lu_table, lu_index1)
  let lu_table ← CLut.setVal lu_table lu_index1 (cout val)
  let lu_table ← CLut.setFlag lu_table lu_index1 true
  let _flag_ctr1 := CSem.addU 32 _flag_ctr1 1
  let lu_index2 := CSem.castSU 32 0
  let lu_table2 ← CLut.setRow lu_table2 lu_index1 (CLut.newCells (CSem.castU 64 lu_size))
  let (_flag_ctr2, lu_table2, lu_index2, val, b_index) ← CLut.whileFuel (lu_size + 1) (inner2Cond lu_size) (inner2Body cout nb barriers lu_index1) (_flag_ctr2, lu_table2, lu_index2, val, b_index)
  let lu_index1 := CSem.addU 32 lu_index1 1
  pure (_flag_ctr1, _flag_ctr2, lu_table, lu_table2, lu_index1, lu_index2, val, b_index)

def buildG2 (cout : Nat → Nat) (nb lu_size rc : Nat) (barriers : List (List Nat)) : Option (Nat × Nat × Array CCell × Rows) := do
  let lu_index2 := CSem.castSU 32 0
  let _flag_ctr2 := CSem.castSU 32 0
  let (_flag_ctr1, _flag_ctr2, lu_table, lu_table2, lu_index1, lu_index2, val, b_index) ← CLut.whileFuel (lu_size + 1) (outer2Cond nb lu_size rc)
    (outer2Body cout nb lu_size barriers) (_flag_ctr2, _flag_ctr2, CLut.newCells (CSem.castU 64 lu_size), CLut.callocRows (CSem.castU 64 lu_size),
      CSem.castSU 32 0, lu_index2, v0G nb rc, CSem.castSS 32 64 0)
  pure (_flag_ctr1, _flag_ctr2, lu_table, lu_table2)

theorem build_u16_i64_2_eq_G : @buildLookupTables_u16_i64_2 = buildG2 (fun x => x) := rfl
theorem build_u8_u64_2_eq_G : @buildLookupTables_u8_u64_2 = buildG2 (CGauss.castSwU 64 64) := rfl

/-! ### encoding of `lu_table2` -/

def encR (ob : Nat) (t2 : Array (Option (Array Cell))) : Rows := t2.map (Option.map (encA ob))

/-- `lu_table2` while the row under cell `i` is being filled -/
def R (ob : Nat) (t2 : Array (Option (Array Cell))) (i : Nat) (row : Array Cell) : Rows := encR ob (t2.set! i (some row))

theorem updRow_R (ob : Nat) (t2 : Array (Option (Array Cell))) (i : Nat) (hi : i < t2.size) (row : Array Cell)
    (f : Array CCell → Option (Array CCell)) (g : Array Cell → Option (Array Cell))
    (hf : f (encA ob row) = (g row).map (encA ob)) :
    updRow (R ob t2 i row) i f = (g row).map (R ob t2 i) := by
  have hsz : i < (R ob t2 i row).size := by simp [R, encR, hi]
  have hget : (R ob t2 i row)[i] = some (encA ob row) := by simp [R, encR, hi]
  unfold updRow
  rw [dif_pos hsz]
  simp only [hget, hf]
  cases g row with
  | none => rfl
  | some row' =>
    simp only [Option.map_some, Option.some.injEq]
    apply Array.ext
    · simp [R, encR]
    · intro k h1 h2
      by_cases hk : i = k
      · subst hk; simp [R, encR, hi]
      · simp [R, encR, hk, Array.getElem_set]
        have hk2 : k < (Array.map (Option.map (encA ob)) t2).size := by simpa [R, encR] using h2
        rw [Array.getElem_setIfInBounds hk2, Array.getElem_setIfInBounds hk2]; simp [hk]

theorem setVal2_R (ob : Nat) (t2 : Array (Option (Array Cell))) (i : Nat) (hi : i < t2.size) (row : Array Cell) (j : Nat) (v : Int) :
    setVal2 (R ob t2 i row) i j (enc ob v) = (wr row j (fun c => { c with val := v })).map (R ob t2 i) :=
  updRow_R ob t2 i hi row (fun r => setVal r j (enc ob v)) (fun r => wr r j (fun c => { c with val := v })) (setVal_enc ob row j v)
theorem setFlag2_R (ob : Nat) (t2 : Array (Option (Array Cell))) (i : Nat) (hi : i < t2.size) (row : Array Cell) (j : Nat) (b : Bool) :
    setFlag2 (R ob t2 i row) i j b = (wr row j (fun c => { c with flag := b })).map (R ob t2 i) :=
  updRow_R ob t2 i hi row (fun r => setFlag r j b) (fun r => wr r j (fun c => { c with flag := b })) (setFlag_enc ob row j b)
theorem pushBack2_R (ob : Nat) (t2 : Array (Option (Array Cell))) (i : Nat) (hi : i < t2.size) (row : Array Cell) (j : Nat) (s : List Nat) :
    pushBack2 (R ob t2 i row) i j ⟨s, 0⟩ = (wr row j (fun c => addBl c [s])).map (R ob t2 i) :=
  updRow_R ob t2 i hi row (fun r => pushBack r j ⟨s, 0⟩) (fun r => wr r j (fun c => addBl c [s])) (pushBack_enc ob row j s)

theorem setRow_enc (ob W : Nat) (t2 : Array (Option (Array Cell))) (i : Nat) :
    setRow (encR ob t2) i (newCells W) = if i < t2.size then some (R ob t2 i (Array.replicate W default)) else none := by
  unfold setRow
  by_cases hi : i < t2.size
  · rw [dif_pos (by simpa [encR] using hi), if_pos hi, encA_replicate ob W]
    simp [R, encR, Array.set!_eq_setIfInBounds, Array.setIfInBounds, hi]
  · rw [dif_neg (by simpa [encR] using hi), if_neg hi]

/-! ### the run loop, depth 2 -/

theorem runLoop2_acc (ba : Array Str) (lu1 lu2 fuel b : Nat) (v : Int) (acc : List Str) :
    runLoop2 ba lu1 lu2 fuel b v acc = (runLoop2 ba lu1 lu2 fuel b v []).map (fun r => (r.1, r.2.1, acc ++ r.2.2)) := by
  induction fuel generalizing b v acc with
  | zero => simp [runLoop2]
  | succ n ih =>
    unfold runLoop2
    by_cases hb : b < ba.size
    · simp only [hb, if_true]
      cases ba[b]? with
      | none => simp
      | some s =>
        simp only []
        cases s[0]? with
        | none => simp
        | some w0 =>
          by_cases hw : lu1 = w0
          · subst hw
            simp only [if_true]
            cases s[1]? with
            | none => simp
            | some w1 =>
              by_cases hw1 : lu2 = w1
              · subst hw1
                simp only [if_true]
                rw [ih (b + 1) (v + 1) (acc ++ [s]), ih (b + 1) (v + 1) ([] ++ [s])]
                cases runLoop2 ba lu1 lu2 n (b + 1) (v + 1) [] <;> simp
              · simp [hw1]
          · simp [hw]
    · simp [hb]

theorem runLoop2_range (ba : Array Str) (lu1 lu2 fuel b : Nat) (v : Int) (acc : List Str) (r : Nat × Int × List Str)
    (h : runLoop2 ba lu1 lu2 fuel b v acc = some r) : b ≤ r.1 ∧ r.1 ≤ max b ba.size ∧ r.2.1 = v + ((r.1 - b : Nat) : Int) := by
  induction fuel generalizing b v acc with
  | zero => simp [runLoop2] at h
  | succ n ih =>
    unfold runLoop2 at h
    by_cases hb : b < ba.size
    · simp only [hb, if_true] at h
      cases hs : ba[b]? with
      | none => simp [hs] at h
      | some s =>
        simp only [hs] at h
        cases h0 : s[0]? with
        | none => simp [h0] at h
        | some w0 =>
          simp only [h0] at h
          by_cases hw : lu1 = w0
          · subst hw
            simp only [if_true] at h
            cases h1 : s[1]? with
            | none => simp [h1] at h
            | some w1 =>
              simp only [h1] at h
              by_cases hw1 : lu2 = w1
              · subst hw1
                simp only [if_true] at h
                have := ih _ _ _ h
                omega
              · simp only [hw1, if_false, Option.some.injEq] at h
                subst h; exact ⟨Nat.le_refl _, Nat.le_max_left _ _, by simp⟩
          · simp only [hw, if_false, Option.some.injEq] at h
            subst h; exact ⟨Nat.le_refl _, Nat.le_max_left _ _, by simp⟩
    · simp only [hb, if_false, Option.some.injEq] at h
      subst h; exact ⟨Nat.le_refl _, Nat.le_max_left _ _, by simp⟩

theorem castU32_small (w : Nat) (h : w < 2 ^ 31) : CSem.castU 32 w = w := by
  simp only [CSem.castU]; omega

theorem run2_sim (ob nb : Nat) (bs : List Str) (hnb : nb = bs.length) (hn31 : nb < 2 ^ 31) (hsm : ∀ s ∈ bs, Small s)
    (t2 : Array (Option (Array Cell))) (lu1 : Nat) (hlu1 : lu1 < t2.size) (lu2 : Nat) (fuel b : Nat) (hb : b ≤ nb) (v : Int)
    (row : Array Cell) (ht : lu2 < row.size) :
    whileFuel fuel (run2Cond nb bs lu1 lu2) (run2Body bs lu1 lu2) (R ob t2 lu1 row, enc 64 v, b) =
      (runLoop2 bs.toArray lu1 lu2 fuel b v []).map (fun r =>
        (R ob t2 lu1 (row.set lu2 (addBl row[lu2] r.2.2)), enc 64 r.2.1, r.1)) := by
  induction fuel generalizing b v row with
  | zero => simp [whileFuel_zero, runLoop2]
  | succ n ih =>
    rw [runLoop2]
    have hnm : CSem.castUSw 64 nb = nb := castUSw64_small nb hn31
    have hlt : CSem.ltS 64 b (CSem.castUSw 64 nb) = decide (b < nb) := by rw [hnm]; exact ltS64_small _ _ (by omega) (by omega)
    have hb63 : b < 2 ^ 63 := by omega
    by_cases hbn : b < nb
    · have hbl : b < bs.length := by omega
      have hs : bs[b]? = some bs[b] := List.getElem?_eq_getElem hbl
      have hget : bs.toArray[b]? = some bs[b] := by simp [hs]
      have hss : Small bs[b] := hsm _ (List.mem_of_getElem? hs)
      have hi0 : idxS 32 ⟨bs[b], 0⟩ 0 = bs[b][0]? := by rw [idxS_nat _ _ (by omega)]
      have hi1 : idxS 32 ⟨bs[b], 0⟩ 1 = bs[b][1]? := by rw [idxS_nat _ _ (by omega)]
      cases h0 : bs[b][0]? with
      | none =>
        have hcnd : run2Cond nb bs lu1 lu2 (R ob t2 lu1 row, enc 64 v, b) = none := by
          simp [run2Cond, hlt, hbn, barAt_nat _ _ hb63, hs, hi0, h0]
        rw [wf_none _ _ _ _ hcnd]
        simp [hbl, hget, h0]
      | some w0 =>
        have hw0 : w0 < 2 ^ 31 := hss w0 (List.mem_of_getElem? h0)
        by_cases hw : lu1 = w0
        · cases h1 : bs[b][1]? with
          | none =>
            have hcnd : run2Cond nb bs lu1 lu2 (R ob t2 lu1 row, enc 64 v, b) = none := by
              simp [run2Cond, hlt, hbn, barAt_nat _ _ hb63, hs, hi0, hi1, h0, h1, CSem.eqU, castU32_small _ hw0, hw]
            rw [wf_none _ _ _ _ hcnd]
            simp [hbl, hget, h0, h1, hw]
          | some w1 =>
            have hw1 : w1 < 2 ^ 31 := hss w1 (List.mem_of_getElem? h1)
            have hcnd : run2Cond nb bs lu1 lu2 (R ob t2 lu1 row, enc 64 v, b) = some (decide (lu2 = w1)) := by
              simp [run2Cond, hlt, hbn, barAt_nat _ _ hb63, hs, hi0, hi1, h0, h1, CSem.eqU, castU32_small _ hw0, castU32_small _ hw1, hw]
            by_cases hw' : lu2 = w1
            · have hpb := pushBack2_R ob t2 lu1 hlu1 row lu2 bs[b]
              rw [wr_some _ _ _ ht] at hpb
              have hadd : CGauss.addS 64 b 1 = b + 1 := addS64_small b (by omega)
              have hbody : run2Body bs lu1 lu2 (R ob t2 lu1 row, enc 64 v, b) =
                  some (R ob t2 lu1 (row.set lu2 (addBl row[lu2] [bs[b]]) ht), enc 64 (v + 1), b + 1) := by
                simp [run2Body, barAt_nat _ _ hb63, hs, hpb, enc64_succ, hadd]
              rw [wf_true _ _ _ _ _ (by simpa [hw'] using hcnd) hbody,
                ih (b + 1) (by omega) (v + 1) (row.set lu2 (addBl row[lu2] [bs[b]]) ht) (by simpa using ht)]
              simp only [List.size_toArray, hbl, if_true, hget, h0, h1, hw, hw']
              rw [runLoop2_acc _ _ _ _ _ _ ([] ++ [bs[b]])]
              cases runLoop2 bs.toArray w0 w1 n (b + 1) (v + 1) [] <;> simp [Array.set_set, addBl_addBl]
            · rw [wf_false _ _ _ _ (by simpa [hw'] using hcnd)]
              simp [hbl, hget, h0, h1, hw, hw', addBl_nil]
        · have hcnd : run2Cond nb bs lu1 lu2 (R ob t2 lu1 row, enc 64 v, b) = some false := by
            simp [run2Cond, hlt, hbn, barAt_nat _ _ hb63, hs, hi0, hi1, h0, CSem.eqU, castU32_small _ hw0, hw]
          rw [wf_false _ _ _ _ hcnd]
          simp [hbl, hget, h0, hw, addBl_nil]
    · have hbl : ¬ b < bs.length := by omega
      have hcnd : run2Cond nb bs lu1 lu2 (R ob t2 lu1 row, enc 64 v, b) = some false := by
        simp [run2Cond, hlt, hbn]
      rw [wf_false _ _ _ _ hcnd]
      simp [hbl, addBl_nil]

/-! ### the row loop `while (lu_index2 < _lu_size)` -/

/-- one pass through the body of the model's row loop: new `b_index`, `val`, row -/
def istep2 (ba : Array Str) (lu1 lu2 b : Nat) (val : Int) (row : Array Cell) : Option (Nat × Int × Array Cell) :=
  match ba[b]? with
  | none => none
  | some s =>
    match s[0]? with
    | none => none
    | some w0 =>
      if lu1 < w0 then (wr row lu2 (fun c => { c with val := val })).map (fun row' => (b, val, row'))
      else
        match s[1]? with
        | none => none
        | some w1 =>
          if lu2 < w1 then (wr row lu2 (fun c => { c with val := val })).map (fun row' => (b, val, row'))
          else if lu1 = w0 ∧ lu2 = w1 then
            match runLoop2 ba lu1 lu2 (ba.size + 1) (b + 1) (val + 1) [s] with
            | none => none
            | some (b', val', run) =>
              (wr row lu2 (fun c => { val := val, flag := true, bl := c.bl ++ run })).map (fun row' => (b', val', row'))
          else some (b, val, row)

theorem inner2_succ (W : Nat) (ba : Array Str) (lu1 fuel lu2 b : Nat) (val : Int) (row : Array Cell) :
    inner2 W ba lu1 (fuel + 1) lu2 b val row =
      if lu2 < W then (istep2 ba lu1 lu2 b val row).bind (fun r => inner2 W ba lu1 fuel (lu2 + 1) r.1 r.2.1 r.2.2)
      else some (b, val, row) := by
  rw [inner2, istep2]
  by_cases hW : lu2 < W
  · simp only [hW, if_true]
    cases ba[b]? with
    | none => rfl
    | some s =>
      simp only []
      cases s[0]? with
      | none => rfl
      | some w0 =>
        simp only []
        by_cases h1 : lu1 < w0
        · simp only [h1, if_true]
          cases wr row lu2 (fun c => { c with val := val }) <;> rfl
        · simp only [h1, if_false]
          cases s[1]? with
          | none => rfl
          | some w1 =>
            simp only []
            by_cases h2 : lu2 < w1
            · simp only [h2, if_true]
              cases wr row lu2 (fun c => { c with val := val }) <;> rfl
            · simp only [h2, if_false]
              by_cases h3 : lu1 = w0 ∧ lu2 = w1
              · simp only [h3, and_self, if_true]
                cases runLoop2 ba w0 w1 (ba.size + 1) (b + 1) (val + 1) [s] with
                | none => rfl
                | some q =>
                  obtain ⟨b', v', run⟩ := q
                  simp only []
                  cases wr row w1 (fun c => { val := val, flag := true, bl := c.bl ++ run }) <;> rfl
              · simp only [h3, if_false]; rfl
  · simp only [hW, if_false]

theorem istep2_inv (ba : Array Str) (lu1 lu2 b : Nat) (val : Int) (row : Array Cell) (r : Nat × Int × Array Cell)
    (h : istep2 ba lu1 lu2 b val row = some r) :
    b ≤ r.1 ∧ r.1 ≤ max b ba.size ∧ r.2.1 = val + ((r.1 - b : Nat) : Int) := by
  have triv : ∀ (o : Option (Array Cell)), o.map (fun row' => (b, val, row')) = some r →
      b ≤ r.1 ∧ r.1 ≤ max b ba.size ∧ r.2.1 = val + ((r.1 - b : Nat) : Int) := by
    intro o ho
    cases o with
    | none => cases ho
    | some x => simp only [Option.map_some, Option.some.injEq] at ho; subst ho; exact ⟨Nat.le_refl _, Nat.le_max_left _ _, by simp⟩
  unfold istep2 at h
  cases hs : ba[b]? with
  | none => simp [hs] at h
  | some s =>
    simp only [hs] at h
    cases h0 : s[0]? with
    | none => simp [h0] at h
    | some w0 =>
      simp only [h0] at h
      by_cases h1 : lu1 < w0
      · simp only [h1, if_true] at h; exact triv _ h
      · simp only [h1, if_false] at h
        cases h1' : s[1]? with
        | none => simp [h1'] at h
        | some w1 =>
          simp only [h1'] at h
          by_cases h2 : lu2 < w1
          · simp only [h2, if_true] at h; exact triv _ h
          · simp only [h2, if_false] at h
            by_cases h3 : lu1 = w0 ∧ lu2 = w1
            · simp only [h3, and_self, if_true] at h
              cases hr : runLoop2 ba w0 w1 (ba.size + 1) (b + 1) (val + 1) [s] with
              | none => simp [hr] at h
              | some q =>
                obtain ⟨b', v', run⟩ := q
                simp only [hr] at h
                have hrange := runLoop2_range _ _ _ _ _ _ _ _ hr
                cases hw : wr row w1 (fun c => { val := val, flag := true, bl := c.bl ++ run }) with
                | none => simp [hw] at h
                | some row' =>
                  simp only [hw, Option.map_some, Option.some.injEq] at h
                  subst h
                  have hbs : b < ba.size := by
                    by_cases hlt : b < ba.size
                    · exact hlt
                    · simp [Array.getElem?_eq_none (Nat.le_of_not_lt hlt)] at hs
                  have e1 : b + 1 ≤ b' := hrange.1
                  have e2 : b' ≤ max (b + 1) ba.size := hrange.2.1
                  have e3 : v' = val + 1 + ((b' - (b + 1) : Nat) : Int) := hrange.2.2
                  show b ≤ b' ∧ b' ≤ max b ba.size ∧ v' = val + ((b' - b : Nat) : Int)
                  refine ⟨by omega, by omega, by omega⟩
            · simp only [h3, if_false, Option.some.injEq] at h
              subst h; exact ⟨Nat.le_refl _, Nat.le_max_left _ _, by simp⟩

theorem inner2Flag_def (cout : Nat → Nat) (nb : Nat) (bs : List (List Nat)) (lu1 lu2 fc2 : Nat) (T2 : Rows) (val b : Nat) :
    inner2Flag cout nb bs lu1 lu2 (fc2, T2, val, b) =
      (setVal2 T2 lu1 lu2 (cout val)).bind fun A =>
      (setFlag2 A lu1 lu2 true).bind fun B =>
      (barAt 64 bs b).bind fun p =>
      (pushBack2 B lu1 lu2 p).bind fun C =>
      (whileFuel (CSem.castUSw 64 nb + 1) (run2Cond nb bs lu1 lu2) (run2Body bs lu1 lu2) (C, CGauss.addS 64 val 1, CGauss.addS 64 b 1)).bind fun q =>
      some (CSem.addU 32 fc2 1, q.1, q.2.1, q.2.2) := rfl

/-- the three stores into the cell `[lu1][lu2]` -/
theorem cell_stores2 (ob : Nat) (cout : Nat → Nat) (hc : CoutOK ob cout) (t2 : Array (Option (Array Cell))) (lu1 : Nat)
    (hlu1 : lu1 < t2.size) (row : Array Cell) (j : Nat) (hj : j < row.size) (v : Int) (s0 : Str)
    {β : Type} (k : Rows → Option β) :
    ((setVal2 (R ob t2 lu1 row) lu1 j (cout (enc 64 v))).bind fun A => (setFlag2 A lu1 j true).bind fun B =>
        (some (⟨s0, 0⟩ : Ptr)).bind fun p => (pushBack2 B lu1 j p).bind k) =
      k (R ob t2 lu1 (row.set j { val := v, flag := true, bl := row[j].bl ++ [s0] })) := by
  rw [hc v, setVal2_R _ _ _ hlu1, wr_some _ _ _ hj, Option.map_some, Option.bind_some, setFlag2_R _ _ _ hlu1,
    wr_some _ _ _ (by simpa using hj), Option.map_some, Option.bind_some, Option.bind_some, pushBack2_R _ _ _ hlu1,
    wr_some _ _ _ (by simpa using hj)]
  simp [Array.set_set, addBl]

theorem cell_stores2_none (ob : Nat) (cout : Nat → Nat) (hc : CoutOK ob cout) (t2 : Array (Option (Array Cell))) (lu1 : Nat)
    (hlu1 : lu1 < t2.size) (row : Array Cell) (j : Nat) (hj : ¬ j < row.size) (v : Int)
    {β : Type} (f : Rows → Option β) :
    ((setVal2 (R ob t2 lu1 row) lu1 j (cout (enc 64 v))).bind f) = none := by
  rw [hc v, setVal2_R _ _ _ hlu1, wr_none _ _ _ hj]; rfl

theorem inner2Flag_eq (ob nb : Nat) (cout : Nat → Nat) (hc : CoutOK ob cout) (bs : List Str) (hnb : nb = bs.length)
    (hn31 : nb < 2 ^ 31) (hsm : ∀ s ∈ bs, Small s) (t2 : Array (Option (Array Cell))) (lu1 : Nat) (hlu1 : lu1 < t2.size)
    (lu2 fc2 b : Nat) (hbn : b < nb) (s0 : Str) (hs : bs[b]? = some s0) (v : Int) (row : Array Cell) :
    inner2Flag cout nb bs lu1 lu2 (fc2, R ob t2 lu1 row, enc 64 v, b) =
      (match runLoop2 bs.toArray lu1 lu2 (bs.toArray.size + 1) (b + 1) (v + 1) [s0] with
        | none => none
        | some (b', val', run) =>
          (wr row lu2 (fun c => { val := v, flag := true, bl := c.bl ++ run })).map (fun row' => (b', val', row'))).map
        (fun (r : Nat × Int × Array Cell) => (CSem.addU 32 fc2 1, R ob t2 lu1 r.2.2, enc 64 r.2.1, r.1)) := by
  have hb63 : b < 2 ^ 63 := by omega
  have hsz : bs.toArray.size = nb := by simp [hnb]
  rw [inner2Flag_def, barAt_nat _ _ hb63, hs, Option.map_some, hsz]
  by_cases hj : lu2 < row.size
  · rw [cell_stores2 ob cout hc t2 lu1 hlu1 row lu2 hj v s0, enc64_succ, addS64_small b (by omega), castUSw64_small nb hn31,
      run2_sim ob nb bs hnb hn31 hsm t2 lu1 hlu1 lu2 (nb + 1) (b + 1) (by omega) (v + 1) _ (by simpa using hj),
      runLoop2_acc _ _ _ _ _ _ [s0]]
    cases runLoop2 bs.toArray lu1 lu2 (nb + 1) (b + 1) (v + 1) [] with
    | none => rfl
    | some q =>
      obtain ⟨b', v', run⟩ := q
      simp [wr_some _ _ _ hj, Array.set_set, addBl]
  · rw [cell_stores2_none ob cout hc t2 lu1 hlu1 row lu2 hj v]
    cases runLoop2 bs.toArray lu1 lu2 (nb + 1) (b + 1) (v + 1) [s0] with
    | none => rfl
    | some q => simp [wr_none _ _ _ hj]

theorem inner2Body_eq (ob nb : Nat) (cout : Nat → Nat) (hc : CoutOK ob cout) (bs : List Str) (hnb : nb = bs.length)
    (hn31 : nb < 2 ^ 31) (hsm : ∀ s ∈ bs, Small s) (t2 : Array (Option (Array Cell))) (lu1 : Nat) (hlu1 : lu1 < t2.size)
    (lu2 fc2 b : Nat) (hb : b ≤ nb) (v : Int) (row : Array Cell) :
    ∃ fc2', inner2Body cout nb bs lu1 (fc2, R ob t2 lu1 row, lu2, enc 64 v, b) =
      (istep2 bs.toArray lu1 lu2 b v row).map
        (fun (r : Nat × Int × Array Cell) => (fc2', R ob t2 lu1 r.2.2, CSem.addU 32 lu2 1, enc 64 r.2.1, r.1)) := by
  have hb63 : b < 2 ^ 63 := by omega
  unfold istep2
  by_cases hbn : b < nb
  · have hbl : b < bs.length := by omega
    have hs : bs[b]? = some bs[b] := List.getElem?_eq_getElem hbl
    have hget : bs.toArray[b]? = some bs[b] := by simp [hs]
    have hss : Small bs[b] := hsm _ (List.mem_of_getElem? hs)
    have hi0 : idxS 32 ⟨bs[b], 0⟩ 0 = bs[b][0]? := by rw [idxS_nat _ _ (by omega)]
    have hi1 : idxS 32 ⟨bs[b], 0⟩ 1 = bs[b][1]? := by rw [idxS_nat _ _ (by omega)]
    simp only [hget]
    cases h0 : bs[b][0]? with
    | none => exact ⟨fc2, by simp [inner2Body, barAt_nat _ _ hb63, hs, hi0, h0]⟩
    | some w0 =>
      have hw0 : w0 < 2 ^ 31 := hss w0 (List.mem_of_getElem? h0)
      by_cases h1 : lu1 < w0
      · refine ⟨fc2, ?_⟩
        simp only [h1, if_true]
        cases hw : wr row lu2 (fun c => { c with val := v }) <;>
          simp [inner2Body, barAt_nat _ _ hb63, hs, hi0, h0, CSem.ltU, castU32_small _ hw0, h1, hc v, setVal2_R _ _ _ hlu1, hw]
      · simp only [h1, if_false]
        cases h1' : bs[b][1]? with
        | none => exact ⟨fc2, by simp [inner2Body, barAt_nat _ _ hb63, hs, hi0, hi1, h0, h1', CSem.ltU, castU32_small _ hw0, h1]⟩
        | some w1 =>
          have hw1 : w1 < 2 ^ 31 := hss w1 (List.mem_of_getElem? h1')
          by_cases h2 : lu2 < w1
          · refine ⟨fc2, ?_⟩
            simp only [h2, if_true]
            cases hw : wr row lu2 (fun c => { c with val := v }) <;>
              simp [inner2Body, barAt_nat _ _ hb63, hs, hi0, hi1, h0, h1', CSem.ltU, castU32_small _ hw0, castU32_small _ hw1, h1, h2,
                hc v, setVal2_R _ _ _ hlu1, hw]
          · simp only [h2, if_false]
            by_cases h3 : lu1 = w0 ∧ lu2 = w1
            · refine ⟨CSem.addU 32 fc2 1, ?_⟩
              obtain ⟨e1, e2⟩ := h3
              subst e1 e2
              have hfl := inner2Flag_eq ob nb cout hc bs hnb hn31 hsm t2 lu1 hlu1 lu2 fc2 b hbn bs[b] hs v row
              simp only [and_self, if_true]
              have hbody : inner2Body cout nb bs lu1 (fc2, R ob t2 lu1 row, lu2, enc 64 v, b) =
                  (inner2Flag cout nb bs lu1 lu2 (fc2, R ob t2 lu1 row, enc 64 v, b)).bind
                    (fun q => some (q.1, q.2.1, CSem.addU 32 lu2 1, q.2.2.1, q.2.2.2)) := by
                simp [inner2Body, barAt_nat _ _ hb63, hs, hi0, hi1, h0, h1', CSem.ltU, CSem.eqU, castU32_small _ hw0, castU32_small _ hw1]
                cases inner2Flag cout nb bs lu1 lu2 (fc2, R ob t2 lu1 row, enc 64 v, b) <;> rfl
              rw [hbody, hfl]
              cases runLoop2 bs.toArray lu1 lu2 (bs.toArray.size + 1) (b + 1) (v + 1) [bs[b]] with
              | none => rfl
              | some q =>
                obtain ⟨b', v', run⟩ := q
                simp only []
                cases wr row lu2 (fun c => { val := v, flag := true, bl := c.bl ++ run }) <;> rfl
            · refine ⟨fc2, ?_⟩
              simp only [h3, if_false]
              by_cases e1 : lu1 = w0
              · have e2 : ¬ lu2 = w1 := fun e => h3 ⟨e1, e⟩
                simp [inner2Body, barAt_nat _ _ hb63, hs, hi0, hi1, h0, h1', CSem.ltU, CSem.eqU, castU32_small _ hw0, castU32_small _ hw1,
                  h1, h2, e1, e2]
              · simp [inner2Body, barAt_nat _ _ hb63, hs, hi0, hi1, h0, h1', CSem.ltU, CSem.eqU, castU32_small _ hw0, castU32_small _ hw1,
                  h1, h2, e1]
  · have hbl : ¬ b < bs.length := by omega
    exact ⟨fc2, by simp [inner2Body, barAt_nat _ _ hb63, hbl]⟩

theorem inner2_range (W : Nat) (ba : Array Str) (lu1 fuel lu2 b : Nat) (v : Int) (row : Array Cell) (r : Nat × Int × Array Cell)
    (h : inner2 W ba lu1 fuel lu2 b v row = some r) :
    b ≤ r.1 ∧ r.1 ≤ max b ba.size ∧ r.2.1 = v + ((r.1 - b : Nat) : Int) := by
  induction fuel generalizing lu2 b v row with
  | zero => simp [inner2] at h
  | succ n ih =>
    rw [inner2_succ] at h
    by_cases hW : lu2 < W
    · rw [if_pos hW] at h
      cases hst : istep2 ba lu1 lu2 b v row with
      | none => rw [hst] at h; cases h
      | some q =>
        rw [hst] at h
        have h1 := istep2_inv _ _ _ _ _ _ _ hst
        have h2 := ih _ _ _ _ h
        omega
    · rw [if_neg hW] at h
      simp only [Option.some.injEq] at h
      subst h; exact ⟨Nat.le_refl _, Nat.le_max_left _ _, by simp⟩

theorem inner2_sim (ob nb W : Nat) (cout : Nat → Nat) (hc : CoutOK ob cout) (bs : List Str) (hnb : nb = bs.length)
    (hn31 : nb < 2 ^ 31) (hsm : ∀ s ∈ bs, Small s) (hW : W < 2 ^ 31) (t2 : Array (Option (Array Cell))) (lu1 : Nat)
    (hlu1 : lu1 < t2.size) (fuel fc2 lu2 b : Nat) (hb : b ≤ nb) (v : Int) (row : Array Cell) :
    (whileFuel fuel (inner2Cond W) (inner2Body cout nb bs lu1) (fc2, R ob t2 lu1 row, lu2, enc 64 v, b)).map
        (fun r => (r.2.1, r.2.2.2.1, r.2.2.2.2)) =
      (inner2 W bs.toArray lu1 fuel lu2 b v row).map (fun r => (R ob t2 lu1 r.2.2, enc 64 r.2.1, r.1)) := by
  induction fuel generalizing fc2 lu2 b v row with
  | zero => rfl
  | succ n ih =>
    have hcnd : inner2Cond W (fc2, R ob t2 lu1 row, lu2, enc 64 v, b) = some (decide (lu2 < W)) := rfl
    rw [inner2_succ]
    by_cases hcd : lu2 < W
    · rw [if_pos hcd]
      have hcnd' : inner2Cond W (fc2, R ob t2 lu1 row, lu2, enc 64 v, b) = some true := by rw [hcnd]; simp [hcd]
      obtain ⟨fc2', hbody⟩ := inner2Body_eq ob nb cout hc bs hnb hn31 hsm t2 lu1 hlu1 lu2 fc2 b hb v row
      cases hst : istep2 bs.toArray lu1 lu2 b v row with
      | none =>
        rw [hst] at hbody
        rw [wf_true_none _ _ _ _ hcnd' hbody]; rfl
      | some q =>
        rw [hst] at hbody
        have hinv := istep2_inv _ _ _ _ _ _ _ hst
        have hsz : bs.toArray.size = nb := by simp [hnb]
        rw [wf_true _ _ _ _ _ hcnd' hbody, addU32_small lu2 (by omega), ih _ _ _ (by omega)]
        rfl
    · rw [if_neg hcd]
      have hcnd' : inner2Cond W (fc2, R ob t2 lu1 row, lu2, enc 64 v, b) = some false := by rw [hcnd]; simp [hcd]
      rw [wf_false _ _ _ _ hcnd']; rfl

/-! ### the outer loop, depth 2 -/

abbrev St2 := Nat × Nat × Array CCell × Rows × Nat × Nat × Nat × Nat

theorem outer2Body_def (cout : Nat → Nat) (nb W : Nat) (bs : List (List Nat)) (fc1 fc2 : Nat) (T : Array CCell) (T2 : Rows)
    (lu1 lu2 val b : Nat) :
    outer2Body cout nb W bs (fc1, fc2, T, T2, lu1, lu2, val, b) =
      (whileFuel (W + 1) (fillCond W bs b) (fillBody cout val) (T, lu1)).bind fun r =>
      (setVal r.1 r.2 (cout val)).bind fun A =>
      (setFlag A r.2 true).bind fun B =>
      (setRow T2 r.2 (newCells (CSem.castU 64 W))).bind fun C =>
      (whileFuel (W + 1) (inner2Cond W) (inner2Body cout nb bs r.2) (fc2, C, CSem.castSU 32 0, val, b)).bind fun q =>
      some (CSem.addU 32 fc1 1, q.1, B, q.2.1, CSem.addU 32 r.2 1, q.2.2.1, q.2.2.2.1, q.2.2.2.2) := rfl

/-- one pass through the body of the model's outer loop, depth 2 -/
def step2 (W : Nat) (ba : Array Str) (s : BSt) : Option BSt :=
  match bword ba s.b 0 with
  | none => none
  | some first =>
    match fillLoop W first s.val (W + 1) s.lu1 s.t1 with
    | none => none
    | some (lu1, t) =>
      match wr t lu1 (fun c => { c with val := s.val, flag := true }) with
      | none => none
      | some t' =>
        if lu1 < s.t2.size then
          match inner2 W ba lu1 (W + 1) 0 s.b s.val (Array.replicate W default) with
          | none => none
          | some (b', val', row) =>
            some { lu1 := lu1 + 1, val := val', b := b', t1 := t', t2 := s.t2.set! lu1 (some row) }
        else none

theorem outer2_succ (W : Nat) (ba : Array Str) (vmax : Int) (fuel : Nat) (s : BSt) :
    outer2 W ba vmax (fuel + 1) s =
      if s.val ≤ vmax ∧ s.lu1 < W then (step2 W ba s).bind (outer2 W ba vmax fuel) else some s := by
  rw [outer2, step2]
  split
  · repeat' split
    all_goals simp_all
    all_goals omega
  · rfl

theorem step2_inv (W : Nat) (ba : Array Str) (s s' : BSt) (h : step2 W ba s = some s') :
    s.b ≤ s'.b ∧ s'.b ≤ ba.size ∧ s'.val = s.val + ((s'.b - s.b : Nat) : Int) := by
  unfold step2 at h
  cases hbw : bword ba s.b 0 with
  | none => simp [hbw] at h
  | some first =>
    have hbs : s.b < ba.size := by
      unfold bword at hbw
      by_cases hlt : s.b < ba.size
      · exact hlt
      · simp [Array.getElem?_eq_none (Nat.le_of_not_lt hlt)] at hbw
    simp only [hbw] at h
    cases hfl : fillLoop W first s.val (W + 1) s.lu1 s.t1 with
    | none => simp [hfl] at h
    | some r =>
      obtain ⟨lu1, t⟩ := r
      simp only [hfl] at h
      cases hw : wr t lu1 (fun c => { c with val := s.val, flag := true }) with
      | none => simp [hw] at h
      | some t' =>
        simp only [hw] at h
        by_cases hl : lu1 < s.t2.size
        · simp only [hl, if_true] at h
          cases hr : inner2 W ba lu1 (W + 1) 0 s.b s.val (Array.replicate W default) with
          | none => simp [hr] at h
          | some q =>
            obtain ⟨b', v', row⟩ := q
            simp only [hr, Option.some.injEq] at h
            have hrange := inner2_range _ _ _ _ _ _ _ _ _ hr
            subst h
            have e1 : s.b ≤ b' := hrange.1
            have e2 : b' ≤ max s.b ba.size := hrange.2.1
            have e3 : v' = s.val + ((b' - s.b : Nat) : Int) := hrange.2.2
            show s.b ≤ b' ∧ b' ≤ ba.size ∧ v' = s.val + ((b' - s.b : Nat) : Int)
            refine ⟨by omega, by omega, by omega⟩
        · simp [hl] at h

/-- the two stores into the first-level cell `lu1` -/
theorem cell_stores1 (ob : Nat) (cout : Nat → Nat) (hc : CoutOK ob cout) (t : Array Cell) (i : Nat) (hi : i < t.size) (v : Int)
    {β : Type} (k : Array CCell → Option β) :
    ((setVal (encA ob t) i (cout (enc 64 v))).bind fun T2 => (setFlag T2 i true).bind k) =
      k (encA ob (t.set i { t[i] with val := v, flag := true })) := by
  rw [hc v, setVal_enc, wr_some _ _ _ hi, Option.map_some, Option.bind_some, setFlag_enc, wr_some _ _ _ (by simpa using hi)]
  simp [Array.set_set]

def P2 : St2 → Array CCell × Rows × Nat × Nat × Nat := fun r => (r.2.2.1, r.2.2.2.1, r.2.2.2.2.1, r.2.2.2.2.2.2.1, r.2.2.2.2.2.2.2)
def E2 (ob : Nat) : BSt → Array CCell × Rows × Nat × Nat × Nat := fun s' => (encA ob s'.t1, encR ob s'.t2, s'.lu1, enc 64 s'.val, s'.b)

theorem outer2Body_eq (ob nb W : Nat) (cout : Nat → Nat) (hc : CoutOK ob cout) (bs : List Str) (hnb : nb = bs.length)
    (hn31 : nb < 2 ^ 31) (hsm : ∀ s ∈ bs, Small s) (hW : W < 2 ^ 31)
    (fc1 fc2 lu1 lu2 b : Nat) (v : Int) (t : Array Cell) (t2 : Array (Option (Array Cell))) (hb : b ≤ nb) (hlu : lu1 < W) :
    (outer2Body cout nb W bs (fc1, fc2, encA ob t, encR ob t2, lu1, lu2, enc 64 v, b)).map P2 =
      (step2 W bs.toArray ⟨lu1, v, b, t, t2⟩).map (E2 ob) := by
  have hb63 : b < 2 ^ 63 := by omega
  rw [outer2Body_def, step2]
  by_cases hbn : b < nb
  · have hbl : b < bs.length := by omega
    have hs : bs[b]? = some bs[b] := List.getElem?_eq_getElem hbl
    have hget : bs.toArray[b]? = some bs[b] := by simp [hs]
    have hss : Small bs[b] := hsm _ (List.mem_of_getElem? hs)
    cases h0 : bs[b][0]? with
    | none =>
      have hcnd : fillCond W bs b (encA ob t, lu1) = none := by
        simp [fillCond, barAt_nat _ _ hb63, hs, idxS_nat _ _ (show 0 < 2 ^ 31 by omega), h0]
      rw [wf_none _ _ _ _ hcnd]
      simp [bword, hget, h0]
    | some w0 =>
      have hw0 : w0 < 2 ^ 31 := hss w0 (List.mem_of_getElem? h0)
      have hbw : bword bs.toArray b 0 = some w0 := by simp [bword, hget, h0]
      rw [fill_sim ob W cout hc bs b hb63 bs[b] w0 hs h0 hw0 (by omega) v (W + 1) lu1 t]
      simp only [hbw]
      cases hfl : fillLoop W w0 v (W + 1) lu1 t with
      | none => rfl
      | some r =>
        obtain ⟨lu1', t'⟩ := r
        have hle : lu1' ≤ W := fillLoop_le W w0 v (W + 1) lu1 t _ hfl (by omega)
        simp only [Option.map_some, Option.bind_some]
        by_cases hi : lu1' < t'.size
        · have hW64 : CSem.castU 64 W = W := by simp only [CSem.castU]; omega
          have hz : CSem.castSU 32 0 = 0 := by decide
          rw [cell_stores1 ob cout hc t' lu1' hi v, wr_some _ _ _ hi, hW64, setRow_enc, hz]
          simp only []
          by_cases hl : lu1' < t2.size
          · rw [if_pos hl, if_pos hl, Option.bind_some]
            have hsim := inner2_sim ob nb W cout hc bs hnb hn31 hsm hW t2 lu1' hl (W + 1) fc2 0 b hb v (Array.replicate W default)
            generalize whileFuel (W + 1) (inner2Cond W) (inner2Body cout nb bs lu1')
              (fc2, R ob t2 lu1' (Array.replicate W default), 0, enc 64 v, b) = x at hsim ⊢
            generalize inner2 W bs.toArray lu1' (W + 1) 0 b v (Array.replicate W default) = y at hsim ⊢
            cases x with
            | none => cases y with
              | none => rfl
              | some q => cases hsim
            | some r => cases y with
              | none => cases hsim
              | some q =>
                obtain ⟨b', v', row⟩ := q
                obtain ⟨x1, x2, x3, x4, x5⟩ := r
                simp only [Option.map_some, Option.some.injEq, Prod.mk.injEq] at hsim
                obtain ⟨e1, e2, e3⟩ := hsim
                subst e1 e2 e3
                simp [P2, E2, R, addU32_small lu1' (by omega)]
          · rw [if_neg hl, if_neg hl]; rfl
        · rw [cell_stores_none ob cout hc t' lu1' hi v, wr_none _ _ _ hi]; rfl
  · have hbl : ¬ b < bs.length := by omega
    have hcnd : fillCond W bs b (encA ob t, lu1) = none := by
      simp [fillCond, barAt_nat _ _ hb63, hbl]
    rw [wf_none _ _ _ _ hcnd]
    simp [bword, hbl]

theorem outer2Cond_eq (nb W rc32 : Nat) (vmax : Int) (hvm : -(2 ^ 63 : Int) ≤ vmax) (hvm' : vmax < 2 ^ 63)
    (hG : vmaxG nb rc32 = enc 64 vmax) (fc1 fc2 : Nat) (T : Array CCell) (T2 : Rows) (lu1 lu2 b : Nat) (v : Int)
    (hv : -(2 ^ 63 : Int) ≤ v) (hv' : v < 2 ^ 63) :
    outer2Cond nb W rc32 (fc1, fc2, T, T2, lu1, lu2, enc 64 v, b) = some (decide (v ≤ vmax ∧ lu1 < W)) := by
  simp only [outer2Cond, hG, leS64_enc v vmax hv hv' hvm hvm', CSem.ltU, Option.pure_def, Bool.decide_and]

theorem outer2_sim (ob nb W : Nat) (cout : Nat → Nat) (hc : CoutOK ob cout) (bs : List Str) (hnb : nb = bs.length)
    (hn31 : nb < 2 ^ 31) (hsm : ∀ s ∈ bs, Small s) (hW : W < 2 ^ 31) (rc32 : Nat) (v0 vmax : Int)
    (hv0 : -(2 ^ 31 : Int) ≤ v0) (hv0' : v0 < 2 ^ 31) (hvm : -(2 ^ 31 : Int) ≤ vmax) (hvm' : vmax < 2 ^ 31)
    (hG : vmaxG nb rc32 = enc 64 vmax) (fuel : Nat) (x : St2) (s : BSt) (hx : P2 x = E2 ob s) (hb : s.b ≤ nb)
    (hv : s.val = v0 + (s.b : Int)) :
    (whileFuel fuel (outer2Cond nb W rc32) (outer2Body cout nb W bs) x).map (fun r => (r.2.2.1, r.2.2.2.1)) =
      (outer2 W bs.toArray vmax fuel s).map (fun s' => (encA ob s'.t1, encR ob s'.t2)) := by
  induction fuel generalizing x s with
  | zero => rfl
  | succ n ih =>
    obtain ⟨fc1, fc2, T, T2, lu1, lu2, val, b⟩ := x
    simp only [P2, E2, Prod.mk.injEq] at hx
    obtain ⟨e1, e2, e3, e4, e5⟩ := hx
    subst e1 e2 e3 e4 e5
    have hcnd := outer2Cond_eq nb W rc32 vmax (by omega) (by omega) hG fc1 fc2 (encA ob s.t1) (encR ob s.t2) s.lu1 lu2 s.b s.val
      (by omega) (by omega)
    rw [outer2_succ]
    by_cases hcd : s.val ≤ vmax ∧ s.lu1 < W
    · rw [if_pos hcd]
      have hcnd' : outer2Cond nb W rc32 (fc1, fc2, encA ob s.t1, encR ob s.t2, s.lu1, lu2, enc 64 s.val, s.b) = some true := by
        rw [hcnd]; simp [hcd]
      have hbody := outer2Body_eq ob nb W cout hc bs hnb hn31 hsm hW fc1 fc2 s.lu1 lu2 s.b s.val s.t1 s.t2 hb hcd.2
      have hst0 : step2 W bs.toArray ⟨s.lu1, s.val, s.b, s.t1, s.t2⟩ = step2 W bs.toArray s := rfl
      rw [hst0] at hbody
      cases hst : step2 W bs.toArray s with
      | none =>
        rw [hst] at hbody
        cases hbd : outer2Body cout nb W bs (fc1, fc2, encA ob s.t1, encR ob s.t2, s.lu1, lu2, enc 64 s.val, s.b) with
        | none => rw [wf_true_none _ _ _ _ hcnd' hbd]; rfl
        | some x' => rw [hbd] at hbody; cases hbody
      | some s' =>
        rw [hst] at hbody
        have hinv := step2_inv _ _ _ _ hst
        have hsz : bs.toArray.size = nb := by simp [hnb]
        cases hbd : outer2Body cout nb W bs (fc1, fc2, encA ob s.t1, encR ob s.t2, s.lu1, lu2, enc 64 s.val, s.b) with
        | none => rw [hbd] at hbody; cases hbody
        | some x' =>
          rw [hbd] at hbody
          simp only [Option.map_some, Option.some.injEq] at hbody
          rw [wf_true _ _ _ _ _ hcnd' hbd, ih x' s' hbody (by omega) (by omega)]
          rfl
    · rw [if_neg hcd]
      have hcnd' : outer2Cond nb W rc32 (fc1, fc2, encA ob s.t1, encR ob s.t2, s.lu1, lu2, enc 64 s.val, s.b) = some false := by
        rw [hcnd]; simp [hcd]
      rw [wf_false _ _ _ _ hcnd']; rfl

theorem buildG2_def (cout : Nat → Nat) (nb W rc : Nat) (bs : List (List Nat)) :
    buildG2 cout nb W rc bs = (whileFuel (W + 1) (outer2Cond nb W rc) (outer2Body cout nb W bs)
      (CSem.castSU 32 0, CSem.castSU 32 0, newCells (CSem.castU 64 W), callocRows (CSem.castU 64 W), CSem.castSU 32 0, CSem.castSU 32 0,
        v0G nb rc, CSem.castSS 32 64 0)).bind
        fun r => some (r.1, r.2.1, r.2.2.1, r.2.2.2.1) := rfl

theorem buildLUT2_def (W : Nat) (bs : List Str) (rc : Int) :
    buildLUT2 W bs rc = (outer2 W bs.toArray (vmaxOf bs.length rc) (W + 1)
      { lu1 := 0, val := v0Of bs.length rc, b := 0, t1 := Array.replicate W default, t2 := Array.replicate W none }).map
        (fun s => ⟨s.t1, s.t2⟩) := by
  unfold buildLUT2
  simp only []
  split <;> simp_all

theorem encR_replicate (ob W : Nat) : callocRows W = encR ob (Array.replicate W none) := by
  unfold callocRows encR
  rw [Array.map_replicate]; rfl

/-- **the generated depth-2 builder equals the hand model `buildLUT2`**: `lu_table` and `lu_table2` -/
theorem buildG2_eq (ob nb W : Nat) (cout : Nat → Nat) (hc : CoutOK ob cout) (bs : List Str) (rc : Int) (hnb : nb = bs.length)
    (hnb1 : 1 ≤ nb) (hn31 : nb < 2 ^ 31) (hsm : ∀ s ∈ bs, Small s) (hW : W < 2 ^ 31)
    (hrc : -(2 ^ 31 : Int) ≤ rc) (hrc' : rc < 2 ^ 31) (hv0 : -(2 ^ 31 : Int) ≤ v0Of nb rc) (hvm : vmaxOf nb rc < 2 ^ 31) :
    (buildG2 cout nb W (enc 32 rc) bs).map (fun r => (r.2.2.1, r.2.2.2)) =
      (buildLUT2 W bs rc).map (fun T => (encA ob T.t1, encR ob T.t2)) := by
  have hv0' : v0Of nb rc < 2 ^ 31 := by unfold v0Of; omega
  have hvm0 : -(2 ^ 31 : Int) ≤ vmaxOf nb rc := by unfold vmaxOf; omega
  have hG := vmaxG_eq nb rc hnb1 hn31 hvm0 hvm
  have h0 := v0G_eq nb rc hnb1 hn31 hv0 hv0'
  have hW64 : CSem.castU 64 W = W := by simp only [CSem.castU]; omega
  have hz : CSem.castSU 32 0 = 0 := by decide
  have hz' : CSem.castSS 32 64 0 = 0 := by decide
  have hsim := outer2_sim ob nb W cout hc bs hnb hn31 hsm hW (enc 32 rc) (v0Of nb rc) (vmaxOf nb rc) hv0 hv0' hvm0 hvm hG (W + 1)
    (0, 0, encA ob (Array.replicate W default), encR ob (Array.replicate W none), 0, 0, enc 64 (v0Of nb rc), 0)
    ⟨0, v0Of nb rc, 0, Array.replicate W default, Array.replicate W none⟩ rfl (Nat.zero_le _) (by simp)
  rw [buildG2_def, buildLUT2_def, h0, hW64, hz, hz', encA_replicate ob W, encR_replicate ob W, ← hnb]
  generalize whileFuel (W + 1) (outer2Cond nb W (enc 32 rc)) (outer2Body cout nb W bs)
      (0, 0, encA ob (Array.replicate W default), encR ob (Array.replicate W none), 0, 0, enc 64 (v0Of nb rc), 0) = x at hsim ⊢
  generalize outer2 W bs.toArray (vmaxOf nb rc) (W + 1) ⟨0, v0Of nb rc, 0, Array.replicate W default, Array.replicate W none⟩ = y
    at hsim ⊢
  cases x with
  | none => cases y with
    | none => rfl
    | some s => cases hsim
  | some r => cases y with
    | none => cases hsim
    | some s =>
      simp only [Option.map_some, Option.some.injEq] at hsim
      obtain ⟨a, b, c, d, e⟩ := r
      simpa using hsim

end Nfl.Gen
