/-
The two hand-written models of `poly::set_mpz(It first, It last)` agree: `Setters.setMpz` (Model/Setters.lean, C15: explicit iterator
walk, `Except`, the old content of the object) and `Crt.setMpz` (Model/Crt.lean, C04: closed form, `Option`), for moduli
`0 < p ≤ 2^w` (so that the conversion of the remainder to `value_type` is the identity) and an object of `n * m` words.
-/
import NflVerif.Proofs.Setters
import NflVerif.Proofs.CrtPoly

namespace Nfl.SetMpzModels
open Nfl Nfl.Setters

theorem storeMpz_eq_fdivUi (w p : Nat) (hp : 0 < p) (hw : p ≤ 2 ^ w) : storeMpz w p = fun z => Crt.fdivUi z p := by
  funext z
  unfold storeMpz
  have := Crt.fdivUi_lt z p hp
  unfold Crt.fdivUi at this ⊢
  exact Nat.mod_eq_of_lt (by omega)

/-- the walk over the moduli in closed form: modulus `cm` receives the chunk of the source starting at `(k+cm)·n` (full size) or
at its beginning (rewind) -/
theorem outer_flatMap {α : Type} (n : Nat) (full : Bool) (S : List α) (store : Nat → α → Nat) :
    ∀ (ps : List Nat) (k : Nat),
      outer n full S store ps (S.drop (k * n))
        = (List.range ps.length).flatMap (fun cm => chunk (store (ps.getD cm 0)) n (if full then S.drop ((k + cm) * n) else S)) := by
  intro ps
  induction ps with
  | nil => intro k; simp [outer]
  | cons p ps ih =>
    intro k
    rw [List.length_cons, List.range_succ_eq_map, List.flatMap_cons, List.flatMap_map]
    simp only [outer, oneModulus_eq, List.getD_cons_zero, Nat.add_zero, List.getD_cons_succ]
    congr 1
    have hd : (if full = true then S.drop (k * n) else S).drop n = (if full = true then S.drop ((k + 1) * n) else S.drop n) := by
      cases full <;> simp [List.drop_drop, Nat.succ_mul]
    rw [hd]
    cases full with
    | true =>
      simp only [if_true]
      rw [ih (k + 1)]
      apply List.flatMap_congr
      intro cm _
      simp only [if_true]
      rw [show k + 1 + cm = k + (cm + 1) by omega]
    | false =>
      -- rewinding: the position of `viter` on entry is irrelevant
      have hre : ∀ (qs : List Nat) (v1 v2 : List α), outer n false S store qs v1 = outer n false S store qs v2 := by
        intro qs
        cases qs with
        | nil => intro _ _; rfl
        | cons q qs => intro v1 v2; simp [outer]
      simp only [Bool.false_eq_true, if_false]
      rw [hre ps (S.drop n) (S.drop (0 * n)), ih 0]
      apply List.flatMap_congr
      intro cm _
      simp

theorem setters_eq_crt (w n : Nat) (ps : List Nat) (vals : List Int) (old : List Nat) (hold : old.length = n * ps.length)
    (hps : ∀ p ∈ ps, 0 < p ∧ p ≤ 2 ^ w) :
    (Setters.setMpz w n ps.length ps vals old).toOption = Crt.setMpz ps n vals := by
  unfold Setters.setMpz setGen Crt.setMpz
  simp only [Nat.lt_irrefl, if_false, List.take_length]
  by_cases hthrow : n < vals.length ∧ vals.length ≠ n * ps.length
  · have h1 : (decide (vals.length > n) && (vals.length != n * ps.length)) = true := by simp [hthrow.1, hthrow.2]
    rw [if_pos h1, if_pos hthrow]; rfl
  · have h1 : ¬ ((decide (vals.length > n) && (vals.length != n * ps.length)) = true) := by
      simp only [Bool.and_eq_true, decide_eq_true_eq, bne_iff_ne]; exact hthrow
    rw [if_neg h1, if_neg hthrow]
    simp only [Except.toOption, Option.some.injEq]
    rw [overwrite_all _ _ (by rw [outer_length, hold])]
    have := outer_flatMap n (vals.length == n * ps.length) vals (storeMpz w) ps 0
    simp only [Nat.zero_mul, List.drop_zero, Nat.zero_add] at this
    rw [this]
    apply List.flatMap_congr
    intro cm hcm
    have hcm' := List.mem_range.1 hcm
    have hp := hps (ps.getD cm 0) (by rw [List.getD_eq_getElem _ _ hcm']; exact List.getElem_mem hcm')
    rw [storeMpz_eq_fdivUi w _ hp.1 hp.2]
    unfold chunk
    by_cases hfull : vals.length = n * ps.length
    · simp [hfull]
      omega
    · simp [hfull]
      omega

end Nfl.SetMpzModels
