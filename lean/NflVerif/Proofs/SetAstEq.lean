/-
The straight-line pieces that `tools/gen_set_ast.py` regenerates from clang's AST of the setters / samplers of
`include/nfl/core.hpp` (`Generated/SetAst.lean`) are EQUAL to the corresponding definitions of the hand-written
models `Model/Samplers.lean` (C09 / C12) and `Model/Setters.lean` (C15), for all arguments in the ranges of their
C types.  Hypotheses are exactly: the ranges `< 2^w` of the C types; `flog2 p = Nat.log2 p` for the floating-point
call of `set(uniform)` (the contract the harness validates on every table row); `k + 1 < 2^64` for the rejection
test (`k < degree`).  Core tactics only.
-/
import NflVerif.Generated.SetAst
import NflVerif.Model.Samplers
import NflVerif.Model.Setters
import NflVerif.Proofs.OpsAstEq
import NflVerif.Proofs.Samplers

namespace Nfl.SetAstEq
open Nfl Nfl.CSem Nfl.CSet Nfl.OpsAstEq Nfl.Samplers

/-! ### node lemmas -/

theorem castSU_small {k a : Nat} (h : a < 2 ^ 31) (hk : a < 2 ^ k) : castSU k a = a := by
  rw [castSU_of_lt h]; exact Nat.mod_eq_of_lt hk

theorem castSU64_1 : castSU 64 1 = 1 := by decide
theorem castSU64_2 : castSU 64 2 = 2 := by decide
theorem castSU64_0 : castSU 64 0 = 0 := by decide
theorem castSU32_0 : castSU 32 0 = 0 := by decide
theorem castSU32_64 : castSU 32 64 = 64 := by decide
theorem castSU16_0 : castSU 16 0 = 0 := by decide
theorem castSU16_1 : castSU 16 1 = 1 := by decide
theorem castSU32_1 : castSU 32 1 = 1 := by decide

theorem and_lt_left {a : Nat} (b : Nat) {M : Nat} (h : a < M) : a &&& b < M :=
  Nat.lt_of_le_of_lt Nat.and_le_left h

theorem andS32_of_lt {a b : Nat} (ha : a < 2 ^ 32) (hb : b < 2 ^ 32) : andS32 a b = a &&& b := by
  unfold andS32; rw [Nat.mod_eq_of_lt ha, Nat.mod_eq_of_lt hb]

theorem andU_of_lt {k a b : Nat} (ha : a < 2 ^ k) : andU k a b = a &&& b := by
  unfold andU; exact Nat.mod_eq_of_lt (and_lt_left b ha)

theorem leS32_of_lt {a b : Nat} (ha : a < 2 ^ 31) (hb : b < 2 ^ 31) : leS32 a b = decide (a ≤ b) := by
  unfold leS32 bias
  rw [Nat.mod_eq_of_lt (by omega), Nat.mod_eq_of_lt (by omega)]
  by_cases h : a ≤ b
  · rw [decide_eq_true h]; exact decide_eq_true (by omega)
  · rw [decide_eq_false h]; exact decide_eq_false (by omega)

theorem neS32_zero {a : Nat} (ha : a < 2 ^ 32) : neS32 a 0 = decide (a ≠ 0) := by
  unfold neS32; rw [Nat.mod_eq_of_lt ha]

theorem eqS32_zero {a : Nat} (ha : a < 2 ^ 32) : eqS32 a 0 = decide (a = 0) := by
  unfold eqS32; rw [Nat.mod_eq_of_lt ha]

theorem ite_bool {α : Type} (P : Prop) [Decidable P] (a b : α) : (if decide P = true then a else b) = if P then a else b := by
  by_cases h : P <;> simp [h]

/-! ### `set(uniform)` -/

theorem log2_lt_64 {p : Nat} (hp : p < 2 ^ 64) : Nat.log2 p < 64 := by
  by_cases h : p = 0
  · subst h; decide
  · exact (Nat.log2_lt h).2 hp

theorem uni_mask_eq (W : Nat) (flog2 : Nat → Nat) (p : Nat) (hf : flog2 p = Nat.log2 p) (hp : p < 2 ^ 64) :
    castU W (subU 64 (shlV 64 1 (d2i (addD (flog2 p) 1))) (castSU 64 1)) = uniMask W p := by
  have hL := log2_lt_64 hp
  unfold uniMask castU subU shlV d2i addD u64
  rw [hf, castSU64_1, Nat.mod_eq_of_lt (show Nat.log2 p + 1 < 2 ^ 32 by omega), Nat.one_mul]

theorem uni_mask_u16_eq (flog2 : Nat → Nat) (p : Nat) (hf : flog2 p = Nat.log2 p) (hp : p < 2 ^ 16) :
    Gen.uni_mask_u16 flog2 p = uniMask 16 p := by
  unfold Gen.uni_mask_u16
  exact uni_mask_eq 16 flog2 p hf (by omega)
theorem uni_mask_u32_eq (flog2 : Nat → Nat) (p : Nat) (hf : flog2 p = Nat.log2 p) (hp : p < 2 ^ 32) :
    Gen.uni_mask_u32 flog2 p = uniMask 32 p := by
  unfold Gen.uni_mask_u32
  exact uni_mask_eq 32 flog2 p hf (by omega)
theorem uni_mask_u64_eq (flog2 : Nat → Nat) (p : Nat) (hf : flog2 p = Nat.log2 p) (hp : p < 2 ^ 64) :
    Gen.uni_mask_u64 flog2 p = uniMask 64 p := by
  unfold Gen.uni_mask_u64
  rw [← uni_mask_eq 64 flog2 p hf hp]
  exact (Nat.mod_mod _ _).symm

/-- `tmp = x & mask; if (tmp >= p) tmp -= p;` in `int` (16-bit limb) -/
theorem red_S16 {p t : Nat} (hp : p < 2 ^ 16) (ht : t < 2 ^ 16) :
    (if geS32 (castUS 16 t) (castUS 16 p) then castSU 16 (subS32 (castUS 16 t) (castUS 16 p)) else t) = red1 p t := by
  rw [castUS_of_lt (by omega), castUS_of_lt (by omega), geS32_of_lt (by omega) (by omega), ite_bool]
  unfold red1
  by_cases h : p ≤ t
  · rw [if_pos h, if_pos h, subS32_of_le h (by omega), castSU_small (by omega) (by omega)]
  · rw [if_neg h, if_neg h]

theorem red_U {k p t : Nat} (ht : t < 2 ^ k) : (if geU t p then subU k t p else t) = red1 p t := by
  rw [geU_eq, ite_bool]
  unfold red1
  by_cases h : p ≤ t
  · rw [if_pos h, if_pos h, subU_of_le h ht]
  · rw [if_neg h, if_neg h]

theorem uni_body_u16_eq (p mask x : Nat) (hp : p < 2 ^ 16) (hm : mask < 2 ^ 16) (hx : x < 2 ^ 16) :
    Gen.uni_body_u16 p mask x = red1 p (x &&& mask) := by
  have ht : x &&& mask < 2 ^ 16 := and_lt_left mask hx
  have e : castSU 16 (andS32 (castUS 16 x) (castUS 16 mask)) = x &&& mask := by
    rw [castUS_of_lt (by omega), castUS_of_lt (by omega), andS32_of_lt (by omega) (by omega), castSU_small (by omega) ht]
  unfold Gen.uni_body_u16
  simp only [e]
  exact red_S16 hp ht

theorem uni_body_u32_eq (p mask x : Nat) (_hp : p < 2 ^ 32) (_hm : mask < 2 ^ 32) (hx : x < 2 ^ 32) :
    Gen.uni_body_u32 p mask x = red1 p (x &&& mask) := by
  unfold Gen.uni_body_u32
  simp only [andU_of_lt hx]
  exact red_U (and_lt_left mask hx)

theorem uni_body_u64_eq (p mask x : Nat) (_hp : p < 2 ^ 64) (_hm : mask < 2 ^ 64) (hx : x < 2 ^ 64) :
    Gen.uni_body_u64 p mask x = red1 p (x &&& mask) := by
  unfold Gen.uni_body_u64
  simp only [andU_of_lt hx]
  exact red_U (and_lt_left mask hx)

/-! ### `set(non_uniform)` -/

theorem bnd_throw_u16_eq (p B : Nat) (hp : p < 2 ^ 16) : Gen.bnd_throw_u16 p B = decide (B ≥ p) := by
  unfold Gen.bnd_throw_u16; rw [castU_of_lt (by omega), geU_eq]
theorem bnd_throw_u32_eq (p B : Nat) (hp : p < 2 ^ 32) : Gen.bnd_throw_u32 p B = decide (B ≥ p) := by
  unfold Gen.bnd_throw_u32; rw [castU_of_lt (by omega), geU_eq]
theorem bnd_throw_u64_eq (p B : Nat) (_hp : p < 2 ^ 64) : Gen.bnd_throw_u64 p B = decide (B ≥ p) := by
  unfold Gen.bnd_throw_u64; rw [geU_eq]

theorem bnd_is1_u16_eq (A : Nat) : Gen.bnd_is1_u16 A = decide (A = 1) := by
  unfold Gen.bnd_is1_u16; rw [castSU64_1]; rfl
theorem bnd_is1_u32_eq (A : Nat) : Gen.bnd_is1_u32 A = decide (A = 1) := by
  unfold Gen.bnd_is1_u32; rw [castSU64_1]; rfl
theorem bnd_is1_u64_eq (A : Nat) : Gen.bnd_is1_u64 A = decide (A = 1) := by
  unfold Gen.bnd_is1_u64; rw [castSU64_1]; rfl

/-- `2*upper_bound-1` in `uint64_t` -/
theorem twoB_eq (B : Nat) : subU 64 (mulU 64 (castSU 64 2) B) (castSU 64 1) = twoBm1 B := by
  rw [castSU64_1, castSU64_2]; rfl

theorem bitLen_step {v : Nat} (hv : v ≠ 0) : bitLen v = bitLen (v / 2) + 1 := by
  unfold bitLen
  rw [if_neg hv, Nat.log2_def]
  by_cases h2 : 2 ≤ v
  · rw [if_pos h2, if_neg (by omega)]
  · have : v = 1 := by omega
    subst this; decide

/-- the bit-length loop `for (v = ...; v != 0; v >>= 1) mask_bits++` never exhausts the fuel `n + 1` on `v < 2^n`, ends with
`v = 0` and has counted `bitLen v` -/
theorem bitloop (c : Nat × Nat → Bool) (body : Nat × Nat → Nat × Nat)
    (hc : ∀ m v, c (m, v) = neU v (castSU 64 0)) (hb : ∀ m v, body (m, v) = (addU 32 m 1, shrU 64 v 1)) :
    ∀ n v m, v < 2 ^ n → n ≤ 64 → m + n < 2 ^ 32 → whileFuel c body (n + 1) (m, v) = (m + bitLen v, 0) := by
  have step : ∀ f s, whileFuel c body (f + 1) s = if c s then whileFuel c body f (body s) else s := fun _ _ => rfl
  have hz : ∀ f m, whileFuel c body (f + 1) (m, 0) = (m + bitLen 0, 0) := by
    intro f m
    rw [step, hc, castSU64_0]
    simp [neU, bitLen]
  intro n
  induction n with
  | zero =>
    intro v m hv _ _
    have : v = 0 := by omega
    subst this
    exact hz 0 m
  | succ n ih =>
    intro v m hv hn hm
    by_cases h0 : v = 0
    · subst h0; exact hz (n + 1) m
    · rw [step, hc, castSU64_0]
      have hcv : neU v 0 = true := by simp [neU, h0]
      rw [hcv, if_pos rfl, hb]
      have h64 : (2 : Nat) ^ (n + 1) ≤ 2 ^ 64 := Nat.pow_le_pow_right (by decide) hn
      have hpow : (2 : Nat) ^ (n + 1) = 2 * 2 ^ n := by rw [Nat.pow_succ]; omega
      have e1 : addU 32 m 1 = m + 1 := by unfold addU; exact Nat.mod_eq_of_lt (by omega)
      have e2 : shrU 64 v 1 = v / 2 := by rw [shrU_of_lt 1 (by omega)]
      rw [e1, e2, ih (v / 2) (m + 1) (by omega) (by omega) (by omega), bitLen_step h0]
      congr 1; omega

theorem twoBm1_lt (B : Nat) : twoBm1 B < 2 ^ 64 := Nat.mod_lt _ (by decide)

theorem bitLen_le_64 {v : Nat} (hv : v < 2 ^ 64) : bitLen v ≤ 64 := by
  unfold bitLen
  split
  · omega
  · next h => have := (Nat.log2_lt h).2 hv; omega

/-- `(mask_bits >= 64) ? ~0ULL : (1ULL << mask_bits) - 1` -/
theorem maskval_eq (bits : Nat) (hb : bits ≤ 64) :
    (if geU bits (castSU 32 64) then notU 64 0 else subU 64 (shlV 64 1 bits) (castSU 64 1)) =
      (if bits ≥ 64 then u64 - 1 else 2 ^ bits - 1) := by
  rw [castSU32_64, castSU64_1, geU_eq, ite_bool]
  by_cases h : 64 ≤ bits
  · rw [if_pos h, if_pos h]; rfl
  · rw [if_neg h, if_neg h]
    have hlt : (2 : Nat) ^ bits < 2 ^ 64 := Nat.pow_lt_pow_right (by decide) (by omega)
    have hpos : 0 < (2 : Nat) ^ bits := Nat.two_pow_pos _
    unfold subU shlV
    rw [Nat.one_mul, Nat.mod_eq_of_lt hlt]
    omega

theorem bnd_mask_u16_eq (B : Nat) : Gen.bnd_mask_u16 B = bndMask 16 B := by
  unfold Gen.bnd_mask_u16
  simp only [castSU32_0, twoB_eq]
  rw [bitloop _ _ (fun _ _ => rfl) (fun _ _ => rfl) 64 (twoBm1 B) 0 (twoBm1_lt B) (by omega) (by omega)]
  simp only [Nat.zero_add]
  rw [maskval_eq _ (bitLen_le_64 (twoBm1_lt B))]
  rfl

theorem bnd_mask_u32_eq (B : Nat) : Gen.bnd_mask_u32 B = bndMask 32 B := by
  unfold Gen.bnd_mask_u32
  simp only [castSU32_0, twoB_eq]
  rw [bitloop _ _ (fun _ _ => rfl) (fun _ _ => rfl) 64 (twoBm1 B) 0 (twoBm1_lt B) (by omega) (by omega)]
  simp only [Nat.zero_add]
  rw [maskval_eq _ (bitLen_le_64 (twoBm1_lt B))]
  rfl

theorem bnd_mask_u64_eq (B : Nat) : Gen.bnd_mask_u64 B = bndMask 64 B := by
  unfold Gen.bnd_mask_u64
  simp only [castSU32_0, twoB_eq]
  rw [bitloop _ _ (fun _ _ => rfl) (fun _ _ => rfl) 64 (twoBm1 B) 0 (twoBm1_lt B) (by omega) (by omega)]
  simp only [Nat.zero_add]
  rw [maskval_eq _ (bitLen_le_64 (twoBm1_lt B))]
  unfold bndMask
  simp only
  have : (if bitLen (twoBm1 B) ≥ 64 then u64 - 1 else 2 ^ bitLen (twoBm1 B) - 1) < 2 ^ 64 := by
    have hb := bitLen_le_64 (twoBm1_lt B)
    split
    · decide
    · next h =>
      have hlt : (2 : Nat) ^ bitLen (twoBm1 B) < 2 ^ 64 := Nat.pow_lt_pow_right (by decide) (by omega)
      omega
  exact (Nat.mod_eq_of_lt this).symm


/-- `tmp = rnd & mask; if (tmp >= 2B-1) tmp -= 2B-1;` (comparison / subtraction in `uint64_t`) -/
theorem tmpW {W t0 : Nat} (hW : 2 ^ W ≤ 2 ^ 64) (ht0 : t0 < 2 ^ W) (t : Nat) :
    (if geU (castU 64 t0) t then castU W (subU 64 (castU 64 t0) t) else t0) = (if t0 ≥ t then t0 - t else t0) := by
  rw [castU_of_lt (by omega), geU_eq, ite_bool]
  by_cases h : t ≤ t0
  · rw [if_pos h, if_pos h, subU_of_le h (by omega), castU_of_lt (by omega)]
  · rw [if_neg h, if_neg h]

theorem tmp64 {t0 : Nat} (ht0 : t0 < 2 ^ 64) (t : Nat) :
    (if geU t0 t then subU 64 t0 t else t0) = (if t0 ≥ t then t0 - t else t0) := by
  rw [geU_eq, ite_bool]
  by_cases h : t ≤ t0
  · rw [if_pos h, if_pos h, subU_of_le h ht0]
  · rw [if_neg h, if_neg h]

theorem bndTmp_def (w B x : Nat) :
    bndTmp w B x = (if x &&& bndMask w B ≥ twoBm1 B then (x &&& bndMask w B) - twoBm1 B else x &&& bndMask w B) := by
  unfold bndTmp; rfl

theorem bndTmp_lt_pow {w B x : Nat} (hx : x < 2 ^ w) : bndTmp w B x < 2 ^ w := by
  rw [bndTmp_def]
  have := and_lt_left (bndMask w B) hx
  split <;> omega

theorem bndCoef_one (w B p x : Nat) : bndCoef w B 1 p x =
    (if bndTmp w B x ≥ B then ((p + bndTmp w B x) % 2 ^ (if w < 32 then 32 else w) % u64 + u64 - twoBm1 B) % u64 % 2 ^ w
     else bndTmp w B x) := by
  unfold bndCoef; simp only [if_true]
theorem bndCoef_gen (w B A p x : Nat) (hA : A ≠ 1) : bndCoef w B A p x =
    (if bndTmp w B x ≥ B then ((p + bndTmp w B x * A) % u64 + u64 - (twoBm1 B * A) % u64) % u64 % 2 ^ w
     else bndTmp w B x * A % u64 % 2 ^ w) := by
  unfold bndCoef; simp only [if_neg hA]

theorem bnd_amp1_u16_eq (p B x : Nat) (hp : p < 2 ^ 16) (hx : x < 2 ^ 16) :
    Gen.bnd_amp1_u16 p B (bndMask 16 B) x = bndCoef 16 B 1 p x := by
  have hm : bndMask 16 B < 2 ^ 16 := Nat.mod_lt _ (by decide)
  have ht : x &&& bndMask 16 B < 2 ^ 16 := and_lt_left _ hx
  have e : castSU 16 (andS32 (castUS 16 x) (castUS 16 (bndMask 16 B))) = x &&& bndMask 16 B := by
    rw [castUS_of_lt (by omega), castUS_of_lt (by omega), andS32_of_lt (by omega) (by omega), castSU_small (by omega) ht]
  unfold Gen.bnd_amp1_u16
  simp only [e, twoB_eq, tmpW (W := 16) (by decide) ht (twoBm1 B), ← bndTmp_def]
  have hT := bndTmp_lt_pow (w := 16) (B := B) hx
  rw [bndCoef_one]
  generalize bndTmp 16 B x = T at hT ⊢
  rw [castU_of_lt (by omega), geU_eq, ite_bool, castUS_of_lt (by omega), castUS_of_lt (by omega), addS32_of_lt (by omega),
    castSU_of_lt (by omega)]
  unfold castU subU u64
  split
  · simp only [show (16 : Nat) < 32 from by decide, if_true] <;> omega
  · rfl

theorem bnd_amp1_u32_eq (p B x : Nat) (hp : p < 2 ^ 32) (hx : x < 2 ^ 32) :
    Gen.bnd_amp1_u32 p B (bndMask 32 B) x = bndCoef 32 B 1 p x := by
  have ht : x &&& bndMask 32 B < 2 ^ 32 := and_lt_left _ hx
  unfold Gen.bnd_amp1_u32
  simp only [andU_of_lt hx, twoB_eq, tmpW (W := 32) (by decide) ht (twoBm1 B), ← bndTmp_def]
  have hT := bndTmp_lt_pow (w := 32) (B := B) hx
  rw [bndCoef_one]
  generalize bndTmp 32 B x = T at hT ⊢
  rw [castU_of_lt (by omega), geU_eq, ite_bool]
  unfold castU subU addU u64
  split
  · simp only [show ¬ (32 : Nat) < 32 from by decide, if_false] <;> omega
  · rfl

theorem bnd_amp1_u64_eq (p B x : Nat) (hp : p < 2 ^ 64) (hx : x < 2 ^ 64) :
    Gen.bnd_amp1_u64 p B (bndMask 64 B) x = bndCoef 64 B 1 p x := by
  have ht : x &&& bndMask 64 B < 2 ^ 64 := and_lt_left _ hx
  unfold Gen.bnd_amp1_u64
  simp only [andU_of_lt hx, twoB_eq, tmp64 ht (twoBm1 B), ← bndTmp_def]
  have hT := bndTmp_lt_pow (w := 64) (B := B) hx
  rw [bndCoef_one]
  generalize bndTmp 64 B x = T at hT ⊢
  rw [geU_eq, ite_bool]
  unfold subU addU u64
  split
  · simp only [show ¬ (64 : Nat) < 32 from by decide, if_false] <;> omega
  · rfl

theorem bnd_ampg_u16_eq (p B A x : Nat) (hA : A ≠ 1) (hp : p < 2 ^ 16) (hx : x < 2 ^ 16) :
    Gen.bnd_ampg_u16 p B A (bndMask 16 B) x = bndCoef 16 B A p x := by
  have hm : bndMask 16 B < 2 ^ 16 := Nat.mod_lt _ (by decide)
  have ht : x &&& bndMask 16 B < 2 ^ 16 := and_lt_left _ hx
  have e : castSU 16 (andS32 (castUS 16 x) (castUS 16 (bndMask 16 B))) = x &&& bndMask 16 B := by
    rw [castUS_of_lt (by omega), castUS_of_lt (by omega), andS32_of_lt (by omega) (by omega), castSU_small (by omega) ht]
  unfold Gen.bnd_ampg_u16
  simp only [e, twoB_eq, tmpW (W := 16) (by decide) ht (twoBm1 B), ← bndTmp_def]
  have hT := bndTmp_lt_pow (w := 16) (B := B) hx
  rw [bndCoef_gen _ _ _ _ _ hA]
  generalize bndTmp 16 B x = T at hT ⊢
  rw [castU_of_lt (show T < 2 ^ 64 by omega), castU_of_lt (show p < 2 ^ 64 by omega), geU_eq, ite_bool]
  unfold castU subU addU mulU u64
  generalize T * A = y
  generalize twoBm1 B * A = z
  split <;> omega

theorem bnd_ampg_u32_eq (p B A x : Nat) (hA : A ≠ 1) (hp : p < 2 ^ 32) (hx : x < 2 ^ 32) :
    Gen.bnd_ampg_u32 p B A (bndMask 32 B) x = bndCoef 32 B A p x := by
  have ht : x &&& bndMask 32 B < 2 ^ 32 := and_lt_left _ hx
  unfold Gen.bnd_ampg_u32
  simp only [andU_of_lt hx, twoB_eq, tmpW (W := 32) (by decide) ht (twoBm1 B), ← bndTmp_def]
  have hT := bndTmp_lt_pow (w := 32) (B := B) hx
  rw [bndCoef_gen _ _ _ _ _ hA]
  generalize bndTmp 32 B x = T at hT ⊢
  rw [castU_of_lt (show T < 2 ^ 64 by omega), castU_of_lt (show p < 2 ^ 64 by omega), geU_eq, ite_bool]
  unfold castU subU addU mulU u64
  generalize T * A = y
  generalize twoBm1 B * A = z
  split <;> omega

theorem bnd_ampg_u64_eq (p B A x : Nat) (hA : A ≠ 1) (hp : p < 2 ^ 64) (hx : x < 2 ^ 64) :
    Gen.bnd_ampg_u64 p B A (bndMask 64 B) x = bndCoef 64 B A p x := by
  have ht : x &&& bndMask 64 B < 2 ^ 64 := and_lt_left _ hx
  unfold Gen.bnd_ampg_u64
  simp only [andU_of_lt hx, twoB_eq, tmp64 ht (twoBm1 B), ← bndTmp_def]
  have hT := bndTmp_lt_pow (w := 64) (B := B) hx
  rw [bndCoef_gen _ _ _ _ _ hA]
  generalize bndTmp 64 B x = T at hT ⊢
  rw [geU_eq, ite_bool]
  unfold subU addU mulU u64
  generalize T * A = y
  generalize twoBm1 B * A = z
  split <;> omega

/-! ### `set(gaussian)`: a signed sample `v` is handled as its two's-complement residue `res w v` -/

/-- the `w`-bit two's-complement word of a signed value -/
def res (w : Nat) (v : Int) : Nat := (v % (2 : Int) ^ w).toNat

theorem gau_store_u16_eq (p : Nat) (v : Int) (hp : p < 2 ^ 16) (hlo : -(2 : Int) ^ 15 ≤ v) (hhi : v < (2 : Int) ^ 15) :
    Gen.gau_store_u16 p (res 16 v) = gauStore 16 p v := by
  unfold Gen.gau_store_u16 gauStore res ltS32 bias castSS castSU addS32 castUS castSwU
  simp only [decide_eq_true_eq, Nat.reduceSub, Nat.reducePow, Int.reducePow, Int.reduceNeg] at *
  repeat' split
  all_goals omega

theorem gau_store_u32_eq (p : Nat) (v : Int) (hp : p < 2 ^ 32) (hlo : -(2 : Int) ^ 31 ≤ v) (hhi : v < (2 : Int) ^ 31) :
    Gen.gau_store_u32 p (res 32 v) = gauStore 32 p v := by
  unfold Gen.gau_store_u32 gauStore res ltS32 bias castSU addU
  simp only [decide_eq_true_eq, Nat.reduceSub, Nat.reducePow, Int.reducePow, Int.reduceNeg, Nat.reduceMul] at *
  repeat' split
  all_goals omega

theorem gau_store_u64_eq (p : Nat) (v : Int) (hp : p < 2 ^ 64) (hlo : -(2 : Int) ^ 63 ≤ v) (hhi : v < (2 : Int) ^ 63) :
    Gen.gau_store_u64 p (res 64 v) = gauStore 64 p v := by
  unfold Gen.gau_store_u64 gauStore res ltS biasW castSS castSwU addU
  simp only [decide_eq_true_eq, Nat.reduceSub, Nat.reducePow, Int.reducePow, Int.reduceNeg, Nat.reduceMul, Nat.zero_mod, Nat.reduceMod,
    Nat.reduceLT, if_true] at *
  repeat' split
  all_goals omega


theorem gau_amp_u16_eq (amp : Nat) (v : Int) (hlo : -(2 : Int) ^ 15 ≤ v) (hhi : v < (2 : Int) ^ 15) :
    Gen.gau_amp_u16 amp (res 16 v) = res 16 (gauAmp 16 amp v) := by
  have hu : ((u64 : Nat) : Int) = 18446744073709551616 := by decide
  unfold Gen.gau_amp_u16 gauAmp
  rw [castSU64_1]
  by_cases h : amp = 1
  · subst h; simp [neU]
  · have hn : neU amp 1 = true := by simp [neU, h]
    rw [if_neg h, hn, if_pos rfl]
    have hsx : ((castSwU 16 64 (res 16 v) : Nat) : Int) = v % ((u64 : Nat) : Int) := by
      rw [hu]
      unfold castSwU res
      simp only [Nat.reduceSub, Nat.reducePow, Int.reducePow, Int.reduceNeg, Nat.reduceMul] at *
      repeat' split
      all_goals omega
    have hP : ((castSwU 16 64 (res 16 v) * amp : Nat) : Int) = v % ((u64 : Nat) : Int) * (amp : Int) := by
      rw [Int.natCast_mul, hsx]
    unfold castUSw mulU
    generalize castSwU 16 64 (res 16 v) * amp = Pn at hP ⊢
    generalize v % ((u64 : Nat) : Int) * (amp : Int) = Pi at hP ⊢
    unfold res toSigned
    rw [hu]
    simp only [Nat.reduceSub, Nat.reducePow, Int.reducePow] at *
    repeat' split
    all_goals omega


theorem gau_amp_u32_eq (amp : Nat) (v : Int) (hlo : -(2 : Int) ^ 31 ≤ v) (hhi : v < (2 : Int) ^ 31) :
    Gen.gau_amp_u32 amp (res 32 v) = res 32 (gauAmp 32 amp v) := by
  have hu : ((u64 : Nat) : Int) = 18446744073709551616 := by decide
  unfold Gen.gau_amp_u32 gauAmp
  rw [castSU64_1]
  by_cases h : amp = 1
  · subst h; simp [neU]
  · have hn : neU amp 1 = true := by simp [neU, h]
    rw [if_neg h, hn, if_pos rfl]
    have hsx : ((castSU 64 (res 32 v) : Nat) : Int) = v % ((u64 : Nat) : Int) := by
      rw [hu]
      unfold castSU res
      simp only [Nat.reduceSub, Nat.reducePow, Int.reducePow, Int.reduceNeg, Nat.reduceMul] at *
      repeat' split
      all_goals omega
    have hP : ((castSU 64 (res 32 v) * amp : Nat) : Int) = v % ((u64 : Nat) : Int) * (amp : Int) := by
      rw [Int.natCast_mul, hsx]
    unfold castUS mulU
    generalize castSU 64 (res 32 v) * amp = Pn at hP ⊢
    generalize v % ((u64 : Nat) : Int) * (amp : Int) = Pi at hP ⊢
    unfold res toSigned
    rw [hu]
    simp only [Nat.reduceSub, Nat.reducePow, Int.reducePow] at *
    repeat' split
    all_goals omega


theorem gau_amp_u64_eq (amp : Nat) (v : Int) (hlo : -(2 : Int) ^ 63 ≤ v) (hhi : v < (2 : Int) ^ 63) :
    Gen.gau_amp_u64 amp (res 64 v) = res 64 (gauAmp 64 amp v) := by
  have hu : ((u64 : Nat) : Int) = 18446744073709551616 := by decide
  unfold Gen.gau_amp_u64 gauAmp
  rw [castSU64_1]
  by_cases h : amp = 1
  · subst h; simp [neU]
  · have hn : neU amp 1 = true := by simp [neU, h]
    rw [if_neg h, hn, if_pos rfl]
    have hsx : ((castSwU 64 64 (res 64 v) : Nat) : Int) = v % ((u64 : Nat) : Int) := by
      rw [hu]
      unfold castSwU res
      simp only [Nat.reduceSub, Nat.reducePow, Int.reducePow, Int.reduceNeg, Nat.reduceMul] at *
      repeat' split
      all_goals omega
    have hP : ((castSwU 64 64 (res 64 v) * amp : Nat) : Int) = v % ((u64 : Nat) : Int) * (amp : Int) := by
      rw [Int.natCast_mul, hsx]
    unfold castUSw mulU
    generalize castSwU 64 64 (res 64 v) * amp = Pn at hP ⊢
    generalize v % ((u64 : Nat) : Int) * (amp : Int) = Pi at hP ⊢
    unfold res toSigned
    rw [hu]
    simp only [Nat.reduceSub, Nat.reducePow, Int.reducePow] at *
    repeat' split
    all_goals omega

/-! ### `set(ZO_dist)` -/

theorem zo_shape {p16 : Nat} (one zero pm rho b : Nat) (hb : b < 2 ^ 8) (hr : rho < 2 ^ 8) :
    (if leS32 (castUS 8 b) (castUS 8 rho) then if neS32 (andS32 (castUS 8 b) 2) 0 then one else pm else zero) =
      (if b ≤ rho then (if b &&& 2 ≠ 0 then one else pm) else zero) := by
  have h2 : b &&& 2 < 2 ^ 32 := and_lt_left 2 (by omega)
  rw [castUS_of_lt (by omega), castUS_of_lt (by omega), leS32_of_lt (by omega) (by omega), andS32_of_lt (by omega) (by decide),
    neS32_zero h2, ite_bool, ite_bool]

theorem zo_coef_u16_eq (p rho b : Nat) (hp : p < 2 ^ 16) (hb : b < 2 ^ 8) (hr : rho < 2 ^ 8) :
    Gen.zo_coef_u16 p rho b = zoCoef 16 rho p b := by
  unfold Gen.zo_coef_u16 zoCoef
  simp only [zo_shape (p16 := 0) _ _ _ rho b hb hr, castSU16_1, castSU16_0]
  have : castU 16 (subU 32 (castU 32 p) 1) = pmOf 16 p := by unfold castU subU pmOf; omega
  rw [this]

theorem zo_coef_u32_eq (p rho b : Nat) (_hp : p < 2 ^ 32) (hb : b < 2 ^ 8) (hr : rho < 2 ^ 8) :
    Gen.zo_coef_u32 p rho b = zoCoef 32 rho p b := by
  unfold Gen.zo_coef_u32 zoCoef
  simp only [zo_shape (p16 := 0) _ _ _ rho b hb hr, castSU32_1, castSU32_0]
  rfl

theorem zo_coef_u64_eq (p rho b : Nat) (_hp : p < 2 ^ 64) (hb : b < 2 ^ 8) (hr : rho < 2 ^ 8) :
    Gen.zo_coef_u64 p rho b = zoCoef 64 rho p b := by
  unfold Gen.zo_coef_u64 zoCoef
  simp only [zo_shape (p16 := 0) _ _ _ rho b hb hr, castSU64_1, castSU64_0, castU_of_lt (show 1 < 2 ^ 64 by decide)]
  rfl

/-! ### `set(hwt_dist)` -/

theorem sizeMax_lit : (18446744073709551615 : Nat) = sizeMax := by decide

theorem hwt_accept_core (k x : Nat) (hk : k + 1 < 2 ^ 64) :
    ltU x (mulU 64 (divU 64 18446744073709551615 (addU 64 k (castSU 64 1))) (addU 64 k (castSU 64 1))) = accept k x := by
  have e1 : addU 64 k 1 = k + 1 := Nat.mod_eq_of_lt hk
  have hq : 18446744073709551615 / (k + 1) * (k + 1) ≤ 18446744073709551615 := Nat.div_mul_le_self _ _
  have hq' : 18446744073709551615 / (k + 1) ≤ 18446744073709551615 := Nat.div_le_self _ _
  have h1 : 18446744073709551615 / (k + 1) % 2 ^ 64 = 18446744073709551615 / (k + 1) := Nat.mod_eq_of_lt (by omega)
  have h2 : 18446744073709551615 / (k + 1) * (k + 1) % 2 ^ 64 = 18446744073709551615 / (k + 1) * (k + 1) := Nat.mod_eq_of_lt (by omega)
  rw [castSU64_1, e1]
  unfold ltU mulU divU accept
  rw [h1, h2, sizeMax_lit]

theorem hwt_accept_u16_eq (k x : Nat) (hk : k + 1 < 2 ^ 64) : Gen.hwt_accept_u16 k x = accept k x := by
  unfold Gen.hwt_accept_u16; exact hwt_accept_core k x hk
theorem hwt_accept_u32_eq (k x : Nat) (hk : k + 1 < 2 ^ 64) : Gen.hwt_accept_u32 k x = accept k x := by
  unfold Gen.hwt_accept_u32; exact hwt_accept_core k x hk
theorem hwt_accept_u64_eq (k x : Nat) (hk : k + 1 < 2 ^ 64) : Gen.hwt_accept_u64 k x = accept k x := by
  unfold Gen.hwt_accept_u64; exact hwt_accept_core k x hk

theorem hwt_index_core (k x : Nat) (hk : k + 1 < 2 ^ 64) (hx : x < 2 ^ 64) : modU 64 x (addU 64 k (castSU 64 1)) = x % (k + 1) := by
  have e1 : addU 64 k 1 = k + 1 := Nat.mod_eq_of_lt hk
  rw [castSU64_1, e1, modU_of_lt _ hx]
theorem hwt_index_u16_eq (k x : Nat) (hk : k + 1 < 2 ^ 64) (hx : x < 2 ^ 64) : Gen.hwt_index_u16 k x = x % (k + 1) := by
  unfold Gen.hwt_index_u16; exact hwt_index_core k x hk hx
theorem hwt_index_u32_eq (k x : Nat) (hk : k + 1 < 2 ^ 64) (hx : x < 2 ^ 64) : Gen.hwt_index_u32 k x = x % (k + 1) := by
  unfold Gen.hwt_index_u32; exact hwt_index_core k x hk hx
theorem hwt_index_u64_eq (k x : Nat) (hk : k + 1 < 2 ^ 64) (hx : x < 2 ^ 64) : Gen.hwt_index_u64 k x = x % (k + 1) := by
  unfold Gen.hwt_index_u64; exact hwt_index_core k x hk hx

/-- `if (pos < mode.hwt) hitted[pos] = k;`: the cell `hitted[pos]` after the model's `resStep` is what the generated piece computes
from its old content (the other cells are untouched: `List.set`) -/
theorem hwt_res_core (h k pos d : Nat) (hit : List Nat) (hh : h < 2 ^ 32) (hpos : pos < hit.length) :
    (resStep h hit k pos).getD pos d = (if ltU pos (castU 64 h) then k else hit.getD pos d) := by
  rw [castU_of_lt (by omega)]
  unfold resStep ltU
  rw [ite_bool]
  by_cases hc : pos < h
  · rw [if_pos hc, if_pos hc]; simp [List.getD_eq_getElem?_getD, hpos]
  · rw [if_neg hc, if_neg hc]
theorem hwt_res_u16_eq (h k pos d : Nat) (hit : List Nat) (hh : h < 2 ^ 32) (hpos : pos < hit.length) :
    (resStep h hit k pos).getD pos d = Gen.hwt_res_u16 h k pos (hit.getD pos d) := by
  unfold Gen.hwt_res_u16; exact hwt_res_core h k pos d hit hh hpos
theorem hwt_res_u32_eq (h k pos d : Nat) (hit : List Nat) (hh : h < 2 ^ 32) (hpos : pos < hit.length) :
    (resStep h hit k pos).getD pos d = Gen.hwt_res_u32 h k pos (hit.getD pos d) := by
  unfold Gen.hwt_res_u32; exact hwt_res_core h k pos d hit hh hpos
theorem hwt_res_u64_eq (h k pos d : Nat) (hit : List Nat) (hh : h < 2 ^ 32) (hpos : pos < hit.length) :
    (resStep h hit k pos).getD pos d = Gen.hwt_res_u64 h k pos (hit.getD pos d) := by
  unfold Gen.hwt_res_u64; exact hwt_res_core h k pos d hit hh hpos

theorem sign_shape (one pm x : Nat) (hx : x < 2 ^ 64) :
    (if neU (andU 64 x (castU 64 2)) 0 then one else pm) = (if x &&& 2 ≠ 0 then one else pm) := by
  rw [castU_of_lt (by decide), andU_of_lt hx]
  unfold neU
  rw [ite_bool]

theorem hwt_sign_u16_eq (p x : Nat) (hp : p < 2 ^ 16) (hx : x < 2 ^ 64) :
    Gen.hwt_sign_u16 p x = (if x &&& 2 ≠ 0 then 1 else pmOf 16 p) := by
  unfold Gen.hwt_sign_u16
  simp only [sign_shape _ _ x hx, castSU16_1]
  have : castU 16 (subU 32 (castU 32 p) 1) = pmOf 16 p := by unfold castU subU pmOf; omega
  rw [this]
theorem hwt_sign_u32_eq (p x : Nat) (_hp : p < 2 ^ 32) (hx : x < 2 ^ 64) :
    Gen.hwt_sign_u32 p x = (if x &&& 2 ≠ 0 then 1 else pmOf 32 p) := by
  unfold Gen.hwt_sign_u32
  simp only [sign_shape _ _ x hx, castSU32_1]
  rfl
theorem hwt_sign_u64_eq (p x : Nat) (_hp : p < 2 ^ 64) (hx : x < 2 ^ 64) :
    Gen.hwt_sign_u64 p x = (if x &&& 2 ≠ 0 then 1 else pmOf 64 p) := by
  unfold Gen.hwt_sign_u64
  simp only [sign_shape _ _ x hx, castSU64_1, castU_of_lt (show 1 < 2 ^ 64 by decide)]
  rfl

/-! ### `set(value_type, bool)`, `set(It, It, bool)` -/

theorem set_iszero_u16_eq (v : Nat) (hv : v < 2 ^ 16) : Gen.set_iszero_u16 v = decide (v = 0) := by
  unfold Gen.set_iszero_u16; rw [castUS_of_lt (by omega), eqS32_zero (by omega)]
theorem set_iszero_u32_eq (v : Nat) (_hv : v < 2 ^ 32) : Gen.set_iszero_u32 v = decide (v = 0) := by
  unfold Gen.set_iszero_u32; rw [castSU32_0]; rfl
theorem set_iszero_u64_eq (v : Nat) (_hv : v < 2 ^ 64) : Gen.set_iszero_u64 v = decide (v = 0) := by
  unfold Gen.set_iszero_u64; rw [castSU64_0]; rfl

theorem badsize_core (n nm size : Nat) (h : n * nm < 2 ^ 64) :
    (gtU size n && neU size (mulU 64 n nm)) = decide (size > n ∧ size ≠ n * nm) := by
  unfold gtU neU mulU
  rw [Nat.mod_eq_of_lt h, Bool.decide_and]
theorem set_badsize_u16_eq (n nm size : Nat) (h : n * nm < 2 ^ 64) : Gen.set_badsize_u16 n nm size = decide (size > n ∧ size ≠ n * nm) := by
  unfold Gen.set_badsize_u16; exact badsize_core n nm size h
theorem set_badsize_u32_eq (n nm size : Nat) (h : n * nm < 2 ^ 64) : Gen.set_badsize_u32 n nm size = decide (size > n ∧ size ≠ n * nm) := by
  unfold Gen.set_badsize_u32; exact badsize_core n nm size h
theorem set_badsize_u64_eq (n nm size : Nat) (h : n * nm < 2 ^ 64) : Gen.set_badsize_u64 n nm size = decide (size > n ∧ size ≠ n * nm) := by
  unfold Gen.set_badsize_u64; exact badsize_core n nm size h

theorem rewind_core (n nm size : Nat) (h : n * nm < 2 ^ 64) : neU size (mulU 64 n nm) = decide (size ≠ n * nm) := by
  unfold neU mulU; rw [Nat.mod_eq_of_lt h]
theorem set_rewind_u16_eq (n nm size : Nat) (h : n * nm < 2 ^ 64) : Gen.set_rewind_u16 n nm size = decide (size ≠ n * nm) := by
  unfold Gen.set_rewind_u16; exact rewind_core n nm size h
theorem set_rewind_u32_eq (n nm size : Nat) (h : n * nm < 2 ^ 64) : Gen.set_rewind_u32 n nm size = decide (size ≠ n * nm) := by
  unfold Gen.set_rewind_u32; exact rewind_core n nm size h
theorem set_rewind_u64_eq (n nm size : Nat) (h : n * nm < 2 ^ 64) : Gen.set_rewind_u64 n nm size = decide (size ≠ n * nm) := by
  unfold Gen.set_rewind_u64; exact rewind_core n nm size h

theorem modS32_of_lt {a b : Nat} (ha : a < 2 ^ 31) (hb : b < 2 ^ 31) : modS32 a b = a % b := by
  have ea : sval a = (a : Int) := by unfold sval; rw [Nat.mod_eq_of_lt (by omega), if_pos ha]
  have eb : sval b = (b : Int) := by unfold sval; rw [Nat.mod_eq_of_lt (by omega), if_pos hb]
  have hle : a % b ≤ a := Nat.mod_le _ _
  unfold modS32
  rw [ea, eb, ← Int.ofNat_tmod]
  omega

theorem set_store_u16_eq (p : Nat) (r : Bool) (v : Nat) (hp : p < 2 ^ 16) (hv : v < 2 ^ 16) :
    Gen.set_store_u16 p r v = Setters.storeWord 16 r p v := by
  have hle : v % p ≤ v := Nat.mod_le _ _
  unfold Gen.set_store_u16 Setters.storeWord
  simp only [castUS_of_lt (k := 16) (show v < 2 ^ 32 by omega), castUS_of_lt (k := 16) (show p < 2 ^ 32 by omega),
    modS32_of_lt (show v < 2 ^ 31 by omega) (show p < 2 ^ 31 by omega)]
  cases r
  · simp only [Bool.false_eq_true, if_false]; rw [castSU_of_lt (by omega)]
  · simp only [if_true]; rw [castSU_of_lt (by omega)]
theorem set_store_u32_eq (p : Nat) (r : Bool) (v : Nat) (_hp : p < 2 ^ 32) (hv : v < 2 ^ 32) :
    Gen.set_store_u32 p r v = Setters.storeWord 32 r p v := by
  have hle : v % p ≤ v := Nat.mod_le _ _
  unfold Gen.set_store_u32 Setters.storeWord modU
  cases r
  · simp only [Bool.false_eq_true, if_false]; exact (Nat.mod_eq_of_lt hv).symm
  · simp only [if_true]
theorem set_store_u64_eq (p : Nat) (r : Bool) (v : Nat) (_hp : p < 2 ^ 64) (hv : v < 2 ^ 64) :
    Gen.set_store_u64 p r v = Setters.storeWord 64 r p v := by
  have hle : v % p ≤ v := Nat.mod_le _ _
  unfold Gen.set_store_u64 Setters.storeWord modU
  cases r
  · simp only [Bool.false_eq_true, if_false]; exact (Nat.mod_eq_of_lt hv).symm
  · simp only [if_true]

theorem set_pad_u16_eq : Gen.set_pad_u16 = 0 := by decide
theorem set_pad_u32_eq : Gen.set_pad_u32 = 0 := by decide
theorem set_pad_u64_eq : Gen.set_pad_u64 = 0 := by decide

end Nfl.SetAstEq
