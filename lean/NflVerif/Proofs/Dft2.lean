/-
Closed form of `dif` and of `nttSpec` (C01/C02 mathematical layer, part 2).
-/
import NflVerif.Proofs.Dft1

namespace Nfl.Dft

variable {R : Type*} [CommRing R]

theorem dif_succ (k : Nat) (ω : R) (x : List R) :
    dif (k + 1) ω x =
      dif k (ω * ω) (List.zipWith (· + ·) (x.take (2 ^ k)) (x.drop (2 ^ k))) ++
      dif k (ω * ω) (List.zipWith (· * ·)
        (List.zipWith (· - ·) (x.take (2 ^ k)) (x.drop (2 ^ k))) (powers ω (2 ^ k))) := rfl

theorem sq_root_cond (k : Nat) (ω : R) (hω : ω ^ 2 ^ k = -1) :
    k = 0 ∨ (ω * ω) ^ 2 ^ (k - 1) = -1 := by
  rcases Nat.eq_zero_or_pos k with h | h
  · left; exact h
  · right
    rw [← pow_two, ← pow_mul, ← pow_succ', Nat.sub_add_cancel h]
    exact hω

theorem pow_shift_even (k : Nat) (ω : R) (hω : ω ^ 2 ^ k = -1) (j B : Nat) :
    ω ^ ((2 ^ k + j) * (2 * B)) = ω ^ (j * (2 * B)) := by
  rw [Nat.add_mul, pow_add, pow_mul, hω, pow_mul, neg_one_sq, one_pow, one_mul]

theorem pow_shift_odd (k : Nat) (ω : R) (hω : ω ^ 2 ^ k = -1) (j B : Nat) :
    ω ^ ((2 ^ k + j) * (2 * B + 1)) = - ω ^ (j * (2 * B + 1)) := by
  rw [Nat.add_mul, pow_add, pow_mul, hω, pow_succ, pow_mul, neg_one_sq, one_pow]
  ring

theorem dif_spec' (k : Nat) (ω : R) (x : List R) (hx : x.length = 2 ^ k)
    (hω : k = 0 ∨ ω ^ 2 ^ (k - 1) = -1) (r : Nat) (hr : r < 2 ^ k) :
    (dif k ω x).getD r 0 = ∑ j ∈ Finset.range (2 ^ k), x.getD j 0 * ω ^ (j * bitrev k r) := by
  induction k generalizing ω x r with
  | zero =>
    have : r = 0 := by simpa using hr
    subst this
    simp [dif, bitrev]
  | succ k ih =>
    have hpos : 0 < 2 ^ k := by positivity
    have h2 : 2 ^ (k + 1) = 2 ^ k + 2 ^ k := by rw [pow_succ]; omega
    have hω' : ω ^ 2 ^ k = -1 := by simpa using hω
    have hω2 := sq_root_cond k ω hω'
    have hla : (x.take (2 ^ k)).length = 2 ^ k := by simp [hx, h2]
    have hlb : (x.drop (2 ^ k)).length = 2 ^ k := by simp [hx, h2]
    have hxa : ∀ j, j < 2 ^ k → x.getD j 0 = (x.take (2 ^ k)).getD j 0 := by
      intro j hj
      conv_lhs => rw [← List.take_append_drop (2 ^ k) x]
      rw [List.getD_append _ _ _ _ (by rw [hla]; exact hj)]
    have hxb : ∀ j, j < 2 ^ k → x.getD (2 ^ k + j) 0 = (x.drop (2 ^ k)).getD j 0 := by
      intro j _
      conv_lhs => rw [← List.take_append_drop (2 ^ k) x]
      rw [List.getD_append_right _ _ _ _ (by rw [hla]; omega), hla, Nat.add_sub_cancel_left]
    rw [dif_succ, h2, Finset.sum_range_add, ← Finset.sum_add_distrib]
    generalize x.take (2 ^ k) = a at hla hxa ⊢
    generalize x.drop (2 ^ k) = b at hlb hxb ⊢
    have hlo : (List.zipWith (· + ·) a b).length = 2 ^ k := by simp [hla, hlb]
    have hhi : (List.zipWith (· * ·) (List.zipWith (· - ·) a b) (powers ω (2 ^ k))).length
        = 2 ^ k := by simp [hla, hlb, powers_length]
    rcases Nat.lt_or_ge r (2 ^ k) with hlt | hge
    · rw [List.getD_append _ _ _ _ (by rw [dif_length _ _ _ hlo]; exact hlt),
        ih (ω * ω) _ hlo hω2 r hlt, bitrev_succ_lo k r hlt]
      apply Finset.sum_congr rfl
      intro j hj
      rw [Finset.mem_range] at hj
      rw [hxa j hj, hxb j hj, getD_zipWith _ _ _ _ (by omega) (by omega),
        pow_shift_even k ω hω']
      have : (ω * ω) ^ (j * bitrev k r) = ω ^ (j * (2 * bitrev k r)) := by
        rw [← pow_two, ← pow_mul]
        congr 1
        ring
      rw [this]
      ring
    · obtain ⟨r', rfl⟩ := Nat.exists_eq_add_of_le hge
      have hlt : r' < 2 ^ k := by omega
      rw [List.getD_append_right _ _ _ _ (by rw [dif_length _ _ _ hlo]; omega),
        dif_length _ _ _ hlo, Nat.add_sub_cancel_left,
        ih (ω * ω) _ hhi hω2 r' hlt, bitrev_succ_hi k r' hlt]
      apply Finset.sum_congr rfl
      intro j hj
      rw [Finset.mem_range] at hj
      rw [hxa j hj, hxb j hj,
        getD_zipWith _ _ _ _ (by simp [hla, hlb]; omega) (by rw [powers_length]; omega),
        getD_zipWith _ _ _ _ (by omega) (by omega), getD_powers _ _ _ hj,
        pow_shift_odd k ω hω']
      have : (ω * ω) ^ (j * bitrev k r') = ω ^ (j * (2 * bitrev k r')) := by
        rw [← pow_two, ← pow_mul]
        congr 1
        ring
      rw [this, Nat.mul_add, pow_add, Nat.mul_one]
      ring

/-- The decimation-in-frequency transform computes the plain DFT in bit-reversed order. -/
theorem dif_spec (k : Nat) (ω : R) (x : List R) (hx : x.length = 2 ^ k)
    (hω : k = 0 ∨ ω ^ 2 ^ (k - 1) = -1) (r : Nat) (hr : r < 2 ^ k) :
    (dif k ω x).getD r 0 =
      ((List.range (2 ^ k)).map (fun j => x.getD j 0 * ω ^ (j * bitrev k r))).sum := by
  rw [sum_map_range]
  exact dif_spec' k ω x hx hω r hr

/-! ### `nttSpec` -/

theorem nttSpec_length (k : Nat) (φ : R) (a : List R) (ha : a.length = 2 ^ k) :
    (nttSpec k φ a).length = 2 ^ k :=
  dif_length _ _ _ (by rw [twist_length, ha])

theorem nttSpec_getD (k : Nat) (φ : R) (a : List R) (ha : a.length = 2 ^ k)
    (hφ : φ ^ 2 ^ k = -1) (r : Nat) (hr : r < 2 ^ k) :
    (nttSpec k φ a).getD r 0 =
      ∑ j ∈ Finset.range (2 ^ k), a.getD j 0 * φ ^ j * (φ * φ) ^ (j * bitrev k r) := by
  have hω : k = 0 ∨ (φ * φ) ^ 2 ^ (k - 1) = -1 := sq_root_cond k φ hφ
  unfold nttSpec
  rw [dif_spec' k (φ * φ) _ (by rw [twist_length, ha]) hω r hr]
  apply Finset.sum_congr rfl
  intro j hj
  rw [Finset.mem_range] at hj
  rw [getD_twist _ _ _ (by omega)]

theorem nttSpec_eval (k : Nat) (φ : R) (a : List R) (ha : a.length = 2 ^ k)
    (hφ : φ ^ 2 ^ k = -1) (r : Nat) (hr : r < 2 ^ k) :
    (nttSpec k φ a).getD r 0 = evalAt a (φ ^ (2 * bitrev k r + 1)) := by
  rw [nttSpec_getD k φ a ha hφ r hr, evalAt_eq_sum, ha]
  apply Finset.sum_congr rfl
  intro j _
  rw [mul_assoc]
  congr 1
  rw [← pow_two, ← pow_mul, ← pow_mul, ← pow_add]
  congr 1
  ring

end Nfl.Dft
