/-
Refinement of the word-level transform model (`Model/Ntt.lean`) to the abstract transform
(`Proofs/DftDefs.lean`), part 1: scalar butterflies and their element-wise lifting to lists.

`W = 2^w`, `4p ≤ W`.  Every intermediate word stays in `[0,2p)` ("lazy"); its image in `ZMod p`
is what the abstract transform computes.
-/
import NflVerif.Model.Ntt
import NflVerif.Proofs.OpsExact
import NflVerif.Proofs.Dft
import Mathlib.Data.ZMod.Basic

namespace Nfl.NttRefine
open Nfl

/-- all words in `[0,p)` -/
def Canonical (p : Nat) (l : List Nat) : Prop := ∀ x ∈ l, x < p

/-- all words in `[0,2p)` -/
def Lazy (p : Nat) (l : List Nat) : Prop := ∀ x ∈ l, x < 2 * p

/-- image of a list of words in `ZMod p` -/
abbrev castL (p : Nat) (l : List Nat) : List (ZMod p) := l.map (fun (x : Nat) => (x : ZMod p))

theorem Canonical.lazy {p : Nat} {l : List Nat} (h : Canonical p l) : Lazy p l :=
  fun x hx => by have := h x hx; omega

theorem Canonical.nil (p : Nat) : Canonical p [] := fun x hx => by simp at hx
theorem Lazy.nil (p : Nat) : Lazy p [] := fun x hx => by simp at hx

theorem Lazy.append {p : Nat} {a b : List Nat} (ha : Lazy p a) (hb : Lazy p b) : Lazy p (a ++ b) :=
  fun x hx => by
    rcases List.mem_append.1 hx with h | h
    · exact ha x h
    · exact hb x h

theorem Canonical.append {p : Nat} {a b : List Nat} (ha : Canonical p a) (hb : Canonical p b) :
    Canonical p (a ++ b) :=
  fun x hx => by
    rcases List.mem_append.1 hx with h | h
    · exact ha x h
    · exact hb x h

theorem Lazy.take {p : Nat} {a : List Nat} (ha : Lazy p a) (n : Nat) : Lazy p (a.take n) :=
  fun x hx => ha x (List.mem_of_mem_take hx)
theorem Lazy.drop {p : Nat} {a : List Nat} (ha : Lazy p a) (n : Nat) : Lazy p (a.drop n) :=
  fun x hx => ha x (List.mem_of_mem_drop hx)
theorem Canonical.take {p : Nat} {a : List Nat} (ha : Canonical p a) (n : Nat) :
    Canonical p (a.take n) :=
  fun x hx => ha x (List.mem_of_mem_take hx)
theorem Canonical.drop {p : Nat} {a : List Nat} (ha : Canonical p a) (n : Nat) :
    Canonical p (a.drop n) :=
  fun x hx => ha x (List.mem_of_mem_drop hx)

theorem Canonical.getD {p : Nat} {a : List Nat} (ha : Canonical p a) (hp : 0 < p) (i : Nat) :
    a.getD i 0 < p := by
  rcases Nat.lt_or_ge i a.length with h | h
  · rw [List.getD_eq_getElem _ _ h]; exact ha _ (List.getElem_mem h)
  · rw [List.getD_eq_default _ _ h]; exact hp

/-! ### casting is injective on canonical lists -/

theorem val_castL {p : Nat} [NeZero p] {l : List Nat} (h : Canonical p l) :
    (castL p l).map ZMod.val = l := by
  induction l with
  | nil => rfl
  | cons x l ih =>
    have hx : x < p := h x (by simp)
    have hl : Canonical p l := fun y hy => h y (by simp [hy])
    simp only [castL, List.map_cons] at ih ⊢
    rw [ih hl, ZMod.val_cast_of_lt hx]

theorem castL_inj {p : Nat} (hp : 0 < p) {a b : List Nat} (ha : Canonical p a) (hb : Canonical p b)
    (h : castL p a = castL p b) : a = b := by
  have : NeZero p := ⟨by omega⟩
  rw [← val_castL ha, ← val_castL hb, h]

theorem castL_getD (p : Nat) (l : List Nat) (i : Nat) :
    (castL p l).getD i 0 = ((l.getD i 0 : Nat) : ZMod p) := by
  rcases Nat.lt_or_ge i l.length with h | h
  · rw [List.getD_eq_getElem _ _ h, List.getD_eq_getElem _ _ (by simpa [castL] using h)]
    simp [castL]
  · rw [List.getD_eq_default _ _ h, List.getD_eq_default _ _ (by simpa [castL] using h)]
    simp

/-! ### scalar butterflies -/

section scalar
variable {w p : Nat}

theorem natCast_self' (p : Nat) : ((p : Nat) : ZMod p) = 0 := ZMod.natCast_self p

theorem bflyLo_spec (h4 : 4 * p ≤ 2 ^ w) {u0 u1 : Nat} (h0 : u0 < 2 * p) (h1 : u1 < 2 * p) :
    bflyLo w p u0 u1 < 2 * p ∧ ((bflyLo w p u0 u1 : Nat) : ZMod p) = (u0 : ZMod p) + u1 := by
  unfold bflyLo
  simp only
  rw [Nat.mod_eq_of_lt (by omega : u0 + u1 < 2 ^ w)]
  split
  · rename_i h
    refine ⟨by omega, ?_⟩
    rw [Nat.cast_sub h]; push_cast; rw [natCast_self']; ring
  · rename_i h
    refine ⟨by omega, ?_⟩
    push_cast; ring

theorem shoupOf_eq (hp0 : 0 < p) (hp : p ≤ 2 ^ w) {x : Nat} (hx : x < p) :
    shoupOf w p x = x * 2 ^ w / p := by
  unfold shoupOf
  have h1 : x * 2 ^ w < 2 ^ (2 * w) := by
    rw [two_mul, pow_add]
    exact Nat.mul_lt_mul_of_pos_right (by omega) (Nat.two_pow_pos w)
  rw [Nat.mod_eq_of_lt h1, Nat.mod_eq_of_lt (shoupConst_lt hp0 hx)]

theorem bflyHi_spec (hw : w = 16 ∨ w = 32 ∨ w = 64) (hp0 : 0 < p) (h4 : 4 * p ≤ 2 ^ w)
    {u0 u1 wt : Nat} (h0 : u0 < 2 * p) (h1 : u1 < 2 * p) (ht : wt < p) :
    bflyHi w p u0 u1 wt (shoupOf w p wt) < 2 * p ∧
      ((bflyHi w p u0 u1 wt (shoupOf w p wt) : Nat) : ZMod p) = ((u0 : ZMod p) - u1) * wt := by
  unfold bflyHi
  simp only
  have ht1 : (u0 + 2 * p + (2 ^ w - u1 % 2 ^ w)) % 2 ^ w = u0 + 2 * p - u1 := by
    rw [Nat.mod_eq_of_lt (by omega : u1 < 2 ^ w)]
    have : u0 + 2 * p + (2 ^ w - u1) = (u0 + 2 * p - u1) + 2 ^ w := by omega
    rw [this, Nat.add_mod_right, Nat.mod_eq_of_lt (by omega)]
  rw [ht1, shoupOf_eq hp0 (by omega) ht]
  have hx : u0 + 2 * p - u1 < 2 ^ w := by omega
  obtain ⟨_, h2, h3⟩ := shoupDiff_spec hw hp0 (by omega : 2 * p ≤ 2 ^ w) hx ht
  rw [subWrap_eq h2 (by omega)]
  refine ⟨h3, ?_⟩
  rw [Nat.cast_sub h2]; push_cast
  rw [Nat.cast_sub (by omega)]; push_cast; rw [natCast_self']; ring

theorem subLazy_spec (hw : 1 ≤ w) (h4 : 4 * p ≤ 2 ^ w) {a b : Nat} (ha : a < 2 * p)
    (hb : b < 2 * p) :
    subLazy w p a b < 2 * p ∧ ((subLazy w p a b : Nat) : ZMod p) = (a : ZMod p) - b := by
  unfold subLazy
  simp only
  have hW : 2 ^ w = 2 * 2 ^ (w - 1) := by
    conv_lhs => rw [show w = (w - 1) + 1 by omega]
    rw [pow_succ]; ring
  rw [Nat.mod_eq_of_lt (by omega : b < 2 ^ w)]
  rcases Nat.lt_or_ge a b with hab | hab
  · have hd : (a + (2 ^ w - b)) % 2 ^ w = a + 2 ^ w - b := by
      rw [Nat.mod_eq_of_lt (by omega)]; omega
    rw [hd, if_pos (by omega)]
    have : a + 2 ^ w - b + 2 * p = (a + 2 * p - b) + 2 ^ w := by omega
    rw [this, Nat.add_mod_right, Nat.mod_eq_of_lt (by omega)]
    refine ⟨by omega, ?_⟩
    rw [Nat.cast_sub (by omega)]; push_cast; rw [natCast_self']; ring
  · have hd : (a + (2 ^ w - b)) % 2 ^ w = a - b := by
      have : a + (2 ^ w - b) = (a - b) + 2 ^ w := by omega
      rw [this, Nat.add_mod_right, Nat.mod_eq_of_lt (by omega)]
    rw [hd, if_neg (by omega)]
    refine ⟨by omega, ?_⟩
    rw [Nat.cast_sub hab]

theorem strictRed_spec {x : Nat} (hx : x < 2 * p) :
    strictRed p x < p ∧ ((strictRed p x : Nat) : ZMod p) = (x : ZMod p) := by
  unfold strictRed
  split
  · rename_i h
    refine ⟨by omega, ?_⟩
    rw [Nat.cast_sub h, natCast_self']; ring
  · rename_i h
    exact ⟨by omega, rfl⟩

theorem strictRed_of_lt {x : Nat} (hx : x < p) : strictRed p x = x := by
  unfold strictRed; rw [if_neg (by omega)]

theorem mulmodShoup_spec (hw : w = 16 ∨ w = 32 ∨ w = 64) (hp0 : 0 < p) (h4 : 4 * p ≤ 2 ^ w)
    {x y : Nat} (hx : x < 2 ^ w) (hy : y < p) :
    mulmodShoup w p x y (shoupOf w p y) < p ∧
      ((mulmodShoup w p x y (shoupOf w p y) : Nat) : ZMod p) = (x : ZMod p) * y := by
  rw [shoupOf_eq hp0 (by omega) hy, mulmodShoup_exact hw hp0 (by omega) hx hy]
  refine ⟨Nat.mod_lt _ hp0, ?_⟩
  rw [ZMod.natCast_mod]; push_cast; rfl

theorem addmod_spec (h4 : 4 * p ≤ 2 ^ w) (hp0 : 0 < p) {x y : Nat} (hx : x < p) (hy : y < p) :
    addmod w p x y < p ∧ ((addmod w p x y : Nat) : ZMod p) = (x : ZMod p) + y := by
  refine ⟨addmod_lt (by omega) hx hy, ?_⟩
  rw [addmod_exact (by omega) hx hy, ZMod.natCast_mod]; push_cast; rfl

theorem submod_spec (h4 : 4 * p ≤ 2 ^ w) (hp0 : 0 < p) {x y : Nat} (hx : x < p) (hy : y < p) :
    submod w p x y < p ∧ ((submod w p x y : Nat) : ZMod p) = (x : ZMod p) - y := by
  rw [submod_exact (by omega) hx hy]
  refine ⟨Nat.mod_lt _ hp0, ?_⟩
  rw [ZMod.natCast_mod, Nat.cast_sub (by omega)]; push_cast; rw [natCast_self']; ring

theorem mulmod_spec {pn : Nat} (hp0 : 0 < p)
    (hmul : ∀ x y, x < p → y < p → mulmod w p pn x y = x * y % p)
    {x y : Nat} (hx : x < p) (hy : y < p) :
    mulmod w p pn x y < p ∧ ((mulmod w p pn x y : Nat) : ZMod p) = (x : ZMod p) * y := by
  rw [hmul x y hx hy]
  refine ⟨Nat.mod_lt _ hp0, ?_⟩
  rw [ZMod.natCast_mod]; push_cast; rfl

end scalar

/-! ### lifting to lists -/

/-- element-wise lifting of a binary word operation with a bound and a ring meaning -/
theorem zipWith_spec {p : Nat} (B1 B2 : Nat) (f : Nat → Nat → Nat) (F : ZMod p → ZMod p → ZMod p)
    (hf : ∀ x y, x < B1 → y < B1 → f x y < B2 ∧ ((f x y : Nat) : ZMod p) = F x y)
    (a b : List Nat) (ha : ∀ x ∈ a, x < B1) (hb : ∀ x ∈ b, x < B1) :
    (∀ z ∈ List.zipWith f a b, z < B2) ∧
      castL p (List.zipWith f a b) = List.zipWith F (castL p a) (castL p b) := by
  induction a generalizing b with
  | nil => simp [castL]
  | cons x a ih =>
    cases b with
    | nil => simp [castL]
    | cons y b =>
      have hx : x < B1 := ha x (by simp)
      have hy : y < B1 := hb y (by simp)
      obtain ⟨i1, i2⟩ := ih b (fun z hz => ha z (by simp [hz])) (fun z hz => hb z (by simp [hz]))
      obtain ⟨f1, f2⟩ := hf x y hx hy
      refine ⟨?_, ?_⟩
      · intro z hz
        simp only [List.zipWith_cons_cons, List.mem_cons] at hz
        rcases hz with rfl | hz
        · exact f1
        · exact i1 z hz
      · simp only [castL, List.zipWith_cons_cons, List.map_cons] at i2 ⊢
        rw [f2, i2]

theorem map_spec {p : Nat} (B1 B2 : Nat) (f : Nat → Nat)
    (hf : ∀ x, x < B1 → f x < B2 ∧ ((f x : Nat) : ZMod p) = x)
    (a : List Nat) (ha : ∀ x ∈ a, x < B1) :
    (∀ z ∈ a.map f, z < B2) ∧ castL p (a.map f) = castL p a := by
  induction a with
  | nil => simp [castL]
  | cons x a ih =>
    obtain ⟨i1, i2⟩ := ih (fun z hz => ha z (by simp [hz]))
    obtain ⟨f1, f2⟩ := hf x (ha x (by simp))
    refine ⟨?_, ?_⟩
    · intro z hz
      simp only [List.map_cons, List.mem_cons] at hz
      rcases hz with rfl | hz
      · exact f1
      · exact i1 z hz
    · simp only [castL, List.map_cons] at i2 ⊢
      rw [f2, i2]

section lists
variable {w p : Nat}

theorem hiList_spec (hw : w = 16 ∨ w = 32 ∨ w = 64) (hp0 : 0 < p) (h4 : 4 * p ≤ 2 ^ w)
    (a b ws : List Nat) (ha : Lazy p a) (hb : Lazy p b) (hws : Canonical p ws) :
    Lazy p (hiList w p a b ws (ws.map (shoupOf w p))) ∧
      castL p (hiList w p a b ws (ws.map (shoupOf w p))) =
        List.zipWith (· * ·) (List.zipWith (· - ·) (castL p a) (castL p b)) (castL p ws) := by
  induction a generalizing b ws with
  | nil => simp [hiList, castL, Lazy]
  | cons x a ih =>
    cases b with
    | nil => simp [hiList, castL, Lazy]
    | cons y b =>
      cases ws with
      | nil => simp [hiList, castL, Lazy]
      | cons t ws =>
        obtain ⟨i1, i2⟩ := ih b ws (fun z hz => ha z (by simp [hz])) (fun z hz => hb z (by simp [hz]))
          (fun z hz => hws z (by simp [hz]))
        obtain ⟨f1, f2⟩ := bflyHi_spec hw hp0 h4 (ha x (by simp)) (hb y (by simp)) (hws t (by simp))
        refine ⟨?_, ?_⟩
        · intro z hz
          simp only [List.map_cons, hiList, List.mem_cons] at hz
          rcases hz with rfl | hz
          · exact f1
          · exact i1 z hz
        · simp only [castL, List.map_cons, hiList, List.zipWith_cons_cons] at i2 ⊢
          rw [f2, i2]

theorem hiList_length (a b ws ws' : List Nat) :
    (hiList w p a b ws ws').length = min (min a.length b.length) (min ws.length ws'.length) := by
  induction a generalizing b ws ws' with
  | nil => simp [hiList]
  | cons x a ih =>
    cases b with
    | nil => simp [hiList]
    | cons y b =>
      cases ws with
      | nil => simp [hiList]
      | cons t ws =>
        cases ws' with
        | nil => simp [hiList]
        | cons t' ws' =>
          simp only [hiList, List.length_cons, ih]
          omega

theorem mulShoupList_spec (hw : w = 16 ∨ w = 32 ∨ w = 64) (hp0 : 0 < p) (h4 : 4 * p ≤ 2 ^ w)
    (a t : List Nat) (ha : ∀ x ∈ a, x < 2 ^ w) (ht : Canonical p t) :
    Canonical p (mulShoupList w p a t (t.map (shoupOf w p))) ∧
      (mulShoupList w p a t (t.map (shoupOf w p))).length = min a.length t.length ∧
      castL p (mulShoupList w p a t (t.map (shoupOf w p))) =
        List.zipWith (· * ·) (castL p a) (castL p t) := by
  induction a generalizing t with
  | nil => simp [mulShoupList, castL, Canonical]
  | cons x a ih =>
    cases t with
    | nil => simp [mulShoupList, castL, Canonical]
    | cons y t =>
      obtain ⟨i1, i2, i3⟩ := ih t (fun z hz => ha z (by simp [hz])) (fun z hz => ht z (by simp [hz]))
      obtain ⟨f1, f2⟩ := mulmodShoup_spec hw hp0 h4 (ha x (by simp)) (ht y (by simp))
      refine ⟨?_, ?_, ?_⟩
      · intro z hz
        simp only [List.map_cons, mulShoupList, List.mem_cons] at hz
        rcases hz with rfl | hz
        · exact f1
        · exact i1 z hz
      · simp only [List.map_cons, mulShoupList, List.length_cons, i2]; omega
      · simp only [castL, List.map_cons, mulShoupList, List.zipWith_cons_cons] at i3 ⊢
        rw [f2, i3]

end lists

end Nfl.NttRefine
