/- C18 helper lemmas: the three invariants hold after every schedule; list facts used by the property theorems. -/
import NflVerif.Proofs.Prng18InvA
import NflVerif.Proofs.Prng18InvB
import NflVerif.Proofs.Prng18InvC
namespace Nfl.Prng18

structure Inv (sd : Seeding) (seedVal : Nat → Nat) (reqs : Nat → Nat) (n0 : Nat) (s : State) : Prop where
  a : InvA sd seedVal n0 s
  b : InvB reqs s
  c : InvC s

theorem inv_init (sd : Seeding) (seedVal reqs : Nat → Nat) (n0 : Nat) (hn0 : n0 < W) : Inv sd seedVal reqs n0 (init reqs n0) :=
  ⟨invA_init sd seedVal reqs n0 hn0, invB_init reqs n0, invC_init reqs n0⟩

theorem inv_step {sd : Seeding} {seedVal reqs : Nat → Nat} {n0 : Nat} {s s' : State} {t : Nat}
    (hi : Inv sd seedVal reqs n0 s) (hs : step sd seedVal s t = some s') : Inv sd seedVal reqs n0 s' :=
  ⟨invA_step hi.a hs, invB_step hi.a hi.b hs, invC_step hi.a hi.c hs⟩

theorem inv_run {sd : Seeding} {seedVal reqs : Nat → Nat} {n0 : Nat} :
    ∀ (sched : List Nat) (s s' : State), Inv sd seedVal reqs n0 s → run sd seedVal s sched = some s' → Inv sd seedVal reqs n0 s' := by
  intro sched
  induction sched with
  | nil => intro s s' hi hr; simp [run] at hr; subst hr; exact hi
  | cons t r ih =>
    intro s s' hi hr
    simp only [run] at hr
    cases hst : step sd seedVal s t with
    | none => simp [hst] at hr
    | some s1 =>
      rw [hst] at hr
      exact ih s1 s' (inv_step hi hst) hr

theorem reach_inv (sd : Seeding) (seedVal reqs : Nat → Nat) (n0 : Nat) (hn0 : n0 < W) (sched : List Nat) (s : State)
    (hr : run sd seedVal (init reqs n0) sched = some s) : Inv sd seedVal reqs n0 s :=
  inv_run sched _ s (inv_init sd seedVal reqs n0 hn0) hr

/-- a history whose nonces are `n, n+1, …` (mod 2^64) in order IS the sequential service of its thread order -/
theorem eq_seqServe : ∀ (l : List (Nat × Nat)) (n : Nat),
    l.map Prod.snd = (List.range' n l.length).map (· % W) → l = seqServe n (l.map Prod.fst) := by
  intro l
  induction l with
  | nil => intro n _; rfl
  | cons x r ih =>
    intro n h
    simp only [List.length_cons, List.range'_succ, List.map_cons, List.cons.injEq] at h
    simp only [List.map_cons, seqServe, List.cons.injEq]
    exact ⟨Prod.ext rfl h.1, ih (n + 1) h.2⟩

/-- fewer than 2^64 consecutive counters stay distinct modulo 2^64 -/
theorem range_mod_nodup (n0 N : Nat) (hN : N ≤ W) : ((List.range' n0 N).map (· % W)).Nodup := by
  unfold List.Nodup
  rw [List.pairwise_map]
  refine List.Pairwise.imp_of_mem ?_ (List.pairwise_lt_range' (s := n0) (n := N))
  intro a b ha hb hlt
  rw [List.mem_range'_1] at ha hb
  simp only [W] at hN ⊢
  omega

end Nfl.Prng18
