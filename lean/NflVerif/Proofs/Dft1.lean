/-
Bit reversal facts, list helpers and the closed form of `dif` (C01/C02 mathematical layer, part 1).
-/
import NflVerif.Proofs.DftDefs
import Mathlib.Data.List.GetD
import Mathlib.Algebra.BigOperators.Group.Finset.Basic
import Mathlib.Algebra.BigOperators.Ring.Finset
import Mathlib.Algebra.BigOperators.Intervals
import Mathlib.Tactic.Ring
import Mathlib.Tactic.Positivity

namespace Nfl.Dft

variable {R : Type*} [CommRing R]

/-! ### bit reversal -/

theorem bitrev_succ (k r : Nat) : bitrev (k + 1) r = 2 * bitrev k (r % 2 ^ k) + r / 2 ^ k := rfl

theorem bitrev_lt (k r : Nat) (hr : r < 2 ^ k) : bitrev k r < 2 ^ k := by
  induction k generalizing r with
  | zero => simp [bitrev]
  | succ k ih =>
    have hpos : 0 < 2 ^ k := by positivity
    have h1 : r % 2 ^ k < 2 ^ k := Nat.mod_lt _ hpos
    have h2 := ih _ h1
    have h3 : r / 2 ^ k < 2 := by
      rw [Nat.div_lt_iff_lt_mul hpos]
      rw [pow_succ] at hr
      omega
    rw [bitrev_succ, pow_succ]
    omega

/-- the recursion from the other end (this is what `bitrevCode` does) -/
theorem bitrev_succ' (k r : Nat) (hr : r < 2 ^ (k + 1)) :
    bitrev (k + 1) r = (r % 2) * 2 ^ k + bitrev k (r / 2) := by
  induction k generalizing r with
  | zero =>
    simp only [bitrev]
    simp at hr
    omega
  | succ k ih =>
    have hm : r % 2 ^ (k + 1) < 2 ^ (k + 1) := Nat.mod_lt _ (by positivity)
    rw [bitrev_succ (k + 1) r, ih _ hm, bitrev_succ k (r / 2)]
    have h1 : r % 2 ^ (k + 1) % 2 = r % 2 :=
      Nat.mod_mod_of_dvd r (dvd_pow_self 2 (Nat.succ_ne_zero k))
    have h2 : r % 2 ^ (k + 1) / 2 = r / 2 % 2 ^ k := by
      rw [pow_succ', Nat.mod_mul_right_div_self]
    have h3 : r / 2 / 2 ^ k = r / 2 ^ (k + 1) := by
      rw [Nat.div_div_eq_div_mul, pow_succ']
    rw [h1, h2, h3, pow_succ]
    ring

theorem bitrev_involutive (k r : Nat) (hr : r < 2 ^ k) : bitrev k (bitrev k r) = r := by
  induction k generalizing r with
  | zero =>
    simp only [bitrev]
    simp at hr
    omega
  | succ k ih =>
    have hpos : 0 < 2 ^ k := by positivity
    have h1 : r % 2 ^ k < 2 ^ k := Nat.mod_lt _ hpos
    have h3 : r / 2 ^ k < 2 := by
      rw [Nat.div_lt_iff_lt_mul hpos]
      rw [pow_succ] at hr
      omega
    have hlt := bitrev_lt (k + 1) r hr
    rw [bitrev_succ' k _ hlt, bitrev_succ k r]
    have e1 : (2 * bitrev k (r % 2 ^ k) + r / 2 ^ k) % 2 = r / 2 ^ k := by
      generalize r / 2 ^ k = q at h3 ⊢
      omega
    have e2 : (2 * bitrev k (r % 2 ^ k) + r / 2 ^ k) / 2 = bitrev k (r % 2 ^ k) := by
      generalize r / 2 ^ k = q at h3 ⊢
      omega
    rw [e1, e2, ih _ h1]
    have := Nat.div_add_mod r (2 ^ k)
    rw [Nat.mul_comm] at this
    exact this

theorem bitrevCode_eq_bitrev (k i : Nat) (hi : i < 2 ^ k) : bitrevCode k i = bitrev k i := by
  induction k generalizing i with
  | zero => rfl
  | succ k ih =>
    have h2 : i / 2 < 2 ^ k := by
      rw [pow_succ] at hi
      omega
    rw [bitrev_succ' k i hi]
    simp only [bitrevCode]
    rw [ih _ h2]

theorem bitrev_zero_left (r : Nat) : bitrev 0 r = 0 := rfl

theorem bitrev_succ_lo (k r : Nat) (hr : r < 2 ^ k) : bitrev (k + 1) r = 2 * bitrev k r := by
  rw [bitrev_succ, Nat.mod_eq_of_lt hr, Nat.div_eq_of_lt hr, Nat.add_zero]

theorem bitrev_succ_hi (k r : Nat) (hr : r < 2 ^ k) :
    bitrev (k + 1) (2 ^ k + r) = 2 * bitrev k r + 1 := by
  have hpos : 0 < 2 ^ k := by positivity
  rw [bitrev_succ, Nat.add_mod_left, Nat.mod_eq_of_lt hr, Nat.add_div_left _ hpos,
    Nat.div_eq_of_lt hr]

/-! ### list helpers -/

theorem sum_map_range (f : Nat → R) (n : Nat) :
    ((List.range n).map f).sum = ∑ i ∈ Finset.range n, f i := by
  induction n with
  | zero => simp
  | succ n ih => rw [List.range_succ, List.map_append, List.sum_append, ih, Finset.sum_range_succ]; simp

theorem ext_getD {l₁ l₂ : List R} (hl : l₁.length = l₂.length)
    (h : ∀ i, i < l₁.length → l₁.getD i 0 = l₂.getD i 0) : l₁ = l₂ := by
  apply List.ext_getElem hl
  intro i h1 h2
  have := h i h1
  rwa [List.getD_eq_getElem _ _ h1, List.getD_eq_getElem _ _ h2] at this

theorem getD_zipWith (f : R → R → R) (a b : List R) (j : Nat) (ha : j < a.length)
    (hb : j < b.length) : (List.zipWith f a b).getD j 0 = f (a.getD j 0) (b.getD j 0) := by
  have hz : j < (List.zipWith f a b).length := by simp; omega
  rw [List.getD_eq_getElem _ _ hz, List.getD_eq_getElem _ _ ha, List.getD_eq_getElem _ _ hb]
  simp

theorem getD_map_range (f : Nat → R) (n j : Nat) (hj : j < n) :
    ((List.range n).map f).getD j 0 = f j := by
  have hz : j < ((List.range n).map f).length := by simp; omega
  rw [List.getD_eq_getElem _ _ hz]
  simp

theorem powers_length (ω : R) (n : Nat) : (powers ω n).length = n := by simp [powers]

theorem getD_powers (ω : R) (n j : Nat) (hj : j < n) : (powers ω n).getD j 0 = ω ^ j :=
  getD_map_range _ n j hj

theorem evalAt_eq_sum (a : List R) (ζ : R) :
    evalAt a ζ = ∑ j ∈ Finset.range a.length, a.getD j 0 * ζ ^ j := sum_map_range _ _

theorem twist_length (a : List R) (φ : R) : (twist a φ).length = a.length := by
  simp [twist, powers_length]

theorem getD_twist (a : List R) (φ : R) (j : Nat) (hj : j < a.length) :
    (twist a φ).getD j 0 = a.getD j 0 * φ ^ j := by
  unfold twist
  rw [getD_zipWith _ _ _ _ hj (by rw [powers_length]; exact hj), getD_powers _ _ _ hj]

theorem permute_length (k : Nat) (x : List R) : (permute k x).length = 2 ^ k := by
  simp [permute]

theorem getD_permute (k : Nat) (x : List R) (i : Nat) (hi : i < 2 ^ k) :
    (permute k x).getD i 0 = x.getD (bitrev k i) 0 := getD_map_range _ _ _ hi

theorem negacyclic_length (n : Nat) (a b : List R) : (negacyclic n a b).length = n := by
  simp [negacyclic]

theorem getD_negacyclic (n : Nat) (a b : List R) (c : Nat) (hc : c < n) :
    (negacyclic n a b).getD c 0 = negacyclicCoeff n a b c := getD_map_range _ _ _ hc

/-! ### `dif` -/

theorem dif_length (k : Nat) (ω : R) (x : List R) (hx : x.length = 2 ^ k) :
    (dif k ω x).length = 2 ^ k := by
  induction k generalizing ω x with
  | zero => simpa [dif] using hx
  | succ k ih =>
    have hpos : 0 < 2 ^ k := by positivity
    have h2 : 2 ^ (k + 1) = 2 ^ k + 2 ^ k := by rw [pow_succ]; omega
    simp only [dif]
    rw [List.length_append, ih, ih, h2]
    · simp [powers_length, hx, h2]
    · simp [hx, h2]

end Nfl.Dft
