/-
Tie of `Generated/LutAst.lean` (tools/gen_lut_ast.py: `buildLookupTables` from clang's AST) to the hand model `Gauss.buildLUT`.
PROVED: the generated depth-1 texts are DEFINITIONALLY the parameterised form `buildG1` (`build_*_eq_G := rfl`, re-checked on every run);
the two inner loops of depth 1 equal the model's loops for every fuel, table, barrier list (`fill_sim`, `run1_sim`).  The whole-function
equalities are in Proofs/LutAstEq2.lean (depth 1) and Proofs/LutAstEq3.lean (depth 2): see the end.
-/
import NflVerif.Generated.LutAst
import NflVerif.Proofs.GaussAstEq

set_option linter.unusedVariables false
namespace Nfl.Gen
open Nfl Nfl.Gauss Nfl.CGauss Nfl.CLut

/-! ### the generated text with its instantiation-dependent node (`cout` = the conversion `int64_t → out_class`) as a parameter -/

def fillCond (lu_size : Nat) (barriers : List (List Nat)) (b_index : Nat) : Array CCell × Nat → Option Bool := fun s => do
  let (lu_table, lu_index1) := s
  let t1 ← CLut.barAt 64 barriers b_index
  let t2 ← CGauss.idxS 32 t1 0
  pure ((CSem.ltU lu_index1 (CSem.castU 32 t2)) && (CSem.ltU lu_index1 lu_size))

def fillBody (cout : Nat → Nat) (val : Nat) : Array CCell × Nat → Option (Array CCell × Nat) := fun s => do
  let (lu_table, lu_index1) := s
  let lu_table ← CLut.setVal lu_table lu_index1 (cout val)
  let lu_index1 := CSem.addU 32 lu_index1 1
  pure (lu_table, lu_index1)

def run1Cond (nb : Nat) (barriers : List (List Nat)) (lu_index1 : Nat) : Array CCell × Nat × Nat → Option Bool := fun s => do
  let (lu_table, val, b_index) := s
  let t7 ← (if CSem.ltS 64 b_index (CSem.castUSw 64 nb) then (do let t5 ← CLut.barAt 64 barriers b_index; let t6 ← CGauss.idxS 32 t5 0; pure (CSem.eqU lu_index1 (CSem.castU 32 t6))) else pure false)
  pure (t7)

def run1Body (barriers : List (List Nat)) (lu_index1 : Nat) : Array CCell × Nat × Nat → Option (Array CCell × Nat × Nat) := fun s => do
  let (lu_table, val, b_index) := s
  let t8 ← CLut.barAt 64 barriers b_index
  let lu_table ← CLut.pushBack lu_table lu_index1 t8
  let b_index := CGauss.addS 64 b_index 1
  let val := CGauss.addS 64 val 1
  pure (lu_table, val, b_index)

/-- `((int)_number_of_barriers-1)/2 + rounded_center` as `long` -/
def vmaxG (nb rc : Nat) : Nat :=
  CSem.castSS 32 64 (CGauss.addS 32 (CLut.divS32 (CSem.subS32 (CSem.castUS 32 nb) 1) 2) rc)
/-- `-((int)_number_of_barriers-1)/2 + rounded_center` as `int64_t` -/
def v0G (nb rc : Nat) : Nat :=
  CSem.castSS 32 64 (CGauss.addS 32 (CLut.divS32 (CGauss.negS32 (CSem.subS32 (CSem.castUS 32 nb) 1)) 2) rc)

def outer1Cond (nb lu_size rc : Nat) : Nat × Array CCell × Nat × Nat × Nat → Option Bool := fun s => do
  let (_flag_ctr1, lu_table, lu_index1, val, b_index) := s
  pure ((CSem.leS 64 val (vmaxG nb rc)) && (CSem.ltU lu_index1 lu_size))

def outer1Body (cout : Nat → Nat) (nb lu_size : Nat) (barriers : List (List Nat)) :
    Nat × Array CCell × Nat × Nat × Nat → Option (Nat × Array CCell × Nat × Nat × Nat) := fun s => do
  let (_flag_ctr1, lu_table, lu_index1, val, b_index) := s
  let (lu_table, lu_index1) ← CLut.whileFuel (lu_size + 1) (fillCond lu_size barriers b_index) (fillBody cout val) (lu_table, lu_index1)
  let lu_table ← CLut.setVal lu_table lu_index1 (cout val)
  let lu_table ← CLut.setFlag lu_table lu_index1 true
  let _flag_ctr1 := CSem.addU 32 _flag_ctr1 1
  let t3 := b_index
  let b_index := CGauss.addS 64 b_index 1
  let t4 ← CLut.barAt 64 barriers t3
  let lu_table ← CLut.pushBack lu_table lu_index1 t4
  let val := CGauss.addS 64 val 1
  let (lu_table, val, b_index) ← CLut.whileFuel ((CSem.castUSw 64 nb) + 1) (run1Cond nb barriers lu_index1) (run1Body barriers lu_index1) (lu_table, val, b_index)
  let lu_index1 := CSem.addU 32 lu_index1 1
  pure (_flag_ctr1, lu_table, lu_index1, val, b_index)

def buildG1 (cout : Nat → Nat) (nb lu_size rc : Nat) (barriers : List (List Nat)) : Option (Nat × Nat × Array CCell) := do
  let _flag_ctr2 := CSem.castSU 32 0
  let (_flag_ctr1, lu_table, lu_index1, val, b_index) ← CLut.whileFuel (lu_size + 1) (outer1Cond nb lu_size rc)
    (outer1Body cout nb lu_size barriers) (_flag_ctr2, CLut.newCells (CSem.castU 64 lu_size), CSem.castSU 32 0, v0G nb rc, CSem.castSS 32 64 0)
  pure (_flag_ctr1, _flag_ctr2, lu_table)

theorem build_u8_i32_1_eq_G : @buildLookupTables_u8_i32_1 = buildG1 (CSem.castSS 64 32) := rfl
theorem build_u16_i64_1_eq_G : @buildLookupTables_u16_i64_1 = buildG1 (fun x => x) := rfl

/-! ### helpers -/

def encA (ob : Nat) (t : Array Cell) : Array CCell := t.map (encCell ob)

theorem whileFuel_zero {σ : Type} (c : σ → Option Bool) (b : σ → Option σ) (s : σ) : whileFuel 0 c b s = none := rfl
theorem whileFuel_succ {σ : Type} (n : Nat) (c : σ → Option Bool) (b : σ → Option σ) (s : σ) :
    whileFuel (n + 1) c b s = match c s with
      | none => none
      | some false => some s
      | some true => match b s with
        | none => none
        | some s' => whileFuel n c b s' := rfl

/-- append to a cell's barrier list -/
def addBl (c : Cell) (l : List Str) : Cell := ⟨c.val, c.flag, c.bl ++ l⟩
theorem addBl_nil (c : Cell) : addBl c [] = c := by cases c; simp [addBl]
theorem addBl_addBl (c : Cell) (l m : List Str) : addBl (addBl c l) m = addBl c (l ++ m) := by simp [addBl, List.append_assoc]

theorem whileFuel_cond_none {σ : Type} (n : Nat) (c : σ → Option Bool) (b : σ → Option σ) (s : σ) (h : c s = none) :
    whileFuel (n + 1) c b s = none := by simp [whileFuel, h]

theorem barAt_nat (bs : List (List Nat)) (b : Nat) (h : b < 2 ^ 63) :
    barAt 64 bs b = (bs[b]?).map (fun s => (⟨s, 0⟩ : Ptr)) := by
  have e : CSem.svalW 64 b = (b : Int) := by unfold CSem.svalW; split <;> omega
  simp [barAt, e]

theorem ltS64_small (a b : Nat) (ha : a < 2 ^ 63) (hb : b < 2 ^ 63) : CSem.ltS 64 a b = decide (a < b) := by
  simp only [CSem.ltS, CSem.biasW]
  apply decide_eq_decide.mpr
  omega

theorem updCell_enc (ob : Nat) (t : Array Cell) (i : Nat) (f : Cell → Cell) (g : CCell → CCell)
    (hfg : ∀ c, g (encCell ob c) = encCell ob (f c)) :
    updCell (encA ob t) i g = (wr t i f).map (encA ob) := by
  unfold updCell wr encA
  by_cases h : i < t.size
  · simp [h, hfg, Array.map_set]
  · simp [h]

theorem setVal_enc (ob : Nat) (t : Array Cell) (i : Nat) (v : Int) :
    setVal (encA ob t) i (enc ob v) = (wr t i (fun c => { c with val := v })).map (encA ob) :=
  updCell_enc ob t i _ _ (fun _ => rfl)
theorem setFlag_enc (ob : Nat) (t : Array Cell) (i : Nat) (b : Bool) :
    setFlag (encA ob t) i b = (wr t i (fun c => { c with flag := b })).map (encA ob) :=
  updCell_enc ob t i _ _ (fun _ => rfl)
theorem pushBack_enc (ob : Nat) (t : Array Cell) (i : Nat) (s : List Nat) :
    pushBack (encA ob t) i ⟨s, 0⟩ = (wr t i (fun c => addBl c [s])).map (encA ob) := by
  simp only [pushBack, if_true]
  exact updCell_enc ob t i _ _ (fun _ => rfl)

theorem wr_some (t : Array Cell) (i : Nat) (f : Cell → Cell) (h : i < t.size) : wr t i f = some (t.set i (f t[i])) := by
  simp [wr, h]
theorem wr_none (t : Array Cell) (i : Nat) (f : Cell → Cell) (h : ¬ i < t.size) : wr t i f = none := by
  simp [wr, h]
theorem wr_wr (t : Array Cell) (i : Nat) (f g : Cell → Cell) :
    (wr t i f).bind (fun t' => wr t' i g) = wr t i (fun c => g (f c)) := by
  by_cases h : i < t.size
  · simp [wr, h, Array.set_set]
  · simp [wr, h]

/-- the conversion `int64_t → out_class` of an instantiation, on residues -/
def CoutOK (ob : Nat) (cout : Nat → Nat) : Prop := ∀ v : Int, cout (enc 64 v) = enc ob v

theorem enc64_succ (v : Int) : CGauss.addS 64 (enc 64 v) 1 = enc 64 (v + 1) := by
  simp only [CGauss.addS, enc]; omega

/-! ### the fill loop -/

theorem fill_sim (ob W : Nat) (cout : Nat → Nat) (hc : CoutOK ob cout) (bs : List Str) (b : Nat) (hb : b < 2 ^ 63)
    (s : Str) (first : Nat) (hs : bs[b]? = some s) (h0 : s[0]? = some first) (hf : first < 2 ^ 31) (hW : W < 2 ^ 32)
    (v : Int) (fuel lu1 : Nat) (t : Array Cell) :
    whileFuel fuel (fillCond W bs b) (fillBody cout (enc 64 v)) (encA ob t, lu1) =
      (fillLoop W first v fuel lu1 t).map (fun r => (encA ob r.2, r.1)) := by
  induction fuel generalizing lu1 t with
  | zero => simp [whileFuel, fillLoop]
  | succ n ih =>
    have hcnd : fillCond W bs b (encA ob t, lu1) = some (decide (lu1 < first ∧ lu1 < W)) := by
      simp [fillCond, barAt_nat _ _ hb, hs, idxS_nat _ _ (show 0 < 2 ^ 31 by decide), h0, CSem.ltU, CSem.castU,
        Nat.mod_eq_of_lt (show first < 2 ^ 32 by omega)]
    unfold whileFuel fillLoop
    rw [hcnd]
    by_cases hcd : lu1 < first ∧ lu1 < W
    · simp only [hcd, and_self, decide_true, if_true]
      simp only [fillBody, hc v, setVal_enc, Option.bind_eq_bind, Option.pure_def]
      cases hw : wr t lu1 (fun c => { c with val := v }) with
      | none => simp
      | some t' =>
        have : CSem.addU 32 lu1 1 = lu1 + 1 := by simp only [CSem.addU]; omega
        simp [this, ih]
    · simp [hcd]

/-! ### the run loop, depth 1 -/

theorem runLoop1_acc (ba : Array Str) (lu1 fuel b : Nat) (v : Int) (acc : List Str) :
    runLoop1 ba lu1 fuel b v acc = (runLoop1 ba lu1 fuel b v []).map (fun r => (r.1, r.2.1, acc ++ r.2.2)) := by
  induction fuel generalizing b v acc with
  | zero => simp [runLoop1]
  | succ n ih =>
    unfold runLoop1
    by_cases hb : b < ba.size
    · simp only [hb, if_true]
      cases ba[b]? with
      | none => simp
      | some s =>
        simp only []
        cases s[0]? with
        | none => simp
        | some w0 =>
          by_cases hw : lu1 = w0
          · subst hw
            simp only [if_true]
            rw [ih (b + 1) (v + 1) (acc ++ [s]), ih (b + 1) (v + 1) ([] ++ [s])]
            cases runLoop1 ba lu1 n (b + 1) (v + 1) [] <;> simp
          · simp [hw]
    · simp [hb]

/-- what the model's run loop returns: `b` only grows, stays `≤ nb`, and `val` grows with it -/
theorem runLoop1_range (ba : Array Str) (lu1 fuel b : Nat) (v : Int) (acc : List Str) (r : Nat × Int × List Str)
    (h : runLoop1 ba lu1 fuel b v acc = some r) : b ≤ r.1 ∧ r.1 ≤ max b ba.size ∧ r.2.1 = v + ((r.1 - b : Nat) : Int) := by
  induction fuel generalizing b v acc with
  | zero => simp [runLoop1] at h
  | succ n ih =>
    unfold runLoop1 at h
    by_cases hb : b < ba.size
    · simp only [hb, if_true] at h
      cases hs : ba[b]? with
      | none => simp [hs] at h
      | some s =>
        simp only [hs] at h
        cases h0 : s[0]? with
        | none => simp [h0] at h
        | some w0 =>
          simp only [h0] at h
          by_cases hw : lu1 = w0
          · subst hw
            simp only [if_true] at h
            have := ih _ _ _ h
            omega
          · simp only [hw, if_false, Option.some.injEq] at h
            subst h; exact ⟨Nat.le_refl _, Nat.le_max_left _ _, by simp⟩
    · simp only [hb, if_false, Option.some.injEq] at h
      subst h; exact ⟨Nat.le_refl _, Nat.le_max_left _ _, by simp⟩

/-! NOTE for maintainers: never let `simp` work on a goal of the shape `match <generated condition / body> with …`: reducing the
`match` makes `simp` evaluate the discriminant, and `b + 2^63` (sign-bit flip of a 64-bit comparison) is then expanded in unary.
Conditions and bodies are therefore computed as stand-alone equations and plugged into these step lemmas. -/
theorem wf_none {σ : Type} (n : Nat) (c : σ → Option Bool) (b : σ → Option σ) (s : σ) (h : c s = none) :
    whileFuel (n + 1) c b s = none := by rw [whileFuel_succ, h]
theorem wf_false {σ : Type} (n : Nat) (c : σ → Option Bool) (b : σ → Option σ) (s : σ) (h : c s = some false) :
    whileFuel (n + 1) c b s = some s := by rw [whileFuel_succ, h]
theorem wf_true {σ : Type} (n : Nat) (c : σ → Option Bool) (b : σ → Option σ) (s s' : σ) (h : c s = some true)
    (hb : b s = some s') : whileFuel (n + 1) c b s = whileFuel n c b s' := by rw [whileFuel_succ, h, hb]
theorem wf_true_none {σ : Type} (n : Nat) (c : σ → Option Bool) (b : σ → Option σ) (s : σ) (h : c s = some true)
    (hb : b s = none) : whileFuel (n + 1) c b s = none := by rw [whileFuel_succ, h, hb]

theorem run1_sim (ob nb : Nat) (bs : List Str) (hnb : nb = bs.length) (hn31 : nb < 2 ^ 31) (hsm : ∀ s ∈ bs, Small s)
    (lu1 : Nat) (fuel b : Nat) (hb : b ≤ nb) (v : Int) (t : Array Cell) (ht : lu1 < t.size) :
    whileFuel fuel (run1Cond nb bs lu1) (run1Body bs lu1) (encA ob t, enc 64 v, b) =
      (runLoop1 bs.toArray lu1 fuel b v []).map (fun r =>
        (encA ob (t.set lu1 (addBl t[lu1] r.2.2)), enc 64 r.2.1, r.1)) := by
  induction fuel generalizing b v t with
  | zero => simp [whileFuel_zero, runLoop1]
  | succ n ih =>
    rw [runLoop1]
    have hnm : CSem.castUSw 64 nb = nb := by simp only [CSem.castUSw]; omega
    have hlt : CSem.ltS 64 b (CSem.castUSw 64 nb) = decide (b < nb) := by rw [hnm]; exact ltS64_small _ _ (by omega) (by omega)
    have hb63 : b < 2 ^ 63 := by omega
    by_cases hbn : b < nb
    · have hbl : b < bs.length := by omega
      have hbs : b < bs.toArray.size := by simpa using hbl
      have hs : bs[b]? = some bs[b] := List.getElem?_eq_getElem hbl
      have hget : bs.toArray[b]? = some bs[b] := by simp [hs]
      have hss : Small bs[b] := hsm _ (List.mem_of_getElem? hs)
      cases h0 : bs[b][0]? with
      | none =>
        have hcnd : run1Cond nb bs lu1 (encA ob t, enc 64 v, b) = none := by
          simp [run1Cond, hlt, hbn, barAt_nat _ _ hb63, hs, idxS_nat _ _ (show 0 < 2 ^ 31 by omega), h0]
        rw [wf_none _ _ _ _ hcnd]
        simp [hbl, hget, h0]
      | some w0 =>
        have hw0 : w0 < 2 ^ 31 := hss w0 (List.mem_of_getElem? h0)
        have hcnd : run1Cond nb bs lu1 (encA ob t, enc 64 v, b) = some (decide (lu1 = w0)) := by
          simp [run1Cond, hlt, hbn, barAt_nat _ _ hb63, hs, idxS_nat _ _ (show 0 < 2 ^ 31 by omega), h0, CSem.eqU, CSem.castU,
            Nat.mod_eq_of_lt (show w0 < 2 ^ 32 by omega)]
        by_cases hw : lu1 = w0
        · subst hw
          have hpb := pushBack_enc ob t lu1 bs[b]
          rw [wr_some _ _ _ ht] at hpb
          have hadd : CGauss.addS 64 b 1 = b + 1 := by simp only [CGauss.addS]; omega
          have hbody : run1Body bs lu1 (encA ob t, enc 64 v, b) =
              some (encA ob (t.set lu1 (addBl t[lu1] [bs[b]]) ht), enc 64 (v + 1), b + 1) := by
            simp [run1Body, barAt_nat _ _ hb63, hs, hpb, enc64_succ, hadd]
          rw [wf_true _ _ _ _ _ (by simpa using hcnd) hbody,
            ih (b + 1) (by omega) (v + 1) (t.set lu1 (addBl t[lu1] [bs[b]]) ht) (by simpa using ht)]
          simp only [List.size_toArray, hbl, if_true, hget, h0]
          rw [runLoop1_acc _ _ _ _ _ ([] ++ [bs[b]])]
          cases runLoop1 bs.toArray lu1 n (b + 1) (v + 1) [] <;> simp [Array.set_set, addBl_addBl]
        · rw [wf_false _ _ _ _ (by simpa [hw] using hcnd)]
          simp [hbl, hget, h0, hw, addBl_nil]
    · have hbl : ¬ b < bs.length := by omega
      have hcnd : run1Cond nb bs lu1 (encA ob t, enc 64 v, b) = some false := by
        simp [run1Cond, hlt, hbn]
      rw [wf_false _ _ _ _ hcnd]
      simp [hbl, addBl_nil]

/-! ### the outer loop, depth 1 -/

theorem fillLoop_le (W first : Nat) (v : Int) (fuel lu1 : Nat) (t : Array Cell) (r : Nat × Array Cell)
    (h : fillLoop W first v fuel lu1 t = some r) (hl : lu1 ≤ W) : r.1 ≤ W := by
  induction fuel generalizing lu1 t with
  | zero => simp [fillLoop] at h
  | succ n ih =>
    rw [fillLoop] at h
    by_cases hc : lu1 < first ∧ lu1 < W
    · simp only [hc, and_self, if_true] at h
      cases hw : wr t lu1 (fun c => { c with val := v }) with
      | none => simp [hw] at h
      | some t' => simp only [hw] at h; exact ih _ _ h (by omega)
    · simp only [hc, if_false, Option.some.injEq] at h
      subst h; exact hl

theorem leS64_enc (a b : Int) (ha : -(2 ^ 63 : Int) ≤ a) (ha' : a < 2 ^ 63) (hb : -(2 ^ 63 : Int) ≤ b) (hb' : b < 2 ^ 63) :
    CSem.leS 64 (enc 64 a) (enc 64 b) = decide (a ≤ b) := by
  simp only [CSem.leS, CSem.biasW, enc]
  apply decide_eq_decide.mpr
  omega

/- WHOLE FUNCTION (PROVED, in the two files that import this one):
* Proofs/LutAstEq2.lean, depth 1:
  theorem buildG1_eq (ob nb W : Nat) (cout : Nat → Nat) (hc : CoutOK ob cout) (bs : List Str) (rc : Int) (hnb : nb = bs.length)
      (hnb1 : 1 ≤ nb) (hn31 : nb < 2 ^ 31) (hsm : ∀ s ∈ bs, Small s) (hW : W < 2 ^ 31)
      (hrc : -(2 ^ 31 : Int) ≤ rc) (hrc' : rc < 2 ^ 31) (hv0 : -(2 ^ 31 : Int) ≤ v0Of nb rc) (hvm : vmaxOf nb rc < 2 ^ 31) :
      (buildG1 cout nb W (enc 32 rc) bs).map (fun r => r.2.2) = (buildLUT1 W bs rc).map (fun T => encA ob T.t1)
  via `v0G_eq` / `vmaxG_eq` (the 32-bit `int` arithmetic of the `for` header), `outer1Body_eq` (one pass of the generated outer body =
  `step1`, the model's body, using `fill_sim` and `run1_sim`), `step1_inv` (invariant `b_index ≤ nb ∧ val = v₀ + b_index`, which keeps the
  64-bit comparison `val <= vmax` in range) and `outer1_sim` (induction on the fuel).
* Proofs/LutAstEq3.lean, depth 2: the parameterised text `buildG2` (rfl ties `build_u16_i64_2_eq_G`, `build_u8_u64_2_eq_G`), `run2_sim`
  (`runLoop2`), `inner2Body_eq` / `inner2_sim` (`inner2`, through `istep2`), `outer2Body_eq` / `outer2_sim` (`outer2`, through `step2`), and
  theorem buildG2_eq (same hypotheses) :
      (buildG2 cout nb W (enc 32 rc) bs).map (fun r => (r.2.2.1, r.2.2.2)) = (buildLUT2 W bs rc).map (fun T => (encA ob T.t1, encR ob T.t2))
How the kernel blow-up of the first attempt (see the NOTE above on `b + 2^63`) is avoided: the generated bodies are exposed as bind chains by
`rfl` lemmas (`outer1Body_def`, …), conditions are computed as stand-alone equations through `leS64_enc` / `ltS64_small`, `whileFuel` terms are
`generalize`d before any case split, and the model's loop bodies are factored out (`step1`, `istep2`, `step2`) so that each loop needs one
body lemma, one invariant lemma and one short induction.  Each file builds in a few seconds. -/

end Nfl.Gen
