/-
The full 256 × 256 table of the ternary sampler (`rho` × byte), evaluated in the kernel: a finite quantifier,
so `decide +kernel` is a proof.  Kept in its own file because it takes about a minute and a half to check.
-/
import NflVerif.Proofs.Samplers
import Mathlib.Data.Finset.Card
import Mathlib.Order.Interval.Finset.Nat
namespace Nfl.Samplers
open Finset

set_option maxRecDepth 100000 in
theorem zo_counts_table : ∀ rho, rho < 256 →
    #{b ∈ range 256 | zoVal rho b ≠ 0} = rho + 1 ∧
    #{b ∈ range 256 | zoVal rho b = 1} ≤ #{b ∈ range 256 | zoVal rho b = -1} ∧
    #{b ∈ range 256 | zoVal rho b = -1} ≤ #{b ∈ range 256 | zoVal rho b = 1} + 2 ∧
    (rho = 0x7F → #{b ∈ range 256 | zoVal rho b = 1} = #{b ∈ range 256 | zoVal rho b = -1}) := by
  decide +kernel

end Nfl.Samplers
