/-
The transforms read only the first `degree - 2` cells of their tables: `nttWord` / `invNttWord` (Model/Ntt.lean) on a table and on any
prefix of it of at least `degree - 1` cells agree.  Used to pass from the whole rows `omegas[cm]` (2·degree cells, as the entry points hand
them to core::ntt) to the `degree - 1` words `core::initialize` writes (`InitAstEq.RowEq`).
-/
import NflVerif.Proofs.EntryAstEq
import NflVerif.Properties.C06Ast
import NflVerif.Properties.C01

namespace Nfl.EntryAstEq
open Nfl Nfl.Gen Nfl.CSemEntry Nfl.Crt Nfl.Compose

theorem nttLoop_take (w p : Nat) : ∀ (j N M : Nat) (wt wt' x : List Nat) (m : Nat), N ≤ m + 1 →
    ∃ m', N / 2 ^ j ≤ m' + 1 ∧
      nttLoop w p j N M (wt.take m) (wt'.take m) x =
        ((nttLoop w p j N M wt wt' x).1, (nttLoop w p j N M wt wt' x).2.1.take m', (nttLoop w p j N M wt wt' x).2.2.take m')
  | 0, N, M, wt, wt', x, m, h => ⟨m, by simpa using h, rfl⟩
  | j + 1, N, M, wt, wt', x, m, h => by
    have h1 : N / 2 ≤ m := by omega
    have e1 : ∀ l : List Nat, (l.take m).take (N / 2) = l.take (N / 2) := by intro l; rw [List.take_take, Nat.min_eq_left h1]
    have e2 : ∀ l : List Nat, (l.take m).drop (N / 2) = (l.drop (N / 2)).take (m - N / 2) := by intro l; rw [List.drop_take]
    obtain ⟨m', hm', e⟩ := nttLoop_take w p j (N / 2) (2 * M) (wt.drop (N / 2)) (wt'.drop (N / 2))
      (mapBlocks N (layerBlock w p (wt.take (N / 2)) (wt'.take (N / 2))) M x) (m - N / 2) (by omega)
    refine ⟨m', ?_, ?_⟩
    · rw [Nat.pow_succ', ← Nat.div_div_eq_div_mul]; exact hm'
    · rw [NttLoopAstEq.nttLoop_step, NttLoopAstEq.nttLoop_step, e1, e1, e2, e2]; exact e

theorem getD_one_take (l : List Nat) (m : Nat) (hm : 2 ≤ m) : (l.take m).getD 1 0 = l.getD 1 0 := by
  rw [List.getD_eq_getElem?_getD, List.getD_eq_getElem?_getD, List.getElem?_take_of_lt (by omega)]

theorem nttWord_take (w p k m : Nat) (wt wt' x : List Nat) (hm : 2 ^ k ≤ m + 1) :
    nttWord w p k (wt.take m) (wt'.take m) x = nttWord w p k wt wt' x := by
  match k, hm with
  | 0, _ => rfl
  | 1, _ => rfl
  | k' + 2, hm =>
    obtain ⟨m', hm', e⟩ := nttLoop_take w p k' (2 ^ (k' + 2)) 1 wt wt' x m hm
    have h4 : 2 ^ (k' + 2) / 2 ^ k' = 4 := by rw [Nat.pow_add, Nat.mul_comm, Nat.mul_div_cancel _ (Nat.two_pow_pos k')]
    rw [NttLoopAstEq.nttWord_two', NttLoopAstEq.nttWord_two', e]
    simp only []
    rw [getD_one_take _ m' (by omega), getD_one_take _ m' (by omega)]

theorem invNttWord_take (w p k m : Nat) (wt wt' x : List Nat) (hm : 2 ^ k ≤ m + 1) :
    invNttWord w p k (wt.take m) (wt'.take m) x = invNttWord w p k wt wt' x := by
  unfold invNttWord
  rw [nttWord_take w p k m wt wt' _ hm]

/-! ### with the tables of the GENERATED `core::initialize` (one row): the hand model's per-modulus transforms are C02's `fwd` / `inv` -/

section row
open Nfl.C03 Nfl.NttRefine Nfl.InitAstEq
variable (l : C03.Limb) {r : Row} {k : Nat} (hr : r ∈ l.table.rows) (hk : k ≤ l.lk) (s : InitRow) (hs : s.wf (2 ^ k))
include hr hk hs

theorem tabs_fwd (x : List Nat) :
    nttPowPhi l.w r.p k (tabs (C06Ast.genInit l (2 ^ k) (2 ^ l.lk) r s)) x = C02.fwd l r k x := by
  have R := C06Ast.tables_ast l hr hk s hs
  have hm : 2 ^ k ≤ (2 ^ k - 1) + 1 := by have := Nat.two_pow_pos k; omega
  unfold nttPowPhi tabs suffix
  simp only []
  rw [← nttWord_take l.w r.p k (2 ^ k - 1) _ _ _ hm, R.omegas, R.shoupomegas, R.phis, R.shoupphis]
  rfl

theorem tabs_inv (y : List Nat) :
    invnttPowInvphi l.w r.p k (tabs (C06Ast.genInit l (2 ^ k) (2 ^ l.lk) r s)) y = C02.inv l r k y := by
  have R := C06Ast.tables_ast l hr hk s hs
  have hm : 2 ^ k ≤ (2 ^ k - 1) + 1 := by have := Nat.two_pow_pos k; omega
  unfold invnttPowInvphi tabs suffix
  simp only []
  rw [← invNttWord_take l.w r.p k (2 ^ k - 1) _ _ _ hm, R.invomegas, R.shoupinvomegas, R.invphis, R.shoupinvphis]
  rfl

/-- the cells `inv_ntt` leaves in `op` are reduced, hence values of `T` (hypothesis `hmid` of the inverse entry point) -/
theorem mid_words (y : List Nat) (hy : y.length = 2 ^ k) (hc : Canonical r.p y) :
    ∀ v ∈ invNttWord l.w r.p k (C06Ast.genInit l (2 ^ k) (2 ^ l.lk) r s).invomegas
      (suffix (C06Ast.genInit l (2 ^ k) (2 ^ l.lk) r s).invomegas (C06Ast.genInit l (2 ^ k) (2 ^ l.lk) r s).shoupinvomegas) y, v < 2 ^ l.w := by
  have R := C06Ast.tables_ast l hr hk s hs
  have h := ctx_of_row l hr hk
  have hm : 2 ^ k ≤ (2 ^ k - 1) + 1 := by have := Nat.two_pow_pos k; omega
  obtain ⟨f1, _⟩ := invphiW_spec h
  obtain ⟨o1, _⟩ := mulmod_spec h.p_pos h.hmul f1 f1
  obtain ⟨p1, p2, _⟩ := permutW_spec h.p_pos k y hc
  obtain ⟨n1, _, _⟩ := nttWord_spec h.hw h.p_pos h.one_lt h.four_p h.hmul k o1 _ p2 p1
  obtain ⟨q1, _, _⟩ := permutW_spec h.p_pos k _ n1
  unfold suffix
  rw [← invNttWord_take l.w r.p k (2 ^ k - 1) _ _ _ hm, R.invomegas, R.shoupinvomegas, invNttWord_eq _ _ _ _ _ _ hy]
  exact Canonical.lt_word h q1

end row

/-! ### all moduli -/

section allmod
open Nfl.Ex Nfl.ExprAst Nfl.C03 Nfl.NttRefine

/-- pointwise `mulmod` of two flat polynomials, modulus by modulus -/
def mulAll (w : Nat) (c : Ctx) (n : Nat) (x y : List Nat) : List Nat :=
  (List.range c.nmod).flatMap fun cm => List.zipWith (mulmod w (c.p cm) (c.row cm).pn) (slice n x cm) (slice n y cm)

/-- a canonical flat polynomial: `nmoduli · n` words, slice `cm` reduced modulo `P[cm]` -/
def CanonAll (c : Ctx) (n : Nat) (a : List Nat) : Prop := a.length = c.nmod * n ∧ ∀ cm, cm < c.nmod → Canonical (c.p cm) (slice n a cm)

theorem words_of_slices {n M B : Nat} {a : List Nat} (hl : a.length = M * n) (h : ∀ cm, cm < M → ∀ v ∈ slice n a cm, v < B) :
    ∀ v ∈ a, v < B := by
  intro v hv
  rw [← flatMap_slices n M a hl] at hv
  obtain ⟨cm, hcm, hv⟩ := List.mem_flatMap.1 hv
  exact h cm (List.mem_range.1 hcm) v hv

variable (l : C03.Limb) (c : Ctx) (hlt : c.l.toC03 = l) (hrows : c.TableRows) {k : Nat} (hk : k ≤ l.lk) (s : Nat → InitRow)
  (hs : ∀ cm, (s cm).wf (2 ^ k))
include hlt hrows hk hs

theorem row_mem' {cm : Nat} (hcm : cm < c.nmod) : c.row cm ∈ l.table.rows := by
  have := Ctx.row_mem hrows hcm; rw [hlt] at this; exact this

theorem canonAll_words {a : List Nat} (ha : CanonAll c (2 ^ k) a) : ∀ v ∈ a, v < 2 ^ l.w :=
  words_of_slices ha.1 (fun cm hcm v hv => by
    have := ha.2 cm hcm v hv
    have := C02Ast.p_lt l (row_mem' l c hlt hrows hk s hs hcm)
    show v < 2 ^ l.w
    have e : c.p cm = (c.row cm).p := rfl
    omega)

theorem fwdAll_tables (a : List Nat) :
    fwdAll l.w k c.p c.nmod (fun cm => C06Ast.genInit l (2 ^ k) (2 ^ l.lk) (c.row cm) (s cm)) a =
      (List.range c.nmod).flatMap fun cm => C02.fwd l (c.row cm) k (slice (2 ^ k) a cm) :=
  flatMap_range_congr _ _ _ (fun cm hcm => tabs_fwd l (row_mem' l c hlt hrows hk s hs hcm) hk (s cm) (hs cm) _)

theorem invAll_tables (y : List Nat) :
    invAll l.w k c.p c.nmod (fun cm => C06Ast.genInit l (2 ^ k) (2 ^ l.lk) (c.row cm) (s cm)) y =
      (List.range c.nmod).flatMap fun cm => C02.inv l (c.row cm) k (slice (2 ^ k) y cm) :=
  flatMap_range_congr _ _ _ (fun cm hcm => tabs_inv l (row_mem' l c hlt hrows hk s hs hcm) hk (s cm) (hs cm) _)

/-- the forward transforms of canonical polynomials are canonical -/
theorem fwd_canonAll {a : List Nat} (ha : CanonAll c (2 ^ k) a) :
    CanonAll c (2 ^ k) ((List.range c.nmod).flatMap fun cm => C02.fwd l (c.row cm) k (slice (2 ^ k) a cm)) := by
  have hl : ∀ cm, cm < c.nmod → (C02.fwd l (c.row cm) k (slice (2 ^ k) a cm)).length = 2 ^ k := fun cm hcm =>
    (C02.fwd_canonical l (row_mem' l c hlt hrows hk s hs hcm) hk _ (slice_length _ c.nmod a (by rw [ha.1, Nat.mul_comm]) cm hcm) (ha.2 cm hcm)).2
  refine ⟨by rw [length_flatMap_chunks _ (2 ^ k) _ (fun x hx => hl x (List.mem_range.1 hx))]; simp, fun cm hcm => ?_⟩
  rw [slice_flatMap (2 ^ k) c.nmod _ hl cm hcm]
  exact (C02.fwd_canonical l (row_mem' l c hlt hrows hk s hs hcm) hk _ (slice_length _ c.nmod a (by rw [ha.1, Nat.mul_comm]) cm hcm) (ha.2 cm hcm)).1

/-- the pointwise product of canonical polynomials is canonical -/
theorem mulAll_canonAll {x y : List Nat} (hx : CanonAll c (2 ^ k) x) (hy : CanonAll c (2 ^ k) y) : CanonAll c (2 ^ k) (mulAll l.w c (2 ^ k) x y) := by
  have hsx := fun cm hcm => slice_length (2 ^ k) c.nmod x (by rw [hx.1, Nat.mul_comm]) cm hcm
  have hsy := fun cm hcm => slice_length (2 ^ k) c.nmod y (by rw [hy.1, Nat.mul_comm]) cm hcm
  have hl : ∀ cm, cm < c.nmod →
      (List.zipWith (mulmod l.w (c.p cm) (c.row cm).pn) (slice (2 ^ k) x cm) (slice (2 ^ k) y cm)).length = 2 ^ k := fun cm hcm => by
    rw [List.length_zipWith, hsx cm hcm, hsy cm hcm]; simp
  unfold mulAll
  refine ⟨by rw [length_flatMap_chunks _ (2 ^ k) _ (fun x hx => hl x (List.mem_range.1 hx))]; simp, fun cm hcm => ?_⟩
  rw [slice_flatMap (2 ^ k) c.nmod _ hl cm hcm]
  have h := ctx_of_row l (row_mem' l c hlt hrows hk s hs hcm) hk
  intro v hv
  obtain ⟨i, hi, rfl⟩ := List.getElem_of_mem hv
  rw [List.getElem_zipWith]
  exact (mulmod_spec h.p_pos h.hmul (hx.2 cm hcm _ (List.getElem_mem _)) (hy.2 cm hcm _ (List.getElem_mem _))).1

/-- C01 for all moduli, hand-model transforms: inverse of the pointwise product of the forward transforms = negacyclic products -/
theorem product_all {a b : List Nat} (ha : CanonAll c (2 ^ k) a) (hb : CanonAll c (2 ^ k) b) :
    (List.range c.nmod).flatMap (fun cm => C02.inv l (c.row cm) k (slice (2 ^ k)
      (mulAll l.w c (2 ^ k) ((List.range c.nmod).flatMap fun cm => C02.fwd l (c.row cm) k (slice (2 ^ k) a cm))
        ((List.range c.nmod).flatMap fun cm => C02.fwd l (c.row cm) k (slice (2 ^ k) b cm))) cm)) =
      (List.range c.nmod).flatMap fun cm => Spec.negacyclicNat (c.p cm) (slice (2 ^ k) a cm) (slice (2 ^ k) b cm) := by
  have hsa := fun cm hcm => slice_length (2 ^ k) c.nmod a (by rw [ha.1, Nat.mul_comm]) cm hcm
  have hsb := fun cm hcm => slice_length (2 ^ k) c.nmod b (by rw [hb.1, Nat.mul_comm]) cm hcm
  have hfa := fwd_canonAll l c hlt hrows hk s hs ha
  have hfb := fwd_canonAll l c hlt hrows hk s hs hb
  have hla : ∀ cm, cm < c.nmod → (C02.fwd l (c.row cm) k (slice (2 ^ k) a cm)).length = 2 ^ k := fun cm hcm =>
    (C02.fwd_canonical l (row_mem' l c hlt hrows hk s hs hcm) hk _ (hsa cm hcm) (ha.2 cm hcm)).2
  have hlb : ∀ cm, cm < c.nmod → (C02.fwd l (c.row cm) k (slice (2 ^ k) b cm)).length = 2 ^ k := fun cm hcm =>
    (C02.fwd_canonical l (row_mem' l c hlt hrows hk s hs hcm) hk _ (hsb cm hcm) (hb.2 cm hcm)).2
  apply flatMap_range_congr
  intro cm hcm
  have hl : ∀ cm, cm < c.nmod → (List.zipWith (mulmod l.w (c.p cm) (c.row cm).pn)
      (slice (2 ^ k) ((List.range c.nmod).flatMap fun cm => C02.fwd l (c.row cm) k (slice (2 ^ k) a cm)) cm)
      (slice (2 ^ k) ((List.range c.nmod).flatMap fun cm => C02.fwd l (c.row cm) k (slice (2 ^ k) b cm)) cm)).length = 2 ^ k := fun cm hcm => by
    rw [slice_flatMap (2 ^ k) c.nmod _ hla cm hcm, slice_flatMap (2 ^ k) c.nmod _ hlb cm hcm, List.length_zipWith, hla cm hcm, hlb cm hcm]; simp
  unfold mulAll
  rw [slice_flatMap (2 ^ k) c.nmod _ hl cm hcm, slice_flatMap (2 ^ k) c.nmod _ hla cm hcm, slice_flatMap (2 ^ k) c.nmod _ hlb cm hcm]
  exact C01.product l (row_mem' l c hlt hrows hk s hs hcm) hk _ _ (hsa cm hcm) (hsb cm hcm) (ha.2 cm hcm) (hb.2 cm hcm)

end allmod

end Nfl.EntryAstEq
