/-
C08 helper lemmas: the three nested loops of `expr::operator bool` visit every coefficient (also lane by lane in the
vector modes), `==` needs all lanes, `!=` / arithmetic roots need one.  Core Lean only.
-/
import NflVerif.Proofs.ExprStore
namespace Nfl.Ex
open Nfl

theorem lane_facts (l : Limb) (m : Mode) :
    0 < eltsPerLane l m ∧ eltCount l m % eltsPerLane l m = 0 ∧ 0 < eltCount l m ∧ trueWord l m ≠ 0 := by
  cases l <;> cases m <;> decide

/-- the lane decomposition reaches exactly the coefficients `i < deg` -/
theorem cover_all {deg vs epl : Nat} (hepl : 0 < epl) (hdv : vs % epl = 0) (hvs : 0 < vs) (hdiv : vs ∣ deg)
    (P : Nat → Prop) :
    (∀ jb, jb < deg / vs → ∀ t, t < vs → ∀ u, u < epl → P (jb * vs + (t / epl * epl + u))) ↔ ∀ i, i < deg → P i := by
  obtain ⟨q, hq⟩ := hdiv
  have hdq : deg / vs = q := by rw [hq, Nat.mul_div_cancel_left _ hvs]
  obtain ⟨k, hk⟩ := Nat.dvd_of_mod_eq_zero hdv
  constructor
  · intro h i hi
    have h1 : i / vs < deg / vs := by rw [hdq]; apply Nat.div_lt_of_lt_mul; rw [← hq]; exact hi
    have := h (i / vs) h1 (i % vs) (Nat.mod_lt _ hvs) (i % vs % epl) (Nat.mod_lt _ hepl)
    rw [Nat.div_add_mod', Nat.div_add_mod'] at this
    exact this
  · intro h jb hjb t ht u hu
    apply h
    rw [hdq] at hjb
    have h1 : t / epl < k := by apply Nat.div_lt_of_lt_mul; rw [← hk]; exact ht
    have h2 : t / epl * epl + u < vs := by
      calc t / epl * epl + u < t / epl * epl + epl := by omega
        _ = (t / epl + 1) * epl := by rw [Nat.add_mul, Nat.one_mul]
        _ ≤ k * epl := Nat.mul_le_mul_right _ h1
        _ = vs := by rw [hk, Nat.mul_comm]
    calc jb * vs + (t / epl * epl + u) < jb * vs + vs := by omega
      _ = (jb + 1) * vs := by rw [Nat.add_mul, Nat.one_mul]
      _ ≤ q * vs := Nat.mul_le_mul_right _ hjb
      _ = deg := by rw [hq, Nat.mul_comm]

theorem div_lt_div_of_dvd {vs deg i : Nat} (hvs : 0 < vs) (hdiv : vs ∣ deg) (hi : i < deg) : i / vs < deg / vs := by
  obtain ⟨q, hq⟩ := hdiv
  have hdq : deg / vs = q := by rw [hq, Nat.mul_div_cancel_left _ hvs]
  rw [hdq]; apply Nat.div_lt_of_lt_mul; rw [← hq]; exact hi

theorem cover_plain {deg vs : Nat} (hvs : 0 < vs) (hdiv : vs ∣ deg) (P : Nat → Prop) :
    (∀ jb, jb < deg / vs → ∀ t, t < vs → P (jb * vs + t)) ↔ ∀ i, i < deg → P i := by
  have := cover_all (epl := 1) Nat.one_pos (Nat.mod_one _) hvs hdiv P
  simp only [Nat.div_one, Nat.mul_one, Nat.lt_one_iff] at this
  rw [← this]
  constructor
  · intro h jb hjb t ht u hu; subst hu; exact h jb hjb t ht
  · intro h jb hjb t ht; exact h jb hjb t ht 0 rfl

/-- all elements of the 64-bit lane containing element `t` of block `j` agree -/
def sameLane (c : Ctx) (m : Mode) (st : Store) (a b : Expr) (cm j t : Nat) : Bool :=
  (List.range (eltsPerLane c.l m)).all fun u =>
    loadElem c st a cm (j + (t / eltsPerLane c.l m * eltsPerLane c.l m + u)) ==
    loadElem c st b cm (j + (t / eltsPerLane c.l m * eltsPerLane c.l m + u))

theorem cmpWord_eq_ne_zero (c : Ctx) (m : Mode) (st : Store) (a b : Expr) (cm j t : Nat) :
    (cmpWord c m st a b true cm j t != 0) = sameLane c m st a b cm j t := by
  unfold cmpWord sameLane
  have htw := (lane_facts c.l m).2.2.2
  simp only
  cases h : (List.range (eltsPerLane c.l m)).all _ <;> simp [htw]

theorem cmpWord_ne_ne_zero (c : Ctx) (m : Mode) (st : Store) (a b : Expr) (cm j t : Nat) :
    (cmpWord c m st a b false cm j t != 0) = !sameLane c m st a b cm j t := by
  unfold cmpWord sameLane
  have htw := (lane_facts c.l m).2.2.2
  simp only
  cases h : (List.range (eltsPerLane c.l m)).all _ <;> simp [htw]

/-- the boolean computed for an `==` root -/
def allSame (c : Ctx) (m : Mode) (st : Store) (a b : Expr) : Bool :=
  (List.range c.nmod).all fun cm => (List.range (c.deg / eltCount c.l m)).all fun jb =>
    (List.range (eltCount c.l m)).all fun t => sameLane c m st a b cm (jb * eltCount c.l m) t

theorem exprToBoolM_eq (c : Ctx) (m : Mode) (st : Store) (a b : Expr) (ha : a.arith = true) (hb : b.arith = true) :
    exprToBoolM c m st (.eq a b) = some (allSame c m st a b) := by
  unfold exprToBoolM allSame
  simp only [Expr.inDomain, ha, hb, Bool.and_self, Bool.not_true, Bool.false_eq_true, if_false, rootWord,
    cmpWord_eq_ne_zero]

theorem exprToBoolM_neq (c : Ctx) (m : Mode) (st : Store) (a b : Expr) (ha : a.arith = true) (hb : b.arith = true) :
    exprToBoolM c m st (.neq a b) = some (!allSame c m st a b) := by
  unfold exprToBoolM allSame
  simp only [Expr.inDomain, ha, hb, Bool.and_self, Bool.not_true, Bool.false_eq_true, if_false, rootWord,
    cmpWord_ne_ne_zero]
  congr 1
  simp only [List.not_all_eq_any_not]

theorem allSame_iff (c : Ctx) (m : Mode) (st : Store) (a b : Expr) (hdiv : eltCount c.l m ∣ c.deg) :
    allSame c m st a b = true ↔ ∀ cm, cm < c.nmod → ∀ i, i < c.deg → loadElem c st a cm i = loadElem c st b cm i := by
  obtain ⟨h1, h2, h3, _⟩ := lane_facts c.l m
  unfold allSame sameLane
  simp only [List.all_eq_true, List.mem_range, beq_iff_eq]
  constructor
  · intro h cm hcm
    exact (cover_all h1 h2 h3 hdiv (fun i => loadElem c st a cm i = loadElem c st b cm i)).mp (h cm hcm)
  · intro h cm hcm
    exact (cover_all h1 h2 h3 hdiv (fun i => loadElem c st a cm i = loadElem c st b cm i)).mpr (h cm hcm)

/-- the boolean computed for a root that is not `==` and not `!=` -/
def anyNonzero (c : Ctx) (m : Mode) (st : Store) (e : Expr) : Bool :=
  (List.range c.nmod).any fun cm => (List.range (c.deg / eltCount c.l m)).any fun jb =>
    (List.range (eltCount c.l m)).any fun t => loadElem c st e cm (jb * eltCount c.l m + t) != 0

theorem exprToBoolM_arith (c : Ctx) (m : Mode) (st : Store) (e : Expr) (he : e.arith = true) :
    exprToBoolM c m st e = some (anyNonzero c m st e) := by
  unfold exprToBoolM anyNonzero
  cases e <;> simp_all [Expr.inDomain, Expr.arith, rootWord]

theorem anyNonzero_iff (c : Ctx) (m : Mode) (st : Store) (e : Expr) (hdiv : eltCount c.l m ∣ c.deg) :
    anyNonzero c m st e = true ↔ ∃ cm, cm < c.nmod ∧ ∃ i, i < c.deg ∧ loadElem c st e cm i ≠ 0 := by
  obtain ⟨_, _, h3, _⟩ := lane_facts c.l m
  have key : ∀ cm, (∀ jb, jb < c.deg / eltCount c.l m → ∀ t, t < eltCount c.l m →
        loadElem c st e cm (jb * eltCount c.l m + t) = 0) ↔ ∀ i, i < c.deg → loadElem c st e cm i = 0 :=
    fun cm => cover_plain h3 hdiv (fun i => loadElem c st e cm i = 0)
  constructor
  · intro h
    apply Classical.byContradiction
    intro hn
    have hz : ∀ cm, cm < c.nmod → ∀ i, i < c.deg → loadElem c st e cm i = 0 := by
      intro cm hcm i hi
      apply Classical.byContradiction
      intro hne
      exact hn ⟨cm, hcm, i, hi, hne⟩
    unfold anyNonzero at h
    simp only [List.any_eq_true, List.mem_range, bne_iff_ne, ne_eq] at h
    obtain ⟨cm, hcm, jb, hjb, t, ht, hne⟩ := h
    exact hne ((key cm).mpr (hz cm hcm) jb hjb t ht)
  · intro ⟨cm, hcm, i, hi, hne⟩
    unfold anyNonzero
    simp only [List.any_eq_true, List.mem_range, bne_iff_ne, ne_eq]
    refine ⟨cm, hcm, i / eltCount c.l m, div_lt_div_of_dvd h3 hdiv hi, i % eltCount c.l m, Nat.mod_lt _ h3, ?_⟩
    rw [Nat.div_add_mod']
    exact hne

theorem getD_getElem (l : List Nat) (k : Nat) (hk : k < l.length) : l.getD k 0 = l[k] := by
  simp [List.getD_eq_getElem?_getD, List.getElem?_eq_getElem hk]

theorem getD_none (l : List Nat) (k : Nat) (hk : l.length ≤ k) : l.getD k 0 = 0 := by
  rw [List.getD_eq_getElem?_getD, List.getElem?_eq_none hk]; rfl

theorem polyToBool_iff (st : Store) (h : Nat) :
    polyToBool st h = true ↔ ∃ k, k < (st.getD h []).length ∧ rd st h k ≠ 0 := by
  unfold polyToBool rd
  simp only [List.any_eq_true, bne_iff_ne, ne_eq]
  constructor
  · intro ⟨x, hx, hne⟩
    obtain ⟨k, hk, rfl⟩ := List.getElem_of_mem hx
    refine ⟨k, hk, ?_⟩
    rw [getD_getElem _ _ hk]; exact hne
  · intro ⟨k, hk, hne⟩
    refine ⟨(st.getD h [])[k], List.getElem_mem hk, ?_⟩
    rw [getD_getElem _ _ hk] at hne; exact hne

/-- two rows of polynomial size are equal iff they agree at every coefficient `(cm,i)` -/
theorem rows_eq_iff (c : Ctx) (st : Store) (ha hb : Nat)
    (la : (st.getD ha []).length = c.n) (lb : (st.getD hb []).length = c.n) :
    st.getD ha [] = st.getD hb [] ↔
      ∀ cm, cm < c.nmod → ∀ i, i < c.deg → rd st ha (cm * c.deg + i) = rd st hb (cm * c.deg + i) := by
  constructor
  · intro h cm _ i _; unfold rd; rw [h]
  · intro h
    apply getD_eq_of_rd (by rw [la, lb])
    intro k
    by_cases hk : k < c.n
    · have hk' : k < c.nmod * c.deg := hk
      have hdeg : 0 < c.deg := by
        rcases Nat.eq_zero_or_pos c.deg with h0 | h0
        · rw [h0] at hk'; omega
        · exact h0
      have := h (k / c.deg) (by rw [Nat.div_lt_iff_lt_mul hdeg]; exact hk') (k % c.deg) (Nat.mod_lt _ hdeg)
      rw [Nat.div_add_mod'] at this
      exact this
    · rw [getD_none _ _ (by rw [la]; omega), getD_none _ _ (by rw [lb]; omega)]

end Nfl.Ex
