/-
`Generated/PermutAst.lean` (clang-AST translation of include/nfl/permut.hpp) equals the hand model
`Nfl.permutW` / `Nfl.bitrevCode` of `Model/Ntt.lean`, for every degree `2^k`, `k ≤ 15`, both variants
(unrolled `r_set` / `r_loop` recursion for `2^k ≤ PERMUT_LIMIT_UNROLL`, table `permut_compute` above).

Structure
* `revLoop`: the common loop `r = (r << 1) | (i & 1); i >>= 1`, `revLoop_eq`: its closed form with `bitrevCode`.
* `r_loop_eq`, `inner_loop_eq`: the generated 64-bit template recursion / 16-bit-in-`int` while loop compute `revLoop`
  (no truncation happens for the sizes at hand).
* `r_set_fold`: the generated call tree performs the stores `y[rev I] = x[I]` for `I = 0, 1, …` in that order.
* `scatter_fold`: a fold of stores through an involution of `[0, N)` is a gather through it.
-/
import NflVerif.Generated.PermutAst
import NflVerif.Model.Ntt
import NflVerif.Proofs.Dft1
import Mathlib.Tactic.Ring

namespace Nfl.PermutAstEq
open Nfl Nfl.Gen Nfl.CSem Nfl.CSemPermut

/-! ### bit reversal -/

theorem bitrevCode_eq (k i : Nat) : Nfl.bitrevCode k i = Dft.bitrevCode k i := by
  induction k generalizing i with
  | zero => rfl
  | succ k ih => simp [Nfl.bitrevCode, Dft.bitrevCode, ih]

theorem bitrevCode_lt (k i : Nat) : Nfl.bitrevCode k i < 2 ^ k := by
  induction k generalizing i with
  | zero => simp [Nfl.bitrevCode]
  | succ k ih =>
    have h := ih (i / 2)
    have h2 : i % 2 < 2 := Nat.mod_lt _ (by decide)
    have : (i % 2) * 2 ^ k ≤ 1 * 2 ^ k := Nat.mul_le_mul_right _ (by omega)
    simp only [Nfl.bitrevCode, Nat.pow_succ]
    omega

theorem bitrevCode_invol (k i : Nat) (hi : i < 2 ^ k) : Nfl.bitrevCode k (Nfl.bitrevCode k i) = i := by
  have h1 := bitrevCode_lt k i
  rw [bitrevCode_eq k i, Dft.bitrevCode_eq_bitrev k i hi] at h1 ⊢
  rw [bitrevCode_eq, Dft.bitrevCode_eq_bitrev k _ h1, Dft.bitrev_involutive k i hi]

/-- `j` rounds of `r = (r << 1) | (ii & 1); ii >>= 1` on unbounded naturals -/
def revLoop : Nat → Nat → Nat → Nat
  | 0, r, _ => r
  | j + 1, r, ii => revLoop j (2 * r + ii % 2) (ii / 2)

theorem revLoop_eq (j r ii : Nat) : revLoop j r ii = r * 2 ^ j + Nfl.bitrevCode j ii := by
  induction j generalizing r ii with
  | zero => simp [revLoop, Nfl.bitrevCode]
  | succ j ih =>
    simp only [revLoop, Nfl.bitrevCode, ih]
    ring

theorem or_bit (a b : Nat) (hb : b < 2) : (2 * a) ||| b = 2 * a + b := by
  have := Nat.two_pow_add_eq_or_of_lt (i := 1) (b := b) (by simpa using hb) a
  simpa using this.symm

theorem pow_lt_64 {j : Nat} (h : j ≤ 63) : 2 ^ j < 2 ^ 64 := Nat.pow_lt_pow_right (by decide) (by omega)

/-! ### unrolled variant -/

/-- `r_loop<2^j, 2^k, R, I>::value` -/
theorem r_loop_eq (k : Nat) (hk : k ≤ 62) : ∀ (d j R I fuel : Nat), j + d = k → R < 2 ^ j → I < 2 ^ 64 → d + 1 ≤ fuel →
    permut_r_loop fuel (2 ^ j) (2 ^ k) R I = revLoop d R I := by
  intro d
  induction d with
  | zero =>
    intro j R I fuel hj _ _ hf
    obtain ⟨f, rfl⟩ : ∃ f, fuel = f + 1 := ⟨fuel - 1, by omega⟩
    have : j = k := by omega
    subst this
    simp [permut_r_loop, eqU, revLoop]
  | succ d ih =>
    intro j R I fuel hj hR hI hf
    obtain ⟨f, rfl⟩ : ∃ f, fuel = f + 1 := ⟨fuel - 1, by omega⟩
    have hne : (2 : Nat) ^ j ≠ 2 ^ k := by
      intro h
      have := Nat.pow_right_injective (le_refl 2) h
      omega
    have hj64 : 2 ^ j < 2 ^ 64 := pow_lt_64 (by omega)
    have hj1 : 2 ^ (j + 1) < 2 ^ 64 := pow_lt_64 (by omega)
    have hj62 : (2 : Nat) ^ j ≤ 2 ^ 62 := Nat.pow_le_pow_right (by decide) (by omega)
    have e1 : shlU 64 (2 ^ j) 1 = 2 ^ (j + 1) := by
      unfold shlU
      rw [Nat.pow_succ] at hj1 ⊢
      omega
    have e2 : shlU 64 R 1 = 2 * R := by unfold shlU; omega
    have e3 : andU 64 I 1 = I % 2 := by
      unfold andU
      rw [Nat.and_one_is_mod]
      omega
    have e4 : orU 64 (2 * R) (I % 2) = 2 * R + I % 2 := by
      unfold orU
      rw [or_bit _ _ (Nat.mod_lt _ (by decide))]
      omega
    have e5 : shrU 64 I 1 = I / 2 := by unfold shrU; omega
    rw [permut_r_loop]
    simp only [eqU, hne, decide_false, Bool.false_eq_true, if_false, e1, e2, e3, e4, e5]
    rw [ih (j + 1) _ _ f (by omega) (by rw [Nat.pow_succ]; omega) (by omega) (by omega)]
    rfl

/-- one store of the unrolled variant -/
def ustep (k : Nat) (x : List Nat) (y : List Nat) (i : Nat) : List Nat := y.set (Nfl.bitrevCode k i) (x.getD i 0)

/-- `r_set<I, 2^j, 2^k>{}(y, x)` performs the stores for the sources `I·2^d, …, I·2^d + 2^d - 1` (`d = k - j`) in order -/
theorem r_set_fold (k : Nat) (hk : k ≤ 62) (x : List Nat) : ∀ (d j I fuel : Nat) (y : List Nat), j + d = k → I < 2 ^ j → d + 1 ≤ fuel →
    permut_r_set fuel I (2 ^ j) (2 ^ k) y 0 x 0 =
      ((List.range (2 ^ d)).map (fun t => I * 2 ^ d + t)).foldl (ustep k x) y := by
  intro d
  induction d with
  | zero =>
    intro j I fuel y hj hI hf
    obtain ⟨f, rfl⟩ : ∃ f, fuel = f + 1 := ⟨fuel - 1, by omega⟩
    have : j = k := by omega
    subst this
    have hI64 : I < 2 ^ 64 := Nat.lt_trans hI (pow_lt_64 (by omega))
    have hr := r_loop_eq j hk j 0 0 I 64 (by omega) (by simp) hI64 (by omega)
    simp only [Nat.pow_zero] at hr
    rw [permut_r_set]
    simp only [eqU, decide_true, if_true, hr, revLoop_eq, wr, rd]
    simp [ustep, List.getD_eq_getElem?_getD]
  | succ d ih =>
    intro j I fuel y hj hI hf
    obtain ⟨f, rfl⟩ : ∃ f, fuel = f + 1 := ⟨fuel - 1, by omega⟩
    have hne : (2 : Nat) ^ j ≠ 2 ^ k := by
      intro h
      have := Nat.pow_right_injective (le_refl 2) h
      omega
    have hj62 : (2 : Nat) ^ j ≤ 2 ^ 62 := Nat.pow_le_pow_right (by decide) (by omega)
    have e1 : mulU 64 2 I = 2 * I := by unfold mulU; omega
    have e2 : mulU 64 2 (2 ^ j) = 2 ^ (j + 1) := by
      unfold mulU
      rw [Nat.pow_succ]
      omega
    have e3 : addU 64 (2 * I) 1 = 2 * I + 1 := by unfold addU; omega
    rw [permut_r_set]
    simp only [eqU, hne, decide_false, Bool.false_eq_true, if_false, e1, e2, e3]
    rw [ih (j + 1) (2 * I) f y (by omega) (by rw [Nat.pow_succ]; omega) (by omega)]
    rw [ih (j + 1) (2 * I + 1) f _ (by omega) (by rw [Nat.pow_succ]; omega) (by omega)]
    rw [← List.foldl_append]
    congr 1
    have h2 : (2 : Nat) ^ (d + 1) = 2 ^ d + 2 ^ d := by rw [Nat.pow_succ]; omega
    rw [h2, List.range_add, List.map_append, List.map_map]
    congr 1
    · apply List.map_congr_left
      intro t _
      rw [← h2, Nat.pow_succ]
      ring
    · apply List.map_congr_left
      intro t _
      simp only [Function.comp]
      rw [← h2, Nat.pow_succ]
      ring

/-! ### a fold of stores through an involution is a gather -/

theorem scatter_aux (σ f : Nat → Nat) (N : Nat) (hσ : ∀ i, i < N → σ i < N) (hinv : ∀ i, i < N → σ (σ i) = i)
    (y : List Nat) (hy : N ≤ y.length) : ∀ n, n ≤ N →
      ((List.range n).foldl (fun y i => y.set (σ i) (f i)) y).length = y.length ∧
      ∀ p, ((List.range n).foldl (fun y i => y.set (σ i) (f i)) y)[p]? =
        if p < N ∧ σ p < n then some (f (σ p)) else y[p]? := by
  intro n
  induction n with
  | zero => intro _; simp
  | succ n ih =>
    intro hn
    obtain ⟨hl, hg⟩ := ih (by omega)
    rw [List.range_succ, List.foldl_append]
    simp only [List.foldl_cons, List.foldl_nil, List.length_set]
    refine ⟨hl, ?_⟩
    intro p
    rw [List.getElem?_set, hl, hg p]
    have hsn : σ n < N := hσ n (by omega)
    by_cases h : σ n = p
    · subst h
      have : σ (σ n) = n := hinv n (by omega)
      simp [this, hsn, Nat.lt_of_lt_of_le hsn hy]
    · simp only [h, if_false]
      by_cases hp : p < N
      · have hne : σ p ≠ n := by
          intro hc
          apply h
          rw [← hc, hinv p hp]
        have : (σ p < n + 1) ↔ (σ p < n) := by omega
        simp [hp, this]
      · simp [hp]

theorem scatter_fold (σ f : Nat → Nat) (N : Nat) (hσ : ∀ i, i < N → σ i < N) (hinv : ∀ i, i < N → σ (σ i) = i)
    (y : List Nat) (hy : N ≤ y.length) :
    (List.range N).foldl (fun y i => y.set (σ i) (f i)) y = (List.range N).map (fun p => f (σ p)) ++ y.drop N := by
  obtain ⟨_, hg⟩ := scatter_aux σ f N hσ hinv y hy N (le_refl _)
  apply List.ext_getElem?
  intro p
  rw [hg p]
  by_cases hp : p < N
  · have h1 : σ p < N := hσ p hp
    rw [List.getElem?_append_left (by simpa using hp)]
    simp [hp, h1]
  · rw [List.getElem?_append_right (by simpa using Nat.le_of_not_lt hp)]
    simp only [hp, false_and, if_false, List.length_map, List.length_range, List.getElem?_drop]
    congr 1
    omega

theorem foldl_congr_mem {α β : Type} (f g : α → β → α) (l : List β) : ∀ (a : α), (∀ a, ∀ i ∈ l, f a i = g a i) →
    l.foldl f a = l.foldl g a := by
  induction l with
  | nil => intro a _; rfl
  | cons b l ih =>
    intro a h
    simp only [List.foldl_cons]
    rw [h a b (by simp)]
    exact ih _ (fun a i hi => h a i (by simp [hi]))

/-! ### table variant -/

theorem castUS_id (k a : Nat) (h : a < 2 ^ 32) : castUS k a = a := by unfold castUS; omega
theorem castSU16_id (a : Nat) (h : a < 2 ^ 16) : castSU 16 a = a := by
  unfold castSU
  rw [if_pos (by omega)]
  omega
theorem shlS32_one (a : Nat) (h : a < 2 ^ 31) : shlS32 a 1 = 2 * a := by unfold shlS32; omega
theorem shrS32_one (a : Nat) (h : a < 2 ^ 31) : shrS32 a 1 = a / 2 := by
  unfold shrS32
  rw [if_pos (by omega)]
  omega
theorem andS32_one (a : Nat) (h : a < 2 ^ 32) : andS32 a 1 = a % 2 := by
  unfold andS32
  rw [Nat.mod_eq_of_lt h, Nat.mod_eq_of_lt (by decide : 1 < 2 ^ 32), Nat.and_one_is_mod]
theorem orS32_bit (a b : Nat) (ha : a < 2 ^ 30) (hb : b < 2) : orS32 (2 * a) b = 2 * a + b := by
  unfold orS32
  rw [Nat.mod_eq_of_lt (by omega), Nat.mod_eq_of_lt (by omega), or_bit _ _ hb]

/-- one iteration of the inner loop of the constructor: nothing is truncated below `2^15` -/
theorem inner_body_eq (h r ii : Nat) (hh : h < 2 ^ 15) (hr : r < 2 ^ 15) (hii : ii < 2 ^ 16) :
    permut_ctor_inner_body (h, r, ii) = (2 * h, 2 * r + ii % 2, ii / 2) := by
  have hb : ii % 2 < 2 := Nat.mod_lt _ (by decide)
  simp only [permut_ctor_inner_body]
  rw [castUS_id 16 r (by omega), castUS_id 16 ii (by omega), castUS_id 16 h (by omega),
    shlS32_one r (by omega), shlS32_one h (by omega), andS32_one ii (by omega), shrS32_one ii (by omega),
    orS32_bit r _ (by omega) hb, castSU16_id (2 * r + ii % 2) (by omega), castSU16_id (ii / 2) (by omega),
    castSU16_id (2 * h) (by omega)]

theorem inner_loop_eq (k : Nat) (hk : k ≤ 15) : ∀ (d j r ii fuel : Nat), j + d = k → r < 2 ^ j → ii < 2 ^ 16 → d ≤ fuel →
    (whileFuel (permut_ctor_inner_cond (2 ^ k)) permut_ctor_inner_body fuel (2 ^ j, r, ii)).2.1 = revLoop d r ii := by
  intro d
  induction d with
  | zero =>
    intro j r ii fuel hj _ _ _
    have : j = k := by omega
    subst this
    have hc64 : castU 64 (2 ^ j) = 2 ^ j := by
      unfold castU
      exact Nat.mod_eq_of_lt (pow_lt_64 (by omega))
    have hc : permut_ctor_inner_cond (2 ^ j) (2 ^ j, r, ii) = false := by
      simp [permut_ctor_inner_cond, ltU, hc64]
    cases fuel with
    | zero => simp [whileFuel, revLoop]
    | succ f => simp [whileFuel, hc, revLoop]
  | succ d ih =>
    intro j r ii fuel hj hr hii hf
    obtain ⟨f, rfl⟩ : ∃ f, fuel = f + 1 := ⟨fuel - 1, by omega⟩
    have hjk : (2 : Nat) ^ j < 2 ^ k := Nat.pow_lt_pow_right (by decide) (by omega)
    have hj14 : (2 : Nat) ^ j ≤ 2 ^ 14 := Nat.pow_le_pow_right (by decide) (by omega)
    have hk15 : (2 : Nat) ^ k ≤ 2 ^ 15 := Nat.pow_le_pow_right (by decide) hk
    have hc64 : castU 64 (2 ^ j) = 2 ^ j := by
      unfold castU
      exact Nat.mod_eq_of_lt (pow_lt_64 (by omega))
    have hc : permut_ctor_inner_cond (2 ^ k) (2 ^ j, r, ii) = true := by
      simp [permut_ctor_inner_cond, ltU, hc64, hjk]
    rw [whileFuel, if_pos hc, inner_body_eq _ _ _ (by omega) (by omega) hii]
    have e : 2 * 2 ^ j = 2 ^ (j + 1) := by rw [Nat.pow_succ]; omega
    rw [e, ih (j + 1) _ _ f (by omega) (by rw [Nat.pow_succ]; omega) (by omega) (by omega)]
    rfl

/-- the constructor's loop body stores the bit reversal of `i` -/
theorem ctor_body_eq (k : Nat) (hk : k ≤ 15) (data : List Nat) (i : Nat) (hi : i < 2 ^ k) :
    permut_ctor_body (2 ^ k) data i = data.set i (Nfl.bitrevCode k i) := by
  have hk15 : (2 : Nat) ^ k ≤ 2 ^ 15 := Nat.pow_le_pow_right (by decide) hk
  have h := inner_loop_eq k hk k 0 0 i (2 ^ 16) (by omega) (by simp) (by omega)
    (Nat.le_trans hk (by decide))
  simp only [Nat.pow_zero] at h
  simp only [permut_ctor_body, wr]
  rw [castSU16_id 0 (by decide), castSU16_id 1 (by decide), h, revLoop_eq]
  simp

/-- the table built by `permut_compute<2^k>::permut_compute()` -/
theorem ctor_eq (k : Nat) (hk : k ≤ 15) :
    permut_compute_ctor (2 ^ k) (List.replicate (2 ^ k) 0) = (List.range (2 ^ k)).map (Nfl.bitrevCode k) := by
  unfold permut_compute_ctor
  rw [foldl_congr_mem _ (fun d i => d.set ((fun i => i) i) (Nfl.bitrevCode k i)) _ _
    (fun a i hi => ctor_body_eq k hk a i (List.mem_range.mp hi))]
  rw [scatter_fold (fun i => i) (Nfl.bitrevCode k) (2 ^ k) (fun _ h => h) (fun _ _ => rfl) _ (by simp)]
  simp

/-- the `assert(i < degree)` of `permut_compute::operator()` holds at every call made by `compute` -/
theorem call_assert_ok (degree : Nat) : ∀ i ∈ List.range degree, permut_compute_call_assert degree i = true := by
  intro i hi
  simpa [permut_compute_call_assert, ltU] using List.mem_range.mp hi

theorem table_eq (k : Nat) (hk : k ≤ 15) (y x : List Nat) (hy : 2 ^ k ≤ y.length) :
    permut_table (2 ^ k) y 0 x 0 =
      (List.range (2 ^ k)).map (fun i => x.getD (Nfl.bitrevCode k i) 0) ++ y.drop (2 ^ k) := by
  unfold permut_table permut_table_compute
  rw [ctor_eq k hk]
  rw [foldl_congr_mem _ (fun y i => y.set ((fun i => i) i) (x.getD (Nfl.bitrevCode k i) 0)) _ _ ?_]
  · exact scatter_fold (fun i => i) (fun i => x.getD (Nfl.bitrevCode k i) 0) (2 ^ k) (fun _ h => h) (fun _ _ => rfl) y hy
  · intro a i hi
    have hi' := List.mem_range.mp hi
    simp [wr, rd, permut_compute_call, List.getD_eq_getElem?_getD, hi']

theorem unrolled_eq (k : Nat) (hk : k ≤ 62) (y x : List Nat) (hy : 2 ^ k ≤ y.length) :
    permut_unrolled (2 ^ k) y 0 x 0 =
      (List.range (2 ^ k)).map (fun i => x.getD (Nfl.bitrevCode k i) 0) ++ y.drop (2 ^ k) := by
  unfold permut_unrolled
  have h := r_set_fold k hk x k 0 0 65 y (by omega) (by simp) (by omega)
  simp only [Nat.pow_zero, Nat.zero_mul, Nat.zero_add, List.map_id'] at h
  rw [h]
  exact scatter_fold (Nfl.bitrevCode k) (fun i => x.getD i 0) (2 ^ k) (fun i _ => bitrevCode_lt k i)
    (fun i hi => bitrevCode_invol k i hi) y hy

/-! ### main theorems -/

/-- `nfl::permut<2^k>::compute(y, x)`, as translated from the AST, writes `permutW k x` over the first `2^k` words of `y`.
Hypotheses: `k ≤ 15` — the table variant was translated with idx_type = uint16_t (degree ≤ 65535) and its `int`
arithmetic is overflow-free only below `2^15` (the unrolled variant alone would do with `k ≤ 62`);
`hy` — `y` holds at least `2^k` words (otherwise the C++ writes out of bounds; `List.set` would drop the store).
No hypothesis on `x`: `rd` and `permutW` both read 0 beyond the end of `x` (in C++: `x` must hold `2^k` words too).
`x` and `y` are distinct memories (trusted: the translation passes them as two lists). -/
theorem permut_compute_eq' (k : Nat) (hk : k ≤ 15) (y x : List Nat) (hy : 2 ^ k ≤ y.length) :
    Gen.permut_compute (2 ^ k) y 0 x 0 = Nfl.permutW k x ++ y.drop (2 ^ k) := by
  have hw : Nfl.permutW k x = (List.range (2 ^ k)).map (fun i => x.getD (Nfl.bitrevCode k i) 0) := by
    simp only [Nfl.permutW]
    apply List.map_congr_left
    intro i _
    simp [List.getD_eq_getElem?_getD]
  rw [hw]
  unfold Gen.permut_compute
  split
  · exact unrolled_eq k (by omega) y x hy
  · exact table_eq k hk y x hy

theorem permutW_take (k : Nat) (x : List Nat) : Nfl.permutW k (x.take (2 ^ k)) = Nfl.permutW k x := by
  simp only [Nfl.permutW]
  apply List.map_congr_left
  intro i _
  have := bitrevCode_lt k i
  simp [this]

/-- the statement asked for (the hypotheses `1 ≤ k` and `2^k ≤ x.length` turned out not to be needed, see above) -/
theorem permut_compute_eq (k : Nat) (hk : k ≤ 15) (y x : List Nat) (hy : 2 ^ k ≤ y.length) :
    Gen.permut_compute (2 ^ k) y 0 x 0 = Nfl.permutW k (x.take (2 ^ k)) ++ y.drop (2 ^ k) := by
  rw [permutW_take]
  exact permut_compute_eq' k hk y x hy

/-- which variant runs: read from the generated dispatch -/
theorem permut_compute_unrolled (k : Nat) (hk : k ≤ 10) (y x : List Nat) :
    Gen.permut_compute (2 ^ k) y 0 x 0 = permut_unrolled (2 ^ k) y 0 x 0 := by
  have : (2 : Nat) ^ k ≤ 2 ^ 10 := Nat.pow_le_pow_right (by decide) hk
  have h : leU (2 ^ k) permut_limit_unroll = true := by
    simp only [leU, permut_limit_unroll]
    exact decide_eq_true (by omega)
  unfold Gen.permut_compute
  rw [if_pos h]
theorem permut_compute_table (k : Nat) (hk : 11 ≤ k) (y x : List Nat) :
    Gen.permut_compute (2 ^ k) y 0 x 0 = permut_table (2 ^ k) y 0 x 0 := by
  have : (2 : Nat) ^ 11 ≤ 2 ^ k := Nat.pow_le_pow_right (by decide) hk
  have h : ¬ leU (2 ^ k) permut_limit_unroll = true := by
    simp only [leU, permut_limit_unroll]
    intro h
    have := of_decide_eq_true h
    omega
  unfold Gen.permut_compute
  rw [if_neg h]

/-! ### concrete checks (non-vacuity; whole `permut_compute` on small degrees, and the table variant directly) -/

example : Gen.permut_compute 8 [100, 101, 102, 103, 104, 105, 106, 107, 108] 0 [10, 11, 12, 13, 14, 15, 16, 17] 0 =
    [10, 14, 12, 16, 11, 15, 13, 17, 108] := by decide
example : Gen.permut_compute 16 (List.replicate 17 7) 0 (List.range 16) 0 =
    [0, 8, 4, 12, 2, 10, 6, 14, 1, 9, 5, 13, 3, 11, 7, 15, 7] := by decide
example : Gen.permut_compute 16 (List.replicate 17 7) 0 (List.range 16) 0 =
    Nfl.permutW 4 (List.range 16) ++ [7] := by decide
/-- the table variant's constructor loop body on a degree it is really used for -/
example : permut_ctor_body 2048 (List.replicate 4 0) 3 = [0, 0, 0, 1536] := by decide
example : (2 : Nat) ^ 11 ≤ (List.replicate 2048 0).length := by rw [List.length_replicate]; decide

end Nfl.PermutAstEq

section audit
open Nfl.PermutAstEq
#print axioms Nfl.PermutAstEq.permut_compute_eq
#print axioms Nfl.PermutAstEq.permut_compute_eq'
#print axioms Nfl.PermutAstEq.unrolled_eq
#print axioms Nfl.PermutAstEq.table_eq
#print axioms Nfl.PermutAstEq.call_assert_ok
#print axioms Nfl.PermutAstEq.permut_compute_unrolled
#print axioms Nfl.PermutAstEq.permut_compute_table
end audit
