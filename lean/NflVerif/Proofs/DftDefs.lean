/-
Mathematical layer of C01/C02: the decimation-in-frequency transform in bit-reversed order over an
arbitrary commutative ring, the negacyclic twist, and the negacyclic product.  Definitions only;
theorems are in `Proofs/Dft.lean`.
-/
import Mathlib.Algebra.Ring.Basic
import Mathlib.Algebra.BigOperators.Group.List.Basic
import Mathlib.Data.List.Basic

namespace Nfl.Dft

variable {R : Type*} [CommRing R]

/-- Bit reversal of the low `k` bits, in the form produced by the recursion of the transform:
the top bit of `r` becomes the lowest bit of the result. -/
def bitrev : Nat → Nat → Nat
  | 0, _ => 0
  | k + 1, r => 2 * bitrev k (r % 2 ^ k) + r / 2 ^ k

/-- Bit reversal as computed by `permut.hpp` (`r = (r << 1) | (i & 1); i >>= 1`, `k` times). -/
def bitrevCode : Nat → Nat → Nat
  | 0, _ => 0
  | k + 1, i => (i % 2) * 2 ^ k + bitrevCode k (i / 2)

/-- `[ω^0, ω^1, …, ω^(n-1)]` -/
def powers (ω : R) (n : Nat) : List R := (List.range n).map (fun i => ω ^ i)

/-- One decimation-in-frequency layer followed by the recursive transforms of both halves
(Harvey's loop, depth first).  `x` has length `2^k`. -/
def dif : Nat → R → List R → List R
  | 0, _, x => x
  | k + 1, ω, x =>
    let a := x.take (2 ^ k)
    let b := x.drop (2 ^ k)
    let lo := List.zipWith (· + ·) a b
    let hi := List.zipWith (· * ·) (List.zipWith (· - ·) a b) (powers ω (2 ^ k))
    dif k (ω * ω) lo ++ dif k (ω * ω) hi

/-- value of the polynomial with coefficient list `a` at `ζ` -/
def evalAt (a : List R) (ζ : R) : R := ((List.range a.length).map (fun j => a.getD j 0 * ζ ^ j)).sum

/-- `[a_i * φ^i]` -/
def twist (a : List R) (φ : R) : List R := List.zipWith (· * ·) a (powers φ a.length)

/-- `[x[bitrev k i]]_i` — what `permut<degree>::compute` does (`y[i] = x[P(i)]`). -/
def permute (k : Nat) (x : List R) : List R := (List.range (2 ^ k)).map (fun i => x.getD (bitrev k i) 0)

/-- forward negacyclic transform: twist by powers of `φ`, then DIF with `ω = φ²` -/
def nttSpec (k : Nat) (φ : R) (a : List R) : List R := dif k (φ * φ) (twist a φ)

/-- inverse: bit-reverse, DIF with `ω⁻¹`, bit-reverse, multiply by `n⁻¹ φ⁻ⁱ`
(`ninv` plays the role of `n⁻¹`, `φi` of `φ⁻¹`) -/
def invSpec (k : Nat) (φi ninv : R) (y : List R) : List R :=
  List.zipWith (· * ·) (permute k (dif k (φi * φi) (permute k y))) ((powers φi (2 ^ k)).map (ninv * ·))

/-- coefficient `c` of `a·b mod X^n+1`: `Σ_{i+j=c} a_i b_j − Σ_{i+j=c+n} a_i b_j` -/
def negacyclicCoeff (n : Nat) (a b : List R) (c : Nat) : R :=
  ((List.range n).map (fun i =>
      if i ≤ c then a.getD i 0 * b.getD (c - i) 0 else - (a.getD i 0 * b.getD (c + n - i) 0))).sum

def negacyclic (n : Nat) (a b : List R) : List R := (List.range n).map (negacyclicCoeff n a b)

end Nfl.Dft
