/-
Refinement of the word-level transform model, part 2: the tables (`iterMul`, `sqrIter`, `prepWtab`),
block structure (`mapBlocks`), one layer (`layerBlock`), the fused last two layers (`fused4`),
the layer-by-layer loop (`nttLoop`) against the depth-first recursion `Dft.dif`, and `nttWord`.
-/
import NflVerif.Proofs.NttRefine1

namespace Nfl.NttRefine
open Nfl

/-! ### tables -/

section tables
variable {w p pn : Nat}

theorem iterMul_spec (hp0 : 0 < p)
    (hmul : ∀ x y, x < p → y < p → mulmod w p pn x y = x * y % p)
    {s : Nat} (hs : s < p) (n : Nat) : ∀ (c : Nat), c < p →
    Canonical p (iterMul w p pn s n c) ∧ (iterMul w p pn s n c).length = n ∧
      castL p (iterMul w p pn s n c) =
        (List.range n).map (fun i => (c : ZMod p) * (s : ZMod p) ^ i) := by
  induction n with
  | zero => intro c _; simp [iterMul, castL, Canonical]
  | succ n ih =>
    intro c hc
    obtain ⟨m1, m2⟩ := mulmod_spec hp0 hmul hc hs
    obtain ⟨i1, i2, i3⟩ := ih _ m1
    refine ⟨?_, ?_, ?_⟩
    · intro z hz
      simp only [iterMul, List.mem_cons] at hz
      rcases hz with rfl | hz
      · exact hc
      · exact i1 z hz
    · simp [iterMul, i2]
    · rw [List.range_succ_eq_map]
      simp only [iterMul, castL, List.map_cons, List.map_map] at i3 ⊢
      rw [i3, m2]
      congr 1
      · simp
      · apply List.map_congr_left
        intro i _
        simp only [Function.comp]
        rw [pow_succ]; ring

theorem iterMul_one_cast (hp0 : 0 < p) (hp1 : 1 < p)
    (hmul : ∀ x y, x < p → y < p → mulmod w p pn x y = x * y % p)
    {s : Nat} (hs : s < p) (n : Nat) :
    castL p (iterMul w p pn s n 1) = Dft.powers (s : ZMod p) n := by
  rw [(iterMul_spec hp0 hmul hs n 1 hp1).2.2]
  unfold Dft.powers
  apply List.map_congr_left
  intro i _
  simp

theorem sqrIter_spec (hp0 : 0 < p)
    (hmul : ∀ x y, x < p → y < p → mulmod w p pn x y = x * y % p) (j : Nat) :
    ∀ (x : Nat), x < p →
      sqrIter w p pn j x < p ∧ ((sqrIter w p pn j x : Nat) : ZMod p) = (x : ZMod p) ^ (2 ^ j) := by
  induction j with
  | zero => intro x hx; simp [sqrIter, hx]
  | succ j ih =>
    intro x hx
    obtain ⟨m1, m2⟩ := mulmod_spec hp0 hmul hx hx
    obtain ⟨i1, i2⟩ := ih _ m1
    refine ⟨i1, ?_⟩
    simp only [sqrIter]
    rw [i2, m2, ← sq, ← pow_mul, ← pow_succ']

theorem prepWtab_spec (hp0 : 0 < p) (hp1 : 1 < p)
    (hmul : ∀ x y, x < p → y < p → mulmod w p pn x y = x * y % p) (k : Nat) :
    ∀ (om : Nat), om < p →
      Canonical p (prepWtab w p pn k om) ∧ (prepWtab w p pn k om).length + 1 = 2 ^ k := by
  induction k with
  | zero => intro om _; simp [prepWtab, Canonical]
  | succ k ih =>
    intro om hom
    obtain ⟨m1, _⟩ := mulmod_spec hp0 hmul hom hom
    obtain ⟨i1, i2⟩ := ih _ m1
    obtain ⟨j1, j2, _⟩ := iterMul_spec hp0 hmul hom (2 ^ k) 1 hp1
    refine ⟨?_, ?_⟩
    · simp only [prepWtab]
      exact j1.append i1
    · simp only [prepWtab, List.length_append, j2]
      rw [pow_succ]; omega

end tables

/-! ### blocks -/

/-- `mapBlocks` over any element type -/
def mapBlocksG {α : Type*} (N : Nat) (f : List α → List α) : Nat → List α → List α
  | 0, _ => []
  | M + 1, x => f (x.take N) ++ mapBlocksG N f M (x.drop N)

theorem mapBlocksG_succ {α : Type*} (N : Nat) (f : List α → List α) (M : Nat) (x : List α) :
    mapBlocksG N f (M + 1) x = f (x.take N) ++ mapBlocksG N f M (x.drop N) := rfl

theorem mapBlocks_eq (N : Nat) (f : List Nat → List Nat) (M : Nat) (x : List Nat) :
    mapBlocks N f M x = mapBlocksG N f M x := by
  induction M generalizing x with
  | zero => rfl
  | succ M ih => simp [mapBlocks, mapBlocksG, ih]

theorem mb_cast {p : Nat} (N : Nat) (f : List Nat → List Nat) (g : List (ZMod p) → List (ZMod p))
    (h : ∀ b, b.length = N → Lazy p b →
      Lazy p (f b) ∧ (f b).length = N ∧ castL p (f b) = g (castL p b))
    (M : Nat) : ∀ (x : List Nat), x.length = M * N → Lazy p x →
      Lazy p (mapBlocks N f M x) ∧ (mapBlocks N f M x).length = M * N ∧
        castL p (mapBlocks N f M x) = mapBlocksG N g M (castL p x) := by
  induction M with
  | zero => intro x _ _; simp [mapBlocks, mapBlocksG, castL, Lazy]
  | succ M ih =>
    intro x hx hl
    have hx' : x.length = M * N + N := by rw [hx]; ring
    have ht : (x.take N).length = N := by rw [List.length_take]; omega
    have hd : (x.drop N).length = M * N := by rw [List.length_drop]; omega
    obtain ⟨f1, f2, f3⟩ := h _ ht (hl.take N)
    obtain ⟨i1, i2, i3⟩ := ih _ hd (hl.drop N)
    refine ⟨?_, ?_, ?_⟩
    · simp only [mapBlocks]; exact f1.append i1
    · simp only [mapBlocks, List.length_append, f2, i2]; ring
    · simp only [mapBlocks, mapBlocksG]
      simp only [castL, List.map_append, List.map_take, List.map_drop] at f3 i3 ⊢
      rw [f3, i3]

theorem mb_congr {α : Type*} (N : Nat) (f g : List α → List α)
    (h : ∀ b, b.length = N → f b = g b) (M : Nat) :
    ∀ (x : List α), x.length = M * N → mapBlocksG N f M x = mapBlocksG N g M x := by
  induction M with
  | zero => intro x _; rfl
  | succ M ih =>
    intro x hx
    have hx' : x.length = M * N + N := by rw [hx]; ring
    have ht : (x.take N).length = N := by rw [List.length_take]; omega
    have hd : (x.drop N).length = M * N := by rw [List.length_drop]; omega
    simp only [mapBlocksG]
    rw [h _ ht, ih _ hd]

theorem mb_one {α : Type*} (N : Nat) (f : List α → List α) (x : List α) (hx : x.length = N) :
    mapBlocksG N f 1 x = f x := by
  simp only [mapBlocksG, List.append_nil]
  rw [List.take_of_length_le (by omega)]

theorem mb_two {α : Type*} (h : Nat) (f : List α → List α) (a b : List α) (ha : a.length = h)
    (hb : b.length = h) : mapBlocksG h f 2 (a ++ b) = f a ++ f b := by
  simp only [mapBlocksG, List.append_nil]
  rw [List.take_left' ha, List.drop_left' ha, List.take_of_length_le (by omega)]

/-- `2M` blocks of `h` after `M` blocks of `2h` -/
theorem mb_comp {α : Type*} (h : Nat) (f g : List α → List α)
    (hf : ∀ b, b.length = 2 * h → (f b).length = 2 * h) (M : Nat) :
    ∀ (x : List α), x.length = M * (2 * h) →
      mapBlocksG h g (2 * M) (mapBlocksG (2 * h) f M x) =
        mapBlocksG (2 * h) (fun b => mapBlocksG h g 2 (f b)) M x := by
  induction M with
  | zero => intro x _; rfl
  | succ M ih =>
    intro x hx
    have hx' : x.length = M * (2 * h) + 2 * h := by rw [hx]; ring
    have ht : (x.take (2 * h)).length = 2 * h := by rw [List.length_take]; omega
    have hd : (x.drop (2 * h)).length = M * (2 * h) := by rw [List.length_drop]; omega
    have hB := hf _ ht
    rw [show 2 * (M + 1) = 2 * M + 1 + 1 by ring]
    rw [mapBlocksG_succ (2 * h) f M x, mapBlocksG_succ (2 * h) _ M x, ← ih _ hd]
    generalize f (x.take (2 * h)) = B at hB
    generalize mapBlocksG (2 * h) f M (x.drop (2 * h)) = R
    have h1 : (B ++ R).take h = B.take h := by
      rw [List.take_append_of_le_length (by omega)]
    have h2 : (B ++ R).drop h = B.drop h ++ R := by
      rw [List.drop_append_of_le_length (by omega)]
    have h3 : (B.drop h).length = h := by rw [List.length_drop]; omega
    have h4 : mapBlocksG h g 2 B = g (B.take h) ++ g (B.drop h) := by
      have h5 : (B.take h).length = h := by rw [List.length_take]; omega
      conv_lhs => rw [← List.take_append_drop h B]
      exact mb_two h g _ _ h5 h3
    rw [mapBlocksG_succ h g (2 * M + 1), mapBlocksG_succ h g (2 * M), h1, h2,
      List.take_left' h3, List.drop_left' h3, h4, List.append_assoc]

/-! ### one layer -/

/-- one decimation-in-frequency layer on one block -/
def layerR {R : Type*} [CommRing R] (ws : List R) (b : List R) : List R :=
  let h := b.length / 2
  List.zipWith (· + ·) (b.take h) (b.drop h) ++
    List.zipWith (· * ·) (List.zipWith (· - ·) (b.take h) (b.drop h)) ws

theorem layerR_length {R : Type*} [CommRing R] (h : Nat) (ws b : List R) (hb : b.length = 2 * h)
    (hws : ws.length = h) : (layerR ws b).length = 2 * h := by
  unfold layerR
  simp only [List.length_append, List.length_zipWith, List.length_take, List.length_drop, hb, hws]
  omega

theorem dif_succ_layer {R : Type*} [CommRing R] (d : Nat) (ω : R) (b : List R)
    (hb : b.length = 2 * 2 ^ d) :
    Dft.dif (d + 1) ω b = mapBlocksG (2 ^ d) (Dft.dif d (ω * ω)) 2 (layerR (Dft.powers ω (2 ^ d)) b) := by
  have hh : b.length / 2 = 2 ^ d := by rw [hb]; omega
  unfold layerR
  simp only [hh]
  rw [mb_two (2 ^ d), Dft.dif_succ]
  · simp [hb]; omega
  · simp [hb, Dft.powers_length]; omega

section layer
variable {w p : Nat}

theorem layerBlock_spec (hw : w = 16 ∨ w = 32 ∨ w = 64) (hp0 : 0 < p) (h4 : 4 * p ≤ 2 ^ w)
    (h : Nat) (ws : List Nat) (hws : Canonical p ws) (hwl : ws.length = h)
    (b : List Nat) (hb : b.length = 2 * h) (hl : Lazy p b) :
    Lazy p (layerBlock w p ws (ws.map (shoupOf w p)) b) ∧
      (layerBlock w p ws (ws.map (shoupOf w p)) b).length = 2 * h ∧
      castL p (layerBlock w p ws (ws.map (shoupOf w p)) b) = layerR (castL p ws) (castL p b) := by
  have hh : b.length / 2 = h := by rw [hb]; omega
  obtain ⟨l1, l2⟩ := zipWith_spec (p := p) (2 * p) (2 * p) (bflyLo w p) (· + ·)
    (fun x y hx hy => bflyLo_spec h4 hx hy) (b.take h) (b.drop h) (hl.take h) (hl.drop h)
  obtain ⟨g1, g2⟩ := hiList_spec hw hp0 h4 (b.take h) (b.drop h) ws (hl.take h) (hl.drop h) hws
  unfold layerBlock layerR
  simp only [hh, castL, List.length_map]
  refine ⟨?_, ?_, ?_⟩
  · exact Lazy.append l1 g1
  · simp only [List.length_append, List.length_zipWith, hiList_length, List.length_take,
      List.length_drop, List.length_map, hb, hwl]
    omega
  · simp only [castL, List.map_take, List.map_drop] at l2 g2
    rw [List.map_append, l2, g2]

/-! ### the fused last two layers -/

theorem fused4_spec (hw : w = 16 ∨ w = 32 ∨ w = 64) (hp0 : 0 < p) (h4 : 4 * p ≤ 2 ^ w)
    {w1 : Nat} (hw1 : w1 < p) (b : List Nat) (hb : b.length = 4) (hl : Lazy p b) :
    Lazy p (fused4 w p w1 (shoupOf w p w1) b) ∧ (fused4 w p w1 (shoupOf w p w1) b).length = 4 ∧
      castL p (fused4 w p w1 (shoupOf w p w1) b) = Dft.dif 2 (w1 : ZMod p) (castL p b) := by
  have hw1' : 1 ≤ w := by rcases hw with rfl | rfl | rfl <;> norm_num
  match b, hb, hl with
  | [u0, u1, u2, u3], _, hl =>
    have h0 : u0 < 2 * p := hl u0 (by simp)
    have h1 : u1 < 2 * p := hl u1 (by simp)
    have h2 : u2 < 2 * p := hl u2 (by simp)
    have h3 : u3 < 2 * p := hl u3 (by simp)
    obtain ⟨a0, c0⟩ := bflyLo_spec h4 h0 h2
    obtain ⟨a2, c2⟩ := subLazy_spec hw1' h4 h0 h2
    obtain ⟨a1, c1⟩ := bflyLo_spec h4 h1 h3
    obtain ⟨a3, c3⟩ := bflyHi_spec hw hp0 h4 h1 h3 hw1
    obtain ⟨b0, d0⟩ := bflyLo_spec h4 a0 a1
    obtain ⟨b1, d1⟩ := subLazy_spec hw1' h4 a0 a1
    obtain ⟨b2, d2⟩ := bflyLo_spec h4 a2 a3
    obtain ⟨b3, d3⟩ := subLazy_spec hw1' h4 a2 a3
    refine ⟨?_, rfl, ?_⟩
    · intro z hz
      simp only [fused4, List.mem_cons, List.not_mem_nil, or_false] at hz
      rcases hz with rfl | rfl | rfl | rfl <;> assumption
    · simp only [fused4, castL, List.map_cons, List.map_nil]
      rw [d0, d1, d2, d3, c0, c1, c2, c3]
      have t1 : ∀ (a b : ZMod p), List.take 1 [a, b] = [a] := fun _ _ => rfl
      simp [Dft.dif, Dft.powers, List.range_succ, t1]

end layer

end Nfl.NttRefine
