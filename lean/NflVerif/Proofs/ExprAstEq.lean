/-
C07 (C08/C09) — source-level tie of the expression-template EVALUATION machinery: the definitions generated from clang's AST
(`Generated/ExprAst.lean`, tools/gen_expr_ast.py) equal the hand model `Ex.assign` / `Ex.assignW` / `Ex.construct` /
`Ex.polyToBool` (`Model/Expr.lean`), and the resolved (tree, tag, simd_mode, fusion, vector width) DATA is what `Ex.mode`,
`Compose2.nodeTag`, `Ex.mkShoup`, `Ex.eltCount` predict.

§1  memory: `CSemExpr.loadCell/storeCell/storeLanes` = `Ex.rd/wr/storeBlock`
§2  loops: `CSemExpr.forSt` with a stride = fold over `List.range`
§3  THE GENERIC LOOP, translated once from the template body: `poly_assign` = double fold, for ANY `store` / `load`
    (`poly_assign_eq_fold`), and = `Ex.assignW` as soon as `store` writes the lanes and `load` yields the model's block (`assign_tie`)
§4  functor nodes (Generated/OpsAst.lean functors = scalar model on words of the limb type) and the serial instances
§5  the SSE instances
§6  the resolved data
-/
import NflVerif.Generated.ExprAst
import NflVerif.Proofs.OpsAstEq
import NflVerif.Proofs.SimdAstEq
import NflVerif.Proofs.Compose2Aux
import NflVerif.Properties.C05

namespace Nfl.ExprAst
open Nfl Nfl.CSem Nfl.CSemExpr Nfl.Ex

/-! ## §1 memory -/

theorem loadCell_eq_rd (m : Store) (h k : Nat) : loadCell m (elemPtr h k) = rd m h k := rfl
theorem loadCell_pair (m : Store) (h k : Nat) : loadCell m (h, k) = rd m h k := rfl
theorem storeCell_eq_wr (m : Store) (h k v : Nat) : storeCell m (elemPtr h k) v = wr m h k v := rfl

theorem storeLanes_eq_storeBlock (d : Nat) : ∀ (vs : List Nat) (m : Store) (base : Nat), storeLanes m d base vs = storeBlock m d base vs
  | [], _, _ => rfl
  | v :: vs, m, base => by
    simp only [storeLanes, storeBlock]
    exact storeLanes_eq_storeBlock d vs _ _

/-- a heap all of whose cells are values of a `w`-bit unsigned type -/
def InRange (w : Nat) (m : Store) : Prop := ∀ r ∈ m, ∀ v ∈ r, v < 2 ^ w

theorem InRange.rd {w : Nat} {m : Store} (h : InRange w m) (hd k : Nat) : rd m hd k < 2 ^ w :=
  Compose2.rd_lt_of_all (Nat.two_pow_pos w) h hd k

theorem InRange.wr {w : Nat} {m : Store} (h : InRange w m) (d k v : Nat) (hv : v < 2 ^ w) : InRange w (wr m d k v) := by
  intro r hr x hx
  unfold Ex.wr at hr
  rcases List.mem_or_eq_of_mem_set hr with hr | hr
  · exact h r hr x hx
  · subst hr
    rcases List.mem_or_eq_of_mem_set hx with hx | hx
    · have hrow : (m.getD d []) ∈ m ∨ m.getD d [] = [] := by
        rw [List.getD_eq_getElem?_getD]
        cases hq : m[d]? with
        | none => right; rfl
        | some r => left; simpa using List.mem_of_getElem? hq
      rcases hrow with hrow | hrow
      · exact h _ hrow x hx
      · rw [hrow] at hx; cases hx
    · subst hx; exact hv

theorem InRange.storeBlock {w : Nat} (d : Nat) : ∀ (vs : List Nat) (m : Store) (base : Nat), InRange w m → (∀ v ∈ vs, v < 2 ^ w) →
    InRange w (storeBlock m d base vs)
  | [], _, _, h, _ => h
  | v :: vs, m, base, h, hv => by
    simp only [Ex.storeBlock]
    exact InRange.storeBlock d vs _ _ (h.wr d base v (hv v (by simp))) (fun x hx => hv x (by simp [hx]))

/-! ## §2 loops -/

/-- a counting loop `for (v = i*s; v < n*s; v += s)` without wrap-around is a fold over the iteration numbers -/
theorem forSt_stride {σ : Type} (n s : Nat) (hs : 0 < s) (hb : n * s < 2 ^ 64) (body : σ → Nat → σ) :
    ∀ (k i fuel : Nat) (st : σ), i + k = n → k ≤ fuel →
      forSt (fun v => ltU v (n * s)) (fun v => addU 64 v s) body fuel (i * s) st =
        (List.range' i k).foldl (fun st t => body st (t * s)) st := by
  intro k
  induction k with
  | zero =>
    intro i fuel st hik _
    have : i = n := by omega
    subst this
    cases fuel <;> simp [forSt, ltU]
  | succ k ih =>
    intro i fuel st hik hf
    cases fuel with
    | zero => omega
    | succ fuel =>
      have hlt : i * s < n * s := Nat.mul_lt_mul_of_lt_of_le (by omega) (Nat.le_refl s) hs
      have hnext : addU 64 (i * s) s = (i + 1) * s := by
        have : (i + 1) * s ≤ n * s := Nat.mul_le_mul_right s (by omega)
        unfold addU
        rw [Nat.add_mul, Nat.one_mul] at this ⊢
        exact Nat.mod_eq_of_lt (by omega)
      simp only [forSt, ltU, hlt, decide_true, if_true, List.range'_succ, List.foldl_cons]
      rw [hnext]
      exact ih (i + 1) fuel _ (by omega) (by omega)

theorem forSt_range {σ : Type} (n s : Nat) (hs : 0 < s) (hb : n * s < 2 ^ 64) (body : σ → Nat → σ) (st : σ) :
    forSt (fun v => ltU v (n * s)) (fun v => addU 64 v s) body (2 ^ 64) 0 st =
      (List.range n).foldl (fun st t => body st (t * s)) st := by
  have hn : n < 2 ^ 64 := Nat.lt_of_le_of_lt (Nat.le_mul_of_pos_right n hs) hb
  have := forSt_stride n s hs hb body n 0 (2 ^ 64) st (by omega) (by omega)
  rw [Nat.zero_mul] at this
  rw [this, List.range_eq_range']

theorem forSt_range1 {σ : Type} (n : Nat) (hb : n < 2 ^ 64) (body : σ → Nat → σ) (st : σ) :
    forSt (fun v => ltU v n) (fun v => addU 64 v 1) body (2 ^ 64) 0 st = (List.range n).foldl body st := by
  have := forSt_range n 1 (by omega) (by omega) body st
  simpa using this

/-- the bound is needed: with a 2-bit counter (fuel 4, wrap at 4 — the same shape of loop) a bound above the counter's range never ends -/
example : forSt (fun v => ltU v 5) (fun v => (v + 1) % 4) (fun (l : List Nat) i => l ++ [i]) 6 0 [] = [0, 1, 2, 3, 0, 1] := by decide

/-- two folds agree when their steps agree on the elements of the list under an invariant of the state -/
theorem foldl_congr_inv {σ : Type} (I : σ → Prop) (f g : σ → Nat → σ) : ∀ (l : List Nat) (s : σ), I s →
    (∀ s x, I s → x ∈ l → f s x = g s x ∧ I (g s x)) → l.foldl f s = l.foldl g s ∧ I (l.foldl g s)
  | [], _, hs, _ => ⟨rfl, hs⟩
  | a :: l, s, hs, h => by
    simp only [List.foldl_cons]
    obtain ⟨h1, h2⟩ := h s a hs (by simp)
    rw [h1]
    exact foldl_congr_inv I f g l _ h2 (fun s x hs hx => h s x hs (by simp [hx]))

/-! ## §3 the generic loop -/

/-- **`poly::operator=(expr)` translated once from the template body is the double fold, for any `store` and `load`.**
Hypotheses: `vs > 0` (C++: `degree / vector_size`), `nm`, `deg`, `vs` below 2^64 (`size_t` constants; the counters `cm`, `j`
must not wrap, which follows because each stays below its bound). -/
theorem poly_assign_eq_fold {V : Type} (deg nm : Nat) (P Pn : Nat → Nat) (vs : Nat) (store : Mem → Ptr → V → Mem)
    (load : Mem → Nat → Nat → V) (this : Nat) (m : Mem)
    (hvs : 0 < vs) (hnm : nm < 2 ^ 64) (hdeg : deg < 2 ^ 64) :
    Gen.ExprAst.poly_assign deg nm P Pn vs store load this m =
      (List.range nm).foldl (fun m cm => (List.range (deg / vs)).foldl (fun m jb =>
        store m (elemPtr this (addU 64 (mulU 64 cm deg) (jb * vs))) (load m cm (jb * vs))) m) m := by
  have hle : deg / vs * vs ≤ deg := Nat.div_mul_le_self deg vs
  have h1 : divU 64 deg vs = deg / vs := Nat.mod_eq_of_lt (Nat.lt_of_le_of_lt (Nat.div_le_self _ _) hdeg)
  have h2 : mulU 64 (deg / vs) vs = deg / vs * vs := Nat.mod_eq_of_lt (by omega)
  unfold Gen.ExprAst.poly_assign
  simp only [h1, h2, forSt_range1 nm hnm, forSt_range (deg / vs) vs hvs (by omega), Gen.ExprAst.poly_at]

/-- the compiler-checked `static_assert(vector_bound == degree)` is the hand model's hypothesis "the register width divides the degree" -/
theorem static_assert_iff_dvd (deg nm : Nat) (P Pn : Nat → Nat) (vs : Nat) (hdeg : deg < 2 ^ 64) :
    Gen.ExprAst.poly_assign_static_assert deg nm P Pn vs = true ↔ vs ∣ deg := by
  have hle : deg / vs * vs ≤ deg := Nat.div_mul_le_self _ _
  have h1 : divU 64 deg vs = deg / vs := Nat.mod_eq_of_lt (Nat.lt_of_le_of_lt (Nat.div_le_self _ _) hdeg)
  have h2 : mulU 64 (deg / vs) vs = deg / vs * vs := Nat.mod_eq_of_lt (by omega)
  simp only [Gen.ExprAst.poly_assign_static_assert, h1, h2, eqU, decide_eq_true_eq]
  constructor
  · intro h; exact ⟨deg / vs, by rw [Nat.mul_comm]; exact h.symm⟩
  · intro h; exact Nat.div_mul_cancel h

/-- `Ex.assignW` with the loader abstracted: `ld st cm j` = the block stored at `(cm, j)` -/
def assignWL (deg nm vs d : Nat) (ld : Store → Nat → Nat → List Nat) (st : Store) : Store :=
  (List.range nm).foldl (fun st cm => (List.range (deg / vs)).foldl (fun st jb =>
    storeBlock st d (cm * deg + jb * vs) (ld st cm (jb * vs))) st) st

theorem assignW_eq_assignWL (c : Ctx) (vs d : Nat) (e : Expr) (st : Store) :
    assignW c vs d e st = assignWL c.deg c.nmod vs d (fun st cm j => loadBlock c st e cm j vs) st := rfl

theorem idx_lt {nm deg cm k : Nat} (hcm : cm < nm) (hk : k < deg) : cm * deg + k < nm * deg := by
  calc cm * deg + k < cm * deg + deg := by omega
    _ = (cm + 1) * deg := by rw [Nat.add_mul, Nat.one_mul]
    _ ≤ nm * deg := Nat.mul_le_mul_right _ hcm

theorem idx_eq {cm deg k : Nat} (h : cm * deg + k < 2 ^ 64) : addU 64 (mulU 64 cm deg) k = cm * deg + k := by
  unfold addU mulU
  rw [Nat.mod_eq_of_lt (by omega : cm * deg < 2 ^ 64), Nat.mod_eq_of_lt h]

/-- **the generic loop = the hand model's loop, for any loader**: `store` writes the lanes of the value at the pointer, the lanes
`load` yields are `ld`'s block — under an invariant `I` of the heap that the stores preserve (aliasing of the destination with
the operands is inside: `load` and `ld` read the CURRENT heap).
`nm * deg < 2^64`: the element index `cm * degree + j` is computed in `size_t`. -/
theorem poly_assign_eq_assignWL {V : Type} (deg nm : Nat) (P Pn : Nat → Nat) (vs d : Nat) (lanes : V → List Nat)
    (store : Mem → Ptr → V → Mem) (load : Mem → Nat → Nat → V) (ld : Store → Nat → Nat → List Nat) (I : Store → Prop) (m : Store)
    (hstore : ∀ m p v, store m p v = storeBlock m p.1 p.2 (lanes v))
    (hload : ∀ m cm jb, I m → cm < nm → jb < deg / vs → lanes (load m cm (jb * vs)) = ld m cm (jb * vs))
    (hI : ∀ m cm jb, I m → cm < nm → jb < deg / vs → I (storeBlock m d (cm * deg + jb * vs) (ld m cm (jb * vs))))
    (hvs : 0 < vs) (hnm : nm < 2 ^ 64) (hdeg : deg < 2 ^ 64) (hn : nm * deg < 2 ^ 64) (hm : I m) :
    Gen.ExprAst.poly_assign deg nm P Pn vs store load d m = assignWL deg nm vs d ld m := by
  rw [poly_assign_eq_fold deg nm P Pn vs store load d m hvs hnm hdeg]
  unfold assignWL
  refine (foldl_congr_inv I _ _ (List.range nm) m hm ?_).1
  intro m cm hm hcm
  have hcm := List.mem_range.mp hcm
  refine foldl_congr_inv I _ _ (List.range (deg / vs)) m hm ?_
  intro m jb hm hjb
  have hjb := List.mem_range.mp hjb
  have hj : jb * vs < deg := by
    have : jb * vs < deg / vs * vs := Nat.mul_lt_mul_of_lt_of_le hjb (Nat.le_refl _) hvs
    exact Nat.lt_of_lt_of_le this (Nat.div_mul_le_self _ _)
  have hidx := idx_lt hcm hj
  refine ⟨?_, hI m cm jb hm hcm hjb⟩
  rw [hstore, idx_eq (by omega), hload m cm jb hm hcm hjb]
  rfl

/-- instance of the generic theorem at the hand model's loader: `Ex.assignW` -/
theorem assign_tie {V : Type} (c : Ctx) (e : Expr) (P Pn : Nat → Nat) (vs d : Nat) (lanes : V → List Nat)
    (store : Mem → Ptr → V → Mem) (load : Mem → Nat → Nat → V) (I : Store → Prop) (m : Store)
    (hstore : ∀ m p v, store m p v = storeBlock m p.1 p.2 (lanes v))
    (hload : ∀ m cm jb, I m → cm < c.nmod → jb < c.deg / vs → lanes (load m cm (jb * vs)) = loadBlock c m e cm (jb * vs) vs)
    (hI : ∀ m cm jb, I m → cm < c.nmod → jb < c.deg / vs → I (storeBlock m d (cm * c.deg + jb * vs) (loadBlock c m e cm (jb * vs) vs)))
    (hvs : 0 < vs) (hnm : c.nmod < 2 ^ 64) (hdeg : c.deg < 2 ^ 64) (hn : c.nmod * c.deg < 2 ^ 64) (hm : I m) :
    Gen.ExprAst.poly_assign c.deg c.nmod P Pn vs store load d m = assignW c vs d e m := by
  rw [assignW_eq_assignWL]
  exact poly_assign_eq_assignWL c.deg c.nmod P Pn vs d lanes store load _ I m hstore hload hI hvs hnm hdeg hn hm

/-! ## §4 functor nodes and the serial instances -/

/-- the hypotheses of the serial equalities that come from the C types: `size_t` class constants, `T` table entries -/
structure Sizes (c : Ctx) : Prop where
  nm : c.nmod < 2 ^ 64
  deg : c.deg < 2 ^ 64
  n : c.nmod * c.deg < 2 ^ 64
  p : ∀ cm, c.p cm < 2 ^ c.w
  pn : ∀ cm, (c.row cm).pn < 2 ^ c.w

/-- `Sizes` from facts about the rows of the context (a modulus index beyond the rows reads the all-zero default row) -/
theorem Sizes.of_rows (c : Ctx) (hnm : c.nmod < 2 ^ 64) (hdeg : c.deg < 2 ^ 64) (hn : c.nmod * c.deg < 2 ^ 64)
    (h : ∀ r ∈ c.rows, r.p < 2 ^ c.w ∧ r.pn < 2 ^ c.w) : Sizes c := by
  have key : ∀ cm, (c.row cm).p < 2 ^ c.w ∧ (c.row cm).pn < 2 ^ c.w := by
    intro cm
    unfold Ctx.row
    rw [List.getD_eq_getElem?_getD]
    cases hq : c.rows[cm]? with
    | none => exact ⟨Nat.two_pow_pos _, Nat.two_pow_pos _⟩
    | some r => exact h r (List.mem_of_getElem? hq)
  exact ⟨hnm, hdeg, hn, fun cm => (key cm).1, fun cm => (key cm).2⟩

/-- `params<T>::Pn` of the context -/
def pnOf (c : Ctx) : Nat → Nat := fun cm => (c.row cm).pn

theorem mulmod_32 (p pn x y : Nat) : mulmod 32 p pn x y = mulmodDiv 32 p x y := by simp [mulmod]
theorem mulmod_64 (p pn x y : Nat) : mulmod 64 p pn x y = mulmod64 p pn x y := by simp [mulmod]
theorem mulmodDiv_lt (w p x y : Nat) : mulmodDiv w p x y < 2 ^ w := Nat.mod_lt _ (Nat.two_pow_pos w)
theorem mulmod64_lt (p pn x y : Nat) : mulmod64 p pn x y < 2 ^ 64 := by
  have := Compose2.mulmod_lt_word 64 p pn x y
  rwa [mulmod_64] at this
theorem submod_lt (w p x y : Nat) : submod w p x y < 2 ^ w := Compose2.addmod_lt_word _ _ _ _
theorem mulmodShoup_lt (w p x y q : Nat) : mulmodShoup w p x y q < 2 ^ w := Nat.mod_lt _ (Nat.two_pow_pos w)
theorem computeShoup_lt (w p x : Nat) : computeShoup w p x < 2 ^ w := Nat.mod_lt _ (Nat.two_pow_pos w)

/-- the serial `store` writes one lane; `vs = 1` -/
theorem serial_store_lanes (m : Mem) (p : Ptr) (v : Nat) : Gen.ExprAst.simd_serial_store m p v = storeBlock m p.1 p.2 [v] := rfl

theorem loadBlock_one (c : Ctx) (m : Store) (e : Expr) (cm j : Nat) : loadBlock c m e cm (j * 1) 1 = [loadElem c m e cm j] := by
  simp [loadBlock]

/-- **serial tie**: the generic loop with the serial `store` and a loader that is the model's `loadElem` on heaps of words
is `Ex.assignW` at width 1.  The invariant (all cells are words of the limb type) is what the functor equalities need; it is
preserved because every functor returns a word (`e.arith`: no comparison node). -/
theorem serial_tie (c : Ctx) (e : Expr) (harith : e.arith = true) (P Pn : Nat → Nat) (d : Nat)
    (load : Mem → Nat → Nat → Nat) (m : Store) (S : Sizes c)
    (hload : ∀ m cm i, InRange c.w m → cm < c.nmod → i < c.deg → load m cm i = loadElem c m e cm i)
    (hm : InRange c.w m) :
    Gen.ExprAst.poly_assign c.deg c.nmod P Pn 1 Gen.ExprAst.simd_serial_store load d m = assignW c 1 d e m := by
  refine assign_tie c e P Pn 1 d (fun v => [v]) _ load (InRange c.w) m serial_store_lanes ?_ ?_ Nat.one_pos S.nm S.deg S.n hm
  · intro m cm jb hm hcm hjb
    rw [Nat.div_one] at hjb
    rw [loadBlock_one, Nat.mul_one, hload m cm jb hm hcm hjb]
  · intro m cm jb hm _ _
    refine InRange.storeBlock d _ m _ hm ?_
    intro v hv
    rw [loadBlock_one] at hv
    simp only [List.mem_singleton] at hv
    subst hv
    exact Compose2.loadElem_lt_word c m (fun h k => hm.rd h k) e harith cm jb

/-- closes `load_… m obj cm i = loadElem c m tree cm i` for a 32-bit limb: unfold the translated helpers, turn the `size_t` index into
`cm * deg + i`, then rewrite every generated functor into the scalar model bottom-up (range side conditions by the `_lt` lemmas) -/
macro "load_tac32" hw:ident hm:ident hcm:ident hi:ident S:ident hp0:term : tactic =>
  `(tactic| (
    have hidx := Nat.lt_trans (idx_lt $hcm $hi) ($S).n
    have hrd := fun h k => InRange.rd $hm h k
    have hp := ($S).p
    rw [$hw:ident] at hrd hp
    expr_ast_unfold
    simp only [loadElem, $hw:ident, loadCell_eq_rd, idx_eq hidx, mulmod_32, hrd, hp, $hp0:term,
      OpsAstEq.addmod_u32_eq, OpsAstEq.submod_u32_eq, OpsAstEq.mulmod_u32_eq, OpsAstEq.mulmod_shoup_u32_eq, OpsAstEq.compute_shoup_u32_eq,
      Compose2.addmod_lt_word, submod_lt, mulmodDiv_lt, mulmodShoup_lt, computeShoup_lt]))

macro "load_tac64" hw:ident hm:ident hcm:ident hi:ident S:ident hp0:term : tactic =>
  `(tactic| (
    have hidx := Nat.lt_trans (idx_lt $hcm $hi) ($S).n
    have hrd := fun h k => InRange.rd $hm h k
    have hp := ($S).p
    have hpn := ($S).pn
    rw [$hw:ident] at hrd hp hpn
    expr_ast_unfold
    simp only [loadElem, pnOf, $hw:ident, loadCell_eq_rd, idx_eq hidx, mulmod_64, hrd, hp, hpn, $hp0:term,
      OpsAstEq.addmod_u64_eq, OpsAstEq.submod_u64_eq, OpsAstEq.mulmod_u64_eq, OpsAstEq.mulmod_shoup_u64_eq, OpsAstEq.compute_shoup_u64_eq,
      Compose2.addmod_lt_word, submod_lt, mulmod64_lt, mulmodShoup_lt, computeShoup_lt]))

theorem w_of_32 {c : Ctx} (hl : c.l = .w32) : c.w = 32 := by simp [Ctx.w, hl, Limb.w]
theorem w_of_64 {c : Ctx} (hl : c.l = .w64) : c.w = 64 := by simp [Ctx.w, hl, Limb.w]


/-! ### the serial instances

Hypotheses of every equality: `c.l` is the limb type of the instantiation; `S : Sizes c` — `nmoduli`, `degree`, `nmoduli*degree < 2^64` (`size_t`
counters / element index) and `P[cm]`, `Pn[cm]` words of `T`; `hm : InRange c.w m` — every cell of the heap is a value of `T` (the generated functors
do arithmetic in `T` / `int` / the double-width type, the hand model on naturals: they agree on words of `T`).  `compute_shoup` additionally needs
`0 < P[cm]` (division by `p`; the `while (x >= p)` loop).  Nothing relates `d` to `a0 …`: every aliasing pattern. -/
open Gen.ExprAst

/-- `d = a0 + a1`, serial build, `uint32_t` -/
theorem assign_add_serial_u32_eq (c : Ctx) (hl : c.l = .w32) (S : Sizes c) (m : Store) (hm : InRange c.w m) (d a0 a1 : Nat) :
    assign_add_serial_u32 c.deg c.nmod c.p (pnOf c) m d a0 a1 = assign c .serial d (.add (.leaf a0) (.leaf a1)) m := by
  have hw := w_of_32 hl
  have hmode : mode .serial c.l (.add (.leaf a0) (.leaf a1)) = .serial := by rw [hl]; rfl
  unfold assign
  rw [hmode]
  refine serial_tie c _ rfl c.p (pnOf c) d _ m S ?_ hm
  intro m cm i hm hcm hi
  load_tac32 hw hm hcm hi S trivial

/-- `d = a0 - a1`, serial build, `uint32_t` -/
theorem assign_sub_serial_u32_eq (c : Ctx) (hl : c.l = .w32) (S : Sizes c) (m : Store) (hm : InRange c.w m) (d a0 a1 : Nat) :
    assign_sub_serial_u32 c.deg c.nmod c.p (pnOf c) m d a0 a1 = assign c .serial d (.sub (.leaf a0) (.leaf a1)) m := by
  have hw := w_of_32 hl
  have hmode : mode .serial c.l (.sub (.leaf a0) (.leaf a1)) = .serial := by rw [hl]; rfl
  unfold assign
  rw [hmode]
  refine serial_tie c _ rfl c.p (pnOf c) d _ m S ?_ hm
  intro m cm i hm hcm hi
  load_tac32 hw hm hcm hi S trivial

/-- `d = a0 * a1`, serial build, `uint32_t` -/
theorem assign_mul_serial_u32_eq (c : Ctx) (hl : c.l = .w32) (S : Sizes c) (m : Store) (hm : InRange c.w m) (d a0 a1 : Nat) :
    assign_mul_serial_u32 c.deg c.nmod c.p (pnOf c) m d a0 a1 = assign c .serial d (.mul (.leaf a0) (.leaf a1)) m := by
  have hw := w_of_32 hl
  have hmode : mode .serial c.l (.mul (.leaf a0) (.leaf a1)) = .serial := by rw [hl]; rfl
  unfold assign
  rw [hmode]
  refine serial_tie c _ rfl c.p (pnOf c) d _ m S ?_ hm
  intro m cm i hm hcm hi
  load_tac32 hw hm hcm hi S trivial

/-- `d = shoup(a0 * a1, a2)  [fused by _make_op]`, serial build, `uint32_t` -/
theorem assign_shoup_serial_u32_eq (c : Ctx) (hl : c.l = .w32) (S : Sizes c) (m : Store) (hm : InRange c.w m) (d a0 a1 a2 : Nat) :
    assign_shoup_serial_u32 c.deg c.nmod c.p (pnOf c) m d a0 a1 a2 = assign c .serial d (.shoup3 (.leaf a0) (.leaf a1) (.leaf a2)) m := by
  have hw := w_of_32 hl
  have hmode : mode .serial c.l (.shoup3 (.leaf a0) (.leaf a1) (.leaf a2)) = .serial := by rw [hl]; rfl
  unfold assign
  rw [hmode]
  refine serial_tie c _ rfl c.p (pnOf c) d _ m S ?_ hm
  intro m cm i hm hcm hi
  load_tac32 hw hm hcm hi S trivial

/-- `d = (a0 + a1) * a2`, serial build, `uint32_t` -/
theorem assign_addmul_serial_u32_eq (c : Ctx) (hl : c.l = .w32) (S : Sizes c) (m : Store) (hm : InRange c.w m) (d a0 a1 a2 : Nat) :
    assign_addmul_serial_u32 c.deg c.nmod c.p (pnOf c) m d a0 a1 a2 = assign c .serial d (.mul (.add (.leaf a0) (.leaf a1)) (.leaf a2)) m := by
  have hw := w_of_32 hl
  have hmode : mode .serial c.l (.mul (.add (.leaf a0) (.leaf a1)) (.leaf a2)) = .serial := by rw [hl]; rfl
  unfold assign
  rw [hmode]
  refine serial_tie c _ rfl c.p (pnOf c) d _ m S ?_ hm
  intro m cm i hm hcm hi
  load_tac32 hw hm hcm hi S trivial

/-- `d = a0 + shoup(a1 * a2, a3)  [fused by _make_op]`, serial build, `uint32_t` -/
theorem assign_fma_serial_u32_eq (c : Ctx) (hl : c.l = .w32) (S : Sizes c) (m : Store) (hm : InRange c.w m) (d a0 a1 a2 a3 : Nat) :
    assign_fma_serial_u32 c.deg c.nmod c.p (pnOf c) m d a0 a1 a2 a3 = assign c .serial d (.add (.leaf a0) (.shoup3 (.leaf a1) (.leaf a2) (.leaf a3))) m := by
  have hw := w_of_32 hl
  have hmode : mode .serial c.l (.add (.leaf a0) (.shoup3 (.leaf a1) (.leaf a2) (.leaf a3))) = .serial := by rw [hl]; rfl
  unfold assign
  rw [hmode]
  refine serial_tie c _ rfl c.p (pnOf c) d _ m S ?_ hm
  intro m cm i hm hcm hi
  load_tac32 hw hm hcm hi S trivial

/-- `d = compute_shoup(a0)`, serial build, `uint32_t` -/
theorem assign_cs_serial_u32_eq (c : Ctx) (hl : c.l = .w32) (S : Sizes c) (hp0 : ∀ cm, cm < c.nmod → 0 < c.p cm) (m : Store) (hm : InRange c.w m) (d a0 : Nat) :
    assign_cs_serial_u32 c.deg c.nmod c.p (pnOf c) m d a0 = assign c .serial d (.computeShoup (.leaf a0)) m := by
  have hw := w_of_32 hl
  have hmode : mode .serial c.l (.computeShoup (.leaf a0)) = .serial := by rw [hl]; rfl
  unfold assign
  rw [hmode]
  refine serial_tie c _ rfl c.p (pnOf c) d _ m S ?_ hm
  intro m cm i hm hcm hi
  load_tac32 hw hm hcm hi S (hp0 cm hcm)

/-- `d = a0 + a1`, serial build, `uint64_t` -/
theorem assign_add_serial_u64_eq (c : Ctx) (hl : c.l = .w64) (S : Sizes c) (m : Store) (hm : InRange c.w m) (d a0 a1 : Nat) :
    assign_add_serial_u64 c.deg c.nmod c.p (pnOf c) m d a0 a1 = assign c .serial d (.add (.leaf a0) (.leaf a1)) m := by
  have hw := w_of_64 hl
  have hmode : mode .serial c.l (.add (.leaf a0) (.leaf a1)) = .serial := by rw [hl]; rfl
  unfold assign
  rw [hmode]
  refine serial_tie c _ rfl c.p (pnOf c) d _ m S ?_ hm
  intro m cm i hm hcm hi
  load_tac64 hw hm hcm hi S trivial

/-- `d = a0 - a1`, serial build, `uint64_t` -/
theorem assign_sub_serial_u64_eq (c : Ctx) (hl : c.l = .w64) (S : Sizes c) (m : Store) (hm : InRange c.w m) (d a0 a1 : Nat) :
    assign_sub_serial_u64 c.deg c.nmod c.p (pnOf c) m d a0 a1 = assign c .serial d (.sub (.leaf a0) (.leaf a1)) m := by
  have hw := w_of_64 hl
  have hmode : mode .serial c.l (.sub (.leaf a0) (.leaf a1)) = .serial := by rw [hl]; rfl
  unfold assign
  rw [hmode]
  refine serial_tie c _ rfl c.p (pnOf c) d _ m S ?_ hm
  intro m cm i hm hcm hi
  load_tac64 hw hm hcm hi S trivial

/-- `d = a0 * a1`, serial build, `uint64_t` -/
theorem assign_mul_serial_u64_eq (c : Ctx) (hl : c.l = .w64) (S : Sizes c) (m : Store) (hm : InRange c.w m) (d a0 a1 : Nat) :
    assign_mul_serial_u64 c.deg c.nmod c.p (pnOf c) m d a0 a1 = assign c .serial d (.mul (.leaf a0) (.leaf a1)) m := by
  have hw := w_of_64 hl
  have hmode : mode .serial c.l (.mul (.leaf a0) (.leaf a1)) = .serial := by rw [hl]; rfl
  unfold assign
  rw [hmode]
  refine serial_tie c _ rfl c.p (pnOf c) d _ m S ?_ hm
  intro m cm i hm hcm hi
  load_tac64 hw hm hcm hi S trivial

/-- `d = shoup(a0 * a1, a2)  [fused by _make_op]`, serial build, `uint64_t` -/
theorem assign_shoup_serial_u64_eq (c : Ctx) (hl : c.l = .w64) (S : Sizes c) (m : Store) (hm : InRange c.w m) (d a0 a1 a2 : Nat) :
    assign_shoup_serial_u64 c.deg c.nmod c.p (pnOf c) m d a0 a1 a2 = assign c .serial d (.shoup3 (.leaf a0) (.leaf a1) (.leaf a2)) m := by
  have hw := w_of_64 hl
  have hmode : mode .serial c.l (.shoup3 (.leaf a0) (.leaf a1) (.leaf a2)) = .serial := by rw [hl]; rfl
  unfold assign
  rw [hmode]
  refine serial_tie c _ rfl c.p (pnOf c) d _ m S ?_ hm
  intro m cm i hm hcm hi
  load_tac64 hw hm hcm hi S trivial

/-- `d = (a0 + a1) * a2`, serial build, `uint64_t` -/
theorem assign_addmul_serial_u64_eq (c : Ctx) (hl : c.l = .w64) (S : Sizes c) (m : Store) (hm : InRange c.w m) (d a0 a1 a2 : Nat) :
    assign_addmul_serial_u64 c.deg c.nmod c.p (pnOf c) m d a0 a1 a2 = assign c .serial d (.mul (.add (.leaf a0) (.leaf a1)) (.leaf a2)) m := by
  have hw := w_of_64 hl
  have hmode : mode .serial c.l (.mul (.add (.leaf a0) (.leaf a1)) (.leaf a2)) = .serial := by rw [hl]; rfl
  unfold assign
  rw [hmode]
  refine serial_tie c _ rfl c.p (pnOf c) d _ m S ?_ hm
  intro m cm i hm hcm hi
  load_tac64 hw hm hcm hi S trivial

/-- `d = a0 + shoup(a1 * a2, a3)  [fused by _make_op]`, serial build, `uint64_t` -/
theorem assign_fma_serial_u64_eq (c : Ctx) (hl : c.l = .w64) (S : Sizes c) (m : Store) (hm : InRange c.w m) (d a0 a1 a2 a3 : Nat) :
    assign_fma_serial_u64 c.deg c.nmod c.p (pnOf c) m d a0 a1 a2 a3 = assign c .serial d (.add (.leaf a0) (.shoup3 (.leaf a1) (.leaf a2) (.leaf a3))) m := by
  have hw := w_of_64 hl
  have hmode : mode .serial c.l (.add (.leaf a0) (.shoup3 (.leaf a1) (.leaf a2) (.leaf a3))) = .serial := by rw [hl]; rfl
  unfold assign
  rw [hmode]
  refine serial_tie c _ rfl c.p (pnOf c) d _ m S ?_ hm
  intro m cm i hm hcm hi
  load_tac64 hw hm hcm hi S trivial

/-- `d = compute_shoup(a0)`, serial build, `uint64_t` -/
theorem assign_cs_serial_u64_eq (c : Ctx) (hl : c.l = .w64) (S : Sizes c) (hp0 : ∀ cm, cm < c.nmod → 0 < c.p cm) (m : Store) (hm : InRange c.w m) (d a0 : Nat) :
    assign_cs_serial_u64 c.deg c.nmod c.p (pnOf c) m d a0 = assign c .serial d (.computeShoup (.leaf a0)) m := by
  have hw := w_of_64 hl
  have hmode : mode .serial c.l (.computeShoup (.leaf a0)) = .serial := by rw [hl]; rfl
  unfold assign
  rw [hmode]
  refine serial_tie c _ rfl c.p (pnOf c) d _ m S ?_ hm
  intro m cm i hm hcm hi
  load_tac64 hw hm hcm hi S (hp0 cm hcm)

/-! the SSE build, `uint64_t`: `addmod<uint64_t, sse>` inherits the serial functor (`simd_mode = serial`), the product's tag is that mode: the whole
tree resolves to the serial mode and is evaluated by the scalar functors -/

/-- `d = (a0 + a1) * a2`, sse build, `uint64_t` -/
theorem assign_addmul_sse_u64_eq (c : Ctx) (hl : c.l = .w64) (S : Sizes c) (m : Store) (hm : InRange c.w m) (d a0 a1 a2 : Nat) :
    assign_addmul_sse_u64 c.deg c.nmod c.p (pnOf c) m d a0 a1 a2 = assign c .sse d (.mul (.add (.leaf a0) (.leaf a1)) (.leaf a2)) m := by
  have hw := w_of_64 hl
  have hmode : mode .sse c.l (.mul (.add (.leaf a0) (.leaf a1)) (.leaf a2)) = .serial := by rw [hl]; rfl
  unfold assign
  rw [hmode]
  refine serial_tie c _ rfl c.p (pnOf c) d _ m S ?_ hm
  intro m cm i hm hcm hi
  load_tac64 hw hm hcm hi S trivial

/-- `poly c(a0 + a1);`, serial build, `uint32_t`: `junk` = the indeterminate initial contents of `c` (values of `T`) -/
theorem construct_add_serial_u32_eq (c : Ctx) (hl : c.l = .w32) (S : Sizes c) (m : Store) (hm : InRange c.w m) (junk : List Nat)
    (hj : ∀ v ∈ junk, v < 2 ^ c.w) (a0 a1 : Nat) :
    construct_add_serial_u32 c.deg c.nmod c.p (pnOf c) m junk a0 a1 = construct c .serial junk (.add (.leaf a0) (.leaf a1)) m := by
  have hw := w_of_32 hl
  have hmode : mode .serial c.l (.add (.leaf a0) (.leaf a1)) = .serial := by rw [hl]; rfl
  have hmj : InRange c.w (m ++ [junk]) := by
    intro r hr v hv
    rcases List.mem_append.mp hr with hr | hr
    · exact hm r hr v hv
    · simp only [List.mem_singleton] at hr; subst hr; exact hj v hv
  unfold construct assign
  rw [hmode]
  refine serial_tie c _ rfl c.p (pnOf c) m.length _ (m ++ [junk]) S ?_ hmj
  intro m cm i hm hcm hi
  load_tac32 hw hm hcm hi S trivial

/-- `poly c(a0 + a1);`, serial build, `uint64_t`: `junk` = the indeterminate initial contents of `c` (values of `T`) -/
theorem construct_add_serial_u64_eq (c : Ctx) (hl : c.l = .w64) (S : Sizes c) (m : Store) (hm : InRange c.w m) (junk : List Nat)
    (hj : ∀ v ∈ junk, v < 2 ^ c.w) (a0 a1 : Nat) :
    construct_add_serial_u64 c.deg c.nmod c.p (pnOf c) m junk a0 a1 = construct c .serial junk (.add (.leaf a0) (.leaf a1)) m := by
  have hw := w_of_64 hl
  have hmode : mode .serial c.l (.add (.leaf a0) (.leaf a1)) = .serial := by rw [hl]; rfl
  have hmj : InRange c.w (m ++ [junk]) := by
    intro r hr v hv
    rcases List.mem_append.mp hr with hr | hr
    · exact hm r hr v hv
    · simp only [List.mem_singleton] at hr; subst hr; exact hj v hv
  unfold construct assign
  rw [hmode]
  refine serial_tie c _ rfl c.p (pnOf c) m.length _ (m ++ [junk]) S ?_ hmj
  intro m cm i hm hcm hi
  load_tac64 hw hm hcm hi S trivial

/-! ### `poly::operator bool` -/

theorem any_eq_range_any (row : List Nat) (N : Nat) (f : Nat → Bool) (hf : f 0 = false) (hN : row.length ≤ N) :
    (List.range N).any (fun t => f (row.getD t 0)) = row.any f := by
  rw [Bool.eq_iff_iff, List.any_eq_true, List.any_eq_true]
  constructor
  · rintro ⟨t, _, ht⟩
    by_cases hl : t < row.length
    · refine ⟨row[t], List.getElem_mem hl, ?_⟩
      simpa [List.getD_eq_getElem?_getD, List.getElem?_eq_getElem hl] using ht
    · have : row.getD t 0 = 0 := by simp [List.getD_eq_getElem?_getD, List.getElem?_eq_none (Nat.le_of_not_lt hl)]
      rw [this, hf] at ht
      cases ht
  · rintro ⟨x, hx, hfx⟩
    obtain ⟨t, ht, rfl⟩ := List.getElem_of_mem hx
    exact ⟨t, List.mem_range.mpr (by omega), by simpa [List.getD_eq_getElem?_getD, List.getElem?_eq_getElem ht] using hfx⟩

/-- `bool(a0)` (std::find_if over `[begin(), end())`) is the hand model's `polyToBool`; `N` = the extent of `_data`; the object's row has at
most `N` cells (it has exactly `N`).  Needed: a longer row would have cells the C++ never reads. -/
theorem tobool_serial_u32_eq (N : Nat) (m : Store) (a0 : Nat) (hN : (m.getD a0 []).length ≤ N) :
    tobool_serial_u32 N m a0 = polyToBool m a0 := by
  unfold polyToBool
  rw [← any_eq_range_any (m.getD a0 []) N (· != 0) rfl hN]
  simp only [tobool_serial_u32, poly_to_bool_u32, find_if_ne_last, elemPtr, Nat.sub_zero, Nat.zero_add, loadCell, neU, OpsAstEq.castSU_zero]
  congr 1
  funext t
  generalize (m.getD a0 []).getD t 0 = x
  cases x <;> simp [bne]

theorem tobool_serial_u64_eq (N : Nat) (m : Store) (a0 : Nat) (hN : (m.getD a0 []).length ≤ N) :
    tobool_serial_u64 N m a0 = polyToBool m a0 := by
  unfold polyToBool
  rw [← any_eq_range_any (m.getD a0 []) N (· != 0) rfl hN]
  simp only [tobool_serial_u64, poly_to_bool_u64, find_if_ne_last, elemPtr, Nat.sub_zero, Nat.zero_add, loadCell, neU, OpsAstEq.castSU_zero]
  congr 1
  funext t
  generalize (m.getD a0 []).getD t 0 = x
  cases x <;> simp [bne]

example : tobool_serial_u32 2 [[0, 0, 5]] 0 = false ∧ polyToBool [[0, 0, 5]] 0 = true := by decide

/-- the extent of `_data` is `Degree * NbModuli` in every instantiation the translator saw -/
theorem tobool_extents : (∀ x ∈ tobool_instances_u32, x.2.2 = x.1 * x.2.1) ∧ (∀ x ∈ tobool_instances_u64, x.2.2 = x.1 * x.2.1) := by decide

/-! ## §5 the SSE instances (`uint32_t`, 4 lanes): `addmod<uint32_t, sse>` / `submod<uint32_t, sse>` kernels of Generated/SimdAst.lean

ALL lane contents (C05: the signed-compare trick of the vector kernels is exact on every word), so no invariant of the heap is needed;
only `P[cm] < 2^32`.  The fused product `mulmod_shoup<uint32_t, sse>` equals the scalar functor only on admissible operands (Compose2):
for `assign_fma_sse_u32` the resolved data is tied (§6), the value-level equality is `Compose2.expr_real_kernels_correct`'s subject. -/

theorem sse_store_lanes (m : Mem) (p : Ptr) (v : List Nat) : simd_sse_store_u32 m p v = storeBlock m p.1 p.2 v :=
  storeLanes_eq_storeBlock p.1 v m p.2

theorem sse_leaf_u32 (c : Ctx) (m : Store) (a cm j : Nat) (hidx : cm * c.deg + j < 2 ^ 64) :
    mm_load_si128 32 m (elemPtr a (addU 64 (mulU 64 cm c.deg) j)) = loadBlock c m (.leaf a) cm j 4 := by
  rw [idx_eq hidx]
  show (List.range 4).map (fun t => rd m a (cm * c.deg + j + t)) = (List.range 4).map (fun t => rd m a (cm * c.deg + (j + t)))
  simp only [Nat.add_assoc]

theorem sse_add_node (c : Ctx) (hw : c.w = 32) (m : Store) (a b : Expr) (cm j : Nat) (hp : c.p cm < 2 ^ 32) :
    GenSimd.sse_addmod_u32 (c.p cm) (loadBlock c m a cm j 4) (loadBlock c m b cm j 4) = loadBlock c m (.add a b) cm j 4 := by
  rw [SimdAstEq.sse_addmod_u32_eq, C05.sseAddmod32_lanes hp _ _ (Compose2.loadBlock_length ..) (Compose2.loadBlock_length ..),
    Compose2.zipWith_eq_map_range _ _ _ (by simp [Compose2.loadBlock_length])]
  simp only [Compose2.loadBlock_length]
  conv => rhs; unfold loadBlock
  apply List.map_congr_left
  intro t ht
  have ht' := List.mem_range.mp ht
  simp only [Compose2.loadBlock_getD _ _ _ _ _ _ _ ht', loadElem, hw]

theorem sse_sub_node (c : Ctx) (hw : c.w = 32) (m : Store) (a b : Expr) (cm j : Nat) (hp : c.p cm < 2 ^ 32) :
    GenSimd.sse_submod_u32 (c.p cm) (loadBlock c m a cm j 4) (loadBlock c m b cm j 4) = loadBlock c m (.sub a b) cm j 4 := by
  rw [SimdAstEq.sse_submod_u32_eq, C05.sseSubmod32_lanes hp _ _ (Compose2.loadBlock_length ..) (Compose2.loadBlock_length ..),
    Compose2.zipWith_eq_map_range _ _ _ (by simp [Compose2.loadBlock_length])]
  simp only [Compose2.loadBlock_length]
  conv => rhs; unfold loadBlock
  apply List.map_congr_left
  intro t ht
  have ht' := List.mem_range.mp ht
  simp only [Compose2.loadBlock_getD _ _ _ _ _ _ _ ht', loadElem, hw]

theorem sse_tie_u32 (c : Ctx) (e : Expr) (P Pn : Nat → Nat) (d : Nat) (load : Mem → Nat → Nat → List Nat) (m : Store) (S : Sizes c)
    (hload : ∀ m cm j, cm < c.nmod → j + 4 ≤ c.deg → load m cm j = loadBlock c m e cm j 4) :
    Gen.ExprAst.poly_assign c.deg c.nmod P Pn (CSem.divU 64 16 4) simd_sse_store_u32 load d m = assignW c 4 d e m := by
  have h4 : CSem.divU 64 16 4 = 4 := by decide
  rw [h4]
  refine assign_tie c e P Pn 4 d id _ load (fun _ => True) m sse_store_lanes ?_ (fun _ _ _ _ _ _ => trivial) (by omega) S.nm S.deg S.n trivial
  intro m cm jb _ hcm hjb
  have : (jb + 1) * 4 ≤ c.deg / 4 * 4 := Nat.mul_le_mul_right 4 hjb
  have := Nat.div_mul_le_self c.deg 4
  exact hload m cm (jb * 4) hcm (by omega)

/-- `d = a0 + a1`, SSE build, `uint32_t`: 4 coefficients at a time through `_mm_load_si128` / the vector kernel / `_mm_store_si128`;
every heap (no range hypothesis on the cells), every aliasing.  `P[cm] < 2^32` (C type). -/
theorem assign_add_sse_u32_eq (c : Ctx) (hl : c.l = .w32) (S : Sizes c) (m : Store) (d a0 a1 : Nat) :
    assign_add_sse_u32 c.deg c.nmod c.p (pnOf c) m d a0 a1 = assign c .sse d (.add (.leaf a0) (.leaf a1)) m := by
  have hw := w_of_32 hl
  have hmode : eltCount c.l (mode .sse c.l (.add (.leaf a0) (.leaf a1))) = 4 := by rw [hl]; rfl
  unfold assign
  rw [hmode]
  refine sse_tie_u32 c _ c.p (pnOf c) d _ m S ?_
  intro m cm j hcm hj
  have hidx : cm * c.deg + j < 2 ^ 64 := Nat.lt_trans (idx_lt hcm (by omega)) S.n
  have hp := S.p cm
  rw [hw] at hp
  expr_ast_unfold
  rw [sse_leaf_u32 c m a0 cm j hidx, sse_leaf_u32 c m a1 cm j hidx, sse_add_node c hw m _ _ cm j hp]

theorem assign_sub_sse_u32_eq (c : Ctx) (hl : c.l = .w32) (S : Sizes c) (m : Store) (d a0 a1 : Nat) :
    assign_sub_sse_u32 c.deg c.nmod c.p (pnOf c) m d a0 a1 = assign c .sse d (.sub (.leaf a0) (.leaf a1)) m := by
  have hw := w_of_32 hl
  have hmode : eltCount c.l (mode .sse c.l (.sub (.leaf a0) (.leaf a1))) = 4 := by rw [hl]; rfl
  unfold assign
  rw [hmode]
  refine sse_tie_u32 c _ c.p (pnOf c) d _ m S ?_
  intro m cm j hcm hj
  have hidx : cm * c.deg + j < 2 ^ 64 := Nat.lt_trans (idx_lt hcm (by omega)) S.n
  have hp := S.p cm
  rw [hw] at hp
  expr_ast_unfold
  rw [sse_leaf_u32 c m a0 cm j hidx, sse_leaf_u32 c m a1 cm j hidx, sse_sub_node c hw m _ _ cm j hp]

/-! ## §6 the resolved data = what the hand model predicts

`Src.toExpr` elaborates the expression AS WRITTEN with the model's `_make_op` pattern match (`Ex.mkShoup`); `Ty.matches` compares the
type clang resolved, node by node, with the model: functor family, `tag::mode` = `Compose2.nodeTag`, `simd_mode::mode` = `Ex.mode`. -/

def _root_.Nfl.CSemExpr.Src.toExpr : Src → Option Expr
  | .leaf i => some (.leaf i)
  | .add a b => do let a ← a.toExpr; let b ← b.toExpr; pure (.add a b)
  | .sub a b => do let a ← a.toExpr; let b ← b.toExpr; pure (.sub a b)
  | .mul a b => do let a ← a.toExpr; let b ← b.toExpr; pure (.mul a b)
  | .shoup a b => do let a ← a.toExpr; let b ← b.toExpr; mkShoup a b
  | .compute_shoup a => do let a ← a.toExpr; pure (.computeShoup a)
  | .eq a b => do let a ← a.toExpr; let b ← b.toExpr; pure (.eq a b)
  | .neq a b => do let a ← a.toExpr; let b ← b.toExpr; pure (.neq a b)

/-- number of `shoup(·,·)` calls written -/
def _root_.Nfl.CSemExpr.Src.shoups : Src → Nat
  | .leaf _ => 0
  | .add a b | .sub a b | .mul a b | .eq a b | .neq a b => a.shoups + b.shoups
  | .shoup a b => a.shoups + b.shoups + 1
  | .compute_shoup a => a.shoups

def _root_.Nfl.CSemExpr.Ty.matches (be : Backend) (l : Limb) : Ty → Expr → Bool
  | .poly, e => e.isLeaf
  | .node1 fn tag simd a, e =>
    tag == (Compose2.nodeTag be l e).code && simd == (mode be l e).code &&
    match fn, e with
    | .compute_shoup, .computeShoup x => a.matches be l x
    | _, _ => false
  | .node2 fn tag simd a b, e =>
    tag == (Compose2.nodeTag be l e).code && simd == (mode be l e).code &&
    match fn, e with
    | .addmod, .add x y | .submod, .sub x y | .mulmod, .mul x y | .eqmod, .eq x y | .neqmod, .neq x y => a.matches be l x && b.matches be l y
    | _, _ => false
  | .node3 fn tag simd a b q, e =>
    tag == (Compose2.nodeTag be l e).code && simd == (mode be l e).code &&
    match fn, e with
    | .mulmod_shoup, .shoup3 x y z => a.matches be l x && b.matches be l y && q.matches be l z
    | _, _ => false

/-- everything clang resolved for one assignment agrees with the model: the written expression elaborates (every `shoup` call meets a
product: fusion) to a tree the resolved type matches node by node; the number of `_make_op` calls that took the fusion specialisation is the
number of `shoup` calls; the mode whose `store` is called is `Ex.mode` of the root; `vector_size` is `Ex.eltCount` of it -/
def _root_.Nfl.CSemExpr.Resolved.ok (r : Resolved) : Bool :=
  match Mode.ofCode r.backend, Limb.ofW r.limbBits, r.src.toExpr with
  | some be, some l, some e =>
    r.ty.matches be l e && r.fused == r.src.shoups && r.storeMode == (mode be l e).code && r.vectorSize == eltCount l (mode be l e)
  | _, _, _ => false

theorem resolved_add_serial_u32_ok : resolved_add_serial_u32.ok = true := by decide
theorem resolved_sub_serial_u32_ok : resolved_sub_serial_u32.ok = true := by decide
theorem resolved_mul_serial_u32_ok : resolved_mul_serial_u32.ok = true := by decide
theorem resolved_shoup_serial_u32_ok : resolved_shoup_serial_u32.ok = true := by decide
theorem resolved_addmul_serial_u32_ok : resolved_addmul_serial_u32.ok = true := by decide
theorem resolved_fma_serial_u32_ok : resolved_fma_serial_u32.ok = true := by decide
theorem resolved_cs_serial_u32_ok : resolved_cs_serial_u32.ok = true := by decide
theorem resolved_add_serial_u64_ok : resolved_add_serial_u64.ok = true := by decide
theorem resolved_sub_serial_u64_ok : resolved_sub_serial_u64.ok = true := by decide
theorem resolved_mul_serial_u64_ok : resolved_mul_serial_u64.ok = true := by decide
theorem resolved_shoup_serial_u64_ok : resolved_shoup_serial_u64.ok = true := by decide
theorem resolved_addmul_serial_u64_ok : resolved_addmul_serial_u64.ok = true := by decide
theorem resolved_fma_serial_u64_ok : resolved_fma_serial_u64.ok = true := by decide
theorem resolved_cs_serial_u64_ok : resolved_cs_serial_u64.ok = true := by decide
theorem resolved_add_sse_u32_ok : resolved_add_sse_u32.ok = true := by decide
theorem resolved_sub_sse_u32_ok : resolved_sub_sse_u32.ok = true := by decide
theorem resolved_fma_sse_u32_ok : resolved_fma_sse_u32.ok = true := by decide
theorem resolved_addmul_sse_u64_ok : resolved_addmul_sse_u64.ok = true := by decide

/-- the check is not vacuous: the same data with the fusion undone / a wrong mode is rejected -/
example : ({ resolved_fma_sse_u32 with fused := 0 } : Resolved).ok = false ∧ ({ resolved_addmul_sse_u64 with storeMode := 1 } : Resolved).ok = false ∧
    ({ resolved_add_sse_u32 with vectorSize := 1 } : Resolved).ok = false := by decide

end Nfl.ExprAst
