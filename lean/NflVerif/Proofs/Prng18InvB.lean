/- C18 helper lemmas, part B: bookkeeping of requests (who holds which ticket, who has been served what). -/
import NflVerif.Proofs.Prng18InvA
namespace Nfl.Prng18

/-- the values of `nonce` thread `t` saw at its mutex acquisitions, in order -/
def tickets (s : State) (t : Nat) : List Nat := (s.acq.filter (fun x => x.1 == t)).map (·.2)

def outPair (o : Out) : Nat × Nat := (o.tid, o.nonce)

structure InvB (reqs : Nat → Nat) (s : State) : Prop where
  pendMem : ∀ t, (s.thr t).pc ≠ .idle → (t, (s.thr t).ticket) ∈ s.pend
  pendOk : ∀ x ∈ s.pend, (s.thr x.1).pc ≠ .idle ∧ x.2 = (s.thr x.1).ticket
  pendNodup : s.pend.Nodup
  perm : (s.out.map outPair ++ s.pend).Perm s.acq
  order : ∀ t, tickets s t = served s t ++ (if (s.thr t).pc = .idle then [] else [(s.thr t).ticket])
  count : ∀ t, (s.out.filter (fun o => o.tid == t)).length + (s.thr t).todo + (if (s.thr t).pc = .idle then 0 else 1) = reqs t

theorem invB_init (reqs : Nat → Nat) (n0 : Nat) : InvB reqs (init reqs n0) := by
  constructor <;> simp [init, tickets, served]

theorem invB_step {sd : Seeding} {seedVal : Nat → Nat} {reqs : Nat → Nat} {n0 : Nat} {s s' : State} {t : Nat}
    (ha : InvA sd seedVal n0 s) (hi : InvB reqs s) (hs : step sd seedVal s t = some s') : InvB reqs s' := by
  obtain ⟨pendMem, pendOk, pendNodup, perm, order, count⟩ := hi
  cases hpc : (s.thr t).pc <;> simp only [step, hpc] at hs
  case idle =>
    split at hs
    · cases hs
    · rename_i htodo
      split at hs
      · cases hs
      · simp at hs; subst hs
        have hnotin : ∀ v, (t, v) ∉ s.pend := fun v hv => (pendOk _ hv).1 hpc
        constructor
        case pendMem =>
          intro t' ht'
          by_cases h : t' = t
          · subst h; simp
          · simp [upd_other _ _ h] at ht' ⊢; exact Or.inl (pendMem t' ht')
        case pendOk =>
          intro x hx
          simp at hx
          rcases hx with hx | rfl
          · have hne : x.1 ≠ t := fun h => hnotin x.2 (by rw [← h]; exact hx)
            simpa [upd_other _ _ hne] using pendOk x hx
          · simp
        case pendNodup =>
          simp only [List.nodup_append]
          refine ⟨pendNodup, by simp, ?_⟩
          intro a ha b hb
          simp at hb; subst hb
          intro h; subst h; exact hnotin _ ha
        case perm =>
          show (s.out.map outPair ++ (s.pend ++ [(t, s.nonce)])).Perm (s.acq ++ [(t, s.nonce)])
          rw [← List.append_assoc]
          exact List.Perm.append_right _ perm
        case order =>
          intro t'
          by_cases h : t' = t
          · subst h
            have := order t'
            simp [hpc] at this
            simp [tickets, served, List.filter_append] at this ⊢
            exact this
          · have := order t'
            have hne : ¬ (t = t') := fun hh => h hh.symm
            simp [tickets, served, List.filter_append, upd_other _ _ h, hne] at this ⊢
            exact this
        case count =>
          intro t'
          by_cases h : t' = t
          · subst h
            have := count t'
            simp [hpc] at this ⊢
            omega
          · simpa [upd_other _ _ h] using count t'
  case gen =>
    simp at hs; subst hs
    have hmy : (s.thr t).my = (s.thr t).ticket := ha.myI t (by simp [hpc, Pc.hasMy])
    have hmem : (t, (s.thr t).ticket) ∈ s.pend := pendMem t (by simp [hpc])
    constructor
    case pendMem =>
      intro t' ht'
      by_cases h : t' = t
      · subst h; simp at ht'
      · simp [upd_other _ _ h] at ht' ⊢
        rw [List.mem_erase_of_ne (by intro hh; exact h (Prod.mk.inj hh).1)]
        exact pendMem t' ht'
    case pendOk =>
      intro x hx
      rw [pendNodup.mem_erase_iff] at hx
      obtain ⟨hne, hx⟩ := hx
      have hx1 : x.1 ≠ t := by
        intro h
        apply hne
        have := (pendOk x hx).2
        rw [h] at this
        exact Prod.ext h this
      simpa [upd_other _ _ hx1] using pendOk x hx
    case pendNodup => exact pendNodup.erase _
    case perm =>
      show ((s.out ++ [Out.mk t (s.thr t).my s.key s.miss]).map outPair ++ s.pend.erase (t, (s.thr t).ticket)).Perm s.acq
      refine List.Perm.trans ?_ perm
      simp only [List.map_append, List.map_cons, List.map_nil, outPair, hmy, List.append_assoc]
      apply List.Perm.append_left
      exact (List.perm_cons_erase hmem).symm
    case order =>
      intro t'
      by_cases h : t' = t
      · subst h
        have := order t'
        simp [hpc] at this
        simp [tickets, served, List.filter_append, hmy] at this ⊢
        exact this
      · have := order t'
        have hne : ¬ (t = t') := fun hh => h hh.symm
        simp [tickets, served, List.filter_append, upd_other _ _ h, hne] at this ⊢
        exact this
    case count =>
      intro t'
      by_cases h : t' = t
      · subst h
        have := count t'
        simp [hpc] at this
        simp [List.filter_append]
        omega
      · have hne : ¬ (t = t') := fun hh => h hh.symm
        simpa [upd_other _ _ h, List.filter_append, hne] using count t'
  all_goals
    simp at hs; subst hs
    constructor
    case pendMem => intro t'; have := pendMem t'; by_cases h : t' = t <;> grind [upd]
    case pendOk => intro x hx; have := pendOk x hx; by_cases h : x.1 = t <;> grind [upd]
    case pendNodup => exact pendNodup
    case perm => exact perm
    case order => intro t'; have := order t'; by_cases h : t' = t <;> simp_all [tickets, served, upd] <;> grind
    case count => intro t'; have := count t'; by_cases h : t' = t <;> simp_all [upd] <;> grind

end Nfl.Prng18
